// wiremsgpack: correspondence and oracle for the MessagePack wire layer (check Wmsgpack)
// and the MessagePack half of C10.
//
// Streams (every case is also written as a Coq term for Wire/MsgpackCorr to re-run on the model):
//
//	enc     random item trees -> Go values -> real Encoder under random options; bytes are
//	        compared with the model's enc, and parsed by the reference decoder (C10 out)
//	ref     reference encoder (every width/length form the specification permits) -> real
//	        Decode into interface{}; data must be what the specification assigns (C10 in)
//	mut     valid encodings with one mutation (truncation, byte flip, length edit, splice)
//	rand    raw random bytes
//	first   all 256 first bytes x a fixed set of tails, decode and skip
//	skip    nextValueBytes through Decode(&Raw) and through a struct with an unknown field
//	deep    (subprocess, 64 MB stack) megabytes of nested containers on the decode and skip paths
package main

import (
	"bytes"
	"errors"
	"flag"
	"fmt"
	"io"
	"math"
	"os"
	"os/exec"
	"runtime/debug"
	"strings"
	"time"

	"verifharness/vh"

	"github.com/ugorji/go/codec"
)

// ---- options ----

type encOpts struct{ WriteExt, NoFixedNum, PositiveIntUnsigned, StringToRaw bool }
type decOpts struct {
	WriteExt, RawToString, SignedInteger bool
	MaxDepth                             int
	// not part of the model: must not matter
	ZeroCopy, InternString, ValidateUnicode bool
}

func (o encOpts) Coq() string {
	return fmt.Sprintf("(mkeopts %s %s %s %s)", vh.CoqBool(o.WriteExt), vh.CoqBool(o.NoFixedNum), vh.CoqBool(o.PositiveIntUnsigned), vh.CoqBool(o.StringToRaw))
}
func (o decOpts) Coq() string {
	return fmt.Sprintf("(mkdopts %s %s %s %s)", vh.CoqBool(o.WriteExt), vh.CoqBool(o.RawToString), vh.CoqBool(o.SignedInteger), vh.CoqZ(int64(o.MaxDepth)))
}
func (o encOpts) Key() string {
	return fmt.Sprintf("e%v%v%v%v", b2i(o.WriteExt), b2i(o.NoFixedNum), b2i(o.PositiveIntUnsigned), b2i(o.StringToRaw))
}
func (o decOpts) Key() string {
	return fmt.Sprintf("d%v%v%v", b2i(o.WriteExt), b2i(o.RawToString), b2i(o.SignedInteger))
}
func b2i(b bool) int {
	if b {
		return 1
	}
	return 0
}

func randEncOpts(r *vh.Rng) encOpts {
	return encOpts{r.Bool(), r.Chance(1, 3), r.Chance(1, 3), r.Chance(1, 4)}
}
func randDecOpts(r *vh.Rng) decOpts {
	o := decOpts{WriteExt: r.Bool(), RawToString: r.Chance(1, 3), SignedInteger: r.Chance(1, 4)}
	if r.Chance(1, 4) {
		o.MaxDepth = r.PickInt(1, 2, 3, 4, 8, -1)
	}
	o.ZeroCopy = r.Chance(1, 4)
	o.InternString = r.Chance(1, 4)
	o.ValidateUnicode = r.Chance(1, 4)
	return o
}

func (o encOpts) handle() *codec.MsgpackHandle {
	h := &codec.MsgpackHandle{}
	h.WriteExt = o.WriteExt
	h.NoFixedNum = o.NoFixedNum
	h.PositiveIntUnsigned = o.PositiveIntUnsigned
	h.StringToRaw = o.StringToRaw
	return h
}
func (o decOpts) handle() *codec.MsgpackHandle {
	h := &codec.MsgpackHandle{}
	h.WriteExt = o.WriteExt
	h.RawToString = o.RawToString
	h.SignedInteger = o.SignedInteger
	h.MaxDepth = int16(o.MaxDepth)
	h.ZeroCopy = o.ZeroCopy
	h.InternString = o.InternString
	h.ValidateUnicode = o.ValidateUnicode
	// A repeated map key is assigned again (last entry wins). With MapValueReset=false the
	// generic layer decodes the later value INTO the earlier one (typed decoding, not the wire
	// layer); the wire model describes the entries as read.
	h.MapValueReset = true
	return h
}

// ---- error classes (Base/Outcome.eclass_code) ----

func errClass(err error) int {
	if err == nil {
		return 0
	}
	if errors.Is(err, io.ErrUnexpectedEOF) || errors.Is(err, io.EOF) {
		return 1
	}
	m := err.Error()
	switch {
	case strings.Contains(m, "out of bounds with capacity"):
		return 1
	case strings.Contains(m, "unrecognized descriptor byte"):
		return 2
	case strings.Contains(m, "maximum decoding depth exceeded"):
		return 4
	case strings.Contains(m, "uint64 to int64 overflow"):
		return 3
	}
	return 8
}

// ---- running the implementation under a watchdog ----

type outcome struct {
	v        interface{}
	raw      []byte
	err      error
	n        int
	panicked string
	timedOut bool
}

const watchdog = 10 * time.Second

func guarded(f func() outcome) outcome {
	ch := make(chan outcome, 1)
	go func() {
		defer func() {
			if p := recover(); p != nil {
				ch <- outcome{panicked: fmt.Sprint(p)}
			}
		}()
		ch <- f()
	}()
	select {
	case o := <-ch:
		return o
	case <-time.After(watchdog):
		return outcome{timedOut: true}
	}
}

func exact(in []byte) []byte {
	b := make([]byte, len(in))
	copy(b, in)
	return b
}

func runDecode(o decOpts, in []byte) outcome {
	return guarded(func() outcome {
		var v interface{}
		d := codec.NewDecoderBytes(exact(in), o.handle())
		err := d.Decode(&v)
		return outcome{v: v, err: err, n: d.NumBytesRead()}
	})
}

// skip through Decode(&Raw): nextValueBytes at the top level
func runSkipRaw(o decOpts, in []byte) outcome {
	return guarded(func() outcome {
		var v codec.Raw
		d := codec.NewDecoderBytes(exact(in), o.handle())
		err := d.Decode(&v)
		return outcome{raw: []byte(v), err: err, n: d.NumBytesRead()}
	})
}

type emptyStruct struct{}

var unknownFieldPrefix = []byte{0x81, 0xa1, 0x78} // {"x": <value>}

// skip through structFieldNotFound -> swallow
func runSkipStruct(o decOpts, in []byte) outcome {
	return guarded(func() outcome {
		var v emptyStruct
		full := append(exact(unknownFieldPrefix), in...)
		d := codec.NewDecoderBytes(exact(full), o.handle())
		err := d.Decode(&v)
		n := d.NumBytesRead() - len(unknownFieldPrefix)
		if n < 0 {
			n = 0 // failed before the value was reached (MaxDepth = 1)
		}
		return outcome{err: err, n: n}
	})
}

// ---- what the specification assigns, as the library presents it ----

// expectDecoded: the item Decode(&interface{}) must produce for spec item it under o.
// ok=false: outside what the library supports (stated in C10_msgpack_in).
func expectDecoded(o decOpts, it *Item, isKey bool) (*Item, bool) {
	switch it.K {
	case KF32:
		return &Item{K: KF64, Bits: widen(uint32(it.Bits))}, true
	case KStr:
		if o.WriteExt || o.RawToString || isKey {
			return &Item{K: KStr, S: it.S}, true
		}
		return &Item{K: KBytes, S: it.S}, true
	case KBytes:
		if o.RawToString || isKey {
			return &Item{K: KStr, S: it.S}, true
		}
		return &Item{K: KBytes, S: it.S}, true
	case KArr:
		if isKey {
			return nil, false
		}
		out := &Item{K: KArr, L: make([]*Item, len(it.L))}
		for i, x := range it.L {
			if i > 0 && x == it.L[i-1] {
				out.L[i] = out.L[i-1]
				continue
			}
			e, ok := expectDecoded(o, x, false)
			if !ok {
				return nil, false
			}
			out.L[i] = e
		}
		return out, true
	case KMap:
		if isKey {
			return nil, false
		}
		out := &Item{K: KMap}
		for _, kv := range it.M {
			k, ok1 := expectDecoded(o, kv[0], true)
			v, ok2 := expectDecoded(o, kv[1], false)
			if !ok1 || !ok2 {
				return nil, false
			}
			out.M = append(out.M, [2]*Item{k, v})
		}
		return out, true
	case KExt:
		if isKey || it.Tag == 255 {
			return nil, false
		}
	}
	return it, true
}

// spec item the encoder's output must denote for item it under o (C10 out)
func expectEncoded(o encOpts, it *Item) (*Item, bool) {
	switch it.K {
	case KStr:
		if o.WriteExt && o.StringToRaw {
			return &Item{K: KBytes, S: it.S}, true
		}
		return it, true
	case KBytes:
		if o.WriteExt {
			return it, true
		}
		return &Item{K: KStr, S: it.S}, true
	case KTime:
		if it.Sec == -62135596800 && it.Nsec == 0 {
			return &Item{K: KNil}, true // the zero time.Time is written as nil
		}
		if o.WriteExt {
			return it, true
		}
		// legacy: the timestamp payload as a raw string
		fs := timeForms(it.Sec, it.Nsec)
		f := fs[0]
		hl := 2
		if f[0] == 0xc7 {
			hl = 3
		}
		return &Item{K: KStr, S: f[hl:]}, true
	case KExt:
		if it.Tag == 255 {
			return nil, false
		}
		return it, true
	case KArr:
		out := &Item{K: KArr, L: make([]*Item, len(it.L))}
		for i, x := range it.L {
			if i > 0 && x == it.L[i-1] {
				out.L[i] = out.L[i-1]
				continue
			}
			e, ok := expectEncoded(o, x)
			if !ok {
				return nil, false
			}
			out.L[i] = e
		}
		return out, true
	case KMap:
		out := &Item{K: KMap}
		for _, kv := range it.M {
			k, ok1 := expectEncoded(o, kv[0])
			v, ok2 := expectEncoded(o, kv[1])
			if !ok1 || !ok2 {
				return nil, false
			}
			out.M = append(out.M, [2]*Item{k, v})
		}
		return out, true
	}
	return it, true
}

// hasBigUnsigned: an unsigned integer >= 2^63 somewhere (SignedInteger cannot represent it)
func hasBigUnsigned(it *Item) bool {
	if it.K == KUint && it.U >= 1<<63 {
		return true
	}
	for _, x := range it.L {
		if hasBigUnsigned(x) {
			return true
		}
	}
	for _, kv := range it.M {
		if hasBigUnsigned(kv[0]) || hasBigUnsigned(kv[1]) {
			return true
		}
	}
	return false
}

// ---- harness state ----

type H struct {
	r   *vh.Rng
	sum *vh.Summary
	cv  *vh.Cases
	id  int
}

func (h *H) addCase(kind int, eo encOpts, do decOpts, it *Item, b []byte, class, read int) int {
	id := h.id
	h.id++
	h.cv.Add(fmt.Sprintf("mkcase %d %d %s %s %s %s %d %d", id, kind, eo.Coq(), do.Coq(), it.Coq(), coqBytes(b), class, read))
	h.sum.ModelCases++
	return id
}

func firstClass(b []byte) string {
	if len(b) == 0 {
		return "empty"
	}
	c := b[0]
	switch {
	case c <= 0x7f:
		return "posfix"
	case c <= 0x8f:
		return "fixmap"
	case c <= 0x9f:
		return "fixarr"
	case c <= 0xbf:
		return "fixstr"
	case c >= 0xe0:
		return "negfix"
	}
	return fmt.Sprintf("%02x", c)
}

func lenBucket(n int) string {
	switch {
	case n < 16:
		return fmt.Sprint(n)
	case n < 32:
		return "16-31"
	case n < 256:
		return "32-255"
	case n < 65536:
		return "256-65535"
	}
	return ">=65536"
}

// decodeCase runs Decode(&interface{}) on b, records the model case and applies the oracles that
// hold for every input (no hang, no escaping panic, no impossible dynamic type).
func (h *H) decodeCase(stream string, do decOpts, b []byte) (outcome, *Item, int) {
	o := runDecode(do, b)
	cj := map[string]interface{}{"bytes": vh.Hex(trunc(b)), "len": len(b), "opts": fmt.Sprintf("%+v", do), "stream": stream}
	if o.timedOut {
		h.sum.FailC(stream, "hang:decode-naked:"+firstClass(b), "Decode into interface{} did not return within the watchdog", cj)
		return o, nil, -1
	}
	if o.panicked != "" {
		h.sum.FailC(stream, "panic:decode-naked:"+firstClass(b), "Decode into interface{} let a panic escape", cj)
		return o, nil, -1
	}
	cls := errClass(o.err)
	dump := &Item{K: KNil}
	if cls == 0 {
		dump = FromGo(o.v)
		if dump.HasBad() {
			h.sum.FailC(stream, "badtype:decode-naked:"+firstClass(b), "Decode into interface{} produced a dynamic type outside the documented set", cj)
		}
	}
	id := h.addCase(1, encOpts{}, do, dump, b, cls, o.n)
	h.sum.Count("dec."+stream+fmt.Sprintf(".class%d", cls), fmt.Sprintf("dec/%s/%s/c%d/%s/%s", stream, firstClass(b), cls, do.Key(), lenBucket(len(b))))
	return o, dump, id
}

func (h *H) skipCase(stream string, do decOpts, b []byte, viaStruct bool) outcome {
	var o outcome
	path := "raw"
	if viaStruct {
		o = runSkipStruct(do, b)
		path = "struct"
	} else {
		o = runSkipRaw(do, b)
	}
	cj := map[string]interface{}{"bytes": vh.Hex(trunc(b)), "len": len(b), "path": path, "stream": stream}
	if o.timedOut {
		h.sum.FailC(stream, "hang:skip:"+firstClass(b), "nextValueBytes did not return within the watchdog", cj)
		return o
	}
	if o.panicked != "" {
		h.sum.FailC(stream, "panic:skip:"+firstClass(b), "nextValueBytes let a panic escape", cj)
		return o
	}
	cls := errClass(o.err)
	if cls == 0 && !viaStruct && !bytes.Equal(o.raw, b[:o.n]) {
		h.sum.FailC(stream, "rawbytes:skip:"+firstClass(b), "Raw does not hold exactly the bytes consumed", cj)
	}
	ck := 2
	if viaStruct {
		ck = 3
	}
	h.addCase(ck, encOpts{}, do, &Item{K: KNil}, b, cls, o.n)
	h.sum.Count("skip."+stream+fmt.Sprintf(".class%d", cls), fmt.Sprintf("skip/%s/%s/c%d/%s/%s", stream, firstClass(b), cls, path, lenBucket(len(b))))
	return o
}

func trunc(b []byte) []byte {
	if len(b) > 96 {
		return b[:96]
	}
	return b
}

// ---- streams ----

func (h *H) encStream(n int) {
	r := h.r.Fork()
	for i := 0; i < n; i++ {
		g := &genOpts{maxDepth: 3, big: i%25 == 0}
		it := randItem(r, g, 0)
		if i%7 == 0 {
			it = randScalar(r, g)
		}
		eo := randEncOpts(r)
		v := it.ToGo(r)
		var out []byte
		err := codec.NewEncoderBytes(&out, eo.handle()).Encode(v)
		cj := map[string]interface{}{"item": it.Short(), "opts": fmt.Sprintf("%+v", eo), "seed_index": i}
		if err != nil {
			h.sum.FailC("enc", "encode-error", "Encode of a supported value failed", cj)
			continue
		}
		cj["bytes"] = vh.Hex(trunc(out))
		h.addCase(0, eo, decOpts{}, it, out, 0, 0)
		// C10 out: exactly one well-formed item carrying the same data
		if exp, ok := expectEncoded(eo, it); ok {
			got, rest, rerr := RefDecode(out)
			switch {
			case rerr != nil:
				h.sum.FailC("enc", "c10out:malformed:"+kindName(it.K), "Encoder output is not a well-formed MessagePack item", cj)
			case len(rest) != 0:
				h.sum.FailC("enc", "c10out:trailing:"+kindName(it.K), "Encoder output has bytes after the item", cj)
			case !SameData(exp, got):
				cj["refdecoded"] = got.Short()
				h.sum.FailC("enc", "c10out:data:"+kindName(it.K), "reference decoder reads different data from the Encoder output", cj)
			}
		}
		h.sum.Count("enc", fmt.Sprintf("enc/%s/%s/%s/%s", kindName(it.K), eo.Key(), firstClass(out), lenBucket(len(out))))
		if i < 2 {
			h.sum.Sample(cj)
		}
	}
}

func kindName(k kind) string {
	return [...]string{"nil", "bool", "int", "uint", "f32", "f64", "str", "bytes", "arr", "map", "ext", "time", "bad"}[k]
}

// refStream: spec-permitted serialisations -> real Decode; also skip.
func (h *H) refStream(n int) [][]byte {
	r := h.r.Fork()
	var valid [][]byte
	check := func(it *Item, b []byte, do decOpts, idx int) {
		o, dump, _ := h.decodeCase("ref", do, b)
		if dump == nil {
			return
		}
		cj := map[string]interface{}{"item": it.Short(), "bytes": vh.Hex(trunc(b)), "opts": fmt.Sprintf("%+v", do), "seed_index": idx}
		exp, ok := expectDecoded(do, it, false)
		if !ok {
			return
		}
		depthLimit := 1024
		if do.MaxDepth > 0 {
			depthLimit = do.MaxDepth
		}
		if it.Depth() >= depthLimit {
			if c := errClass(o.err); c != 4 && !(c == 3 && do.SignedInteger && hasBigUnsigned(it)) {
				h.sum.FailC("ref", "c14:depth-not-enforced", "nesting at or beyond MaxDepth was not rejected with the depth error", cj)
			}
			return
		}
		if do.SignedInteger && hasBigUnsigned(it) {
			// int64 cannot hold the value: the only acceptable outcome is the overflow error (fix 3c4765d)
			if errClass(o.err) != 3 {
				cj["decoded"] = dump.Short()
				cj["err"] = errClass(o.err)
				h.sum.FailC("ref", "signedint:msgpack:uint>=2^63->int64", "SignedInteger: an unsigned integer >= 2^63 was not rejected with the overflow error", cj)
			}
			return
		}
		switch {
		case o.err != nil:
			cj["err"] = errClass(o.err)
			h.sum.FailC("ref", "c10in:rejected:"+kindName(it.K), "a spec-permitted serialisation was rejected", cj)
		case o.n != len(b):
			h.sum.FailC("ref", "c10in:consumed:"+kindName(it.K), "Decode did not consume exactly the item", cj)
		case !SameData(exp, dump) || !sameShape(exp, dump):
			cj["decoded"] = dump.Short()
			cls := "c10in:data:" + kindName(it.K)
			h.sum.FailC("ref", cls, "Decode into interface{} yields data different from what the specification assigns", cj)
		}
	}
	for i := 0; i < n; i++ {
		g := &genOpts{maxDepth: 3, big: i%30 == 0, hashKeys: true, noTime255: true}
		it := randItem(r, g, 0)
		do := randDecOpts(r)
		if i%5 == 0 {
			// every form of one scalar
			it = randScalar(r, g)
			fs := scalarForms(it)
			for _, f := range fs {
				check(it, f, do, i)
			}
			valid = append(valid, fs[len(fs)-1])
			continue
		}
		b := RefEncode(it, randChooser(r))
		check(it, b, do, i)
		if len(b) < 400 {
			valid = append(valid, b)
		}
		// C11: the skip parser consumes exactly the item
		if i%2 == 0 {
			viaStruct := r.Bool()
			so := h.skipCase("ref", do, b, viaStruct)
			lim := 1024
			if do.MaxDepth > 0 {
				lim = do.MaxDepth
			}
			need := it.Depth()
			if viaStruct {
				need++
			}
			if need >= lim {
				if errClass(so.err) != 4 {
					h.sum.FailC("ref", "c14:depth-not-enforced:skip", "skipped nesting at or beyond MaxDepth was not rejected with the depth error",
						map[string]interface{}{"item": it.Short(), "bytes": vh.Hex(trunc(b)), "maxdepth": do.MaxDepth})
				}
			} else if so.err != nil || so.n != len(b) {
				if !so.timedOut && so.panicked == "" {
					h.sum.FailC("ref", "c11:skip-length:"+kindName(it.K), "nextValueBytes does not consume exactly one well-formed item",
						map[string]interface{}{"item": it.Short(), "bytes": vh.Hex(trunc(b)), "n": so.n, "err": errClass(so.err)})
				}
			}
		}
	}
	return valid
}

// sameShape: string-vs-bytes kinds as expected (SameData already equates int/uint by value)
func sameShape(a, b *Item) bool {
	_, _, ai := a.intVal()
	_, _, bi := b.intVal()
	if ai && bi {
		return true
	}
	if a.K != b.K {
		return false
	}
	if a.K == KArr {
		for i := range a.L {
			if i > 0 && a.L[i] == a.L[i-1] && b.L[i].K == b.L[i-1].K {
				continue
			}
			if !sameShape(a.L[i], b.L[i]) {
				return false
			}
		}
	}
	return true
}

func mutate(r *vh.Rng, b []byte) []byte {
	out := append([]byte{}, b...)
	if len(out) == 0 {
		return []byte{byte(r.U64())}
	}
	switch r.Intn(7) {
	case 0: // truncate
		return out[:r.Intn(len(out))]
	case 1: // flip one byte
		out[r.Intn(len(out))] = byte(r.U64())
	case 2: // descriptor-looking byte somewhere
		out[r.Intn(len(out))] = []byte{0xc1, 0xc6, 0xc9, 0xdb, 0xdd, 0xdf, 0x9f, 0x8f, 0xd8, 0xc7, 0xd6, 0xd7, 0xff, 0xc0}[r.Intn(14)]
	case 3: // grow a length byte
		i := r.Intn(len(out))
		out[i] += byte(1 + r.Intn(3))
	case 4: // splice another value in
		i := r.Intn(len(out) + 1)
		ins := scalarForms(randScalar(r, &genOpts{}))
		out = append(out[:i], append(append([]byte{}, ins[r.Intn(len(ins))]...), out[i:]...)...)
	case 5: // append junk
		out = append(out, r.Bytes(1+r.Intn(4))...)
	default: // huge claimed length at the front
		heads := [][]byte{{0xdb, 0xff, 0xff, 0xff, 0xff}, {0xc6, 0x80, 0, 0, 0}, {0xdd, 0x80, 0, 0, 0}, {0xdf, 0x80, 0, 0, 0},
			{0xdd, 0xff, 0xff, 0xff, 0xff}, {0xdf, 0xff, 0xff, 0xff, 0xff}, {0xc9, 0xff, 0xff, 0xff, 0xff, 0x05}, {0xc9, 0x80, 0, 0, 0, 0xff},
			{0xdc, 0xff, 0xff}, {0xde, 0xff, 0xff}}
		out = append(append([]byte{}, heads[r.Intn(len(heads))]...), out...)
	}
	return out
}

func (h *H) mutStream(n int, valid [][]byte) {
	r := h.r.Fork()
	if len(valid) == 0 {
		return
	}
	for i := 0; i < n; i++ {
		b := mutate(r, valid[r.Intn(len(valid))])
		if r.Chance(1, 4) {
			b = mutate(r, b)
		}
		do := randDecOpts(r)
		h.decodeCase("mut", do, b)
		if i%2 == 0 {
			h.skipCase("mut", do, b, r.Bool())
		}
	}
}

var descBytes = []byte{0xc0, 0xc1, 0xc2, 0xc3, 0xc4, 0xc5, 0xc6, 0xc7, 0xc8, 0xc9, 0xca, 0xcb, 0xcc, 0xcd, 0xce, 0xcf,
	0xd0, 0xd1, 0xd2, 0xd3, 0xd4, 0xd5, 0xd6, 0xd7, 0xd8, 0xd9, 0xda, 0xdb, 0xdc, 0xdd, 0xde, 0xdf, 0x80, 0x81, 0x82, 0x90, 0x91, 0x92, 0x93, 0xa0, 0xa1, 0xa5, 0xff, 0x00, 0x01}

func (h *H) randStream(n int) {
	r := h.r.Fork()
	for i := 0; i < n; i++ {
		l := r.Intn(40)
		b := r.Bytes(l)
		// bias towards descriptors so that containers nest
		for j := range b {
			switch r.Intn(3) {
			case 0:
				b[j] = descBytes[r.Intn(len(descBytes))]
			case 1:
				b[j] = byte(r.Intn(4))
			}
		}
		do := randDecOpts(r)
		h.decodeCase("rand", do, b)
		if i%2 == 0 {
			h.skipCase("rand", do, b, r.Bool())
		}
	}
}

func (h *H) firstStream() {
	r := h.r.Fork()
	tails := [][]byte{
		{},
		{0x00},
		{0xff},
		{0x00, 0x00, 0x00, 0x02, 0x05, 0xc0, 0xa1, 0x61, 0x01, 0x02, 0x03, 0x04, 0x05, 0x06, 0x07, 0x08, 0x09, 0x0a, 0x0b, 0x0c, 0x0d, 0x0e, 0x0f, 0x10, 0x11},
		{0x01, 0xff, 0x00, 0x00, 0x00, 0x01, 0x00, 0x00, 0x00, 0x00, 0x00, 0x00, 0x00, 0x02, 0xc0, 0xc0, 0xc0},
	}
	opts := []decOpts{
		{},
		{WriteExt: true, SignedInteger: true},
		{RawToString: true, MaxDepth: 1},
	}
	for bd := 0; bd < 256; bd++ {
		ts := append([][]byte{}, tails...)
		ts = append(ts, r.Bytes(24))
		for ti, t := range ts {
			b := append([]byte{byte(bd)}, t...)
			do := opts[(bd+ti)%len(opts)]
			h.decodeCase("first", do, b)
			h.skipCase("first", do, b, (bd+ti)%2 == 0)
		}
	}
}

// moderately deep nesting in-process (model-compared): depth accounting and its absence in skip
func (h *H) nestStream() {
	for _, k := range []int{1, 2, 3, 4, 5, 7, 8, 9, 100, 1023, 1024, 1025, 1500} {
		for _, head := range []byte{0x91, 0x81} {
			var b []byte
			for i := 0; i < k; i++ {
				b = append(b, head)
				if head == 0x81 {
					b = append(b, 0x01) // key 1, value = next map
				}
			}
			b = append(b, 0xc0)
			for _, md := range []int{0, 4, 8} {
				if k > 10 && md != 0 {
					continue
				}
				do := decOpts{MaxDepth: md}
				o, _, _ := h.decodeCase("nest", do, b)
				limit := 1024
				if md > 0 {
					limit = md
				}
				if (k >= limit) != (errClass(o.err) == 4) {
					h.sum.FailC("nest", "c14:depth-not-enforced", "nesting depth vs MaxDepth: wrong outcome",
						map[string]interface{}{"depth": k, "maxdepth": md, "head": head, "class": errClass(o.err)})
				}
				h.skipCase("nest", do, b, true)
				h.skipCase("nest", do, b, false)
			}
		}
	}
}

// ---- subprocess: megabytes of nesting with a 64 MB stack ----

func deepInput(mode string, n int) []byte {
	var b []byte
	switch mode {
	case "naked-arr", "raw-arr":
		b = bytes.Repeat([]byte{0x91}, n)
	case "naked-map", "raw-map":
		b = bytes.Repeat([]byte{0x81, 0x01}, n)
	case "naked-arr16":
		b = bytes.Repeat([]byte{0xdc, 0x00, 0x01}, n)
	case "struct-arr":
		b = append(append([]byte{}, unknownFieldPrefix...), bytes.Repeat([]byte{0x91}, n)...)
	case "struct-map":
		b = append(append([]byte{}, unknownFieldPrefix...), bytes.Repeat([]byte{0x81, 0x01}, n)...)
	}
	return append(b, 0xc0)
}

func child(mode string, n int) {
	debug.SetMaxStack(64 << 20)
	b := deepInput(mode, n)
	h := &codec.MsgpackHandle{}
	d := codec.NewDecoderBytes(b, h)
	var err error
	switch {
	case strings.HasPrefix(mode, "naked"):
		var v interface{}
		err = d.Decode(&v)
	case strings.HasPrefix(mode, "raw"):
		var v codec.Raw
		err = d.Decode(&v)
	default:
		var v emptyStruct
		err = d.Decode(&v)
	}
	fmt.Printf("CHILD class=%d n=%d\n", errClass(err), d.NumBytesRead())
}

func (h *H) deepStream(n int) {
	exe, err := os.Executable()
	if err != nil {
		h.sum.FailC("deep", "harness", "cannot locate own executable", nil)
		return
	}
	for _, mode := range []string{"naked-arr", "naked-map", "naked-arr16", "raw-arr", "raw-map", "struct-arr", "struct-map"} {
		cmd := exec.Command(exe, "-child", mode, "-childn", fmt.Sprint(n))
		var out bytes.Buffer
		cmd.Stdout = &out
		cmd.Stderr = &out
		done := make(chan error, 1)
		if err := cmd.Start(); err != nil {
			h.sum.FailC("deep", "harness", "cannot start subprocess", nil)
			return
		}
		go func() { done <- cmd.Wait() }()
		var werr error
		timedOut := false
		select {
		case werr = <-done:
		case <-time.After(60 * time.Second):
			cmd.Process.Kill()
			timedOut = true
		}
		s := out.String()
		cj := map[string]interface{}{"mode": mode, "nesting": n, "input": fmt.Sprintf("%d nested one-element containers + c0", n)}
		path := "decode-naked"
		if !strings.HasPrefix(mode, "naked") {
			path = "skip"
		}
		switch {
		case timedOut:
			h.sum.FailC("deep", "hang:"+path+":msgpack", "deeply nested input: no result within 60 s", cj)
		case strings.Contains(s, "stack exceeds") || strings.Contains(s, "stack overflow"):
			h.sum.FailC("deep", "stack-exhaustion:"+path+":msgpack", "deeply nested input exhausts the goroutine stack (fatal, not recoverable): recursion is not bounded by MaxDepth", cj)
		case werr != nil || !strings.Contains(s, "CHILD "):
			cj["tail"] = tail(s, 200)
			h.sum.FailC("deep", "crash:"+path+":msgpack", "deeply nested input kills the process", cj)
		default:
			var cls, nn int
			fmt.Sscanf(s[strings.Index(s, "CHILD "):], "CHILD class=%d n=%d", &cls, &nn)
			if cls != 4 {
				h.sum.FailC("deep", "c14:depth-not-enforced:"+path, "nesting far beyond MaxDepth was not rejected with the depth error", cj)
			}
		}
		h.sum.Count("deep."+mode, "deep/"+mode)
	}
}

func tail(s string, n int) string {
	if len(s) > n {
		return s[len(s)-n:]
	}
	return s
}

func main() {
	nEnc := flag.Int("enc", 1200, "encode cases")
	nRef := flag.Int("ref", 1200, "reference-encoder cases")
	nMut := flag.Int("mut", 1200, "mutated cases")
	nRand := flag.Int("rand", 800, "random-bytes cases")
	nVU := flag.Int("vu", 500, "ValidateUnicode cases")
	deepN := flag.Int("deep", 2000000, "nesting of the subprocess cases (0 = skip)")
	cases := flag.String("cases", "/verif/build/wmsgpack/cases", "directory for the model case files")
	childMode := flag.String("child", "", "internal")
	childN := flag.Int("childn", 0, "internal")
	flag.Parse()
	if *childMode != "" {
		child(*childMode, *childN)
		return
	}
	seed := vh.SeedFromEnv()
	h := &H{r: vh.NewRng(seed)}
	h.sum = vh.NewSummary("enc: random item trees (boundary ints/lengths 15/16/31/32/255/256/65535/65536, floats incl. NaN/subnormal, times around 2^32/2^34/zero) x 16 encoder option vectors, real Encoder bytes vs model enc and vs reference decoder; ref: reference encoder choosing among all spec-permitted forms -> real Decode(&interface{}) and nextValueBytes; mut: one or two mutations of valid encodings; rand: descriptor-biased random bytes; first: all 256 first bytes x 6 tails; vu: well-/ill-formed UTF-8 (truncated, overlong, surrogates, > U+10FFFF) in str values, array elements and map keys decoded with ValidateUnicode on, vs model dec_naked_vu and the property's own oracle; nest: nesting 1..1500; deep: 2M nested containers in a subprocess with a 64 MB stack. distinct = (stream, first-byte class, outcome class, option vector, length bucket)")
	h.cv = vh.NewCases(*cases, "From Coq Require Import List NArith ZArith.\nFrom Verif Require Import Base.Outcome Wire.Item Wire.Msgpack Wire.MsgpackCorr.\nImport ListNotations.", "case", "mismatches", 150)
	h.encStream(*nEnc)
	valid := h.refStream(*nRef)
	h.mutStream(*nMut, valid)
	h.randStream(*nRand)
	h.firstStream()
	h.nestStream()
	h.vuStream(*nVU)
	h.cv.Close()
	if *deepN > 0 {
		h.deepStream(*deepN)
	}
	h.sum.Print()
	_ = math.MaxInt8
}

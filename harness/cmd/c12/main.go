// c12: a reset Encoder/Decoder equals a new one; errors are sticky until reset.
//
// Random histories on ONE real Encoder / Decoder (all five formats, bytes and io):
// successful values of random types, values that fail at a chosen nesting
// position (a Selfer that panics after emitting part of itself, a cycle under
// CheckCircularRef), failing writers at call k, truncated / corrupted / wrongly
// shaped inputs, binc AsSymbols streams, json with pending tokens.  Then
// Reset + ops versus fresh + ops: same bytes / same decoded values / same
// error-ness / same NumBytesRead, operation by operation.  Stickiness: after an
// error the next op errors, the writer receives nothing, the reader is not
// advanced.  Model cases: field-by-field dumps (reflection) of the instance
// after Reset versus a fresh instance, evaluated by C12/Corr.v against
// Gen/Reset.v and the model's neutral list.
package main

import (
	"bytes"
	"errors"
	"flag"
	"fmt"
	"io"
	"reflect"
	"regexp"
	"strings"

	"verifharness/vh"

	"github.com/ugorji/go/codec"
)

var errBoom = errors.New("boom")
var errWriter = errors.New("scripted writer fault")

// boom fails half-way through encoding itself, after having emitted Depth nested values through the same Encoder.
type boom struct {
	Depth int
}

func (b boom) CodecEncodeSelf(e *codec.Encoder) {
	for i := 0; i < b.Depth; i++ {
		e.MustEncode(map[string]interface{}{"k": i, "sym": "sym"})
	}
	panic(errBoom)
}
func (b *boom) CodecDecodeSelf(d *codec.Decoder) {
	var x interface{}
	for i := 0; i < b.Depth; i++ {
		d.MustDecode(&x)
	}
	panic(errBoom)
}

type cyc struct {
	A    int
	Next *cyc
}

type recWriter struct {
	buf    bytes.Buffer
	calls  int
	failAt int // fail at this Write call (0-based); -1 never
	part   int // bytes accepted by the failing call
}

func (w *recWriter) Write(p []byte) (int, error) {
	i := w.calls
	w.calls++
	if w.failAt >= 0 && i >= w.failAt {
		n := w.part
		if n > len(p) {
			n = len(p)
		}
		w.buf.Write(p[:n])
		return n, errWriter
	}
	w.buf.Write(p)
	return len(p), nil
}

// cntReader counts what is drawn from it; optionally hides ReadByte
type cntReader struct {
	r     *bytes.Reader
	drawn int
}

func (c *cntReader) Read(p []byte) (int, error) {
	n, err := c.r.Read(p)
	c.drawn += n
	return n, err
}

// ---------- field dumps ----------

var reTop = regexp.MustCompile(`^(encoder|decoder)(Json|Cbor|Msgpack|Binc|Simple)(Bytes|IO)$`)
var reDrv = regexp.MustCompile(`^((json|cbor|msgpack|binc|simple)(Enc|Dec)Driver)(Bytes|IO)$`)

var targets = map[string]bool{"encoder": true, "decoder": true, "ioDecReader": true, "bytesDecReader": true, "bufioEncWriter": true,
	"bytesEncAppender": true, "bincEncState": true, "bincDecState": true, "bdAndBdread": true, "jsonHandleOpts": true}

func normName(n string) string {
	if m := reTop.FindStringSubmatch(n); m != nil {
		return m[1]
	}
	if m := reDrv.FindStringSubmatch(n); m != nil {
		return m[1]
	}
	return n
}

func isTarget(n string) bool {
	return targets[n] || strings.HasSuffix(n, "EncDriver") || strings.HasSuffix(n, "DecDriver")
}

func hasState(t reflect.Type) bool {
	if t.Kind() != reflect.Struct {
		return true
	}
	for i := 0; i < t.NumField(); i++ {
		f := t.Field(i)
		if f.Name == "_" {
			continue
		}
		if f.Anonymous && f.Type.Kind() == reflect.Struct {
			if hasState(f.Type) {
				return true
			}
			continue
		}
		return true
	}
	return false
}

type fld struct {
	s, f string
	v    int64
}

func dump(v reflect.Value, sname string, out *[]fld) {
	t := v.Type()
	for i := 0; i < t.NumField(); i++ {
		f := t.Field(i)
		if f.Name == "_" {
			continue
		}
		fv := v.Field(i)
		if fv.Kind() == reflect.Struct {
			tn := normName(f.Type.Name())
			if f.Anonymous {
				if !hasState(f.Type) {
					continue
				}
				if isTarget(tn) {
					dump(fv, tn, out)
				} else {
					dump(fv, sname, out) // flattened (encoderBase, decoderBase, decInit2er, ...)
				}
				continue
			}
			if isTarget(tn) {
				dump(fv, tn, out)
			}
			continue // opaque struct field (perType, fauxUnion): not comparable here
		}
		var x int64
		switch fv.Kind() {
		case reflect.Bool:
			if fv.Bool() {
				x = 1
			}
		case reflect.Int, reflect.Int8, reflect.Int16, reflect.Int32, reflect.Int64:
			x = fv.Int()
		case reflect.Uint, reflect.Uint8, reflect.Uint16, reflect.Uint32, reflect.Uint64, reflect.Uintptr:
			x = int64(fv.Uint())
		case reflect.String, reflect.Slice, reflect.Map:
			x = int64(fv.Len())
		case reflect.Ptr, reflect.Interface, reflect.Func, reflect.Chan, reflect.UnsafePointer:
			if !fv.IsNil() {
				x = 1
			}
		default:
			continue // arrays: scratch
		}
		*out = append(*out, fld{sname, f.Name, x})
	}
}

func dumpInstance(x interface{}) []fld {
	v := reflect.ValueOf(x).Elem().Field(0) // the embedded encoderI / decoderI
	v = v.Elem().Elem()
	var out []fld
	dump(v, normName(v.Type().Name()), &out)
	return out
}

func coqCase(id int, a, b []fld) (string, bool) {
	if len(a) != len(b) {
		return "", false
	}
	var sb strings.Builder
	fmt.Fprintf(&sb, "mkcase %d [", id)
	for i := range a {
		if a[i].s != b[i].s || a[i].f != b[i].f {
			return "", false
		}
		if i > 0 {
			sb.WriteString(";")
		}
		fmt.Fprintf(&sb, "mkf \"%s\" \"%s\" %s %s", a[i].s, a[i].f, vh.CoqZ(a[i].v), vh.CoqZ(b[i].v))
	}
	sb.WriteString("]")
	return sb.String(), true
}

// ---------- values ----------

func nest(r *vh.Rng, depth int, leaf interface{}) interface{} {
	v := leaf
	for i := 0; i < depth; i++ {
		switch r.Intn(3) {
		case 0:
			v = map[string]interface{}{"sym": 1, "k": v, "z": "sym"}
		case 1:
			v = []interface{}{"sym", v, 3}
		default:
			v = struct {
				Sym string
				V   interface{}
				W   int
			}{"sym", v, 7}
		}
	}
	return v
}

func okValue(r *vh.Rng, format string) interface{} {
	if r.Chance(1, 3) {
		return nest(r, r.Intn(5), r.PickInt(0, 1, -5, 300, 70000))
	}
	to := vh.TypeOpts{MaxDepth: 3, Tags: true, StringKeys: true}
	t := vh.RandType(r, to, 0)
	return vh.RandValue(r, t, vh.ValOpts{NoNaN: true, NoInf: true, MaxLen: 4, ASCII: format == "json"}).Interface()
}

func randOpts(r *vh.Rng, format string) vh.Opts {
	o := vh.RandEncOpts(r, format)
	o["Canonical"] = true
	if r.Chance(1, 3) {
		o["CheckCircularRef"] = true
	}
	if format == "binc" {
		o["AsSymbols"] = r.PickInt(0, 1, 1)
	}
	if format == "json" && r.Chance(1, 2) {
		o["Indent"] = r.PickInt(1, 2, -1)
	}
	if r.Chance(1, 4) {
		o["MaxDepth"] = r.PickInt(3, 8, 64)
	}
	if r.Chance(1, 3) {
		o["InternString"] = true
	}
	return o
}

// ---------- encoder trials ----------

func encTrial(r *vh.Rng, idx int, sum *vh.Summary, cv *vh.Cases, caseID *int) {
	format := vh.Formats[idx%len(vh.Formats)]
	o := randOpts(r, format)
	useIO := r.Bool()
	if useIO {
		o["WriterBufferSize"] = r.PickInt(0, 0, 1, 16, 17, 64, 4096)
	}
	h := vh.NewHandle(format, o)
	cj := map[string]interface{}{"format": format, "opts": o.String(), "io": useIO, "seed_index": idx, "kind": "enc"}
	var e *codec.Encoder
	var w *recWriter
	var out []byte
	received := func() []byte {
		if useIO {
			return w.buf.Bytes()
		}
		return out
	}
	resetTo := func(failAt, part int) {
		if useIO {
			w = &recWriter{failAt: failAt, part: part}
			e.Reset(w)
		} else {
			out = nil
			e.ResetBytes(&out)
		}
	}
	if useIO {
		w = &recWriter{failAt: -1}
		e = codec.NewEncoder(w, h)
	} else {
		e = codec.NewEncoderBytes(&out, h)
	}
	nh := r.Intn(6)
	hist := []string{}
	sawErr := false
	var lastCyc *cyc
	for s := 0; s < nh; s++ {
		var v interface{}
		kind := r.Intn(7)
		switch kind {
		case 0, 1:
			v = okValue(r, format)
			hist = append(hist, "ok")
		case 2: // fails at a nesting position, after having emitted part of the value
			v = nest(r, r.Intn(5), boom{Depth: r.Intn(3)})
			hist = append(hist, "boom")
		case 3: // cycle (only meaningful, and only finite, under CheckCircularRef)
			if v2, _ := o["CheckCircularRef"].(bool); !v2 {
				v = okValue(r, format)
				hist = append(hist, "ok")
				break
			}
			c := &cyc{A: 1}
			c.Next = &cyc{A: 2, Next: c}
			lastCyc = c
			v = nest(r, r.Intn(3), c)
			hist = append(hist, "cycle")
		case 4: // failing writer at call k (io); explicit reset in the middle of the history (bytes)
			resetTo(r.Intn(3), r.PickInt(0, 1, 5))
			v = nest(r, 1+r.Intn(4), strings.Repeat("x", r.PickInt(1, 20, 100, 5000)))
			hist = append(hist, "failwriter")
		case 5: // symbols / indentation heavy
			v = nest(r, 2+r.Intn(4), map[string]interface{}{"sym": "sym", "a": []interface{}{"sym", "sym"}})
			hist = append(hist, "symbols")
		default: // unsupported kind deep inside
			v = nest(r, r.Intn(4), make(chan int))
			hist = append(hist, "chan")
		}
		err := e.Encode(v)
		if err != nil {
			sawErr = true
			// sticky: the next Encode fails and the destination receives nothing
			before := append([]byte(nil), received()...)
			calls := 0
			if useIO {
				calls = w.calls
			}
			err2 := e.Encode(okValue(r, format))
			after := received()
			cj2 := map[string]interface{}{"history": strings.Join(hist, ",")}
			for k, v := range cj {
				cj2[k] = v
			}
			if err2 == nil {
				sum.FailC("sticky", "enc-sticky:"+format+":"+hist[len(hist)-1], "Encode after a failed Encode returned nil", cj2)
			}
			if !bytes.Equal(before, after) || (useIO && w.calls != calls) {
				sum.FailC("sticky", "enc-emits:"+format+":"+hist[len(hist)-1], "Encode after a failed Encode wrote to the destination", cj2)
			}
			sum.Dist["enc.sticky_checked"]++
			if r.Chance(1, 2) {
				break // leave the instance in the failed state
			}
			resetTo(-1, 0)
			hist = append(hist, "reset")
		}
	}
	// Reset, then the same ops on it and on a fresh instance
	cj["history"] = strings.Join(hist, ",")
	nops := 1 + r.Intn(3)
	ops := make([]interface{}, nops)
	for i := range ops {
		switch r.Intn(6) {
		case 0:
			ops[i] = nest(r, r.Intn(3), boom{Depth: r.Intn(2)})
		default:
			ops[i] = okValue(r, format)
		}
	}
	if lastCyc != nil {
		// the same objects, no longer cyclic: a cycle stack that survived Reset would still reject them
		lastCyc.Next.Next = nil
		ops[0] = nest(r, r.Intn(2), lastCyc)
	}
	resetTo(-1, 0)
	var fe *codec.Encoder
	var fw *recWriter
	var fout []byte
	if useIO {
		fw = &recWriter{failAt: -1}
		fe = codec.NewEncoder(fw, h)
	} else {
		fe = codec.NewEncoderBytes(&fout, h)
	}
	if term, ok := coqCase(*caseID, dumpInstance(e), dumpInstance(fe)); ok {
		if emit {
			cv.Add(term)
			*caseID++
			sum.ModelCases++
		}
	} else {
		sum.FailC("dump", "enc-dump:"+format, "field dumps of the reset and the fresh Encoder have different shapes", cj)
	}
	for i, v := range ops {
		e1 := e.Encode(v)
		e2 := fe.Encode(v)
		var b1, b2 []byte
		if useIO {
			b1, b2 = w.buf.Bytes(), fw.buf.Bytes()
		} else {
			b1, b2 = out, fout
		}
		if (e1 != nil) != (e2 != nil) || !bytes.Equal(b1, b2) {
			cj2 := map[string]interface{}{"op": i, "reset_err": fmt.Sprint(e1 != nil), "fresh_err": fmt.Sprint(e2 != nil), "reset_bytes": vh.Hex(b1), "fresh_bytes": vh.Hex(b2), "value_type": fmt.Sprintf("%T", v)}
			for k, v := range cj {
				cj2[k] = v
			}
			last := "none"
			if len(hist) > 0 {
				last = hist[len(hist)-1]
			}
			sum.FailC("reset", fmt.Sprintf("enc-reset:%s:io=%v:after=%s", format, useIO, last), "after Reset an Encoder behaves differently from a freshly constructed one", cj2)
			break
		}
	}
	key := fmt.Sprintf("enc/%s/io%v/%s", format, useIO, strings.Join(hist, ","))
	if nh == 0 {
		key = ""
	}
	sum.Count("enc."+format, key)
	if sawErr {
		sum.Dist["enc.histories_with_error"]++
	}
	if idx < 2 {
		sum.Sample(cj)
	}
}

// ---------- decoder trials ----------

func encodeWith(h codec.Handle, v interface{}) []byte {
	var b []byte
	if err := codec.NewEncoderBytes(&b, h).Encode(v); err != nil {
		return nil
	}
	return b
}

var jsonOdd = []string{`  [1, 2`, `{"a": [1, {"b": tr`, `[1,2]   `, `{"a":1} {"b":`, `"abc`, `[[[[[[1`, ` nul`, `{"k": "v", `, `[1 2]`, `{"a" 1}`, `12 13 [`, `"\ud800x" 1`}

func decInput(r *vh.Rng, h codec.Handle, format string) (in []byte, target func() interface{}, what string) {
	mk := func(v interface{}) func() interface{} {
		return func() interface{} { return v }
	}
	_ = mk
	var v interface{}
	switch r.Intn(3) {
	case 0:
		v = nest(r, 1+r.Intn(5), r.PickInt(0, 1, 300, 70000))
	case 1:
		v = nest(r, 2+r.Intn(4), map[string]interface{}{"sym": "sym", "a": []interface{}{"sym", "sym"}})
	default:
		v = okValue(r, format)
	}
	good := encodeWith(h, v)
	if r.Chance(1, 2) { // a stream of two values
		good = append(good, encodeWith(h, nest(r, r.Intn(3), "tail"))...)
	}
	rt := reflect.TypeOf(v)
	intoIface := func() interface{} { var x interface{}; return &x }
	intoType := func() interface{} {
		if rt == nil {
			return intoIface()
		}
		return reflect.New(rt).Interface()
	}
	switch r.Intn(8) {
	case 0, 1:
		return good, intoIface, "ok-iface"
	case 2:
		return good, intoType, "ok-typed"
	case 3: // truncated at a nesting position
		if len(good) > 1 {
			return good[:1+r.Intn(len(good)-1)], intoIface, "truncated"
		}
		return good, intoIface, "ok-iface"
	case 4: // corrupted byte
		b := append([]byte(nil), good...)
		if len(b) > 0 {
			b[r.Intn(len(b))] = byte(r.U64())
		}
		return b, intoIface, "corrupt"
	case 5: // another shape
		shapes := []func() interface{}{
			func() interface{} { return new(int) },
			func() interface{} { return new([]string) },
			func() interface{} { return new(map[string]int) },
			func() interface{} { return new(struct{ Sym, K int }) },
			func() interface{} { return new(boom) },
			func() interface{} { return &boom{Depth: 1} },
		}
		return good, shapes[r.Intn(len(shapes))], "othershape"
	case 6:
		if format == "json" {
			return []byte(jsonOdd[r.Intn(len(jsonOdd))]), intoIface, "json-odd"
		}
		return r.Bytes(1 + r.Intn(12)), intoIface, "random"
	default: // deep nesting against MaxDepth
		return encodeWith(h, nest(r, 10+r.Intn(80), 1)), intoIface, "deep"
	}
}

func decTrial(r *vh.Rng, idx int, sum *vh.Summary, cv *vh.Cases, caseID *int) {
	format := vh.Formats[idx%len(vh.Formats)]
	o := randOpts(r, format)
	delete(o, "CheckCircularRef")
	useIO := r.Bool()
	if useIO {
		o["ReaderBufferSize"] = r.PickInt(0, 0, 1, 16, 64, 4096)
	}
	h := vh.NewHandle(format, o)
	cj := map[string]interface{}{"format": format, "opts": o.String(), "io": useIO, "seed_index": idx, "kind": "dec"}
	var d *codec.Decoder
	var cr *cntReader
	resetTo := func(in []byte, viaString bool) {
		if useIO {
			cr = &cntReader{r: bytes.NewReader(in)}
			d.Reset(cr)
		} else if viaString {
			d.ResetString(string(in))
		} else {
			d.ResetBytes(in)
		}
	}
	if useIO {
		cr = &cntReader{r: bytes.NewReader(nil)}
		d = codec.NewDecoder(cr, h)
	} else {
		d = codec.NewDecoderBytes(nil, h)
	}
	nh := r.Intn(6)
	hist := []string{}
	sawErr := false
	for s := 0; s < nh; s++ {
		in, target, what := decInput(r, h, format)
		hist = append(hist, what)
		resetTo(in, r.Chance(1, 4))
		ndec := 1 + r.Intn(2)
		for j := 0; j < ndec; j++ {
			err := d.Decode(target())
			if err == nil {
				continue
			}
			sawErr = true
			nr := d.NumBytesRead()
			drawn := 0
			if useIO {
				drawn = cr.drawn
			}
			var x interface{}
			err2 := d.Decode(&x)
			cj2 := map[string]interface{}{"history": strings.Join(hist, ","), "input": vh.Hex(in)}
			for k, v := range cj {
				cj2[k] = v
			}
			if err2 == nil {
				sum.FailC("sticky", "dec-sticky:"+format+":"+what, "Decode after a failed Decode returned nil", cj2)
			}
			if d.NumBytesRead() != nr || (useIO && cr.drawn != drawn) {
				sum.FailC("sticky", "dec-consumes:"+format+":"+what, "Decode after a failed Decode consumed input", cj2)
			}
			sum.Dist["dec.sticky_checked"]++
			break
		}
	}
	cj["history"] = strings.Join(hist, ",")
	// final: Reset + ops versus fresh + ops on the same input
	in, target, what := decInput(r, h, format)
	cj["final"] = what
	cj["input"] = vh.Hex(in)
	viaString := r.Chance(1, 4)
	resetTo(in, viaString)
	var fd *codec.Decoder
	var fcr *cntReader
	if useIO {
		fcr = &cntReader{r: bytes.NewReader(in)}
		fd = codec.NewDecoder(fcr, h)
	} else if viaString {
		fd = codec.NewDecoderString(string(in), h)
	} else {
		fd = codec.NewDecoderBytes(in, h)
	}
	if term, ok := coqCase(*caseID, dumpInstance(d), dumpInstance(fd)); ok {
		if emit {
			cv.Add(term)
			*caseID++
			sum.ModelCases++
		}
	} else {
		sum.FailC("dump", "dec-dump:"+format, "field dumps of the reset and the fresh Decoder have different shapes", cj)
	}
	nops := 1 + r.Intn(3)
	for i := 0; i < nops; i++ {
		t1, t2 := target(), target()
		e1 := d.Decode(t1)
		e2 := fd.Decode(t2)
		n1, n2 := d.NumBytesRead(), fd.NumBytesRead()
		same := (e1 != nil) == (e2 != nil) && n1 == n2
		if same && e1 == nil {
			same = vh.DeepEq(reflect.ValueOf(t1).Elem(), reflect.ValueOf(t2).Elem(), vh.EqOpts{})
		}
		// bytes drawn from the wrapped reader: only specified when unbuffered (with ReaderBufferSize > 0 the
		// read-ahead depends on the capacity of the buffer, which a reset instance keeps from its past)
		if rbs, _ := o["ReaderBufferSize"].(int); same && useIO && rbs == 0 && cr.drawn != fcr.drawn {
			same = false
		}
		if !same {
			cj2 := map[string]interface{}{"op": i, "reset_err": fmt.Sprint(e1), "fresh_err": fmt.Sprint(e2), "reset_numread": n1, "fresh_numread": n2,
				"reset_value": fmt.Sprintf("%#v", reflect.ValueOf(t1).Elem().Interface()), "fresh_value": fmt.Sprintf("%#v", reflect.ValueOf(t2).Elem().Interface())}
			for k, v := range cj {
				cj2[k] = v
			}
			last := "none"
			if len(hist) > 0 {
				last = hist[len(hist)-1]
			}
			sum.FailC("reset", fmt.Sprintf("dec-reset:%s:io=%v:after=%s:final=%s", format, useIO, last, what), "after Reset a Decoder behaves differently from a freshly constructed one", cj2)
			break
		}
		if e1 != nil {
			break
		}
	}
	key := fmt.Sprintf("dec/%s/io%v/%s/%s", format, useIO, strings.Join(hist, ","), what)
	if nh == 0 {
		key = ""
	}
	sum.Count("dec."+format, key)
	if sawErr {
		sum.Dist["dec.histories_with_error"]++
	}
	if idx < 2 {
		sum.Sample(cj)
	}
}

var _ = io.EOF

func main() {
	nEnc := flag.Int("enc", 1500, "encoder histories")
	nDec := flag.Int("dec", 1500, "decoder histories")
	nCases := flag.Int("dumpcases", 400, "max field-dump model cases")
	cases := flag.String("cases", "/verif/build/c12/cases", "directory for the model case files")
	flag.Parse()
	seed := vh.SeedFromEnv()
	r := vh.NewRng(seed)
	sum := vh.NewSummary("history = 0..5 steps on one real Encoder/Decoder over {ok value, Selfer failing at nesting depth d after emitting part, cycle, failing writer at call k, unsupported kind, symbol/indent-heavy value | ok stream, truncated, corrupted, other shape, json odd tokens, random bytes, deeper than MaxDepth}, then Reset + 1..3 ops versus fresh + same ops; non-trivial = non-empty history; distinct by (enc|dec, format, transport, history kinds, final input kind). Stickiness checked at every error. Model cases = field dumps (reflection) reset-vs-fresh")
	cvAll := vh.NewCases(*cases, "From Coq Require Import List NArith ZArith String.\nFrom Verif Require Import C12.Model C12.Corr.\nImport ListNotations.\nOpen Scope string_scope.", "case", "mismatches", 40)
	caseID := 0
	re, rd := r.Fork(), r.Fork()
	for i := 0; i < *nEnc; i++ {
		emit = sum.ModelCases < *nCases/2
		encTrial(re, i, sum, cvAll, &caseID)
	}
	encCases := sum.ModelCases
	for i := 0; i < *nDec; i++ {
		emit = sum.ModelCases-encCases < *nCases/2
		decTrial(rd, i, sum, cvAll, &caseID)
	}
	cvAll.Close()
	sum.Print()
}

var emit = true

package hx

import (
	"math"
	"reflect"
	"time"

	"github.com/ugorji/go/codec"
)

// destinations of the C02 quantifier: interface{}, structs, maps, slices, arrays, Raw, typed scalars

type S2 struct {
	K string
	V []uint16
	W map[string]string
	L *S2
}

type S1 struct {
	A  int
	B  string
	C  []byte
	D  []int
	E  map[string]int
	F  []string
	G  *S2
	H  [4]int
	I  float64
	J  bool
	R  codec.Raw
	U  uint8
	X  interface{}
	Y  []interface{}
	Z  map[string]interface{}
	AA [][]byte
	AB []struct{}
	AC map[int][]uint8
	T  time.Time
	N  int8
	P  *int
	Q  []*S2
}

type S3 struct {
	_struct bool `codec:",toarray"`
	A       int
	B       string
	C       []byte
	D       []S2
}

// Rec is a container type that contains itself (F20-2: reported as unsupported since 1654b33)
type Rec []Rec

// RecvChan is a chan destination supplied by the caller with a receiver draining it (MakeDest)
type RecvChan chan int

var recvChanType = reflect.TypeOf(RecvChan(nil))

// MakeDest returns a fresh destination pointer for t and a function to call once Decode returned.
func MakeDest(t reflect.Type) (dst interface{}, done func()) {
	if t == recvChanType {
		ch := make(RecvChan, 4)
		stop := make(chan struct{})
		go func() {
			for {
				select {
				case <-ch:
				case <-stop:
					return
				}
			}
		}()
		return &ch, func() { close(stop) }
	}
	return reflect.New(t).Interface(), func() {}
}

type Dest struct {
	Name string
	T    reflect.Type
}

func dt(name string, v interface{}) Dest { return Dest{name, reflect.TypeOf(v).Elem()} }

var Dests = []Dest{
	dt("iface", new(interface{})),
	dt("S1", new(S1)),
	dt("S2", new(S2)),
	dt("S3-toarray", new(S3)),
	dt("SkipDst", new(SkipDst)),
	dt("Raw", new(codec.Raw)),
	dt("T", new(T)),
	dt("map[string]iface", new(map[string]interface{})),
	dt("map[iface]iface", new(map[interface{}]interface{})),
	dt("map[int]string", new(map[int]string)),
	dt("map[string]int", new(map[string]int)),
	dt("map[string][]byte", new(map[string][]byte)),
	dt("map[string]S2", new(map[string]S2)),
	dt("[]iface", new([]interface{})),
	dt("[]int", new([]int)),
	dt("[]string", new([]string)),
	dt("[][]int", new([][]int)),
	dt("[]byte", new([]byte)),
	dt("[][]byte", new([][]byte)),
	dt("[]S2", new([]S2)),
	dt("[]struct{}", new([]struct{})),
	dt("map[struct{}]struct{}", new(map[struct{}]struct{})),
	dt("map[string]struct{}", new(map[string]struct{})),
	dt("map[[0]int]struct{}", new(map[[0]int]struct{})),
	dt("[][0]int", new([][0]int)),
	dt("[]map[struct{}]struct{}", new([]map[struct{}]struct{})),
	dt("[]bool", new([]bool)),
	dt("[]float64", new([]float64)),
	dt("[]uint16", new([]uint16)),
	dt("[4]int", new([4]int)),
	dt("[2]string", new([2]string)),
	dt("[3][]byte", new([3][]byte)),
	dt("[8]byte", new([8]byte)),
	dt("int8", new(int8)),
	dt("uint64", new(uint64)),
	dt("float32", new(float32)),
	dt("float64", new(float64)),
	dt("chan int", new(chan int)),
	dt("chan int/recv", new(RecvChan)),
	dt("chan []byte", new(chan []byte)),
	dt("rec []rec", new(Rec)),
	dt("string", new(string)),
	dt("bool", new(bool)),
	dt("time", new(time.Time)),
	dt("RawExt", new(codec.RawExt)),
	dt("*int", new(*int)),
}

func DestByName(n string) (Dest, int) {
	for i, d := range Dests {
		if d.Name == n {
			return d, i
		}
	}
	panic("no dest " + n)
}

var (
	rawType  = reflect.TypeOf(codec.Raw(nil))
	timeType = reflect.TypeOf(time.Time{})
	rextType = reflect.TypeOf(codec.RawExt{})
)

// TypeStats: what the allocation bound of a destination depends on.
type TypeStats struct {
	MaxUnit   int  // largest element (or key+element) size of any slice / array / map type inside
	Depth     int  // container nesting of the type (interface{}: unbounded -> HasIface)
	HasIface  bool // contains interface{} (or Raw): nesting is bounded by MaxDepth only
	HasBytes  bool // contains []byte / [N]byte (usableByteSlice: up to 64 MB for a claimed length)
	Recursive bool
	Flat      bool // containers of scalars / strings / byte strings only (no pointers, structs, interfaces)
}

func StatsOf(t reflect.Type) TypeStats {
	var st TypeStats
	st.Flat = true
	seen := map[reflect.Type]bool{}
	var walk func(t reflect.Type, d int)
	walk = func(t reflect.Type, d int) {
		if d > st.Depth {
			st.Depth = d
		}
		if t == rawType || t == timeType {
			if t == rawType {
				st.HasIface = true
				st.Flat = false
			}
			return
		}
		switch t.Kind() {
		case reflect.Interface:
			st.HasIface = true
			st.Flat = false
			if st.MaxUnit < 48 {
				st.MaxUnit = 48
			}
		case reflect.Ptr:
			st.Flat = false
			walk(t.Elem(), d)
		case reflect.Slice, reflect.Array, reflect.Chan:
			if t.Elem().Kind() == reflect.Uint8 && t.Kind() != reflect.Chan {
				st.HasBytes = true
				return // a byte string: a scalar as far as allocation goes
			}
			if t.Name() != "" {
				if seen[t] {
					st.Recursive = true
					return
				}
				seen[t] = true
				defer delete(seen, t)
			}
			if s := int(t.Elem().Size()); s > st.MaxUnit {
				st.MaxUnit = s
			}
			walk(t.Elem(), d+1)
		case reflect.Map:
			if s := int(t.Key().Size() + t.Elem().Size()); s > st.MaxUnit {
				st.MaxUnit = s
			}
			walk(t.Key(), d+1)
			walk(t.Elem(), d+1)
		case reflect.Struct:
			st.Flat = false
			if seen[t] {
				st.Recursive = true
				return
			}
			seen[t] = true
			for i := 0; i < t.NumField(); i++ {
				walk(t.Field(i).Type, d+1)
			}
			delete(seen, t)
		}
	}
	walk(t, 0)
	if st.MaxUnit < 16 {
		st.MaxUnit = 16
	}
	return st
}

// AllocBound is K0 + K1*n: the constants the code's caps justify (see checks/C02.py).
//
//	K0 = 4 MB fixed (decoder, handle and type caches, reader buffers)
//	   + 64 MB + 2 MB (usableByteSlice cap for a claimed byte-array length; reachable from []byte and
//	     string destinations, map keys and struct field names)
//	   + levels * max(1024, MaxInitLen) * 2*unit   (decInferLen: every open container may have been
//	     pre-sized from a claimed length, capped at max(1024, MaxInitLen) elements)
//	   where levels = MaxDepth if the type holds an interface{} / Raw or is recursive, else its static depth
//	K1 = 1024 + 8*unit per input byte (elements actually decoded: each consumes >= 1 byte; append growth);
//	     16 for a destination without containers (the bytes are copied; read buffers grow geometrically)
func AllocBound(st TypeStats, o Opts, n int) (k0, k1 uint64) {
	// usableByteSlice: a claimed length (array of uint8 read as bytes: []byte and string destinations,
	// map keys, struct field names) allocates min(claimed, 64 MB) once before the first element is read
	k0 = 4<<20 + 66<<20
	levels := st.Depth
	if st.HasIface || st.Recursive {
		levels = o.EffMaxDepth()
	}
	initCap := 1024
	if o.MaxInitLen > initCap {
		initCap = o.MaxInitLen
	}
	k0 += uint64(levels) * uint64(initCap) * uint64(2*st.MaxUnit)
	if o.IO {
		k0 += uint64(o.RBS) + 1<<16
	}
	k1 = 1024 + 8*uint64(st.MaxUnit)
	if st.Depth == 0 && !st.HasIface {
		k1 = 16 // a scalar destination (string, number, time): the value is copied, buffers grow geometrically
	}
	return
}

// AllocBoundN is the bound when the number of values nv in the input is known by construction
// (every value costs at least a byte, so nv <= n): the per-element constant is paid per value, the
// payload at 16 bytes per input byte.  For containers of scalars / strings only the per-element
// constant is 64 + 8*unit (slot, growth by append, map bucket share); otherwise as AllocBound.
func AllocBoundN(st TypeStats, o Opts, n, nv int) uint64 {
	k0, k1 := AllocBound(st, o, n)
	if nv <= 0 || nv > n {
		return k0 + k1*uint64(n)
	}
	per := k1
	if st.Flat && !st.HasIface {
		per = 64 + 8*uint64(st.MaxUnit)
	}
	return k0 + per*uint64(nv) + 16*uint64(n)
}

// ---- type-directed documents ----

type rng interface {
	Intn(n int) int
	U64() uint64
	Bytes(n int) []byte
}

func randStr(r rng) []byte {
	n := []int{0, 1, 3, 7, 23, 24, 31, 32, 40, 255, 256, 300}[r.Intn(12)]
	if r.Intn(3) > 0 {
		n = r.Intn(12)
	}
	b := make([]byte, n)
	for i := range b {
		b[i] = byte('a' + r.Intn(26))
	}
	if n > 0 && r.Intn(8) == 0 {
		b[r.Intn(n)] = byte(0x80 + r.Intn(0x80)) // not UTF-8
	}
	return b
}

var edgeU = []uint64{0, 1, 23, 24, 127, 128, 255, 256, 65535, 65536, 1<<31 - 1, 1 << 31, 1<<32 - 1, 1 << 32, 1<<63 - 1, 1 << 63, math.MaxUint64}

func randUint(r rng) *Node {
	if r.Intn(2) == 0 {
		return U(uint64(r.Intn(100)))
	}
	return U(edgeU[r.Intn(len(edgeU))])
}

func randScalar(r rng) *Node {
	switch r.Intn(7) {
	case 0:
		return Nil()
	case 1:
		return &Node{K: NBool, U: uint64(r.Intn(2))}
	case 2:
		return randUint(r)
	case 3:
		return &Node{K: NNeg, U: edgeU[r.Intn(len(edgeU))]}
	case 4:
		return &Node{K: NF64, U: math.Float64bits(float64(r.Intn(1000)) / 8)}
	case 5:
		return &Node{K: NBin, S: randStr(r)}
	}
	return &Node{K: NStr, S: randStr(r)}
}

func randWidth(r rng) int {
	if r.Intn(3) > 0 {
		return 0
	}
	return []int{1, 2, 4, 8}[r.Intn(4)]
}

// RandTree is a value for an interface{} destination.
func RandTree(r rng, f Fmt, depth int) *Node {
	if depth <= 0 || r.Intn(3) == 0 {
		return randScalar(r)
	}
	k := r.Intn(4)
	switch r.Intn(5) {
	case 0, 1:
		n := &Node{K: NArr, W: randWidth(r), Indef: r.Intn(4) == 0}
		for i := 0; i < k; i++ {
			n.Kids = append(n.Kids, RandTree(r, f, depth-1))
		}
		return n
	case 2, 3:
		n := &Node{K: NMap, W: randWidth(r), Indef: r.Intn(4) == 0}
		for i := 0; i < k; i++ {
			var key *Node
			if r.Intn(3) == 0 {
				key = randUint(r)
			} else {
				key = &Node{K: NStr, S: append([]byte{byte('a' + i)}, randStr(r)...)}
			}
			n.Kids = append(n.Kids, key, RandTree(r, f, depth-1))
		}
		return n
	}
	if f == Cbor {
		return Tag(uint64([]int{9, 6, 8, 100, 55799, 2, 0, 1}[r.Intn(8)]), RandTree(r, f, depth-1))
	}
	return &Node{K: NExt, Tag: uint64([]int{1, 7, 255, 0}[r.Intn(4)]), S: randStr(r), W: randWidth(r)}
}

// GenFor builds a document that decodes (mostly) into t.
func GenFor(r rng, f Fmt, t reflect.Type, depth int) *Node {
	if t == rawType {
		return RandTree(r, f, 2)
	}
	if t == timeType {
		return Lit(EncScalar(f, time.Unix(int64(r.Intn(2000000000)), int64(r.Intn(1000000000))).UTC()))
	}
	if t == rextType {
		if f == Cbor {
			return Tag(uint64(r.Intn(300)), RandTree(r, f, 1))
		}
		return &Node{K: NExt, Tag: uint64(r.Intn(256)), S: randStr(r), W: randWidth(r)}
	}
	switch t.Kind() {
	case reflect.Bool:
		return &Node{K: NBool, U: uint64(r.Intn(2))}
	case reflect.Int, reflect.Int8, reflect.Int16, reflect.Int32, reflect.Int64:
		if r.Intn(2) == 0 {
			return &Node{K: NNeg, U: uint64(r.Intn(100))}
		}
		return U(uint64(r.Intn(120)))
	case reflect.Uint, reflect.Uint8, reflect.Uint16, reflect.Uint32, reflect.Uint64, reflect.Uintptr:
		if r.Intn(4) == 0 {
			return randUint(r)
		}
		return U(uint64(r.Intn(250)))
	case reflect.Float32, reflect.Float64:
		return &Node{K: NF64, U: math.Float64bits(float64(r.Intn(1000)) / 8)}
	case reflect.String:
		return &Node{K: NStr, S: randStr(r), W: randWidth(r), Indef: r.Intn(6) == 0}
	case reflect.Interface:
		return RandTree(r, f, depth)
	case reflect.Ptr:
		if r.Intn(5) == 0 {
			return Nil()
		}
		return GenFor(r, f, t.Elem(), depth)
	case reflect.Slice, reflect.Array, reflect.Chan:
		if t.Elem().Kind() == reflect.Uint8 && t.Kind() != reflect.Chan && r.Intn(4) > 0 {
			return &Node{K: NBin, S: randStr(r), W: randWidth(r), Indef: r.Intn(6) == 0}
		}
		k := r.Intn(5)
		if t.Kind() == reflect.Array && r.Intn(2) == 0 {
			k = t.Len()
		}
		if depth <= 0 {
			k = 0
		}
		n := &Node{K: NArr, W: randWidth(r), Indef: r.Intn(5) == 0}
		for i := 0; i < k; i++ {
			n.Kids = append(n.Kids, GenFor(r, f, t.Elem(), depth-1))
		}
		return n
	case reflect.Map:
		k := r.Intn(4)
		if depth <= 0 {
			k = 0
		}
		n := &Node{K: NMap, W: randWidth(r), Indef: r.Intn(5) == 0}
		for i := 0; i < k; i++ {
			key := GenFor(r, f, t.Key(), 0)
			if t.Key().Kind() == reflect.String || t.Key().Kind() == reflect.Interface {
				key = &Node{K: NStr, S: append([]byte{byte('a' + i)}, randStr(r)...)}
			}
			n.Kids = append(n.Kids, key, GenFor(r, f, t.Elem(), depth-1))
		}
		return n
	case reflect.Struct:
		toarray := false
		if sf, ok := t.FieldByName("_struct"); ok && sf.Tag.Get("codec") == ",toarray" {
			toarray = true
		}
		if toarray || r.Intn(6) == 0 {
			n := &Node{K: NArr, W: randWidth(r)}
			for i := 0; i < t.NumField(); i++ {
				sf := t.Field(i)
				if sf.Name == "_struct" {
					continue
				}
				if depth <= 0 {
					n.Kids = append(n.Kids, Nil())
				} else {
					n.Kids = append(n.Kids, GenFor(r, f, sf.Type, depth-1))
				}
			}
			return n
		}
		n := &Node{K: NMap, W: randWidth(r), Indef: r.Intn(5) == 0}
		for i := 0; i < t.NumField(); i++ {
			sf := t.Field(i)
			if sf.Name == "_struct" || r.Intn(3) == 0 || depth <= 0 {
				continue
			}
			n.Kids = append(n.Kids, S(sf.Name), GenFor(r, f, sf.Type, depth-1))
			if r.Intn(5) == 0 { // an unknown field: skipped by the second parser
				n.Kids = append(n.Kids, S("zz"+sf.Name), RandTree(r, f, 2))
			}
		}
		return n
	}
	return Nil()
}

package hx

import (
	"bytes"
	"encoding/binary"
	"reflect"

	"github.com/ugorji/go/codec"
)

// Unit is one level of nesting: Pre ++ <nested value> ++ Suf is again a value.
type Unit struct {
	Name     string
	Pre      []byte
	Suf      []byte
	LvDec    int  // levels it adds where the value is decoded (naked or typed)
	LvSkip   int  // levels it adds where the value is walked by nextValueBytes (skip / Raw)
	KeyPos   bool // the nested value sits in map-key position (a container there is unhashable as an interface{} key)
	NoTyped  bool
	LeafOnly bool // well-formed only as the innermost level (cbor tag 4 / 5: exponent and mantissa are integers): anything
	// nested inside it where the value is DECODED can only be an error
	Hostile bool // the head claims a length no input can honour (0xFFFFFFFF80000000 = math.MinInt32 as an int32, the
	// containerLenNil sentinel): the only acceptable outcome is an error, at every depth
	Ill bool // not a legitimate nesting unit (illformed.go): nested to MaxDepth or beyond, the only acceptable outcomes
	// are an error or a result reached without recursion
	Lenient bool // Ill, and the unchanged skip walker gets past it in a loop (no recursion): judged by the wire model and the stack cap
}

// MinInt32Len is the 64-bit length whose low 32 bits are math.MinInt32 (containerLenNil) once truncated.
const MinInt32Len = 0xFFFFFFFF80000000

func cat(bs ...[]byte) []byte {
	var out []byte
	for _, b := range bs {
		out = append(out, b...)
	}
	return out
}

// MapStr is the head of a one-entry map with the string key k (the value follows; json needs CloseMap after it).
func MapStr(f Fmt, k string) []byte {
	if f == Json {
		return []byte(`{"` + k + `":`)
	}
	return cat(HeadBytes(f, NMap, 1, 0, 0), HeadBytes(f, NStr, uint64(len(k)), 0, 0), []byte(k))
}
func CloseMap(f Fmt) []byte {
	if f == Json {
		return []byte("}")
	}
	return nil
}
func Arr1(f Fmt) []byte {
	if f == Json {
		return []byte("[")
	}
	return HeadBytes(f, NArr, 1, 0, 0)
}
func CloseArr(f Fmt) []byte {
	if f == Json {
		return []byte("]")
	}
	return nil
}
func EmptyArr(f Fmt) []byte {
	if f == Json {
		return []byte("[]")
	}
	return HeadBytes(f, NArr, 0, 0, 0)
}
func One(f Fmt) []byte { return EncScalar(f, uint64(1)) }

// NakedUnits are the ways one value nests another in format f, for values decoded into
// interface{} or walked by the skip parser.
func NakedUnits(f Fmt, o Opts) []Unit {
	one := One(f)
	var us []Unit
	add := func(name string, pre, suf []byte, dec, skip int, key bool) {
		us = append(us, Unit{Name: name, Pre: pre, Suf: suf, LvDec: dec, LvSkip: skip, KeyPos: key})
	}
	if f == Json {
		add("arr", []byte("["), []byte("]"), 1, 1, false)
		add("arr-ws", []byte(" [\n "), []byte(" ] "), 1, 1, false)
		add("arr2", []byte("["), []byte(",1]"), 1, 1, false)
		add("map-val", []byte(`{"a":`), []byte("}"), 1, 1, false)
		add("map-val2", []byte(`{"b":1,"a":`), []byte("}"), 1, 1, false)
		return us
	}
	for _, w := range []int{0, 1, 2, 4, 8} {
		if f == Msgpack && (w == 1 || w == 8) {
			continue
		}
		add("arr/w"+string(rune('0'+w)), HeadBytes(f, NArr, 1, w, 0), nil, 1, 1, false)
	}
	add("arr2", HeadBytes(f, NArr, 2, 0, 0), one, 1, 1, false)
	add("map-val", cat(HeadBytes(f, NMap, 1, 0, 0), one), nil, 1, 1, false)
	add("map-val/w4", cat(HeadBytes(f, NMap, 1, 4, 0), one), nil, 1, 1, false)
	add("map-strkey", MapStr(f, "a"), nil, 1, 1, false)
	add("map-key", HeadBytes(f, NMap, 1, 0, 0), one, 1, 1, true)
	if f == Cbor || f == Simple || f == Binc {
		var brk []byte
		if f == Cbor {
			brk = []byte{0xff} // a container "without length" is read up to the break byte
		}
		us = append(us, Unit{Name: "arr-len-minint32", Pre: HeadBytes(f, NArr, MinInt32Len, 8, 0), Suf: brk, LvDec: 1, LvSkip: 1, Hostile: true})
		us = append(us, Unit{Name: "map-len-minint32", Pre: cat(HeadBytes(f, NMap, MinInt32Len, 8, 0), one), Suf: brk, LvDec: 1, LvSkip: 1, Hostile: true})
	}
	if f == Cbor {
		add("arr-indef", []byte{0x9f}, []byte{0xff}, 1, 1, false)
		add("map-indef", cat([]byte{0xbf}, one), []byte{0xff}, 1, 1, false)
		add("map-indef-key", []byte{0xbf}, cat(one, []byte{0xff}), 1, 1, true)
		tl := 1
		if o.SkipTags {
			tl = 0
		}
		add("tag", []byte{0xc0 | 9}, nil, tl, 1, false) // tag 9: not one the decoder interprets
		add("tag/w2", []byte{0xd9, 0x01, 0x00}, nil, tl, 1, false)
		add("tag-selfdescribe", []byte{0xd9, 0xd9, 0xf7}, nil, 0, 1, false)
		us = append(us, TagNumUnits()...)
	}
	return us
}

// TagNumUnits: cbor decimal fractions / bigfloats (tag 4 / 5 around [exponent, mantissa]) nested in the mantissa or
// in the exponent position of one another. Decoded, only the innermost can be accepted (both are integers);
// the skip walker sees a tag around a two-element array: two levels.
func TagNumUnits() []Unit {
	return []Unit{
		{Name: "tag4-mantissa", Pre: []byte{0xc4, 0x82, 0x00}, LvDec: 0, LvSkip: 2, LeafOnly: true},
		{Name: "tag5-mantissa", Pre: []byte{0xc5, 0x82, 0x00}, LvDec: 0, LvSkip: 2, LeafOnly: true},
		{Name: "tag4-exponent", Pre: []byte{0xc4, 0x82}, Suf: []byte{0x00}, LvDec: 0, LvSkip: 2, LeafOnly: true},
		{Name: "tag5-exponent", Pre: []byte{0xc5, 0x82}, Suf: []byte{0x01}, LvDec: 0, LvSkip: 2, LeafOnly: true},
	}
}

// CNode is a recursive struct whose slice field has no generated fast-path decoder.
type CNode struct{ C []CNode }

func UnitByName(us []Unit, name string) (Unit, bool) {
	for _, u := range us {
		if u.Name == name {
			return u, true
		}
	}
	return Unit{}, false
}

// T is the recursive typed destination of the property text.
type T struct {
	A []T
	M map[string]T
	P *T
}

// TUnits nest a T inside a T through each of its fields.
func TUnits(f Fmt) []Unit {
	var hostile []Unit
	if f == Cbor || f == Simple || f == Binc {
		var brk []byte
		if f == Cbor {
			brk = []byte{0xff}
		}
		key := cat(HeadBytes(f, NStr, 1, 0, 0), []byte("P"))
		hostile = []Unit{{Name: "T.P-len-minint32", Pre: cat(HeadBytes(f, NMap, MinInt32Len, 8, 0), key), Suf: brk, LvDec: 1, LvSkip: 1, Hostile: true}}
	}
	return append(hostile, []Unit{
		{Name: "T.P", Pre: MapStr(f, "P"), Suf: CloseMap(f), LvDec: 1, LvSkip: 1},
		{Name: "T.A", Pre: cat(MapStr(f, "A"), Arr1(f)), Suf: cat(CloseArr(f), CloseMap(f)), LvDec: 2, LvSkip: 2},
		{Name: "T.M", Pre: cat(MapStr(f, "M"), MapStr(f, "k")), Suf: cat(CloseMap(f), CloseMap(f)), LvDec: 2, LvSkip: 2},
	}...)
}

// FlatInput is a long input WITHOUT nesting: stack use must not grow with its length either.
func FlatInput(f Fmt, kind string, n int) []byte {
	switch kind {
	case "json-escapes": // a string of n backslash escapes
		return cat([]byte{'"'}, bytes.Repeat([]byte("\\n"), n), []byte{'"'})
	case "json-uescapes":
		return cat([]byte{'"'}, bytes.Repeat([]byte("\\u00e9"), n), []byte{'"'})
	case "long-array":
		if f == Json {
			return cat([]byte("[1"), bytes.Repeat([]byte(",1"), n-1), []byte("]"))
		}
		return cat(HeadBytes(f, NArr, uint64(n), 0, 0), bytes.Repeat(One(f), n))
	case "long-string":
		if f == Json {
			return cat([]byte{'"'}, bytes.Repeat([]byte("a"), n), []byte{'"'})
		}
		return cat(HeadBytes(f, NStr, uint64(n), 0, 0), bytes.Repeat([]byte("a"), n))
	case "cbor-chunks":
		return cat([]byte{0x7f}, bytes.Repeat([]byte{0x61, 'a'}, n), []byte{0xff})
	}
	panic("no flat input " + kind)
}

// FlatKinds lists the flat inputs of a format.
func FlatKinds(f Fmt) []string {
	ks := []string{"long-array", "long-string"}
	if f == Json {
		ks = append(ks, "json-escapes", "json-uescapes")
	}
	if f == Cbor {
		ks = append(ks, "cbor-chunks")
	}
	return ks
}

// WrapFor puts a value where the path expects it.
func (p Path) WrapFor(f Fmt, v []byte) []byte {
	switch p.Name {
	case "field":
		return cat(MapStr(f, "x"), v, CloseMap(f))
	case "rawfield":
		return cat(MapStr(f, "R"), v, CloseMap(f))
	case "ifacefield":
		return cat(MapStr(f, "V"), v, CloseMap(f))
	}
	return v
}

// SelfTree is a recursive type with a hand-written Selfer, written as the Selfer documentation suggests: it
// hands its children back to the Encoder / Decoder, so Decode is RE-ENTERED (mustDecode -> decode) at every level.
type SelfTree struct{ Kids []*SelfTree }

func (x *SelfTree) CodecEncodeSelf(e *codec.Encoder) {
	kids := x.Kids
	if kids == nil {
		kids = []*SelfTree{}
	}
	e.MustEncode(kids)
}
func (x *SelfTree) CodecDecodeSelf(d *codec.Decoder) { d.MustDecode(&x.Kids) }

// SelfTreeE re-enters through Decode (the error-returning entry) and passes the error on as a panic,
// which is what the Selfer contract asks for.
type SelfTreeE struct{ Kids []*SelfTreeE }

func (x *SelfTreeE) CodecEncodeSelf(e *codec.Encoder) { e.MustEncode(x.Kids) }
func (x *SelfTreeE) CodecDecodeSelf(d *codec.Decoder) {
	if err := d.Decode(&x.Kids); err != nil {
		panic(err)
	}
}

type SkipDst struct{ A int }
type RawField struct {
	A int
	R codec.Raw
}

// Path is a way a nested value reaches the decoder.
type Path struct {
	Name   string
	Base   int  // levels the wrapper and the core add
	Walker bool // nesting is met by nextValueBytes (LvSkip counts)
	Typed  bool // nesting is met by typed decoding (depth bounded by the destination type too)
}

var Paths = []Path{
	{Name: "iface"},
	{Name: "raw", Walker: true},
	{Name: "field", Base: 1, Walker: true},
	{Name: "rawfield", Base: 1, Walker: true},
	{Name: "ifacefield", Base: 1},
	{Name: "T", Base: 1, Typed: true},
	{Name: "slices", Base: 1, Typed: true},
	{Name: "mapsi", Base: 1},
	{Name: "slicei", Base: 1},
	{Name: "mapslice", Base: 2, Typed: true},         // Node{C []Node} written as [C] with C given as a MAP {Node: Node}: kSlice reads it as key, value, ...
	{Name: "float64", Typed: true},                   // cbor: tag 4 / 5 items into a float64
	{Name: "floats", Base: 1, Typed: true},           // ... into []float64
	{Name: "selfer-reentry", Base: 1, Typed: true},   // a recursive Selfer whose CodecDecodeSelf calls d.MustDecode for its children
	{Name: "selfer-reentry-e", Base: 1, Typed: true}, // the same through d.Decode
	{Name: "ext-iface"},                              // cbor: a tag bound to an InterfaceExt around every level
	{Name: "ext-self", Base: 1},                      // msgpack/simple/binc: SelfExt payload inside SelfExt payload
}

func PathByName(n string) Path {
	for _, p := range Paths {
		if p.Name == n {
			return p
		}
	}
	for _, p := range extraPaths {
		if p.Name == n {
			return p
		}
	}
	panic("no path " + n)
}

type IfaceField struct{ V interface{} }

var sliceTypeCache = map[int]reflect.Type{}

// NestedSliceType is [][]...[]int with k slice levels.
func NestedSliceType(k int) reflect.Type {
	if t, ok := sliceTypeCache[k]; ok {
		return t
	}
	t := reflect.TypeOf(int(0))
	for i := 0; i < k; i++ {
		t = reflect.SliceOf(t)
	}
	sliceTypeCache[k] = t
	return t
}

// Dest returns a fresh destination pointer for the path.
func (p Path) Dest(o Opts) interface{} {
	switch p.Name {
	case "iface", "ext-iface", "ext-self":
		return new(interface{})
	case "raw":
		return new(codec.Raw)
	case "field":
		return new(SkipDst)
	case "rawfield":
		return new(RawField)
	case "ifacefield":
		return new(IfaceField)
	case "T":
		return new(T)
	case "slices":
		return reflect.New(NestedSliceType(o.EffMaxDepth() + 2)).Interface()
	case "mapslice":
		return new(CNode)
	case "float64":
		return new(float64)
	case "floats":
		return new([]float64)
	case "selfer-reentry":
		return new(SelfTree)
	case "selfer-reentry-e":
		return new(SelfTreeE)
	case "mapsi":
		return new(map[string]interface{})
	case "slicei":
		return new([]interface{})
	case "bytes":
		return new([]byte)
	case "string":
		return new(string)
	}
	panic("no dest")
}

// UnitsFor lists the nesting units that make sense on the path.
func (p Path) UnitsFor(f Fmt, o Opts) []Unit {
	switch p.Name {
	case "T":
		return TUnits(f)
	case "slices", "selfer-reentry", "selfer-reentry-e":
		us := NakedUnits(f, o)
		var out []Unit
		for _, u := range us {
			if len(u.Name) >= 3 && u.Name[:3] == "arr" && u.Name != "arr2" {
				out = append(out, u)
			}
		}
		return out
	case "mapslice":
		// [ {[{}]: <next Node>} ]: the struct as a one-element array, its slice field as a one-entry map whose key is a leaf Node
		leaf := cat(Arr1(f), emptyMap(f))
		return []Unit{{Name: "node-map", Pre: cat(Arr1(f), HeadBytes(f, NMap, 1, 0, 0), leaf), LvDec: 2, LvSkip: 2}}
	case "float64", "floats":
		return TagNumUnits()
	case "ext-iface":
		return []Unit{{Name: "tag-iext", Pre: []byte{0xc0 | XITag}, LvDec: 1, LvSkip: 1}}
	case "ext-self":
		return []Unit{{Name: "selfext", LvDec: 1, LvSkip: 1}}
	}
	return NakedUnits(f, o)
}

// Applies says whether the path exists for the format.
func (p Path) Applies(f Fmt) bool {
	switch p.Name {
	case "mapslice":
		return f != Json
	case "float64", "floats":
		return f == Cbor
	case "ext-iface":
		return f == Cbor
	case "ext-self":
		return f == Msgpack || f == Simple || f == Binc
	}
	return true
}

// Build assembles the input: wrapper(pattern cycled count times around the core).
// It returns the input and the number of nesting levels the decoder has to account for.
func (p Path) Build(f Fmt, o Opts, pattern []Unit, count int) (in []byte, eff int) {
	if p.Name == "ext-self" {
		// the outermost {"V": ...} is a map level; every extension adds itself and the struct in its payload
		return BuildSelfExt(f, count), 2*count + 1
	}
	core := One(f)
	if p.Name == "slices" || p.Name == "selfer-reentry" || p.Name == "selfer-reentry-e" {
		core = EmptyArr(f) // the innermost list (a leaf of the tree): one more array level
	}
	var pre, wsuf []byte
	switch p.Name {
	case "field":
		pre, wsuf = MapStr(f, "x"), CloseMap(f)
	case "rawfield":
		pre, wsuf = MapStr(f, "R"), CloseMap(f)
	case "ifacefield":
		pre, wsuf = MapStr(f, "V"), CloseMap(f)
	case "mapsi":
		pre, wsuf = MapStr(f, "a"), CloseMap(f)
	case "slicei", "floats":
		pre, wsuf = Arr1(f), CloseArr(f)
	case "mapslice":
		core = cat(Arr1(f), emptyMap(f)) // a leaf Node: [ {} ] (two levels)
	}
	eff = p.Base
	if p.Name == "T" {
		eff = 0 // the T units carry their own struct level; the core is a scalar in field position... see below
	}
	n := len(pre) + len(core) + len(wsuf)
	for i := 0; i < count; i++ {
		u := pattern[i%len(pattern)]
		n += len(u.Pre) + len(u.Suf)
	}
	in = make([]byte, 0, n)
	in = append(in, pre...)
	for i := 0; i < count; i++ {
		u := pattern[i%len(pattern)]
		in = append(in, u.Pre...)
		if p.Walker {
			eff += u.LvSkip
		} else {
			eff += u.LvDec
		}
	}
	if p.Name == "T" {
		// innermost T: an empty map (one more struct level)
		in = append(in, emptyMap(f)...)
		eff++
	} else {
		in = append(in, core...)
	}
	for i := count - 1; i >= 0; i-- {
		in = append(in, pattern[i%len(pattern)].Suf...)
	}
	in = append(in, wsuf...)
	return in, eff
}

func emptyMap(f Fmt) []byte {
	if f == Json {
		return []byte("{}")
	}
	return HeadBytes(f, NMap, 0, 0, 0)
}

// BuildSelfExt nests n SelfExt extensions (type XSTag, destination XS{V interface{}}): level k is
// {"V": ext(XSTag, <level k-1>)}, level 0 is {"V": 1}.
func BuildSelfExt(f Fmt, n int) []byte {
	core := cat(MapStr(f, "V"), One(f))
	pre := MapStr(f, "V")
	// all heads use the 4-byte length form so that every level has the same size
	hl := len(HeadBytes(f, NExt, 1<<20, 4, XSTag))
	per := len(pre) + hl
	out := make([]byte, 0, n*per+len(core))
	for k := n; k >= 1; k-- {
		l := len(core) + (k-1)*per
		out = append(out, pre...)
		out = append(out, HeadBytes(f, NExt, uint64(l), 4, XSTag)...)
	}
	return append(out, core...)
}

var _ = binary.BigEndian
var _ = bytes.Equal

// Run decodes in into the path's destination; it returns the error class of codec.VerifErrClass
// (0 ok, 1 input ended, 4 depth, 2 other), NumBytesRead, and whether a panic escaped Decode.
func Run(f Fmt, o Opts, p Path, in []byte) (cls int, nread int, escaped bool) {
	defer func() {
		if r := recover(); r != nil {
			cls, escaped = 11, true
		}
	}()
	h := Handle(f, o)
	d := NewDecoder(f, o, h, in)
	err := d.Decode(p.Dest(o))
	return codec.VerifErrClass(err), d.NumBytesRead(), false
}

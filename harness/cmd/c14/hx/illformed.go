package hx

// Ill-formed nesting: heads repeated n times that are NOT legitimate nesting units.
//
// cbor (RFC 8949 §3.2.3): the chunks of an indefinite-length string are DEFINITE-length strings of the same major
// type. A head in chunk position that is again an indefinite-length head (0x5f / 0x7f / 0x9f / 0xbf: additional
// information 31 is not a length), a tag or a container head there, or a break byte where a map value / a tag's
// content belongs, is not well-formed. Such a head must not become a way of nesting that the depth counter does
// not see: whatever the count, the only acceptable outcomes are an error, or a result reached without recursion
// (the unchanged skip walker reads the chunk head's additional information as a byte count whatever the major
// type: a loop, no recursion; units of that kind are marked Lenient and judged by the wire model and by the
// stack cap only).
//
// Every unit below counts as ONE level (LvDec = LvSkip = 1) so that "count around MaxDepth" means what it
// means for the legitimate units.

// IllUnits lists the ill-formed nesting units of format f.
func IllUnits(f Fmt) []Unit {
	if f != Cbor {
		return nil
	}
	ill := func(name string, pre, suf []byte, lenient bool) Unit {
		return Unit{Name: name, Pre: pre, Suf: suf, LvDec: 1, LvSkip: 1, Ill: true, Lenient: lenient}
	}
	return []Unit{
		// an indefinite-length string head in chunk position, first chunk
		ill("ill-bytes-indef-in-chunk", []byte{0x5f}, []byte{0xff}, false),
		ill("ill-text-indef-in-chunk", []byte{0x7f}, []byte{0xff}, false),
		// ... after a well-formed chunk / followed by a well-formed chunk
		ill("ill-bytes-indef-2nd-chunk", []byte{0x5f, 0x41, 0x00}, []byte{0xff}, false),
		ill("ill-text-indef-chunk-then-chunk", []byte{0x7f}, []byte{0x61, 0x61, 0xff}, false),
		// an indefinite-length array / map head in chunk position
		ill("ill-arr-indef-in-chunk", []byte{0x5f, 0x9f}, []byte{0xff, 0xff}, false),
		ill("ill-map-indef-in-chunk", []byte{0x7f, 0xbf, 0x01}, []byte{0xff, 0xff}, false),
		// a break byte where a value belongs, around a legitimate level (the level itself is counted by the decoder)
		ill("ill-map-indef-break-as-value", []byte{0xbf}, []byte{0xff, 0xff}, false),
		ill("ill-arr-indef-break-as-tag-content", []byte{0x9f}, []byte{0xc9, 0xff, 0xff}, false),
		ill("ill-break-as-tag-content-then-value", []byte{0x82, 0xc9, 0xff}, nil, false),
		// a tag / a definite container head in chunk position: the unchanged walker takes the low five bits
		// for a byte count and goes on with the next chunk (no recursion); decoding refuses the major type
		ill("ill-tag-in-chunk", []byte{0x5f, 0xc9}, []byte{0xff}, true),
		ill("ill-arr-in-chunk", []byte{0x5f, 0x81}, []byte{0xff}, true),
		ill("ill-map-in-chunk", []byte{0x7f, 0xa1, 0x01}, []byte{0xff}, true),
		ill("ill-tag-indef-text-in-chunk", []byte{0x7f, 0xd8, 0x20}, []byte{0xff}, true),
	}
}

// IllMixtures are fixed (seed-independent) mixtures of ill-formed units, by index into IllUnits.
func IllMixtures(f Fmt) [][]Unit {
	us := IllUnits(f)
	if len(us) == 0 {
		return nil
	}
	var out [][]Unit
	for _, ix := range [][]int{{0, 1}, {1, 0}, {0, 2}, {3, 1, 0}, {6, 0}, {7, 1}, {4, 0}, {5, 3}, {0, 6}, {1, 7, 2}, {9, 0}, {0, 10}, {12, 1}, {8, 0}} {
		var p []Unit
		for _, i := range ix {
			p = append(p, us[i])
		}
		out = append(out, p)
	}
	return out
}

// IllPaths: where an ill-formed nesting is met: every path that takes an arbitrary value, and the two typed
// string destinations (DecodeBytes / DecodeStringAsBytes called by the typed layer).
var IllPathNames = []string{"iface", "raw", "field", "rawfield", "ifacefield", "mapsi", "slicei", "bytes", "string"}

// extraPaths are used by the ill-formed stream only (they are not in Paths: no legitimate unit nests in a string).
var extraPaths = []Path{
	{Name: "bytes", Typed: true},
	{Name: "string", Typed: true},
}

// IllUnitByName finds an ill-formed unit of format f.
func IllUnitByName(f Fmt, name string) (Unit, bool) { return UnitByName(IllUnits(f), name) }

// IsIll: the pattern contains an ill-formed unit within its first count positions; lenient: one of them is Lenient.
func IsIll(pat []Unit, count int) (ill, lenient bool) {
	for i := 0; i < count && i < len(pat); i++ {
		if pat[i].Ill {
			ill = true
		}
		if pat[i].Lenient {
			lenient = true
		}
	}
	return
}

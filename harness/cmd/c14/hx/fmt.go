// Package hx holds what the C14 and C02 harnesses share: the five formats with a
// format-independent decode option vector, hand-written wire heads (so that every length
// position of a document is known and can be replaced), nesting units, destinations, and
// the subprocess worker pool that isolates fatal exits and hangs.
package hx

import (
	"encoding/base64"
	"encoding/binary"
	"fmt"
	"io"
	"math"
	"reflect"
	"strconv"
	"strings"

	"github.com/ugorji/go/codec"
)

type Fmt int

const (
	Cbor Fmt = iota
	Msgpack
	Simple
	Binc
	Json
)

var Names = []string{"cbor", "msgpack", "simple", "binc", "json"}
var All = []Fmt{Cbor, Msgpack, Simple, Binc, Json}

func (f Fmt) String() string { return Names[f] }

// Opts is the decode option vector of the properties' quantifier.
type Opts struct {
	MaxDepth        int  `json:"md,omitempty"`
	MaxInitLen      int  `json:"mil,omitempty"`
	ZeroCopy        bool `json:"zc,omitempty"`
	Signed          bool `json:"si,omitempty"`
	RawToString     bool `json:"r2s,omitempty"`
	ValidateUnicode bool `json:"vu,omitempty"`
	SkipTags        bool `json:"st,omitempty"` // cbor SkipUnexpectedTags
	WriteExt        bool `json:"we,omitempty"` // msgpack WriteExt (str family is a string)
	SliceType       int  `json:"slt,omitempty"`
	MapType         int  `json:"mpt,omitempty"`
	Ext             int  `json:"ext,omitempty"` // 0 none; 1 extensions registered (see Handle)
	IO              bool `json:"io,omitempty"`  // transport: io.Reader
	RBS             int  `json:"rbs,omitempty"` // ReaderBufferSize
	Chunk           int  `json:"ch,omitempty"`  // bytes per Read call of the io.Reader (0: as many as asked)
}

func (o Opts) String() string {
	var sb strings.Builder
	fmt.Fprintf(&sb, "MaxDepth=%d MaxInitLen=%d", o.MaxDepth, o.MaxInitLen)
	add := func(b bool, s string) {
		if b {
			sb.WriteString(" " + s)
		}
	}
	add(o.ZeroCopy, "ZeroCopy")
	add(o.Signed, "SignedInteger")
	add(o.RawToString, "RawToString")
	add(o.ValidateUnicode, "ValidateUnicode")
	add(o.SkipTags, "SkipUnexpectedTags")
	add(o.WriteExt, "WriteExt")
	if o.SliceType != 0 {
		fmt.Fprintf(&sb, " SliceType=%d", o.SliceType)
	}
	if o.MapType != 0 {
		fmt.Fprintf(&sb, " MapType=%d", o.MapType)
	}
	if o.Ext != 0 {
		fmt.Fprintf(&sb, " Ext=%d", o.Ext)
	}
	if o.IO {
		fmt.Fprintf(&sb, " io(rbs=%d,chunk=%d)", o.RBS, o.Chunk)
	} else {
		sb.WriteString(" bytes")
	}
	return sb.String()
}

func (o Opts) EffMaxDepth() int {
	if o.MaxDepth > 0 {
		return o.MaxDepth
	}
	return 1024
}

// extension types (Ext=1): a cbor tag with an InterfaceExt and, for the formats whose extensions
// carry bytes, a SelfExt (the payload is itself a document of the same format).
type XI struct{ V interface{} }
type XS struct{ V interface{} }

type xiExt struct{}

func (xiExt) ConvertExt(v interface{}) interface{} {
	switch x := v.(type) {
	case *XI:
		return x.V
	case XI:
		return x.V
	}
	return nil
}
func (xiExt) UpdateExt(dst interface{}, src interface{}) {
	if x, ok := dst.(*XI); ok {
		x.V = src
	}
}

const XITag = 6     // cbor tag bound to XI (InterfaceExt)
const XSTag = 7     // ext type bound to XS (SelfExt)
const XSTagCbor = 8 // cbor tag bound to XS (SelfExt)

var sliceTypes = []reflect.Type{nil, reflect.TypeOf([]string(nil)), reflect.TypeOf([]int64(nil))}
var mapTypes = []reflect.Type{nil, reflect.TypeOf(map[string]interface{}(nil)), reflect.TypeOf(map[uint64]interface{}(nil))}

// Handle builds a fresh handle.
func Handle(f Fmt, o Opts) codec.Handle {
	var h codec.Handle
	var bh *codec.BasicHandle
	switch f {
	case Cbor:
		x := &codec.CborHandle{}
		x.SkipUnexpectedTags = o.SkipTags
		h, bh = x, &x.BasicHandle
		if o.Ext == 1 {
			must(x.SetInterfaceExt(reflect.TypeOf(XI{}), XITag, xiExt{}))
			must(x.SetExt(reflect.TypeOf(XS{}), XSTagCbor, codec.SelfExt))
		}
	case Msgpack:
		x := &codec.MsgpackHandle{}
		x.WriteExt = o.WriteExt
		h, bh = x, &x.BasicHandle
	case Simple:
		x := &codec.SimpleHandle{}
		h, bh = x, &x.BasicHandle
	case Binc:
		x := &codec.BincHandle{}
		h, bh = x, &x.BasicHandle
	case Json:
		x := &codec.JsonHandle{}
		h, bh = x, &x.BasicHandle
	}
	if o.Ext == 1 && (f == Msgpack || f == Simple || f == Binc) {
		must(bh.SetExt(reflect.TypeOf(XS{}), XSTag, codec.SelfExt))
	}
	bh.MaxDepth = int16(o.MaxDepth)
	bh.MaxInitLen = o.MaxInitLen
	bh.ZeroCopy = o.ZeroCopy
	bh.SignedInteger = o.Signed
	bh.RawToString = o.RawToString
	bh.ValidateUnicode = o.ValidateUnicode
	bh.ReaderBufferSize = o.RBS
	if o.SliceType > 0 && o.SliceType < len(sliceTypes) {
		bh.SliceType = sliceTypes[o.SliceType]
	}
	if o.MapType > 0 && o.MapType < len(mapTypes) {
		bh.MapType = mapTypes[o.MapType]
	}
	return h
}

func must(err error) {
	if err != nil {
		panic(err)
	}
}

// ChunkReader hands out at most n bytes per Read.
type ChunkReader struct {
	B []byte
	N int
}

func (c *ChunkReader) Read(p []byte) (int, error) {
	if len(c.B) == 0 {
		return 0, io.EOF
	}
	n := len(p)
	if c.N > 0 && n > c.N {
		n = c.N
	}
	if n > len(c.B) {
		n = len(c.B)
	}
	copy(p, c.B[:n])
	c.B = c.B[n:]
	return n, nil
}

// NewDecoder builds a decoder over b with the transport the options ask for.
func NewDecoder(f Fmt, o Opts, h codec.Handle, b []byte) *codec.Decoder {
	if o.IO {
		return codec.NewDecoder(&ChunkReader{B: b, N: o.Chunk}, h)
	}
	return codec.NewDecoderBytes(b, h)
}

// ---------------------------------------------------------------------------------------
// wire heads, hand written from the format definitions (cbor: RFC 8949; msgpack: spec;
// simple, binc: simple.base.go / binc.base.go and the encLen functions)

const (
	NNil = iota
	NBool
	NUint
	NNeg // -1 - U
	NF64 // U = bits
	NStr
	NBin
	NArr
	NMap // Kids = k0, v0, k1, v1, ...
	NTag // cbor tag Tag around Kids[0]; other formats: Kids[0] alone
	NExt // bytes extension: type Tag, payload S (cbor: tag Tag around byte string S)
	NLit // S verbatim
)

func be(n uint64, w int) []byte {
	b := make([]byte, 8)
	binary.BigEndian.PutUint64(b, n)
	return b[8-w:]
}

func minWidth(n uint64) int {
	switch {
	case n <= math.MaxUint8:
		return 1
	case n <= math.MaxUint16:
		return 2
	case n <= math.MaxUint32:
		return 4
	}
	return 8
}

// MaxLen is the largest length a head of this format can claim.
func MaxLen(f Fmt) uint64 {
	if f == Msgpack {
		return math.MaxUint32
	}
	return math.MaxUint64
}

// HeadBytes is the head of a string / byte string / array / map / ext claiming n elements
// (bytes). width 0 = shortest form; 1,2,4,8 = that many length bytes where the format has them
// (a width the format lacks or that cannot hold n is widened). For NExt the type byte follows
// per format; tag is that type.
func HeadBytes(f Fmt, kind int, n uint64, width int, tag uint64) []byte {
	if width != 0 && width < minWidth(n) {
		width = minWidth(n)
	}
	switch f {
	case Cbor:
		var major byte
		switch kind {
		case NBin:
			major = 2
		case NStr:
			major = 3
		case NArr:
			major = 4
		case NMap:
			major = 5
		case NTag:
			major = 6
		case NExt:
			return append(HeadBytes(f, NTag, tag, 0, 0), HeadBytes(f, NBin, n, width, 0)...)
		case NUint:
			major = 0
		case NNeg:
			major = 1
		}
		if width == 0 {
			if n < 24 {
				return []byte{major<<5 | byte(n)}
			}
			width = minWidth(n)
		}
		ai := map[int]byte{1: 24, 2: 25, 4: 26, 8: 27}[width]
		return append([]byte{major<<5 | ai}, be(n, width)...)
	case Msgpack:
		if n > math.MaxUint32 {
			n = math.MaxUint32
		}
		if width == 8 {
			width = 4
		}
		switch kind {
		case NStr:
			if width == 0 && n < 32 {
				return []byte{0xa0 | byte(n)}
			}
			if width == 0 {
				width = minWidth(n)
			}
			return append([]byte{map[int]byte{1: 0xd9, 2: 0xda, 4: 0xdb}[width]}, be(n, width)...)
		case NBin:
			if width == 0 {
				width = minWidth(n)
			}
			return append([]byte{map[int]byte{1: 0xc4, 2: 0xc5, 4: 0xc6}[width]}, be(n, width)...)
		case NArr, NMap:
			fix, b16 := byte(0x90), byte(0xdc)
			if kind == NMap {
				fix, b16 = 0x80, 0xde
			}
			if width == 0 && n < 16 {
				return []byte{fix | byte(n)}
			}
			if width == 0 {
				width = minWidth(n)
			}
			if width == 1 {
				width = 2
			}
			if width == 2 {
				return append([]byte{b16}, be(n, 2)...)
			}
			return append([]byte{b16 + 1}, be(n, 4)...)
		case NExt:
			if width == 0 {
				switch n {
				case 1, 2, 4, 8, 16:
					return []byte{0xd4 + byte(bitsLog2(n)), byte(tag)}
				}
				width = minWidth(n)
			}
			return append(append([]byte{map[int]byte{1: 0xc7, 2: 0xc8, 4: 0xc9}[width]}, be(n, width)...), byte(tag))
		}
	case Simple:
		base := map[int]byte{NStr: 216, NBin: 224, NArr: 232, NMap: 240, NExt: 248}[kind]
		var hb []byte
		if width == 0 && n == 0 {
			hb = []byte{base}
		} else {
			if width == 0 {
				width = minWidth(n)
			}
			k := map[int]byte{1: 1, 2: 2, 4: 3, 8: 4}[width]
			hb = append([]byte{base + k}, be(n, width)...)
		}
		if kind == NExt {
			hb = append(hb, byte(tag))
		}
		return hb
	case Binc:
		vd := map[int]byte{NStr: 4, NBin: 5, NArr: 6, NMap: 7, NExt: 15}[kind]
		var hb []byte
		if width == 0 && n < 12 && kind != NExt {
			hb = []byte{vd<<4 | byte(n+4)}
		} else {
			if width == 0 {
				width = minWidth(n)
			}
			vs := map[int]byte{1: 0, 2: 1, 4: 2, 8: 3}[width]
			hb = append([]byte{vd<<4 | vs}, be(n, width)...)
		}
		if kind == NExt {
			hb = append(hb, byte(tag))
		}
		return hb
	}
	panic("HeadBytes: no head for this format/kind")
}

func bitsLog2(n uint64) int {
	k := 0
	for n > 1 {
		n >>= 1
		k++
	}
	return k
}

// scalar encodings come from the real Encoder (its correctness is C01/C10's business)
func EncScalar(f Fmt, v interface{}) []byte {
	var out []byte
	h := Handle(f, Opts{WriteExt: true})
	if err := codec.NewEncoderBytes(&out, h).Encode(v); err != nil {
		panic(err)
	}
	return out
}

type Node struct {
	K     int
	U     uint64
	S     []byte
	Kids  []*Node
	Tag   uint64
	W     int  // width of the head's length field (0 shortest)
	Indef bool // cbor: indefinite-length form (arrays, maps, strings in one chunk)
}

// Head is a length-bearing head inside an emitted document.
type Head struct {
	Off, Len int // position and size of the head bytes
	Kind     int
	N        uint64 // the honest length
	Tag      uint64
	Depth    int
}

type Doc struct {
	F     Fmt
	B     []byte
	Heads []Head
}

func Emit(f Fmt, n *Node) *Doc {
	d := &Doc{F: f}
	d.emit(n, 0, false)
	return d
}

func (d *Doc) head(kind int, n uint64, w int, tag uint64, depth int) {
	hb := HeadBytes(d.F, kind, n, w, tag)
	d.Heads = append(d.Heads, Head{len(d.B), len(hb), kind, n, tag, depth})
	d.B = append(d.B, hb...)
}

func jsonQuote(s []byte) []byte {
	var sb []byte
	sb = append(sb, '"')
	for _, c := range s {
		switch {
		case c == '"' || c == '\\':
			sb = append(sb, '\\', c)
		case c < 0x20:
			sb = append(sb, []byte(fmt.Sprintf("\\u%04x", c))...)
		default:
			sb = append(sb, c) // bytes >= 0x80 go out raw (possibly invalid UTF-8: hostile on purpose)
		}
	}
	return append(sb, '"')
}

func (d *Doc) emit(n *Node, depth int, key bool) {
	f := d.F
	if f == Json {
		d.emitJSON(n, depth, key)
		return
	}
	switch n.K {
	case NNil:
		d.B = append(d.B, EncScalar(f, nil)...)
	case NBool:
		d.B = append(d.B, EncScalar(f, n.U != 0)...)
	case NUint:
		d.B = append(d.B, EncScalar(f, n.U)...)
	case NNeg:
		d.B = append(d.B, EncScalar(f, -1-int64(n.U&math.MaxInt64))...)
	case NF64:
		d.B = append(d.B, EncScalar(f, math.Float64frombits(n.U))...)
	case NLit:
		d.B = append(d.B, n.S...)
	case NStr, NBin:
		if f == Cbor && n.Indef {
			d.B = append(d.B, byte(0x5f+0x20*b2i(n.K == NStr)))
			d.head(n.K, uint64(len(n.S)), n.W, 0, depth)
			d.B = append(d.B, n.S...)
			d.B = append(d.B, 0xff)
			return
		}
		d.head(n.K, uint64(len(n.S)), n.W, 0, depth)
		d.B = append(d.B, n.S...)
	case NExt:
		d.head(NExt, uint64(len(n.S)), n.W, n.Tag, depth)
		d.B = append(d.B, n.S...)
	case NTag:
		if f == Cbor {
			d.B = append(d.B, HeadBytes(f, NTag, n.Tag, n.W, 0)...)
		}
		d.emit(n.Kids[0], depth+1, false)
	case NArr, NMap:
		cnt := uint64(len(n.Kids))
		if n.K == NMap {
			cnt /= 2
		}
		if f == Cbor && n.Indef {
			d.B = append(d.B, byte(0x9f+0x20*b2i(n.K == NMap)))
		} else {
			d.head(n.K, cnt, n.W, 0, depth)
		}
		for i, k := range n.Kids {
			d.emit(k, depth+1, n.K == NMap && i%2 == 0)
		}
		if f == Cbor && n.Indef {
			d.B = append(d.B, 0xff)
		}
	}
}

func b2i(b bool) int {
	if b {
		return 1
	}
	return 0
}

func (d *Doc) emitJSON(n *Node, depth int, key bool) {
	mark := func(kind int, cnt uint64, s string) {
		d.Heads = append(d.Heads, Head{len(d.B), len(s), kind, cnt, 0, depth})
		d.B = append(d.B, s...)
	}
	scalar := func(s string) {
		if key {
			d.B = append(d.B, '"')
			d.B = append(d.B, s...)
			d.B = append(d.B, '"')
		} else {
			d.B = append(d.B, s...)
		}
	}
	switch n.K {
	case NNil:
		scalar("null")
	case NBool:
		scalar(strconv.FormatBool(n.U != 0))
	case NUint:
		scalar(strconv.FormatUint(n.U, 10))
	case NNeg:
		scalar(strconv.FormatInt(-1-int64(n.U&math.MaxInt64), 10))
	case NF64:
		v := math.Float64frombits(n.U)
		if math.IsNaN(v) || math.IsInf(v, 0) {
			v = 1.5
		}
		scalar(strconv.FormatFloat(v, 'g', -1, 64))
	case NLit:
		d.B = append(d.B, n.S...)
	case NStr:
		mark(NStr, uint64(len(n.S)), "")
		d.B = append(d.B, jsonQuote(n.S)...)
	case NBin, NExt:
		mark(NBin, uint64(len(n.S)), "")
		d.B = append(d.B, '"')
		d.B = append(d.B, base64.StdEncoding.EncodeToString(n.S)...)
		d.B = append(d.B, '"')
	case NTag:
		d.emitJSON(n.Kids[0], depth, key)
	case NArr:
		if key {
			scalar("k")
			return
		}
		mark(NArr, uint64(len(n.Kids)), "[")
		for i, k := range n.Kids {
			if i > 0 {
				d.B = append(d.B, ',')
			}
			d.emitJSON(k, depth+1, false)
		}
		d.B = append(d.B, ']')
	case NMap:
		if key {
			scalar("m")
			return
		}
		mark(NMap, uint64(len(n.Kids)/2), "{")
		for i := 0; i+1 < len(n.Kids); i += 2 {
			if i > 0 {
				d.B = append(d.B, ',')
			}
			d.emitJSON(n.Kids[i], depth+1, true)
			d.B = append(d.B, ':')
			d.emitJSON(n.Kids[i+1], depth+1, false)
		}
		d.B = append(d.B, '}')
	}
}

// WithHead returns the document with head i replaced by hb.
func (d *Doc) WithHead(i int, hb []byte) []byte {
	h := d.Heads[i]
	out := make([]byte, 0, len(d.B)+len(hb))
	out = append(out, d.B[:h.Off]...)
	out = append(out, hb...)
	return append(out, d.B[h.Off+h.Len:]...)
}

// convenience constructors
func U(v uint64) *Node            { return &Node{K: NUint, U: v} }
func S(s string) *Node            { return &Node{K: NStr, S: []byte(s)} }
func Arr(k ...*Node) *Node        { return &Node{K: NArr, Kids: k} }
func Map(kv ...*Node) *Node       { return &Node{K: NMap, Kids: kv} }
func Lit(b []byte) *Node          { return &Node{K: NLit, S: b} }
func Nil() *Node                  { return &Node{K: NNil} }
func Tag(t uint64, v *Node) *Node { return &Node{K: NTag, Tag: t, Kids: []*Node{v}} }

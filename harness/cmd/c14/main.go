// Command c14 — C14 "nesting depth, not input size, bounds the decoder's stack", API level.
//
// Streams (all five formats; MaxDepth 1, 2, 16 and the default 1024):
//
//	around  inputs nested so that the number of levels the decoder must account for lies
//	        around MaxDepth (-2 .. +2), one nesting unit repeated (arrays and maps of every head
//	        width, maps nested through the key or the value, indefinite forms, cbor tags), on
//	        every path: interface{}, codec.Raw, unknown struct field (skip), Raw / interface{} struct
//	        field, the recursive type T{A []T; M map[string]T; P *T}, [][]...[]int, map[string]interface{},
//	        []interface{}, a recursive type whose hand-written Selfer re-enters the Decoder (d.MustDecode /
//	        d.Decode of its children), extension values (cbor tag bound to an InterfaceExt, SelfExt payloads)
//	mix     the same with random mixtures of units
//	deep    the same far beyond MaxDepth (10^5 .. 3*10^6 levels) in subprocesses whose stack is
//	        capped at 64 MB (debug.SetMaxStack) under a watchdog; runs of 6*10^6 units that do not nest (skipped
//	        cbor tags); container heads claiming 0xFFFFFFFF80000000 elements (= containerLenNil once truncated);
//	        long inputs WITHOUT nesting (3*10^6 element arrays, strings, json escapes, cbor chunks) decoded, skipped, captured
//
//	ill     (illStream) ill-formed nestings: heads that are NOT legitimate nesting units repeated n times (cbor: an
//	        indefinite-length string / array / map head, a tag, a container head in the CHUNK position of an
//	        indefinite-length string, bytes and text; a break byte where a map value or a tag's content belongs), alone and
//	        in fixed mixtures, n around MaxDepth, 3*MaxDepth+5 and 5000, on every path that takes an arbitrary value plus
//	        []byte and string destinations, bytes and io.Reader, fixed option vectors; in the deep stream 10^6 of each
//	        under a 16 MB stack cap. Oracle: n >= MaxDepth => an error (any class), or -- for the units the unchanged
//	        skip walker passes in a loop -- whatever the wire model says; never a stack that grows with n.
//
// Oracle: levels >= MaxDepth => an error (no success, no crash; the implementation refuses
// exactly at depth == MaxDepth, see the note in checks/C14.py); levels < MaxDepth => no depth
// error, and no error at all for well-formed inputs whose keys are hashable.
// The interface{} / Raw / unknown-field cases of cbor, msgpack, simple and binc are also
// written as Coq cases: the wire models must give the same verdict.
package main

import (
	"bytes"
	"encoding/json"
	"flag"
	"fmt"
	"os"
	"os/exec"
	"runtime/debug"
	"strings"
	"sync"
	"time"

	"verifharness/cmd/c14/hx"
	"verifharness/vh"
)

const coqHeader = `From Coq Require Import List NArith ZArith Bool.
From Verif Require Import C14.Corr.
Import ListNotations.
Open Scope N_scope.
`

type ctx struct {
	r   *vh.Rng
	sum *vh.Summary
	cv  *vh.Cases
	id  int
}

var maxDepths = []int{1, 2, 16, 0}

func effClass(eff, md int) string {
	switch {
	case eff < md-1:
		return "below"
	case eff == md-1:
		return "md-1"
	case eff == md:
		return "md"
	case eff == md+1:
		return "md+1"
	}
	return "beyond"
}

func patName(p []hx.Unit) string {
	var s []string
	for _, u := range p {
		s = append(s, u.Name)
	}
	return strings.Join(s, "+")
}

func caseJSON(f hx.Fmt, o hx.Opts, p hx.Path, pat []hx.Unit, count, eff int, in []byte) map[string]interface{} {
	cj := map[string]interface{}{"format": f.String(), "opts": o.String(), "path": p.Name, "pattern": patName(pat), "count": count,
		"levels": eff, "maxdepth": o.EffMaxDepth()}
	if len(in) <= 96 {
		cj["input"] = vh.Hex(in)
	} else {
		cj["input_head"] = vh.Hex(in[:48])
		cj["input_len"] = len(in)
	}
	return cj
}

// keyTrouble: a container in map-key position cannot be an interface{} map key (unhashable): decoding fails
// with another error once two such levels are nested on a path that materialises the map.
func keyTrouble(p hx.Path, pat []hx.Unit, count int) bool {
	if p.Walker {
		return false
	}
	for i := 0; i < count; i++ {
		u := pat[i%len(pat)]
		if u.KeyPos && i < count-1 {
			return true
		}
	}
	return false
}

// jsonWalker: json's nextValueBytes is an iterative scanner; it neither recurses nor counts depth.
func jsonWalker(f hx.Fmt, p hx.Path) bool { return f == hx.Json && p.Walker }

// hostile: one of the nesting levels has a head no input can honour
func hostile(p hx.Path, pat []hx.Unit, count int) bool {
	for i := 0; i < count; i++ {
		u := pat[i%len(pat)]
		if u.Hostile || (u.LeafOnly && !p.Walker && i < count-1) {
			return true
		}
	}
	return false
}

func (c *ctx) judge(stream string, f hx.Fmt, o hx.Opts, p hx.Path, pat []hx.Unit, count, eff int, in []byte, cls int, escaped bool) {
	md := o.EffMaxDepth()
	cid := fmt.Sprintf("%s:%s:%s", f, p.Name, patName(pat))
	cj := func() map[string]interface{} { return caseJSON(f, o, p, pat, count, eff, in) }
	ill, lenient := hx.IsIll(pat, count)
	switch {
	case escaped:
		c.sum.FailC(stream, "panic-escaped:"+cid, "a panic escaped Decode", cj())
	case ill:
		// not a legitimate way of nesting: any error is fine at any count; accepted at MaxDepth or beyond means the
		// heads nested without the depth counter seeing them -- unless the path gets past them in a loop (Lenient
		// units under the skip walker: the wire model decides those, the deep stream watches the stack)
		if eff >= md && cls == 0 && !(lenient && p.Walker) {
			c.sum.FailC(stream, "illformed-nesting-accepted:"+cid, "heads that are not a legitimate nesting unit (an indefinite-length or non-string head in the chunk position of an indefinite-length string; a break byte where a value belongs) nested MaxDepth times or more were decoded without error", cj())
		}
	case hostile(p, pat, count):
		if cls == 0 {
			c.sum.FailC(stream, "hostile-nesting-accepted:"+cid, "a nesting that can only be an error (a container head claiming 0xFFFFFFFF80000000 elements; a tag 4/5 item where an integer exponent / mantissa belongs) was accepted", cj())
		}
	case eff >= md && cls == 0:
		if jsonWalker(f, p) {
			break // no recursion on this path (checked by the deep stream: no stack growth); depth is not enforced
		}
		c.sum.FailC(stream, "no-error-beyond-maxdepth:"+cid, "input nested to MaxDepth or beyond decoded without error", cj())
	case eff >= md && cls != 4 && !jsonWalker(f, p):
		c.sum.FailC(stream, "other-error-beyond-maxdepth:"+cid, "input nested to MaxDepth or beyond failed with an error other than the depth error", cj())
	case eff < md && cls == 4:
		c.sum.FailC(stream, "depth-error-below-maxdepth:"+cid, "input nested less than MaxDepth levels was refused with the depth error", cj())
	case eff < md && cls != 0 && !keyTrouble(p, pat, count):
		c.sum.FailC(stream, "error-on-wellformed:"+cid, "well-formed input nested less than MaxDepth levels failed to decode", cj())
	}
	c.sum.Count(stream+"."+f.String()+"."+p.Name, fmt.Sprintf("%s/%s/md%d/%s/%s/c%d/%v", stream, cid, md, effClass(eff, md), o.String(), cls, o.IO))
}

// modelKind: which wire-model entry point covers the path (0 none)
func modelKind(f hx.Fmt, p hx.Path, o hx.Opts) int {
	if f == hx.Json || o.IO || o.Ext != 0 || o.SliceType != 0 || o.MapType != 0 || o.ValidateUnicode {
		return 0
	}
	switch p.Name {
	case "iface":
		return 1
	case "raw":
		return 2
	case "field":
		return 3
	}
	return 0
}

func coqOpts(o hx.Opts) string {
	return fmt.Sprintf("(mkopts %s %s %s %s %s)", vh.CoqZ(int64(o.MaxDepth)), vh.CoqBool(o.Signed), vh.CoqBool(o.RawToString), vh.CoqBool(o.SkipTags), vh.CoqBool(o.WriteExt))
}

// emit the input as run-length segments
func coqSegs(pat []hx.Unit, count int, pre, core, suf []byte) string {
	var segs []string
	seg := func(b []byte, n int) {
		if len(b) > 0 && n > 0 {
			segs = append(segs, fmt.Sprintf("(%s, %s)", vh.CoqBytes(b), vh.CoqN(uint64(n))))
		}
	}
	seg(pre, 1)
	if len(pat) == 1 {
		seg(pat[0].Pre, count)
	} else {
		for i := 0; i < count; i++ {
			seg(pat[i%len(pat)].Pre, 1)
		}
	}
	seg(core, 1)
	if len(pat) == 1 {
		seg(pat[0].Suf, count)
	} else {
		for i := count - 1; i >= 0; i-- {
			seg(pat[i%len(pat)].Suf, 1)
		}
	}
	seg(suf, 1)
	return "[" + strings.Join(segs, "; ") + "]"
}

func (c *ctx) modelCase(f hx.Fmt, o hx.Opts, p hx.Path, pat []hx.Unit, count int, cls, nread int) {
	k := modelKind(f, p, o)
	if k == 0 {
		return
	}
	// the field path: the wrapper {"x": v} is decoded by the typed layer; the model walks v at depth 1
	if nread < 0 || cls != 0 {
		nread = 0 // NumBytesRead is compared for successful calls only
	}
	c.id++
	term := fmt.Sprintf("mkcase %d %d %d %s %s %d %d", c.id, int(f), k, coqOpts(o), coqSegs(pat, count, nil, hx.One(f), nil), cls, nread)
	c.cv.Add(term)
	c.sum.ModelCases++
}

func (c *ctx) one(stream string, f hx.Fmt, o hx.Opts, p hx.Path, pat []hx.Unit, count int, model bool) {
	in, eff := p.Build(f, o, pat, count)
	cls, nread, esc := hx.Run(f, o, p, in)
	c.judge(stream, f, o, p, pat, count, eff, in, cls, esc)
	if model && !esc {
		wrap := 0
		if p.Name == "field" {
			wrap = len(hx.MapStr(f, "x"))
		}
		c.modelCase(f, o, p, pat, count, cls, nread-wrap)
	}
	if c.id%97 == 0 {
		c.sum.Sample(caseJSON(f, o, p, pat, count, eff, in))
	}
}

func optVariants(r *vh.Rng, f hx.Fmt, md int, p hx.Path) []hx.Opts {
	base := hx.Opts{MaxDepth: md, WriteExt: true}
	if p.Name == "ext-iface" || p.Name == "ext-self" {
		base.Ext = 1
		return []hx.Opts{base}
	}
	out := []hx.Opts{base}
	if p.Name == "float64" || p.Name == "floats" {
		// with SkipUnexpectedTags the typed float path skips tags 4 / 5 as well and then meets the array: an error
		// for every such item, nested or not; only the plain option vector tells the two apart
		o := base
		o.IO, o.RBS = true, r.PickInt(0, 64)
		return append(out, o)
	}
	if f == hx.Cbor {
		o := base
		o.SkipTags = true
		out = append(out, o)
	}
	o := base
	switch r.Intn(4) {
	case 0:
		o.IO, o.RBS, o.Chunk = true, 0, 1+r.Intn(7)
	case 1:
		o.IO, o.RBS = true, r.PickInt(16, 64, 4096)
	case 2:
		o.ZeroCopy, o.Signed = true, true
	case 3:
		o.RawToString, o.MaxInitLen = true, r.PickInt(1, 16, 4096)
	}
	return append(out, o)
}

func countsAround(p hx.Path, f hx.Fmt, o hx.Opts, pat []hx.Unit, md int) []int {
	// find counts whose level number lies in [md-2, md+2]
	seen := map[int]bool{}
	var out []int
	lv := 0
	for _, u := range pat {
		if p.Walker {
			lv += u.LvSkip
		} else {
			lv += u.LvDec
		}
	}
	if lv == 0 { // units that do not nest (skipped tags): any count is below MaxDepth
		for _, n := range []int{md - 1, md, md + 1, 3 * md} {
			if n >= 0 && !seen[n] {
				seen[n] = true
				out = append(out, n)
			}
		}
		return out
	}
	lo := (md - 3) * len(pat) / lv
	if lo < 0 {
		lo = 0
	}
	for n := lo; n <= lo+8*len(pat)+4; n++ {
		_, e := effOnly(p, pat, n)
		if e >= md-2 && e <= md+2 && !seen[n] {
			seen[n] = true
			out = append(out, n)
		}
	}
	return out
}

// effOnly computes the level count without building the input
func effOnly(p hx.Path, pat []hx.Unit, count int) (int, int) {
	e := p.Base
	if p.Name == "ext-self" {
		return 0, 2*count + 1
	}
	for i := 0; i < count; i++ {
		u := pat[i%len(pat)]
		if p.Walker {
			e += u.LvSkip
		} else {
			e += u.LvDec
		}
	}
	return 0, e
}

func aroundStream(c *ctx, scale int) {
	for _, f := range hx.All {
		for _, md0 := range maxDepths {
			for _, p := range hx.Paths {
				if !p.Applies(f) {
					continue
				}
				for _, o := range optVariants(c.r, f, md0, p) {
					md := o.EffMaxDepth()
					us := p.UnitsFor(f, o)
					for ui, u := range us {
						if md == 1024 && scale < 2 && ui%2 == int(c.r.U64()%2) && len(us) > 4 {
							continue // quick tier: half of the units at the default MaxDepth
						}
						if md == 1024 && p.Name == "ext-self" && scale < 2 {
							continue
						}
						pat := []hx.Unit{u}
						for _, n := range countsAround(p, f, o, pat, md) {
							c.one("around", f, o, p, pat, n, md <= 16 || n%2 == 0)
						}
					}
				}
			}
		}
	}
}

func mixStream(c *ctx, n int) {
	for i := 0; i < n; i++ {
		f := hx.All[c.r.Intn(len(hx.All))]
		var p hx.Path
		for {
			p = hx.Paths[c.r.Intn(len(hx.Paths))]
			if p.Applies(f) && p.Name != "ext-self" && p.Name != "ext-iface" {
				break
			}
		}
		md0 := c.r.PickInt(2, 16, 16, 0)
		o := optVariants(c.r, f, md0, p)
		oo := o[c.r.Intn(len(o))]
		us := p.UnitsFor(f, oo)
		k := 2 + c.r.Intn(4)
		pat := make([]hx.Unit, k)
		for j := range pat {
			pat[j] = us[c.r.Intn(len(us))]
		}
		cs := countsAround(p, f, oo, pat, oo.EffMaxDepth())
		if len(cs) == 0 {
			continue
		}
		c.one("mix", f, oo, p, pat, cs[c.r.Intn(len(cs))], oo.EffMaxDepth() <= 16)
	}
}

// ---- ill-formed nestings (deterministic: no random choice) ----

func illOpts(f hx.Fmt, md int) []hx.Opts {
	base := hx.Opts{MaxDepth: md, WriteExt: true}
	var out []hx.Opts
	add := func(m func(o *hx.Opts)) {
		o := base
		m(&o)
		out = append(out, o)
	}
	add(func(o *hx.Opts) {})
	add(func(o *hx.Opts) { o.SkipTags = true })
	add(func(o *hx.Opts) { o.ZeroCopy, o.Signed = true, true })
	add(func(o *hx.Opts) { o.RawToString, o.MaxInitLen = true, 16 })
	add(func(o *hx.Opts) { o.ValidateUnicode = true })
	add(func(o *hx.Opts) { o.IO, o.RBS, o.Chunk = true, 0, 1 })
	add(func(o *hx.Opts) { o.IO, o.RBS, o.Chunk = true, 0, 7 })
	add(func(o *hx.Opts) { o.IO, o.RBS = true, 16 })
	add(func(o *hx.Opts) { o.IO, o.RBS = true, 4096 })
	return out
}

func illStream(c *ctx) {
	for _, f := range hx.All {
		var pats [][]hx.Unit
		for _, u := range hx.IllUnits(f) {
			pats = append(pats, []hx.Unit{u})
		}
		pats = append(pats, hx.IllMixtures(f)...)
		if len(pats) == 0 {
			continue
		}
		for _, md0 := range maxDepths {
			for _, pn := range hx.IllPathNames {
				p := hx.PathByName(pn)
				for _, o := range illOpts(f, md0) {
					md := o.EffMaxDepth()
					for _, pat := range pats {
						ns := countsAround(p, f, o, pat, md)
						ns = append(ns, 3*md+5)
						if md == 1024 {
							ns = append(ns, 5000)
						}
						for _, n := range ns {
							if n < 1 {
								continue // no unit at all: not ill-formed
							}
							// model cases (plain and SkipUnexpectedTags option vectors): every one at the small MaxDepths; at the
							// default only run-length compact ones
							model := !o.ZeroCopy && !o.RawToString && (md <= 16 || (len(pat) == 1 && n%2 == 0 && n <= md+2))
							c.one("ill", f, o, p, pat, n, model)
						}
					}
				}
			}
		}
	}
}

// ---- far beyond MaxDepth, in subprocesses ----

type deepJob struct {
	Stack int      `json:"stack,omitempty"` // stack cap in MB (default 64)
	Flat  string   `json:"flat,omitempty"`  // a long input without nesting (hx.FlatInput) instead of a nested one
	F     int      `json:"f"`
	O     hx.Opts  `json:"o"`
	Path  string   `json:"p"`
	Units []string `json:"u"`
	Count int      `json:"n"`
}

func childMain(spec string) {
	var j deepJob
	if err := json.Unmarshal([]byte(spec), &j); err != nil {
		os.Exit(3)
	}
	debug.SetMaxStack(64 << 20)
	if j.Stack > 0 {
		debug.SetMaxStack(j.Stack << 20)
	}
	f := hx.Fmt(j.F)
	p := hx.PathByName(j.Path)
	if j.Flat != "" {
		in := p.WrapFor(f, hx.FlatInput(f, j.Flat, j.Count))
		cls, nread, esc := hx.Run(f, j.O, p, in)
		fmt.Printf("CHILD cls=%d nread=%d esc=%v eff=%d len=%d\n", cls, nread, esc, 1, len(in))
		os.Exit(0)
	}
	us := p.UnitsFor(f, j.O)
	var pat []hx.Unit
	for _, n := range j.Units {
		u, ok := hx.UnitByName(us, n)
		if !ok {
			u, ok = hx.IllUnitByName(f, n)
		}
		if !ok {
			os.Exit(3)
		}
		pat = append(pat, u)
	}
	in, eff := p.Build(f, j.O, pat, j.Count)
	cls, nread, esc := hx.Run(f, j.O, p, in)
	fmt.Printf("CHILD cls=%d nread=%d esc=%v eff=%d len=%d\n", cls, nread, esc, eff, len(in))
	os.Exit(0)
}

func deepStream(c *ctx, count int, all bool) {
	type job struct {
		j   deepJob
		pat []hx.Unit
		p   hx.Path
	}
	var jobs []job
	for _, f := range hx.All {
		for _, p := range hx.Paths {
			if !p.Applies(f) {
				continue
			}
			base := hx.Opts{WriteExt: true}
			if p.Name == "ext-iface" || p.Name == "ext-self" {
				base.Ext = 1
			}
			us := p.UnitsFor(f, base)
			pick := map[string]bool{"arr/w0": true, "map-val": true, "map-key": true, "arr-indef": true, "map-indef": true, "tag": true,
				"tag-selfdescribe": true, "node-map": true, "tag4-mantissa": true, "tag5-mantissa": true, "tag4-exponent": true, "tag5-exponent": true, "arr-len-minint32": true, "map-len-minint32": true, "T.P-len-minint32": true, "T.P": true, "T.A": true, "T.M": true, "tag-iext": true, "selfext": true, "arr": true}
			for _, u := range us {
				if !all && !pick[u.Name] {
					continue
				}
				n := count
				if p.Name == "ext-self" && n > 200000 {
					n = 200000
				}
				if !p.Walker && u.LvDec == 0 && n < 6000000 {
					n = 6000000 // units that do not nest (skipped tags) are not stopped by MaxDepth: only their number could grow the stack
				}
				jobs = append(jobs, job{deepJob{F: int(f), O: base, Path: p.Name, Units: []string{u.Name}, Count: n}, []hx.Unit{u}, p})
				if f == hx.Cbor && strings.HasPrefix(u.Name, "tag") && (p.Name == "iface" || p.Name == "slicei") {
					o2 := base
					o2.SkipTags = true
					n2 := n
					if n2 < 6000000 {
						n2 = 6000000
					}
					u2, _ := hx.UnitByName(p.UnitsFor(f, o2), u.Name)
					jobs = append(jobs, job{deepJob{F: int(f), O: o2, Path: p.Name, Units: []string{u.Name}, Count: n2}, []hx.Unit{u2}, p})
				}
			}
			if len(us) >= 3 && p.Name != "ext-self" {
				// one mixture per (format, path)
				pat := []hx.Unit{us[c.r.Intn(len(us))], us[c.r.Intn(len(us))], us[c.r.Intn(len(us))]}
				jobs = append(jobs, job{deepJob{F: int(f), O: base, Path: p.Name, Units: []string{pat[0].Name, pat[1].Name, pat[2].Name}, Count: count / 3}, pat, p})
			}
			// MaxDepth = math.MaxInt16: the depth counter (int16) must not wrap; 32767 legitimate levels need a larger stack cap
			if len(us) > 0 && (p.Name == "iface" || p.Name == "raw" || p.Name == "field" || p.Name == "T" || p.Name == "mapsi") {
				o4 := base
				o4.MaxDepth = 32767
				jobs = append(jobs, job{deepJob{Stack: 400, F: int(f), O: o4, Path: p.Name, Units: []string{us[0].Name}, Count: count}, []hx.Unit{us[0]}, p})
			}
			// an io.Reader transport, unbuffered, for the first unit
			if len(us) > 0 && p.Name != "ext-self" {
				o3 := base
				o3.IO, o3.RBS = true, 4096
				jobs = append(jobs, job{deepJob{F: int(f), O: o3, Path: p.Name, Units: []string{us[0].Name}, Count: count}, []hx.Unit{us[0]}, p})
			}
		}
	}
	// ill-formed nestings: 16 MB of stack is far more than MaxDepth legitimate levels need on any path
	for _, f := range hx.All {
		var pats [][]hx.Unit
		for _, u := range hx.IllUnits(f) {
			pats = append(pats, []hx.Unit{u})
		}
		if mx := hx.IllMixtures(f); len(mx) > 3 {
			pats = append(pats, mx[0], mx[3])
		}
		for _, pat := range pats {
			var names []string
			for _, u := range pat {
				names = append(names, u.Name)
			}
			for _, pn := range hx.IllPathNames {
				p := hx.PathByName(pn)
				o := hx.Opts{WriteExt: true}
				jobs = append(jobs, job{deepJob{Stack: 16, F: int(f), O: o, Path: pn, Units: names, Count: count}, pat, p})
				if p.Walker || pn == "iface" {
					o.IO, o.RBS = true, 4096
					if pn == "rawfield" {
						o.RBS = 0
					}
					jobs = append(jobs, job{deepJob{Stack: 16, F: int(f), O: o, Path: pn, Units: names, Count: count}, pat, p})
				}
			}
		}
	}
	// long inputs without nesting: the stack must not grow with the input length either
	for _, f := range hx.All {
		for _, pn := range []string{"iface", "raw", "field", "rawfield", "ifacefield"} {
			p := hx.PathByName(pn)
			for _, k := range hx.FlatKinds(f) {
				n := 3 * count
				o := hx.Opts{WriteExt: true}
				if c.r.Chance(1, 3) {
					o.IO, o.RBS = true, c.r.PickInt(0, 4096)
				}
				jobs = append(jobs, job{deepJob{Flat: k, F: int(f), O: o, Path: pn, Count: n}, nil, p})
			}
		}
	}
	type res struct {
		out      string
		err      error
		timedOut bool
	}
	results := make([]res, len(jobs))
	var wg sync.WaitGroup
	sem := make(chan struct{}, 8)
	for i := range jobs {
		wg.Add(1)
		sem <- struct{}{}
		go func(i int) {
			defer wg.Done()
			defer func() { <-sem }()
			spec, _ := json.Marshal(jobs[i].j)
			cmd := exec.Command(os.Args[0], "-child", string(spec))
			var out bytes.Buffer
			cmd.Stdout, cmd.Stderr = &out, &out
			if err := cmd.Start(); err != nil {
				results[i] = res{err: err}
				return
			}
			done := make(chan error, 1)
			go func() { done <- cmd.Wait() }()
			select {
			case err := <-done:
				results[i] = res{out: out.String(), err: err}
			case <-time.After(90 * time.Second):
				cmd.Process.Kill()
				results[i] = res{out: out.String(), timedOut: true}
			}
		}(i)
	}
	wg.Wait()
	for i, jb := range jobs {
		f := hx.Fmt(jb.j.F)
		o := jb.j.O
		r := results[i]
		eff, cid := 1, fmt.Sprintf("%s:%s:flat:%s", f, jb.p.Name, jb.j.Flat)
		if jb.j.Flat == "" {
			_, eff = effOnly(jb.p, jb.pat, jb.j.Count)
			cid = fmt.Sprintf("%s:%s:%s", f, jb.p.Name, patName(jb.pat))
		}
		cj := map[string]interface{}{"format": f.String(), "opts": o.String(), "path": jb.p.Name, "pattern": patName(jb.pat), "count": jb.j.Count,
			"levels": eff, "maxdepth": o.EffMaxDepth(), "replay": fmt.Sprintf("%s -child '%s'", os.Args[0], mustJSON(jb.j))}
		tail := r.out
		if len(tail) > 300 {
			tail = tail[:300]
		}
		switch {
		case r.timedOut:
			c.sum.FailC("deep", "hang:"+cid, "decoding deeply nested input did not finish within 90 s", cj)
		case r.err != nil && (strings.Contains(r.out, "stack exceeds") || strings.Contains(r.out, "stack overflow")):
			what := "nesting controlled by the input exhausted the goroutine stack (fatal, unrecoverable): recursion is not bounded by MaxDepth"
			if jb.j.Flat != "" {
				what = "an input without nesting exhausted the goroutine stack (fatal, unrecoverable): stack use grows with the input length"
			}
			c.sum.FailC("deep", "stack:"+cid, what, cj)
		case r.err != nil:
			cj["output"] = tail
			c.sum.FailC("deep", "fatal:"+cid, "the decoding subprocess died", cj)
		default:
			var cls, nread, e2, ln int
			var esc bool
			k := strings.Index(r.out, "CHILD ")
			if k < 0 {
				cj["output"] = tail
				c.sum.FailC("deep", "harness:"+cid, "no result line from the subprocess", cj)
				break
			}
			fmt.Sscanf(r.out[k:], "CHILD cls=%d nread=%d esc=%t eff=%d len=%d", &cls, &nread, &esc, &e2, &ln)
			if jb.j.Flat != "" {
				if esc || cls != 0 {
					cj["class"] = cls
					c.sum.FailC("deep", "error-on-wellformed:"+cid, "a long well-formed input without nesting failed to decode", cj)
				}
				break
			}
			c.judge("deep", f, o, jb.p, jb.pat, jb.j.Count, e2, nil, cls, esc)
			continue
		}
		c.sum.Count("deep."+f.String()+"."+jb.p.Name, "deep/"+cid+"/"+o.String())
	}
}

func mustJSON(v interface{}) string {
	b, _ := json.Marshal(v)
	return string(b)
}

func main() {
	scale := flag.Int("scale", 1, "1 quick, 2 thorough (all units at the default MaxDepth)")
	nMix := flag.Int("mix", 300, "random mixtures")
	deep := flag.Int("deep", 1000000, "nesting levels of the far-beyond cases (0: skip)")
	deepAll := flag.Bool("deepall", false, "every unit in the deep stream")
	ill := flag.Bool("ill", true, "the ill-formed nesting stream")
	child := flag.String("child", "", "(internal) run one deep case")
	cases := flag.String("cases", "cases_c14", "directory for the model case files")
	flag.Parse()
	if *child != "" {
		childMain(*child)
		return
	}
	r := vh.NewRng(vh.SeedFromEnv())
	sum := vh.NewSummary("around/mix: (format, path, nesting unit or mixture, MaxDepth, levels relative to MaxDepth in {below, md-1, md, md+1, beyond}, options incl. transport, outcome class); " +
		"deep: (format, path, unit/mixture, options) with 10^5..3*10^6 levels in a 64 MB-stack subprocess; " +
		"ill: the same tuple for ill-formed nesting units (heads that are not legitimate nesting units, cbor) and their fixed mixtures, counts around MaxDepth, 3*MaxDepth+5, 5000 " +
		"(deep: 10^6 under a 16 MB stack cap). Every case is non-trivial (it nests at least MaxDepth-2 levels)")
	c := &ctx{r: r, sum: sum}
	c.cv = vh.NewCases(*cases, coqHeader, "case", "mismatches", 40)
	aroundStream(c, *scale)
	mixStream(c, *nMix)
	if *ill {
		illStream(c)
	}
	c.cv.Close()
	if *deep > 0 {
		deepStream(c, *deep, *deepAll)
	}
	sum.Print()
}

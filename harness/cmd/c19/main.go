// c19: correspondence and property oracle for C19 (nil in the stream means zero; absent means
// untouched; decoding is idempotent).
//
// Pre-populated destinations (nil, shorter, longer, allocated pointers, interfaces holding
// another type, maps with extra entries) x streams (full values, partial maps, nil at every
// position) x {MapValueReset, SliceElementReset, InterfaceReset, DeleteOnNilMapValue} x five
// formats x {fast-path types, builtin scalars, everything else through reflection}.
// Direct oracles on the implementation: destination after Decode == merge (the documented
// rules, applied in Go over reflect) and Decode twice == Decode once. The same observations
// are written as Coq terms for the model (dec_impl) to re-run.
// Build also with -tags verif,codec.notfastpath: every type then goes through reflection.
package main

import (
	"bytes"
	"flag"
	"fmt"
	"io"
	"reflect"
	"sort"
	"strings"

	"verifharness/vh"

	"github.com/ugorji/go/codec"
)

const casesHeader = "From Coq Require Import List NArith ZArith.\nFrom Verif Require Import Base.Outcome Wire.Item C19.Spec C19.Model C19.Corr.\nImport ListNotations."

// plainReader hides every method of the wrapped reader but Read
type plainReader struct{ r io.Reader }

func (p plainReader) Read(b []byte) (int, error) { return p.r.Read(b) }

// ---- items ----

type item struct {
	kind string // nil int str arr map
	z    int64
	s    string
	arr  []*item
	keys []string
	vals []*item
}

type mbs []interface{}

func (mbs) MapBySlice() {}

func (it *item) generic() interface{} {
	switch it.kind {
	case "nil":
		return nil
	case "int":
		return it.z
	case "str":
		return it.s
	case "arr":
		out := make([]interface{}, 0, len(it.arr))
		for _, x := range it.arr {
			out = append(out, x.generic())
		}
		return out
	default:
		out := mbs{}
		for i := range it.keys {
			out = append(out, it.keys[i], it.vals[i].generic())
		}
		return out
	}
}

func coqStr(s string) string {
	if s == "" {
		return "[]"
	}
	var p []string
	for i := 0; i < len(s); i++ {
		p = append(p, fmt.Sprint(s[i]))
	}
	return "[" + strings.Join(p, ";") + "]%N"
}

func (it *item) coq() string {
	switch it.kind {
	case "nil":
		return "INil"
	case "int":
		return "(IInt " + vh.CoqZ(it.z) + ")"
	case "str":
		return "(IStr " + coqStr(it.s) + ")"
	case "arr":
		var p []string
		for _, x := range it.arr {
			p = append(p, x.coq())
		}
		return "(IArr [" + strings.Join(p, "; ") + "])"
	default:
		var p []string
		for i := range it.keys {
			p = append(p, "(IStr "+coqStr(it.keys[i])+", "+it.vals[i].coq()+")")
		}
		return "(IMap [" + strings.Join(p, "; ") + "])"
	}
}

func (it *item) hasNil() bool {
	if it.kind == "nil" {
		return true
	}
	for _, x := range it.arr {
		if x.hasNil() {
			return true
		}
	}
	for _, x := range it.vals {
		if x.hasNil() {
			return true
		}
	}
	return false
}

func (it *item) countNil() int {
	n := 0
	if it.kind == "nil" {
		n++
	}
	for _, x := range it.arr {
		n += x.countNil()
	}
	for _, x := range it.vals {
		n += x.countNil()
	}
	return n
}

// nilSpelling: one alternate way a format has of writing "nil" on the wire. The library's own
// encoders write only the primary spelling, so round trips never meet the others.
//
//	cbor: null 0xf6 (primary), undefined 0xf7 (advanceNil / TryNil / ContainerType / DecodeNaked
//	      all take it for nil);
//	json: null, with insignificant whitespace around the literal;
//	msgpack 0xc0, binc 0x00-special-nil, simple 0x01: a single spelling each.
type nilSpelling struct {
	name     string
	old, new []byte
}

var nilSpellings = map[string][]nilSpelling{
	"cbor": {{"cbor:undefined(0xf7)", []byte{0xf6}, []byte{0xf7}}},
	"json": {{"json:null-with-whitespace", []byte("null"), []byte(" null\n")}},
}

// altNilStreams rewrites the encoder's output with every (which = 0), every other (1: the 1st,
// 3rd, ...; 2: the 2nd, 4th, ...) nil written in the alternate spelling. The primary spelling must
// occur in the bytes exactly once per nil item of the tree (then every occurrence IS a nil
// position: no int, length or string byte can be mistaken for one); otherwise no variant is made.
func altNilStreams(format string, bs []byte, nNil int) (out [][]byte, names []string) {
	if nNil == 0 {
		return
	}
	for _, sp := range nilSpellings[format] {
		if bytes.Count(bs, sp.old) != nNil {
			continue
		}
		for which := 0; which < 3; which++ {
			if which > 0 && nNil < 2 {
				break
			}
			var b []byte
			rest, k := bs, 0
			for {
				i := bytes.Index(rest, sp.old)
				if i < 0 {
					break
				}
				b = append(b, rest[:i]...)
				if which == 0 || (k%2 == 0) == (which == 1) {
					b = append(b, sp.new...)
				} else {
					b = append(b, sp.old...)
				}
				rest = rest[i+len(sp.old):]
				k++
			}
			b = append(b, rest...)
			out = append(out, b)
			names = append(names, sp.name+[]string{"/all", "/odd", "/even"}[which])
		}
	}
	return
}

// ---- types ----

var (
	tInt   = reflect.TypeOf(int(0))
	tStr   = reflect.TypeOf("")
	tIface = reflect.TypeOf((*interface{})(nil)).Elem()
)

func randType(r *vh.Rng, depth int) reflect.Type {
	if depth <= 0 {
		switch r.Intn(3) {
		case 0:
			return tInt
		case 1:
			return tStr
		}
		return tIface
	}
	switch r.Intn(9) {
	case 0:
		return tInt
	case 1:
		return tStr
	case 2:
		return tIface
	case 3:
		e := randType(r, depth-1)
		if e.Kind() == reflect.Interface {
			return tInt
		}
		return reflect.PointerTo(e)
	case 4, 5:
		if r.Chance(1, 4) {
			// Go arrays (oracle only, outside the Coq universe): pointer-to-scalar, scalar and struct elements
			var e reflect.Type
			switch r.Intn(5) {
			case 0:
				e = reflect.PointerTo(tInt)
			case 1:
				e = reflect.PointerTo(tStr)
			case 2:
				e = tInt
			default:
				e = randType(r, depth-1)
			}
			return reflect.ArrayOf(1+r.Intn(3), e)
		}
		return reflect.SliceOf(randType(r, depth-1))
	case 6:
		if depth >= 2 && r.Chance(1, 2) {
			// maps of structs / pointers to structs: where MapValueReset and the in-place update differ
			n := 2 + r.Intn(2)
			var fs []reflect.StructField
			// half of them small and pointer-free (ints only): such map values are decoded into the
			// decoder's per-type scratch space when the key is new
			allInt := r.Bool()
			for i := 0; i < n; i++ {
				ft := randType(r, 0)
				if allInt {
					ft = tInt
				}
				fs = append(fs, reflect.StructField{Name: string(rune('A' + i)), Type: ft})
			}
			st := reflect.StructOf(fs)
			if allInt && r.Chance(2, 3) {
				return reflect.MapOf(tStr, st)
			}
			if r.Bool() {
				return reflect.MapOf(tStr, reflect.PointerTo(st))
			}
			return reflect.MapOf(tStr, st)
		}
		if r.Chance(1, 4) {
			// array-valued maps: an existing entry is fetched and updated in place (a shorter stream
			// array / a partial struct element leaves the rest of the entry as it was)
			e := tInt
			if r.Bool() {
				e = reflect.StructOf([]reflect.StructField{{Name: "A", Type: tInt}, {Name: "B", Type: tInt}})
			}
			return reflect.MapOf(tStr, reflect.ArrayOf(2+r.Intn(2), e))
		}
		return reflect.MapOf(tStr, randType(r, depth-1))
	default:
		n := 1 + r.Intn(4)
		var fs []reflect.StructField
		for i := 0; i < n; i++ {
			fs = append(fs, reflect.StructField{Name: string(rune('A' + i)), Type: randType(r, depth-1)})
		}
		return reflect.StructOf(fs)
	}
}

func coqType(t reflect.Type) string {
	switch t.Kind() {
	case reflect.Int:
		return "TInt"
	case reflect.String:
		return "TStr"
	case reflect.Interface:
		return "TIface"
	case reflect.Ptr:
		return "(TPtr " + coqType(t.Elem()) + ")"
	case reflect.Slice:
		return "(TSlice " + coqType(t.Elem()) + ")"
	case reflect.Array: // not in the Coq universe: messages only
		return fmt.Sprintf("(TArr %d %s)", t.Len(), coqType(t.Elem()))
	case reflect.Map:
		return "(TMap " + coqType(t.Elem()) + ")"
	case reflect.Struct:
		var p []string
		for i := 0; i < t.NumField(); i++ {
			p = append(p, "("+coqStr(t.Field(i).Name)+", "+coqType(t.Field(i).Type)+")")
		}
		return "(TStruct [" + strings.Join(p, "; ") + "])"
	}
	panic("coqType " + t.String())
}

func coqVal(v reflect.Value) string {
	switch v.Kind() {
	case reflect.Int, reflect.Int64:
		return "(VInt " + vh.CoqZ(v.Int()) + ")"
	case reflect.Uint64:
		return "(VInt " + vh.CoqZ(int64(v.Uint())) + ")"
	case reflect.String:
		return "(VStr " + coqStr(v.String()) + ")"
	case reflect.Ptr:
		if v.IsNil() {
			return "(VPtr None)"
		}
		return "(VPtr (Some " + coqVal(v.Elem()) + "))"
	case reflect.Interface:
		if v.IsNil() {
			return "(VIface None)"
		}
		if v.Elem().Kind() == reflect.Struct {
			return "(VIface (Some (VDyn " + coqType(v.Elem().Type()) + " " + coqVal(v.Elem()) + ")))"
		}
		return "(VIface (Some " + coqVal(v.Elem()) + "))"
	case reflect.Array:
		var p []string
		for i := 0; i < v.Len(); i++ {
			p = append(p, coqVal(v.Index(i)))
		}
		return "(VArr [" + strings.Join(p, "; ") + "])"
	case reflect.Slice:
		if v.IsNil() {
			return "(VSlice None)"
		}
		var p []string
		for i := 0; i < v.Len(); i++ {
			p = append(p, coqVal(v.Index(i)))
		}
		return "(VSlice (Some [" + strings.Join(p, "; ") + "]))"
	case reflect.Map:
		if v.IsNil() {
			return "(VMap None)"
		}
		ks := v.MapKeys()
		sort.Slice(ks, func(i, j int) bool { return ks[i].String() < ks[j].String() })
		var p []string
		for _, k := range ks {
			p = append(p, "("+coqStr(k.String())+", "+coqVal(v.MapIndex(k))+")")
		}
		return "(VMap (Some [" + strings.Join(p, "; ") + "]))"
	case reflect.Struct:
		var p []string
		for i := 0; i < v.NumField(); i++ {
			p = append(p, coqVal(v.Field(i)))
		}
		return "(VStruct [" + strings.Join(p, "; ") + "])"
	}
	return "(VStr " + coqStr("?"+v.Kind().String()) + ")"
}

var keyPool = []string{"a", "b", "c"}

// struct types an interface{} destination may hold BY VALUE (kInterface copies the held value
// into an addressable temporary and decodes into it)
var heldTypes = []reflect.Type{
	reflect.TypeOf(struct {
		X, Y int
		Name string
	}{}),
	reflect.TypeOf(struct {
		A int
		P *int
		L []int
	}{}),
}

func fill(r *vh.Rng, v reflect.Value, depth int) {
	t := v.Type()
	switch t.Kind() {
	case reflect.Int:
		if r.Chance(2, 3) {
			v.SetInt(int64(r.Intn(100) - 50))
		}
	case reflect.String:
		if r.Chance(2, 3) {
			v.SetString(string(rune('p' + r.Intn(5))))
		}
	case reflect.Interface:
		switch r.Intn(4) {
		case 0:
			v.Set(reflect.ValueOf(int64(-1 - r.Intn(50))))
		case 1:
			v.Set(reflect.ValueOf("i" + string(rune('a'+r.Intn(3)))))
		case 2:
			h := reflect.New(heldTypes[r.Intn(len(heldTypes))]).Elem()
			fill(r, h, depth+1)
			v.Set(h)
		}
	case reflect.Ptr:
		if r.Chance(2, 3) {
			p := reflect.New(t.Elem())
			fill(r, p.Elem(), depth+1)
			v.Set(p)
		}
	case reflect.Array:
		for i := 0; i < t.Len(); i++ {
			fill(r, v.Index(i), depth+1)
		}
	case reflect.Slice:
		if r.Chance(1, 4) {
			return
		}
		// len <= cap, and the spare capacity is POPULATED (a reused buffer cut back to [:n]):
		// elements at index >= len hold no prior value, whatever sits in the backing array
		n := r.Intn(4)
		spare := r.Intn(3)
		s := reflect.MakeSlice(t, n+spare, n+spare)
		for i := 0; i < n+spare; i++ {
			fill(r, s.Index(i), depth+1)
			if i >= n {
				fillNonZero(r, s.Index(i))
			}
		}
		v.Set(s.Slice(0, n))
	case reflect.Map:
		if r.Chance(1, 4) {
			return
		}
		m := reflect.MakeMap(t)
		for _, k := range keyPool {
			if r.Chance(1, 2) {
				e := reflect.New(t.Elem()).Elem()
				fill(r, e, depth+1)
				m.SetMapIndex(reflect.ValueOf(k), e)
			}
		}
		v.Set(m)
	case reflect.Struct:
		for i := 0; i < t.NumField(); i++ {
			fill(r, v.Field(i), depth+1)
		}
	}
}

// fillNonZero makes sure a spare-capacity element is visibly not the zero value
func fillNonZero(r *vh.Rng, v reflect.Value) {
	switch v.Kind() {
	case reflect.Int:
		if v.Int() == 0 {
			v.SetInt(int64(60 + r.Intn(30)))
		}
	case reflect.String:
		if v.String() == "" {
			v.SetString("stale")
		}
	case reflect.Ptr:
		if v.IsNil() {
			p := reflect.New(v.Type().Elem())
			fillNonZero(r, p.Elem())
			v.Set(p)
		} else {
			fillNonZero(r, v.Elem())
		}
	case reflect.Struct:
		for i := 0; i < v.NumField(); i++ {
			fillNonZero(r, v.Field(i))
		}
	case reflect.Map:
		if v.Len() == 0 {
			m := reflect.MakeMap(v.Type())
			e := reflect.New(v.Type().Elem()).Elem()
			fillNonZero(r, e)
			m.SetMapIndex(reflect.ValueOf("b"), e)
			v.Set(m)
		}
	case reflect.Interface:
		if v.IsNil() && v.Type().NumMethod() == 0 {
			v.Set(reflect.ValueOf(int64(-77)))
		}
	}
}

// randItem draws a stream for a destination of type t; nil can appear at every position.
func randItem(r *vh.Rng, t reflect.Type, cur reflect.Value, nilProb int) *item {
	sub := func(k func() reflect.Value) (out reflect.Value) {
		defer func() { recover() }()
		if cur.IsValid() {
			out = k()
		}
		return
	}
	_ = sub
	if r.Chance(1, nilProb) {
		return &item{kind: "nil"}
	}
	if r.Chance(1, 40) { // ill-typed
		return &item{kind: "str", s: "bad"}
	}
	switch t.Kind() {
	case reflect.Int:
		return &item{kind: "int", z: int64(r.Intn(200) - 100)}
	case reflect.String:
		return &item{kind: "str", s: string(rune('u' + r.Intn(5)))}
	case reflect.Interface:
		if cur.IsValid() && !cur.IsNil() && cur.Elem().Kind() == reflect.Struct && r.Chance(3, 4) {
			// the interface holds a struct by value: a (partial) stream for that struct
			return randItem(r, cur.Elem().Type(), cur.Elem(), nilProb)
		}
		if r.Bool() {
			return &item{kind: "int", z: int64(-1 - r.Intn(90))}
		}
		return &item{kind: "str", s: "n" + string(rune('a'+r.Intn(3)))}
	case reflect.Ptr:
		return randItem(r, t.Elem(), sub(func() reflect.Value { return cur.Elem() }), nilProb)
	case reflect.Array:
		n := r.Intn(t.Len() + 2)
		it := &item{kind: "arr", arr: []*item{}}
		for i := 0; i < n; i++ {
			ii := i
			it.arr = append(it.arr, randItem(r, t.Elem(), sub(func() reflect.Value { return cur.Index(ii) }), 3))
		}
		return it
	case reflect.Slice:
		n := r.Intn(4)
		it := &item{kind: "arr", arr: []*item{}}
		if cur.IsValid() && r.Chance(1, 2) {
			n = cur.Len() + r.Intn(3) // reach the element at index len (and beyond)
		}
		for i := 0; i < n; i++ {
			ii := i
			it.arr = append(it.arr, randItem(r, t.Elem(), sub(func() reflect.Value { return cur.Index(ii) }), nilProb))
		}
		return it
	case reflect.Map:
		it := &item{kind: "map"}
		num, den := 2, 5
		if t.Elem().Kind() == reflect.Struct {
			num, den = 4, 5 // several entries, full ones followed by partial ones, known and new keys
		}
		for _, k := range []string{"a", "b", "c", "d", "e"} {
			if r.Chance(num, den) {
				it.keys = append(it.keys, k)
				kk := k
				it.vals = append(it.vals, randItem(r, t.Elem(), sub(func() reflect.Value { return cur.MapIndex(reflect.ValueOf(kk)) }), nilProb))
			}
		}
		return it
	case reflect.Struct:
		if r.Chance(1, 4) {
			n := r.Intn(t.NumField() + 2)
			it := &item{kind: "arr", arr: []*item{}}
			for i := 0; i < n; i++ {
				if i < t.NumField() {
					ii := i
					it.arr = append(it.arr, randItem(r, t.Field(i).Type, sub(func() reflect.Value { return cur.Field(ii) }), nilProb))
				} else {
					it.arr = append(it.arr, &item{kind: "int", z: 1})
				}
			}
			return it
		}
		it := &item{kind: "map"}
		perm := r.Intn(2) == 0
		for i := 0; i < t.NumField(); i++ {
			j := i
			if perm {
				j = t.NumField() - 1 - i
			}
			if r.Chance(1, 2) {
				it.keys = append(it.keys, t.Field(j).Name)
				jj := j
				it.vals = append(it.vals, randItem(r, t.Field(j).Type, sub(func() reflect.Value { return cur.Field(jj) }), nilProb))
			}
		}
		if r.Chance(1, 5) {
			it.keys = append(it.keys, "zz")
			it.vals = append(it.vals, &item{kind: "int", z: 3})
		}
		return it
	}
	return &item{kind: "nil"}
}

// ---- the documented rules, in Go ----

type mergeCtx struct {
	mapReset, sliceReset, ifaceReset bool
	nilIntoNonNilPtrField            bool // a stream nil met a struct field holding a non-nil pointer
	ifaceElemKept                    bool // a []interface{} element holding a value was decoded into under SliceElementReset
	err                              bool
}

func scalarInto(c *mergeCtx, d reflect.Value, it *item) {
	switch d.Kind() {
	case reflect.Int, reflect.Int64:
		if it.kind != "int" {
			c.err = true
			return
		}
		d.SetInt(it.z)
	case reflect.String:
		if it.kind != "str" {
			c.err = true
			return
		}
		d.SetString(it.s)
	}
}

func merge(c *mergeCtx, d reflect.Value, it *item) {
	if c.err {
		return
	}
	t := d.Type()
	if it.kind == "nil" {
		d.Set(reflect.Zero(t)) // nil means zero, any kind
		return
	}
	switch t.Kind() {
	case reflect.Int, reflect.String:
		scalarInto(c, d, it)
	case reflect.Ptr:
		if d.IsNil() {
			d.Set(reflect.New(t.Elem()))
		}
		merge(c, d.Elem(), it)
	case reflect.Interface:
		if !d.IsNil() && !c.ifaceReset && d.Elem().Kind() == reflect.Struct {
			// the held value is the destination: what the stream does not mention stays
			nv := reflect.New(d.Elem().Type()).Elem()
			nv.Set(deepCopy(d.Elem()))
			merge(c, nv, it)
			if !c.err {
				d.Set(nv)
			}
			return
		}
		if !d.IsNil() && !c.ifaceReset {
			nv := reflect.New(d.Elem().Type()).Elem()
			scalarInto(c, nv, it)
			if !c.err {
				d.Set(nv)
			}
			return
		}
		switch it.kind {
		case "int":
			d.Set(reflect.ValueOf(it.z))
		case "str":
			d.Set(reflect.ValueOf(it.s))
		default:
			c.err = true
		}
	case reflect.Array:
		// the first n elements are updated (nil: that ELEMENT becomes zero), the others stay;
		// stream elements beyond the array are skipped (ErrorIfNoArrayExpand is off)
		if it.kind != "arr" {
			c.err = true
			return
		}
		for i := 0; i < len(it.arr) && i < d.Len(); i++ {
			cur := reflect.New(t.Elem()).Elem()
			if !c.sliceReset {
				cur.Set(deepCopy(d.Index(i)))
			} else if t.Elem().Kind() == reflect.Interface && !d.Index(i).IsNil() && it.arr[i].kind != "nil" {
				c.ifaceElemKept = true // [N]interface{} goes through the same generated fast path (F19-2)
			}
			merge(c, cur, it.arr[i])
			if c.err {
				return
			}
			d.Index(i).Set(cur)
		}
	case reflect.Slice:
		if it.kind != "arr" {
			c.err = true
			return
		}
		n := len(it.arr)
		out := reflect.MakeSlice(t, n, n)
		for i := 0; i < n && i < d.Len(); i++ {
			if !c.sliceReset {
				out.Index(i).Set(d.Index(i))
			} else if t.Elem().Kind() == reflect.Interface && !d.Index(i).IsNil() && it.arr[i].kind != "nil" {
				c.ifaceElemKept = true
			}
		}
		for i := 0; i < n; i++ {
			merge(c, out.Index(i), it.arr[i])
		}
		d.Set(out)
	case reflect.Map:
		if it.kind != "map" {
			c.err = true
			return
		}
		if d.IsNil() {
			d.Set(reflect.MakeMap(t))
		}
		for i, k := range it.keys {
			kv := reflect.ValueOf(k)
			cur := reflect.New(t.Elem()).Elem()
			if old := d.MapIndex(kv); old.IsValid() && !c.mapReset {
				cur.Set(deepCopy(old))
			}
			merge(c, cur, it.vals[i])
			if c.err {
				return
			}
			d.SetMapIndex(kv, cur)
		}
	case reflect.Struct:
		switch it.kind {
		case "map":
			for i, k := range it.keys {
				f, ok := t.FieldByName(k)
				if !ok {
					continue
				}
				fv := d.FieldByIndex(f.Index)
				if it.vals[i].kind == "nil" && fv.Kind() == reflect.Ptr && !fv.IsNil() {
					c.nilIntoNonNilPtrField = true
				}
				merge(c, fv, it.vals[i])
			}
		case "arr":
			for i, x := range it.arr {
				if i < t.NumField() {
					if x.kind == "nil" && d.Field(i).Kind() == reflect.Ptr && !d.Field(i).IsNil() {
						c.nilIntoNonNilPtrField = true
					}
					merge(c, d.Field(i), x)
				}
			}
		default:
			c.err = true
		}
	}
}

func deepCopy(v reflect.Value) reflect.Value {
	out := reflect.New(v.Type()).Elem()
	switch v.Kind() {
	case reflect.Ptr:
		if !v.IsNil() {
			p := reflect.New(v.Type().Elem())
			p.Elem().Set(deepCopy(v.Elem()))
			out.Set(p)
		}
	case reflect.Interface:
		if !v.IsNil() {
			out.Set(deepCopy(v.Elem()))
		}
	case reflect.Slice:
		if !v.IsNil() {
			s := reflect.MakeSlice(v.Type(), v.Len(), v.Len())
			for i := 0; i < v.Len(); i++ {
				s.Index(i).Set(deepCopy(v.Index(i)))
			}
			out.Set(s)
		}
	case reflect.Map:
		if !v.IsNil() {
			m := reflect.MakeMap(v.Type())
			it := v.MapRange()
			for it.Next() {
				m.SetMapIndex(it.Key(), deepCopy(it.Value()))
			}
			out.Set(m)
		}
	case reflect.Struct:
		for i := 0; i < v.NumField(); i++ {
			out.Field(i).Set(deepCopy(v.Field(i)))
		}
	case reflect.Array:
		for i := 0; i < v.Len(); i++ {
			out.Index(i).Set(deepCopy(v.Index(i)))
		}
	default:
		out.Set(v)
	}
	return out
}

func hasArray(t reflect.Type) bool {
	switch t.Kind() {
	case reflect.Array:
		return true
	case reflect.Slice, reflect.Ptr, reflect.Map:
		return hasArray(t.Elem())
	case reflect.Struct:
		for i := 0; i < t.NumField(); i++ {
			if hasArray(t.Field(i).Type) {
				return true
			}
		}
	}
	return false
}

func hasIfaceSlice(t reflect.Type) bool {
	switch t.Kind() {
	case reflect.Slice:
		return t.Elem().Kind() == reflect.Interface || hasIfaceSlice(t.Elem())
	case reflect.Ptr, reflect.Map, reflect.Array:
		return hasIfaceSlice(t.Elem())
	case reflect.Struct:
		for i := 0; i < t.NumField(); i++ {
			if hasIfaceSlice(t.Field(i).Type) {
				return true
			}
		}
	}
	return false
}

func pathClass(t reflect.Type, fast bool) string {
	switch t.Kind() {
	case reflect.Int, reflect.String:
		return "builtin"
	case reflect.Slice, reflect.Map:
		k := t.Elem().Kind()
		if fast && (k == reflect.Int || k == reflect.String || k == reflect.Interface) {
			return "fastpath"
		}
	}
	return "reflection"
}

// bytesStream: the encoder's nil / zero-length distinction for []byte (struct field, map value,
// slice element) must survive decoding, from a []byte and through an io.Reader alike.
type bytesBox struct {
	B []byte
	M map[string][]byte
	L [][]byte
}

func bytesStream(r *vh.Rng, n int, sum *vh.Summary) {
	pick := func() []byte {
		switch r.Intn(3) {
		case 0:
			return nil
		case 1:
			return []byte{}
		}
		return r.Bytes(1 + r.Intn(3))
	}
	for i := 0; i < n; i++ {
		format := vh.Formats[r.Intn(len(vh.Formats))]
		src := bytesBox{B: pick(), M: map[string][]byte{"a": pick(), "b": pick()}, L: [][]byte{pick(), pick(), pick()}}
		mk := func() *bytesBox {
			if r.Bool() {
				return &bytesBox{}
			}
			return &bytesBox{B: []byte{9, 9}, M: map[string][]byte{"a": {8}, "c": {7}}, L: [][]byte{{6}, nil}}
		}
		st := *r
		d0 := mk()
		*r = st
		d1 := mk()
		*r = st
		d2 := mk()
		rbs := r.PickInt(0, 0, 8, 64)
		h := vh.NewHandle(format, vh.Opts{"ReaderBufferSize": rbs, "Canonical": true})
		var bs []byte
		if err := codec.NewEncoderBytes(&bs, h).Encode(&src); err != nil {
			continue
		}
		e0 := codec.NewDecoderBytes(bs, h).Decode(d0)
		e1 := codec.NewDecoder(plainReader{bytes.NewReader(bs)}, h).Decode(d1)
		e2 := codec.NewDecoder(bytes.NewReader(bs), h).Decode(d2)
		cj := map[string]interface{}{"format": format, "stream": vh.Hex(bs), "ReaderBufferSize": rbs, "value": fmt.Sprintf("%#v", src), "seed_index": i}
		// what the documented rules give: nil resets to nil, a zero-length value stays non-nil, "c" stays
		want := &bytesBox{B: src.B, M: map[string][]byte{"a": src.M["a"], "b": src.M["b"]}, L: src.L}
		if c, ok := d0.M["c"]; ok && e0 == nil {
			want.M["c"] = c
		}
		shape := func(b []byte) string {
			switch {
			case b == nil:
				return "nil"
			case len(b) == 0:
				return "empty"
			}
			return "data"
		}
		cls := fmt.Sprintf("bytes:%s/%s/%s", shape(src.B), shape(src.M["a"]), shape(src.L[0]))
		if e0 != nil || e1 != nil || e2 != nil {
			sum.FailC("bytes", "bytes:error", "decoding a struct of byte strings failed", cj)
		} else {
			wv := reflect.ValueOf(want).Elem()
			if !vh.DeepEq(reflect.ValueOf(d0).Elem(), wv, vh.EqOpts{}) {
				cj["got"] = fmt.Sprintf("%#v", *d0)
				sum.FailC("bytes", "bytes:nil-vs-empty:from-bytes", "nil / zero-length []byte distinction not preserved decoding from []byte", cj)
			}
			if !vh.DeepEq(reflect.ValueOf(d1).Elem(), wv, vh.EqOpts{}) || !vh.DeepEq(reflect.ValueOf(d2).Elem(), wv, vh.EqOpts{}) {
				cj["got"] = fmt.Sprintf("%#v / %#v", *d1, *d2)
				sum.FailC("bytes", "bytes:nil-vs-empty:from-io.Reader", "nil / zero-length []byte distinction not preserved decoding through an io.Reader", cj)
			}
		}
		sum.Count("bytes."+format, cls+"/"+format+fmt.Sprint(rbs))
	}
}

// namedBytesStream: named byte-slice types (type nb []byte) as top-level destination, struct field
// and map value, pre-populated with MORE, equal and fewer bytes than the stream carries: the
// destination ends up holding exactly the stream's bytes (deterministic sweep).
type nb []byte
type nbBox struct {
	N nb
	P []byte
	M map[string]nb
}

func namedBytesStream(sum *vh.Summary) {
	dsts := [][]byte{[]byte("abcdef"), []byte("ab"), []byte("a"), {}, nil}
	srcs := [][]byte{[]byte("xy"), []byte("wxyz123"), {}, nil}
	cp := func(b []byte) []byte {
		if b == nil {
			return nil
		}
		return append(make([]byte, 0, len(b)+2), b...)
	}
	for _, format := range vh.Formats {
		for _, rbs := range []int{-1, 0, 16} { // -1: from []byte
			o := vh.Opts{}
			if rbs > 0 {
				o["ReaderBufferSize"] = rbs
			}
			h := vh.NewHandle(format, o)
			dec := func(bs []byte, v interface{}) error {
				if rbs < 0 {
					return codec.NewDecoderBytes(bs, h).Decode(v)
				}
				return codec.NewDecoder(plainReader{bytes.NewReader(bs)}, h).Decode(v)
			}
			for _, d := range dsts {
				for _, sv := range srcs {
					cj := map[string]interface{}{"format": format, "ReaderBufferSize": rbs, "dst": fmt.Sprintf("%q", d), "src": fmt.Sprintf("%q", sv), "src_nil": sv == nil}
					// top level
					var bs []byte
					codec.NewEncoderBytes(&bs, h).Encode(nb(sv))
					top := nb(cp(d))
					err := dec(bs, &top)
					if err != nil || !vh.DeepEq(reflect.ValueOf([]byte(top)), reflect.ValueOf(sv), vh.EqOpts{}) {
						cj["got"] = fmt.Sprintf("%q", []byte(top))
						sum.FailC("bytes", "bytes:named-type:top-level", "a named byte-slice destination does not end up holding exactly the stream's bytes", cj)
					}
					// struct field and map value
					src := nbBox{N: nb(sv), P: sv, M: map[string]nb{"k": nb(sv)}}
					bs = nil
					codec.NewEncoderBytes(&bs, h).Encode(&src)
					box := nbBox{N: nb(cp(d)), P: cp(d), M: map[string]nb{"k": nb(cp(d)), "z": nb("keep")}}
					err = dec(bs, &box)
					want := nbBox{N: nb(sv), P: sv, M: map[string]nb{"k": nb(sv), "z": nb("keep")}}
					if err != nil || !vh.DeepEq(reflect.ValueOf(box), reflect.ValueOf(want), vh.EqOpts{}) {
						cj["got"] = fmt.Sprintf("%q %q %q", []byte(box.N), box.P, box.M)
						sum.FailC("bytes", "bytes:named-type:field-or-map-value", "a named byte-slice field / map value does not end up holding exactly the stream's bytes", cj)
					}
					sum.Count("bytes.named."+format, fmt.Sprintf("named/%s/%d/%d/%d", format, rbs, len(d), len(sv)))
				}
			}
		}
	}
}

// arrayMapSweep: array-valued map entries are updated in place (deterministic shapes)
func arrayMapSweep(sum *vh.Summary) {
	type pt struct{ X, Y int }
	for _, format := range vh.Formats {
		for _, mvr := range []bool{false, true} {
			h := vh.NewHandle(format, vh.Opts{"MapValueReset": mvr})
			cj := map[string]interface{}{"format": format, "MapValueReset": mvr}
			var bs []byte
			codec.NewEncoderBytes(&bs, h).Encode(map[string]interface{}{"a": []int{9}, "n": []int{7}})
			m := map[string][3]int{"a": {1, 2, 3}, "z": {4, 5, 6}}
			want := map[string][3]int{"a": {9, 2, 3}, "z": {4, 5, 6}, "n": {7, 0, 0}}
			if mvr {
				want["a"] = [3]int{9, 0, 0}
			}
			for pass := 0; pass < 2; pass++ { // decode twice
				if err := codec.NewDecoderBytes(bs, h).Decode(&m); err != nil || !reflect.DeepEqual(m, want) {
					cj["got"], cj["pass"] = fmt.Sprint(m), pass
					sum.FailC("merge", "keep:array-valued-map-entry", "a shorter stream array into an array-valued map entry does not leave the rest of the entry untouched", cj)
				}
			}
			bs = nil
			codec.NewEncoderBytes(&bs, h).Encode(map[string]interface{}{"a": []interface{}{map[string]int{"Y": 8}}})
			m2 := map[string][2]pt{"a": {{1, 2}, {3, 4}}}
			want2 := map[string][2]pt{"a": {{1, 8}, {3, 4}}}
			if mvr {
				want2["a"] = [2]pt{{0, 8}, {}}
			}
			for pass := 0; pass < 2; pass++ {
				if err := codec.NewDecoderBytes(bs, h).Decode(&m2); err != nil || !reflect.DeepEqual(m2, want2) {
					cj["got"], cj["pass"] = fmt.Sprint(m2), pass
					sum.FailC("merge", "keep:array-of-structs-map-entry", "a partial element of an array-valued map entry does not leave the rest untouched", cj)
				}
			}
			// a pre-populated slice that has to GROW (stream longer than its capacity): the existing
			// elements are carried over and merged into
			if !mvr {
				bs = nil
				codec.NewEncoderBytes(&bs, h).Encode([]interface{}{map[string]int{"X": 9}, map[string]int{"Y": 8}, map[string]int{"X": 7}})
				s1 := make([]pt, 2, 2)
				s1[0], s1[1] = pt{1, 2}, pt{3, 4}
				p0, p1 := &pt{1, 2}, &pt{3, 4}
				s2 := make([]*pt, 2, 2)
				s2[0], s2[1] = p0, p1
				s3 := make([]map[string]int, 2, 2)
				s3[0], s3[1] = map[string]int{"X": 1, "k": 5}, map[string]int{"Y": 2}
				e1 := codec.NewDecoderBytes(bs, h).Decode(&s1)
				e2 := codec.NewDecoderBytes(bs, h).Decode(&s2)
				e3 := codec.NewDecoderBytes(bs, h).Decode(&s3)
				ok := e1 == nil && e2 == nil && e3 == nil &&
					reflect.DeepEqual(s1, []pt{{9, 2}, {3, 8}, {7, 0}}) &&
					len(s2) == 3 && *s2[0] == (pt{9, 2}) && *s2[1] == (pt{3, 8}) && *s2[2] == (pt{7, 0}) &&
					reflect.DeepEqual(s3, []map[string]int{{"X": 9, "k": 5}, {"Y": 8}, {"X": 7}})
				if !ok {
					cj["got"] = fmt.Sprint(s1, s3)
					sum.FailC("merge", "keep:growing-slice-elements", "growing a pre-populated slice on decode does not carry the existing elements over", cj)
				}
			}
			sum.Count("merge.arraymap."+format, fmt.Sprintf("arraymap/%s/%v", format, mvr))
		}
	}
}

// decodeTwice decodes into d, and (when that worked) the same bytes once more into the result.
// after = the destination after the FIRST decode.
type outcome struct {
	err        error
	after      reflect.Value
	obs, twice string
	idemOK     bool
}

func decodeTwice(newDec func() *codec.Decoder, d reflect.Value) (o outcome) {
	o.obs, o.twice, o.idemOK = "None", "None", true
	o.err = newDec().Decode(d.Addr().Interface())
	o.after = d
	if o.err == nil {
		o.obs = "(Some " + coqVal(d) + ")"
		snap := deepCopy(d)
		if err2 := newDec().Decode(d.Addr().Interface()); err2 == nil {
			o.twice = "(Some " + coqVal(d) + ")"
			o.idemOK = vh.DeepEq(snap, d, vh.EqOpts{})
		} else {
			o.idemOK = false
		}
		o.after = snap
	}
	return
}

// judgeAlt: the same stream with nils written in an alternate spelling (ra) against the primary
// spelling (r1): same error status, same destination, same behaviour on the second decode.
func judgeAlt(sum *vh.Summary, cj0 map[string]interface{}, name string, ab []byte, r1, ra outcome) {
	bad := ""
	switch {
	case (r1.err != nil) != (ra.err != nil):
		bad = "fails where the primary spelling succeeds (or the reverse)"
	case r1.err == nil && !vh.DeepEq(r1.after, ra.after, vh.EqOpts{}):
		bad = "leaves another destination than the primary spelling"
	case r1.err == nil && (r1.twice != ra.twice || r1.idemOK != ra.idemOK):
		bad = "behaves differently from the primary spelling on the second decode"
	}
	if bad == "" {
		return
	}
	cj := map[string]interface{}{}
	for k, v := range cj0 {
		cj[k] = v
	}
	cj["spelling"], cj["alt_stream"] = name, vh.Hex(ab)
	cj["primary_err"], cj["alt_err"] = r1.err != nil, ra.err != nil
	if r1.err == nil && ra.err == nil {
		cj["primary_after"], cj["alt_after"] = coqVal(r1.after), coqVal(ra.after)
	}
	sp := name
	if i := strings.Index(sp, "/"); i >= 0 {
		sp = sp[:i]
	}
	sum.FailC("nilspelling", "nil-spelling:"+sp, "a stream nil in the alternate wire spelling "+bad, cj)
}

// ---- deterministic sweep: nil at every single position, every spelling ----

type pt19 struct {
	A int
	B string
}

type big19 struct {
	A int
	B string
	P *int
	L []int
	R []pt19
	M map[string]int
	S pt19
	I interface{}
	Q *pt19
	X []*int
}

var nilSweepTypes = []reflect.Type{
	tInt, tStr, reflect.TypeOf((*int)(nil)), reflect.TypeOf((**int)(nil)), reflect.TypeOf((*string)(nil)), tIface,
	reflect.TypeOf([]int(nil)), reflect.TypeOf([]string(nil)), reflect.TypeOf([]interface{}(nil)), // fast path
	reflect.TypeOf([]*int(nil)), reflect.TypeOf([]pt19(nil)), reflect.TypeOf([]*pt19(nil)), reflect.TypeOf([][]int(nil)), reflect.TypeOf([]map[string]int(nil)),
	reflect.TypeOf(map[string]int(nil)), reflect.TypeOf(map[string]string(nil)), reflect.TypeOf(map[string]interface{}(nil)), // fast path
	reflect.TypeOf(map[string]*int(nil)), reflect.TypeOf(map[string]pt19(nil)), reflect.TypeOf(map[string]*pt19(nil)), reflect.TypeOf(map[string][]int(nil)),
	reflect.TypeOf(pt19{}), reflect.TypeOf((*pt19)(nil)), reflect.TypeOf(big19{}), reflect.TypeOf((*big19)(nil)),
	reflect.TypeOf([2]*int{}), reflect.TypeOf([2]pt19{}), reflect.TypeOf(struct{ K [2]*pt19 }{}), // arrays: oracle only
}

// fillFull populates every position with a non-zero value: pointers allocated, slices of 2 elements
// with one populated spare element, maps with the keys a and b, interfaces holding an int64.
func fillFull(v reflect.Value, salt *int) {
	*salt++
	switch v.Kind() {
	case reflect.Int:
		v.SetInt(int64(10 + *salt))
	case reflect.String:
		v.SetString("p" + string(rune('a'+*salt%26)))
	case reflect.Interface:
		v.Set(reflect.ValueOf(int64(-5 - *salt)))
	case reflect.Ptr:
		p := reflect.New(v.Type().Elem())
		fillFull(p.Elem(), salt)
		v.Set(p)
	case reflect.Array:
		for i := 0; i < v.Len(); i++ {
			fillFull(v.Index(i), salt)
		}
	case reflect.Slice:
		s := reflect.MakeSlice(v.Type(), 3, 3)
		for i := 0; i < 3; i++ {
			fillFull(s.Index(i), salt)
		}
		v.Set(s.Slice(0, 2))
	case reflect.Map:
		m := reflect.MakeMap(v.Type())
		for _, k := range []string{"a", "b"} {
			e := reflect.New(v.Type().Elem()).Elem()
			fillFull(e, salt)
			m.SetMapIndex(reflect.ValueOf(k), e)
		}
		v.Set(m)
	case reflect.Struct:
		for i := 0; i < v.NumField(); i++ {
			fillFull(v.Field(i), salt)
		}
	}
}

// fullItem: a stream that mentions every position of t (slices: 3 elements, one more than
// fillFull's length; maps: the known key a and the new key c); structs as maps or as arrays.
func fullItem(t reflect.Type, structAsArr bool, salt *int) *item {
	*salt++
	switch t.Kind() {
	case reflect.Int:
		return &item{kind: "int", z: int64(40 + *salt)}
	case reflect.String:
		return &item{kind: "str", s: "v" + string(rune('a'+*salt%26))}
	case reflect.Interface:
		return &item{kind: "int", z: int64(-40 - *salt)}
	case reflect.Ptr:
		return fullItem(t.Elem(), structAsArr, salt)
	case reflect.Array, reflect.Slice:
		n := 3
		if t.Kind() == reflect.Array {
			n = t.Len()
		}
		it := &item{kind: "arr", arr: []*item{}}
		for i := 0; i < n; i++ {
			it.arr = append(it.arr, fullItem(t.Elem(), structAsArr, salt))
		}
		return it
	case reflect.Map:
		it := &item{kind: "map"}
		for _, k := range []string{"a", "c"} {
			it.keys = append(it.keys, k)
			it.vals = append(it.vals, fullItem(t.Elem(), structAsArr, salt))
		}
		return it
	case reflect.Struct:
		if structAsArr {
			it := &item{kind: "arr", arr: []*item{}}
			for i := 0; i < t.NumField(); i++ {
				it.arr = append(it.arr, fullItem(t.Field(i).Type, structAsArr, salt))
			}
			return it
		}
		it := &item{kind: "map"}
		for i := 0; i < t.NumField(); i++ {
			it.keys = append(it.keys, t.Field(i).Name)
			it.vals = append(it.vals, fullItem(t.Field(i).Type, structAsArr, salt))
		}
		return it
	}
	panic("fullItem " + t.String())
}

func (it *item) size() int {
	n := 1
	for _, x := range it.arr {
		n += x.size()
	}
	for _, x := range it.vals {
		n += x.size()
	}
	return n
}

// withNilAt: a copy of the tree with its k-th node (pre-order, map keys not counted) replaced by nil
func (it *item) withNilAt(k *int) *item {
	if *k == 0 {
		*k = -1
		return &item{kind: "nil"}
	}
	if *k > 0 {
		*k--
	}
	out := &item{kind: it.kind, z: it.z, s: it.s, keys: it.keys}
	if it.arr != nil {
		out.arr = []*item{}
	}
	for _, x := range it.arr {
		out.arr = append(out.arr, x.withNilAt(k))
	}
	for _, x := range it.vals {
		out.vals = append(out.vals, x.withNilAt(k))
	}
	return out
}

// nilSweep: for every type of a fixed list, every single position of a full stream replaced by nil
// (and one stream with two nils, so that the mixed-spelling variants exist), into the zero and the
// fully populated destination, no option / all reset options, five formats; runCase adds every
// alternate spelling of the nils. Seed-independent.
func nilSweep(sum *vh.Summary, cv *vh.Cases, fast bool, build string) {
	id := 2000000
	for _, t := range nilSweepTypes {
		for _, asArr := range []bool{false, true} {
			salt := 0
			base := fullItem(t, asArr, &salt)
			if asArr && base.coq() == fullItem(t, false, new(int)).coq() {
				continue // no struct in t
			}
			var streams []*item
			for k := 0; k < base.size(); k++ {
				kk := k
				streams = append(streams, base.withNilAt(&kk))
			}
			if n := base.size(); n >= 3 {
				k1, k2 := n-1, 0
				two := base.withNilAt(&k1)
				k2 = n - 2
				if x := two.withNilAt(&k2); x.countNil() == 2 {
					streams = append(streams, x)
				}
			}
			for _, it := range streams {
				for dk, mk := range []func() reflect.Value{
					func() reflect.Value { return reflect.New(t).Elem() },
					func() reflect.Value { d := reflect.New(t).Elem(); fillFull(d, new(int)); return d },
				} {
					for _, reset := range []bool{false, true} {
						if reset && dk == 0 {
							continue
						}
						for _, format := range vh.Formats {
							id++
							o := vh.Opts{"MapValueReset": reset, "SliceElementReset": reset, "InterfaceReset": reset, "DeleteOnNilMapValue": id%4 == 0, "SignedInteger": true, "WriteExt": true, "RawToString": true}
							runCase(sum, cv, fast, build, caseIn{id: id, label: "nilsweep", t: t, format: format, o: o, mk: mk, it: it, src: id % 3,
								noModel: !(format == "cbor" && dk == 1 && !reset)}) // to the model: cbor, both spellings, populated destination
						}
					}
				}
			}
		}
	}
}

// ---- deterministic sweep: stream arrays longer than the pre-sizing cap ----

type bigElem struct {
	name string
	t    reflect.Type              // the slice type
	dst  func(i int) reflect.Value // a populated destination element
	it   func(i int) *item         // the i-th stream element
	refl bool                      // no generated fast path for this slice type
}

func intItem(z int) *item { return &item{kind: "int", z: int64(z)} }

var bigElems = []bigElem{
	{"struct", reflect.TypeOf([]pt19(nil)),
		func(i int) reflect.Value { return reflect.ValueOf(pt19{A: -1 - i, B: "old"}) },
		func(i int) *item {
			switch {
			case i%97 == 96:
				return &item{kind: "nil"}
			case i%2 == 1: // partial: B stays as it was (zero beyond the destination's length)
				return &item{kind: "map", keys: []string{"A"}, vals: []*item{intItem(i)}}
			}
			return &item{kind: "map", keys: []string{"A", "B"}, vals: []*item{intItem(i), {kind: "str", s: "n"}}}
		}, true},
	{"ptr", reflect.TypeOf([]*int(nil)),
		func(i int) reflect.Value { x := -1 - i; return reflect.ValueOf(&x) },
		func(i int) *item {
			if i%5 == 4 {
				return &item{kind: "nil"}
			}
			return intItem(i)
		}, true},
	{"int", reflect.TypeOf([]int(nil)),
		func(i int) reflect.Value { return reflect.ValueOf(-1 - i) },
		func(i int) *item {
			if i%97 == 96 {
				return &item{kind: "nil"}
			}
			return intItem(i + 1)
		}, false},
	{"string", reflect.TypeOf([]string(nil)),
		func(i int) reflect.Value { return reflect.ValueOf("old") },
		func(i int) *item { return &item{kind: "str", s: "s" + string(rune('a'+i%26))} }, false},
	{"iface", reflect.TypeOf([]interface{}(nil)),
		func(i int) reflect.Value {
			if i%2 == 0 {
				return reflect.ValueOf(int64(-1 - i))
			}
			return reflect.ValueOf("old")
		},
		func(i int) *item {
			if i%2 == 0 {
				return intItem(-2 - i)
			}
			return &item{kind: "str", s: "n"}
		}, false},
}

// bigSliceSweep: kSlice / DecSliceXY pre-size a slice to min(stream length, max(1024, MaxInitLen))
// and grow it inside the element loop (growslice: len = the new capacity) when the stream is longer;
// the result must still have exactly the stream's length, hold the merge of the old elements with the
// stream, and not change when the same bytes are decoded again. Lengths around and beyond the cap,
// into nil / shorter / shorter-with-spare-capacity / equal / longer destinations, reflection and
// fast-path element types, length-prefixed and indefinite-length / json streams. Seed-independent.
func bigSliceSweep(sum *vh.Summary, cv *vh.Cases, fast bool, build string) {
	type fm struct {
		format string
		indef  bool
	}
	fms := []fm{{"cbor", false}, {"cbor", true}, {"msgpack", false}, {"binc", false}, {"simple", false}, {"json", false}}
	dstKinds := []string{"nil", "shorter", "shorter+spare-capacity", "equal", "longer"}
	id := 5000000
	for _, be := range bigElems {
		for _, mil := range []int{0, 4, 1500, 4096} {
			lens := []int{1023, 1024, 1025, 1101, 2049, 5000}
			switch {
			case mil == 4:
				lens = []int{1025, 1101}
			case mil == 1500:
				lens = []int{1101, 1500, 1501, 2049}
			case mil == 4096:
				lens = []int{4096, 4097, 5000}
			case be.name != "struct" && be.name != "int":
				lens = []int{1024, 1025, 1101}
			}
			if mil != 0 && be.name != "struct" && be.name != "int" {
				continue
			}
			for _, n := range lens {
				it := &item{kind: "arr", arr: []*item{}}
				for i := 0; i < n; i++ {
					it.arr = append(it.arr, be.it(i))
				}
				for _, f := range fms {
					eo := vh.Opts{"IndefiniteLength": f.indef, "SignedInteger": true, "WriteExt": true, "RawToString": true}
					var bs []byte
					if err := codec.NewEncoderBytes(&bs, vh.NewHandle(f.format, eo)).Encode(it.generic()); err != nil {
						panic(err)
					}
					for _, dk := range dstKinds {
						if n == 5000 && (dk == "equal" || dk == "longer") {
							continue
						}
						id++
						ser := be.refl && (dk == "shorter+spare-capacity" || dk == "longer")
						src := id % 3
						o := vh.Opts{"MaxInitLen": mil, "SliceElementReset": ser, "SignedInteger": true, "WriteExt": true, "RawToString": true}
						if src == 2 {
							o["ReaderBufferSize"] = 16
						}
						h := vh.NewHandle(f.format, o)
						mk := func() reflect.Value {
							d := reflect.New(be.t).Elem()
							ln, cp := 0, 0
							switch dk {
							case "nil":
								return d
							case "shorter":
								ln, cp = 3, 3
							case "shorter+spare-capacity":
								ln, cp = 3, 1050
							case "equal":
								ln, cp = n, n
							case "longer":
								ln, cp = n+7, n+9
							}
							s := reflect.MakeSlice(be.t, cp, cp)
							for i := 0; i < cp; i++ {
								s.Index(i).Set(be.dst(i)) // the spare capacity holds stale values
							}
							d.Set(s.Slice(0, ln))
							return d
						}
						d0, d1 := mk(), mk()
						dlen, dcap := d0.Len(), d0.Cap()
						newDec := func() *codec.Decoder {
							if src == 0 {
								return codec.NewDecoderBytes(bs, h)
							}
							return codec.NewDecoder(plainReader{bytes.NewReader(bs)}, h)
						}
						err1 := newDec().Decode(d0.Addr().Interface())
						ctx := &mergeCtx{sliceReset: ser}
						merge(ctx, d1, it)
						prefix := "length-prefixed"
						if f.indef || f.format == "json" {
							prefix = "no-length-prefix"
						}
						path := "reflection"
						if fast && !be.refl {
							path = "fastpath"
						}
						rel := "stream<=presize-cap"
						if n > max(1024, mil) {
							rel = "stream>presize-cap"
						}
						cls := fmt.Sprintf("%s:%s:%s", prefix, path, rel)
						cj := map[string]interface{}{"format": f.format, "IndefiniteLength": f.indef, "type": be.t.String(), "stream_len": n, "dst": dk, "dst_len": dlen, "dst_cap": dcap,
							"MaxInitLen": mil, "SliceElementReset": ser, "build": build, "source": []string{"bytes", "io.Reader", "io.Reader+buffer"}[src],
							"elements": "element i of the stream: see bigElems[" + be.name + "].it(i) in harness/cmd/c19/main.go", "index": id}
						firstDiff := func(a, b reflect.Value) int {
							for i := 0; i < a.Len() && i < b.Len(); i++ {
								if !vh.DeepEq(a.Index(i), b.Index(i), vh.EqOpts{}) {
									return i
								}
							}
							return min(a.Len(), b.Len())
						}
						switch {
						case err1 != nil || ctx.err:
							cj["impl_err"], cj["spec_err"] = err1 != nil, ctx.err
							sum.FailC("bigslice", "big-slice:error:"+cls, "decoding a long well-typed stream array into a slice failed", cj)
						case d0.Len() != n:
							cj["got_len"] = d0.Len()
							sum.FailC("bigslice", "big-slice:length:"+cls, "the decoded slice does not have the length of the stream array", cj)
						case !vh.DeepEq(d0, d1, vh.EqOpts{}):
							k := firstDiff(d0, d1)
							cj["first_differing_index"], cj["got"], cj["want"] = k, coqVal(d0.Index(k)), coqVal(d1.Index(k))
							sum.FailC("bigslice", "big-slice:merge:"+cls, "a long stream array decoded into a slice differs from the documented merge", cj)
						}
						var snap reflect.Value
						twice := "None"
						if err1 == nil {
							snap = deepCopy(d0)
							err2 := newDec().Decode(d0.Addr().Interface())
							if err2 == nil {
								twice = "(Some " + coqVal(d0) + ")"
							}
							if err2 != nil || !vh.DeepEq(snap, d0, vh.EqOpts{}) {
								cj["len_after_first"], cj["len_after_second"], cj["second_err"] = snap.Len(), d0.Len(), err2 != nil
								sum.FailC("bigslice", "big-slice:idem:"+cls, "decoding the same long stream array a second time changed the slice", cj)
							}
						}
						sum.Count("bigslice."+f.format, fmt.Sprintf("big/%s/%v/%s/%d/%s/%d/%v", f.format, f.indef, be.name, n, dk, mil, err1 != nil))
						// a few of them also go to the model (it knows no capacity: the length is the stream's)
						if n == 1025 && mil == 0 && (dk == "nil" || dk == "shorter") && (f.format == "json" || f.format == "cbor") && (be.name == "struct" || be.name == "int") && err1 == nil {
							cv.Add(fmt.Sprintf("mkcase %d %s (mkDopts false %s false false) %s %s %s (Some %s) %s", id, vh.CoqBool(fast), vh.CoqBool(ser),
								coqType(be.t), coqVal(mk()), it.coq(), coqVal(snap), twice))
							sum.ModelCases++
						}
					}
				}
			}
		}
	}
}

// caseIn: one destination type, pre-populated destination, stream item, option vector and format.
type caseIn struct {
	id      int    // Coq case id; seed_index of the random stream
	label   string // "" for the random stream, else the deterministic sweep it belongs to
	t       reflect.Type
	format  string
	o       vh.Opts
	mk      func() reflect.Value // a fresh copy of the pre-populated destination (the same one each time)
	it      *item
	src     int // 0 []byte, 1 io.Reader, 2 io.Reader with a 16-byte buffer
	sample  bool
	noModel bool // oracles only, no Coq case
}

// runCase: Decode (twice) against the documented merge, idempotence, every alternate spelling of the
// stream's nils against the primary one; the observations go to the model as Coq cases.
func runCase(sum *vh.Summary, cv *vh.Cases, fast bool, build string, c caseIn) {
	t, format, o, it, i := c.t, c.format, c.o, c.it, c.id
	var bs []byte
	if err := codec.NewEncoderBytes(&bs, vh.NewHandle(format, o)).Encode(it.generic()); err != nil {
		return
	}
	d0, d1 := c.mk(), c.mk()
	before := coqVal(d0)
	// the bytes come from a []byte or through an io.Reader (buffered or not)
	src := c.src
	if src == 2 {
		o["ReaderBufferSize"] = 16
	}
	h := vh.NewHandle(format, o)
	mkDec := func(bs []byte) func() *codec.Decoder {
		return func() *codec.Decoder {
			if src == 0 {
				return codec.NewDecoderBytes(bs, h)
			}
			return codec.NewDecoder(plainReader{bytes.NewReader(bs)}, h)
		}
	}
	r1 := decodeTwice(mkDec(bs), d0)
	err1, obs, twice, idemOK := r1.err, r1.obs, r1.twice, r1.idemOK
	d0 = r1.after
	ctx := &mergeCtx{mapReset: o["MapValueReset"].(bool), sliceReset: o["SliceElementReset"].(bool), ifaceReset: o["InterfaceReset"].(bool)}
	merge(ctx, d1, it)
	if ctx.err {
		return // ill-typed stream for this destination: whether a driver is lenient (json and cbor read numbers into strings) is C01/C07 business
	}
	cj := map[string]interface{}{"format": format, "type": t.String(), "opts": o.String(), "stream": vh.Hex(bs), "item": it.coq(), "before": before, "build": build, "source": []string{"bytes", "io.Reader", "io.Reader+buffer"}[src], "seed_index": i}
	if c.label != "" {
		cj["sweep"] = c.label
		delete(cj, "seed_index")
		cj["index"] = i
	}
	switch {
	case ctx.err != (err1 != nil):
		cls := "merge:error-differs"
		if ctx.ifaceElemKept && fast {
			cls = "paths:fastpath-ignores-SliceElementReset:[]interface{}"
		}
		cj["spec_err"], cj["impl_err"] = ctx.err, err1 != nil
		sum.FailC("merge", cls, "Decode and the documented merge do not fail alike", cj)
	case err1 == nil && !vh.DeepEq(d0, d1, vh.EqOpts{}):
		cls := "merge:other"
		switch {
		case ctx.nilIntoNonNilPtrField:
			cls = "nil:struct-field-holding-non-nil-pointer"
		case ctx.ifaceElemKept && fast:
			cls = "paths:fastpath-ignores-SliceElementReset:[]interface{}"
		}
		cj["got"], cj["want"] = coqVal(d0), coqVal(d1)
		sum.FailC("merge", cls, "destination after Decode differs from the documented merge (nil = zero, absent = untouched)", cj)
	}
	if err1 == nil && !idemOK {
		sum.FailC("idem", "idem", "decoding the same bytes a second time changed the destination", cj)
	}
	pfx := "merge"
	if c.label != "" {
		pfx = c.label
	}
	// every alternate wire spelling of nil leaves the destination exactly as the primary one does
	modelled := !hasArray(t) && !(ctx.ifaceElemKept && fast)
	alts, altNames := altNilStreams(format, bs, it.countNil())
	for k, ab := range alts {
		ra := decodeTwice(mkDec(ab), c.mk())
		judgeAlt(sum, cj, altNames[k], ab, r1, ra)
		if modelled && !c.noModel {
			cv.Add(fmt.Sprintf("mkcase %d %s (mkDopts %s %s %s %s) %s %s %s %s %s", 10000000+10*i+k, vh.CoqBool(fast), vh.CoqBool(ctx.mapReset), vh.CoqBool(ctx.sliceReset), vh.CoqBool(ctx.ifaceReset), vh.CoqBool(o["DeleteOnNilMapValue"].(bool)),
				coqType(t), before, it.coq(), ra.obs, ra.twice))
			sum.ModelCases++
		}
		sum.Count("nilspelling."+format, fmt.Sprintf("%s/%s/%s/%s/err%v", pfx, altNames[k], pathClass(t, fast), t.Kind(), ra.err != nil))
	}
	if hasArray(t) {
		// Go arrays are outside the Coq universe: merge and idempotence oracles only
		sum.Count(pfx+".array", fmt.Sprintf("%s/array/%s/%s/nil%v/err%v", pfx, format, t.Kind(), it.hasNil(), err1 != nil))
		return
	}
	if ctx.ifaceElemKept && fast {
		// F19-2 situation: the element's previous dynamic type meets a stream value of another type; what
		// happens then is driver leniency (json/cbor read numbers into strings), not modelled
		sum.Count(pfx+"."+pathClass(t, fast), "")
		return
	}
	if !c.noModel {
		cv.Add(fmt.Sprintf("mkcase %d %s (mkDopts %s %s %s %s) %s %s %s %s %s", i, vh.CoqBool(fast), vh.CoqBool(ctx.mapReset), vh.CoqBool(ctx.sliceReset), vh.CoqBool(ctx.ifaceReset), vh.CoqBool(o["DeleteOnNilMapValue"].(bool)),
			coqType(t), before, it.coq(), obs, twice))
		sum.ModelCases++
	}
	key := fmt.Sprintf("%s/%s/%s/d%d/%v%v%v/nil%v/err%v", format, pathClass(t, fast), t.Kind(), vh.TypeDepth(t), ctx.mapReset, ctx.sliceReset, ctx.ifaceReset, it.hasNil(), err1 != nil)
	if c.label != "" {
		key = c.label + "/" + key
	}
	sum.Count(pfx+"."+pathClass(t, fast), key)
	if c.label == "" {
		sum.Dist["kind."+t.Kind().String()]++
		if it.hasNil() {
			sum.Dist["stream.has-nil"]++
		}
	}
	if c.sample {
		sum.Sample(cj)
	}
}

func main() {
	n := flag.Int("n", 1500, "cases")
	cases := flag.String("cases", "/verif/build/c19/cases", "directory for the model case files")
	flag.Parse()
	fast := codec.VerifC19HasFastpath()
	build := "fastpath"
	if !fast {
		build = "notfastpath"
	}
	r := vh.NewRng(vh.SeedFromEnv())
	sum := vh.NewSummary("random type (int, string, pointer, slice, string-keyed map, struct, interface{}; depth <= 3) x pre-populated destination (nil / shorter / longer slices, allocated pointers, interfaces holding an int64 or a string, maps with extra entries) x stream (value, partial map, prefix array, unknown key, nil at every position with probability 1/5, occasionally ill-typed) x 4 options x 5 formats, every alternate wire spelling of the stream nils (cbor undefined, json null within whitespace); deterministic sweeps: nil at every single position of a full stream x zero / fully populated destination x formats x spellings; slices longer than the pre-sizing cap max(1024, MaxInitLen); distinct by (format, path, type shape, options, has-nil, outcome)")
	cv := vh.NewCases(*cases, casesHeader, "case", "mismatches", 60)
	for i := 0; i < *n; i++ {
		t := randType(r, r.Intn(4))
		format := vh.Formats[r.Intn(len(vh.Formats))]
		o := vh.Opts{"MapValueReset": r.Chance(1, 3), "SliceElementReset": r.Chance(1, 3), "InterfaceReset": r.Chance(1, 3), "DeleteOnNilMapValue": r.Chance(1, 4), "SignedInteger": true, "WriteExt": true, "RawToString": true}
		vr := r.Fork()
		st := *vr
		mk := func() reflect.Value {
			s := st
			d := reflect.New(t).Elem()
			fill(&s, d, 0)
			return d
		}
		it := randItem(r, t, mk(), 5)
		if err := codec.NewEncoderBytes(new([]byte), vh.NewHandle(format, o)).Encode(it.generic()); err != nil {
			continue
		}
		runCase(sum, cv, fast, build, caseIn{id: i, t: t, format: format, o: o, mk: mk, it: it, src: r.Intn(3), sample: i < 3})
	}
	nilSweep(sum, cv, fast, build)
	bigSliceSweep(sum, cv, fast, build)
	cv.Close()
	bytesStream(r.Fork(), *n/4, sum)
	namedBytesStream(sum)
	arrayMapSweep(sum)
	sum.Print()
}

// c19: correspondence and property oracle for C19 (nil in the stream means zero; absent means
// untouched; decoding is idempotent).
//
// Pre-populated destinations (nil, shorter, longer, allocated pointers, interfaces holding
// another type, maps with extra entries) x streams (full values, partial maps, nil at every
// position) x {MapValueReset, SliceElementReset, InterfaceReset, DeleteOnNilMapValue} x five
// formats x {fast-path types, builtin scalars, everything else through reflection}.
// Direct oracles on the implementation: destination after Decode == merge (the documented
// rules, applied in Go over reflect) and Decode twice == Decode once. The same observations
// are written as Coq terms for the model (dec_impl) to re-run.
// Build also with -tags verif,codec.notfastpath: every type then goes through reflection.
package main

import (
	"bytes"
	"flag"
	"io"
	"fmt"
	"reflect"
	"sort"
	"strings"

	"verifharness/vh"

	"github.com/ugorji/go/codec"
)

const casesHeader = "From Coq Require Import List NArith ZArith.\nFrom Verif Require Import Base.Outcome Wire.Item C19.Spec C19.Model C19.Corr.\nImport ListNotations."

// plainReader hides every method of the wrapped reader but Read
type plainReader struct{ r io.Reader }

func (p plainReader) Read(b []byte) (int, error) { return p.r.Read(b) }

// ---- items ----

type item struct {
	kind string // nil int str arr map
	z    int64
	s    string
	arr  []*item
	keys []string
	vals []*item
}

type mbs []interface{}

func (mbs) MapBySlice() {}

func (it *item) generic() interface{} {
	switch it.kind {
	case "nil":
		return nil
	case "int":
		return it.z
	case "str":
		return it.s
	case "arr":
		out := make([]interface{}, 0, len(it.arr))
		for _, x := range it.arr {
			out = append(out, x.generic())
		}
		return out
	default:
		out := mbs{}
		for i := range it.keys {
			out = append(out, it.keys[i], it.vals[i].generic())
		}
		return out
	}
}

func coqStr(s string) string {
	if s == "" {
		return "[]"
	}
	var p []string
	for i := 0; i < len(s); i++ {
		p = append(p, fmt.Sprint(s[i]))
	}
	return "[" + strings.Join(p, ";") + "]%N"
}

func (it *item) coq() string {
	switch it.kind {
	case "nil":
		return "INil"
	case "int":
		return "(IInt " + vh.CoqZ(it.z) + ")"
	case "str":
		return "(IStr " + coqStr(it.s) + ")"
	case "arr":
		var p []string
		for _, x := range it.arr {
			p = append(p, x.coq())
		}
		return "(IArr [" + strings.Join(p, "; ") + "])"
	default:
		var p []string
		for i := range it.keys {
			p = append(p, "(IStr "+coqStr(it.keys[i])+", "+it.vals[i].coq()+")")
		}
		return "(IMap [" + strings.Join(p, "; ") + "])"
	}
}

func (it *item) hasNil() bool {
	if it.kind == "nil" {
		return true
	}
	for _, x := range it.arr {
		if x.hasNil() {
			return true
		}
	}
	for _, x := range it.vals {
		if x.hasNil() {
			return true
		}
	}
	return false
}

// ---- types ----

var (
	tInt   = reflect.TypeOf(int(0))
	tStr   = reflect.TypeOf("")
	tIface = reflect.TypeOf((*interface{})(nil)).Elem()
)

func randType(r *vh.Rng, depth int) reflect.Type {
	if depth <= 0 {
		switch r.Intn(3) {
		case 0:
			return tInt
		case 1:
			return tStr
		}
		return tIface
	}
	switch r.Intn(9) {
	case 0:
		return tInt
	case 1:
		return tStr
	case 2:
		return tIface
	case 3:
		e := randType(r, depth-1)
		if e.Kind() == reflect.Interface {
			return tInt
		}
		return reflect.PointerTo(e)
	case 4, 5:
		if r.Chance(1, 4) {
			// Go arrays (oracle only, outside the Coq universe): pointer-to-scalar, scalar and struct elements
			var e reflect.Type
			switch r.Intn(5) {
			case 0:
				e = reflect.PointerTo(tInt)
			case 1:
				e = reflect.PointerTo(tStr)
			case 2:
				e = tInt
			default:
				e = randType(r, depth-1)
			}
			return reflect.ArrayOf(1+r.Intn(3), e)
		}
		return reflect.SliceOf(randType(r, depth-1))
	case 6:
		if depth >= 2 && r.Chance(1, 2) {
			// maps of structs / pointers to structs: where MapValueReset and the in-place update differ
			n := 2 + r.Intn(2)
			var fs []reflect.StructField
			// half of them small and pointer-free (ints only): such map values are decoded into the
			// decoder's per-type scratch space when the key is new
			allInt := r.Bool()
			for i := 0; i < n; i++ {
				ft := randType(r, 0)
				if allInt {
					ft = tInt
				}
				fs = append(fs, reflect.StructField{Name: string(rune('A' + i)), Type: ft})
			}
			st := reflect.StructOf(fs)
			if allInt && r.Chance(2, 3) {
				return reflect.MapOf(tStr, st)
			}
			if r.Bool() {
				return reflect.MapOf(tStr, reflect.PointerTo(st))
			}
			return reflect.MapOf(tStr, st)
		}
		if r.Chance(1, 4) {
			// array-valued maps: an existing entry is fetched and updated in place (a shorter stream
			// array / a partial struct element leaves the rest of the entry as it was)
			e := tInt
			if r.Bool() {
				e = reflect.StructOf([]reflect.StructField{{Name: "A", Type: tInt}, {Name: "B", Type: tInt}})
			}
			return reflect.MapOf(tStr, reflect.ArrayOf(2+r.Intn(2), e))
		}
		return reflect.MapOf(tStr, randType(r, depth-1))
	default:
		n := 1 + r.Intn(4)
		var fs []reflect.StructField
		for i := 0; i < n; i++ {
			fs = append(fs, reflect.StructField{Name: string(rune('A' + i)), Type: randType(r, depth-1)})
		}
		return reflect.StructOf(fs)
	}
}

func coqType(t reflect.Type) string {
	switch t.Kind() {
	case reflect.Int:
		return "TInt"
	case reflect.String:
		return "TStr"
	case reflect.Interface:
		return "TIface"
	case reflect.Ptr:
		return "(TPtr " + coqType(t.Elem()) + ")"
	case reflect.Slice:
		return "(TSlice " + coqType(t.Elem()) + ")"
	case reflect.Array: // not in the Coq universe: messages only
		return fmt.Sprintf("(TArr %d %s)", t.Len(), coqType(t.Elem()))
	case reflect.Map:
		return "(TMap " + coqType(t.Elem()) + ")"
	case reflect.Struct:
		var p []string
		for i := 0; i < t.NumField(); i++ {
			p = append(p, "("+coqStr(t.Field(i).Name)+", "+coqType(t.Field(i).Type)+")")
		}
		return "(TStruct [" + strings.Join(p, "; ") + "])"
	}
	panic("coqType " + t.String())
}

func coqVal(v reflect.Value) string {
	switch v.Kind() {
	case reflect.Int, reflect.Int64:
		return "(VInt " + vh.CoqZ(v.Int()) + ")"
	case reflect.Uint64:
		return "(VInt " + vh.CoqZ(int64(v.Uint())) + ")"
	case reflect.String:
		return "(VStr " + coqStr(v.String()) + ")"
	case reflect.Ptr:
		if v.IsNil() {
			return "(VPtr None)"
		}
		return "(VPtr (Some " + coqVal(v.Elem()) + "))"
	case reflect.Interface:
		if v.IsNil() {
			return "(VIface None)"
		}
		if v.Elem().Kind() == reflect.Struct {
			return "(VIface (Some (VDyn " + coqType(v.Elem().Type()) + " " + coqVal(v.Elem()) + ")))"
		}
		return "(VIface (Some " + coqVal(v.Elem()) + "))"
	case reflect.Array:
		var p []string
		for i := 0; i < v.Len(); i++ {
			p = append(p, coqVal(v.Index(i)))
		}
		return "(VArr [" + strings.Join(p, "; ") + "])"
	case reflect.Slice:
		if v.IsNil() {
			return "(VSlice None)"
		}
		var p []string
		for i := 0; i < v.Len(); i++ {
			p = append(p, coqVal(v.Index(i)))
		}
		return "(VSlice (Some [" + strings.Join(p, "; ") + "]))"
	case reflect.Map:
		if v.IsNil() {
			return "(VMap None)"
		}
		ks := v.MapKeys()
		sort.Slice(ks, func(i, j int) bool { return ks[i].String() < ks[j].String() })
		var p []string
		for _, k := range ks {
			p = append(p, "("+coqStr(k.String())+", "+coqVal(v.MapIndex(k))+")")
		}
		return "(VMap (Some [" + strings.Join(p, "; ") + "]))"
	case reflect.Struct:
		var p []string
		for i := 0; i < v.NumField(); i++ {
			p = append(p, coqVal(v.Field(i)))
		}
		return "(VStruct [" + strings.Join(p, "; ") + "])"
	}
	return "(VStr " + coqStr("?"+v.Kind().String()) + ")"
}

var keyPool = []string{"a", "b", "c"}

// struct types an interface{} destination may hold BY VALUE (kInterface copies the held value
// into an addressable temporary and decodes into it)
var heldTypes = []reflect.Type{
	reflect.TypeOf(struct {
		X, Y int
		Name string
	}{}),
	reflect.TypeOf(struct {
		A int
		P *int
		L []int
	}{}),
}

func fill(r *vh.Rng, v reflect.Value, depth int) {
	t := v.Type()
	switch t.Kind() {
	case reflect.Int:
		if r.Chance(2, 3) {
			v.SetInt(int64(r.Intn(100) - 50))
		}
	case reflect.String:
		if r.Chance(2, 3) {
			v.SetString(string(rune('p' + r.Intn(5))))
		}
	case reflect.Interface:
		switch r.Intn(4) {
		case 0:
			v.Set(reflect.ValueOf(int64(-1 - r.Intn(50))))
		case 1:
			v.Set(reflect.ValueOf("i" + string(rune('a'+r.Intn(3)))))
		case 2:
			h := reflect.New(heldTypes[r.Intn(len(heldTypes))]).Elem()
			fill(r, h, depth+1)
			v.Set(h)
		}
	case reflect.Ptr:
		if r.Chance(2, 3) {
			p := reflect.New(t.Elem())
			fill(r, p.Elem(), depth+1)
			v.Set(p)
		}
	case reflect.Array:
		for i := 0; i < t.Len(); i++ {
			fill(r, v.Index(i), depth+1)
		}
	case reflect.Slice:
		if r.Chance(1, 4) {
			return
		}
		// len <= cap, and the spare capacity is POPULATED (a reused buffer cut back to [:n]):
		// elements at index >= len hold no prior value, whatever sits in the backing array
		n := r.Intn(4)
		spare := r.Intn(3)
		s := reflect.MakeSlice(t, n+spare, n+spare)
		for i := 0; i < n+spare; i++ {
			fill(r, s.Index(i), depth+1)
			if i >= n {
				fillNonZero(r, s.Index(i))
			}
		}
		v.Set(s.Slice(0, n))
	case reflect.Map:
		if r.Chance(1, 4) {
			return
		}
		m := reflect.MakeMap(t)
		for _, k := range keyPool {
			if r.Chance(1, 2) {
				e := reflect.New(t.Elem()).Elem()
				fill(r, e, depth+1)
				m.SetMapIndex(reflect.ValueOf(k), e)
			}
		}
		v.Set(m)
	case reflect.Struct:
		for i := 0; i < t.NumField(); i++ {
			fill(r, v.Field(i), depth+1)
		}
	}
}

// fillNonZero makes sure a spare-capacity element is visibly not the zero value
func fillNonZero(r *vh.Rng, v reflect.Value) {
	switch v.Kind() {
	case reflect.Int:
		if v.Int() == 0 {
			v.SetInt(int64(60 + r.Intn(30)))
		}
	case reflect.String:
		if v.String() == "" {
			v.SetString("stale")
		}
	case reflect.Ptr:
		if v.IsNil() {
			p := reflect.New(v.Type().Elem())
			fillNonZero(r, p.Elem())
			v.Set(p)
		} else {
			fillNonZero(r, v.Elem())
		}
	case reflect.Struct:
		for i := 0; i < v.NumField(); i++ {
			fillNonZero(r, v.Field(i))
		}
	case reflect.Map:
		if v.Len() == 0 {
			m := reflect.MakeMap(v.Type())
			e := reflect.New(v.Type().Elem()).Elem()
			fillNonZero(r, e)
			m.SetMapIndex(reflect.ValueOf("b"), e)
			v.Set(m)
		}
	case reflect.Interface:
		if v.IsNil() && v.Type().NumMethod() == 0 {
			v.Set(reflect.ValueOf(int64(-77)))
		}
	}
}

// randItem draws a stream for a destination of type t; nil can appear at every position.
func randItem(r *vh.Rng, t reflect.Type, cur reflect.Value, nilProb int) *item {
	sub := func(k func() reflect.Value) (out reflect.Value) {
		defer func() { recover() }()
		if cur.IsValid() {
			out = k()
		}
		return
	}
	_ = sub
	if r.Chance(1, nilProb) {
		return &item{kind: "nil"}
	}
	if r.Chance(1, 40) { // ill-typed
		return &item{kind: "str", s: "bad"}
	}
	switch t.Kind() {
	case reflect.Int:
		return &item{kind: "int", z: int64(r.Intn(200) - 100)}
	case reflect.String:
		return &item{kind: "str", s: string(rune('u' + r.Intn(5)))}
	case reflect.Interface:
		if cur.IsValid() && !cur.IsNil() && cur.Elem().Kind() == reflect.Struct && r.Chance(3, 4) {
			// the interface holds a struct by value: a (partial) stream for that struct
			return randItem(r, cur.Elem().Type(), cur.Elem(), nilProb)
		}
		if r.Bool() {
			return &item{kind: "int", z: int64(-1 - r.Intn(90))}
		}
		return &item{kind: "str", s: "n" + string(rune('a'+r.Intn(3)))}
	case reflect.Ptr:
		return randItem(r, t.Elem(), sub(func() reflect.Value { return cur.Elem() }), nilProb)
	case reflect.Array:
		n := r.Intn(t.Len() + 2)
		it := &item{kind: "arr", arr: []*item{}}
		for i := 0; i < n; i++ {
			ii := i
			it.arr = append(it.arr, randItem(r, t.Elem(), sub(func() reflect.Value { return cur.Index(ii) }), 3))
		}
		return it
	case reflect.Slice:
		n := r.Intn(4)
		it := &item{kind: "arr", arr: []*item{}}
		if cur.IsValid() && r.Chance(1, 2) {
			n = cur.Len() + r.Intn(3) // reach the element at index len (and beyond)
		}
		for i := 0; i < n; i++ {
			ii := i
			it.arr = append(it.arr, randItem(r, t.Elem(), sub(func() reflect.Value { return cur.Index(ii) }), nilProb))
		}
		return it
	case reflect.Map:
		it := &item{kind: "map"}
		num, den := 2, 5
		if t.Elem().Kind() == reflect.Struct {
			num, den = 4, 5 // several entries, full ones followed by partial ones, known and new keys
		}
		for _, k := range []string{"a", "b", "c", "d", "e"} {
			if r.Chance(num, den) {
				it.keys = append(it.keys, k)
				kk := k
				it.vals = append(it.vals, randItem(r, t.Elem(), sub(func() reflect.Value { return cur.MapIndex(reflect.ValueOf(kk)) }), nilProb))
			}
		}
		return it
	case reflect.Struct:
		if r.Chance(1, 4) {
			n := r.Intn(t.NumField() + 2)
			it := &item{kind: "arr", arr: []*item{}}
			for i := 0; i < n; i++ {
				if i < t.NumField() {
					ii := i
					it.arr = append(it.arr, randItem(r, t.Field(i).Type, sub(func() reflect.Value { return cur.Field(ii) }), nilProb))
				} else {
					it.arr = append(it.arr, &item{kind: "int", z: 1})
				}
			}
			return it
		}
		it := &item{kind: "map"}
		perm := r.Intn(2) == 0
		for i := 0; i < t.NumField(); i++ {
			j := i
			if perm {
				j = t.NumField() - 1 - i
			}
			if r.Chance(1, 2) {
				it.keys = append(it.keys, t.Field(j).Name)
				jj := j
				it.vals = append(it.vals, randItem(r, t.Field(j).Type, sub(func() reflect.Value { return cur.Field(jj) }), nilProb))
			}
		}
		if r.Chance(1, 5) {
			it.keys = append(it.keys, "zz")
			it.vals = append(it.vals, &item{kind: "int", z: 3})
		}
		return it
	}
	return &item{kind: "nil"}
}

// ---- the documented rules, in Go ----

type mergeCtx struct {
	mapReset, sliceReset, ifaceReset bool
	nilIntoNonNilPtrField           bool // a stream nil met a struct field holding a non-nil pointer
	ifaceElemKept                   bool // a []interface{} element holding a value was decoded into under SliceElementReset
	err                             bool
}

func scalarInto(c *mergeCtx, d reflect.Value, it *item) {
	switch d.Kind() {
	case reflect.Int, reflect.Int64:
		if it.kind != "int" {
			c.err = true
			return
		}
		d.SetInt(it.z)
	case reflect.String:
		if it.kind != "str" {
			c.err = true
			return
		}
		d.SetString(it.s)
	}
}

func merge(c *mergeCtx, d reflect.Value, it *item) {
	if c.err {
		return
	}
	t := d.Type()
	if it.kind == "nil" {
		d.Set(reflect.Zero(t)) // nil means zero, any kind
		return
	}
	switch t.Kind() {
	case reflect.Int, reflect.String:
		scalarInto(c, d, it)
	case reflect.Ptr:
		if d.IsNil() {
			d.Set(reflect.New(t.Elem()))
		}
		merge(c, d.Elem(), it)
	case reflect.Interface:
		if !d.IsNil() && !c.ifaceReset && d.Elem().Kind() == reflect.Struct {
			// the held value is the destination: what the stream does not mention stays
			nv := reflect.New(d.Elem().Type()).Elem()
			nv.Set(deepCopy(d.Elem()))
			merge(c, nv, it)
			if !c.err {
				d.Set(nv)
			}
			return
		}
		if !d.IsNil() && !c.ifaceReset {
			nv := reflect.New(d.Elem().Type()).Elem()
			scalarInto(c, nv, it)
			if !c.err {
				d.Set(nv)
			}
			return
		}
		switch it.kind {
		case "int":
			d.Set(reflect.ValueOf(it.z))
		case "str":
			d.Set(reflect.ValueOf(it.s))
		default:
			c.err = true
		}
	case reflect.Array:
		// the first n elements are updated (nil: that ELEMENT becomes zero), the others stay;
		// stream elements beyond the array are skipped (ErrorIfNoArrayExpand is off)
		if it.kind != "arr" {
			c.err = true
			return
		}
		for i := 0; i < len(it.arr) && i < d.Len(); i++ {
			cur := reflect.New(t.Elem()).Elem()
			if !c.sliceReset {
				cur.Set(deepCopy(d.Index(i)))
			} else if t.Elem().Kind() == reflect.Interface && !d.Index(i).IsNil() && it.arr[i].kind != "nil" {
				c.ifaceElemKept = true // [N]interface{} goes through the same generated fast path (F19-2)
			}
			merge(c, cur, it.arr[i])
			if c.err {
				return
			}
			d.Index(i).Set(cur)
		}
	case reflect.Slice:
		if it.kind != "arr" {
			c.err = true
			return
		}
		n := len(it.arr)
		out := reflect.MakeSlice(t, n, n)
		for i := 0; i < n && i < d.Len(); i++ {
			if !c.sliceReset {
				out.Index(i).Set(d.Index(i))
			} else if t.Elem().Kind() == reflect.Interface && !d.Index(i).IsNil() && it.arr[i].kind != "nil" {
				c.ifaceElemKept = true
			}
		}
		for i := 0; i < n; i++ {
			merge(c, out.Index(i), it.arr[i])
		}
		d.Set(out)
	case reflect.Map:
		if it.kind != "map" {
			c.err = true
			return
		}
		if d.IsNil() {
			d.Set(reflect.MakeMap(t))
		}
		for i, k := range it.keys {
			kv := reflect.ValueOf(k)
			cur := reflect.New(t.Elem()).Elem()
			if old := d.MapIndex(kv); old.IsValid() && !c.mapReset {
				cur.Set(deepCopy(old))
			}
			merge(c, cur, it.vals[i])
			if c.err {
				return
			}
			d.SetMapIndex(kv, cur)
		}
	case reflect.Struct:
		switch it.kind {
		case "map":
			for i, k := range it.keys {
				f, ok := t.FieldByName(k)
				if !ok {
					continue
				}
				fv := d.FieldByIndex(f.Index)
				if it.vals[i].kind == "nil" && fv.Kind() == reflect.Ptr && !fv.IsNil() {
					c.nilIntoNonNilPtrField = true
				}
				merge(c, fv, it.vals[i])
			}
		case "arr":
			for i, x := range it.arr {
				if i < t.NumField() {
					if x.kind == "nil" && d.Field(i).Kind() == reflect.Ptr && !d.Field(i).IsNil() {
						c.nilIntoNonNilPtrField = true
					}
					merge(c, d.Field(i), x)
				}
			}
		default:
			c.err = true
		}
	}
}

func deepCopy(v reflect.Value) reflect.Value {
	out := reflect.New(v.Type()).Elem()
	switch v.Kind() {
	case reflect.Ptr:
		if !v.IsNil() {
			p := reflect.New(v.Type().Elem())
			p.Elem().Set(deepCopy(v.Elem()))
			out.Set(p)
		}
	case reflect.Interface:
		if !v.IsNil() {
			out.Set(deepCopy(v.Elem()))
		}
	case reflect.Slice:
		if !v.IsNil() {
			s := reflect.MakeSlice(v.Type(), v.Len(), v.Len())
			for i := 0; i < v.Len(); i++ {
				s.Index(i).Set(deepCopy(v.Index(i)))
			}
			out.Set(s)
		}
	case reflect.Map:
		if !v.IsNil() {
			m := reflect.MakeMap(v.Type())
			it := v.MapRange()
			for it.Next() {
				m.SetMapIndex(it.Key(), deepCopy(it.Value()))
			}
			out.Set(m)
		}
	case reflect.Struct:
		for i := 0; i < v.NumField(); i++ {
			out.Field(i).Set(deepCopy(v.Field(i)))
		}
	case reflect.Array:
		for i := 0; i < v.Len(); i++ {
			out.Index(i).Set(deepCopy(v.Index(i)))
		}
	default:
		out.Set(v)
	}
	return out
}

func hasArray(t reflect.Type) bool {
	switch t.Kind() {
	case reflect.Array:
		return true
	case reflect.Slice, reflect.Ptr, reflect.Map:
		return hasArray(t.Elem())
	case reflect.Struct:
		for i := 0; i < t.NumField(); i++ {
			if hasArray(t.Field(i).Type) {
				return true
			}
		}
	}
	return false
}

func hasIfaceSlice(t reflect.Type) bool {
	switch t.Kind() {
	case reflect.Slice:
		return t.Elem().Kind() == reflect.Interface || hasIfaceSlice(t.Elem())
	case reflect.Ptr, reflect.Map, reflect.Array:
		return hasIfaceSlice(t.Elem())
	case reflect.Struct:
		for i := 0; i < t.NumField(); i++ {
			if hasIfaceSlice(t.Field(i).Type) {
				return true
			}
		}
	}
	return false
}

func pathClass(t reflect.Type, fast bool) string {
	switch t.Kind() {
	case reflect.Int, reflect.String:
		return "builtin"
	case reflect.Slice, reflect.Map:
		k := t.Elem().Kind()
		if fast && (k == reflect.Int || k == reflect.String || k == reflect.Interface) {
			return "fastpath"
		}
	}
	return "reflection"
}

// bytesStream: the encoder's nil / zero-length distinction for []byte (struct field, map value,
// slice element) must survive decoding, from a []byte and through an io.Reader alike.
type bytesBox struct {
	B []byte
	M map[string][]byte
	L [][]byte
}

func bytesStream(r *vh.Rng, n int, sum *vh.Summary) {
	pick := func() []byte {
		switch r.Intn(3) {
		case 0:
			return nil
		case 1:
			return []byte{}
		}
		return r.Bytes(1 + r.Intn(3))
	}
	for i := 0; i < n; i++ {
		format := vh.Formats[r.Intn(len(vh.Formats))]
		src := bytesBox{B: pick(), M: map[string][]byte{"a": pick(), "b": pick()}, L: [][]byte{pick(), pick(), pick()}}
		mk := func() *bytesBox {
			if r.Bool() {
				return &bytesBox{}
			}
			return &bytesBox{B: []byte{9, 9}, M: map[string][]byte{"a": {8}, "c": {7}}, L: [][]byte{{6}, nil}}
		}
		st := *r
		d0 := mk()
		*r = st
		d1 := mk()
		*r = st
		d2 := mk()
		rbs := r.PickInt(0, 0, 8, 64)
		h := vh.NewHandle(format, vh.Opts{"ReaderBufferSize": rbs, "Canonical": true})
		var bs []byte
		if err := codec.NewEncoderBytes(&bs, h).Encode(&src); err != nil {
			continue
		}
		e0 := codec.NewDecoderBytes(bs, h).Decode(d0)
		e1 := codec.NewDecoder(plainReader{bytes.NewReader(bs)}, h).Decode(d1)
		e2 := codec.NewDecoder(bytes.NewReader(bs), h).Decode(d2)
		cj := map[string]interface{}{"format": format, "stream": vh.Hex(bs), "ReaderBufferSize": rbs, "value": fmt.Sprintf("%#v", src), "seed_index": i}
		// what the documented rules give: nil resets to nil, a zero-length value stays non-nil, "c" stays
		want := &bytesBox{B: src.B, M: map[string][]byte{"a": src.M["a"], "b": src.M["b"]}, L: src.L}
		if c, ok := d0.M["c"]; ok && e0 == nil {
			want.M["c"] = c
		}
		shape := func(b []byte) string {
			switch {
			case b == nil:
				return "nil"
			case len(b) == 0:
				return "empty"
			}
			return "data"
		}
		cls := fmt.Sprintf("bytes:%s/%s/%s", shape(src.B), shape(src.M["a"]), shape(src.L[0]))
		if e0 != nil || e1 != nil || e2 != nil {
			sum.FailC("bytes", "bytes:error", "decoding a struct of byte strings failed", cj)
		} else {
			wv := reflect.ValueOf(want).Elem()
			if !vh.DeepEq(reflect.ValueOf(d0).Elem(), wv, vh.EqOpts{}) {
				cj["got"] = fmt.Sprintf("%#v", *d0)
				sum.FailC("bytes", "bytes:nil-vs-empty:from-bytes", "nil / zero-length []byte distinction not preserved decoding from []byte", cj)
			}
			if !vh.DeepEq(reflect.ValueOf(d1).Elem(), wv, vh.EqOpts{}) || !vh.DeepEq(reflect.ValueOf(d2).Elem(), wv, vh.EqOpts{}) {
				cj["got"] = fmt.Sprintf("%#v / %#v", *d1, *d2)
				sum.FailC("bytes", "bytes:nil-vs-empty:from-io.Reader", "nil / zero-length []byte distinction not preserved decoding through an io.Reader", cj)
			}
		}
		sum.Count("bytes."+format, cls+"/"+format+fmt.Sprint(rbs))
	}
}

// namedBytesStream: named byte-slice types (type nb []byte) as top-level destination, struct field
// and map value, pre-populated with MORE, equal and fewer bytes than the stream carries: the
// destination ends up holding exactly the stream's bytes (deterministic sweep).
type nb []byte
type nbBox struct {
	N nb
	P []byte
	M map[string]nb
}

func namedBytesStream(sum *vh.Summary) {
	dsts := [][]byte{[]byte("abcdef"), []byte("ab"), []byte("a"), {}, nil}
	srcs := [][]byte{[]byte("xy"), []byte("wxyz123"), {}, nil}
	cp := func(b []byte) []byte {
		if b == nil {
			return nil
		}
		return append(make([]byte, 0, len(b)+2), b...)
	}
	for _, format := range vh.Formats {
		for _, rbs := range []int{-1, 0, 16} { // -1: from []byte
			o := vh.Opts{}
			if rbs > 0 {
				o["ReaderBufferSize"] = rbs
			}
			h := vh.NewHandle(format, o)
			dec := func(bs []byte, v interface{}) error {
				if rbs < 0 {
					return codec.NewDecoderBytes(bs, h).Decode(v)
				}
				return codec.NewDecoder(plainReader{bytes.NewReader(bs)}, h).Decode(v)
			}
			for _, d := range dsts {
				for _, sv := range srcs {
					cj := map[string]interface{}{"format": format, "ReaderBufferSize": rbs, "dst": fmt.Sprintf("%q", d), "src": fmt.Sprintf("%q", sv), "src_nil": sv == nil}
					// top level
					var bs []byte
					codec.NewEncoderBytes(&bs, h).Encode(nb(sv))
					top := nb(cp(d))
					err := dec(bs, &top)
					if err != nil || !vh.DeepEq(reflect.ValueOf([]byte(top)), reflect.ValueOf(sv), vh.EqOpts{}) {
						cj["got"] = fmt.Sprintf("%q", []byte(top))
						sum.FailC("bytes", "bytes:named-type:top-level", "a named byte-slice destination does not end up holding exactly the stream's bytes", cj)
					}
					// struct field and map value
					src := nbBox{N: nb(sv), P: sv, M: map[string]nb{"k": nb(sv)}}
					bs = nil
					codec.NewEncoderBytes(&bs, h).Encode(&src)
					box := nbBox{N: nb(cp(d)), P: cp(d), M: map[string]nb{"k": nb(cp(d)), "z": nb("keep")}}
					err = dec(bs, &box)
					want := nbBox{N: nb(sv), P: sv, M: map[string]nb{"k": nb(sv), "z": nb("keep")}}
					if err != nil || !vh.DeepEq(reflect.ValueOf(box), reflect.ValueOf(want), vh.EqOpts{}) {
						cj["got"] = fmt.Sprintf("%q %q %q", []byte(box.N), box.P, box.M)
						sum.FailC("bytes", "bytes:named-type:field-or-map-value", "a named byte-slice field / map value does not end up holding exactly the stream's bytes", cj)
					}
					sum.Count("bytes.named."+format, fmt.Sprintf("named/%s/%d/%d/%d", format, rbs, len(d), len(sv)))
				}
			}
		}
	}
}

// arrayMapSweep: array-valued map entries are updated in place (deterministic shapes)
func arrayMapSweep(sum *vh.Summary) {
	type pt struct{ X, Y int }
	for _, format := range vh.Formats {
		for _, mvr := range []bool{false, true} {
			h := vh.NewHandle(format, vh.Opts{"MapValueReset": mvr})
			cj := map[string]interface{}{"format": format, "MapValueReset": mvr}
			var bs []byte
			codec.NewEncoderBytes(&bs, h).Encode(map[string]interface{}{"a": []int{9}, "n": []int{7}})
			m := map[string][3]int{"a": {1, 2, 3}, "z": {4, 5, 6}}
			want := map[string][3]int{"a": {9, 2, 3}, "z": {4, 5, 6}, "n": {7, 0, 0}}
			if mvr {
				want["a"] = [3]int{9, 0, 0}
			}
			for pass := 0; pass < 2; pass++ { // decode twice
				if err := codec.NewDecoderBytes(bs, h).Decode(&m); err != nil || !reflect.DeepEqual(m, want) {
					cj["got"], cj["pass"] = fmt.Sprint(m), pass
					sum.FailC("merge", "keep:array-valued-map-entry", "a shorter stream array into an array-valued map entry does not leave the rest of the entry untouched", cj)
				}
			}
			bs = nil
			codec.NewEncoderBytes(&bs, h).Encode(map[string]interface{}{"a": []interface{}{map[string]int{"Y": 8}}})
			m2 := map[string][2]pt{"a": {{1, 2}, {3, 4}}}
			want2 := map[string][2]pt{"a": {{1, 8}, {3, 4}}}
			if mvr {
				want2["a"] = [2]pt{{0, 8}, {}}
			}
			for pass := 0; pass < 2; pass++ {
				if err := codec.NewDecoderBytes(bs, h).Decode(&m2); err != nil || !reflect.DeepEqual(m2, want2) {
					cj["got"], cj["pass"] = fmt.Sprint(m2), pass
					sum.FailC("merge", "keep:array-of-structs-map-entry", "a partial element of an array-valued map entry does not leave the rest untouched", cj)
				}
			}
			// a pre-populated slice that has to GROW (stream longer than its capacity): the existing
			// elements are carried over and merged into
			if !mvr {
				bs = nil
				codec.NewEncoderBytes(&bs, h).Encode([]interface{}{map[string]int{"X": 9}, map[string]int{"Y": 8}, map[string]int{"X": 7}})
				s1 := make([]pt, 2, 2)
				s1[0], s1[1] = pt{1, 2}, pt{3, 4}
				p0, p1 := &pt{1, 2}, &pt{3, 4}
				s2 := make([]*pt, 2, 2)
				s2[0], s2[1] = p0, p1
				s3 := make([]map[string]int, 2, 2)
				s3[0], s3[1] = map[string]int{"X": 1, "k": 5}, map[string]int{"Y": 2}
				e1 := codec.NewDecoderBytes(bs, h).Decode(&s1)
				e2 := codec.NewDecoderBytes(bs, h).Decode(&s2)
				e3 := codec.NewDecoderBytes(bs, h).Decode(&s3)
				ok := e1 == nil && e2 == nil && e3 == nil &&
					reflect.DeepEqual(s1, []pt{{9, 2}, {3, 8}, {7, 0}}) &&
					len(s2) == 3 && *s2[0] == (pt{9, 2}) && *s2[1] == (pt{3, 8}) && *s2[2] == (pt{7, 0}) &&
					reflect.DeepEqual(s3, []map[string]int{{"X": 9, "k": 5}, {"Y": 8}, {"X": 7}})
				if !ok {
					cj["got"] = fmt.Sprint(s1, s3)
					sum.FailC("merge", "keep:growing-slice-elements", "growing a pre-populated slice on decode does not carry the existing elements over", cj)
				}
			}
			sum.Count("merge.arraymap."+format, fmt.Sprintf("arraymap/%s/%v", format, mvr))
		}
	}
}

func main() {
	n := flag.Int("n", 1500, "cases")
	cases := flag.String("cases", "/verif/build/c19/cases", "directory for the model case files")
	flag.Parse()
	fast := codec.VerifC19HasFastpath()
	build := "fastpath"
	if !fast {
		build = "notfastpath"
	}
	r := vh.NewRng(vh.SeedFromEnv())
	sum := vh.NewSummary("random type (int, string, pointer, slice, string-keyed map, struct, interface{}; depth <= 3) x pre-populated destination (nil / shorter / longer slices, allocated pointers, interfaces holding an int64 or a string, maps with extra entries) x stream (value, partial map, prefix array, unknown key, nil at every position with probability 1/5, occasionally ill-typed) x 4 options x 5 formats; distinct by (format, path, type shape, options, has-nil, outcome)")
	cv := vh.NewCases(*cases, casesHeader, "case", "mismatches", 60)
	for i := 0; i < *n; i++ {
		t := randType(r, r.Intn(4))
		format := vh.Formats[r.Intn(len(vh.Formats))]
		o := vh.Opts{"MapValueReset": r.Chance(1, 3), "SliceElementReset": r.Chance(1, 3), "InterfaceReset": r.Chance(1, 3), "DeleteOnNilMapValue": r.Chance(1, 4), "SignedInteger": true, "WriteExt": true, "RawToString": true}
		h := vh.NewHandle(format, o)
		vr := r.Fork()
		st := *vr
		d0 := reflect.New(t).Elem()
		fill(vr, d0, 0)
		st2 := st
		d1 := reflect.New(t).Elem()
		fill(&st2, d1, 0)
		it := randItem(r, t, d0, 5)
		var bs []byte
		if err := codec.NewEncoderBytes(&bs, h).Encode(it.generic()); err != nil {
			continue
		}
		before := coqVal(d0)
		// the bytes come from a []byte or through an io.Reader (buffered or not)
		src := r.Intn(3)
		newDec := func() *codec.Decoder {
			if src == 0 {
				return codec.NewDecoderBytes(bs, h)
			}
			return codec.NewDecoder(plainReader{bytes.NewReader(bs)}, h)
		}
		if src == 2 {
			o["ReaderBufferSize"] = 16
			h = vh.NewHandle(format, o)
		}
		err1 := newDec().Decode(d0.Addr().Interface())
		obs := "None"
		twice := "None"
		idemOK := true
		if err1 == nil {
			obs = "(Some " + coqVal(d0) + ")"
			snap := deepCopy(d0)
			if err2 := newDec().Decode(d0.Addr().Interface()); err2 == nil {
				twice = "(Some " + coqVal(d0) + ")"
				idemOK = vh.DeepEq(snap, d0, vh.EqOpts{})
			} else {
				idemOK = false
			}
			d0 = snap
		}
		ctx := &mergeCtx{mapReset: o["MapValueReset"].(bool), sliceReset: o["SliceElementReset"].(bool), ifaceReset: o["InterfaceReset"].(bool)}
		merge(ctx, d1, it)
		if ctx.err {
			continue // ill-typed stream for this destination: whether a driver is lenient (json and cbor read numbers into strings) is C01/C07 business
		}
		cj := map[string]interface{}{"format": format, "type": t.String(), "opts": o.String(), "stream": vh.Hex(bs), "item": it.coq(), "before": before, "build": build, "source": []string{"bytes", "io.Reader", "io.Reader+buffer"}[src], "seed_index": i}
		switch {
		case ctx.err != (err1 != nil):
			cls := "merge:error-differs"
			if ctx.ifaceElemKept && fast {
				cls = "paths:fastpath-ignores-SliceElementReset:[]interface{}"
			}
			cj["spec_err"], cj["impl_err"] = ctx.err, err1 != nil
			sum.FailC("merge", cls, "Decode and the documented merge do not fail alike", cj)
		case err1 == nil && !vh.DeepEq(d0, d1, vh.EqOpts{}):
			cls := "merge:other"
			switch {
			case ctx.nilIntoNonNilPtrField:
				cls = "nil:struct-field-holding-non-nil-pointer"
			case ctx.ifaceElemKept && fast:
				cls = "paths:fastpath-ignores-SliceElementReset:[]interface{}"
			}
			cj["got"], cj["want"] = coqVal(d0), coqVal(d1)
			sum.FailC("merge", cls, "destination after Decode differs from the documented merge (nil = zero, absent = untouched)", cj)
		}
		if err1 == nil && !idemOK {
			sum.FailC("idem", "idem", "decoding the same bytes a second time changed the destination", cj)
		}
		if hasArray(t) {
			// Go arrays are outside the Coq universe: merge and idempotence oracles only
			sum.Count("merge.array", fmt.Sprintf("array/%s/%s/nil%v/err%v", format, t.Kind(), it.hasNil(), err1 != nil))
			continue
		}
		if ctx.ifaceElemKept && fast {
			// F19-2 situation: the element's previous dynamic type meets a stream value of another type; what
			// happens then is driver leniency (json/cbor read numbers into strings), not modelled
			sum.Count("merge."+pathClass(t, fast), "")
			continue
		}
		cv.Add(fmt.Sprintf("mkcase %d %s (mkDopts %s %s %s %s) %s %s %s %s %s", i, vh.CoqBool(fast), vh.CoqBool(ctx.mapReset), vh.CoqBool(ctx.sliceReset), vh.CoqBool(ctx.ifaceReset), vh.CoqBool(o["DeleteOnNilMapValue"].(bool)),
			coqType(t), before, it.coq(), obs, twice))
		sum.ModelCases++
		key := fmt.Sprintf("%s/%s/%s/d%d/%v%v%v/nil%v/err%v", format, pathClass(t, fast), t.Kind(), vh.TypeDepth(t), ctx.mapReset, ctx.sliceReset, ctx.ifaceReset, it.hasNil(), err1 != nil)
		sum.Count("merge."+pathClass(t, fast), key)
		sum.Dist["kind."+t.Kind().String()]++
		if it.hasNil() {
			sum.Dist["stream.has-nil"]++
		}
		if i < 3 {
			sum.Sample(cj)
		}
	}
	cv.Close()
	bytesStream(r.Fork(), *n/4, sum)
	namedBytesStream(sum)
	arrayMapSweep(sum)
	sum.Print()
}

// c08: correspondence and property oracle for C08 (canonical encoding is a pure
// function of the value).
//
// Stream "maps": maps of every key kind built by inserting the same entries in
// random permutations, encoded with Canonical on fresh Encoders, repeatedly, on
// several goroutines, to []byte and to an io.Writer, fast-path and reflection
// (named) key types, five formats x random options: every output must be the
// same byte string.  Values are unique sentinels, so the order in which the
// entries were emitted is read off the output and compared, in Coq, with the
// model's sort of the same keys (C08.Corr).  Decode(canonical) must equal
// Decode(non-canonical).
// Stream "struct": a struct with MissingFielder whose extra fields come from a
// map rebuilt in random order.  Stream "nested": maps at several depths.
// Stream "hist" (hist.go): ordered pairs and triples of struct shapes on ONE Encoder.
package main

import (
	"bytes"
	"encoding/json"
	"flag"
	"fmt"
	"math"
	"os"
	"os/exec"
	"reflect"
	"sort"
	"strings"
	"sync"
	"time"

	"verifharness/vh"

	"github.com/ugorji/go/codec"
)

type KStr string
type KInt int
type KU16 uint16
type KF64 float64
type SK struct {
	A int8
	B string
}
type MSS map[string]string

// named scalar-kind key types with custom codecs: ordered by kind value, written through their hook
type TK int

func (x TK) MarshalText() ([]byte, error) { return []byte(fmt.Sprintf("tk%d", int(x))), nil }
func (x *TK) UnmarshalText(b []byte) error {
	var v int
	if _, err := fmt.Sscanf(string(b), "tk%d", &v); err != nil {
		return fmt.Errorf("TK.UnmarshalText: not a TK text form: %q", b)
	}
	*x = TK(v)
	return nil
}

type BK string

func (x BK) MarshalBinary() ([]byte, error) { return []byte("bk:" + string(x)), nil }
func (x *BK) UnmarshalBinary(b []byte) error {
	if !strings.HasPrefix(string(b), "bk:") {
		return fmt.Errorf("BK.UnmarshalBinary: not a BK binary form: %q", b)
	}
	*x = BK(string(b[3:]))
	return nil
}

type SFK int16

func (x SFK) CodecEncodeSelf(e *codec.Encoder) { e.MustEncode(fmt.Sprintf("sfk%d", int(x))) }
func (x *SFK) CodecDecodeSelf(d *codec.Decoder) {
	var s string
	d.MustDecode(&s)
	var v int
	if _, err := fmt.Sscanf(s, "sfk%d", &v); err != nil {
		panic(fmt.Errorf("SFK.CodecDecodeSelf: not an SFK form: %q", s))
	}
	*x = SFK(v)
}

var strT = reflect.TypeOf("")

func sentinel(i int) string { return fmt.Sprintf("#v%03d#", i) }

// ---- key kinds ----

type keyKind struct {
	name string
	kk   string // Coq kkind
	typ  reflect.Type
	gen  func(r *vh.Rng) reflect.Value
	mapT reflect.Type // nil: MapOf(typ, string)
}

var alphabet = []string{"a", "b", "ab", "", "z", "\x00", "A", "é", "€", "~", "aa", "0", "10", "9", "-1", "\x7f"}

func randKeyString(r *vh.Rng) string {
	n := r.Intn(4)
	var sb strings.Builder
	for i := 0; i < n; i++ {
		sb.WriteString(alphabet[r.Intn(len(alphabet))])
	}
	return sb.String()
}

func randInt64(r *vh.Rng, bits int) int64 {
	switch r.Intn(4) {
	case 0:
		return int64(r.Intn(40)) - 20
	case 1:
		v := int64(1) << uint(r.Intn(bits-1))
		c := []int64{v - 1, v, -v, -v + 1, v + 1}
		return c[r.Intn(len(c))]
	}
	v := int64(r.U64())
	if bits < 64 {
		v >>= uint(64 - bits)
	}
	return v
}

var floatPool = []float64{0, 1, -1, 0.5, -0.5, math.Inf(1), math.Inf(-1), math.MaxFloat64, -math.MaxFloat64, math.SmallestNonzeroFloat64,
	-math.SmallestNonzeroFloat64, 1e10, -1e10, 3.25, 100, 1 << 53, -(1 << 53), 1e-300, 2, 10, 9}

var zones = []*time.Location{time.UTC, time.FixedZone("E5", 5*3600), time.FixedZone("W3", -3*3600)}

func kinds() []keyKind {
	mk := func(name, kk string, t reflect.Type, g func(r *vh.Rng) interface{}) keyKind {
		return keyKind{name: name, kk: kk, typ: t, gen: func(r *vh.Rng) reflect.Value {
			return reflect.ValueOf(g(r)).Convert(t)
		}}
	}
	ifaceT := reflect.TypeOf((*interface{})(nil)).Elem()
	ks := []keyKind{
		mk("string", "KKString", strT, func(r *vh.Rng) interface{} { return randKeyString(r) }),
		mk("KStr", "KKString", reflect.TypeOf(KStr("")), func(r *vh.Rng) interface{} { return randKeyString(r) }),
		mk("int", "KKInt", reflect.TypeOf(int(0)), func(r *vh.Rng) interface{} { return randInt64(r, 64) }),
		mk("int8", "KKInt", reflect.TypeOf(int8(0)), func(r *vh.Rng) interface{} { return randInt64(r, 8) }),
		mk("int16", "KKInt", reflect.TypeOf(int16(0)), func(r *vh.Rng) interface{} { return randInt64(r, 16) }),
		mk("int32", "KKInt", reflect.TypeOf(int32(0)), func(r *vh.Rng) interface{} { return randInt64(r, 32) }),
		mk("int64", "KKInt", reflect.TypeOf(int64(0)), func(r *vh.Rng) interface{} { return randInt64(r, 64) }),
		mk("KInt", "KKInt", reflect.TypeOf(KInt(0)), func(r *vh.Rng) interface{} { return randInt64(r, 64) }),
		mk("uint", "KKUint", reflect.TypeOf(uint(0)), func(r *vh.Rng) interface{} { return uint64(randInt64(r, 64)) }),
		mk("uint8", "KKUint", reflect.TypeOf(uint8(0)), func(r *vh.Rng) interface{} { return uint64(r.Intn(256)) }),
		mk("uint16", "KKUint", reflect.TypeOf(uint16(0)), func(r *vh.Rng) interface{} { return uint64(r.Intn(65536)) }),
		mk("KU16", "KKUint", reflect.TypeOf(KU16(0)), func(r *vh.Rng) interface{} { return uint64(r.Intn(65536)) }),
		mk("uint32", "KKUint", reflect.TypeOf(uint32(0)), func(r *vh.Rng) interface{} { return uint64(uint32(r.U64())) }),
		mk("uint64", "KKUint", reflect.TypeOf(uint64(0)), func(r *vh.Rng) interface{} { return uint64(randInt64(r, 64)) }),
		mk("uintptr", "KKUint", reflect.TypeOf(uintptr(0)), func(r *vh.Rng) interface{} { return uint64(randInt64(r, 64)) }),
		mk("float64", "KKFloat", reflect.TypeOf(float64(0)), func(r *vh.Rng) interface{} {
			if r.Bool() {
				return floatPool[r.Intn(len(floatPool))]
			}
			return math.Float64frombits(r.U64()&^(0x7ff<<52) | uint64(r.Intn(2046)+1)<<52)
		}),
		mk("KF64", "KKFloat", reflect.TypeOf(KF64(0)), func(r *vh.Rng) interface{} { return floatPool[r.Intn(len(floatPool))] }),
		mk("float32", "KKFloat", reflect.TypeOf(float32(0)), func(r *vh.Rng) interface{} {
			if r.Bool() {
				return float64(float32(floatPool[r.Intn(len(floatPool))]))
			}
			return float64(math.Float32frombits(uint32(r.U64())&^(0xff<<23) | uint32(r.Intn(254)+1)<<23))
		}),
		mk("TK-text-hook", "KKInt", reflect.TypeOf(TK(0)), func(r *vh.Rng) interface{} { return randInt64(r, 32) }),
		mk("BK-binary-hook", "KKString", reflect.TypeOf(BK("")), func(r *vh.Rng) interface{} { return randKeyString(r) }),
		mk("SFK-selfer-hook", "KKInt", reflect.TypeOf(SFK(0)), func(r *vh.Rng) interface{} { return randInt64(r, 16) }),
		mk("float64-nan", "KKFloat", reflect.TypeOf(float64(0)), func(r *vh.Rng) interface{} { return floatPool[r.Intn(len(floatPool))] }),
		mk("float32-nan", "KKFloat", reflect.TypeOf(float32(0)), func(r *vh.Rng) interface{} { return float64(float32(floatPool[r.Intn(len(floatPool))])) }),
		mk("bool", "KKBool", reflect.TypeOf(false), func(r *vh.Rng) interface{} { return r.Bool() }),
		{name: "time", kk: "KKTime", typ: reflect.TypeOf(time.Time{}), gen: func(r *vh.Rng) reflect.Value {
			return reflect.ValueOf(time.Unix(int64(r.Intn(4000000000))-1000000000, int64(r.PickInt(0, 0, 1, 999999999, r.Intn(1000000000)))).UTC())
		}},
		{name: "time-subsec", kk: "KKTime", typ: reflect.TypeOf(time.Time{}), gen: func(r *vh.Rng) reflect.Value {
			// several keys inside the same second (one Location): only the nanoseconds order them
			return reflect.ValueOf(time.Unix(int64(1700000000+r.Intn(2)), int64(r.PickInt(0, 1, 2, 500, 999, 1000, 999999, 1000000, 123456789, 500000000, 999999998, 999999999, r.Intn(1000000000)))).UTC())
		}},
		{name: "time-zones", kk: "KKTime", typ: reflect.TypeOf(time.Time{}), gen: func(r *vh.Rng) reflect.Value {
			// few instants x several locations: distinct map keys that denote the same instant
			return reflect.ValueOf(time.Unix(int64(1700000000+r.Intn(3)), 0).In(zones[r.Intn(len(zones))]))
		}},
		{name: "struct", kk: "KKOob", typ: reflect.TypeOf(SK{}), gen: func(r *vh.Rng) reflect.Value {
			return reflect.ValueOf(SK{int8(r.Intn(7) - 3), randKeyString(r)})
		}},
		{name: "array", kk: "KKOob", typ: reflect.TypeOf([2]int16{}), gen: func(r *vh.Rng) reflect.Value {
			return reflect.ValueOf([2]int16{int16(randInt64(r, 16)), int16(r.Intn(5) - 2)})
		}},
		{name: "iface-safe", kk: "KKOob", typ: ifaceT, gen: func(r *vh.Rng) reflect.Value {
			// dynamic types that never share an encoding: strings (never numeric looking), negative int64, uint64, bool, non-integral float64
			var v interface{}
			switch r.Intn(5) {
			case 0:
				v = "s" + randKeyString(r)
			case 1:
				v = -1 - int64(r.Intn(1<<20))
			case 2:
				v = uint64(r.Intn(1 << 20))
			case 3:
				v = r.Bool()
			default:
				v = float64(r.Intn(1000)) + 0.5
			}
			rv := reflect.New(ifaceT).Elem()
			rv.Set(reflect.ValueOf(v))
			return rv
		}},
		{name: "iface-mixed", kk: "KKOob", typ: ifaceT, gen: func(r *vh.Rng) reflect.Value {
			// small integers under several dynamic types: distinct Go keys, one encoding
			n := r.Intn(3)
			var v interface{}
			switch r.Intn(6) {
			case 0:
				v = int64(n)
			case 1:
				v = uint64(n)
			case 2:
				v = int8(n)
			case 3:
				v = uint8(n)
			case 4:
				v = int(n)
			default:
				v = fmt.Sprint(n)
			}
			rv := reflect.New(ifaceT).Elem()
			rv.Set(reflect.ValueOf(v))
			return rv
		}},
	}
	// interface{} keys mixing composite (array, struct) and scalar dynamic types: the scalars must be encoded in
	// map-key context whatever comes before them (json MapKeyAsString, simple EncZeroValuesAsNil make that visible)
	ks = append(ks, keyKind{name: "iface-composite-mixed", kk: "KKOob", typ: ifaceT, gen: func(r *vh.Rng) reflect.Value {
		var v interface{}
		switch r.Intn(7) {
		case 0:
			v = [2]int16{int16(r.Intn(5) - 2), int16(r.Intn(3))}
		case 1:
			v = SK{int8(r.Intn(5) - 2), "k" + randKeyString(r)}
		case 2, 3:
			v = int64(r.Intn(9) - 4)
		case 4:
			v = r.Bool()
		case 5:
			v = float64(r.Intn(4)) * 0.5
		default:
			v = [2]int16{0, int16(r.Intn(2))}
		}
		rv := reflect.New(ifaceT).Elem()
		rv.Set(reflect.ValueOf(v))
		return rv
	}})
	// named fast-path map type
	ks = append(ks, keyKind{name: "MSS", kk: "KKString", typ: strT, mapT: reflect.TypeOf(MSS{}),
		gen: func(r *vh.Rng) reflect.Value { return reflect.ValueOf(randKeyString(r)) }})
	return ks
}

func isUnsigned(k reflect.Kind) bool {
	switch k {
	case reflect.Uint, reflect.Uint8, reflect.Uint16, reflect.Uint32, reflect.Uint64, reflect.Uintptr:
		return true
	}
	return false
}

func coqKey(kk keyKind, k reflect.Value, h codec.Handle) (term string, sortkey string, err error) {
	switch kk.kk {
	case "KKBool":
		return "KB " + vh.CoqBool(k.Bool()), fmt.Sprint(k.Bool()), nil
	case "KKString":
		return "KS " + vh.CoqBytes([]byte(k.String())), k.String(), nil
	case "KKUint":
		return "KU " + vh.CoqN(k.Uint()), fmt.Sprint(k.Uint()), nil
	case "KKInt":
		return "KI " + vh.CoqZ(k.Int()), fmt.Sprint(k.Int()), nil
	case "KKFloat":
		return "KF " + vh.CoqN(math.Float64bits(k.Float())), fmt.Sprint(k.Float()), nil
	case "KKTime":
		t := k.Interface().(time.Time)
		_, off := t.Zone()
		return fmt.Sprintf("KT %s %s %s", vh.CoqZ(t.Unix()), vh.CoqN(uint64(t.Nanosecond())), vh.CoqZ(int64(off))), fmt.Sprintf("%d.%09d", t.Unix(), t.Nanosecond()), nil
	}
	bs, err := codec.VerifCanonicalKeyBytes(h, k.Interface())
	return "KO " + vh.CoqBytes(bs), string(bs), err
}

// ---- encoding helpers ----

func encBytes(h codec.Handle, v interface{}) ([]byte, error) {
	var out []byte
	err := codec.NewEncoderBytes(&out, h).Encode(v)
	return out, err
}

func encIO(h codec.Handle, v interface{}) ([]byte, error) {
	var buf bytes.Buffer
	err := codec.NewEncoder(&buf, h).Encode(v)
	return buf.Bytes(), err
}

// encIOReuse produces the encoding of build() through io.Writer-backed Encoders with a given WriterBufferSize:
// a fresh one, the same one after each of 1-3 Resets, and twice in a row on one Encoder without Reset (the
// second half is returned). Every returned slice must equal the []byte encoding.
func encIOReuse(format string, o vh.Opts, r *vh.Rng, build func() interface{}) (outs [][]byte, how string, err error) {
	o2 := vh.Opts{}
	for k, v := range o {
		o2[k] = v
	}
	wbs := r.PickInt(0, 16, 64, 1024)
	resets := 1 + r.Intn(3)
	o2["WriterBufferSize"] = wbs
	how = fmt.Sprintf("wbs%d/resets%d", wbs, resets)
	h := vh.NewHandle(format, o2)
	bufs := make([]*bytes.Buffer, 0, resets+2)
	nb := func() *bytes.Buffer { b := new(bytes.Buffer); bufs = append(bufs, b); return b }
	enc := codec.NewEncoder(nb(), h)
	if err = enc.Encode(build()); err != nil {
		return
	}
	for i := 0; i < resets; i++ {
		enc.Reset(nb())
		if err = enc.Encode(build()); err != nil {
			return
		}
	}
	for _, b := range bufs {
		outs = append(outs, b.Bytes())
	}
	// the same value twice on one Encoder
	var two bytes.Buffer
	enc.Reset(&two)
	v := build()
	if err = enc.Encode(v); err != nil {
		return
	}
	n1 := two.Len()
	if err = enc.Encode(v); err != nil {
		return
	}
	outs = append(outs, append([]byte(nil), two.Bytes()[:n1]...))
	if !(format == "binc" && o["AsSymbols"] == 1) {
		// binc symbols: the table lives as long as the Encoder, a second value on the same stream refers to the
		// symbols the first one defined (by design); everywhere else the second copy must be the same bytes
		outs = append(outs, append([]byte(nil), two.Bytes()[n1:]...))
	}
	return
}

// emittedOrder returns the ids of the sentinels in the order they occur in out (each exactly once).
func emittedOrder(out []byte, n int) ([]int, bool) {
	type pi struct{ pos, id int }
	ps := make([]pi, 0, n)
	for i := 0; i < n; i++ {
		s := []byte(sentinel(i))
		p := bytes.Index(out, s)
		if p < 0 || bytes.Index(out[p+1:], s) >= 0 {
			return nil, false
		}
		ps = append(ps, pi{p, i})
	}
	sort.Slice(ps, func(a, b int) bool { return ps[a].pos < ps[b].pos })
	ids := make([]int, n)
	for i, p := range ps {
		ids[i] = p.id
	}
	return ids, true
}

func coqIDs(ids []int) string {
	if len(ids) == 0 {
		return "[]"
	}
	s := make([]string, len(ids))
	for i, x := range ids {
		s[i] = fmt.Sprint(x)
	}
	return "[" + strings.Join(s, ";") + "]%N"
}

// buildMap inserts the entries in the order perm.
func buildMap(mt reflect.Type, keys []reflect.Value, perm []int) reflect.Value {
	m := reflect.MakeMap(mt)
	for _, i := range perm {
		m.SetMapIndex(keys[i], reflect.ValueOf(sentinel(i)))
	}
	return m
}

func randPerm(r *vh.Rng, n int) []int {
	p := make([]int, n)
	for i := range p {
		p[i] = i
	}
	for i := n - 1; i > 0; i-- {
		j := r.Intn(i + 1)
		p[i], p[j] = p[j], p[i]
	}
	return p
}

// ---- maps stream ----

func mapsStream(r *vh.Rng, n, reps int, cv *vh.Cases, sum *vh.Summary, idBase int) int {
	ks := kinds()
	id := idBase
	for it := 0; it < n; it++ {
		kk := ks[it%len(ks)]
		format := vh.Formats[r.Intn(len(vh.Formats))]
		o := vh.RandEncOpts(r, format)
		o["Canonical"] = true
		delete(o, "IndefiniteLength") // chunks strings: the sentinels would not be contiguous
		delete(o, "StringToRaw")      // json: base64
		if kk.name == "iface-composite-mixed" {
			switch format {
			case "json":
				o["MapKeyAsString"] = true
			case "simple":
				o["EncZeroValuesAsNil"] = true
			}
		}
		h := vh.NewHandle(format, o)
		on := vh.Opts{}
		for k, v := range o {
			on[k] = v
		}
		on["Canonical"] = false
		hn := vh.NewHandle(format, on)
		mt := kk.mapT
		if mt == nil {
			mt = reflect.MapOf(kk.typ, strT)
		}
		// distinct keys
		want := r.PickInt(1, 2, 2, 3, 4, 5, 6, 8, 11, 12, 13, 16, 24)
		seen := map[interface{}]bool{}
		var keys []reflect.Value
		hasNaN := strings.HasSuffix(kk.name, "-nan") && format != "json" // json has no NaN
		if hasNaN {
			// ONE NaN key next to ordinary keys: cmp.Compare puts it before everything else
			keys = append(keys, reflect.ValueOf(math.NaN()).Convert(kk.typ))
			if want < 3 {
				want = 3 + r.Intn(6)
			}
		}
		for tries := 0; len(keys) < want && tries < want*6; tries++ {
			k := kk.gen(r)
			ki := k.Interface()
			if f, ok := ki.(float64); ok && f == 0 {
				ki = float64(0)
			}
			if t, ok := ki.(time.Time); ok && format == "cbor" {
				// cbor carries times with microsecond resolution: finer keys collide on the wire
				t = t.Truncate(time.Microsecond)
				k, ki = reflect.ValueOf(t), t
			}
			if k.Kind() == reflect.Float32 || k.Kind() == reflect.Float64 {
				if format == "json" && math.IsInf(k.Float(), 0) {
					continue // json writes +Inf and -Inf as null: not representable, the keys collide on the wire
				}
			}
			if seen[ki] {
				continue
			}
			seen[ki] = true
			keys = append(keys, k)
		}
		nk := len(keys)
		cj := map[string]interface{}{"format": format, "opts": o.String(), "keykind": kk.name, "n": nk, "seed_index": it}
		// the comparator's view of each key, ties
		terms := make([]string, nk)
		bykey := map[string]int{}
		ties := 0
		bad := false
		for i, k := range keys {
			t, sk, err := coqKey(kk, k, h)
			if err != nil {
				bad = true
				break
			}
			terms[i] = fmt.Sprintf("(%s, %d%%N)", t, i)
			bykey[sk]++
			if bykey[sk] == 2 {
				ties++
			}
		}
		if bad {
			sum.Count("maps.key-not-encodable", "")
			continue
		}
		cj["ties"] = ties
		// (since /repo 36f56b8 side encoders never write binc symbols: binc AsSymbols=1 with out-of-band keys is an
		// ordinary case; a difference there is a violation of its own class)
		symAffected := false
		bincSyms := format == "binc" && o["AsSymbols"] == 1 && kk.kk == "KKOob"
		{
			ks := make([]string, nk)
			for i, k := range keys {
				ks[i] = fmt.Sprintf("%T(%v)", k.Interface(), k.Interface())
			}
			cj["keys"] = ks
		}
		tieClass := "none"
		if kk.name == "iface-composite-mixed" {
			tieClass = "none:mixed-composite-scalar-keys:" + format // reported per format (the context option differs)
		}
		if ties > 0 {
			switch kk.kk {
			case "KKOob":
				tieClass = "oob-equal-encodings"
			case "KKTime":
				tieClass = "time-same-instant"
			default:
				tieClass = "natural-tie"
			}
		}
		if ties == 0 && bincSyms {
			tieClass = "none:binc-symbols-oob-keys"
		}
		// all the ways of producing the bytes
		var outs [][]byte
		var first []byte
		fail := func(what string, got []byte) {
			c2 := map[string]interface{}{}
			for k, v := range cj {
				c2[k] = v
			}
			c2["first"] = vh.Hex(first)
			c2["got"] = vh.Hex(got)
			ks := make([]string, nk)
			for i, k := range keys {
				ks[i] = fmt.Sprintf("%T(%v)", k.Interface(), k.Interface())
			}
			c2["keys"] = ks
			sum.FailC("maps", "canonical-nondeterministic:"+tieClass, what, c2)
		}
		encErr := false
		for p := 0; p < 3 && !encErr; p++ {
			m := buildMap(mt, keys, randPerm(r, nk)).Interface()
			for q := 0; q < reps; q++ {
				out, err := encBytes(h, m)
				if err != nil {
					encErr = true
					break
				}
				outs = append(outs, out)
			}
			if out, err := encIO(h, m); err == nil {
				outs = append(outs, out)
			}
			if p == 0 {
				var wg sync.WaitGroup
				gouts := make([][]byte, 4)
				for g := 0; g < 4; g++ {
					wg.Add(1)
					go func(g int) {
						defer wg.Done()
						gouts[g], _ = encBytes(h, m)
					}(g)
				}
				wg.Wait()
				outs = append(outs, gouts...)
			}
		}
		if encErr || len(outs) == 0 {
			sum.Count("maps.encode-error", "")
			continue
		}
		first = outs[0]
		// io.Writer-backed Encoders, fresh and Reset/reused, must write the bytes NewEncoderBytes writes
		// (compared when the order is determined: no ties, no binc symbols)
		if ties == 0 && !symAffected {
			ioOuts, how, err := encIOReuse(format, o, r, func() interface{} { return buildMap(mt, keys, randPerm(r, nk)).Interface() })
			cj["io"] = how
			if err != nil {
				cj["err"] = fmt.Sprint(err)
				sum.FailC("maps", "io-reuse-error:"+kk.kk, "Encode through a Reset io.Writer-backed Encoder failed where NewEncoderBytes succeeds", cj)
			}
			for i, o2 := range ioOuts {
				if !bytes.Equal(o2, first) {
					cj["io_index"], cj["first"], cj["got"] = i, vh.Hex(first), vh.Hex(o2)
					sum.FailC("maps", "io-reuse-differs:"+kk.kk, "a fresh / Reset io.Writer-backed Encoder writes other canonical bytes than NewEncoderBytes", cj)
					delete(cj, "first")
					delete(cj, "got")
					break
				}
			}
			sum.Dist["maps.io."+how]++
		}
		differ := false
		for _, o2 := range outs[1:] {
			if !bytes.Equal(o2, first) {
				differ = true
				fail("Canonical encodings of equal maps differ (insertion order / repetition / goroutine / transport)", o2)
				break
			}
		}
		// emitted order vs model
		if hasNaN {
			// the canonical path fetches each value back with a map lookup, which cannot find a NaN key: the entry's
			// value is replaced by the zero value (F08-4). The order of the other entries is still compared.
			if !bytes.Contains(first, []byte(sentinel(0))) {
				sum.FailC("maps", "nan-key-value-lost:"+kk.name, "Canonical writes the zero value instead of the value stored under a NaN key", cj)
			}
			first = append(append([]byte(nil), first...), []byte(sentinel(0))...) // stand-in so that the rest can be located
			terms = terms[1:]
		}
		order, ok := emittedOrder(first, nk)
		if !ok {
			sum.FailC("maps", "sentinel", "cannot locate every value exactly once in the output", cj)
			continue
		}
		if hasNaN {
			o2 := order[:0:0]
			for _, x := range order {
				if x != 0 {
					o2 = append(o2, x)
				}
			}
			order = o2
		}
		if !symAffected { // the hook encodes each key with a fresh symbol table
			cv.Add(fmt.Sprintf("mkcase %d %s [%s] %s", id, kk.kk, strings.Join(terms, "; "), coqIDs(order)))
			id++
			sum.ModelCases++
		}
		// Decode(canonical) == Decode(non-canonical)
		m0 := buildMap(mt, keys, randPerm(r, nk)).Interface()
		if plain, err := encBytes(hn, m0); err == nil && !hasNaN { // a NaN key cannot be looked up: no map equality
			d1 := reflect.New(mt)
			d2 := reflect.New(mt)
			e1 := codec.NewDecoderBytes(first, h).Decode(d1.Interface())
			e2 := codec.NewDecoderBytes(plain, hn).Decode(d2.Interface())
			switch {
			case (e1 == nil) != (e2 == nil):
				cj["e1"], cj["e2"] = fmt.Sprint(e1), fmt.Sprint(e2)
				sum.FailC("maps", "decode-asym:"+kk.name, "exactly one of Decode(canonical), Decode(non-canonical) fails", cj)
			case e1 == nil && !vh.DeepEq(d1.Elem(), d2.Elem(), vh.EqOpts{}):
				cj["canonical"], cj["plain"] = vh.Hex(first), vh.Hex(plain)
				cls := "decode-differs:" + kk.name
				if ties > 0 || symAffected {
					// keys that share an encoding collapse into one on decode; which value survives follows the order
					cls = "decode-differs:" + tieClass
				}
				sum.FailC("maps", cls, "Decode(canonical) differs from Decode(non-canonical)", cj)
			case e1 == nil && ties == 0 && !vh.DeepEq(d1.Elem(), reflect.ValueOf(m0), vh.EqOpts{}):
				sum.Dist["maps.roundtrip-inexact"]++
			}
			if e1 != nil {
				sum.Dist["maps.decode-error-both"]++
			}
		}
		key := fmt.Sprintf("%s/%s/n%d/ties%d", kk.name, format, nk, ties)
		if nk < 2 {
			key = ""
		}
		sum.Count("maps."+kk.name, key)
		if differ {
			sum.Dist["maps.differ."+tieClass]++
		}
		if nk > 12 {
			sum.Dist["maps.n>12"]++
		}
		if it < 2 {
			sum.Sample(cj)
		}
	}
	return id
}

// ---- struct with missing fields ----

type MF struct {
	Bee string `codec:"bee"`
	Ant string `codec:"ant"`
	Zed string `codec:"zed"`
	Mid string
	m   map[string]interface{}
}

func (x *MF) CodecMissingField(field []byte, value interface{}) bool {
	if x.m == nil {
		x.m = map[string]interface{}{}
	}
	x.m[string(field)] = value
	return true
}
func (x *MF) CodecMissingFields() map[string]interface{} { return x.m }

// MFO: every declared field is omitempty, so 0, 1 or all of them are emitted next to the missing fields
type MFO struct {
	Bee string `codec:"bee,omitempty"`
	Ant string `codec:"ant,omitempty"`
	Zed string `codec:"zed,omitempty"`
	Mid string `codec:",omitempty"`
	m   map[string]interface{}
}

func (x *MFO) CodecMissingField(field []byte, value interface{}) bool {
	if x.m == nil {
		x.m = map[string]interface{}{}
	}
	x.m[string(field)] = value
	return true
}
func (x *MFO) CodecMissingFields() map[string]interface{} { return x.m }

func structStream(r *vh.Rng, n, reps int, cv *vh.Cases, sum *vh.Summary, idBase int) int {
	id := idBase
	fixed := []string{"bee", "ant", "zed", "Mid"}
	for it := 0; it < n; it++ {
		format := vh.Formats[r.Intn(len(vh.Formats))]
		o := vh.RandEncOpts(r, format)
		o["Canonical"] = true
		delete(o, "IndefiniteLength")
		delete(o, "StringToRaw")
		delete(o, "StructToArray")
		h := vh.NewHandle(format, o)
		// which declared fields are present: all (type MF), or a subset incl. none (type MFO, omitempty)
		omit := it%2 == 1
		mask := 15
		if omit {
			mask = r.PickInt(0, 0, 0, 1, 2, 4, 8, 3, 5, 15, r.Intn(16))
		}
		nm := r.PickInt(0, 1, 2, 3, 5, 9, 14)
		if omit && mask == 0 && nm < 2 {
			nm = 2 + r.Intn(12)
		}
		var names []string // names[i] carries sentinel(i)
		seen := map[string]bool{"bee": true, "ant": true, "zed": true, "Mid": true, "": true}
		var fval [4]string
		for i, f := range fixed {
			if mask&(1<<uint(i)) != 0 {
				fval[i] = sentinel(len(names))
				names = append(names, f)
			}
		}
		nfixed := len(names)
		for len(names) < nfixed+nm {
			s := randKeyString(r) + alphabet[r.Intn(len(alphabet))]
			if seen[s] || strings.Contains(s, "#") {
				continue
			}
			seen[s] = true
			names = append(names, s)
		}
		cj := map[string]interface{}{"format": format, "opts": o.String(), "names": names, "seed_index": it, "omitempty": omit, "declared_present": nfixed, "missing": nm}
		build := func() interface{} {
			m := map[string]interface{}{}
			for _, i := range randPerm(r, nm) {
				m[names[nfixed+i]] = sentinel(nfixed + i)
			}
			if omit {
				return &MFO{Bee: fval[0], Ant: fval[1], Zed: fval[2], Mid: fval[3], m: m}
			}
			return &MF{Bee: fval[0], Ant: fval[1], Zed: fval[2], Mid: fval[3], m: m}
		}
		var first []byte
		ok := true
		for q := 0; q < reps+4 && ok; q++ {
			out, err := encBytes(h, build())
			if err != nil {
				ok = false
				break
			}
			if first == nil {
				first = out
			} else if !bytes.Equal(first, out) {
				cj["first"], cj["got"] = vh.Hex(first), vh.Hex(out)
				sum.FailC("struct", "canonical-nondeterministic:struct-missing-fields", "Canonical encodings of equal structs with missing fields differ", cj)
				break
			}
		}
		if !ok {
			sum.Count("struct.encode-error", "")
			continue
		}
		if ioOuts, how, err := encIOReuse(format, o, r, build); err != nil {
			cj["err"] = fmt.Sprint(err)
			sum.FailC("struct", "io-reuse-error:struct", "Encode through a Reset io.Writer-backed Encoder failed where NewEncoderBytes succeeds", cj)
		} else {
			for i, o2 := range ioOuts {
				if !bytes.Equal(o2, first) {
					cj["io"], cj["io_index"], cj["got"] = how, i, vh.Hex(o2)
					sum.FailC("struct", "io-reuse-differs:struct", "a fresh / Reset io.Writer-backed Encoder writes other canonical bytes than NewEncoderBytes", cj)
					break
				}
			}
		}
		order, found := emittedOrder(first, len(names))
		if !found {
			sum.FailC("struct", "sentinel", "cannot locate every field value exactly once in the output", cj)
			continue
		}
		terms := make([]string, len(names))
		for i, s := range names {
			terms[i] = fmt.Sprintf("(KS %s, %d%%N)", vh.CoqBytes([]byte(s)), i)
		}
		cv.Add(fmt.Sprintf("mkcase %d KKString [%s] %s", id, strings.Join(terms, "; "), coqIDs(order)))
		id++
		sum.ModelCases++
		// decodes back to the same fields
		var bf [4]string
		var bm map[string]interface{}
		var derr error
		if omit {
			var back MFO
			derr = codec.NewDecoderBytes(first, h).Decode(&back)
			bf, bm = [4]string{back.Bee, back.Ant, back.Zed, back.Mid}, back.m
		} else {
			var back MF
			derr = codec.NewDecoderBytes(first, h).Decode(&back)
			bf, bm = [4]string{back.Bee, back.Ant, back.Zed, back.Mid}, back.m
		}
		if derr != nil {
			cj["err"] = fmt.Sprint(derr)
			sum.FailC("struct", "decode", "canonical struct with missing fields does not decode", cj)
		} else if bf != fval || len(bm) != nm {
			sum.FailC("struct", "decode-differs", "canonical struct with missing fields decodes to different fields", cj)
		}
		sum.Count("struct."+format, fmt.Sprintf("struct/%s/omit%v/d%d/m%d", format, omit, nfixed, nm))
		if omit && nfixed == 0 {
			sum.Dist["struct.no-declared-field-emitted"]++
		}
	}
	return id
}

// ---- numerically keyed struct with missing fields ----

type MFI struct {
	_struct bool   `codec:",int"`
	A       string `codec:"1"`
	B       string `codec:"5"`
	C       string `codec:"10"`
	m       map[string]interface{}
}

func (x *MFI) CodecMissingField(field []byte, value interface{}) bool {
	if x.m == nil {
		x.m = map[string]interface{}{}
	}
	x.m[string(field)] = value
	return true
}
func (x *MFI) CodecMissingFields() map[string]interface{} { return x.m }

func structIntStream(r *vh.Rng, n, reps int, cv *vh.Cases, sum *vh.Summary, idBase int) int {
	id := idBase
	for it := 0; it < n; it++ {
		format := vh.Formats[it%4] // binary formats: a json object key is a string
		o := vh.RandEncOpts(r, format)
		o["Canonical"] = true
		delete(o, "IndefiniteLength")
		delete(o, "StringToRaw")
		delete(o, "StructToArray")
		h := vh.NewHandle(format, o)
		on := vh.Opts{}
		for k, v := range o {
			on[k] = v
		}
		on["Canonical"] = false
		hn := vh.NewHandle(format, on)
		nm := r.PickInt(1, 1, 2, 3, 5, 9)
		names := []string{"1", "5", "10"}
		seen := map[string]bool{"1": true, "5": true, "10": true}
		for len(names) < 3+nm {
			s := fmt.Sprint(r.PickInt(r.Intn(30), r.Intn(300), 100+r.Intn(3000)))
			if seen[s] {
				continue
			}
			seen[s] = true
			names = append(names, s)
		}
		cj := map[string]interface{}{"format": format, "opts": o.String(), "names": names, "seed_index": it, "keytype": "int"}
		build := func() *MFI {
			m := map[string]interface{}{}
			for _, i := range randPerm(r, nm) {
				m[names[3+i]] = sentinel(3 + i)
			}
			return &MFI{A: sentinel(0), B: sentinel(1), C: sentinel(2), m: m}
		}
		var first []byte
		ok := true
		for q := 0; q < reps+4 && ok; q++ {
			out, err := encBytes(h, build())
			if err != nil {
				cj["err"] = fmt.Sprint(err)
				sum.FailC("structint", "encode-error:int-keyed-struct", "Canonical Encode of an int-keyed struct with missing fields failed", cj)
				ok = false
				break
			}
			if first == nil {
				first = out
			} else if !bytes.Equal(first, out) {
				cj["first"], cj["got"] = vh.Hex(first), vh.Hex(out)
				sum.FailC("structint", "canonical-nondeterministic:int-keyed-struct", "Canonical encodings of equal int-keyed structs with missing fields differ", cj)
				break
			}
		}
		if !ok {
			continue
		}
		if order, found := emittedOrder(first, len(names)); found {
			terms := make([]string, len(names))
			for i, s := range names {
				terms[i] = fmt.Sprintf("(KS %s, %d%%N)", vh.CoqBytes([]byte(s)), i)
			}
			cv.Add(fmt.Sprintf("mkcase %d KKString [%s] %s", id, strings.Join(terms, "; "), coqIDs(order)))
			id++
			sum.ModelCases++
		} else {
			sum.FailC("structint", "sentinel", "cannot locate every field value exactly once in the output", cj)
		}
		// canonical bytes decode like the non-canonical ones, back to the value
		plain, err := encBytes(hn, build())
		var b1, b2 MFI
		e1 := codec.NewDecoderBytes(first, h).Decode(&b1)
		var e2 error = err
		if err == nil {
			e2 = codec.NewDecoderBytes(plain, hn).Decode(&b2)
		}
		switch {
		case e1 != nil || e2 != nil:
			cj["e1"], cj["e2"], cj["canonical"] = fmt.Sprint(e1), fmt.Sprint(e2), vh.Hex(first)
			sum.FailC("structint", "decode:int-keyed-struct", "canonical / non-canonical bytes of an int-keyed struct with missing fields do not decode", cj)
		case b1.A != b2.A || b1.B != b2.B || b1.C != b2.C || len(b1.m) != len(b2.m):
			cj["canonical"], cj["plain"] = vh.Hex(first), vh.Hex(plain)
			sum.FailC("structint", "decode-differs:int-keyed-struct", "Decode(canonical) differs from Decode(non-canonical) for an int-keyed struct with missing fields", cj)
		case b1.A != sentinel(0) || b1.B != sentinel(1) || b1.C != sentinel(2) || len(b1.m) != nm:
			cj["canonical"] = vh.Hex(first)
			sum.FailC("structint", "roundtrip:int-keyed-struct", "canonical bytes of an int-keyed struct with missing fields do not decode to the encoded value", cj)
		}
		sum.Count("structint."+format, fmt.Sprintf("structint/%s/m%d", format, nm))
	}
	return id
}

// ---- nested maps ----

type ndesc struct {
	kind string // leaf, mstr, mint, miface, list
	keys []interface{}
	kids []*ndesc
	leaf interface{}
}

func randNested(r *vh.Rng, depth int, ctr *int) *ndesc {
	if depth == 0 || r.Chance(1, 3) {
		*ctr++
		return &ndesc{kind: "leaf", leaf: sentinel(*ctr)}
	}
	d := &ndesc{kind: []string{"mstr", "mint", "miface", "list", "mstr"}[r.Intn(5)]}
	n := 1 + r.Intn(5)
	seen := map[interface{}]bool{}
	for i := 0; i < n; i++ {
		var k interface{}
		switch d.kind {
		case "mstr":
			k = randKeyString(r)
		case "mint":
			k = int(randInt64(r, 16))
		case "miface":
			if r.Bool() {
				k = "s" + randKeyString(r)
			} else {
				k = -1 - int64(r.Intn(100))
			}
		default:
			k = i
		}
		if seen[k] {
			continue
		}
		seen[k] = true
		d.keys = append(d.keys, k)
		d.kids = append(d.kids, randNested(r, depth-1, ctr))
	}
	return d
}

func (d *ndesc) hasIfaceStringKey() bool {
	if d.kind == "miface" {
		for _, k := range d.keys {
			if _, ok := k.(string); ok {
				return true
			}
		}
	}
	for _, k := range d.kids {
		if k.hasIfaceStringKey() {
			return true
		}
	}
	return false
}

func (d *ndesc) build(r *vh.Rng) interface{} {
	switch d.kind {
	case "leaf":
		return d.leaf
	case "list":
		l := make([]interface{}, len(d.kids))
		for i, k := range d.kids {
			l[i] = k.build(r)
		}
		return l
	case "mstr":
		m := map[string]interface{}{}
		for _, i := range randPerm(r, len(d.keys)) {
			m[d.keys[i].(string)] = d.kids[i].build(r)
		}
		return m
	case "mint":
		m := map[int]interface{}{}
		for _, i := range randPerm(r, len(d.keys)) {
			m[d.keys[i].(int)] = d.kids[i].build(r)
		}
		return m
	}
	m := map[interface{}]interface{}{}
	for _, i := range randPerm(r, len(d.keys)) {
		m[d.keys[i]] = d.kids[i].build(r)
	}
	return m
}

func nestedStream(r *vh.Rng, n, reps int, sum *vh.Summary) {
	for it := 0; it < n; it++ {
		format := vh.Formats[r.Intn(len(vh.Formats))]
		o := vh.RandEncOpts(r, format)
		o["Canonical"] = true
		h := vh.NewHandle(format, o)
		ctr := 0
		d := randNested(r, 3, &ctr)
		cls := "canonical-nondeterministic:nested"
		if format == "binc" && o["AsSymbols"] == 1 && d.hasIfaceStringKey() {
			cls = "canonical-nondeterministic:nested:binc-symbols-oob-keys"
		}
		var first []byte
		for q := 0; q < reps+2; q++ {
			var out []byte
			var err error
			if q%3 == 2 {
				out, err = encIO(h, d.build(r))
			} else {
				out, err = encBytes(h, d.build(r))
			}
			if err != nil {
				break
			}
			if first == nil {
				first = out
			} else if !bytes.Equal(first, out) {
				sum.FailC("nested", cls, "Canonical encodings of equal nested maps differ",
					map[string]interface{}{"format": format, "opts": o.String(), "first": vh.Hex(first), "got": vh.Hex(out), "seed_index": it})
				break
			}
		}
		key := fmt.Sprintf("nested/%s/%s/leaves%d", format, d.kind, ctr)
		if ctr < 2 {
			key = ""
		}
		sum.Count("nested."+format, key)
	}
}

// ---- nested maps whose outer and inner keys are long structs (out-of-band keys that outgrow the side buffer) ----

type LK struct {
	Name string
	N    int
}

func nestedStructStream(r *vh.Rng, n, reps int, sum *vh.Summary) {
	for it := 0; it < n; it++ {
		format := vh.Formats[it%len(vh.Formats)]
		o := vh.RandEncOpts(r, format)
		o["Canonical"] = true
		delete(o, "StructToArray")
		h := vh.NewHandle(format, o)
		no, ni := r.PickInt(2, 4, 8, 8, 12), r.PickInt(1, 3, 8, 8, 12)
		pad := strings.Repeat("abcdefgh", r.PickInt(1, 3, 4, 6))
		bytesVals := it%3 == 2 // map[LK][]byte instead of map[LK]map[LK]string
		okeys := make([]LK, no)
		for i := range okeys {
			okeys[i] = LK{fmt.Sprintf("outer-key-%02d-%s", i, pad), i}
		}
		build := func() interface{} {
			if bytesVals {
				m := map[LK][]byte{}
				for _, i := range randPerm(r, no) {
					m[okeys[i]] = []byte(fmt.Sprintf("value-bytes-%02d-%s", i, pad))
				}
				return m
			}
			m := map[LK]map[LK]string{}
			for _, i := range randPerm(r, no) {
				in := map[LK]string{}
				for _, j := range randPerm(r, ni) {
					in[LK{fmt.Sprintf("inner-key-%02d-of-%02d-%s", j, i, pad), j}] = fmt.Sprintf("v%d.%d", i, j)
				}
				m[okeys[i]] = in
			}
			return m
		}
		orig := build()
		cj := map[string]interface{}{"format": format, "opts": o.String(), "outer": no, "inner": ni, "keypad": len(pad), "bytes_values": bytesVals, "seed_index": it}
		var first []byte
		for q := 0; q < reps+5; q++ {
			var out []byte
			var err error
			if q%4 == 3 {
				out, err = encIO(h, build())
			} else {
				out, err = encBytes(h, build())
			}
			if err != nil {
				cj["err"] = fmt.Sprint(err)
				sum.FailC("nstruct", "encode-error:nested-struct-keys", "Canonical Encode of nested maps with struct keys failed", cj)
				break
			}
			if first == nil {
				first = out
			} else if !bytes.Equal(first, out) {
				cj["first"], cj["got"] = vh.Hex(first), vh.Hex(out)
				sum.FailC("nstruct", "canonical-nondeterministic:nested-struct-keys", "Canonical encodings of equal nested maps with struct keys differ", cj)
				break
			}
			if format != "json" { // a json object key cannot be a struct
				got := reflect.New(reflect.TypeOf(orig))
				if err := codec.NewDecoderBytes(out, h).Decode(got.Interface()); err != nil {
					cj["err"] = fmt.Sprint(err)
					sum.FailC("nstruct", "decode:nested-struct-keys", "canonical bytes of nested maps with struct keys do not decode", cj)
					break
				} else if !reflect.DeepEqual(got.Elem().Interface(), orig) {
					sum.FailC("nstruct", "decode-differs:nested-struct-keys", "canonical bytes of nested maps with struct keys decode to a different value", cj)
					break
				}
			}
		}
		if first != nil {
			if ioOuts, how, err := encIOReuse(format, o, r, build); err != nil {
				cj["err"] = fmt.Sprint(err)
				sum.FailC("nstruct", "io-reuse-error:nested-struct-keys", "Encode through a Reset io.Writer-backed Encoder failed where NewEncoderBytes succeeds", cj)
			} else {
				for i, o2 := range ioOuts {
					if !bytes.Equal(o2, first) {
						cj["io"], cj["io_index"], cj["first"], cj["got"] = how, i, vh.Hex(first), vh.Hex(o2)
						sum.FailC("nstruct", "io-reuse-differs:nested-struct-keys", "a fresh / Reset io.Writer-backed Encoder writes other canonical bytes than NewEncoderBytes", cj)
						break
					}
				}
			}
		}
		sum.Count("nstruct."+format, fmt.Sprintf("nstruct/%s/%d/%d/%d/%v", format, no, ni, len(pad), bytesVals))
	}
}

// ---- maps whose ELEMENT size sits at the runtime's direct/indirect storage boundary (128 bytes) ----

type E120 struct{ A [15]uint64 }
type E127 struct{ A [127]byte }
type E128 struct {
	P *int
	A [15]uint64
}
type E128b struct{ A [16]uint64 }
type E129 struct{ A [129]byte }
type E136 struct {
	P *int
	A [16]uint64
}

func fillElem(v reflect.Value, seed int) {
	switch v.Kind() {
	case reflect.Struct:
		for i := 0; i < v.NumField(); i++ {
			fillElem(v.Field(i), seed+i)
		}
	case reflect.Array:
		for i := 0; i < v.Len(); i++ {
			fillElem(v.Index(i), seed*31+i)
		}
	case reflect.Uint64:
		v.SetUint(uint64(seed)*0x9E3779B97F4A7C15 + 1)
	case reflect.Uint8:
		v.SetUint(uint64(seed%251 + 1))
	case reflect.Ptr:
		x := seed + 1000
		v.Set(reflect.ValueOf(&x))
	}
}

// bigReporter receives what the bigelem stream observes (the stream runs in a child process: a wrong
// direct/indirect decision makes the runtime dereference element bytes, a fatal fault that cannot be recovered)
type bigReporter interface {
	Begin(cj map[string]interface{})
	FailC(stream, class, what string, cj map[string]interface{})
	Count(bucket, key string)
}

type bigLine struct {
	T      string                 `json:"t"`
	Class  string                 `json:"class,omitempty"`
	What   string                 `json:"what,omitempty"`
	Bucket string                 `json:"bucket,omitempty"`
	Key    string                 `json:"key,omitempty"`
	Cj     map[string]interface{} `json:"cj,omitempty"`
}

type bigPrinter struct{ w *json.Encoder }

func (p bigPrinter) Begin(cj map[string]interface{}) { p.w.Encode(bigLine{T: "begin", Cj: cj}) }
func (p bigPrinter) FailC(_, class, what string, cj map[string]interface{}) {
	p.w.Encode(bigLine{T: "fail", Class: class, What: what, Cj: cj})
}
func (p bigPrinter) Count(bucket, key string) {
	p.w.Encode(bigLine{T: "count", Bucket: bucket, Key: key})
}

// bigElemParent runs the stream in a child process and folds its report into sum.
func bigElemParent(rounds int, sum *vh.Summary) {
	cmd := exec.Command(os.Args[0], "-bigelem-child", fmt.Sprint(rounds))
	var so, se bytes.Buffer
	cmd.Stdout, cmd.Stderr = &so, &se
	err := cmd.Run()
	var last map[string]interface{}
	for _, l := range strings.Split(so.String(), "\n") {
		var bl bigLine
		if json.Unmarshal([]byte(l), &bl) != nil {
			continue
		}
		switch bl.T {
		case "begin":
			last = bl.Cj
		case "fail":
			sum.FailC("bigelem", bl.Class, bl.What, bl.Cj)
		case "count":
			sum.Count(bl.Bucket, bl.Key)
		}
	}
	if err != nil {
		if last == nil {
			last = map[string]interface{}{}
		}
		st := se.String()
		if len(st) > 300 {
			st = st[:300]
		}
		last["stderr"] = st
		sum.FailC("bigelem", fmt.Sprintf("crash:elemsize%v", last["elemsize"]), "Encode / Decode of a map with large elements crashed the process (fatal fault)", last)
	}
}

func bigElemStream(r *vh.Rng, rounds int, sum bigReporter) {
	elems := []reflect.Type{reflect.TypeOf(E120{}), reflect.TypeOf(E127{}), reflect.TypeOf(E128{}), reflect.TypeOf(E128b{}), reflect.TypeOf(E129{}), reflect.TypeOf(E136{})}
	keys := []reflect.Type{reflect.TypeOf(int(0)), reflect.TypeOf(""), reflect.TypeOf(uint32(0)), reflect.TypeOf(int64(0)), reflect.TypeOf(KInt(0))}
	for round := 0; round < rounds; round++ {
		for _, format := range vh.Formats {
			for _, et := range elems {
				for _, kt := range keys {
					o := vh.Opts{"Canonical": true}
					if round > 0 {
						o = vh.RandEncOpts(r, format)
						o["Canonical"] = true
						delete(o, "StringToRaw") // strings written as bytes do not come back as the same strings
					}
					h := vh.NewHandle(format, o)
					on := vh.Opts{}
					for k, v := range o {
						on[k] = v
					}
					on["Canonical"] = false
					hn := vh.NewHandle(format, on)
					mt := reflect.MapOf(kt, et)
					n := 1 + (round+int(et.Size()))%5
					build := func() reflect.Value {
						m := reflect.MakeMap(mt)
						for _, i := range randPerm(r, n) {
							k := reflect.New(kt).Elem()
							if kt.Kind() == reflect.String {
								k.SetString(fmt.Sprintf("k%d", i))
							} else if kt.Kind() == reflect.Uint32 {
								k.SetUint(uint64(i * 7))
							} else {
								k.SetInt(int64(i*13 - 20))
							}
							e := reflect.New(et).Elem()
							fillElem(e, i+1)
							m.SetMapIndex(k, e)
						}
						return m
					}
					orig := build()
					cj := map[string]interface{}{"format": format, "opts": o.String(), "key": kt.String(), "elem": et.String(), "elemsize": et.Size(), "n": n}
					sum.Begin(cj)
					canon, e1 := encBytes(h, build().Interface())
					canon2, _ := encBytes(h, build().Interface())
					plain, e2 := encBytes(hn, orig.Interface())
					if e1 != nil || e2 != nil {
						cj["e1"], cj["e2"] = fmt.Sprint(e1), fmt.Sprint(e2)
						sum.FailC("bigelem", fmt.Sprintf("encode-error:elemsize%d", et.Size()), "Encode of a map with a large element type failed", cj)
						continue
					}
					d1, d2 := reflect.New(mt), reflect.New(mt)
					x1 := codec.NewDecoderBytes(canon, h).Decode(d1.Interface())
					x2 := codec.NewDecoderBytes(plain, hn).Decode(d2.Interface())
					cls := fmt.Sprintf("elemsize%d", et.Size())
					switch {
					case !bytes.Equal(canon, canon2):
						sum.FailC("bigelem", "canonical-nondeterministic:"+cls, "Canonical encodings of equal maps with large elements differ", cj)
					case x1 != nil || x2 != nil:
						cj["x1"], cj["x2"] = fmt.Sprint(x1), fmt.Sprint(x2)
						sum.FailC("bigelem", "decode:"+cls, "canonical / plain bytes of a map with large elements do not decode", cj)
					case !reflect.DeepEqual(d1.Elem().Interface(), d2.Elem().Interface()):
						cj["canonical"], cj["plain"] = vh.Hex(canon), vh.Hex(plain)
						sum.FailC("bigelem", "decode-differs:"+cls, "Decode(canonical) differs from Decode(non-canonical) for a map with large elements", cj)
					case !reflect.DeepEqual(d1.Elem().Interface(), orig.Interface()):
						cj["canonical"] = vh.Hex(canon)
						sum.FailC("bigelem", "roundtrip:"+cls, "canonical bytes of a map with large elements do not decode to the encoded value", cj)
					}
					sum.Count("bigelem."+format, fmt.Sprintf("bigelem/%s/%s/%s/%d", format, kt, et, n))
				}
			}
		}
	}
}

// ---- out-of-band keys that themselves contain maps with out-of-band keys (re-entrant side encoding) ----

type OK struct {
	ID   int
	Tags map[[2]int8]string
}

func okSig(k *OK) string {
	ts := make([]string, 0, len(k.Tags))
	for t, v := range k.Tags {
		ts = append(ts, fmt.Sprintf("%d.%d=%s", t[0], t[1], v))
	}
	sort.Strings(ts)
	return fmt.Sprintf("%d{%s}", k.ID, strings.Join(ts, ","))
}

func nestedKeyStream(r *vh.Rng, rounds, reps int, sum *vh.Summary) {
	for round := 0; round < rounds; round++ {
		for _, format := range vh.Formats {
			o := vh.Opts{"Canonical": true}
			if round > 0 {
				o = vh.RandEncOpts(r, format)
				o["Canonical"] = true
				delete(o, "StructToArray")
				delete(o, "StringToRaw")
			}
			h := vh.NewHandle(format, o)
			nk, nt := 2+round%4, 1+(round/2)%4
			build := func() map[*OK]string {
				m := map[*OK]string{}
				for _, i := range randPerm(r, nk) {
					k := &OK{ID: i * 3, Tags: map[[2]int8]string{}}
					for _, j := range randPerm(r, nt) {
						k.Tags[[2]int8{int8(j - 1), int8(i)}] = fmt.Sprintf("tag-%d-%d", i, j)
					}
					m[k] = fmt.Sprintf("value-%d", i)
				}
				return m
			}
			want := map[string]string{}
			for k, v := range build() {
				want[okSig(k)] = v
			}
			cj := map[string]interface{}{"format": format, "opts": o.String(), "keys": nk, "tags": nt}
			var first []byte
			for q := 0; q < reps+3; q++ {
				out, err := encBytes(h, build())
				if err != nil {
					cj["err"] = fmt.Sprint(err)
					sum.FailC("nestedkey", "encode-error:nested-oob-keys", "Canonical Encode of a map whose out-of-band keys contain maps with out-of-band keys failed", cj)
					break
				}
				if first == nil {
					first = out
				} else if !bytes.Equal(first, out) {
					cj["first"], cj["got"] = vh.Hex(first), vh.Hex(out)
					sum.FailC("nestedkey", "canonical-nondeterministic:nested-oob-keys", "Canonical encodings of equal maps whose keys contain maps differ", cj)
					break
				}
				if format == "json" {
					continue // a json object key cannot be a struct
				}
				var back map[*OK]string
				if err := codec.NewDecoderBytes(out, h).Decode(&back); err != nil {
					cj["err"], cj["bytes"] = fmt.Sprint(err), vh.Hex(out)
					sum.FailC("nestedkey", "decode:nested-oob-keys", "canonical bytes of a map whose keys contain maps do not decode", cj)
					break
				}
				got := map[string]string{}
				for k, v := range back {
					got[okSig(k)] = v
				}
				if !reflect.DeepEqual(got, want) {
					cj["bytes"], cj["got"], cj["want"] = vh.Hex(out), fmt.Sprint(got), fmt.Sprint(want)
					sum.FailC("nestedkey", "roundtrip:nested-oob-keys", "canonical bytes of a map whose keys contain maps decode to a different value", cj)
					break
				}
			}
			sum.Count("nestedkey."+format, fmt.Sprintf("nestedkey/%s/%d/%d", format, nk, nt))
		}
	}
}

func main() {
	bigChild := flag.String("bigelem-child", "", "internal: run the bigelem stream (rounds) and print its report as json lines")
	nNStruct := flag.Int("nstruct", 40, "nested maps with long struct keys")
	nMaps := flag.Int("maps", 500, "maps (model-compared)")
	nStruct := flag.Int("structs", 80, "structs with missing fields (model-compared)")
	nNested := flag.Int("nested", 150, "nested values")
	reps := flag.Int("reps", 3, "encodings per built map")
	nHist := flag.Int("hist", 2, "Encoder history stream: 0 off, 1 every ordered pair of the struct-shape corpus, 2 pairs (bytes and io) and triples (alternating transport), 3 pairs and triples on both transports")
	cases := flag.String("cases", "/verif/build/c08/cases", "directory for the model case files")
	flag.Parse()
	if *bigChild != "" {
		rounds := 1
		fmt.Sscanf(*bigChild, "%d", &rounds)
		bigElemStream(vh.NewRng(vh.SeedFromEnv()+7777), rounds, bigPrinter{json.NewEncoder(os.Stdout)})
		return
	}
	r := vh.NewRng(vh.SeedFromEnv())
	sum := vh.NewSummary("maps: 33 key kinds (float64/float32 maps holding one NaN key, interface{} keys mixing arrays/structs with scalars under json MapKeyAsString / simple EncZeroValuesAsNil, named int/string/int16 keys with Text / Binary / Selfer hooks, string, named string, intN, named int, uintN, uintptr, named uint, float32/64, named float, bool, time, time keys inside one second, time in several zones, struct, array, interface{} with distinct / with shared encodings, named fast-path map) x 5 formats x random options x sizes 1..24 x 3 insertion permutations x reps fresh Encoders x 4 goroutines x bytes/io (fresh io Encoder, the same Encoder after 1-3 Resets with WriterBufferSize 0/16/64/1024, twice in a row on one Encoder); distinct by (key kind, format, size, ties). struct: MissingFielder struct (declared fields always present / all omitempty with 0, 1, several or all present) x extra-field sets rebuilt in random order. structint: a struct with integer keys and MissingFielder extras (canonical = non-canonical after Decode). nested: maps/lists to depth 3 rebuilt in random insertion orders. bigelem: map[int|string|uint32|int64|named int]E with sizeof(E) in {120,127,128,129,136} (canonical fetches values by key). nestedkey: map[*K]string whose keys hold a map with array keys (re-entrant out-of-band encoding). nstruct: map[struct]map[struct]string and map[struct][]byte with 20-60 byte keys, up to 12x12, identical bytes across rebuilds and DeepEqual after Decode. hist (seed-independent): 24 struct shapes (simple, omitempty, toarray, int-keyed, MissingFielder with 0..3 extras / value receiver / struct-valued extra, non-simple structs nested 2-3 levels with trailing fields, wide/narrow scratch classes, through pointer / interface / slice / map, maps and slices of them) in every ordered pair and triple on ONE Encoder (successive Encode with and without ResetBytes / Reset, and inside one []interface{} value) x 5 formats x {-, StructToArray} x bytes/io: each value's bytes equal a fresh Encoder's; distinct by (format, options, sequence), sequences of simple structs only are trivial")
	cv := vh.NewCases(*cases, "From Coq Require Import List NArith ZArith.\nFrom Verif Require Import C08.Model C08.Corr.\nImport ListNotations.", "case", "mismatches", 60)
	id := mapsStream(r.Fork(), *nMaps, *reps, cv, sum, 0)
	id = structStream(r.Fork(), *nStruct, *reps, cv, sum, id)
	structIntStream(r.Fork(), *nStruct/3+8, *reps, cv, sum, id)
	nestedStream(r.Fork(), *nNested, *reps, sum)
	nestedStructStream(r.Fork(), *nNStruct, *reps, sum)
	bigElemParent(1+*nNStruct/40, sum)
	nestedKeyStream(r.Fork(), 4+*nNStruct/10, *reps, sum)
	histStream(*nHist, sum)
	cv.Close()
	sum.Print()
}

// Stream "hist" of c08: canonical output must not depend on what the SAME Encoder encoded before.
//
// The other streams compare fresh Encoders (and one Encoder re-encoding the same value). Here a fixed,
// seed-independent corpus of struct shapes (every way a struct reaches the general / the simple struct
// encoder: plain, omitempty, toarray, int-keyed, MissingFielder with 0..3 extra fields, non-simple structs
// nested 2-3 levels with fields that sort after the nested one, scratch lists of both capacity classes, maps
// and slices of such structs) is encoded in EVERY ordered pair and triple on ONE Encoder:
//   - successive Encode calls, to []byte (ResetBytes between them / none) and to an io.Writer (Reset / none),
//   - inside one value ([]interface{}{A, B, C}) on a fresh Encoder,
//
// with Canonical on, five formats, two option vectors. Oracle: each value's bytes equal the bytes a fresh
// Encoder writes for that value alone (inside a slice: the slice of the verbatim fresh encodings, codec.Raw),
// and the fresh canonical bytes decode to what the non-canonical bytes decode to.
package main

import (
	"bytes"
	"fmt"
	"reflect"
	"strings"

	"verifharness/vh"

	"github.com/ugorji/go/codec"
)

type HS struct {
	A int
	B string
	C bool
}

type HOm struct {
	A int
	B string `codec:",omitempty"`
	C int
	D string `codec:"d,omitempty"`
}

type HArr struct {
	_struct bool `codec:",toarray"`
	A       int
	B       string `codec:",omitempty"`
	C       int
}

type HInt struct {
	_struct bool   `codec:",int"`
	A       string `codec:"1"`
	B       int    `codec:"7"`
	C       string `codec:"3"`
}

// HMF: MissingFielder (pointer receiver) with declared fields that sort between / around the extra ones
type HMF struct {
	Name  string
	Count int
	m     map[string]interface{}
}

func (x *HMF) CodecMissingField(field []byte, value interface{}) bool {
	if x.m == nil {
		x.m = map[string]interface{}{}
	}
	x.m[string(field)] = value
	return true
}
func (x *HMF) CodecMissingFields() map[string]interface{} { return x.m }

// HMV: MissingFielder with value receivers (the other flag of the type info)
type HMV struct {
	Kay string
	M   map[string]interface{} `codec:"-"`
}

func (x HMV) CodecMissingField(field []byte, value interface{}) bool {
	x.M[string(field)] = value
	return true
}
func (x HMV) CodecMissingFields() map[string]interface{} { return x.M }

// non-simple structs (one omitempty field sends them through the general struct encoder) nested in each other,
// each with fields that come AFTER the nested struct in declaration and in sorted order
type HIn struct {
	P, Q, R, S int
	Note       string `codec:",omitempty"`
}

type HN2 struct {
	A          int
	In         HIn
	Z1, Z2, Z3 int
	Zn         string `codec:",omitempty"`
}

type HN3 struct {
	H              int
	Mid            HN2
	T1, T2, T3, T4 int
	Tn             string `codec:",omitempty"`
}

// a MissingFielder nested in a non-simple struct, and the other way round (as an extra field's value)
type HNM struct {
	A      int
	M      HMF
	Z1, Z2 int
	Zn     string `codec:",omitempty"`
}

// more than 8 emitted fields: the scratch list comes from the next capacity class
type HWide struct {
	F00, F01, F02, F03, F04, F05, F06, F07, F08, F09 int
	Fn                                               string `codec:",omitempty"`
}

type HNW struct { // narrow outer, wide inner
	A          int
	W          HWide
	Y1, Y2, Y3 int
	Yn         string `codec:",omitempty"`
}

type HWN struct { // wide outer, narrow inner
	A0, A1                                 int
	In                                     HIn
	K0, K1, K2, K3, K4, K5, K6, K7, K8, K9 int
	Kn                                     string `codec:",omitempty"`
}

type HPtr struct { // nested through a pointer and through an interface
	A      int
	P      *HIn
	Q      interface{}
	Z1, Z2 int
	Zn     string `codec:",omitempty"`
}

type HSl struct { // nested through a slice and a map
	A      int
	L      []HIn
	M      map[string]HIn
	Z1, Z2 int
	Zn     string `codec:",omitempty"`
}

type histShape struct {
	name string
	mk   func() interface{} // a fresh, equal value each time (pointer to struct, or map / slice)
}

func hIn(b int) HIn { return HIn{P: b + 1, Q: b + 2, R: b + 3, S: b + 4} }

func hMF(n int) HMF {
	x := HMF{Name: "n", Count: 3}
	names := []string{"Alpha", "Zeta", "Mid"}
	if n > 0 {
		x.m = map[string]interface{}{}
		for i := 0; i < n; i++ {
			x.m[names[i]] = "x" + names[i]
		}
	}
	return x
}

func hN2(b int) HN2 { return HN2{A: b, In: hIn(b + 20), Z1: b + 31, Z2: b + 32, Z3: b + 33} }

func hWide(b int) HWide {
	return HWide{b, b + 1, b + 2, b + 3, b + 4, b + 5, b + 6, b + 7, b + 8, b + 9, ""}
}

func histCorpus() []histShape {
	var c []histShape
	add := func(name string, mk func() interface{}) { c = append(c, histShape{name, mk}) }
	add("simple", func() interface{} { return &HS{7, "seven", true} })
	add("omitempty-some", func() interface{} { return &HOm{A: 1, C: 3, D: "dee"} })
	add("omitempty-all", func() interface{} { return &HOm{A: 1, B: "bee", C: 3, D: "dee"} })
	add("toarray", func() interface{} { return &HArr{A: 4, C: 6} })
	add("intkeys", func() interface{} { return &HInt{A: "one", B: 7, C: "three"} })
	for n := 0; n <= 3; n++ {
		n := n
		add(fmt.Sprintf("missingfielder-%d", n), func() interface{} { x := hMF(n); return &x })
	}
	add("missingfielder-val-2", func() interface{} {
		return &HMV{Kay: "k", M: map[string]interface{}{"Bee": "b", "Zed": "z"}}
	})
	add("missingfielder-struct-extra", func() interface{} {
		x := hMF(1)
		x.m["Inner"] = hIn(60) // an extra field whose value is itself a non-simple struct
		return &x
	})
	add("nested2", func() interface{} { x := hN2(100); return &x })
	add("nested3", func() interface{} {
		return &HN3{H: 200, Mid: hN2(210), T1: 291, T2: 292, T3: 293, T4: 294}
	})
	add("nested-missingfielder", func() interface{} { return &HNM{A: 300, M: hMF(2), Z1: 331, Z2: 332} })
	add("wide", func() interface{} { x := hWide(400); return &x })
	add("nested-narrow-wide", func() interface{} { return &HNW{A: 500, W: hWide(510), Y1: 531, Y2: 532, Y3: 533} })
	add("nested-wide-narrow", func() interface{} {
		return &HWN{A0: 600, A1: 601, In: hIn(610), K0: 620, K1: 621, K2: 622, K3: 623, K4: 624, K5: 625, K6: 626, K7: 627, K8: 628, K9: 629}
	})
	add("nested-ptr-iface", func() interface{} {
		p, q := hIn(710), hIn(720)
		return &HPtr{A: 700, P: &p, Q: &q, Z1: 731, Z2: 732}
	})
	add("nested-slice-map", func() interface{} {
		return &HSl{A: 800, L: []HIn{hIn(810), hIn(820)}, M: map[string]HIn{"k1": hIn(830), "k0": hIn(840)}, Z1: 851, Z2: 852}
	})
	add("map-of-nested2", func() interface{} { return map[string]HN2{"b": hN2(900), "a": hN2(950)} })
	add("map-of-missingfielder", func() interface{} { return map[string]*HMF{"b": ptrMF(1), "a": ptrMF(3), "c": ptrMF(0)} })
	add("slice-of-nested2", func() interface{} { return []HN2{hN2(1000), hN2(1050)} })
	// maps whose canonical order goes through the Encoder's other scratch (out-of-band keys; interface values)
	add("map-struct-keys", func() interface{} {
		return map[SK]HIn{{1, "b"}: hIn(1100), {1, "a"}: hIn(1110), {-1, "z"}: hIn(1120)}
	})
	add("map-iface-values", func() interface{} {
		return map[string]interface{}{"s": hN2(1200), "m": ptrMF(2), "i": int64(-5), "l": []interface{}{hIn(1210), "x"}}
	})
	return c
}

func ptrMF(n int) *HMF { x := hMF(n); return &x }

type histCfg struct {
	format string
	o      vh.Opts
	symtab bool // the format keeps a per-stream symbol table (binc): values that follow others on one stream are written differently by design
}

func histCfgs() []histCfg {
	var cs []histCfg
	for _, f := range vh.Formats {
		for _, sta := range []bool{false, true} {
			o := vh.Opts{"Canonical": true}
			if sta {
				o["StructToArray"] = true
			}
			if f == "binc" {
				o2 := vh.CopyOpts(o, "AsSymbols", 2)
				cs = append(cs, histCfg{f, o2, false})
				if !sta {
					cs = append(cs, histCfg{f, vh.CopyOpts(o, "AsSymbols", 1), true}, histCfg{f, vh.CopyOpts(o), true})
				}
				continue
			}
			cs = append(cs, histCfg{f, o, false})
		}
	}
	return cs
}

// histFresh is what fresh Encoders say about one shape under one configuration.
type histFresh struct {
	ok    bool
	canon []byte
	plain []byte
}

func histDecode(h codec.Handle, b []byte, like interface{}) (reflect.Value, error) {
	t := reflect.TypeOf(like)
	var d reflect.Value
	if t.Kind() == reflect.Ptr {
		d = reflect.New(t.Elem())
	} else {
		d = reflect.New(t)
	}
	if x, ok := d.Interface().(*HMV); ok {
		x.M = map[string]interface{}{} // the value receiver cannot allocate it
	}
	err := codec.NewDecoderBytes(b, h).Decode(d.Interface())
	return d, err
}

func histStream(level int, sum *vh.Summary) {
	if level <= 0 {
		return
	}
	corpus := histCorpus()
	n := len(corpus)
	for _, cfg := range histCfgs() {
		h := vh.NewHandle(cfg.format, cfg.o)
		hraw := vh.NewHandle(cfg.format, vh.CopyOpts(cfg.o, "Raw", true))
		hn := vh.NewHandle(cfg.format, vh.CopyOpts(cfg.o, "Canonical", false))
		base := map[string]interface{}{"format": cfg.format, "opts": cfg.o.String()}
		mkcase := func(kv ...interface{}) map[string]interface{} {
			c := map[string]interface{}{}
			for k, v := range base {
				c[k] = v
			}
			for i := 0; i+1 < len(kv); i += 2 {
				c[kv[i].(string)] = kv[i+1]
			}
			return c
		}
		// fresh Encoders: canonical = canonical (bytes, io, repeated), Decode(canonical) = Decode(plain)
		fresh := make([]histFresh, n)
		for i, s := range corpus {
			canon, e1 := encBytes(h, s.mk())
			plain, e2 := encBytes(hn, s.mk())
			if e1 != nil || e2 != nil {
				if (e1 == nil) != (e2 == nil) {
					sum.FailC("hist", "encode-asym:"+s.name, "exactly one of Encode(canonical), Encode(non-canonical) fails", mkcase("shape", s.name, "e1", fmt.Sprint(e1), "e2", fmt.Sprint(e2)))
				}
				sum.Count("hist.fresh-encode-error", "")
				continue
			}
			fresh[i] = histFresh{true, canon, plain}
			for q := 0; q < 3; q++ {
				var out []byte
				var err error
				if q == 2 {
					out, err = encIO(h, s.mk())
				} else {
					out, err = encBytes(h, s.mk())
				}
				if err != nil || !bytes.Equal(out, canon) {
					sum.FailC("hist", "canonical-nondeterministic:fresh:"+s.name, "Canonical encodings of equal values on fresh Encoders differ",
						mkcase("shape", s.name, "first", vh.Hex(canon), "got", vh.Hex(out), "err", fmt.Sprint(err)))
					break
				}
			}
			d1, x1 := histDecode(h, canon, s.mk())
			d2, x2 := histDecode(hn, plain, s.mk())
			switch {
			case (x1 == nil) != (x2 == nil):
				sum.FailC("hist", "decode-asym:"+s.name, "exactly one of Decode(canonical), Decode(non-canonical) fails",
					mkcase("shape", s.name, "e1", fmt.Sprint(x1), "e2", fmt.Sprint(x2), "canonical", vh.Hex(canon), "plain", vh.Hex(plain)))
			case x1 != nil:
				sum.Dist["hist.decode-error-both"]++
			case !reflect.DeepEqual(d1.Interface(), d2.Interface()):
				sum.FailC("hist", "decode-differs:"+s.name, "Decode(canonical) differs from Decode(non-canonical)",
					mkcase("shape", s.name, "canonical", vh.Hex(canon), "plain", vh.Hex(plain)))
			}
			sum.Count("hist.fresh."+cfg.format, fmt.Sprintf("hist/fresh/%s/%s/%s", cfg.format, cfg.o.String(), s.name))
		}
		// what a value's bytes decode to, when they are not the fresh ones (does the difference change the value?)
		differs := func(i int, got []byte) string {
			d1, x1 := histDecode(h, got, corpus[i].mk())
			d2, x2 := histDecode(hn, fresh[i].plain, corpus[i].mk())
			switch {
			case x1 != nil:
				return "does-not-decode"
			case x2 == nil && !reflect.DeepEqual(d1.Interface(), d2.Interface()):
				return "decodes-to-another-value"
			}
			return "decodes-to-the-value"
		}
		seqName := func(seq []int) string {
			s := make([]string, len(seq))
			for i, x := range seq {
				s[i] = corpus[x].name
			}
			return strings.Join(s, " ; ")
		}
		report := func(mode, transport string, seq []int, at int, got []byte) {
			want := fresh[seq[at]].canon
			sum.FailC("hist", "canonical-history-dependent:"+mode,
				"an Encoder that has encoded other values before writes other canonical bytes for a value than a fresh Encoder",
				mkcase("mode", mode, "transport", transport, "sequence", seqName(seq), "index", at, "shape", corpus[seq[at]].name,
					"want", vh.Hex(want), "got", vh.Hex(got), "got_bytes", differs(seq[at], got)))
		}
		// successive Encode calls on one Encoder
		successive := func(seq []int, transport string, reset bool) {
			mode := "successive-noreset"
			if reset {
				mode = "successive-reset"
			}
			outs := make([][]byte, len(seq))
			var err error
			var at int
			if transport == "bytes" {
				bufs := make([][]byte, len(seq))
				var e *codec.Encoder
				prev := 0
				for i, x := range seq {
					at = i
					switch {
					case i == 0:
						e = codec.NewEncoderBytes(&bufs[0], h)
					case reset:
						e.ResetBytes(&bufs[i])
					}
					if err = e.Encode(corpus[x].mk()); err != nil {
						break
					}
					if reset {
						outs[i] = bufs[i]
					} else { // the stream so far is handed out again: the new value is what was appended
						if len(bufs[0]) < prev {
							prev = len(bufs[0])
						}
						outs[i] = append([]byte(nil), bufs[0][prev:]...)
						prev = len(bufs[0])
					}
				}
			} else {
				bufs := make([]bytes.Buffer, len(seq))
				var e *codec.Encoder
				prev := 0
				for i, x := range seq {
					at = i
					switch {
					case i == 0:
						e = codec.NewEncoder(&bufs[0], h)
					case reset:
						e.Reset(&bufs[i])
					}
					if err = e.Encode(corpus[x].mk()); err != nil {
						break
					}
					if reset {
						outs[i] = bufs[i].Bytes()
					} else {
						outs[i] = append([]byte(nil), bufs[0].Bytes()[prev:]...)
						prev = bufs[0].Len()
					}
				}
			}
			if err != nil {
				sum.FailC("hist", "history-encode-error:"+mode, "Encode fails on an Encoder that has encoded other values before, where a fresh Encoder succeeds",
					mkcase("mode", mode, "transport", transport, "sequence", seqName(seq), "index", at, "err", fmt.Sprint(err)))
				return
			}
			for i, x := range seq {
				if !bytes.Equal(outs[i], fresh[x].canon) {
					report(mode, transport, seq, i, outs[i])
					return
				}
			}
		}
		// one value holding the sequence, on a fresh Encoder
		oneValue := func(seq []int, transport string) {
			vals := make([]interface{}, len(seq))
			raws := make([]interface{}, len(seq))
			for i, x := range seq {
				vals[i] = corpus[x].mk()
				raws[i] = codec.Raw(fresh[x].canon)
			}
			want, e0 := encBytes(hraw, raws)
			var got []byte
			var err error
			if transport == "bytes" {
				got, err = encBytes(h, vals)
			} else {
				got, err = encIO(h, vals)
			}
			if e0 != nil || err != nil {
				sum.FailC("hist", "history-encode-error:one-value", "Encode of a slice of values fails where each value alone succeeds",
					mkcase("mode", "one-value", "transport", transport, "sequence", seqName(seq), "err", fmt.Sprint(err), "err_raw", fmt.Sprint(e0)))
				return
			}
			if bytes.Equal(got, want) {
				return
			}
			// which element: the first one whose fresh bytes are not at their place
			at, off := len(seq)-1, 0
			pfx := bytes.Index(want, fresh[seq[0]].canon)
			if pfx >= 0 {
				off = pfx
				for i, x := range seq {
					f := fresh[x].canon
					if off+len(f) > len(got) || !bytes.Equal(got[off:off+len(f)], f) {
						at = i
						break
					}
					off += len(f)
					if i+1 < len(seq) { // separator bytes (json) between elements
						nx := bytes.Index(want[off:], fresh[seq[i+1]].canon)
						if nx < 0 {
							break
						}
						off += nx
					}
				}
			}
			sum.FailC("hist", "canonical-history-dependent:one-value",
				"inside one value, a struct that follows other structs is written with other canonical bytes than a fresh Encoder writes for it",
				mkcase("mode", "one-value", "transport", transport, "sequence", seqName(seq), "index", at, "shape", corpus[seq[at]].name,
					"want", vh.Hex(want), "got", vh.Hex(got)))
		}
		run := func(seq []int) {
			trivial, par := true, 0
			for _, x := range seq {
				if !fresh[x].ok {
					return
				}
				par += x
				trivial = trivial && corpus[x].name == "simple"
			}
			trs := []string{"bytes", "io"}
			if len(seq) > 2 && level < 3 {
				trs = trs[par%2 : par%2+1] // quick tier: triples alternate between the transports
			}
			for _, tr := range trs {
				successive(seq, tr, true)
				if !cfg.symtab {
					successive(seq, tr, false)
					oneValue(seq, tr)
				}
			}
			key := fmt.Sprintf("hist/%s/%s/%v", cfg.format, cfg.o.String(), seq)
			if trivial { // only structs that use no Encoder scratch
				key = ""
			}
			sum.Count(fmt.Sprintf("hist.len%d.%s", len(seq), cfg.format), key)
		}
		for a := 0; a < n; a++ {
			for b := 0; b < n; b++ {
				run([]int{a, b})
				if level < 2 {
					continue
				}
				for c := 0; c < n; c++ {
					run([]int{a, b, c})
				}
			}
		}
	}
}

// keys.go: two streams added in round 4.
//
//	refuse  number tokens OUTSIDE the JSON grammar that the decoder refuses today
//	        (leading zeros, leading '+', a second '.', a sign inside the mantissa, a
//	        malformed exponent, and the spellings only strconv knows: nan, inf, hex
//	        floats ...) must stay refused into float64 / float32 / interface{}, bare,
//	        inside arrays and maps, as quoted keys of map[float64]T, via bytes and io.
//	        (Bare tokens such as .5 - 1. 1e e5 ARE accepted today by the lenient
//	        readFloat; encoding/json rejects them; they are not valid literals, so
//	        C09 says nothing about them and this stream does not contain them.)
//	keys    map[interface{}]interface{} with string keys drawn from number-LIKE
//	        non-numbers ("-", ".", "e5", "1.", ".5", "1e+", "nan", "inf", "0x10", "+5",
//	        "007", mutated literals) and from real numbers, under MapKeyAsString:
//	        codec -> codec and encoding/json -> codec; a string key that is not a
//	        number of the grammar must come back as that string. Every key also gives
//	        a model case (CKey): came back as a number <-> jsonIsNumberLiteral.
package main

import (
	stdjson "encoding/json"
	"fmt"
	"reflect"
	"regexp"
	"sort"
	"strconv"
	"strings"

	"verifharness/vh"
)

var numberRe = regexp.MustCompile(`^-?(0|[1-9][0-9]*)(\.[0-9]+)?([eE][+-]?[0-9]+)?$`)

// ---------------------------------------------------------------- refuse

var strconvOnly = []string{"nan", "NaN", "NAN", "inf", "Inf", "+Inf", "-inf", "-Infinity", "infinity", "+infinity", "0x1p-2", "0X1P+3", "-0x1.8p1", "0x10", "0x1_0p0", "1_0", "1_000.5",
	"+5", "+0", "+1.5e3", "007", "00", "-00", "01", "-01.5", "007.5", "00e5", "0123456789012345678901", " 1", "1 ", "1e5 "}

// refusedToken draws a token that is not a number of the grammar and that readFloat
// marks bad or strconv rejects on the unchanged tree. class names the shape.
func refusedToken(r *vh.Rng) (tok, class string) {
	lit := func() string {
		for {
			s := genNum(r, 1<<30).text()
			if len(s) <= 40 {
				return s
			}
		}
	}
	switch r.Intn(6) {
	case 0:
		s := lit()
		neg := strings.HasPrefix(s, "-")
		s = strings.TrimPrefix(s, "-")
		s = strings.Repeat("0", 1+r.Intn(3)) + s
		if s[len(s)-1] == '0' && !strings.ContainsAny(s, ".eE") && strings.Trim(s, "0") == "" {
			s += "1" // keep at least two digits so that it is not the literal 0
		}
		if neg {
			s = "-" + s
		}
		return s, "leading-zero"
	case 1:
		return pickStr(r, "+", "+", "-+", "+-") + strings.TrimPrefix(lit(), "-"), "leading-plus"
	case 2:
		s := lit()
		if !strings.Contains(s, ".") {
			s = "1.5"
		}
		k := strings.Index(s, ".")
		return s[:k+1] + pickStr(r, "5.", ".", "2.5") + s[k+1:], "second-dot"
	case 3:
		s := strings.TrimPrefix(lit(), "-")
		if k := strings.IndexAny(s, "eE"); k >= 0 {
			s = s[:k]
		}
		return s + pickStr(r, "+", "-", "+2", "-2"), "sign-in-mantissa"
	case 4:
		s := lit()
		if k := strings.IndexAny(s, "eE"); k >= 0 {
			s = s[:k]
		}
		return s + pickStr(r, "e+-1", "e-+1", "ee5", "e.5", "eE", "E+e", "e5e5", "e1.5", "e+1.5"), "bad-exponent"
	default:
		return strconvOnly[r.Intn(len(strconvOnly))], "strconv-only"
	}
}

func numCharsOnly(s string) bool {
	for i := 0; i < len(s); i++ {
		if !strings.ContainsRune("0123456789.eE+-", rune(s[i])) {
			return false
		}
	}
	return len(s) > 0
}

func refuseStream(r *vh.Rng, n int, sum *vh.Summary) {
	for i := 0; i < n; i++ {
		tok, class := refusedToken(r)
		if i < len(strconvOnly) {
			tok, class = strconvOnly[i], "strconv-only"
		}
		if numberRe.MatchString(tok) || stdjson.Valid([]byte(tok)) {
			continue // the generator slipped: a valid literal is not this stream's business
		}
		o := vh.Opts{}
		if r.Chance(1, 3) {
			o["PreferFloat"] = true
		}
		if r.Chance(1, 4) {
			o["SignedInteger"] = true
		}
		cj := map[string]interface{}{"token": tok, "class": class, "opts": o.String(), "seed_index": i}
		fail := func(dest, ctx string) {
			cj["dest"], cj["context"] = dest, ctx
			sum.FailC("refuse", "refuse:"+class+":"+dest, "a number token outside the JSON grammar, refused on the unchanged tree, is accepted", cj)
		}
		try := func(doc string, ctx string, f64, f32, iv interface{}) {
			for mode := 0; mode < 2; mode++ {
				dec := func(v interface{}) error {
					if mode == 0 {
						_, e := decodeBytes([]byte(doc), o, v)
						return e
					}
					return decodeIO(r, []byte(doc), o, v)
				}
				c := ctx + []string{"/bytes", "/io"}[mode]
				if dec(f64) == nil {
					fail("float64", c)
				}
				if dec(f32) == nil {
					fail("float32", c)
				}
				if iv != nil && dec(iv) == nil {
					fail("interface{}", c)
				}
			}
		}
		// bare tokens, array elements and map values: only what the number scanner takes whole
		if numCharsOnly(tok) {
			var a float64
			var b float32
			var c interface{}
			try(tok, "bare", &a, &b, &c)
			var a1 []float64
			var b1 []float32
			var c1 []interface{}
			try("[1,"+tok+",2]", "array", &a1, &b1, &c1)
			var a2 map[string]float64
			var b2 map[string]float32
			var c2 map[string]interface{}
			try(`{"a":`+tok+`}`, "map-value", &a2, &b2, &c2)
		}
		// quoted, as the key of a float-keyed map (the text goes to parseFloat64/32 as it is)
		if !strings.ContainsAny(tok, "\"\\") {
			var a3 map[float64]int
			var b3 map[float32]int
			try(`{"`+tok+`":1}`, "float-key", &a3, &b3, nil)
		}
		sum.Count("refuse."+class, "refuse/"+tok)
	}
}

// ---------------------------------------------------------------- keys

var numberLike = []string{"-", ".", "e5", "E3", "1.", ".5", "1e", "1e+", "1e-", "-e1", "-.", "-.5", "5.e1", ".e1", "1.e", "nan", "NaN", "inf", "Inf", "-Infinity", "+Inf", "0x10", "0x1p-2", "+5", "+0.5", "007",
	"00", "-01", "01.5", "1_000", "1e5x", "1 ", " 1", "1,5", "--1", "1e1e1", "1.2.3", "e", "E", "+", "0.", "-0.", "0e", "0e+", "1e+-1", "Infinity", "0b1", "0o7", "1f", "1d", "1L"}

var numberTexts = []string{"0", "-0", "1", "-1", "5", "10", "0.5", "-0.5", "1.5e3", "1E3", "1e-2", "1e+2", "0e0", "0.0", "123456789", "18446744073709551615", "-9223372036854775808", "9007199254740993",
	"1e21", "1e-7", "3.14159", "100", "1.0", "2e0"}

func pickStr(r *vh.Rng, xs ...string) string { return xs[r.Intn(len(xs))] }

// a string that looks like a number but is not one of the grammar
func randNumberLike(r *vh.Rng) string {
	if r.Chance(2, 3) {
		return numberLike[r.Intn(len(numberLike))]
	}
	for tries := 0; tries < 20; tries++ {
		b := []byte(numberTexts[r.Intn(len(numberTexts))])
		alphabet := "0123456789.eE+-"
		switch r.Intn(3) {
		case 0:
			b[r.Intn(len(b))] = alphabet[r.Intn(len(alphabet))]
		case 1:
			k := r.Intn(len(b))
			b = append(b[:k], b[k+1:]...)
		default:
			k := r.Intn(len(b) + 1)
			b = append(b[:k], append([]byte{alphabet[r.Intn(len(alphabet))]}, b[k:]...)...)
		}
		if len(b) > 0 && !numberRe.Match(b) {
			return string(b)
		}
	}
	return "1."
}

// tag of a decoded key: strings and numbers are kept apart
func keyTag(k interface{}) string {
	switch v := k.(type) {
	case string:
		return "s:" + v
	case int64:
		return fmt.Sprint("n:", normNumText(strconv.FormatInt(v, 10)))
	case uint64:
		return fmt.Sprint("n:", normNumText(strconv.FormatUint(v, 10)))
	case float64:
		return fmt.Sprint("n:", normNumText(strconv.FormatFloat(v, 'g', -1, 64)))
	case float32:
		return fmt.Sprint("n:", normNumText(strconv.FormatFloat(float64(v), 'g', -1, 32)))
	}
	return fmt.Sprintf("?:%T:%v", k, k)
}

func tagsOf(m map[interface{}]interface{}) []string {
	out := make([]string, 0, len(m))
	for k, v := range m {
		out = append(out, keyTag(k)+"="+fmt.Sprint(normOurs(v)))
	}
	sort.Strings(out)
	return out
}

func keyStream(r *vh.Rng, n int, cv *vh.Cases, sum *vh.Summary, idBase int) {
	id := idBase
	seenKey := map[string]bool{}
	for i := 0; i < n; i++ {
		o := vh.Opts{"MapKeyAsString": true}
		if r.Chance(1, 3) {
			o["PreferFloat"] = true
		}
		if r.Chance(1, 4) {
			o["SignedInteger"] = true
		}
		if r.Chance(1, 3) {
			o["Canonical"] = true
		}
		if r.Chance(1, 4) {
			o["Indent"] = 2
		}
		// ---- the keys
		var strKeys []string
		nLike := 1 + r.Intn(4)
		for k := 0; k < nLike; k++ {
			if i*4+k < len(numberLike) {
				strKeys = append(strKeys, numberLike[i*4+k])
			} else {
				strKeys = append(strKeys, randNumberLike(r))
			}
		}
		for k := r.Intn(3); k > 0; k-- {
			strKeys = append(strKeys, numberTexts[r.Intn(len(numberTexts))])
		}
		var numKeys []interface{}
		for k := r.Intn(3); k > 0; k-- {
			switch r.Intn(3) {
			case 0:
				numKeys = append(numKeys, int64(r.Intn(2000)-1000))
			case 1:
				u := r.U64() >> uint(r.Intn(64))
				if o["SignedInteger"] == true {
					u >>= 1 // SignedInteger reads integers as int64: a uint64 key above MaxInt64 cannot come back as a number (it stays a string)
				}
				numKeys = append(numKeys, u)
			default:
				numKeys = append(numKeys, float64(r.Intn(2000)-1000)+0.5)
			}
		}
		// what each string key must come back as: itself, unless it IS a number of the grammar
		// (then MapKeyAsString reads it as that number, when the number reader takes it)
		wantAll := map[string]string{} // tag -> value text (codec -> codec: string and numeric keys)
		wantStr := map[string]string{} // the part that encoding/json can write (string keys only)
		ours := map[interface{}]interface{}{}
		theirs := map[string]interface{}{}
		val := 0
		for _, k := range strKeys {
			tag := tagOfStringKey(k, o)
			if _, dup := wantAll[tag]; dup {
				continue
			}
			val++
			wantAll[tag], wantStr[tag] = strconv.Itoa(val), strconv.Itoa(val)
			ours[k] = val
			theirs[k] = val
		}
		for _, k := range numKeys {
			tag := keyTag(k)
			if _, dup := wantAll[tag]; dup {
				continue
			}
			val++
			wantAll[tag] = strconv.Itoa(val)
			ours[k] = val
		}
		wantTags := func(onlyStrings bool) []string {
			w := wantAll
			if onlyStrings {
				w = wantStr
			}
			out := []string{}
			for t, v := range w {
				out = append(out, t+"=int:"+v)
			}
			sort.Strings(out)
			return out
		}
		cj := map[string]interface{}{"opts": o.String(), "string_keys": strKeys, "numeric_keys": fmt.Sprint(numKeys), "seed_index": i}
		class := "keys:number-like-string"
		// ---- codec -> codec
		out, err := encodeJSON(ours, o)
		cj["out"] = string(out)
		if err != nil || !stdjson.Valid(out) {
			sum.FailC("keys", class+":encode", "encoding a map[interface{}]interface{} with string keys failed or is not valid JSON", cj)
		} else {
			var back map[interface{}]interface{}
			if _, e := decodeBytes(out, o, &back); e != nil || !reflect.DeepEqual(tagsOf(back), wantTags(false)) {
				cj["got"] = tagsOf(back)
				cj["want"] = wantTags(false)
				sum.FailC("keys", class+":self", "MapKeyAsString: a string key that is not a JSON number did not come back as that string (codec -> codec)", cj)
				delete(cj, "got")
				delete(cj, "want")
			}
			var back2 map[interface{}]interface{}
			if e := decodeIO(r, out, o, &back2); e != nil || !reflect.DeepEqual(tagsOf(back2), tagsOf(back)) {
				sum.FailC("keys", class+":io", "io reader and bytes reader decode the keys differently", cj)
			}
		}
		// ---- encoding/json -> codec
		if sm, e := stdjson.Marshal(theirs); e == nil {
			cj["std_out"] = string(sm)
			var back map[interface{}]interface{}
			if _, e := decodeBytes(sm, o, &back); e != nil || !reflect.DeepEqual(tagsOf(back), wantTags(true)) {
				cj["got"] = tagsOf(back)
				cj["want"] = wantTags(true)
				sum.FailC("keys", class+":reverse", "MapKeyAsString: a string key that is not a JSON number did not come back as that string (encoding/json -> codec)", cj)
				delete(cj, "got")
				delete(cj, "want")
			}
			delete(cj, "std_out")
		}
		// ---- one model case per distinct key
		for _, k := range strKeys {
			if seenKey[k] || strings.ContainsAny(k, "\"\\") {
				continue
			}
			seenKey[k] = true
			var m map[interface{}]interface{}
			_, e := decodeBytes([]byte(`{"`+k+`":0}`), vh.Opts{"MapKeyAsString": true}, &m)
			asNumber := false
			if e == nil {
				for kk := range m {
					_, isStr := kk.(string)
					asNumber = !isStr
				}
			}
			var bare interface{}
			_, be := decodeBytes([]byte(k), vh.Opts{"MapKeyAsString": true}, &bare)
			cv.Add(fmt.Sprintf("CKey %d %s %s %s", id, vh.CoqBytes([]byte(k)), vh.CoqBool(asNumber), vh.CoqBool(be != nil || !numCharsOnly(k))))
			id++
			sum.ModelCases++
		}
		sum.Count("keys", fmt.Sprintf("keys/%s/%v", strings.Join(strKeys, "|"), o.String()))
		if i == 0 {
			sum.Sample(cj)
		}
	}
}

// tagOfStringKey: what a string key comes back as under the options
func tagOfStringKey(k string, o vh.Opts) string {
	if numberRe.MatchString(k) {
		var bare interface{}
		if _, e := decodeBytes([]byte(k), o, &bare); e == nil {
			return keyTag(bare)
		}
	}
	return "s:" + k
}

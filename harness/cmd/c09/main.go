// c09: correspondence and property oracles for C09 (JSON text is read and
// written as the grammar and encoding/json define it).
//
// Streams
//
//	num   number literals generated FROM THE GRAMMAR (long digit runs, boundary
//	      mantissas, exponents to +-400) decoded by the real Decoder (bytes and
//	      io) into float64 / float32 / interface{} versus strconv.ParseFloat;
//	      the same literals through readFloat / parseFloat64 (hook) for the model.
//	raw   arbitrary number-ish bytes through readFloat / parseUint64_simple (model only).
//	fast  (mantissa, exp) pairs through parseFloat64_reader / parseFloat32_reader (model only).
//	str   string literals over every escape shape and surrogate arrangement,
//	      followed by other bytes, decoded by the real Decoder (bytes and io)
//	      versus encoding/json.Unmarshal, and NumBytesRead versus the literal's length.
//	enc   strings (valid and invalid UTF-8, controls, HTML chars, U+2028/9) under
//	      HTMLCharsAsIs on/off: json.Valid, encoding/json round trip; integers
//	      under IntegerAsString; float format/precision choice and round trip.
//	doc   random JSON-representable values (schema-less trees and reflect-built
//	      static types) under option vectors: json.Valid(Encode(v)),
//	      encoding/json.Unmarshal(Encode(v)) == v, Decode(encoding/json.Marshal(v)) == v.
package main

import (
	"bytes"
	stdjson "encoding/json"
	"flag"
	"fmt"
	"io"
	"math"
	"math/big"
	"reflect"
	"regexp"
	"sort"
	"strconv"
	"strings"
	"unicode/utf8"

	"verifharness/vh"

	"github.com/ugorji/go/codec"
)

// ---------------------------------------------------------------- helpers

// chunkReader hands out the input in small pieces (never (0, nil)).
type chunkReader struct {
	b    []byte
	r    *vh.Rng
	size int
}

func (c *chunkReader) Read(p []byte) (int, error) {
	if len(c.b) == 0 {
		return 0, io.EOF
	}
	n := c.size
	if n <= 0 {
		n = 1 + c.r.Intn(7)
	}
	if n > len(p) {
		n = len(p)
	}
	if n > len(c.b) {
		n = len(c.b)
	}
	copy(p, c.b[:n])
	c.b = c.b[n:]
	return n, nil
}

func jsonHandle(o vh.Opts) *codec.JsonHandle { return vh.NewHandle("json", o).(*codec.JsonHandle) }

func decodeBytes(in []byte, o vh.Opts, v interface{}) (n int, err error) {
	d := codec.NewDecoderBytes(in, jsonHandle(o))
	err = d.Decode(v)
	return d.NumBytesRead(), err
}

func decodeIO(r *vh.Rng, in []byte, o vh.Opts, v interface{}) error {
	o2 := vh.Opts{}
	for k, x := range o {
		o2[k] = x
	}
	o2["ReaderBufferSize"] = r.PickInt(0, 0, 1, 16, 64, 4096)
	d := codec.NewDecoder(&chunkReader{b: append([]byte(nil), in...), r: r, size: r.PickInt(0, 0, 1, 3, 4096)}, jsonHandle(o2))
	return d.Decode(v)
}

func coqZu(u uint64) string { return fmt.Sprintf("%d%%Z", u) }
func coqOptZ(ok bool, u uint64) string {
	if !ok {
		return "None"
	}
	return fmt.Sprintf("(Some %d%%Z)", u)
}
func coqDigits(d []byte) string { return vh.CoqBytes(d) }

func coqRf(x codec.VerifReadFloatResult) string {
	return fmt.Sprintf("(mkorf %s %s %s %s %s %s %s)", coqZu(x.Mantissa), vh.CoqZ(int64(x.Exp)), vh.CoqBool(x.Neg),
		vh.CoqBool(x.Trunc), vh.CoqBool(x.Bad), vh.CoqBool(x.Hardexp), vh.CoqBool(x.Ok))
}

const coqHeader = "From Coq Require Import List NArith ZArith.\nFrom Verif Require Import C09.Spec C09.Model C09.Corr.\nImport ListNotations."

// ---------------------------------------------------------------- numbers

type numLit struct {
	neg     bool
	intd    []byte // digit values
	hasFrac bool
	frac    []byte
	hasExp  bool
	esign   int // 0 none, 1 '+', 2 '-'
	expd    []byte
	upper   bool
	class   string
}

func (n *numLit) text() string {
	var sb strings.Builder
	if n.neg {
		sb.WriteByte('-')
	}
	for _, d := range n.intd {
		sb.WriteByte('0' + d)
	}
	if n.hasFrac {
		sb.WriteByte('.')
		for _, d := range n.frac {
			sb.WriteByte('0' + d)
		}
	}
	if n.hasExp {
		if n.upper {
			sb.WriteByte('E')
		} else {
			sb.WriteByte('e')
		}
		switch n.esign {
		case 1:
			sb.WriteByte('+')
		case 2:
			sb.WriteByte('-')
		}
		for _, d := range n.expd {
			sb.WriteByte('0' + d)
		}
	}
	return sb.String()
}

func (n *numLit) coq() string {
	fr := "None"
	if n.hasFrac {
		fr = "(Some " + coqDigits(n.frac) + ")"
	}
	ex := "None"
	if n.hasExp {
		ex = fmt.Sprintf("(Some (%s, %s))", []string{"ENone", "EPlus", "EMinus"}[n.esign], coqDigits(n.expd))
	}
	return fmt.Sprintf("(mknum %s %s %s %s)", vh.CoqBool(n.neg), coqDigits(n.intd), fr, ex)
}

func (n *numLit) isPlainInt() bool { return !n.hasFrac && !n.hasExp }

// parseLit reads a literal of the grammar back into its parts (used for the fixed corpus).
func parseLit(s string, class string) *numLit {
	n := &numLit{class: class}
	i := 0
	if i < len(s) && s[i] == '-' {
		n.neg = true
		i++
	}
	for i < len(s) && s[i] >= '0' && s[i] <= '9' {
		n.intd = append(n.intd, s[i]-'0')
		i++
	}
	if i < len(s) && s[i] == '.' {
		n.hasFrac = true
		i++
		for i < len(s) && s[i] >= '0' && s[i] <= '9' {
			n.frac = append(n.frac, s[i]-'0')
			i++
		}
	}
	if i < len(s) && (s[i] == 'e' || s[i] == 'E') {
		n.hasExp = true
		n.upper = s[i] == 'E'
		i++
		if i < len(s) && s[i] == '+' {
			n.esign = 1
			i++
		} else if i < len(s) && s[i] == '-' {
			n.esign = 2
			i++
		}
		for i < len(s) && s[i] >= '0' && s[i] <= '9' {
			n.expd = append(n.expd, s[i]-'0')
			i++
		}
	}
	if i != len(s) || n.text() != s {
		panic("corpus literal is not in the grammar: " + s)
	}
	return n
}

func digitsOf(s string) []byte {
	out := make([]byte, len(s))
	for i := range s {
		out[i] = s[i] - '0'
	}
	return out
}

func randDigits(r *vh.Rng, n int, firstNonZero bool) []byte {
	out := make([]byte, n)
	for i := range out {
		out[i] = byte(r.Intn(10))
	}
	if firstNonZero && n > 0 && out[0] == 0 {
		out[0] = byte(1 + r.Intn(9))
	}
	return out
}

func zeros(n int) []byte { return make([]byte, n) }

func zeroRun(r *vh.Rng) int {
	switch r.Intn(6) {
	case 0:
		return r.Intn(4)
	case 1:
		return r.PickInt(17, 18, 19, 20, 21, 22, 23, 36, 37, 38)
	case 2:
		return r.PickInt(120, 125, 126, 127, 128, 129, 130, 135)
	case 3:
		return r.PickInt(250, 253, 254, 255, 256, 257, 258, 260, 300)
	default:
		return r.Intn(301)
	}
}

func setExp(r *vh.Rng, n *numLit, e int, pad bool) {
	n.hasExp = true
	n.upper = r.Chance(1, 3)
	if e < 0 {
		n.esign = 2
		e = -e
	} else {
		n.esign = r.PickInt(0, 1)
	}
	s := strconv.Itoa(e)
	if pad && r.Chance(1, 4) {
		s = strings.Repeat("0", 1+r.Intn(2)) + s
	}
	n.expd = digitsOf(s)
}

func randExp(r *vh.Rng) int {
	switch r.Intn(5) {
	case 0:
		return r.Intn(10) - 5
	case 1:
		return r.Intn(80) - 40
	case 2:
		return r.PickInt(-23, -22, -21, 21, 22, 23, 36, 37, 38, 99, 100, -99, -100, 127, 128, -128, -129)
	default:
		return r.Intn(801) - 400
	}
}

var boundaryMantissas = []string{
	"9007199254740991", "9007199254740992", "9007199254740993", "9007199254740994", "9007199254740995",
	"4503599627370495", "4503599627370496", "4503599627370497",
	"18446744073709551615", "18446744073709551616", "18446744073709551617", "18446744073709551614",
	"9223372036854775807", "9223372036854775808", "9223372036854775809",
	"1844674407370955161", "1844674407370955162", "18446744073709551610", "18446744073709551609", "18446744073709551620", "18446744073709551630",
	"8388607", "8388608", "8388609", "16777215", "16777216", "16777217", "16777219",
	"1000000000000000", "1000000000000001", "999999999999999", "10000000", "10000001",
	"17976931348623157", "17976931348623158", "17976931348623159", "179769313486231580793",
	"22250738585072014", "22250738585072011", "49406564584124654", "24703282292062327", "24703282292062328",
	"34028235", "34028236", "340282356779733661637539395458142568448", "34028234663852886", "1401298464324817", "7006492321624085", "70064923216240862",
	"100000005960464477539062500", "1000000059604644775390625", "123456789012345678901234567890123456789",
}

var numCorpus = []string{
	"0." + strings.Repeat("0", 250) + "1", // F09-1
	"0." + strings.Repeat("0", 126) + "1", "0." + strings.Repeat("0", 127) + "1", "0." + strings.Repeat("0", 128) + "1",
	"0." + strings.Repeat("0", 255) + "1", "0." + strings.Repeat("0", 256) + "1",
	"1" + strings.Repeat("0", 126), "1" + strings.Repeat("0", 127), "1" + strings.Repeat("0", 128),
	"1" + strings.Repeat("0", 255) + "0", "1" + strings.Repeat("0", 255) + ".5", "1" + strings.Repeat("0", 255) + "1",
	"1" + strings.Repeat("0", 300), "1" + strings.Repeat("0", 308), "1" + strings.Repeat("0", 309),
	"12" + strings.Repeat("0", 254) + "e-250", "1." + strings.Repeat("0", 255) + "1", "0." + strings.Repeat("0", 300) + "1e300",
	"0", "-0", "0.0", "-0.0", "0e0", "-0e-0", "0E+0", "0.000e99", "0e400", "0e-400", "1", "-1", "10", "1.0", "1.5", "0.1", "0.5", "-0.25",
	"1e5", "1E5", "1e+5", "1E+05", "1e-05", "1e005", "1e-005", "1e22", "1e23", "1e-22", "1e-23", "1e37", "1e38", "123e35", "4503599627370495e22", "4503599627370495e15",
	"4503599627370495e-22", "4503599627370496e-22", "9007199254740993", "9007199254740993.0000000001", "9007199254740993.0", "16777217", "16777217.0", "16777217.000000001",
	"1.7976931348623157e308", "1.7976931348623158e308", "1.7976931348623159e308", "1.797693134862315807e308", "1.797693134862315808e308", "1e309", "-1e309", "1e400",
	"4.9e-324", "5e-324", "2.4703282292062327e-324", "2.4703282292062328e-324", "2.47e-324", "1e-324", "1e-400", "2.2250738585072014e-308", "2.2250738585072011e-308", "2.225073858507201e-308",
	"3.4028235e38", "3.4028236e38", "3.40282356779733661637539395458142568448e38", "3.4028235677973366e38", "3.4028234663852886e38", "1.401298464324817e-45", "7.006492321624085e-46", "7.0064923216240862e-46", "1e-46",
	"1.00000005960464477539062500", "1.000000059604644775390625", "1.0000000596046448", "0.000001", "0.0000001", "1e21", "1e20", "100000000000000000000", "1000000000000000000000",
	"2e19", "18446744073709551615", "18446744073709551616", "-9223372036854775808", "-9223372036854775809", "1844674407370955161.5e1", "184467440737095516150e-1",
	"123456789012345678", "0.123456789012345678", "1234567890.12345678e-300", "8.5e15", "0.3", "0.30000000000000004", "100", "1e2", "1.0e2", "100.0e-0",
}

func genNum(r *vh.Rng, idx int) *numLit {
	if idx < len(numCorpus) {
		return parseLit(numCorpus[idx], "corpus")
	}
	n := &numLit{neg: r.Chance(1, 4)}
	switch c := r.Intn(9); c {
	case 0: // everyday
		n.class = "everyday"
		n.intd = randDigits(r, 1+r.Intn(6), true)
		if r.Bool() {
			n.hasFrac = true
			n.frac = randDigits(r, 1+r.Intn(6), false)
		}
		if r.Chance(1, 5) {
			setExp(r, n, r.Intn(20)-10, true)
		}
	case 1: // leading fractional zeros
		n.class = "leading-zeros"
		n.intd = []byte{0}
		n.hasFrac = true
		n.frac = append(zeros(zeroRun(r)), randDigits(r, 1+r.Intn(40), true)...)
		if r.Chance(1, 3) {
			setExp(r, n, randExp(r), true)
		}
	case 2: // trailing zeros
		n.class = "trailing-zeros"
		n.intd = append(randDigits(r, 1+r.Intn(20), true), zeros(zeroRun(r))...)
		if r.Chance(1, 3) {
			n.hasFrac = true
			n.frac = zeros(1 + zeroRun(r)/4)
			if r.Chance(1, 3) {
				n.frac = append(n.frac, randDigits(r, 1+r.Intn(3), true)...)
			}
		}
		if r.Chance(1, 3) {
			setExp(r, n, randExp(r), true)
		}
	case 3: // many significant digits, any exponent
		n.class = "sig-digits"
		sig := randDigits(r, 1+r.Intn(40), true)
		k := r.Intn(len(sig) + 1)
		if k == 0 {
			n.intd = []byte{0}
			n.hasFrac = true
			n.frac = sig
		} else {
			n.intd = sig[:k]
			if k < len(sig) {
				n.hasFrac = true
				n.frac = sig[k:]
			}
		}
		if r.Chance(3, 4) {
			setExp(r, n, randExp(r), true)
		}
	case 4: // boundary mantissas
		n.class = "boundary-mantissa"
		sig := digitsOf(boundaryMantissas[r.Intn(len(boundaryMantissas))])
		if r.Chance(1, 3) {
			sig = append(sig, randDigits(r, 1+r.Intn(4), false)...)
		}
		k := 1 + r.Intn(len(sig))
		if r.Bool() {
			k = len(sig)
		}
		n.intd = sig[:k]
		if k < len(sig) {
			n.hasFrac = true
			n.frac = sig[k:]
		} else if r.Chance(1, 4) {
			n.hasFrac = true
			n.frac = zeros(1 + r.Intn(3))
		}
		if r.Chance(2, 3) {
			setExp(r, n, r.PickInt(-400, -324, -323, -308, -307, -46, -45, -38, -23, -22, -21, -16, -15, -1, 0, 1, 7, 8, 15, 16, 21, 22, 23, 36, 37, 38, 291, 292, 293, 308, 309), true)
		}
	case 5: // fast-path guard: short mantissa, exponent around the limits
		n.class = "fast-guard"
		n.intd = randDigits(r, 1+r.Intn(16), true)
		if r.Chance(1, 3) {
			n.hasFrac = true
			n.frac = randDigits(r, 1+r.Intn(4), false)
		}
		setExp(r, n, r.PickInt(-25, -24, -23, -22, -21, -11, -10, -9, 9, 10, 11, 16, 17, 18, 21, 22, 23, 24, 30, 36, 37, 38, 39), true)
	case 6: // digit counts around the old int8 counter boundaries
		n.class = "digit-count-boundary"
		tot := r.PickInt(126, 127, 128, 129, 130, 254, 255, 256, 257, 258, 383, 384, 385, 511, 512, 513)
		switch r.Intn(4) {
		case 0:
			n.intd = append([]byte{byte(1 + r.Intn(9))}, zeros(tot-1)...)
		case 1:
			n.intd = []byte{0}
			n.hasFrac = true
			n.frac = append(zeros(tot-1), byte(1+r.Intn(9)))
		case 2:
			n.intd = append([]byte{byte(1 + r.Intn(9))}, zeros(tot-1)...)
			n.hasFrac = true
			n.frac = append(zeros(r.Intn(3)), byte(r.Intn(10)))
		default:
			n.intd = append(randDigits(r, 1+r.Intn(5), true), zeros(tot)...)
			n.hasFrac = true
			n.frac = append(zeros(tot), randDigits(r, 1, false)...)
		}
		if r.Bool() {
			setExp(r, n, r.PickInt(-tot, -tot+1, -tot-1, -99, -10, 0, 10, 99, -300, 300), false)
		}
	case 7: // integers
		n.class = "integer"
		switch r.Intn(3) {
		case 0:
			n.intd = randDigits(r, 1+r.Intn(22), true)
		case 1:
			n.intd = digitsOf(boundaryMantissas[r.Intn(len(boundaryMantissas))])
		default:
			n.intd = digitsOf(strconv.FormatUint(r.U64()>>uint(r.Intn(64)), 10))
		}
	default: // zero in many spellings
		n.class = "zero"
		n.intd = []byte{0}
		if r.Bool() {
			n.hasFrac = true
			n.frac = zeros(1 + zeroRun(r))
		}
		if r.Bool() {
			setExp(r, n, randExp(r), true)
		}
	}
	return n
}

// the hooks call the parsers outside Decode's recover: keep a runtime panic (e.g. an
// index out of range in the power-of-ten tables) from killing the harness
func safeParse64(b []byte) (bits uint64, err error, panicked bool) {
	defer func() {
		if recover() != nil {
			panicked, err = true, fmt.Errorf("panic")
		}
	}()
	bits, err = codec.VerifParseFloat64(b)
	return
}

func safeParse32(b []byte) (bits uint32, err error, panicked bool) {
	defer func() {
		if recover() != nil {
			panicked, err = true, fmt.Errorf("panic")
		}
	}()
	bits, err = codec.VerifParseFloat32(b)
	return
}

func numErrClass(err error) string {
	if err == nil {
		return "nil"
	}
	return "error"
}

func numStream(r *vh.Rng, n int, cv *vh.Cases, sum *vh.Summary, idBase int) {
	for i := 0; i < n; i++ {
		lit := genNum(r, i)
		s := lit.text()
		b := []byte(s)
		id := idBase + i
		cj := map[string]interface{}{"literal": s, "class": lit.class, "seed_index": i}
		if len(s) > 120 {
			cj["literal"] = s[:60] + "…" + s[len(s)-40:]
			cj["literal_full_len"] = len(s)
			cj["literal_hex"] = vh.Hex(b)
		}
		want64, err64 := strconv.ParseFloat(s, 64)
		want32f, err32 := strconv.ParseFloat(s, 32)
		want32 := float32(want32f)
		cls := "num:" + lit.class

		// --- the real Decoder: float64 / float32 / interface{}, bytes and io
		for mode := 0; mode < 2; mode++ {
			ms := []string{"bytes", "io"}[mode]
			var f64 float64 = 12345.678
			var f32 float32 = 12345.678
			var iv interface{}
			var e1, e2, e3 error
			if mode == 0 {
				_, e1 = decodeBytes(b, nil, &f64)
				_, e2 = decodeBytes(b, nil, &f32)
				_, e3 = decodeBytes(b, nil, &iv)
			} else {
				e1 = decodeIO(r, b, nil, &f64)
				e2 = decodeIO(r, b, nil, &f32)
				e3 = decodeIO(r, b, nil, &iv)
			}
			cj["mode"] = ms
			if (e1 != nil) != (err64 != nil) {
				cj["got_err"] = numErrClass(e1)
				sum.FailC("num", cls+":float64", "float64: decode error does not match strconv.ParseFloat (error iff out of range)", cj)
			} else if e1 == nil && math.Float64bits(f64) != math.Float64bits(want64) {
				cj["got_bits"] = fmt.Sprintf("%016x", math.Float64bits(f64))
				cj["want_bits"] = fmt.Sprintf("%016x", math.Float64bits(want64))
				sum.FailC("num", cls+":float64", "float64: decoded value differs from strconv.ParseFloat", cj)
			}
			if (e2 != nil) != (err32 != nil) {
				cj["got_err"] = numErrClass(e2)
				sum.FailC("num", cls+":float32", "float32: decode error does not match strconv.ParseFloat (error iff out of range)", cj)
			} else if e2 == nil && math.Float32bits(f32) != math.Float32bits(want32) {
				cj["got_bits"] = fmt.Sprintf("%08x", math.Float32bits(f32))
				cj["want_bits"] = fmt.Sprintf("%08x", math.Float32bits(want32))
				sum.FailC("num", cls+":float32", "float32: decoded value differs from strconv.ParseFloat", cj)
			}
			delete(cj, "got_bits")
			delete(cj, "want_bits")
			delete(cj, "got_err")
			// interface{}: an integer literal that fits comes back as that integer, everything else as the float64
			if e3 == nil {
				switch x := iv.(type) {
				case float64:
					if err64 != nil || math.Float64bits(x) != math.Float64bits(want64) {
						sum.FailC("num", cls+":naked", "interface{}: float64 result differs from strconv.ParseFloat", cj)
					}
				case uint64:
					if !lit.isPlainInt() || lit.neg || strconv.FormatUint(x, 10) != s {
						sum.FailC("num", cls+":naked", "interface{}: uint64 result is not the literal's value", cj)
					}
				case int64:
					if !lit.isPlainInt() || (strconv.FormatInt(x, 10) != s && !(x == 0 && s == "-0")) {
						sum.FailC("num", cls+":naked", "interface{}: int64 result is not the literal's value", cj)
					}
				default:
					sum.FailC("num", cls+":naked", "interface{}: result is not a number", cj)
				}
			} else if err64 == nil {
				// a negative integer literal below MinInt64 is reported as an error (not silently changed): C07/C15 territory
				if lit.isPlainInt() && lit.neg && hasNegIntBelowInt64(append(b, ' ')) {
					sum.FailC("num", "naked:negative-int-below-int64", "a negative integer literal below -2^63 is rejected into interface{} (encoding/json returns the float64)", cj)
				} else {
					sum.FailC("num", cls+":naked", "interface{}: decode failed for a literal strconv accepts", cj)
				}
			}
		}
		delete(cj, "mode")

		// --- observations for the model
		rf32 := codec.VerifReadFloat(b, 0)
		rf64 := codec.VerifReadFloat(b, 1)
		rf64u := codec.VerifReadFloat(b, 2)
		p64, pe64, pp64 := safeParse64(b)
		p32, pe32, pp32 := safeParse32(b)
		if pp64 || pp32 {
			sum.FailC("num", cls+":panic", "parseFloat64/parseFloat32 panicked (runtime error) on a valid literal", cj)
		}
		cv.Add(fmt.Sprintf("CNum %d %s %s %s %s %s %s %s %s %s %s %s %s", id, lit.coq(), vh.CoqBool(lit.upper), vh.CoqBytes(b),
			coqRf(rf32), coqRf(rf64), coqRf(rf64u),
			coqZu(math.Float64bits(want64)), coqZu(uint64(math.Float32bits(want32))),
			coqOptZ(err64 == nil, math.Float64bits(want64)), coqOptZ(err32 == nil, uint64(math.Float32bits(want32))),
			coqOptZ(pe64 == nil, p64), coqOptZ(pe32 == nil, uint64(p32))))
		sum.ModelCases++
		path := "slow"
		if rf64.Ok {
			path = "fast"
		}
		key := fmt.Sprintf("%s/%s/len%d/exp%d/%v%v%v", lit.class, path, len(s)/8, rf64.Exp, rf64.Trunc, rf64.Hardexp, err64 != nil)
		if len(s) <= 2 {
			key = ""
		}
		sum.Count("num."+lit.class, key)
		sum.Dist["num.path64."+path]++
		if rf32.Ok {
			sum.Dist["num.path32.fast"]++
		}
		if len(s) > 127 {
			sum.Dist["num.longer-than-127"]++
		}
		if i == len(numCorpus) || i == len(numCorpus)+1 {
			sum.Sample(cj)
		}
	}
}

func rawStream(r *vh.Rng, n int, cv *vh.Cases, sum *vh.Summary, idBase int) {
	alphabet := []byte("0123456789.eE+-0011 x")
	for i := 0; i < n; i++ {
		var b []byte
		switch r.Intn(3) {
		case 0:
			l := r.Intn(12)
			for j := 0; j < l; j++ {
				b = append(b, alphabet[r.Intn(len(alphabet))])
			}
		case 1: // mutate a grammar literal by one byte
			b = []byte(genNum(r, 1<<30).text())
			if len(b) > 0 {
				switch r.Intn(3) {
				case 0:
					b[r.Intn(len(b))] = alphabet[r.Intn(len(alphabet))]
				case 1:
					k := r.Intn(len(b))
					b = append(b[:k], b[k+1:]...)
				default:
					k := r.Intn(len(b) + 1)
					b = append(b[:k], append([]byte{alphabet[r.Intn(len(alphabet))]}, b[k:]...)...)
				}
			}
		default: // plain digit strings around the uint64 boundary
			b = []byte(boundaryMantissas[r.Intn(len(boundaryMantissas))])
			if r.Bool() {
				b = append(b, byte('0'+r.Intn(10)))
			}
			if r.Chance(1, 4) {
				b = append([]byte{'0'}, b...)
			}
		}
		pn, pok := codec.VerifParseUint64Simple(b)
		// the custom float parsers on the same bytes: a text readFloat calls bad is refused,
		// everything else is the fast path's or strconv's answer
		s64, se64 := strconv.ParseFloat(string(b), 64)
		s32, se32 := strconv.ParseFloat(string(b), 32)
		p64, pe64, _ := safeParse64(b)
		p32, pe32, _ := safeParse32(b)
		cv.Add(fmt.Sprintf("CRaw %d %s %s %s %s %s %s %s %s %s %s", idBase+i, vh.CoqBytes(b), coqRf(codec.VerifReadFloat(b, 0)), coqRf(codec.VerifReadFloat(b, 1)),
			coqRf(codec.VerifReadFloat(b, 2)), coqZu(pn), vh.CoqBool(pok),
			coqOptZ(se64 == nil, math.Float64bits(s64)), coqOptZ(se32 == nil, uint64(math.Float32bits(float32(s32)))),
			coqOptZ(pe64 == nil, p64), coqOptZ(pe32 == nil, uint64(p32))))
		sum.ModelCases++
		key := "raw/" + string(b)
		if len(b) < 2 {
			key = ""
		}
		sum.Count("raw", key)
	}
}

func coqFp(bits uint64, fail, panicked bool) string {
	k := 0
	if panicked {
		k = 2
	} else if fail {
		k = 1
	}
	return fmt.Sprintf("(mkofp %d%%N %s)", k, coqZu(bits))
}

func fastStream(r *vh.Rng, n int, cv *vh.Cases, sum *vh.Summary, idBase int) {
	ms := []uint64{0, 1, 2, 3, 5, 7, 9, 10, 1<<23 - 1, 1 << 23, 1<<24 - 1, 1 << 24, 1<<24 + 1, 1e7, 1e7 + 1, 1<<52 - 1, 1 << 52, 1<<53 - 1, 1 << 53, 1<<53 + 1, 1e15, 1e15 + 1, 1e15 - 1, 1<<63 - 1, 1 << 63, 1<<64 - 1, 1<<64 - 1025, 1<<64 - 1024}
	for i := 0; i < n; i++ {
		var m uint64
		switch r.Intn(4) {
		case 0:
			m = ms[r.Intn(len(ms))]
		case 1:
			m = r.U64() >> uint(12+r.Intn(52))
		case 2:
			m = r.U64() >> uint(r.Intn(64))
		default:
			m = uint64(r.Intn(1000000))
		}
		e := int8(r.Intn(70) - 28)
		if r.Chance(1, 20) {
			e = int8(r.U64())
		}
		neg := r.Chance(1, 4)
		b64, f64, p64 := codec.VerifParseFloat64Reader(m, e, neg)
		b32, f32, p32 := codec.VerifParseFloat32Reader(m, e, neg)
		cv.Add(fmt.Sprintf("CFast %d %s %s %s %s %s", idBase+i, coqZu(m), vh.CoqZ(int64(e)), vh.CoqBool(neg), coqFp(b64, f64, p64), coqFp(uint64(b32), f32, p32)))
		sum.ModelCases++
		sum.Count("fast", fmt.Sprintf("fast/%d/%d/%v%v%v%v", bitsLen(m), e, f64, p64, f32, p32))
	}
}

func bitsLen(m uint64) int {
	n := 0
	for m != 0 {
		n++
		m >>= 1
	}
	return n
}

// ---------------------------------------------------------------- string literals (decode)

type item struct {
	kind int  // 0 Ch, 1 Esc, 2 U
	cp   rune // Ch: code point; Esc: the char after the backslash
	hex  [4]byte
}

func (it item) render(sb *bytes.Buffer) {
	switch it.kind {
	case 0:
		var b [4]byte
		sb.Write(b[:utf8.EncodeRune(b[:], it.cp)])
	case 1:
		sb.WriteByte('\\')
		sb.WriteByte(byte(it.cp))
	default:
		sb.WriteString(`\u`)
		sb.Write(it.hex[:])
	}
}

func uItem(r *vh.Rng, v int) item {
	s := fmt.Sprintf("%04x", v)
	var h [4]byte
	for i := range h {
		c := s[i]
		if c >= 'a' && r.Bool() {
			c -= 32
		}
		h[i] = c
	}
	return item{kind: 2, hex: h}
}

func hexv(c byte) int {
	switch {
	case c <= '9':
		return int(c - '0')
	case c <= 'F':
		return int(c-'A') + 10
	}
	return int(c-'a') + 10
}
func (it item) u16() int {
	return ((hexv(it.hex[0])*16+hexv(it.hex[1]))*16+hexv(it.hex[2]))*16 + hexv(it.hex[3])
}
func isSur(v int) bool { return v >= 0xd800 && v < 0xe000 }
func isHi(v int) bool  { return v >= 0xd800 && v < 0xdc00 }
func isLo(v int) bool  { return v >= 0xdc00 && v < 0xe000 }

// pinned: some surrogate escape is immediately followed by a \u escape that does
// not complete a valid pair with it (the residual class of F09-2, see known_findings.json).
func pinnedClass(items []item) bool {
	for i := 0; i < len(items); i++ {
		if items[i].kind == 2 && isSur(items[i].u16()) {
			if i+1 < len(items) && items[i+1].kind == 2 {
				if isHi(items[i].u16()) && isLo(items[i+1].u16()) {
					i++
					continue
				}
				return true
			}
		}
	}
	return false
}

// itemsOfText: best-effort tokenisation of a literal's text (only \u escapes and
// their adjacency matter to the caller)
func itemsOfText(lit []byte) (out []item) {
	isHex := func(c byte) bool { return c >= '0' && c <= '9' || c >= 'a' && c <= 'f' || c >= 'A' && c <= 'F' }
	for i := 1; i < len(lit); {
		if lit[i] == '\\' && i+5 < len(lit) && lit[i+1] == 'u' && isHex(lit[i+2]) && isHex(lit[i+3]) && isHex(lit[i+4]) && isHex(lit[i+5]) {
			out = append(out, item{kind: 2, hex: [4]byte{lit[i+2], lit[i+3], lit[i+4], lit[i+5]}})
			i += 6
		} else if lit[i] == '\\' && i+1 < len(lit) {
			out = append(out, item{kind: 1, cp: rune(lit[i+1])})
			i += 2
		} else {
			out = append(out, item{kind: 0, cp: rune(lit[i])})
			i++
		}
	}
	return
}

var escChars = []byte{'"', '\\', '/', 'b', 'f', 'n', 'r', 't'}
var plainCps = []rune{'a', 'b', 'z', ' ', '!', '#', '[', ']', '~', 0x7f, '/', '\'', 'u', 0x80, 0xe9, 0x7ff, 0x800, 0x20ac, 0xd7ff, 0xe000, 0xfffd, 0xffff, 0x10000, 0x1d11e, 0x10ffff, 0x2028, 0x2029, '<', '>', '&'}

func randItem(r *vh.Rng) item {
	switch r.Intn(10) {
	case 0, 1, 2:
		return item{kind: 0, cp: plainCps[r.Intn(len(plainCps))]}
	case 3:
		return item{kind: 0, cp: rune('a' + r.Intn(26))}
	case 4:
		return item{kind: 1, cp: rune(escChars[r.Intn(len(escChars))])}
	case 5:
		return uItem(r, 0xd800+r.Intn(0x400)) // high
	case 6:
		return uItem(r, 0xdc00+r.Intn(0x400)) // low
	case 7:
		return uItem(r, r.PickInt(0, 1, 0x1f, 0x20, 0x22, 0x5c, 0x41, 0x7f, 0x80, 0xe9, 0x7ff, 0x800, 0xd7ff, 0xe000, 0xfffd, 0xffff, 0x2028))
	default:
		return uItem(r, r.Intn(0x10000))
	}
}

// the six kinds of neighbour a surrogate escape can have
func neighbour(r *vh.Rng, k int) item {
	switch k {
	case 0:
		return uItem(r, 0xd800+r.Intn(0x400))
	case 1:
		return uItem(r, 0xdc00+r.Intn(0x400))
	case 2:
		return uItem(r, r.PickInt(0x41, 0xe9, 0x20ac, 0xfffd, 0xd7ff, 0xe000))
	case 3:
		return item{kind: 0, cp: plainCps[r.Intn(len(plainCps))]}
	case 4:
		return item{kind: 1, cp: rune(escChars[r.Intn(len(escChars))])}
	default:
		return item{kind: 0, cp: 'u'}
	}
}

var strTails = []string{"", `,"k":1}`, ` abcdefgh`, `abcdefgh`, `"x"`, `A"`, "]", `\`, `u0041`}

// fixed literal corpus: F09-2 witness first; includes invalid literals
var strCorpus = []string{
	"\"\\ud800abcdefgh\"", "\"\\ud800\"", "\"\\udc00\"", "\"\\ud800\\udc00\"", "\"\\ud800\\u0041\"", "\"\\udc49\\u0430abc\"",
	"\"\\ud800\\ud800\\udc00\"", "\"\\udc00\\ud800\\udc00\"", "\"\\ud834\\udd1e\"", "\"az\\uD834\\udD1E\"", "\"\\ud800x\\udc00\"", "\"\\ud800\\n\\udc00\"",
	"\"\\ud800\\\\udc00\"", "\"\"", "\"a\"", "\"\\\"\"", "\"\\\\\"", "\"\\/\"",
	"\"\\b\\f\\n\\r\\t\"", "\"\\u0000\"", "\"\\u001f\"", "\"\\uffff\"", "\"\\ufffd\"", "\"\\u00e9\\u00E9\"",
	"\"\\udbff\\udfff\"", "\"\\uDBFF\\uDC00\"", "\"\\ud7ff\\ue000\"", "\"\"\"", "\"\\\"", "\"\\u12\"",
	"\"\\u123\"", "\"\\u\"", "\"\\", "\"\\ud800\\u12\"", "\"\\ud800\\", "\"\\ud800\\u",
	"\"\\x41\"", "\"\\a\"", "\"\\'\"", "\"\\uZZZZ\"", "\"\\u00g0\"", "\"\\ud800\\uZZZZ\"",
	"\"abc", "\"", "\"a\nb\"", "\"a\tb\"",
}

func strStream(r *vh.Rng, n int, cv *vh.Cases, sum *vh.Summary, idBase int) {
	arr := 0
	for i := 0; i < n; i++ {
		var lit []byte
		var items []item
		fromItems := false
		desc := ""
		if i < len(strCorpus) {
			lit = []byte(strCorpus[i])
			desc = "corpus"
		} else {
			fromItems = true
			if arr < 2*6*6*6 { // every arrangement: (hi|lo) followed by three neighbours of six kinds
				a := arr
				arr++
				first := a % 2
				a /= 2
				items = append(items, neighbour(r, first))
				for k := 0; k < 3; k++ {
					items = append(items, neighbour(r, a%6))
					a /= 6
				}
				if r.Bool() {
					items = append([]item{{kind: 0, cp: 'p'}}, items...)
				}
				desc = "surrogate-arrangement"
			} else {
				l := r.Intn(9)
				if r.Chance(1, 10) {
					l = 20 + r.Intn(60)
				}
				for k := 0; k < l; k++ {
					items = append(items, randItem(r))
				}
				desc = "random-items"
			}
			var sb bytes.Buffer
			sb.WriteByte('"')
			for _, it := range items {
				it.render(&sb)
			}
			sb.WriteByte('"')
			lit = sb.Bytes()
		}
		tail := strTails[r.Intn(len(strTails))]
		input := append(append([]byte(nil), lit...), tail...)
		id := idBase + i
		cj := map[string]interface{}{"literal": string(lit), "literal_hex": vh.Hex(lit), "tail": tail, "shape": desc, "seed_index": i}

		var got string
		nread, err := decodeBytes(input, nil, &got)
		var std string
		stdErr := stdjson.Unmarshal(lit, &std)
		if !fromItems {
			items = itemsOfText(lit)
		}
		pinned := pinnedClass(items)
		cls := "str:other"
		if pinned {
			cls = "str:surrogate-escape-then-nonpairing-u-escape"
		}
		cj["pinned_class"] = pinned
		if stdErr == nil {
			if err != nil {
				sum.FailC("str", cls, "a literal encoding/json accepts is rejected", cj)
			} else {
				if got != std {
					cj["got_hex"] = vh.Hex([]byte(got))
					cj["want_hex"] = vh.Hex([]byte(std))
					sum.FailC("str", cls, "decoded string differs from encoding/json", cj)
					delete(cj, "got_hex")
					delete(cj, "want_hex")
				}
				if nread != len(lit) {
					cj["consumed"] = nread
					cj["literal_len"] = len(lit)
					sum.FailC("str", cls, "decoder consumed a different number of bytes than the literal has", cj)
					delete(cj, "consumed")
					delete(cj, "literal_len")
				}
			}
			// the io reader must agree with the bytes reader
			var got2 string
			err2 := decodeIO(r, input, nil, &got2)
			if (err2 != nil) != (err != nil) || got2 != got {
				sum.FailC("str", cls+":io", "io reader and bytes reader decode the literal differently", cj)
			}
			// as a map key and inside an array, followed by more document
			if err == nil && tail == "" {
				doc := append(append([]byte(`[`), lit...), []byte(`,"~",{`)...)
				doc = append(append(doc, lit...), []byte(`:7}]`)...)
				var dv []interface{}
				var sv []interface{}
				_, e3 := decodeBytes(doc, nil, &dv)
				e4 := stdjson.Unmarshal(doc, &sv)
				if e4 == nil {
					ok := e3 == nil && len(dv) == 3
					if ok {
						s0, _ := dv[0].(string)
						s1, _ := dv[1].(string)
						ok = s0 == std && s1 == "~"
						switch m := dv[2].(type) {
						case map[string]interface{}:
							_, has := m[std]
							ok = ok && has && len(m) == 1
						case map[interface{}]interface{}:
							_, has := m[std]
							ok = ok && has && len(m) == 1
						default:
							ok = false
						}
					}
					if !ok {
						cj["doc"] = string(doc)
						sum.FailC("str", cls+":doc", "literal inside an array / as a map key decodes differently from encoding/json", cj)
						delete(cj, "doc")
					}
				}
			}
		}
		chkStd := true
		cv.Add(fmt.Sprintf("CStr %d %s %d%%N %s %s %d%%N %s %s %s", id, vh.CoqBytes(input), len(lit), vh.CoqBool(err == nil), vh.CoqBytes([]byte(got)), nread,
			vh.CoqBool(chkStd), vh.CoqBool(stdErr == nil), vh.CoqBytes([]byte(std))))
		sum.ModelCases++
		key := fmt.Sprintf("str/%s/%d/%v/%v/%d", desc, len(lit), err == nil, stdErr == nil, len(got))
		if desc == "surrogate-arrangement" {
			key = fmt.Sprintf("str/arr/%d", arr)
		}
		if len(lit) <= 3 {
			key = ""
		}
		sum.Count("str."+desc, key)
		if pinned {
			sum.Dist["str.pinned-class"]++
		}
		if i == len(strCorpus) || i == len(strCorpus)+500 {
			sum.Sample(cj)
		}
	}
}

// ---------------------------------------------------------------- encode side

var rawPieces = []string{"\x80", "\xbf", "\xc0\x80", "\xc1\xbf", "\xc2", "\xe0\x80\x80", "\xe0\x9f\xbf", "\xed\xa0\x80", "\xed\xbf\xbf", "\xef\xbf", "\xf0\x80\x80\x80", "\xf0\x8f\xbf\xbf",
	"\xf4\x90\x80\x80", "\xf5\x80\x80\x80", "\xff", "\xfe", "\xf0\x9f\x98", "\xe2\x82", "\xc3"}

func randGoString(r *vh.Rng) string {
	var sb strings.Builder
	n := r.Intn(12)
	if r.Chance(1, 10) {
		n = 30 + r.Intn(60)
	}
	for k := 0; k < n; k++ {
		switch r.Intn(8) {
		case 0:
			sb.WriteByte(byte(r.Intn(128)))
		case 1:
			sb.WriteByte(byte(r.Intn(0x20)))
		case 2:
			sb.WriteString(string(plainCps[r.Intn(len(plainCps))]))
		case 3:
			sb.WriteString(rawPieces[r.Intn(len(rawPieces))])
		case 4:
			sb.WriteByte(byte(r.U64()))
		case 5:
			sb.WriteString([]string{"<", ">", "&", "\"", "\\", "/", "\xe2\x80\xa8", "\xe2\x80\xa9", "\x7f", "'"}[r.Intn(10)])
		default:
			sb.WriteByte(byte('a' + r.Intn(26)))
		}
	}
	return sb.String()
}

func toValid(s string) string { return string([]rune(s)) }

func encodeJSON(v interface{}, o vh.Opts) ([]byte, error) {
	var out []byte
	err := codec.NewEncoderBytes(&out, jsonHandle(o)).Encode(v)
	return out, err
}

func encStream(r *vh.Rng, n int, cv *vh.Cases, sum *vh.Summary, idBase int) {
	id := idBase
	// --- strings
	for i := 0; i < n; i++ {
		s := randGoString(r)
		switch i {
		case 0:
			s = "<a href=\"x\">&amp;  \xff</a>\x00\x1f\x7f\\"
		case 1:
			s = ""
		}
		html := r.Bool()
		o := vh.Opts{"HTMLCharsAsIs": html}
		out, err := encodeJSON(s, o)
		cj := map[string]interface{}{"string_hex": vh.Hex([]byte(s)), "HTMLCharsAsIs": html, "out": string(out), "seed_index": i}
		want := toValid(s)
		var back string
		switch {
		case err != nil:
			sum.FailC("enc", "enc:string", "encoding a string failed", cj)
		case !stdjson.Valid(out):
			sum.FailC("enc", "enc:string", "encoded string is not valid JSON", cj)
		case stdjson.Unmarshal(out, &back) != nil || back != want:
			sum.FailC("enc", "enc:string", "encoding/json decodes the encoded string to a different value", cj)
		}
		if !html && bytes.ContainsAny(out, "<>&") {
			sum.FailC("enc", "enc:string:html", "HTMLCharsAsIs=false but <, > or & appear unescaped", cj)
		}
		if bytes.Contains(out, []byte{0xe2, 0x80, 0xa8}) || bytes.Contains(out, []byte{0xe2, 0x80, 0xa9}) {
			sum.FailC("enc", "enc:string:sep", "U+2028/U+2029 appear unescaped", cj)
		}
		// reverse: what encoding/json writes decodes here to the same string
		if mb, e := stdjson.Marshal(s); e == nil {
			var rb string
			if _, e2 := decodeBytes(mb, nil, &rb); e2 != nil || rb != want {
				cj["std_out"] = string(mb)
				sum.FailC("enc", "enc:string:reverse", "encoding/json's encoding of the string decodes here to a different value", cj)
			}
		}
		cv.Add(fmt.Sprintf("CQuote %d %s %s %s %s", id, vh.CoqBool(html), vh.CoqBytes([]byte(s)), vh.CoqBytes(out), vh.CoqBytes([]byte(want))))
		id++
		sum.ModelCases++
		key := fmt.Sprintf("quote/%v/%d/%d", html, len(s), len(out)-len(s))
		if len(s) == 0 {
			key = ""
		}
		sum.Count("enc.string", key)
		if i == 0 {
			sum.Sample(cj)
		}
	}
	// --- integers under IntegerAsString
	ints := []int64{0, 1, -1, 9, 10, 99, 100, 101, 999, 1000, 12345, -12345, 1 << 53, 1<<53 + 1, 1<<53 - 1, -(1 << 53), -(1 << 53) - 1, -(1 << 53) + 1, math.MaxInt64, math.MinInt64, math.MinInt64 + 1, 1e18, 999999999999999999, 1e9, 1e9 - 1, 1e10}
	for i := 0; i < n/2+len(ints); i++ {
		var v int64
		if i < len(ints) {
			v = ints[i]
		} else {
			v = int64(r.U64()) >> uint(r.Intn(64))
		}
		isOpt := r.PickInt(0, 'A', 'L')
		o := vh.Opts{}
		if isOpt != 0 {
			o["IntegerAsString"] = string(rune(isOpt))
		}
		asUint := v >= 0 && r.Bool()
		var out []byte
		var err error
		var u uint64
		if asUint {
			u = uint64(v)
			if r.Bool() {
				u = r.U64() | 1<<63
			}
			out, err = encodeJSON(u, o)
		} else {
			out, err = encodeJSON(v, o)
		}
		cj := map[string]interface{}{"value": v, "uvalue": u, "as_uint": asUint, "IntegerAsString": isOpt, "out": string(out), "seed_index": i}
		txt := strings.Trim(string(out), `"`)
		ok := err == nil && stdjson.Valid(out)
		if ok {
			if asUint {
				p, e := strconv.ParseUint(txt, 10, 64)
				ok = e == nil && p == u
			} else {
				p, e := strconv.ParseInt(txt, 10, 64)
				ok = e == nil && p == v
			}
		}
		if !ok {
			sum.FailC("enc", "enc:int", "encoded integer is not valid JSON or does not read back as the same integer", cj)
		}
		wantQ := isOpt == 'A'
		if isOpt == 'L' {
			if asUint {
				wantQ = u > 1<<53
			} else {
				wantQ = v > 1<<53 || v < -(1<<53)
			}
		}
		if (len(out) > 0 && out[0] == '"') != wantQ {
			sum.FailC("enc", "enc:int:quotes", "IntegerAsString quoting differs from the documented rule", cj)
		}
		zv := fmt.Sprintf("(%d)%%Z", v)
		if asUint {
			zv = coqZu(u)
		}
		cv.Add(fmt.Sprintf("CInt %d %d%%Z false %s %s", id, isOpt, zv, vh.CoqBytes(out)))
		id++
		// the map-key form (always quoted), through the hook
		if i%4 == 0 {
			neg := v < 0
			mag := uint64(v)
			if neg {
				mag = uint64(-v)
			}
			ko := codec.VerifJsonEncodeUint(neg, true, mag)
			cv.Add(fmt.Sprintf("CInt %d %d%%Z true (%d)%%Z %s", id, isOpt, v, vh.CoqBytes(ko)))
			id++
			sum.ModelCases++
		}
		sum.ModelCases++
		sum.Count("enc.int", fmt.Sprintf("int/%d/%d/%v", isOpt, len(txt), asUint))
	}
	// --- floats: format/precision choice, round trip, stays a float
	fl := []float64{0, math.Copysign(0, -1), 1, -1, 0.5, 1.5, 1e-6, 9.999999e-7, 1.0000001e-6, math.Nextafter(1e-6, 0), 1e21, math.Nextafter(1e21, 0), math.Nextafter(1e21, 2e21), 1e20, 1e15, 1 << 53, 1<<53 + 2,
		123456789, 123456789.5, 0.1, 0.3, 1e300, 1e-300, math.MaxFloat64, math.SmallestNonzeroFloat64, math.MaxFloat32, math.SmallestNonzeroFloat32, 2.2250738585072014e-308, 100, 1e6, 16777216, 16777217, 4503599627370496, 4503599627370495.5}
	for i := 0; i < n/2+len(fl); i++ {
		var f float64
		if i < len(fl) {
			f = fl[i]
		} else {
			switch r.Intn(4) {
			case 0:
				f = math.Float64frombits(r.U64())
			case 1:
				f = float64(int64(r.U64())>>uint(r.Intn(64))) / float64(int64(1)<<uint(r.Intn(8)))
			case 2:
				f = float64(math.Float32frombits(uint32(r.U64())))
			default:
				f = float64(r.Intn(2000000)-1000000) * math.Pow10(r.Intn(60)-30)
			}
		}
		if math.IsNaN(f) || math.IsInf(f, 0) {
			continue
		}
		is64 := r.Bool()
		f32 := float32(f)
		if !is64 && (math.IsInf(float64(f32), 0)) {
			is64 = true
		}
		var out []byte
		var err error
		var fm byte
		var pr int8
		var bits uint64
		if is64 {
			out, err = encodeJSON(f, nil)
			fm, pr = codec.VerifJsonFloatFmtPrec64(f)
			bits = math.Float64bits(f)
		} else {
			out, err = encodeJSON(f32, nil)
			fm, pr = codec.VerifJsonFloatFmtPrec32(f32)
			bits = uint64(math.Float32bits(f32))
		}
		cj := map[string]interface{}{"bits": fmt.Sprintf("%x", bits), "is64": is64, "out": string(out), "seed_index": i}
		ok := err == nil && stdjson.Valid(out)
		if ok {
			if is64 {
				p, e := strconv.ParseFloat(string(out), 64)
				ok = e == nil && math.Float64bits(p) == bits
				var sf float64
				ok = ok && stdjson.Unmarshal(out, &sf) == nil && math.Float64bits(sf) == bits
			} else {
				p, e := strconv.ParseFloat(string(out), 32)
				ok = e == nil && uint64(math.Float32bits(float32(p))) == bits
				var sf float32
				ok = ok && stdjson.Unmarshal(out, &sf) == nil && uint64(math.Float32bits(sf)) == bits
			}
		}
		if !ok {
			sum.FailC("enc", "enc:float", "encoded float is not valid JSON or does not read back as the same float", cj)
		}
		if !bytes.ContainsAny(out, ".eE") {
			// integral floats in [2^52, 1e21) are written without ".0", as encoding/json writes them
			sum.Dist["enc.float.integer-looking"]++
		}
		// and it decodes here to the same float; encoding/json's text for it too
		{
			var back64 float64
			var back32 float32
			var sm []byte
			if is64 {
				_, e := decodeBytes(out, nil, &back64)
				sm, _ = stdjson.Marshal(f)
				var b2 float64
				_, e2 := decodeBytes(sm, nil, &b2)
				if e != nil || e2 != nil || math.Float64bits(back64) != bits || math.Float64bits(b2) != bits {
					cj["std_out"] = string(sm)
					sum.FailC("enc", "enc:float:reverse", "float text (ours or encoding/json's) decodes here to a different float64", cj)
				}
			} else {
				_, e := decodeBytes(out, nil, &back32)
				sm, _ = stdjson.Marshal(f32)
				var b2 float32
				_, e2 := decodeBytes(sm, nil, &b2)
				if e != nil || e2 != nil || uint64(math.Float32bits(back32)) != bits || uint64(math.Float32bits(b2)) != bits {
					cj["std_out"] = string(sm)
					sum.FailC("enc", "enc:float:reverse", "float text (ours or encoding/json's) decodes here to a different float32", cj)
				}
			}
		}
		cv.Add(fmt.Sprintf("CFmt %d %s %s %d%%N %s", id, vh.CoqBool(is64), coqZu(bits), fm, vh.CoqZ(int64(pr))))
		id++
		sum.ModelCases++
		sum.Count("enc.float", fmt.Sprintf("float/%v/%c/%d/%d", is64, fm, pr, len(out)))
	}
}

// ---------------------------------------------------------------- documents

// normal form of a JSON document: numbers as exact decimal strings (integers) or
// float64 bit patterns, object members sorted by key
func normStd(x interface{}) interface{} {
	switch v := x.(type) {
	case stdjson.Number:
		return normNumText(string(v))
	case []interface{}:
		out := make([]interface{}, len(v))
		for i := range v {
			out[i] = normStd(v[i])
		}
		return out
	case map[string]interface{}:
		out := map[string]interface{}{}
		for k, e := range v {
			out[k] = normStd(e)
		}
		return out
	}
	return x
}

// normNumText: canonical form of a JSON number text. Integers up to 2^53 in magnitude
// compare exactly; everything else compares as the float64 it rounds to (a float64
// written without fraction/exponent, e.g. 1e20 -> 100000000000000000000, must compare
// equal to the float it came from, so large integer-looking texts go through ParseFloat).
func normNumText(s string) interface{} {
	if !strings.ContainsAny(s, ".eE") {
		if bi, ok := new(big.Int).SetString(s, 10); ok {
			if new(big.Int).Abs(bi).Cmp(big.NewInt(1<<53)) <= 0 {
				return "int:" + bi.String()
			}
		}
	}
	f, _ := strconv.ParseFloat(s, 64)
	if f == math.Trunc(f) && math.Abs(f) <= 1<<53 {
		return "int:" + strconv.FormatInt(int64(f), 10)
	}
	return fmt.Sprintf("float:%016x", math.Float64bits(f))
}

var negIntRe = regexp.MustCompile(`-[0-9]{19,20}`)

// hasNegIntBelowInt64: the text holds a negative integer literal whose magnitude is in
// (2^63, 2^64): our decoder rejects it into interface{} (finding F09-3)
func hasNegIntBelowInt64(b []byte) bool {
	for _, loc := range negIntRe.FindAllIndex(b, -1) {
		if loc[1] < len(b) && (b[loc[1]] == '.' || b[loc[1]] == 'e' || b[loc[1]] == 'E' || (b[loc[1]] >= '0' && b[loc[1]] <= '9')) {
			continue
		}
		u, err := strconv.ParseUint(string(b[loc[0]+1:loc[1]]), 10, 64)
		if err == nil && u > 1<<63 {
			return true
		}
	}
	return false
}

// normOurs: what our decoder produced for interface{} destinations
func normOurs(x interface{}) interface{} {
	switch v := x.(type) {
	case int64:
		return normNumText(strconv.FormatInt(v, 10))
	case uint64:
		return normNumText(strconv.FormatUint(v, 10))
	case float64:
		return normNumText(strconv.FormatFloat(v, 'g', -1, 64))
	case []interface{}:
		out := make([]interface{}, len(v))
		for i := range v {
			out[i] = normOurs(v[i])
		}
		return out
	case map[string]interface{}:
		out := map[string]interface{}{}
		for k, e := range v {
			out[k] = normOurs(e)
		}
		return out
	case map[interface{}]interface{}:
		out := map[string]interface{}{}
		for k, e := range v {
			out[fmt.Sprint(k)] = normOurs(e)
		}
		return out
	}
	return x
}

type treeOpts struct {
	intKeys bool
}

// randTree builds a schema-less JSON-representable value and, alongside, the
// normal form a faithful JSON encoding of it must have under the option vector.
func randTree(r *vh.Rng, depth int, o vh.Opts, to treeOpts) (v interface{}, want interface{}) {
	is := byte(0)
	if s, ok := o["IntegerAsString"].(string); ok {
		is = s[0]
	}
	k := r.Intn(9)
	if depth >= 3 && k >= 7 {
		k = r.Intn(7)
	}
	switch k {
	case 0:
		return nil, nil
	case 1:
		b := r.Bool()
		return b, b
	case 2:
		i := int64(r.U64()) >> uint(r.Intn(64))
		if r.Chance(1, 6) {
			i = []int64{1 << 53, 1<<53 + 1, -(1 << 53) - 1, math.MinInt64, math.MaxInt64, 0}[r.Intn(6)]
		}
		if is == 'A' || (is == 'L' && (i > 1<<53 || i < -(1<<53))) {
			return i, strconv.FormatInt(i, 10)
		}
		return i, normNumText(strconv.FormatInt(i, 10))
	case 3:
		u := r.U64() >> uint(r.Intn(64))
		if is == 'A' || (is == 'L' && u > 1<<53) {
			return u, strconv.FormatUint(u, 10)
		}
		return u, normNumText(strconv.FormatUint(u, 10))
	case 4:
		var f float64
		switch r.Intn(3) {
		case 0:
			f = math.Float64frombits(r.U64())
		case 1:
			f = float64(r.Intn(2000000)-1000000) / float64(int(1)<<uint(r.Intn(12)))
		default:
			f = float64(r.Intn(200)-100) * math.Pow10(r.Intn(50)-25)
		}
		if math.IsNaN(f) || math.IsInf(f, 0) {
			f = 0.25
		}
		return f, normNumText(strconv.FormatFloat(f, 'g', -1, 64))
	case 5, 6:
		s := randGoString(r)
		return s, toValid(s)
	case 7:
		n := r.Intn(4)
		a := make([]interface{}, n)
		w := make([]interface{}, n)
		for i := range a {
			a[i], w[i] = randTree(r, depth+1, o, to)
		}
		return a, w
	default:
		n := r.Intn(4)
		w := map[string]interface{}{}
		if to.intKeys && r.Bool() {
			m := map[int64]interface{}{}
			for i := 0; i < n; i++ {
				key := int64(r.Intn(2000) - 1000)
				m[key], w[strconv.FormatInt(key, 10)] = randTree(r, depth+1, o, to)
			}
			return m, w
		}
		m := map[string]interface{}{}
		for i := 0; i < n; i++ {
			key := toValid(randGoString(r)) // distinct Go strings could collide after sanitising
			m[key], w[key] = randTree(r, depth+1, o, to)
		}
		return m, w
	}
}

func randJSONOpts(r *vh.Rng) vh.Opts {
	o := vh.Opts{}
	if r.Bool() {
		o["HTMLCharsAsIs"] = true
	}
	if r.Chance(1, 3) {
		o["Indent"] = r.PickInt(-1, 1, 2, 4)
	}
	if r.Chance(1, 3) {
		o["IntegerAsString"] = string(rune(r.PickInt('A', 'L')))
	}
	if r.Chance(1, 3) {
		o["MapKeyAsString"] = true
	}
	if r.Chance(1, 3) {
		o["TermWhitespace"] = true
	}
	if r.Chance(1, 4) {
		o["Canonical"] = true
	}
	return o
}

func stdDecodeNumber(b []byte) (interface{}, error) {
	d := stdjson.NewDecoder(bytes.NewReader(b))
	d.UseNumber()
	var x interface{}
	if err := d.Decode(&x); err != nil {
		return nil, err
	}
	// nothing but whitespace may follow
	if rest, _ := io.ReadAll(d.Buffered()); len(bytes.TrimSpace(rest)) != 0 {
		return nil, fmt.Errorf("trailing data")
	}
	return x, nil
}

// no arrays: [N]uint8 is written as a base64 string here and as a list of numbers by encoding/json (C01/C16 territory)
var docTypeOpts = vh.TypeOpts{MaxDepth: 3, NoTime: true, NoBytes: true, NoArray: true, StringKeys: true}

func docStream(r *vh.Rng, n int, sum *vh.Summary) {
	for i := 0; i < n; i++ {
		o := randJSONOpts(r)
		// ---- schema-less tree
		v, want := randTree(r, 0, o, treeOpts{intKeys: o["MapKeyAsString"] == true})
		out, err := encodeJSON(v, o)
		cj := map[string]interface{}{"opts": o.String(), "out": string(out), "seed_index": i}
		if len(out) > 600 {
			cj["out"] = string(out[:600]) + "…"
		}
		if err != nil {
			sum.FailC("doc", "doc:tree", "encoding a JSON-representable value failed", cj)
		} else if !stdjson.Valid(out) {
			sum.FailC("doc", "doc:tree:valid", "output is not a valid JSON document", cj)
		} else if x, e := stdDecodeNumber(out); e != nil || !reflect.DeepEqual(normStd(x), want) {
			sum.FailC("doc", "doc:tree:std-roundtrip", "encoding/json decodes the output to a different value", cj)
		} else {
			// our own decoder reads the same text back to the same document
			var back interface{}
			if _, e := decodeBytes(out, o, &back); e != nil && hasNegIntBelowInt64(out) {
				sum.FailC("doc", "naked:negative-int-below-int64", "a negative integer literal below -2^63 is rejected into interface{} (encoding/json returns the float64)", cj)
			} else if e != nil || !reflect.DeepEqual(normOurs(back), normStd(x)) {
				sum.FailC("doc", "doc:tree:self", "our decoder reads our output differently from encoding/json", cj)
			}
		}
		// reverse: encoding/json's text for the value decodes here to the same document
		if _, isIntMap := v.(map[int64]interface{}); !isIntMap {
			if sm, e := stdjson.Marshal(v); e == nil {
				x, e1 := stdDecodeNumber(sm)
				var back interface{}
				_, e2 := decodeBytes(sm, nil, &back)
				if e2 != nil && hasNegIntBelowInt64(sm) {
					cj["std_out"] = string(sm)
					sum.FailC("doc", "naked:negative-int-below-int64", "a negative integer literal below -2^63 is rejected into interface{} (encoding/json returns the float64)", cj)
					delete(cj, "std_out")
				} else if e1 != nil || e2 != nil || !reflect.DeepEqual(normOurs(back), normStd(x)) {
					cj["std_out"] = string(sm)
					sum.FailC("doc", "doc:tree:reverse", "encoding/json's output decodes here to a different value", cj)
					delete(cj, "std_out")
				}
				if i%3 == 0 {
					var back2 interface{}
					if e3 := decodeIO(r, sm, nil, &back2); (e3 != nil || !reflect.DeepEqual(normOurs(back2), normStd(x))) && !hasNegIntBelowInt64(sm) {
						cj["std_out"] = string(sm)
						sum.FailC("doc", "doc:tree:reverse:io", "encoding/json's output decodes here (io) to a different value", cj)
						delete(cj, "std_out")
					}
				}
			}
		}
		sum.Count("doc.tree", fmt.Sprintf("tree/%s/%d/%T", o.String(), len(out)/16, v))

		// ---- static types built with reflect (no IntegerAsString: encoding/json cannot read quoted ints)
		o2 := vh.Opts{}
		for k, x := range o {
			if k != "IntegerAsString" {
				o2[k] = x
			}
		}
		t := vh.RandType(r, docTypeOpts, 0)
		val := vh.RandValue(r, t, vh.ValOpts{NoNaN: true, NoInf: true, MaxLen: 4, ValidUTF8: true})
		out2, err := encodeJSON(val.Interface(), o2)
		cj2 := map[string]interface{}{"opts": o2.String(), "type": t.String(), "out": string(out2), "seed_index": i}
		if len(out2) > 600 {
			cj2["out"] = string(out2[:600]) + "…"
		}
		eq := vh.EqOpts{NilEqEmpty: true}
		if err != nil {
			sum.FailC("doc", "doc:typed", "encoding a JSON-representable value failed", cj2)
		} else if !stdjson.Valid(out2) {
			sum.FailC("doc", "doc:typed:valid", "output is not a valid JSON document", cj2)
		} else {
			p := reflect.New(t)
			if e := stdjson.Unmarshal(out2, p.Interface()); e != nil || !vh.DeepEq(p.Elem(), val, eq) {
				if !hasNilInside(val) { // encoding/json keeps a nil pointer/slice/map nil only where the text says null
					cj2["std_err"] = fmt.Sprint(e)
					sum.FailC("doc", "doc:typed:std-roundtrip", "encoding/json decodes the output to a different value", cj2)
				} else {
					sum.Dist["doc.typed.skipped-nil-inside"]++
				}
			}
		}
		if sm, e := stdjson.Marshal(val.Interface()); e == nil {
			p := reflect.New(t)
			_, e2 := decodeBytes(sm, nil, p.Interface())
			if e2 != nil || !vh.DeepEq(p.Elem(), val, eq) {
				if !hasNilInside(val) {
					cj2["std_out"] = string(sm)
					sum.FailC("doc", "doc:typed:reverse", "encoding/json's output decodes here to a different value", cj2)
				}
			}
		}
		sum.Count("doc.typed", fmt.Sprintf("typed/%s/%s/%d", vh.DescribeKind(t), o2.String(), len(out2)/16))
		if i < 1 {
			sum.Sample(cj)
		}
	}
}

// hasNilInside: nil pointers make "same value" depend on conventions (null vs zero) that C19 owns
func hasNilInside(v reflect.Value) bool {
	switch v.Kind() {
	case reflect.Ptr, reflect.Interface:
		if v.IsNil() {
			return true
		}
		if k := v.Elem().Kind(); (k == reflect.Map || k == reflect.Slice) && v.Elem().IsNil() {
			return true // a pointer to a nil map/slice is written as null and comes back as a nil pointer
		}
		return hasNilInside(v.Elem())
	case reflect.Slice, reflect.Array:
		for i := 0; i < v.Len(); i++ {
			if hasNilInside(v.Index(i)) {
				return true
			}
		}
	case reflect.Map:
		for _, k := range v.MapKeys() {
			if hasNilInside(v.MapIndex(k)) {
				return true
			}
		}
	case reflect.Struct:
		for i := 0; i < v.NumField(); i++ {
			if hasNilInside(v.Field(i)) {
				return true
			}
		}
	}
	return false
}

var _ = sort.Strings

func main() {
	nNum := flag.Int("num", 900, "number literals")
	nRaw := flag.Int("raw", 300, "raw byte strings through readFloat")
	nFast := flag.Int("fast", 300, "fast-path (mantissa, exp) pairs")
	nStr := flag.Int("str", 900, "string literals")
	nEnc := flag.Int("enc", 300, "encode-side strings (ints and floats: half each)")
	nDoc := flag.Int("doc", 400, "documents")
	nRefuse := flag.Int("refuse", 300, "number tokens outside the grammar that must stay refused")
	nKeys := flag.Int("keys", 200, "maps with number-like string keys under MapKeyAsString")
	cases := flag.String("cases", "/verif/build/c09/cases", "directory for the model case files")
	flag.Parse()
	r := vh.NewRng(vh.SeedFromEnv())
	sum := vh.NewSummary("num: literals from the JSON number grammar (0-300 leading/trailing zeros, 1-40 significant digits, exponents +-400, boundary mantissas 2^53+-1 2^64+-1, subnormal/overflow boundaries) into float64/float32/interface{} via bytes and io vs strconv.ParseFloat; distinct by (class, fast/slow path, length/8, exp, flags). raw/fast: readFloat and the fast path on arbitrary input (model only). str: string literals over all escape shapes, every (hi|lo) x 6^3 neighbour arrangement, truncated/invalid escapes, followed by other bytes, vs encoding/json.Unmarshal and NumBytesRead; distinct by shape/length/outcome. enc: strings with invalid UTF-8/controls/HTML chars x HTMLCharsAsIs, ints x IntegerAsString, floats (format choice, round trip). doc: schema-less trees and reflect-built types x {HTMLCharsAsIs, Indent, IntegerAsString, MapKeyAsString, TermWhitespace, Canonical}: json.Valid, encoding/json round trip both ways. refuse: number tokens outside the grammar that the decoder refuses today (leading zeros, leading +, second dot, sign inside the mantissa, malformed exponent, strconv-only spellings nan/inf/hex) x {bare, array, map value, float-keyed map key} x {float64, float32, interface{}} x {bytes, io}: must be refused. keys: map[interface{}]interface{} with number-like non-number string keys and real numbers under MapKeyAsString, codec->codec and encoding/json->codec; one model case per distinct key. non-trivial = longer than 2-3 bytes")
	cv := vh.NewCases(*cases, coqHeader, "case", "mismatches", 60)
	numStream(r.Fork(), *nNum, cv, sum, 0)
	rawStream(r.Fork(), *nRaw, cv, sum, 1000000)
	fastStream(r.Fork(), *nFast, cv, sum, 2000000)
	strStream(r.Fork(), *nStr, cv, sum, 3000000)
	encStream(r.Fork(), *nEnc, cv, sum, 4000000)
	rK, rR := r.Fork(), r.Fork()
	docStream(r.Fork(), *nDoc, sum)
	keyStream(rK, *nKeys, cv, sum, 5000000)
	cv.Close()
	refuseStream(rR, *nRefuse, sum)
	sum.Print()
}

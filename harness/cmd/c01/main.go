// c01: correspondence and property oracle for C01 (typed round trip).
//
// Stream "model" (cbor): random static type x value x option vector; the real
// Encoder's bytes are parsed by an independent cbor parser (vh.ParseCbor) into
// the item tree, the real Decoder decodes them into new(T); type, value,
// observed item and decoded value are written as Coq terms for the generic
// model (Generic/Enc.v to_item, Generic/Dec.v of_item) to be evaluated on.
// Stream "oracle": the property itself on the implementation, all five formats,
// random format-specific options, bytes and io transports, plus a sweep of
// container / string lengths around the length-prefix boundaries.
package main

import (
	"bytes"
	"flag"
	"fmt"
	"io"
	"math"
	"reflect"
	"strings"
	"time"

	"verifharness/vh"

	"github.com/ugorji/go/codec"
)

// ---- fixed corpus of named types compiled into the harness ----

type MyInt int32
type MyStr string
type MyF float64
type MyBool bool
type MyU16 uint16
type MySlice []int16
type MyMap map[string]MyInt
type MyArr [3]MyStr
type MyBytes []byte

type Inner struct {
	A int8
	B string `codec:"b"`
	C []MyInt
	D *MyF
}

type Named struct {
	X   MyInt
	Y   MyStr `json:"why"`
	In  Inner
	P   *Inner
	M   map[MyStr]Inner
	S   []Inner
	T   time.Time
	Bs  []byte
	Arr [2]Inner
	PP  **int
	U   MyU16
	Ok  MyBool
	Sl  MySlice
	Mp  MyMap
	Ar  MyArr
}

type Wide struct {
	I8  int8
	I16 int16
	I32 int32
	I64 int64
	I   int
	U8  uint8
	U16 uint16
	U32 uint32
	U64 uint64
	U   uint
	Up  uintptr
	F32 float32
	F64 float64
	S   string
	B   bool
	Bs  []byte
	T   time.Time
	A4  [4]byte
	Fs  []float64
	Ss  []string
	Ms  map[string]string
	Mi  map[int]int
	Pf  *float32
	Pt  *time.Time
	Pb  *[]byte
	Ps  *[]string
}

// embedded structs (oracle stream only: field resolution is C16's)
type Base struct {
	ID   uint32
	Name string
}
type Emb struct {
	Base
	*Inner
	Extra int
	MB    MyBytes
}

var modelCorpus = []reflect.Type{
	reflect.TypeOf(Named{}), reflect.TypeOf(Wide{}), reflect.TypeOf(Inner{}), reflect.TypeOf(MyInt(0)), reflect.TypeOf(MyStr("")),
	reflect.TypeOf(MyF(0)), reflect.TypeOf(MyBool(false)), reflect.TypeOf(MySlice(nil)), reflect.TypeOf(MyMap(nil)), reflect.TypeOf(MyArr{}),
	reflect.TypeOf([]Named(nil)), reflect.TypeOf(map[MyInt]*Named(nil)), reflect.TypeOf((*Wide)(nil)), reflect.TypeOf([2]Wide{}),
	reflect.TypeOf(map[string][]int(nil)), reflect.TypeOf([]map[string]int(nil)), reflect.TypeOf([][]byte(nil)), reflect.TypeOf([]*int(nil)),
	reflect.TypeOf(map[float64]string(nil)), reflect.TypeOf(map[bool]int8(nil)), reflect.TypeOf([]time.Time(nil)), reflect.TypeOf(map[uint8][]byte(nil)),
	reflect.TypeOf([3]int64{}), reflect.TypeOf([]float32(nil)), reflect.TypeOf([]uint64(nil)), reflect.TypeOf([]bool(nil)), reflect.TypeOf([]int8(nil)),
	reflect.TypeOf(map[int32]float64(nil)),
}

// fields beyond byte offset 64K (after a large array) and inside an embedded struct placed there
type FarBase struct {
	FB int16
	FS string
}
type Far struct {
	Pad [66000]byte
	N   int32
	S   string
	L   []int16
	P   *int
	FarBase
	M map[string]int8
}

// calmFar zeroes the padding of a Far value (all but its last byte): a decoder or encoder that mis-addresses the
// fields behind it then reads zeros instead of random bytes as string/slice headers - a wrong value, reported
// with its input, rather than a wild pointer that kills the harness.
func calmFar(v reflect.Value) {
	for v.Kind() == reflect.Ptr && !v.IsNil() {
		v = v.Elem()
	}
	if v.Type() == reflect.TypeOf(Far{}) && v.CanAddr() {
		f := v.Addr().Interface().(*Far)
		last := f.Pad[len(f.Pad)-1]
		f.Pad = [66000]byte{}
		f.Pad[len(f.Pad)-1] = last | 1
	}
}

var oracleCorpus = []reflect.Type{reflect.TypeOf(Emb{}), reflect.TypeOf([]Emb(nil)), reflect.TypeOf(map[string]*Emb(nil)), reflect.TypeOf(MyBytes(nil)),
	reflect.TypeOf(Far{}), reflect.TypeOf((*Far)(nil))}

// ---- options ----

var typeOpts = vh.TypeOpts{MaxDepth: 3, Tags: true}

func randGenericOpts(r *vh.Rng, o vh.Opts) {
	if r.Chance(1, 4) {
		o["NilCollectionToZeroLength"] = true
	}
	if r.Chance(1, 6) {
		o["ErrorIfNoField"] = true
	}
}

func coqOpts(o vh.Opts) string {
	b := func(k string) string { v, _ := o[k].(bool); return vh.CoqBool(v) }
	return fmt.Sprintf("(mkgopts %s %s %s 0%%Z %s)", b("StructToArray"), b("Canonical"), b("NilCollectionToZeroLength"), b("ErrorIfNoField"))
}

func optKey(o vh.Opts) string { return o.String() }

// time precision the formats document
func timeNorm(format string, o vh.Opts) func(time.Time) time.Time {
	switch format {
	case "cbor":
		return func(t time.Time) time.Time {
			if t.IsZero() {
				return t
			}
			return t.UTC().Round(time.Microsecond)
		}
	case "json":
		return jsonTimeNorm(o) // nil unless TimeFormat is set (jsonopt.go)
	}
	return nil
}

func normCfg(format string, o vh.Opts) vh.NormCfg {
	nz, _ := o["NilCollectionToZeroLength"].(bool)
	c := vh.NormCfg{NilToEmpty: nz, Time: timeNorm(format, o)}
	if format == "binc" {
		// binc has one code for a zero float (bincSpZeroFloat): the sign of zero is not kept
		c.F64 = func(f float64) float64 {
			if f == 0 {
				return 0
			}
			return f
		}
		c.F32 = func(f float32) float32 {
			if f == 0 {
				return 0
			}
			return f
		}
	}
	return c
}

func lenClass(n int) string {
	switch {
	case n <= 23:
		return "le23"
	case n <= 31:
		return "24-31"
	case n <= 255:
		return "32-255"
	case n <= 65535:
		return "256-65535"
	}
	return "ge65536"
}

var boundaryLens = map[int]bool{23: true, 24: true, 31: true, 32: true, 255: true, 256: true, 65535: true, 65536: true}

// lengths of every string / bytes / container in v
func lensOf(v reflect.Value, f func(kind string, n int)) {
	t := v.Type()
	if t == vh.TimeType {
		return
	}
	switch t.Kind() {
	case reflect.String:
		f("string", v.Len())
	case reflect.Slice:
		if v.IsNil() {
			return
		}
		if t.Elem().Kind() == reflect.Uint8 {
			f("bytes", v.Len())
			return
		}
		f("slice", v.Len())
		for i := 0; i < v.Len(); i++ {
			lensOf(v.Index(i), f)
		}
	case reflect.Array:
		if t.Elem().Kind() == reflect.Uint8 {
			f("bytearray", v.Len())
			return
		}
		f("array", v.Len())
		for i := 0; i < v.Len(); i++ {
			lensOf(v.Index(i), f)
		}
	case reflect.Map:
		if v.IsNil() {
			return
		}
		f("map", v.Len())
		it := v.MapRange()
		for it.Next() {
			lensOf(it.Key(), f)
			lensOf(it.Value(), f)
		}
	case reflect.Ptr:
		if !v.IsNil() {
			lensOf(v.Elem(), f)
		}
	case reflect.Struct:
		f("struct", t.NumField())
		for i := 0; i < t.NumField(); i++ {
			if t.Field(i).PkgPath == "" {
				lensOf(v.Field(i), f)
			}
		}
	}
}

func boundaryClass(v reflect.Value, sum *vh.Summary, stream string) string {
	mx := 0
	hit := ""
	lensOf(v, func(kind string, n int) {
		if n > mx {
			mx = n
		}
		if boundaryLens[n] {
			sum.Dist[fmt.Sprintf("%s.len%d.%s", stream, n, kind)]++
			hit = fmt.Sprintf("@%d", n)
		}
	})
	return lenClass(mx) + hit
}

func encodeBytes(h codec.Handle, v interface{}) (out []byte, err error) {
	err = codec.NewEncoderBytes(&out, h).Encode(v)
	return
}

func caseJSON(format string, o vh.Opts, t reflect.Type, enc []byte, i int) map[string]interface{} {
	hx := vh.Hex(enc)
	if len(hx) > 4000 {
		hx = hx[:4000] + "..."
	}
	return map[string]interface{}{"format": format, "opts": o.String(), "type": t.String(), "shape": vh.TypeShape(t), "bytes": hx, "seed_index": i}
}

// ---- model stream ----

func modelStream(r *vh.Rng, n int, casesPath string, sum *vh.Summary) {
	hdr := "From Coq Require Import List NArith ZArith.\nFrom Verif Require Import Wire.Item Generic.Types Generic.Enc Generic.Dec C01.Model C01.Corr.\nImport ListNotations."
	cv := vh.NewCases(casesPath, hdr, "case", "mismatches", 60)
	for i := 0; i < n; i++ {
		var t reflect.Type
		if r.Chance(1, 4) {
			t = modelCorpus[r.Intn(len(modelCorpus))]
		} else {
			to := typeOpts
			to.MaxDepth = 1 + r.Intn(4)
			t = vh.StripOmitEmpty(vh.RandType(r, to, 0))
		}
		tyTerm, err := vh.CoqTy(t)
		if err != nil {
			sum.Dist["model.skipped-type"]++
			continue
		}
		vo := vh.ValOpts{BigLens: r.Chance(1, 3), MaxLen: 5, RawStrings: r.Chance(1, 8)}
		v := vh.RandValue(r, t, vo)
		calmFar(v)
		o := vh.RandEncOpts(r, "cbor")
		randGenericOpts(r, o)
		h := vh.NewHandle("cbor", o)
		// vary how the value reaches Encode: by value or through a pointer (addressable)
		var arg interface{} = v.Interface()
		viaPtr := r.Chance(1, 3)
		if viaPtr {
			p := reflect.New(t)
			p.Elem().Set(v)
			arg = p.Interface()
		}
		enc, err := encodeBytes(h, arg)
		cj := caseJSON("cbor", o, t, enc, i)
		cj["via_ptr"] = viaPtr
		if err != nil {
			cj["err"] = err.Error()
			sum.FailC("model", "encode-error:cbor:"+vh.DescribeKind(t), "Encode of a supported value returned an error", cj)
			continue
		}
		obs, perr := vh.ParseCbor(enc)
		if perr != nil {
			cj["err"] = perr.Error()
			sum.FailC("model", "cbor-output-unparseable", "the independent cbor parser rejects the encoder's output", cj)
			continue
		}
		dst := reflect.New(t)
		if err := codec.NewDecoderBytes(enc, h).Decode(dst.Interface()); err != nil {
			cj["err"] = err.Error()
			sum.FailC("model", "decode-error:cbor:"+vh.DescribeKind(t), "Decode of the encoder's own output returned an error", cj)
			continue
		}
		want := vh.Norm(v, normCfg("cbor", o))
		if d := vh.FirstDiff(want, dst.Elem()); d != "" {
			cj["diff"] = d
			sum.FailC("model", "roundtrip:cbor:"+d, "Decode(Encode(v)) differs from v", cj)
		}
		if can, _ := o["Canonical"].(bool); can {
			if bad := unsortedMap(obs); bad != "" {
				cj["unsorted"] = bad
				sum.FailC("model", "canonical-order:cbor:"+bad, "Canonical: the keys of an encoded map are not in ascending order", cj)
			}
		}
		s2r, _ := o["StringToRaw"].(bool)
		cv.Add(fmt.Sprintf("mkcase %d %s %s %s %s %s %s", i, coqOpts(o), vh.CoqBool(s2r), tyTerm, vh.CoqVal(v), obs.Coq(), vh.CoqVal(dst.Elem())))
		sum.ModelCases++
		bc := boundaryClass(v, sum, "model")
		sum.Count("model.cbor", "model/"+vh.TypeShape(t)+"/"+optKey(o)+"/"+bc)
		sum.Dist[fmt.Sprintf("model.typedepth%d", vh.TypeDepth(t))]++
		vh.KindsOf(t, sum.Dist)
		for k, x := range o {
			if b, ok := x.(bool); ok && b {
				sum.Dist["model.opt."+k]++
			}
		}
		obs.Walk(func(it *vh.Item) {
			if it.Indef {
				sum.Dist["model.item.indefinite"]++
			}
			if it.K == vh.IArr || it.K == vh.IMap || it.K == vh.IStr || it.K == vh.IBytes {
				sum.Dist[fmt.Sprintf("model.item.lenhdr%d", it.HdrW)]++
			}
		})
		if i < 2 {
			sum.Sample(cj)
		}
	}
	cv.Close()
}

// keyLess orders two observed scalar keys of the same class; ok=false if the class is not ordered here.
func keyLess(a, b *vh.Item) (less, ok bool) {
	num := func(x *vh.Item) (float64, int64, uint64, int) { // class 1 = integer, 2 = float
		switch x.K {
		case vh.IInt:
			return 0, x.I, 0, 1
		case vh.IUint:
			return 0, 0, x.U, 1
		case vh.IF32:
			return float64(math.Float32frombits(uint32(x.U))), 0, 0, 2
		case vh.IF64:
			return math.Float64frombits(x.U), 0, 0, 2
		}
		return 0, 0, 0, 0
	}
	switch {
	case a.K == vh.IBool && b.K == vh.IBool:
		return !a.B && b.B, true
	case (a.K == vh.IStr || a.K == vh.IBytes) && (b.K == vh.IStr || b.K == vh.IBytes):
		return bytes.Compare(a.S, b.S) < 0, true
	}
	fa, ia, ua, ca := num(a)
	fb, ib, ub, cb := num(b)
	if ca == 1 && cb == 1 {
		switch {
		case a.K == vh.IInt && b.K == vh.IInt:
			return ia < ib, true
		case a.K == vh.IInt:
			return true, true // negative < non-negative
		case b.K == vh.IInt:
			return false, true
		}
		return ua < ub, true
	}
	if ca == 2 && cb == 2 {
		return fa < fb, true
	}
	return false, false
}

// unsortedMap returns a description of the first map in it whose (scalar) keys are not strictly ascending.
func unsortedMap(it *vh.Item) string {
	bad := ""
	it.Walk(func(x *vh.Item) {
		if bad != "" || x.K != vh.IMap {
			return
		}
		for i := 1; i < len(x.M); i++ {
			if less, ok := keyLess(x.M[i-1][0], x.M[i][0]); ok && !less {
				bad = fmt.Sprintf("keykind%d", x.M[i][0].K)
				return
			}
		}
	})
	return bad
}

// ---- oracle stream ----

type onlyReader struct{ r io.Reader }

func (o onlyReader) Read(p []byte) (int, error) { return o.r.Read(p) }

func roundTrip(format string, o vh.Opts, t reflect.Type, v reflect.Value, r *vh.Rng, sum *vh.Summary, stream string, idx int) (encLen int, ok bool) {
	h := newHandle(format, o)
	enc, err := encodeBytes(h, v.Interface())
	cj := caseJSON(format, o, t, enc, idx)
	if err != nil {
		cj["err"] = err.Error()
		sum.FailC(stream, "encode-error:"+format+":"+vh.DescribeKind(t), "Encode of a supported value returned an error", cj)
		return 0, false
	}
	// io transport on the encode side must produce the same bytes
	var buf bytes.Buffer
	if err := codec.NewEncoder(&buf, h).Encode(v.Interface()); err != nil || (!bytes.Equal(buf.Bytes(), enc) && canonicalOrNoMaps(o, t)) {
		cj["err"] = fmt.Sprint(err)
		sum.FailC(stream, "io-encode-differs:"+format, "Encode to an io.Writer differs from Encode to []byte", cj)
	}
	want := vh.Norm(v, normCfg(format, o))
	// decode: bytes transport, then io transport (plain reader, optionally buffered)
	for tr := 0; tr < 2; tr++ {
		dst := reflect.New(t)
		var derr error
		trn := "bytes"
		if tr == 0 {
			derr = codec.NewDecoderBytes(enc, h).Decode(dst.Interface())
		} else {
			trn = "io"
			o2 := vh.Opts{}
			for k, x := range o {
				o2[k] = x
			}
			o2["ReaderBufferSize"] = r.PickInt(0, 0, 1, 7, 64, 4096)
			h2 := newHandle(format, o2)
			derr = codec.NewDecoder(onlyReader{bytes.NewReader(enc)}, h2).Decode(dst.Interface())
			cj["reader_buffer"] = o2["ReaderBufferSize"]
		}
		cj["transport"] = trn
		if derr != nil {
			cj["err"] = derr.Error()
			sum.FailC(stream, "decode-error:"+format+":"+trn+":"+vh.DescribeKind(t), "Decode of the encoder's own output returned an error", cj)
			return len(enc), false
		}
		if d := vh.FirstDiff(want, dst.Elem()); d != "" {
			cj["diff"] = d
			if s2r, _ := o["StringToRaw"].(bool); s2r && format == "json" && plainRoundTrip(format, without(o, "StringToRaw"), t, v) {
				// root cause pinned: the same value and options round-trip once StringToRaw is off
				sum.FailC(stream, "roundtrip:json:StringToRaw", "json with StringToRaw writes a string as base64 and reads it back as the base64 text", cj)
				return len(enc), false
			}
			sum.FailC(stream, "roundtrip:"+format+":"+d, "Decode(Encode(v)) differs from v", cj)
			return len(enc), false
		}
	}
	return len(enc), true
}

func without(o vh.Opts, k string) vh.Opts {
	o2 := vh.Opts{}
	for kk, x := range o {
		if kk != k {
			o2[kk] = x
		}
	}
	return o2
}

// plainRoundTrip: bytes transport only, no reporting.
func plainRoundTrip(format string, o vh.Opts, t reflect.Type, v reflect.Value) bool {
	h := newHandle(format, o)
	enc, err := encodeBytes(h, v.Interface())
	if err != nil {
		return false
	}
	dst := reflect.New(t)
	if codec.NewDecoderBytes(enc, h).Decode(dst.Interface()) != nil {
		return false
	}
	return vh.FirstDiff(vh.Norm(v, normCfg(format, o)), dst.Elem()) == ""
}

func hasMap(t reflect.Type) bool {
	if t == vh.TimeType {
		return false
	}
	switch t.Kind() {
	case reflect.Map:
		return true
	case reflect.Slice, reflect.Array, reflect.Ptr:
		return hasMap(t.Elem())
	case reflect.Struct:
		for i := 0; i < t.NumField(); i++ {
			if hasMap(t.Field(i).Type) {
				return true
			}
		}
	}
	return false
}

func canonicalOrNoMaps(o vh.Opts, t reflect.Type) bool {
	c, _ := o["Canonical"].(bool)
	return c || !hasMap(t)
}

func oracleStream(r *vh.Rng, n int, sum *vh.Summary) {
	for i := 0; i < n; i++ {
		format := vh.Formats[r.Intn(len(vh.Formats))]
		o := vh.RandEncOpts(r, format)
		randGenericOpts(r, o)
		var t reflect.Type
		switch r.Intn(8) {
		case 0:
			t = modelCorpus[r.Intn(len(modelCorpus))]
		case 1:
			t = oracleCorpus[r.Intn(len(oracleCorpus))]
		default:
			to := typeOpts
			to.MaxDepth = 1 + r.Intn(4)
			t = vh.StripOmitEmpty(vh.RandType(r, to, 0))
		}
		vo := vh.ValOpts{BigLens: r.Chance(1, 3), MaxLen: 6}
		if format == "json" {
			vo.NoNaN, vo.NoInf = true, true
		}
		v := vh.RandValue(r, t, vo)
		calmFar(v)
		_, ok := roundTrip(format, o, t, v, r, sum, "oracle", i)
		key := ""
		if ok {
			key = "oracle/" + format + "/" + vh.TypeShape(t) + "/" + optKey(o) + "/" + boundaryClass(v, sum, "oracle")
		}
		sum.Count("oracle."+format, key)
		sum.Dist[fmt.Sprintf("oracle.typedepth%d", vh.TypeDepth(t))]++
		for k, x := range o {
			if b, isb := x.(bool); isb && b {
				sum.Dist["oracle.opt."+format+"."+k]++
			} else if !isb {
				sum.Dist["oracle.opt."+format+"."+k]++
			}
		}
	}
}

// lengthSweep: strings / bytes / slices / maps / arrays whose length sits on a
// length-prefix boundary, every format, a few option vectors each.
func lengthSweep(r *vh.Rng, lens []int, sum *vh.Summary) {
	idx := 0
	for _, format := range vh.Formats {
		for _, L := range lens {
			mk := []reflect.Value{}
			s := strings.Repeat("x", L)
			mk = append(mk, reflect.ValueOf(s))
			mk = append(mk, reflect.ValueOf(r.Bytes(L)))
			i32 := make([]int32, L)
			i8 := make([]int8, L)
			st := make([]struct{ A uint8 }, L)
			for k := range i32 {
				i32[k] = int32(r.U64())
				i8[k] = int8(r.U64())
				st[k].A = uint8(k)
			}
			mk = append(mk, reflect.ValueOf(i32), reflect.ValueOf(i8), reflect.ValueOf(st))
			m := make(map[uint32]uint8, L)
			for k := 0; k < L; k++ {
				m[uint32(k)*2654435761] = uint8(k)
			}
			mk = append(mk, reflect.ValueOf(m))
			ms := make(map[string]bool, L)
			for k := 0; k < L && L <= 256; k++ {
				ms[fmt.Sprintf("k%d", k)] = k%2 == 0
			}
			if L <= 256 {
				mk = append(mk, reflect.ValueOf(ms))
				arr := reflect.New(reflect.ArrayOf(L, reflect.TypeOf(byte(0)))).Elem()
				for k := 0; k < L; k++ {
					arr.Index(k).SetUint(uint64(k))
				}
				mk = append(mk, arr)
				arr2 := reflect.New(reflect.ArrayOf(L, reflect.TypeOf(int16(0)))).Elem()
				mk = append(mk, arr2)
				// a struct with L fields
				fs := make([]reflect.StructField, L)
				for k := range fs {
					fs[k] = reflect.StructField{Name: fmt.Sprintf("F%d", k), Type: reflect.TypeOf(uint8(0))}
				}
				sv := reflect.New(reflect.StructOf(fs)).Elem()
				for k := 0; k < L; k++ {
					sv.Field(k).SetUint(uint64(k % 256))
				}
				mk = append(mk, sv)
			}
			for _, v := range mk {
				o := vh.RandEncOpts(r, format)
				randGenericOpts(r, o)
				t := v.Type()
				_, ok := roundTrip(format, o, t, v, r, sum, "sweep", idx)
				idx++
				key := ""
				if ok {
					key = fmt.Sprintf("sweep/%s/%s/%s/@%d", format, vh.TypeShape(t)[:min(12, len(vh.TypeShape(t)))], optKey(o), L)
				}
				sum.Count("sweep."+format, key)
				sum.Dist[fmt.Sprintf("sweep.len%d", L)]++
			}
		}
	}
}

func main() {
	nModel := flag.Int("model", 500, "model-compared cbor cases")
	nOracle := flag.Int("oracle", 2000, "direct round-trip cases over the five formats")
	big := flag.Bool("big", true, "include the 65535/65536 lengths in the sweep")
	cases := flag.String("cases", "/verif/build/c01/cases", "directory for the model case files")
	flag.Parse()
	r := vh.NewRng(vh.SeedFromEnv())
	sum := vh.NewSummary("model: cbor, random static type (reflect-built structs with rename tags, named-type corpus) x value x generic/driver option vector; real encoder bytes parsed independently into an item tree, real decoder output, both compared with the Coq generic model. oracle/sweep: Decode(Encode(v)) == norm(v) on the implementation for all five formats, bytes and io transports, random format options, lengths on the 23/24/31/32/255/256/65535/65536 boundaries. jsonopt: the same oracle on a fixed product of JsonHandle BytesFormat / TimeFormat lists x byte-string lengths 0..17 and the boundary lengths x shapes x option vectors, and of instants with zero / non-zero nanoseconds and zones (jsonopt.go). distinct_nontrivial = distinct (stream, format, type shape, option vector, boundary class of the largest length [+ exact boundary length hit]) tuples of successful evaluations")
	modelStream(r.Fork(), *nModel, *cases, sum)
	oracleStream(r.Fork(), *nOracle, sum)
	lens := []int{23, 24, 31, 32, 255, 256}
	if *big {
		lens = append(lens, 65535, 65536)
	}
	lengthSweep(r.Fork(), lens, sum)
	edgeStream(r.Fork(), sum)
	jsonOptStream(r.Fork(), *big, sum)
	scratchStream(r.Fork(), sum)
	sum.Print()
}

// scratch.go — stream "scratch": scratch-buffer pressure on ONE Encoder / Decoder (seed-independent).
//
// An Encoder keeps a small free list of scratch buffers (helper.go bytesFreeList, sorted by capacity, size
// classes 8,16,..,64,128,256,..): json takes the largest one for the base64 / hex text of every []byte and
// [N]byte leaf (growing the list by one buffer per new size class), Canonical takes one (get/put) for the
// side-encoded keys of every map whose key type is not a number / string / bool / time and holds it while the
// map's VALUES are being written, the io transport takes its write buffer from the list, and the list survives
// Reset / ResetBytes.  Which buffer a call receives therefore depends on the ORDER and SIZES of the byte-ish
// leaves written before it, inside one value and across successive Encode calls on the same Encoder.  The random
// value generator almost never draws "several []byte of different size classes, then a Canonical map with
// array / struct keys and []byte / string values", and no other stream reuses an Encoder.
//
// Values are programs: a []scrElem whose elements each hold ONE leaf or map (the other fields are nil / empty
// and use no scratch), so a program fixes the order in which scratch is requested.
//
//  1. single Encode ("scratch" through roundTrip: Decode(Encode(v)) == Norm(v), bytes and io transports, io
//     bytes == []byte bytes): every ordered pair (a,b) of []byte lengths around the size classes as they are
//     seen raw (0,1,7,8,9,63,64,65,255,256,257,1023,1024,1025,4096..), through base64 (45/46/48, 189/190,
//     765/766: text + quotes crosses 64, 256, 1024) and through hex (31/32, 127/128, 511/512), followed by every
//     map kind ([2]int8, [3]int16, struct, [5]byte and named-string keys; []byte, string and nested-map values
//     of a size that walks through the classes), strings that need escaping, a [][]byte, a *[70]byte and a
//     trailing []byte.  json on every pair under plain, Canonical and one of Canonical+hex /
//     Canonical+Indent+MapKeyAsString / Canonical+StructToArray+WriterBufferSize in turn; the binary formats under plain and
//     Canonical on a sixth of the pairs (their []byte leaves are written straight through).
//  2. reuse ("scratch" own oracle): windows of six programs encoded one after the other by ONE []byte Encoder and ONE
//     io Encoder of one handle (an Encoder is built for one transport), ResetBytes / Reset(io.Writer) before each
//     Encode, the two taking turns in every pattern, WriterBufferSize 0 / 17 /
//     64 / 300, all five formats, Canonical on / off; each output must (a) equal what a fresh Encoder on a fresh
//     handle writes for the same value (compared when Canonical is on or the value has no map: otherwise map
//     order is free) and (b) decode — with ONE reused Decoder per transport, ResetBytes / Reset(io.Reader), taking turns — to
//     Norm(v).  A failure of (b) is re-tried with a fresh Decoder to name the side that is at fault.
package main

import (
	"bytes"
	"fmt"
	"reflect"
	"strings"
	"unicode/utf8"

	"verifharness/vh"

	"github.com/ugorji/go/codec"
)

type scrK2 [2]int8
type scrK3 [3]int16
type scrKS struct {
	A int8
	B string
}
type scrNS string
type scrKB [5]byte

// one leaf or map per element
type scrElem struct {
	B  []byte
	L  [][]byte
	Mb map[scrK2][]byte
	Mk map[scrKB]string
	Mm map[scrK3]map[scrK2][]byte
	Mn map[scrNS][]byte
	Ms map[scrKS]string
	Pa *[70]byte
	S  string
	Z  []byte
}

var scrType = reflect.TypeOf([]scrElem(nil))

// raw lengths: free-list size classes as seen raw, through base64 (+2 quotes) and through hex (+2 quotes)
var scrSizes = []int{0, 1, 7, 8, 9, 31, 32, 45, 46, 48, 63, 64, 65, 127, 128, 189, 190, 255, 256, 257, 511, 512, 765, 766, 1023, 1024, 1025, 4096, 4097, 5000}

// sizes of map values / strings: walk through the small classes (what fits the buffer the keys sit in)
var scrValSizes = []int{0, 1, 5, 10, 30, 45, 46, 100, 189, 190, 300}

func scrBytes(n, pat int) []byte {
	b := make([]byte, n)
	for i := range b {
		switch pat % 3 {
		case 0:
			b[i] = byte(i*7 + pat*31 + n)
		case 1:
			b[i] = 0xfb + byte(i%5) // base64 text full of '+' and '/'
		default:
			b[i] = byte(pat)
		}
	}
	return b
}

var scrUnits = []string{"x", "\"\\", "\n\t\x01", "<&>", "é世😀", "a\"é\\\n<世"}

// a valid UTF-8 string of at most n bytes (exactly n for the one-byte units) made of the unit repeated
func scrStr(n, kind int) string {
	u := scrUnits[kind%len(scrUnits)]
	var sb strings.Builder
	for sb.Len() < n {
		grew := false
		for _, c := range u {
			if sb.Len()+utf8.RuneLen(c) > n {
				continue
			}
			sb.WriteRune(c)
			grew = true
		}
		if !grew {
			break
		}
	}
	return sb.String()
}

// ---- program elements ----

type scrOp struct {
	kind string // B S L Pa Mb Ms Mn Mk Mm Z
	n    int    // entries (maps, L)
	size int    // leaf length / value length
	pat  int
}

func (o scrOp) String() string {
	switch o.kind {
	case "B", "Z", "S":
		return fmt.Sprintf("%s%d.%d", o.kind, o.size, o.pat)
	case "Pa":
		return "Pa"
	}
	return fmt.Sprintf("%s%dx%d.%d", o.kind, o.n, o.size, o.pat)
}

func (o scrOp) elem() (e scrElem) {
	switch o.kind {
	case "B":
		e.B = scrBytes(o.size, o.pat)
	case "Z":
		e.Z = scrBytes(o.size, o.pat)
	case "S":
		e.S = scrStr(o.size, o.pat)
	case "L":
		e.L = make([][]byte, o.n)
		for i := range e.L {
			e.L[i] = scrBytes(o.size+i*(o.size/2+1), o.pat+i)
		}
	case "Pa":
		e.Pa = new([70]byte)
		copy(e.Pa[:], scrBytes(70, o.pat))
	case "Mb":
		e.Mb = map[scrK2][]byte{}
		for i := 0; i < o.n; i++ {
			e.Mb[scrK2{int8(i + 1), int8(-i)}] = scrBytes(o.size, o.pat+i)
		}
	case "Ms":
		e.Ms = map[scrKS]string{}
		for i := 0; i < o.n; i++ {
			e.Ms[scrKS{A: int8(i - 1), B: scrStr(i%5, o.pat+i)}] = scrStr(o.size, o.pat+i)
		}
	case "Mn":
		e.Mn = map[scrNS][]byte{}
		for i := 0; i < o.n; i++ {
			e.Mn[scrNS(fmt.Sprintf("%d%s", i, scrStr(3+i, o.pat+i)))] = scrBytes(o.size, o.pat+i)
		}
	case "Mk":
		e.Mk = map[scrKB]string{}
		for i := 0; i < o.n; i++ {
			var k scrKB
			copy(k[:], scrBytes(5, o.pat+3*i))
			k[0] = byte(i)
			e.Mk[k] = scrStr(o.size, o.pat+i)
		}
	case "Mm":
		e.Mm = map[scrK3]map[scrK2][]byte{}
		for i := 0; i < o.n; i++ {
			in := map[scrK2][]byte{}
			for j := 0; j < 2+i%2; j++ {
				in[scrK2{int8(j), int8(i)}] = scrBytes(o.size, o.pat+i+j)
			}
			e.Mm[scrK3{int16(i), int16(-300 * i), 7}] = in
		}
	default:
		panic("scratch: unknown op " + o.kind)
	}
	return
}

type scrProg []scrOp

func (p scrProg) String() string {
	s := make([]string, len(p))
	for i, o := range p {
		s[i] = o.String()
	}
	return strings.Join(s, " ")
}

func (p scrProg) value() reflect.Value {
	v := make([]scrElem, len(p))
	for i, o := range p {
		v[i] = o.elem()
	}
	return reflect.ValueOf(v)
}

// the program of the ordered pair (scrSizes[ia], scrSizes[ib])
func scrPairProg(ia, ib int) scrProg {
	a, b := scrSizes[ia], scrSizes[ib]
	k := ia*len(scrSizes) + ib
	vs := func(d int) int { return scrValSizes[(k+d)%len(scrValSizes)] }
	p := scrProg{{"B", 0, a, k}, {"B", 0, b, k + 1}}
	// the order of the map kinds rotates with the pair
	maps := []scrOp{
		{"Mb", 2 + k%4, vs(0), k},
		{"Ms", 2 + k%3, vs(3), k},
		{"Mn", 3, vs(5), k},
		{"Mk", 2 + k%2, vs(7), k},
		{"Mm", 2 + k%2, vs(2), k},
	}
	for i := range maps {
		p = append(p, maps[(i+k)%len(maps)])
		switch (i + k) % 4 {
		case 0:
			p = append(p, scrOp{"S", 0, vs(i), k + i})
		case 1:
			p = append(p, scrOp{"Z", 0, vs(i + 1), k + i})
		case 2:
			if k%5 == 0 {
				p = append(p, scrOp{"Pa", 0, 70, k})
			}
		}
	}
	p = append(p, scrOp{"L", 3, vs(4), k}, scrOp{"Z", 0, b / 2, k + 2})
	return p
}

func capClass(n int) int { // free-list capacity class of a request of n bytes (minimum 64 as in peek)
	c := 64
	for c < n {
		c *= 2
	}
	return c
}

var scrJSONOpts = []vh.Opts{
	{},
	{"Canonical": true},
	{"Canonical": true, "BytesFormat": "hex"},
	{"Canonical": true, "Indent": 2, "MapKeyAsString": true},
	{"Canonical": true, "StructToArray": true, "WriterBufferSize": 64},
}

var scrBinOpts = []vh.Opts{{}, {"Canonical": true}}

// annotate the failure roundTrip has just recorded (if it was kept) with the program that produced the value
func scrAnnotate(sum *vh.Summary, before int, prog string) {
	for i := before; i < len(sum.Failures); i++ {
		sum.Failures[i].Case["program"] = prog
	}
}

func scratchStream(r *vh.Rng, sum *vh.Summary) {
	sum.Rule += ". scratch: the same oracle on programs of []byte / string leaves of lengths around the scratch free-list size classes followed by maps with array / struct / named-string keys and []byte / string / map values (scratch.go), all formats, Canonical on/off; plus windows of six such values on ONE reused Encoder and Decoder (ResetBytes / Reset alternating, WriterBufferSize 0/17/64/300): bytes equal to a fresh Encoder's and decode to Norm(v); distinct = (format, option vector, capacity classes of the two leading leaves, value-size index) resp. (format, option vector, transport pattern, window)"
	idx := 300000
	one := func(format string, o vh.Opts, ia, ib int) {
		p := scrPairProg(ia, ib)
		before := len(sum.Failures)
		_, ok := roundTrip(format, o, scrType, p.value(), r, sum, "scratch", idx)
		idx++
		key := ""
		if ok {
			k := ia*len(scrSizes) + ib
			key = fmt.Sprintf("scratch/%s/%s/%d/%d/%d", format, optKey(o), capClass(scrSizes[ia]), capClass(scrSizes[ib]), k%len(scrValSizes))
		} else {
			scrAnnotate(sum, before, p.String())
		}
		sum.Count("scratch."+format, key)
	}
	for ia := range scrSizes {
		for ib := range scrSizes {
			// plain and Canonical on every pair, the three richer vectors in turn
			one("json", scrJSONOpts[0], ia, ib)
			one("json", scrJSONOpts[1], ia, ib)
			one("json", scrJSONOpts[2+(ia+ib)%3], ia, ib)
			if (ia*7+ib)%6 == 0 {
				for _, format := range vh.Formats {
					if format == "json" {
						continue
					}
					for _, o := range scrBinOpts {
						one(format, o, ia, ib)
					}
				}
			}
		}
	}
	scratchReuse(sum)
}

// ---- reuse of one Encoder / Decoder ----

// the values of the reuse windows: pair programs that leave different sets of buffers behind
func scrReuseProgs() []scrProg {
	var out []scrProg
	n := len(scrSizes)
	for k := 0; k < 40; k++ {
		out = append(out, scrPairProg((k*11+3)%n, (k*17+5)%n))
	}
	return out
}

func scratchReuse(sum *vh.Summary) {
	progs := scrReuseProgs()
	wbs := []int{0, 17, 64, 300}
	win := 0
	for _, format := range vh.Formats {
		for ci := 0; ci < 2; ci++ {
			for start := 0; start+6 <= len(progs); start += 2 {
				o := vh.Opts{}
				if ci == 1 {
					o["Canonical"] = true
				}
				if w := wbs[(start/2)%len(wbs)]; w != 0 {
					o["WriterBufferSize"] = w
				}
				pattern := (start/2*7 + ci*13) % 64 // bit j: Encode j goes to an io.Writer
				ok := scrWindow(format, o, progs[start:start+6], pattern, win, sum)
				key := ""
				if ok {
					key = fmt.Sprintf("scratch-reuse/%s/%s/%06b/%d", format, optKey(o), pattern, start)
				}
				sum.Count("scratch.reuse."+format, key)
				win++
			}
		}
	}
}

func scrWindow(format string, o vh.Opts, progs []scrProg, pattern, win int, sum *vh.Summary) bool {
	h := vh.NewHandle(format, o)
	var out []byte
	var buf bytes.Buffer
	// an Encoder / Decoder is built for one transport (Reset on the other kind panics): one of each, both reused
	encB, encIO := codec.NewEncoderBytes(&out, h), codec.NewEncoder(&buf, h)
	decB, decIO := codec.NewDecoderBytes(nil, h), codec.NewDecoder(bytes.NewReader(nil), h)
	names := make([]string, len(progs))
	for j, p := range progs {
		names[j] = p.String()
	}
	cfg := normCfg(format, o)
	for j, p := range progs {
		v := p.value()
		toIO := pattern>>uint(j)&1 == 1
		var got []byte
		var err error
		if toIO {
			buf.Reset()
			encIO.Reset(&buf)
			err = encIO.Encode(v.Interface())
			got = append([]byte(nil), buf.Bytes()...)
		} else {
			out = nil
			encB.ResetBytes(&out)
			err = encB.Encode(v.Interface())
			got = out
		}
		hx := vh.Hex(got)
		if len(hx) > 4000 {
			hx = hx[:4000] + "..."
		}
		cj := map[string]interface{}{"format": format, "opts": o.String(), "type": scrType.String(), "window": win, "step": j,
			"transports": fmt.Sprintf("%06b (bit j set: Encode j to io.Writer)", pattern), "programs": names, "bytes": hx}
		tr := "bytes"
		if toIO {
			tr = "io"
		}
		if err != nil {
			cj["err"] = err.Error()
			sum.FailC("scratch", "reuse:encode-error:"+format+":"+tr, "Encode on a reused Encoder returned an error for a supported value", cj)
			return false
		}
		fresh, ferr := encodeBytes(vh.NewHandle(format, o), v.Interface())
		if ferr != nil {
			cj["err"] = ferr.Error()
			sum.FailC("scratch", "encode-error:"+format, "Encode of a supported value returned an error", cj)
			return false
		}
		if canonicalOrNoMaps(o, scrType) && !bytes.Equal(got, fresh) {
			fh := vh.Hex(fresh)
			if len(fh) > 4000 {
				fh = fh[:4000] + "..."
			}
			cj["fresh_bytes"] = fh
			sum.FailC("scratch", "reuse:bytes-differ:"+format+":"+tr, "a reused Encoder writes other bytes than a fresh Encoder for the same value and options", cj)
			return false
		}
		want := vh.Norm(v, cfg)
		dst := reflect.New(scrType)
		dtr := "bytes"
		var derr error
		if (win+j)%2 == 0 {
			decB.ResetBytes(got)
			derr = decB.Decode(dst.Interface())
		} else {
			dtr = "io"
			decIO.Reset(onlyReader{bytes.NewReader(got)})
			derr = decIO.Decode(dst.Interface())
		}
		d := ""
		if derr == nil {
			d = vh.FirstDiff(want, dst.Elem())
		}
		if derr != nil || d != "" {
			// which side: a fresh Decoder on the same bytes
			dst2 := reflect.New(scrType)
			side := "encoder"
			if codec.NewDecoderBytes(got, vh.NewHandle(format, o)).Decode(dst2.Interface()) == nil && vh.FirstDiff(want, dst2.Elem()) == "" {
				side = "decoder"
			}
			cj["decode_transport"] = dtr
			if derr != nil {
				cj["err"] = derr.Error()
				sum.FailC("scratch", "reuse:decode-error:"+format+":reused-"+side, "the output of a reused Encoder does not decode (reused Decoder)", cj)
			} else {
				cj["diff"] = d
				sum.FailC("scratch", "reuse:roundtrip:"+format+":reused-"+side, "Decode(Encode(v)) differs from v on a reused Encoder / Decoder", cj)
			}
			return false
		}
	}
	return true
}

// edge.go — a fixed (seed-independent) stream of boundary values that random drawing reaches only by luck:
// instants whose unix seconds sit on byte-width boundaries of the time layouts (binc prunes sign-extension
// bytes, msgpack switches between timestamp 32/64/96, cbor between integer and float), and large omitempty
// arrays / structs that are zero except near their end (the default build tests emptiness by comparing memory
// with a 1024-byte zero block, chunk by chunk).
package main

import (
	"fmt"
	"reflect"
	"time"

	"verifharness/vh"
)

type bigRow struct {
	Cells [160]int64
	Tail  string
}

// BigOmit: omitempty fields larger than the zero block of the unsafe emptiness test
type BigOmit struct {
	Table [300]int32     `codec:"table,omitempty"`
	Wide  [3000]uint8    `codec:"wide,omitempty"`
	Row   bigRow         `codec:"row,omitempty"`
	PRow  *bigRow        `codec:"prow,omitempty"`
	Grid  [40][8]float64 `codec:"grid,omitempty"`
	N     int            `codec:"n,omitempty"`
}

type timeBox struct {
	T  time.Time
	Ts []time.Time
	M  map[string]time.Time
	P  *time.Time
}

func edgeTimes() []time.Time {
	var out []time.Time
	for _, k := range []uint{7, 8, 15, 16, 23, 24, 31, 32, 33, 34, 35} { // |sec| <= 2^35+1: years 881..3058, inside every format's range
		for _, d := range []int64{-1, 0, 1} {
			for _, sign := range []int64{1, -1} {
				sec := sign * ((int64(1) << k) + d)
				for _, ns := range []int64{0, 1, 999999999, 500000000} {
					out = append(out, time.Unix(sec, ns).UTC())
				}
			}
		}
	}
	return out
}

func edgeStream(r *vh.Rng, sum *vh.Summary) {
	idx := 0
	run := func(t reflect.Type, v reflect.Value, what string) {
		for _, format := range vh.Formats {
			for round := 0; round < 2; round++ {
				o := vh.Opts{}
				if round == 1 {
					o = vh.RandEncOpts(r, format)
					randGenericOpts(r, o)
				}
				_, ok := roundTrip(format, o, t, v, r, sum, "edge", idx)
				key := ""
				if ok {
					key = fmt.Sprintf("edge/%s/%s/%d", format, what, round)
				}
				sum.Count("edge."+format, key)
				idx++
			}
		}
	}
	// instants
	ts := edgeTimes()
	for i, tm := range ts {
		if i%4 == 0 { // top level
			run(vh.TimeType, reflect.ValueOf(tm), "time")
		}
		p := tm
		b := timeBox{T: tm, Ts: []time.Time{tm, ts[(i+7)%len(ts)]}, M: map[string]time.Time{"k": tm}, P: &p}
		if i%3 == 0 {
			run(reflect.TypeOf(b), reflect.ValueOf(b), "timebox")
		}
	}
	// sparse large omitempty values: zero but for the last element(s)
	for k := 0; k < 6; k++ {
		var b BigOmit
		switch k {
		case 0:
			b.Table[299] = 7
		case 1:
			b.Wide[2999] = 1
		case 2:
			b.Row.Tail = "x"
		case 3:
			b.PRow = &bigRow{}
			b.PRow.Cells[159] = -1
		case 4:
			b.Grid[39][7] = 0.5
		default:
			b.Table[280], b.Wide[1500], b.Row.Cells[150], b.Grid[20][0] = 1, 2, 3, 4
		}
		run(reflect.TypeOf(b), reflect.ValueOf(b), fmt.Sprintf("bigomit%d", k))
	}
	// symbol ids around the 255/256 boundary, struct-keyed maps with omitempty key fields (edge2.go)
	edge2Stream(r, sum)
}

// edge2.go — more seed-independent shapes for the 'edge' stream (called at the end of edgeStream), with FIXED
// option vectors (the shapes below are only reached under particular options, so they must not depend on a draw):
//
//  1. many distinct map keys / struct field names in ONE Encode call: binc with AsSymbols=1 gives every distinct
//     key of length >= 2 a symbol id in order of first use; ids up to 255 are written in one byte, from 256 on in
//     two (descriptor flag 0x8), both for the DEFINITION of a symbol and for a later REFERENCE to it.  Maps with
//     254/255/256/257/300 keys, written twice in one stream (definitions, then references), as map[string]int,
//     as a struct with that many fields (reflect.StructOf), and as a map with 1-byte keys mixed in (never symbols).
//     Run in every format (the other four see plain strings), Canonical off and on.
//
//  2. maps keyed by STRUCTS whose fields are omitempty (the key is written as a map with only its non-zero
//     fields): a later key omits a field an earlier key had, so whatever the decoder reuses between entries must
//     have been cleared.  Pointer-free keys of several sizes (the decoder keeps such keys in per-type scratch
//     space) and a key with a string field; scalar, struct, string and slice value types; every format that can
//     carry a struct key (cbor, msgpack, binc, simple; json object keys must be strings), Canonical off and on,
//     struct-as-map and struct-as-array.
package main

import (
	"fmt"
	"math"
	"reflect"

	"verifharness/vh"
)

type sk2 struct {
	A int32 `codec:"a,omitempty"`
	B int32 `codec:"b,omitempty"`
}

type sk5 struct {
	I8  int8    `codec:"i8,omitempty"`
	U16 uint16  `codec:"u16,omitempty"`
	F   float64 `codec:"f,omitempty"`
	Ok  bool    `codec:"ok,omitempty"`
	U64 uint64  `codec:"u64,omitempty"`
}

type skArr struct { // 64 bytes: the largest pointer-free key the scratch space takes
	A [7]int64 `codec:"a,omitempty"`
	N int64    `codec:"n,omitempty"`
}

type skStr struct { // not pointer-free: the key holder is a fresh value per entry
	S string `codec:"s,omitempty"`
	N int    `codec:"n,omitempty"`
}

type skNest struct {
	In  sk2   `codec:"in,omitempty"`
	Tag uint8 `codec:"tag,omitempty"`
}

type sv3 struct {
	X int16 `codec:"x,omitempty"`
	Y int16 `codec:"y,omitempty"`
	Z bool  `codec:"z,omitempty"`
}

func symKey(i int) string { return fmt.Sprintf("k%03d", i) }

func manyKeysMap(n int, short bool) map[string]int {
	m := make(map[string]int, n+4)
	for i := 0; i < n; i++ {
		m[symKey(i)] = i - 7
	}
	if short { // 1-byte keys are never symbols and take no id
		m["a"], m["b"], m[""] = -1, -2, -3
	}
	return m
}

func manyFieldsStruct(n int) reflect.Type {
	fs := make([]reflect.StructField, n)
	for i := range fs {
		fs[i] = reflect.StructField{Name: fmt.Sprintf("F%03d", i), Type: reflect.TypeOf(int16(0)), Tag: reflect.StructTag(fmt.Sprintf(`codec:"f%03d"`, i))}
	}
	return reflect.StructOf(fs)
}

func edge2Stream(r *vh.Rng, sum *vh.Summary) {
	idx := 100000
	run := func(format string, o vh.Opts, t reflect.Type, v reflect.Value, what string) {
		_, ok := roundTrip(format, o, t, v, r, sum, "edge", idx)
		key := ""
		if ok {
			key = fmt.Sprintf("edge/%s/%s/%s", format, what, o.String())
		}
		sum.Count("edge."+format, key)
		idx++
	}
	canon := func(o vh.Opts, c bool) vh.Opts {
		o2 := vh.Opts{}
		for k, x := range o {
			o2[k] = x
		}
		if c {
			o2["Canonical"] = true
		}
		return o2
	}

	// ---- 1. symbol ids around the one-byte / two-byte boundary ----
	for _, n := range []int{254, 255, 256, 257, 300} {
		for _, c := range []bool{false, true} {
			for _, format := range vh.Formats {
				optsList := []vh.Opts{{}}
				if format == "binc" {
					optsList = []vh.Opts{{"AsSymbols": 1}, {}}
				}
				for _, o0 := range optsList {
					o := canon(o0, c)
					// the same keys twice in one stream: definitions, then references
					m := manyKeysMap(n, false)
					two := []map[string]int{m, manyKeysMap(n, false)}
					run(format, o, reflect.TypeOf(two), reflect.ValueOf(two), fmt.Sprintf("symkeys%d", n))
					if c && n != 254 && n != 257 {
						// nested: outer keys take ids first, the inner maps cross the boundary; 1-byte keys mixed in
						nest := map[string]map[string]int{"outer-one": manyKeysMap(n-2, true), "outer-two": manyKeysMap(n, true)}
						run(format, o, reflect.TypeOf(nest), reflect.ValueOf(nest), fmt.Sprintf("symnest%d", n))
					}
					if !c && (n == 255 || n == 256 || n == 300) {
						// field names are map keys too (struct as map)
						st := manyFieldsStruct(n)
						sl := reflect.MakeSlice(reflect.SliceOf(st), 2, 2)
						for j := 0; j < 2; j++ {
							for i := 0; i < n; i++ {
								sl.Index(j).Field(i).SetInt(int64(i*(j+1) - 100))
							}
						}
						run(format, o, sl.Type(), sl, fmt.Sprintf("symfields%d", n))
					}
				}
			}
		}
	}

	// ---- 2. struct keys with omitempty fields ----
	type shape struct {
		name string
		v    interface{}
	}
	inf := math.Inf(1)
	shapes := []shape{
		{"sk2-u16", map[sk2]uint16{{1, 2}: 10, {3, 0}: 20, {0, 4}: 30}},
		{"sk2-u16-more", map[sk2]uint16{{1, 2}: 10, {3, 0}: 20, {0, 4}: 30, {0, 0}: 40, {-1, -1}: 50, {0, -1}: 60, {-1, 0}: 70}},
		{"sk2-struct", map[sk2]sv3{{5, 6}: {1, 2, true}, {7, 0}: {0, 3, false}, {0, 8}: {4, 0, false}, {0, 0}: {}}},
		{"sk2-string", map[sk2]string{{1, 2}: "x", {3, 0}: "", {0, 4}: "yy"}},
		{"sk2-slice", map[sk2][]int8{{1, 2}: {1}, {3, 0}: nil, {0, 4}: {}}},
		{"sk2-ptr", map[sk2]*sk2{{1, 2}: {9, 0}, {3, 0}: {0, 9}, {0, 4}: nil}},
		{"sk5-i32", map[sk5]int32{
			{I8: -1, U16: 2, F: 0.5, Ok: true, U64: 1 << 63}: 1,
			{U16: 7}:               2,
			{F: inf}:               3,
			{Ok: true}:             4,
			{U64: 5}:               5,
			{I8: 9}:                6,
			{}:                     7,
			{I8: 1, U64: 1}:        8,
			{U16: 65535, Ok: true}: 9,
		}},
		{"skarr-bool", map[skArr]bool{
			{A: [7]int64{1, 2, 3, 4, 5, 6, 7}, N: 8}: true,
			{N: 9}:                                   false,
			{A: [7]int64{0, 0, 0, 0, 0, 0, -1}}:      true,
			{}:                                       false,
		}},
		{"skstr-u8", map[skStr]uint8{{"ab", 1}: 1, {"", 2}: 2, {"cd", 0}: 3, {"", 0}: 4}},
		{"sknest-i64", map[skNest]int64{{sk2{1, 2}, 3}: 1, {sk2{0, 4}, 0}: 2, {sk2{}, 5}: 3, {sk2{6, 0}, 0}: 4}},
		{"nested-maps", []map[sk2]uint16{{{1, 2}: 1, {3, 0}: 2}, {{0, 4}: 3, {5, 6}: 4, {0, 0}: 5}, nil}},
		{"inner-sk", map[string]map[sk2]sk2{"p": {{1, 2}: {3, 4}, {5, 0}: {0, 6}}, "q": {{0, 7}: {8, 0}, {0, 0}: {}}}},
	}
	for _, format := range []string{"cbor", "msgpack", "binc", "simple"} {
		for _, base := range []vh.Opts{{}, {"Canonical": true}, {"StructToArray": true}, {"Canonical": true, "StructToArray": true}, {"NilCollectionToZeroLength": true}} {
			optsList := []vh.Opts{base}
			if format == "binc" {
				with := canon(base, false)
				with["AsSymbols"] = 1
				optsList = append(optsList, with)
			}
			if format == "cbor" {
				with := canon(base, false)
				with["IndefiniteLength"] = true
				optsList = append(optsList, with)
			}
			for _, o := range optsList {
				for _, s := range shapes {
					v := reflect.ValueOf(s.v)
					run(format, o, v.Type(), v, "structkey-"+s.name)
				}
			}
		}
	}
	// field names that need json escaping, multi-byte characters across indefinite-length chunk boundaries (edge3.go)
	edge3Stream(r, sum)
}

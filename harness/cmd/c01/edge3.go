// edge3.go — further seed-independent shapes of the 'edge' stream (called at the end of edge2Stream):
//
//  3. struct field names containing a character the json encoder must escape (" \ control characters, and
//     < > & unless HTMLCharsAsIs): the field table records per field whether its name needs escaping and the
//     json driver writes the other names through a no-escape fast path.  The unsafe character sits at position
//     0, in the middle, at the end, or is the whole name; fixed types with literal tags and reflect.StructOf
//     types over a character table; top level, nested, in slices / maps / behind pointers, with omitempty;
//     every format (only json escapes), json under default / Canonical / Indent / HTMLCharsAsIs / MapKeyAsString.
//
//  4. cbor IndefiniteLength text strings are written in chunks; a chunk of a TEXT string must itself be valid
//     UTF-8 (RFC 8949 3.2.3) and the library's decoder checks each chunk under ValidateUnicode.  Strings whose
//     2-, 3- and 4-byte characters sit at every offset modulo 4 (and so straddle every fixed chunk boundary),
//     of lengths around the chunk sizes, as values, map keys, struct fields and slice elements, with
//     IndefiniteLength and ValidateUnicode on.
package main

import (
	"fmt"
	"reflect"
	"strconv"
	"strings"

	"verifharness/vh"
)

type escInner struct {
	Q    string `codec:"\"q,omitempty"`
	Back int    `codec:"\\path"`
	Tab  bool   `codec:"\tTabbed"`
	Mid  int8   `codec:"mid\"dle"`
	End  uint16 `codec:"end\\"`
	Lt   string `codec:"<lt"`
	Amp  string `codec:"&amp,omitempty"`
	Only int    `codec:"\""`
	Nl   int    `codec:"\nline"`
	Ok   int    `codec:"plain"`
}

type escOuter struct {
	In   escInner            `codec:"\\in"`
	P    *escInner           `codec:"\"p,omitempty"`
	L    []escInner          `codec:"\tl"`
	M    map[string]escInner `codec:"m"`
	Back string              `codec:"\\"`
}

func escStructOf(names []string) reflect.Type {
	fs := make([]reflect.StructField, len(names))
	for i, n := range names {
		tag := `codec:` + strconv.Quote(n)
		if i%3 == 2 {
			tag = `codec:` + strconv.Quote(n+",omitempty")
		}
		fs[i] = reflect.StructField{Name: fmt.Sprintf("F%02d", i), Type: reflect.TypeOf(int32(0)), Tag: reflect.StructTag(tag)}
	}
	return reflect.StructOf(fs)
}

func edge3Stream(r *vh.Rng, sum *vh.Summary) {
	idx := 200000
	run := func(format string, o vh.Opts, t reflect.Type, v reflect.Value, what string) {
		_, ok := roundTrip(format, o, t, v, r, sum, "edge", idx)
		key := ""
		if ok {
			key = fmt.Sprintf("edge/%s/%s/%s", format, what, o.String())
		}
		sum.Count("edge."+format, key)
		idx++
	}

	// ---- 3. field names that need json escaping ----
	in1 := escInner{Q: "v", Back: 1, Tab: true, Mid: -2, End: 3, Lt: "<", Amp: "&", Only: 4, Nl: 5, Ok: 6}
	in2 := escInner{Back: -1, Only: 7}
	out := escOuter{In: in1, P: &in2, L: []escInner{in2, in1}, M: map[string]escInner{"\\k": in1, "k": in2}, Back: "\\"}
	var shapes []struct {
		name string
		t    reflect.Type
		v    reflect.Value
	}
	add := func(name string, v reflect.Value) {
		shapes = append(shapes, struct {
			name string
			t    reflect.Type
			v    reflect.Value
		}{name, v.Type(), v})
	}
	add("esc-inner", reflect.ValueOf(in1))
	add("esc-inner-sparse", reflect.ValueOf(in2))
	add("esc-outer", reflect.ValueOf(out))
	add("esc-slice", reflect.ValueOf([]escOuter{out, {}}))
	unsafe := []string{"\"", "\\", "\t", "\n", "\r", "\x01", "\x1f", "\b", "\f", "<", ">", "&", "\x7f", "é", " "}
	for ci, c := range unsafe {
		names := []string{c + "head", "mid" + c + "dle", "tail" + c, c, c + c, c + "x" + c, "safe" + strconv.Itoa(ci), "x" + c}
		st := escStructOf(names)
		v := reflect.New(st).Elem()
		for i := 0; i < st.NumField(); i++ {
			v.Field(i).SetInt(int64(i + 1 - 3*(i%2)))
		}
		add(fmt.Sprintf("esc-structof-%d", ci), v)
		if ci%3 == 0 { // nested: the same type inside a slice inside a struct whose own name needs escaping
			ot := reflect.StructOf([]reflect.StructField{
				{Name: "In", Type: st, Tag: reflect.StructTag(`codec:` + strconv.Quote(c+"in"))},
				{Name: "L", Type: reflect.SliceOf(st), Tag: reflect.StructTag(`codec:` + strconv.Quote(c+"l,omitempty"))},
			})
			ov := reflect.New(ot).Elem()
			ov.Field(0).Set(v)
			ov.Field(1).Set(reflect.MakeSlice(reflect.SliceOf(st), 2, 2))
			ov.Field(1).Index(1).Set(v)
			add(fmt.Sprintf("esc-structof-nested-%d", ci), ov)
		}
	}
	for _, format := range vh.Formats {
		optsList := []vh.Opts{{}, {"Canonical": true}}
		if format == "json" {
			optsList = append(optsList, vh.Opts{"Indent": 2}, vh.Opts{"HTMLCharsAsIs": true}, vh.Opts{"Canonical": true, "Indent": -1},
				vh.Opts{"MapKeyAsString": true, "HTMLCharsAsIs": true, "Canonical": true}, vh.Opts{"StructToArray": true}, vh.Opts{"ErrorIfNoField": true})
		} else {
			optsList = append(optsList, vh.Opts{"ErrorIfNoField": true})
		}
		if format == "binc" {
			optsList = append(optsList, vh.Opts{"AsSymbols": 1})
		}
		for _, o := range optsList {
			for _, s := range shapes {
				run(format, o, s.t, s.v, s.name)
			}
		}
	}

	// ---- 4. multi-byte characters across the chunk boundaries of indefinite-length text strings ----
	type strBox struct {
		S  string
		L  []string
		M  map[string]string
		PS *string
	}
	var strs []string
	strs = append(strs, "aaaéaaaé", "é", "aé", "aaé", "aaaé", "aaa😀", "aa€a€")
	for _, ch := range []string{"é", "€", "😀"} {
		for off := 0; off < 8; off++ {
			for _, n := range []int{2, 9, 33, 130, 300, 1100} { // n characters after the ASCII prefix
				strs = append(strs, strings.Repeat("a", off)+strings.Repeat(ch, n))
			}
			strs = append(strs, strings.Repeat("a", off)+strings.Repeat(ch+"aaa", 70)+ch)
		}
	}
	for _, o := range []vh.Opts{
		{"IndefiniteLength": true, "ValidateUnicode": true},
		{"IndefiniteLength": true, "ValidateUnicode": true, "Canonical": true},
		{"IndefiniteLength": true},
		{"ValidateUnicode": true},
	} {
		for i, s := range strs {
			run("cbor", o, reflect.TypeOf(s), reflect.ValueOf(s), "utf8chunk-string")
			if i%5 == 0 {
				s2 := strs[(i+3)%len(strs)]
				b := strBox{S: s, L: []string{s2, s, ""}, M: map[string]string{s: s2, s2: s}, PS: &s2}
				run("cbor", o, reflect.TypeOf(b), reflect.ValueOf(b), "utf8chunk-box")
			}
		}
	}
	// the other formats validate whole strings: the same strings under ValidateUnicode
	for _, format := range []string{"msgpack", "binc", "simple", "json"} {
		for i, s := range strs {
			if i%7 == 0 {
				run(format, vh.Opts{"ValidateUnicode": true}, reflect.TypeOf(s), reflect.ValueOf(s), "utf8-string")
			}
		}
	}
}

// jsonopt.go — stream "jsonopt": the JsonHandle wire options the random option vectors (vh.RandEncOpts) do not
// draw, as a fixed (seed-independent) product of option vectors, shapes and lengths, judged by the same
// round-trip oracle as every other stream (roundTrip: Decode(Encode(v)) == Norm(v), bytes and io transports).
//
//  1. BytesFormat: how a []byte / [N]byte is written as a JSON string. Every single format (default, base64,
//     base64url, base32, base32hex, hex, base16, array), two-entry lists (the first entry encodes, decode tries
//     each in turn), and lists whose first entry is not a format name (documented in json.base.go: the encoder
//     falls back to base64, which is then also tried first on decode) x byte strings of length
//     0,1,2,3,4,5,15,16,17 (the padding / group sizes of base64, base32 and hex) and the length-prefix boundary
//     lengths of the sweep x shapes ([]byte, [N]byte, *[]byte, [][]byte, [][N]byte, map[string][]byte,
//     map[[N]byte]int8, a struct holding all of these) x two byte patterns (one whose base64 text uses the
//     characters '+' '/' that differ between base64 and base64url) x six generic/json option vectors.
//
//  2. TimeFormat: unix / unixmilli / unixmicro / unixnano (a number), layouts (a string), and two-entry lists x
//     instants with zero and non-zero nanoseconds in UTC and fixed zones x shapes (time.Time, *time.Time, a
//     struct with a time field, slice, map value, pointer). Documented loss = the precision of the FIRST entry
//     (the one the encoder uses): jsonTimeNorm.
//
// What is deliberately NOT in the oracle (behaviour of the time package or documented option semantics, each
// checked by hand on the real code):
//   - layouts with a zone ABBREVIATION (MST: RFC850, RFC1123, UnixDate): time.Format writes "+0530" for an
//     unnamed fixed zone and time.Parse does not accept that for MST. A property of the layout, not of the codec.
//   - layouts without a zone, or with minute precision: the instant is not recoverable from the text.
//   - a layout that jsonCheckTimeLayout (json.base.go) rejects is IGNORED by the handle (the default
//     RFC3339Nano is used): the check is time.Parse(layout, layout), which fails for every layout containing
//     "Z07:00" (time.RFC3339 and time.RFC3339Nano themselves) or "_2".  Round trip still holds (the default is
//     exact), so it is outside C01; the stream includes such layouts and expects the precision of the layout
//     that is really in effect (layoutInEffect), counting them in the distribution as jsonopt.time.layout-ignored.
package main

import (
	"fmt"
	"reflect"
	"strings"
	"time"

	"verifharness/vh"

	"github.com/ugorji/go/codec"
)

// newHandle = vh.NewHandle plus the list-valued json options of this stream (vh.NewHandle ignores them:
// it reads BytesFormat only when it is a single string).
func newHandle(format string, o vh.Opts) codec.Handle {
	h := vh.NewHandle(format, o)
	if jh, ok := h.(*codec.JsonHandle); ok {
		if l, ok := o["BytesFormat"].(strList); ok {
			jh.BytesFormat = []string(l)
		}
		if l, ok := o["TimeFormat"].(strList); ok {
			jh.TimeFormat = []string(l)
		}
	}
	return h
}

// strList prints as a,b so that the option vector in a replay reads BytesFormat=hex,base64
type strList []string

func (l strList) String() string { return strings.Join(l, ",") }

// ---- documented time loss under TimeFormat ----

// layouts of the stream and the precision their text carries
var jsonLayouts = []struct {
	layout string
	prec   time.Duration
}{
	{time.RFC3339Nano, 1},
	{time.RFC3339, time.Second},
	{time.RFC1123Z, time.Second},
	{"2006-01-02T15:04:05.000-07:00", time.Millisecond},
	{"2006-01-02T15:04:05.000000Z07:00", time.Microsecond},
	{"2006-01-02 15:04:05.000000000 -0700", 1},
	{"Jan _2 2006 15:04:05.000 -0700", time.Millisecond},
	// longer than the 48-byte scratch array of the json encoder once formatted
	{"Monday, 02 January 2006 15:04:05.000000000 -07:00", 1},
	{"Monday, 02 January 2006 at 15:04:05.000000 (-07:00)", time.Microsecond},
}

func layoutPrec(l string) time.Duration {
	for _, x := range jsonLayouts {
		if x.layout == l {
			return x.prec
		}
	}
	panic("jsonopt: layout without a stated precision: " + l)
}

// layoutInEffect: the layout the handle uses for the first TimeFormat entry (see the header): one that does not
// parse itself is dropped and RFC3339Nano takes its place.
func layoutInEffect(l string) (string, bool) {
	if _, err := time.Parse(l, l); err != nil {
		return time.RFC3339Nano, false
	}
	return l, true
}

func floorTo(t time.Time, prec time.Duration) time.Time {
	if prec <= 1 {
		return t
	}
	// time.Nanosecond() is the non-negative offset within the second, also before 1970: this is the floor
	return t.Add(-time.Duration(int64(t.Nanosecond()) % int64(prec)))
}

// jsonTimeNorm: the documented loss of a json time under TimeFormat = precision of the entry that encodes.
func jsonTimeNorm(o vh.Opts) func(time.Time) time.Time {
	l, ok := o["TimeFormat"].(strList)
	if !ok || len(l) == 0 {
		return nil
	}
	var prec time.Duration
	switch l[0] {
	case "unix":
		prec = time.Second
	case "unixmilli":
		prec = time.Millisecond
	case "unixmicro":
		prec = time.Microsecond
	case "unixnano":
		prec = 1
	default:
		eff, _ := layoutInEffect(l[0])
		prec = layoutPrec(eff)
	}
	return func(t time.Time) time.Time {
		if t.IsZero() {
			return t
		}
		return floorTo(t, prec)
	}
}

// ---- the stream ----

var jsonOptVectors = []vh.Opts{
	{},
	{"Canonical": true, "Indent": 2},
	{"StructToArray": true, "NilCollectionToZeroLength": true},
	{"MapKeyAsString": true, "HTMLCharsAsIs": true, "TermWhitespace": true},
	{"IntegerAsString": "A", "Indent": -1},
	{"OptimumSize": true, "MaxInitLen": 4, "Canonical": true},
}

var jsonBytesFormats = []strList{
	nil, // option not set
	{"base64"}, {"base64url"}, {"base32"}, {"base32hex"}, {"hex"}, {"base16"}, {"array"},
	{"hex", "base64"}, {"base64", "hex"}, {"base16", "base32"}, {"base32", "hex"}, {"base32hex", "base64url"},
	{"base64url", "base64"}, {"array", "hex"}, {"hex", "array"},
	{"no-such-format"}, {"no-such-format", "hex"}, // first entry unknown: base64 encodes and is tried first
}

func mergeOpts(a vh.Opts, k string, v interface{}) vh.Opts {
	o := vh.Opts{}
	for kk, x := range a {
		o[kk] = x
	}
	if v != nil {
		o[k] = v
	}
	return o
}

func patBytes(n, pat int) []byte {
	b := make([]byte, n)
	for i := range b {
		if pat == 0 {
			b[i] = byte(0xa0 + i)
		} else {
			b[i] = byte(0xff - 4*(i%2)) // ff fb ff fb ...: base64 "//v/+/..." vs base64url "__v_-_..."
		}
	}
	return b
}

func byteArrayOf(b []byte) reflect.Value {
	a := reflect.New(reflect.ArrayOf(len(b), reflect.TypeOf(byte(0)))).Elem()
	reflect.Copy(a, reflect.ValueOf(b))
	return a
}

// bytesShapes: the values built around one byte string
func bytesShapes(b []byte, withKeys bool) (names []string, vals []reflect.Value) {
	add := func(n string, v reflect.Value) { names, vals = append(names, n), append(vals, v) }
	L := len(b)
	half := append([]byte{}, b[:L/2]...)
	rev := make([]byte, L)
	for i := range b {
		rev[L-1-i] = b[i]
	}
	arr := byteArrayOf(b)
	add("bytes", reflect.ValueOf(b))
	add("bytearray", arr)
	pb := b
	add("ptr", reflect.ValueOf(&pb))
	add("named", reflect.ValueOf(MyBytes(b)))
	add("slice", reflect.ValueOf([][]byte{b, half, {}, nil, rev}))
	sa := reflect.MakeSlice(reflect.SliceOf(arr.Type()), 2, 2)
	sa.Index(0).Set(arr)
	sa.Index(1).Set(byteArrayOf(rev))
	add("slicearr", sa)
	add("map", reflect.ValueOf(map[string][]byte{"a": b, "bb": rev, "": half, "nil": nil}))
	if withKeys && L > 0 {
		mk := reflect.MakeMap(reflect.MapOf(arr.Type(), reflect.TypeOf(int8(0))))
		mk.SetMapIndex(arr, reflect.ValueOf(int8(1)))
		mk.SetMapIndex(byteArrayOf(append([]byte{b[0] ^ 1}, b[1:]...)), reflect.ValueOf(int8(-2)))
		add("mapkey", mk)
	}
	if L <= 256 {
		st := reflect.StructOf([]reflect.StructField{
			{Name: "B", Type: reflect.TypeOf([]byte(nil))},
			{Name: "A", Type: arr.Type(), Tag: `codec:"arr"`},
			{Name: "P", Type: reflect.TypeOf((*[]byte)(nil))},
			{Name: "N", Type: reflect.TypeOf(MyBytes(nil))},
			{Name: "M", Type: reflect.TypeOf(map[string][]byte(nil))},
			{Name: "L", Type: reflect.TypeOf([][]byte(nil))},
			{Name: "S", Type: reflect.TypeOf("")},
			{Name: "Z", Type: reflect.TypeOf([]byte(nil))}, // stays nil
			{Name: "I", Type: reflect.TypeOf(int16(0))},
		})
		sv := reflect.New(st).Elem()
		sv.Field(0).SetBytes(b)
		sv.Field(1).Set(arr)
		sv.Field(2).Set(reflect.ValueOf(&rev))
		sv.Field(3).Set(reflect.ValueOf(MyBytes(half)))
		sv.Field(4).Set(reflect.ValueOf(map[string][]byte{"k": b}))
		sv.Field(5).Set(reflect.ValueOf([][]byte{rev, b}))
		sv.Field(6).SetString("s<" + string(rune('a'+L%26)))
		sv.Field(8).SetInt(int64(-L))
		add("struct", sv)
		add("structptr", sv.Addr())
	}
	return
}

type jTimeBox struct {
	T  time.Time
	Ts []time.Time
	M  map[string]time.Time
	P  *time.Time
	Z  time.Time // stays zero: written as null
	N  int
}

func jsonOptTimes() []time.Time {
	var out []time.Time
	zones := []*time.Location{time.UTC, time.FixedZone("", 5*3600+1800), time.FixedZone("X", -8*3600), time.FixedZone("", 14*3600)}
	k := 0
	// years 1684..2255: inside the range of UnixNano
	for _, sec := range []int64{-9000000000, -2208988800, -86401, -1, 0, 1, 999999999, 1700000000, 4102444800, 9000000000} {
		for _, ns := range []int64{0, 1, 999, 1000, 999999, 1000000, 123456789, 500000000, 999999999} {
			out = append(out, time.Unix(sec, ns).In(zones[k%len(zones)]))
			k++
		}
	}
	return out
}

func jsonOptStream(r *vh.Rng, big bool, sum *vh.Summary) {
	idx := 300000
	run := func(o vh.Opts, v reflect.Value, key string) {
		_, ok := roundTrip("json", o, v.Type(), v, r, sum, "jsonopt", idx)
		idx++
		if !ok {
			// the failure itself was reported by roundTrip (5 kept per class); the distribution keeps the full picture
			sum.Dist["jsonopt.FAILED."+key[strings.Index(key, "/")+1:strings.LastIndex(key, "/")]]++
			key = ""
		}
		sum.Count("jsonopt.json", key)
	}

	// ---- 1. BytesFormat ----
	lens := []int{0, 1, 2, 3, 4, 5, 15, 16, 17, 23, 24, 31, 32, 255, 256}
	for _, bf := range jsonBytesFormats {
		var bfv interface{}
		bfn := "unset"
		if bf != nil {
			bfv, bfn = bf, bf.String()
		}
		for _, L := range lens {
			for pat := 0; pat < 2; pat++ {
				names, vals := bytesShapes(patBytes(L, pat), L <= 17)
				for oi, base := range jsonOptVectors {
					if L > 32 && oi%2 == 1 {
						continue
					}
					o := mergeOpts(base, "BytesFormat", bfv)
					for si, v := range vals {
						run(o, v, fmt.Sprintf("jsonopt/bytes/%s/%s/o%d/@%d", bfn, names[si], oi, L))
					}
				}
				sum.Dist[fmt.Sprintf("jsonopt.bytes.len%d", L)]++
			}
			sum.Dist["jsonopt.bytes.fmt."+bfn]++
		}
		if big {
			for _, L := range []int{65535, 65536} {
				b := r.Bytes(L)
				o := mergeOpts(jsonOptVectors[0], "BytesFormat", bfv)
				run(o, reflect.ValueOf(b), fmt.Sprintf("jsonopt/bytes/%s/bytes/o0/@%d", bfn, L))
				run(o, reflect.ValueOf(map[string][]byte{"k": b}), fmt.Sprintf("jsonopt/bytes/%s/map/o0/@%d", bfn, L))
			}
		}
	}

	// ---- 2. TimeFormat ----
	var tfs []strList
	for _, u := range []string{"unix", "unixmilli", "unixmicro", "unixnano"} {
		tfs = append(tfs, strList{u})
	}
	for _, l := range jsonLayouts {
		tfs = append(tfs, strList{l.layout})
		if _, ok := layoutInEffect(l.layout); !ok {
			sum.Dist["jsonopt.time.layout-ignored"]++
		}
	}
	tfs = append(tfs,
		strList{"unix", time.RFC1123Z}, strList{"unixmilli", "2006-01-02T15:04:05.000-07:00"},
		strList{time.RFC1123Z, "unixnano"}, strList{"2006-01-02T15:04:05.000-07:00", time.RFC1123Z},
		strList{time.RFC1123Z, "2006-01-02 15:04:05.000000000 -0700"})
	times := jsonOptTimes()
	for ti, tf := range tfs {
		for i, tm := range times {
			p := tm
			other := times[(i*7+3)%len(times)]
			box := jTimeBox{T: tm, Ts: []time.Time{tm, {}, other}, M: map[string]time.Time{"k": tm, "o": other}, P: &p, N: i}
			pp := &p
			shapes := []struct {
				n string
				v reflect.Value
			}{
				{"time", reflect.ValueOf(tm)},
				{"ptr", reflect.ValueOf(&p)},
				{"ptrptr", reflect.ValueOf(&pp)},
				{"box", reflect.ValueOf(box)},
				{"slice", reflect.ValueOf([]time.Time{other, tm})},
				{"map", reflect.ValueOf(map[int8]time.Time{1: tm, -1: other})},
			}
			base := jsonOptVectors[(i+ti)%len(jsonOptVectors)]
			o := mergeOpts(base, "TimeFormat", tf)
			nsClass := "ns0"
			if tm.Nanosecond() != 0 {
				nsClass = "ns+"
			}
			_, off := tm.Zone()
			for _, s := range shapes {
				run(o, s.v, fmt.Sprintf("jsonopt/time/%s/%s/%s/off%d/sec%d", tf.String(), s.n, nsClass, off, tm.Unix()))
			}
		}
		sum.Dist["jsonopt.time.fmt."+tf.String()]++
	}
	// both options at once, with the zero time and nil bytes
	type both struct {
		T time.Time
		B []byte
		U time.Time
		C []byte
		A [3]byte
	}
	for _, bf := range []strList{{"hex"}, {"base32"}, {"array"}, {"base64url", "hex"}} {
		for _, tf := range []strList{{"unixmilli"}, {time.RFC1123Z}, {"unix", time.RFC1123Z}} {
			for L := 0; L <= 5; L++ {
				v := both{T: times[L*9+6], B: patBytes(L, 1), A: [3]byte{1, 2, byte(L)}}
				o := mergeOpts(mergeOpts(jsonOptVectors[L%len(jsonOptVectors)], "BytesFormat", bf), "TimeFormat", tf)
				run(o, reflect.ValueOf(v), fmt.Sprintf("jsonopt/both/%s/%s/@%d", bf.String(), tf.String(), L))
			}
		}
	}
}

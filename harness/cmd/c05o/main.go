// c05o: correspondence for field addressing (C05/Layout.v). For struct types whose
// fields sit at small, medium and large byte offsets (large arrays in front of them,
// up to several MB) it records, per field, the offset reflect reports and the offset
// the codec stored in structFieldInfoNode.offset (hook VerifFieldOffsets), checks
// them against each other directly and writes the pair as a case for the Coq model.
package main

import (
	"flag"
	"fmt"
	"reflect"

	"verifharness/vh"

	"github.com/ugorji/go/codec"
)

var padSizes = []int{0, 1, 7, 200, 4096, 65528, 65535, 65536, 65537, 66000, 131072, 1 << 20, 3<<20 + 5, 1<<24 + 1}

var leafTypes = []reflect.Type{
	reflect.TypeOf(int8(0)), reflect.TypeOf(int32(0)), reflect.TypeOf(int64(0)), reflect.TypeOf(""), reflect.TypeOf([]int16(nil)),
	reflect.TypeOf(map[string]int(nil)), reflect.TypeOf((*int)(nil)), reflect.TypeOf(float32(0)), reflect.TypeOf([3]uint16{}), reflect.TypeOf(true),
	reflect.TypeOf(struct {
		A int16
		B string
	}{}),
}

func main() {
	n := flag.Int("n", 60, "struct types")
	cases := flag.String("cases", "/verif/build/c05/cases_c05o", "directory for the model case files")
	flag.Parse()
	r := vh.NewRng(vh.SeedFromEnv())
	sum := vh.NewSummary("struct types (reflect.StructOf) with 2-7 fields placed behind byte arrays of 0 B .. 16 MB; per field: reflect offset vs the offset the codec stored for its unsafe field access; distinct by (offset class: <2^16, <2^24, >=2^24; field kind)")
	cv := vh.NewCases(*cases, "From Coq Require Import List NArith ZArith.\nFrom Verif Require Import C05.Layout.\nImport ListNotations.\nOpen Scope Z_scope.", "ocase", "omismatches", 200)
	id := 0
	for i := 0; i < *n; i++ {
		nf := 2 + r.Intn(6)
		var fs []reflect.StructField
		for f := 0; f < nf; f++ {
			if r.Chance(1, 2) {
				pad := padSizes[r.Intn(len(padSizes))]
				if i < len(padSizes) && f == 0 {
					pad = padSizes[i] // every size at least once, first
				}
				fs = append(fs, reflect.StructField{Name: fmt.Sprintf("Pad%d", f), Type: reflect.ArrayOf(pad, reflect.TypeOf(uint8(0)))})
			}
			fs = append(fs, reflect.StructField{Name: fmt.Sprintf("F%d", f), Type: leafTypes[r.Intn(len(leafTypes))]})
		}
		t := reflect.StructOf(fs)
		idx, off := codec.VerifFieldOffsets(t)
		if len(idx) != t.NumField() {
			sum.FailC("offsets", "fields:count", "the codec resolved another number of direct fields than the struct has", map[string]interface{}{"type": t.String(), "resolved": len(idx), "fields": t.NumField()})
		}
		for k := range idx {
			real := uint64(t.Field(idx[k]).Offset)
			cls := "<2^16"
			if real >= 1<<24 {
				cls = ">=2^24"
			} else if real >= 1<<16 {
				cls = "<2^24"
			}
			if real != off[k] {
				sum.FailC("offsets", "offset:"+cls, "the byte offset the codec stored for a field is not the field's offset (the unsafe build reads and writes the field elsewhere)",
					map[string]interface{}{"type": trunc(t.String()), "field": t.Field(idx[k]).Name, "reflect_offset": real, "stored_offset": off[k]})
			}
			cv.Add(fmt.Sprintf("mkoc %d %d %d", id, real, off[k]))
			id++
			sum.ModelCases++
			sum.Count("offset."+cls, fmt.Sprintf("%s/%s", cls, t.Field(idx[k]).Type.Kind()))
			if id%53 == 0 {
				sum.Sample(map[string]interface{}{"field": t.Field(idx[k]).Name, "reflect_offset": real, "stored_offset": off[k]})
			}
		}
	}
	cv.Close()
	sum.Print()
}

func trunc(s string) string {
	if len(s) > 300 {
		return s[:300] + "…"
	}
	return s
}

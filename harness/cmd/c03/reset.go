// Streams about REUSED readers and Decoders.
//
// The property quantifies over how a Reader delivers the bytes; a Decoder that is
// given its Reader through Reset(newReader) after it has read from another Reader
// must read the new bytes like NewDecoderBytes does, whatever happened on the
// previous Reader (drained to io.EOF, failed, truncated, left half-read, ...).
//
// resetunit: one real ioDecReader, resetIO called again (hook ResetIO) between
// operation lists; every segment is a model case (C03/ModelR.v, C03/Corr.v) and is
// judged against bytesDecReader over the segment's own bytes.
// reuse: real Decoders of all five formats through Decoder.Reset.
package main

import (
	"bytes"
	"fmt"
	"io"
	"os"
	"reflect"
	"testing/iotest"
	"time"

	"verifharness/vh"

	"github.com/ugorji/go/codec"
)

// ---- resetunit ----

// how the segment before the reset ended
var segEndings = []string{"untouched", "drained-to-eof", "number-ended-by-eof", "data-with-eof-consumed", "unread-bytes-left",
	"reader-fault", "recording-left-on", "recording-then-eof", "no-progress"}

func rop(kind int, n uint) codec.VerifReadOp { return codec.VerifReadOp{Kind: kind, N: n} }

// fixedEnding builds the segment that leaves the reader in the named condition.
func fixedEnding(name string, bufsize, maxinit int, rbr bool) *unitCase {
	uc := &unitCase{bufsize: bufsize, maxinit: maxinit, rbr: rbr, data: []byte("[1,2]")}
	switch name {
	case "untouched":
	case "drained-to-eof": // the third read asks past the end: io.EOF is reported (and, buffered, remembered as done)
		uc.ops = []codec.VerifReadOp{rop(9, 0), rop(5, 4), rop(0, 0)}
	case "number-ended-by-eof": // no error is ever reported; the buffered reader has seen io.EOF
		uc.data = []byte("  12345")
		uc.ops = []codec.VerifReadOp{rop(9, 0), rop(10, 0)}
	case "data-with-eof-consumed": // the only Read returns (5, io.EOF); everything is consumed, nothing fails
		uc.script = []resp{{4000, true}}
		uc.ops = []codec.VerifReadOp{rop(5, 5)}
	case "unread-bytes-left":
		uc.data = []byte("[1,2] [3,4,5,6,7,8,9,10,11,12,13,14,15,16,17,18,19,20]")
		uc.ops = []codec.VerifReadOp{rop(5, 5), rop(0, 0)}
	case "reader-fault":
		uc.data = []byte("[1,2")
		uc.finHard = true
		uc.ops = []codec.VerifReadOp{rop(0, 0), rop(5, 4)}
	case "recording-left-on":
		uc.ops = []codec.VerifReadOp{rop(0, 0), rop(13, 0), rop(5, 2)}
	case "recording-then-eof":
		uc.ops = []codec.VerifReadOp{rop(0, 0), rop(13, 0), rop(5, 2), rop(5, 10)}
	case "no-progress":
		for k := 0; k < 40; k++ {
			uc.script = append(uc.script, resp{0, false})
		}
		uc.ops = []codec.VerifReadOp{rop(0, 0)}
	}
	return uc
}

// the operation lists of the segment after the reset (fixed grid)
var jsonSegData = []byte("  {\"a\":[10,20],\"b\":\"xyz\"} 77")
var jsonSegOps = []codec.VerifReadOp{rop(9, 0), rop(9, 0), rop(11, 0), rop(9, 0), rop(9, 0), rop(9, 0), rop(10, 0), rop(9, 0), rop(10, 0),
	rop(5, 2), rop(12, 0), rop(0, 0), rop(0, 0), rop(13, 0), rop(12, 0), rop(14, 0), rop(9, 0), rop(9, 0), rop(10, 0)}
var binSegOps = []codec.VerifReadOp{rop(0, 0), rop(1, 0), rop(7, 3), rop(3, 0), rop(13, 0), rop(8, 3), rop(0, 0), rop(14, 0), rop(4, 0), rop(6, 5), rop(0, 0)}

func binSegData() []byte {
	b := make([]byte, 40)
	for k := range b {
		b[k] = byte(k + 1)
	}
	return b
}

// fillBytesObs runs the operation list on a fresh bytesDecReader (the specification).
func fillBytesObs(uc *unitCase) {
	br := codec.NewVerifBytesReader(uc.data)
	uc.bobs = nil
	for k, o := range uc.ops {
		out, tok, err := br.Do(o)
		uc.bobs = append(uc.bobs, obs{out: out, tok: tok, nread: int(br.NumRead()), err: err})
		if err != nil {
			uc.ops = uc.ops[:k+1]
			break
		}
	}
}

// runSeg (re)targets *z onto the segment's scripted reader and runs its operations.
func runSeg(z **codec.VerifIoReader, uc *unitCase) (prevcap, bufcap int, res []obs) {
	fin := io.EOF
	if uc.finHard {
		fin = errHard
	}
	rd, sr := mkReader(uc.data, uc.script, fin, uc.rbr)
	if *z == nil {
		*z = codec.NewVerifIoReader(rd, uc.bufsize, uc.maxinit)
	} else {
		prevcap = (*z).BufCap()
		(*z).ResetIO(rd, uc.bufsize, uc.maxinit)
	}
	bufcap = (*z).BufCap()
	for _, o := range uc.ops {
		out, tok, err := (*z).Do(o)
		res = append(res, obs{out: out, tok: tok, nread: int((*z).NumRead()), drawn: sr.drawn, calls: sr.calls, reqs: sr.reqs, err: err})
		if err != nil {
			break
		}
	}
	return
}

type resetSess struct {
	segs    []*unitCase
	endings []string // how segment k-1 ended (for k >= 1); "" for random
}

func resetUnitStream(r *vh.Rng, nRandom int, cv *vh.Cases, sum *vh.Summary) {
	id := 1000000
	runSess := func(ss *resetSess, emitFirst bool, idx int) {
		var z *codec.VerifIoReader
		prevEnd := "new"
		for k, uc := range ss.segs {
			var prevcap, bufcap int
			var iobs []obs
			cj := uc.json(idx)
			cj["segment"] = k
			cj["previous_segment_ended"] = prevEnd
			if k > 0 {
				p := ss.segs[k-1]
				cj["previous_data"], cj["previous_ops"] = vh.Hex(p.data), p.json(idx)["ops"]
				cj["previous_script"], cj["previous_fin_hard"], cj["previous_bytereader"] = p.json(idx)["script"], p.finHard, p.rbr
			}
			if withWatchdog(10*time.Second, func() { prevcap, bufcap, iobs = runSeg(&z, uc) }) {
				sum.FailC("resetunit", "hang:after-"+prevEnd+":"+shape(uc), "ioDecReader did not return", cj)
				sum.Print()
				os.Exit(0)
			}
			// the oracle: (also) after resetIO the reader reads the NEW bytes like bytesDecReader
			judgeUnit(sum, "resetunit", "after-"+prevEnd+":", uc, iobs, cj)
			if k > 0 {
				if want := max(256, uc.bufsize); bufcap < want || (prevcap >= want && bufcap != prevcap) {
					cj["cap_before"], cj["cap_after"] = prevcap, bufcap
					sum.FailC("resetunit", "bufcap:"+shape(uc), "resetIO did not keep a large-enough buffer / left a too-small one", cj)
				}
			}
			if k > 0 || emitFirst {
				id++
				cv.Add(unitCaseTerm(fmt.Sprint(id), uc, prevcap, bufcap, iobs))
				sum.ModelCases++
			}
			lastop, lastcls, nr := "none", "KNone", 0
			if len(iobs) > 0 {
				last := iobs[len(iobs)-1]
				lastop, lastcls, nr = opNames[uc.ops[len(iobs)-1].Kind], errClass(last.err), last.nread
			}
			if k > 0 {
				sum.Count("resetunit."+lastcls, fmt.Sprintf("after-%s/%s/buf%d/%s/%s/n%d", prevEnd, shape(uc), uc.bufsize, lastop, lastcls, min(nr, 40)/4))
				sum.Dist["resetunit.after-"+prevEnd]++
			}
			// how this segment ended, for the next one
			if k+1 < len(ss.endings) && ss.endings[k+1] != "" {
				prevEnd = ss.endings[k+1]
			} else {
				switch {
				case len(iobs) == 0:
					prevEnd = "untouched"
				case iobs[len(iobs)-1].err != nil:
					prevEnd = "error-" + errClass(iobs[len(iobs)-1].err)
				case nr >= len(uc.data):
					prevEnd = "all-consumed"
				default:
					prevEnd = "unread-bytes-left"
				}
			}
		}
	}
	// the fixed grid
	idx := 0
	for _, bufsize := range []int{0, 1, 2, 3, 7, 16, 64, 256, 300} {
		for ei, ending := range segEndings {
			for _, rbr := range []bool{false, true} {
				type second struct {
					data   []byte
					ops    []codec.VerifReadOp
					script []resp
				}
				one := make([]resp, len(jsonSegData))
				for k := range one {
					one[k] = resp{1, k%3 == 2}
				}
				var three []resp
				for k := 0; k < 20; k++ {
					three = append(three, resp{0, false}, resp{3, k%2 == 0})
				}
				seconds := []second{
					{jsonSegData, jsonSegOps, nil},
					{jsonSegData, jsonSegOps, one},
					{jsonSegData, jsonSegOps, []resp{{4000, true}}},
					{binSegData(), binSegOps, nil},
					{binSegData(), binSegOps, three},
				}
				for si, sec := range seconds {
					first := fixedEnding(ending, bufsize, 0, rbr)
					fillBytesObs(first)
					rbr2 := rbr
					if (si+ei)%4 == 3 { // the reader kind may change across a reset
						rbr2 = !rbr
					}
					uc := &unitCase{bufsize: bufsize, maxinit: 0, rbr: rbr2, data: sec.data, script: sec.script,
						ops: append([]codec.VerifReadOp(nil), sec.ops...)}
					fillBytesObs(uc)
					runSess(&resetSess{segs: []*unitCase{first, uc}, endings: []string{"", ending}}, si == 0, idx)
					idx++
				}
			}
		}
	}
	// random sessions: 2-3 random segments on one reader
	for i := 0; i < nRandom; i++ {
		bufsize := r.PickInt(0, 0, 1, 2, 3, 7, 16, 64, 256, 300)
		maxinit := r.PickInt(0, 0, 0, 1100)
		ss := &resetSess{}
		nseg := 2 + r.Intn(2)
		for k := 0; k < nseg; k++ {
			uc := &unitCase{bufsize: bufsize, maxinit: maxinit, rbr: r.Bool()}
			uc.data = randData(r)
			if r.Chance(1, 12) { // a long read grows the buffer that the next segment inherits
				uc.long = true
				uc.data = r.Bytes(1100 + r.Intn(2200))
				for j := range uc.data {
					if uc.data[j] == 0 {
						uc.data[j] = byte(1 + j%250)
					}
				}
			}
			uc.script = randScript(r, len(uc.data))
			uc.finHard = r.Chance(1, 6)
			genOps(r, uc)
			if k+1 < nseg && r.Chance(1, 3) && uc.bobs[len(uc.bobs)-1].err == nil {
				// drain: one more read, past the end of the data
				nread := uc.bobs[len(uc.bobs)-1].nread
				uc.ops = append(uc.ops, rop(5, uint(len(uc.data)-nread+1)))
				fillBytesObs(uc)
			}
			ss.segs = append(ss.segs, uc)
		}
		runSess(ss, true, idx)
		idx++
	}
}

// ---- reuse (Decoder.Reset) ----

type reuseDoc struct {
	name string
	v    interface{}  // pointer to the value to encode
	t    reflect.Type // destination type
}

type reuseRec struct {
	A string
	B []int16
	C map[string]uint8
	D float64
}

// zeroReader: zero-length reads for ever
type zeroReader struct{}

func (zeroReader) Read(p []byte) (int, error) { return 0, nil }

var reuseHistories = []string{"never-read", "more-input-unread", "drained-to-eof", "data-with-eof", "one-byte-drained", "truncated-eof",
	"truncated-error", "truncated-raw", "zero-length-reads", "deadline", "malformed", "long-value", "number-ended-by-eof"}

var reuseShapes = []string{"all-at-once", "one-byte", "data-with-eof", "two-chunks", "random-chunks-with-empty-reads", "iotest.DataErrReader"}

type onRes struct {
	v    reflect.Value
	err  error
	n    int
	err2 error
	hung bool
}

// decodeOn decodes one value of type t on d. The value may hold views of the
// reader's buffer (C13): it is compared before anything else is read.
func decodeOn(d *codec.Decoder, t reflect.Type) (res onRes) {
	res.hung = withWatchdog(10*time.Second, func() {
		p := reflect.New(t)
		res.err = d.Decode(p.Interface())
		res.n = d.NumBytesRead()
		res.v = p.Elem()
	})
	return
}

// decodeEnd: one more Decode on a stream that held one value; only its error is kept.
func decodeEnd(d *codec.Decoder, t reflect.Type) (err error, hung bool) {
	hung = withWatchdog(10*time.Second, func() { err = d.Decode(reflect.New(t).Interface()) })
	return
}

func reuseStream(r *vh.Rng, nRandom int, sum *vh.Summary) {
	longStr := string(bytes.Repeat([]byte("long-value-0123456789-"), 260)) // 5.7 KB
	for _, format := range vh.Formats {
		o := vh.Opts{}
		enc := func(v interface{}) []byte {
			var b []byte
			if err := codec.NewEncoderBytes(&b, vh.NewHandle(format, o)).Encode(v); err != nil {
				return nil
			}
			return b
		}
		docs := []reuseDoc{
			{"map", &map[string]interface{}{"a": []interface{}{10, 20}, "b": "xyz"}, vh.IfaceType},
			{"ints", &[]int{1, 2}, reflect.TypeOf([]int(nil))},
			{"number", new(int), reflect.TypeOf(0)},
			{"string", new(string), reflect.TypeOf("")},
			{"struct", &reuseRec{A: "alpha", B: []int16{-1, 300}, C: map[string]uint8{"k": 7}, D: 2.5}, reflect.TypeOf(reuseRec{})},
			{"raw", &reuseRec{A: "as-raw", B: []int16{5}}, reflect.TypeOf(codec.Raw(nil))},
		}
		*(docs[2].v.(*int)) = 12345
		*(docs[3].v.(*string)) = "a string of some length, longer than the small buffers"
		for k := 0; k < nRandom; k++ {
			to := apiTypeOpts
			if format == "json" {
				to.StringKeys = true
			}
			t := vh.RandType(r, to, 0)
			v := vh.RandValue(r, t, vh.ValOpts{BigLens: true, NoNaN: true, NoInf: format == "json", MaxLen: 5})
			p := reflect.New(t)
			p.Elem().Set(v)
			docs = append(docs, reuseDoc{fmt.Sprintf("random%d:%s", k, vh.DescribeKind(t)), p.Interface(), t})
		}
		// what the previous Reader held
		first := enc(&[]interface{}{1, 2})
		firstNum := enc(docs[2].v)
		firstLong := enc(&longStr)
		firstRec := enc(docs[4].v)
		if first == nil || firstNum == nil || firstLong == nil || firstRec == nil {
			sum.Count("reuse.encode-error", "")
			continue
		}
		malformed := []byte{0xc1, 0xff, 0xff, 0xff}
		if format == "json" {
			malformed = []byte("}{]")
		}
		for _, rbs := range []int{0, 1, 2, 7, 64, 256, 4096} {
			oo := vh.Opts{"ReaderBufferSize": rbs}
			h := vh.NewHandle(format, oo)
			h0 := vh.NewHandle(format, vh.Opts{})
			bm := "unbuffered"
			if rbs > 0 {
				bm = "buffered"
			}
			for hi, hist := range reuseHistories {
				// ONE Decoder per (format, buffer size, history): every new stream below reaches it through Reset
				d := codec.NewDecoder(bytes.NewReader(nil), h)
				step := 0
				applyHistory := func() (hung bool) {
					rbr := (step+hi)%2 == 0
					mk := func(b []byte, sc []resp, fin error) io.Reader { rd, _ := mkReader(b, sc, fin, rbr); return rd }
					var x interface{}
					var raw codec.Raw
					return withWatchdog(10*time.Second, func() {
						switch hist {
						case "never-read":
							d.Reset(mk(first, nil, io.EOF))
						case "more-input-unread":
							d.Reset(mk(append(append([]byte(nil), first...), firstRec...), nil, io.EOF))
							d.Decode(&x)
						case "drained-to-eof": // the usual stream loop: Decode until io.EOF
							d.Reset(mk(first, nil, io.EOF))
							for k := 0; k < 3 && d.Decode(&x) == nil; k++ {
							}
						case "data-with-eof": // the last data arrives together with io.EOF; no Decode ever fails
							d.Reset(mk(first, []resp{{1 << 30, true}}, io.EOF))
							d.Decode(&x)
						case "one-byte-drained":
							d.Reset(iotest.OneByteReader(mk(first, nil, io.EOF)))
							for k := 0; k < 3 && d.Decode(&x) == nil; k++ {
							}
						case "truncated-eof":
							d.Reset(mk(firstRec[:len(firstRec)/2], nil, io.EOF))
							d.Decode(&x)
						case "truncated-error":
							d.Reset(mk(firstRec[:len(firstRec)/2], nil, errHard))
							d.Decode(&x)
						case "truncated-raw": // fails while the value is being recorded
							d.Reset(mk(firstRec[:len(firstRec)-1], []resp{{3, false}, {2, false}}, io.EOF))
							d.Decode(&raw)
						case "zero-length-reads":
							d.Reset(zeroReader{})
							d.Decode(&x)
						case "deadline":
							d.Reset(&deadlineReader{data: append([]byte(nil), firstRec[:len(firstRec)/2]...)})
							d.Decode(&x)
						case "malformed":
							d.Reset(mk(malformed, nil, io.EOF))
							d.Decode(&x)
						case "long-value": // the buffer grew
							d.Reset(mk(firstLong, nil, io.EOF))
							d.Decode(&x)
						case "number-ended-by-eof": // json: only the end of the input ends a top-level number
							d.Reset(mk(firstNum, nil, io.EOF))
							d.Decode(&x)
						}
					})
				}
				for di, doc := range docs {
					b := enc(doc.v)
					if b == nil {
						sum.Count("reuse.encode-error", "")
						continue
					}
					db := codec.NewDecoderBytes(b, h0)
					want := decodeOn(db, doc.t)
					if want.err == nil && !want.hung {
						want.err2, want.hung = decodeEnd(db, doc.t)
					}
					if want.err != nil || want.hung {
						sum.Count("reuse.bytes-decode-error", "")
						continue
					}
					for si, shp := range reuseShapes {
						step++
						cj := map[string]interface{}{"format": format, "ReaderBufferSize": rbs, "history": hist, "reader": shp, "document": doc.name,
							"destination": doc.t.String(), "bytes": vh.Hex(b[:min(len(b), 200)]), "bytes_len": len(b), "step_on_this_decoder": step}
						cls := fmt.Sprintf("%s:%s:reset-after-%s", format, bm, hist)
						if applyHistory() {
							sum.FailC("reuse", cls, "the Decoder did not return while reading its previous Reader", cj)
							sum.Print()
							os.Exit(0)
						}
						rbr := (si+di+hi)%2 == 1
						cj["bytereader"] = rbr
						var rd io.Reader
						switch shp {
						case "all-at-once":
							rd, _ = mkReader(b, nil, io.EOF, rbr)
						case "one-byte":
							one := make([]resp, len(b))
							for k := range one {
								one[k] = resp{1, false}
							}
							rd, _ = mkReader(b, one, io.EOF, rbr)
						case "data-with-eof":
							rd, _ = mkReader(b, []resp{{1 << 30, true}}, io.EOF, rbr)
						case "two-chunks":
							rd, _ = mkReader(b, []resp{{max(1, len(b)/2), false}, {0, false}, {1 << 30, di%2 == 0}}, io.EOF, rbr)
						case "random-chunks-with-empty-reads":
							rd, _ = mkReader(b, randChunks(r, len(b), 6), io.EOF, rbr)
						default:
							rd = iotest.DataErrReader(plainReader{bytes.NewReader(b)})
						}
						var got onRes
						if withWatchdog(10*time.Second, func() { d.Reset(rd) }) {
							got.hung = true
						} else {
							got = decodeOn(d, doc.t)
						}
						valueOK := !got.hung && got.err == nil && vh.DeepEq(got.v, want.v, vh.EqOpts{})
						if valueOK && got.n == want.n {
							got.err2, got.hung = decodeEnd(d, doc.t)
						}
						switch {
						case got.hung:
							sum.FailC("reuse", cls, "Decode from the reader (after Reset) did not return", cj)
							sum.Print()
							os.Exit(0)
						case got.err != nil:
							cj["io_err_class"] = errClass(got.err)
							sum.FailC("reuse", cls, "Decode from the reader (after Reset) fails where Decode from []byte succeeds", cj)
						case !valueOK:
							sum.FailC("reuse", cls, "Decode from the reader (after Reset) gives a different value than Decode from []byte", cj)
						case got.n != want.n:
							cj["io_numread"], cj["bytes_numread"] = got.n, want.n
							sum.FailC("reuse", cls, "NumBytesRead differs between reader (after Reset) and []byte", cj)
						case got.err2 == nil && want.err2 != nil:
							sum.FailC("reuse", cls, "a second Decode at the end of the stream succeeds from the reader (after Reset) and fails from []byte", cj)
						}
						key := fmt.Sprintf("%s/%d/%s/%s/%s", format, rbs, hist, shp, doc.name)
						if di >= 6 {
							key = fmt.Sprintf("%s/%d/%s/%s/random/len%d", format, rbs, hist, shp, len(b)/8)
						}
						sum.Count("reuse."+format, key)
						sum.Dist["reuse.after-"+hist]++
					}
				}
			}
		}
	}
}

// c03: correspondence and property oracle for C03 (reader independence).
//
// Stream "unit": random decReaderI operation lists against the real ioDecReader
// (through verif_hooks_c03.go) over a scripted io.Reader, and against the real
// bytesDecReader over the same bytes; the observations are written as Coq terms
// for the model (C03/Corr.v) and the property oracle (io == bytes) is applied
// directly.
// Stream "api": real Decoders of all five formats reading valid encodings of
// random typed values through scripted readers versus NewDecoderBytes.
package main

import (
	"bytes"
	"errors"
	"flag"
	"fmt"
	"io"
	"os"
	"reflect"
	"runtime"
	"strings"
	"testing/iotest"
	"time"

	"verifharness/vh"

	"github.com/ugorji/go/codec"
)

var errHard = errors.New("scripted reader fault")

type resp struct {
	k    int
	last bool
}

// scriptReader mirrors rd_read / rd_readbyte of C03/Model.v.
type scriptReader struct {
	data   []byte
	script []resp
	fin    error
	drawn  int
	calls  int
	reqs   int
}

func (r *scriptReader) Read(p []byte) (int, error) {
	r.calls++
	r.reqs += len(p)
	if len(r.script) == 0 {
		if len(r.data) == 0 {
			return 0, r.fin
		}
		n := copy(p, r.data)
		r.data = r.data[n:]
		r.drawn += n
		return n, nil
	}
	x := r.script[0]
	r.script = r.script[1:]
	if x.k == 0 {
		return 0, nil
	}
	if len(r.data) == 0 {
		return 0, r.fin
	}
	k := x.k
	if k > len(p) {
		k = len(p)
	}
	n := copy(p[:k], r.data)
	r.data = r.data[n:]
	r.drawn += n
	if x.last && len(r.data) == 0 {
		return n, r.fin
	}
	return n, nil
}

// scriptByteReader adds ReadByte/UnreadByte (an io.ByteScanner).
type scriptByteReader struct{ *scriptReader }

func (r scriptByteReader) ReadByte() (byte, error) {
	r.calls++
	r.reqs++
	for len(r.script) > 0 {
		x := r.script[0]
		r.script = r.script[1:]
		if x.k == 0 {
			continue
		}
		break
	}
	if len(r.data) == 0 {
		return 0, r.fin
	}
	b := r.data[0]
	r.data = r.data[1:]
	r.drawn++
	return b, nil
}

func (r scriptByteReader) UnreadByte() error { return errors.New("unsupported") }

func mkReader(data []byte, script []resp, fin error, rbr bool) (io.Reader, *scriptReader) {
	sr := &scriptReader{data: append([]byte(nil), data...), script: append([]resp(nil), script...), fin: fin}
	if rbr {
		return scriptByteReader{sr}, sr
	}
	return sr, sr
}

// error classes = constructors of Model.ek
func errClass(err error) string {
	var re runtime.Error
	switch {
	case err == nil:
		return "KNone"
	case errors.Is(err, io.ErrUnexpectedEOF):
		return "KUnexpEof"
	case errors.Is(err, io.EOF):
		return "KEof"
	case errors.Is(err, errHard):
		return "KHard"
	case errors.Is(err, io.ErrNoProgress):
		return "KNoProgress"
	case errors.As(err, &re):
		return "KBounds"
	}
	return "KUnmodelled"
}

var opNames = []string{"readn1", "readn2", "readn3", "readn4", "readn8", "readx", "readxb", "readb", "skip", "skipWhitespace", "jsonReadNum", "jsonReadAsisChars", "jsonReadUntilDblQuote", "startRecording", "stopRecording"}

func coqOp(o codec.VerifReadOp) string {
	switch o.Kind {
	case 0:
		return "Readn1"
	case 1:
		return "Readx 2"
	case 2:
		return "Readx 3"
	case 3:
		return "Readx 4"
	case 4:
		return "Readx 8"
	case 5, 6:
		return fmt.Sprintf("Readx %d", o.N)
	case 7:
		return fmt.Sprintf("Readb %d", o.N)
	case 8:
		return fmt.Sprintf("Skip %d", o.N)
	case 9:
		return "SkipWs"
	case 10:
		return "ReadNum"
	case 11:
		return "ReadAsis"
	case 12:
		return "ReadUntilDQ"
	case 13:
		return "StartRec"
	}
	return "StopRec"
}

func coqList(xs []string) string {
	if len(xs) == 0 {
		return "[]"
	}
	return "[" + strings.Join(xs, ";") + "]"
}

func coqScript(s []resp) string {
	xs := make([]string, len(s))
	for i, r := range s {
		xs[i] = fmt.Sprintf("mkresp %d %s", r.k, vh.CoqBool(r.last))
	}
	return coqList(xs)
}

type obs struct {
	out                       []byte
	tok                       byte
	nread, drawn, calls, reqs int
	err                       error
}

func isNumCh(b byte) bool {
	return (b >= '0' && b <= '9') || b == '.' || b == '+' || b == '-' || b == 'e' || b == 'E'
}

// randData: bytes with enough json-like structure for the scanners to be meaningful
func randData(r *vh.Rng) []byte {
	var n int
	switch r.Intn(12) {
	case 0:
		n = r.Intn(3)
	case 1:
		n = 250 + r.Intn(20)
	case 2:
		n = 300 + r.Intn(900)
	case 3:
		n = 1000 + r.Intn(1400)
	default:
		n = r.Intn(70)
	}
	b := make([]byte, n)
	mode := r.Intn(3)
	for i := range b {
		switch {
		case mode == 0 || r.Chance(1, 6):
			b[i] = byte(r.U64())
		case r.Chance(1, 3):
			b[i] = "0123456789.+-eE"[r.Intn(15)]
		case r.Chance(1, 3):
			b[i] = " \t\r\n\x00\x01\x1f\x20\x21"[r.Intn(9)]
		case r.Chance(1, 3):
			b[i] = "\"\\\"\\abc{}[]:,"[r.Intn(13)]
		default:
			b[i] = byte(32 + r.Intn(96))
		}
	}
	return b
}

func randScript(r *vh.Rng, n int) []resp {
	var l int
	switch r.Intn(5) {
	case 0:
		l = 0
	case 1:
		l = 1 + r.Intn(4)
	default:
		l = 1 + r.Intn(2*n+8)
		if l > 120 {
			l = 120
		}
	}
	s := make([]resp, 0, l)
	mode := r.Intn(6)
	for len(s) < l {
		switch mode {
		case 0: // one byte at a time
			s = append(s, resp{1, r.Chance(1, 3)})
		case 1: // small chunks
			s = append(s, resp{1 + r.Intn(5), r.Bool()})
		case 2: // zero-length reads interspersed, fewer than 16 in a row
			if r.Chance(1, 3) {
				z := 1 + r.Intn(15)
				for j := 0; j < z; j++ {
					s = append(s, resp{0, false})
				}
			}
			s = append(s, resp{1 + r.Intn(4), r.Bool()})
		case 3: // anything, including 16 or more zero-length reads in a row
			if r.Chance(1, 8) {
				z := 14 + r.Intn(5)
				for j := 0; j < z; j++ {
					s = append(s, resp{0, false})
				}
			}
			s = append(s, resp{r.Intn(8), r.Bool()})
		case 4: // large chunks
			s = append(s, resp{r.PickInt(7, 8, 9, 16, 63, 64, 65, 255, 256, 257, 4000), r.Bool()})
		default:
			s = append(s, resp{r.PickInt(0, 1, 1, 2, 3, 4000), r.Bool()})
		}
	}
	return s
}

func abides(s []resp) bool {
	z := 0
	for _, x := range s {
		if x.k == 0 {
			z++
			if z >= 16 {
				return false
			}
		} else {
			z = 0
		}
	}
	return true
}

func randSize(r *vh.Rng, remaining int) uint {
	switch r.Intn(10) {
	case 0:
		return 0
	case 1:
		return uint(remaining + r.Intn(3)) // up to and beyond the end
	case 2:
		return uint(r.PickInt(200, 255, 256, 257, 300, 1023, 1024, 1025, 1500))
	case 3:
		if remaining > 0 {
			return uint(1 + r.Intn(remaining))
		}
		return 1
	}
	return uint(1 + r.Intn(7))
}

type unitCase struct {
	long             bool // long reads: several Read calls and buffer growth inside one operation
	bufsize, maxinit int
	rbr              bool
	data             []byte
	script           []resp
	finHard          bool
	ops              []codec.VerifReadOp
	bobs             []obs // bytes reader
}

// genOps draws an operation list that respects the decReaderI protocol
// (Model.pre_ok) by running the bytes reader alongside.
func genOps(r *vh.Rng, uc *unitCase) {
	br := codec.NewVerifBytesReader(uc.data)
	nops := 1 + r.Intn(12)
	recording := false
	jsonish := r.Bool()
	for i := 0; i < nops; i++ {
		nread := int(br.NumRead())
		remaining := len(uc.data) - nread
		var o codec.VerifReadOp
		for {
			o = codec.VerifReadOp{}
			if uc.long && r.Chance(3, 4) {
				o.Kind = r.PickInt(5, 5, 6, 6, 7, 8, 0)
				if o.Kind != 0 {
					o.N = uint(r.PickInt(1025, 1500, 2049, 2500, 3000, remaining, remaining/2+1, 700))
				}
				if o.Kind != 8 || uc.bufsize > 0 || recording || o.N == 0 {
					break
				}
				continue
			}
			if recording && r.Chance(1, 3) { // close recordings often: what was recorded is the observable
				o.Kind = 14
			} else if !recording && nread > 0 && r.Chance(1, 8) {
				o.Kind = 13
			} else if jsonish {
				o.Kind = r.PickInt(0, 5, 7, 9, 9, 10, 10, 11, 11, 12, 12, 13, 14, 2, 3)
			} else {
				o.Kind = r.PickInt(0, 0, 1, 2, 3, 4, 5, 5, 6, 6, 7, 7, 8, 8, 8, 9, 10, 11, 12, 13, 14, 14)
			}
			ok := true
			switch o.Kind {
			case 5, 6, 7:
				o.N = randSize(r, remaining)
			case 8:
				o.N = randSize(r, remaining)
				ok = uc.bufsize > 0 || recording || o.N == 0
			case 10:
				ok = nread > 0 && nread <= len(uc.data) && isNumCh(uc.data[nread-1])
			case 12:
				for _, c := range uc.data[min(nread, len(uc.data)):] {
					if c == 0 {
						ok = false
					}
					if c == 0 || c == '"' {
						break
					}
				}
			case 13:
				ok = nread > 0
			case 14:
				ok = recording
			}
			if ok {
				break
			}
		}
		out, tok, err := br.Do(o)
		uc.ops = append(uc.ops, o)
		uc.bobs = append(uc.bobs, obs{out: out, tok: tok, nread: int(br.NumRead()), err: err})
		if err != nil {
			return
		}
		if o.Kind == 13 {
			recording = true
		} else if o.Kind == 14 {
			recording = false
		}
	}
}

func runIO(uc *unitCase) (bufcap int, res []obs) {
	fin := io.EOF
	if uc.finHard {
		fin = errHard
	}
	rd, sr := mkReader(uc.data, uc.script, fin, uc.rbr)
	z := codec.NewVerifIoReader(rd, uc.bufsize, uc.maxinit)
	bufcap = z.BufCap()
	for _, o := range uc.ops {
		out, tok, err := z.Do(o)
		res = append(res, obs{out: out, tok: tok, nread: int(z.NumRead()), drawn: sr.drawn, calls: sr.calls, reqs: sr.reqs, err: err})
		if err != nil {
			break
		}
	}
	return
}

func (uc *unitCase) json(i int) map[string]interface{} {
	ops := []interface{}{}
	for _, o := range uc.ops {
		ops = append(ops, fmt.Sprintf("%s(%d)", opNames[o.Kind], o.N))
	}
	sc := []interface{}{}
	for _, x := range uc.script {
		sc = append(sc, []interface{}{x.k, x.last})
	}
	return map[string]interface{}{"bufsize": uc.bufsize, "maxinit": uc.maxinit, "bytereader": uc.rbr, "data": vh.Hex(uc.data),
		"script": sc, "fin_hard": uc.finHard, "ops": ops, "seed_index": i}
}

func shape(uc *unitCase) string {
	s := "unbuffered"
	if uc.bufsize > 0 {
		s = "buffered"
	}
	if uc.rbr {
		s += "/bytereader"
	} else {
		s += "/plain"
	}
	return s
}

// withWatchdog runs f; a run longer than d is a hang.
func withWatchdog(d time.Duration, f func()) (hung bool) {
	done := make(chan struct{})
	go func() { f(); close(done) }()
	select {
	case <-done:
		return false
	case <-time.After(d):
		return true
	}
}

// judgeUnit applies the property oracle (ioDecReader == bytesDecReader over the
// delivered bytes) to one run of an operation list; clsPrefix prefixes the class.
func judgeUnit(sum *vh.Summary, stream, clsPrefix string, uc *unitCase, iobs []obs, cj map[string]interface{}) {
	contract := abides(uc.script)
	for k := range iobs {
		a, b := iobs[k], uc.bobs[k]
		opn := opNames[uc.ops[k].Kind]
		cls := clsPrefix + opn + ":" + shape(uc)
		cj["op_index"] = k
		if a.err == nil && b.err != nil {
			sum.FailC(stream, cls, "ioDecReader succeeds where bytesDecReader fails", cj)
			break
		}
		if a.err != nil && b.err == nil {
			if contract && !uc.finHard {
				sum.FailC(stream, cls, "ioDecReader fails where bytesDecReader succeeds", cj)
			}
			break
		}
		if a.err != nil {
			break
		}
		if !bytes.Equal(a.out, b.out) || a.tok != b.tok {
			cj["io_out"], cj["bytes_out"] = vh.Hex(a.out), vh.Hex(b.out)
			sum.FailC(stream, cls, "ioDecReader and bytesDecReader return different bytes", cj)
			break
		}
		if a.nread != b.nread {
			sum.FailC(stream, cls, "numread differs between ioDecReader and bytesDecReader", cj)
			break
		}
		if uc.bufsize == 0 && a.drawn != a.nread {
			sum.FailC(stream, cls, "unbuffered ioDecReader drew more bytes than it consumed", cj)
			break
		}
	}
	delete(cj, "op_index")
}

// unitCaseTerm is the Coq term of one segment (C03/Corr.v): prevcap = 0 is a new
// reader (mkcase), otherwise cap(z.buf) just before resetIO was called again (mkrcase).
func unitCaseTerm(id string, uc *unitCase, prevcap, bufcap int, iobs []obs) string {
	var ops, ios, bs []string
	for _, o := range uc.ops {
		ops = append(ops, coqOp(o))
	}
	for _, a := range iobs {
		if a.err != nil {
			ios = append(ios, "EErr "+errClass(a.err))
		} else {
			ios = append(ios, fmt.Sprintf("EOk %s %d%%N %d %d %d %d%%N", vh.CoqBytes(a.out), a.tok, a.nread, a.drawn, a.calls, a.reqs))
		}
	}
	for _, b := range uc.bobs {
		if b.err != nil {
			bs = append(bs, "TErr")
		} else {
			bs = append(bs, fmt.Sprintf("TOk %s %d%%N %d", vh.CoqBytes(b.out), b.tok, b.nread))
		}
	}
	fin := "KEof"
	if uc.finHard {
		fin = "KHard"
	}
	if prevcap == 0 {
		return fmt.Sprintf("mkcase %s %d %d %s %s %s %s %s %d %s %s", id, uc.bufsize, uc.maxinit, vh.CoqBool(uc.rbr), vh.CoqBytes(uc.data),
			coqScript(uc.script), fin, coqList(ops), bufcap, coqList(ios), coqList(bs))
	}
	return fmt.Sprintf("mkrcase %s %d %d %s %s %s %s %s %d %d %s %s", id, uc.bufsize, uc.maxinit, vh.CoqBool(uc.rbr), vh.CoqBytes(uc.data),
		coqScript(uc.script), fin, coqList(ops), prevcap, bufcap, coqList(ios), coqList(bs))
}

func unitStream(r *vh.Rng, n int, cv *vh.Cases, sum *vh.Summary) {
	for i := 0; i < n; i++ {
		uc := &unitCase{}
		uc.bufsize = r.PickInt(0, 0, 0, 1, 2, 3, 7, 16, 64, 256, 300)
		uc.maxinit = r.PickInt(0, 0, 0, 1100)
		uc.rbr = r.Bool()
		uc.data = randData(r)
		if i%25 == 7 { // long reads, mostly unbuffered: the scratch buffer grows between the chunks of one read
			uc.long = true
			uc.bufsize = r.PickInt(0, 0, 0, 16, 300)
			uc.data = r.Bytes(1100 + r.Intn(3300))
			for k := range uc.data {
				if uc.data[k] == 0 {
					uc.data[k] = byte(1 + k%250)
				}
			}
		}
		uc.script = randScript(r, len(uc.data))
		uc.finHard = r.Chance(1, 6)
		genOps(r, uc)
		var bufcap int
		var iobs []obs
		cj := uc.json(i)
		if withWatchdog(10*time.Second, func() { bufcap, iobs = runIO(uc) }) {
			sum.FailC("unit", "hang:"+shape(uc), "ioDecReader did not return", cj)
			sum.Print()
			os.Exit(0)
		}
		// the property oracle, directly on the implementation
		contract := abides(uc.script)
		judgeUnit(sum, "unit", "", uc, iobs, cj)
		// the case for the model
		cv.Add(unitCaseTerm(fmt.Sprint(i), uc, 0, bufcap, iobs))
		sum.ModelCases++
		last := iobs[len(iobs)-1]
		lastop := opNames[uc.ops[len(iobs)-1].Kind]
		key := fmt.Sprintf("%s/buf%d/%s/%s/calls%d/n%d", shape(uc), uc.bufsize, lastop, errClass(last.err), min(last.calls, 12), min(last.nread, 40)/4)
		if len(uc.script) == 0 && len(uc.data) < 8 {
			key = ""
		}
		sum.Count("unit."+errClass(last.err), key)
		sum.Dist[fmt.Sprintf("unit.bufsize%d", uc.bufsize)]++
		for _, o := range uc.ops[:len(iobs)] {
			sum.Dist["unit.op."+opNames[o.Kind]]++
		}
		if !contract {
			sum.Dist["unit.script-not-abiding"]++
		}
		if i < 2 {
			sum.Sample(cj)
		}
	}
}

// ---- API stream ----

type plainReader struct{ r io.Reader }

func (p plainReader) Read(b []byte) (int, error) { return p.r.Read(b) }

// deadlineReader yields data and then (0, os.ErrDeadlineExceeded) for ever
// (a net.Conn whose read deadline has passed).
type deadlineReader struct{ data []byte }

func (d *deadlineReader) Read(p []byte) (int, error) {
	if len(d.data) == 0 {
		return 0, os.ErrDeadlineExceeded
	}
	n := copy(p, d.data)
	d.data = d.data[n:]
	return n, nil
}

type countReader struct {
	r     io.Reader
	drawn int
}

func (c *countReader) Read(p []byte) (int, error) {
	n, err := c.r.Read(p)
	c.drawn += n
	return n, err
}

type target struct {
	name string
	t    reflect.Type
}

type decResult struct {
	v    reflect.Value
	err  error
	n    int
	hung bool
	err2 error // of a second Decode on the same Decoder (the stream holds one value)
}

func decodeWith(mk func() *codec.Decoder, t reflect.Type) (res decResult) {
	return decodeWith2(mk, t, false)
}

// with second: a second Decode follows on the same Decoder and only its error is kept
// (values decoded from a reader may alias the reader's buffer: C13, not compared here).
func decodeWith2(mk func() *codec.Decoder, t reflect.Type, second bool) (res decResult) {
	res.hung = withWatchdog(10*time.Second, func() {
		p := reflect.New(t)
		d := mk()
		res.err = d.Decode(p.Interface())
		res.n = d.NumBytesRead()
		res.v = p.Elem()
		if res.err == nil && second {
			res.err2 = d.Decode(reflect.New(t).Interface())
			res.v = reflect.Value{}
		}
	})
	return
}

var noDeadline bool

var apiTypeOpts = vh.TypeOpts{MaxDepth: 3, Tags: true, Iface: true}

func apiStream(r *vh.Rng, n int, maxOff int, sum *vh.Summary) {
	binary := map[string]bool{"cbor": true, "msgpack": true, "binc": true, "simple": true}
	for i := 0; i < n; i++ {
		format := vh.Formats[r.Intn(len(vh.Formats))]
		o := vh.RandEncOpts(r, format)
		to := apiTypeOpts
		if format == "json" {
			to.StringKeys = true
		}
		t := vh.RandType(r, to, 0)
		if r.Chance(1, 5) { // string-keyed maps without a fast path, nested ones
			t = mapKeyTypes[r.Intn(len(mapKeyTypes))]
		}
		v := vh.RandValue(r, t, vh.ValOpts{BigLens: true, NoNaN: format == "json", NoInf: format == "json", MaxLen: 5})
		he := vh.NewHandle(format, o)
		var b []byte
		if err := codec.NewEncoderBytes(&b, he).Encode(v.Interface()); err != nil {
			sum.Count("api.encode-error", "")
			continue
		}
		targets := []target{{"typed", t}, {"raw", reflect.TypeOf(codec.Raw(nil))}, {"iface", vh.IfaceType}}
		tg := targets[r.PickInt(0, 0, 0, 1, 2)]
		mkHandle := func(rbs int) codec.Handle {
			oo := vh.Opts{}
			for k, x := range o {
				oo[k] = x
			}
			oo["ReaderBufferSize"] = rbs
			return vh.NewHandle(format, oo)
		}
		h0 := mkHandle(0)
		want := decodeWith(func() *codec.Decoder { return codec.NewDecoderBytes(b, h0) }, tg.t)
		cj := map[string]interface{}{"format": format, "opts": o.String(), "type": t.String(), "target": tg.name, "bytes": vh.Hex(b), "seed_index": i}
		if want.err != nil {
			sum.Count("api.bytes-decode-error", "")
			continue
		}
		want2 := decodeWith2(func() *codec.Decoder { return codec.NewDecoderBytes(b, h0) }, tg.t, true)
		cmp := func(shape string, rbs int, got decResult, extra map[string]interface{}) bool {
			c2 := map[string]interface{}{"reader": shape, "ReaderBufferSize": rbs}
			for k, x := range cj {
				c2[k] = x
			}
			for k, x := range extra {
				c2[k] = x
			}
			bm := "unbuffered"
			if rbs > 0 {
				bm = "buffered"
			}
			cls := fmt.Sprintf("%s:%s:%s:%s", format, tg.name, bm, strings.SplitN(shape, "@", 2)[0])
			switch {
			case got.hung:
				sum.FailC("api", cls, "Decode from the reader did not return", c2)
			case got.err != nil:
				c2["io_err_class"] = errClass(got.err)
				sum.FailC("api", cls, "Decode from the reader fails where Decode from []byte succeeds", c2)
			case !vh.DeepEq(got.v, want.v, vh.EqOpts{}):
				sum.FailC("api", cls, "Decode from the reader gives a different value than Decode from []byte", c2)
			case got.n != want.n:
				c2["io_numread"], c2["bytes_numread"] = got.n, want.n
				sum.FailC("api", cls, "NumBytesRead differs between reader and []byte", c2)
			default:
				return true
			}
			return false
		}
		rbsList := []int{0, r.PickInt(1, 2, 3), r.PickInt(7, 16, 64), r.PickInt(256, 300, 4096)}
		nshapes := 0
		for _, rbs := range rbsList {
			h := mkHandle(rbs)
			run := func(shape string, mk func() io.Reader, extra map[string]interface{}) decResult {
				nshapes++
				got := decodeWith(func() *codec.Decoder { return codec.NewDecoder(mk(), h) }, tg.t)
				if cmp(shape, rbs, got, extra) && nshapes%3 == 0 {
					g2 := decodeWith2(func() *codec.Decoder { return codec.NewDecoder(mk(), h) }, tg.t, true)
					if g2.hung || (g2.err == nil && g2.err2 == nil && want2.err2 != nil) {
						c2 := map[string]interface{}{"reader": shape, "ReaderBufferSize": rbs}
						for k, x := range cj {
							c2[k] = x
						}
						bm := "unbuffered"
						if rbs > 0 {
							bm = "buffered"
						}
						sum.FailC("api", fmt.Sprintf("%s:%s:%s:second-decode", format, tg.name, bm), "a second Decode at the end of the stream succeeds from the reader and fails from []byte", c2)
					}
				}
				return got
			}
			for _, rbr := range []bool{false, true} {
				sfx := "/plain"
				if rbr {
					sfx = "/bytereader"
				}
				mkS := func(sc []resp) func() io.Reader {
					return func() io.Reader { rd, _ := mkReader(b, sc, io.EOF, rbr); return rd }
				}
				run("all-at-once"+sfx, mkS(nil), nil)
				one := make([]resp, len(b))
				for k := range one {
					one[k] = resp{1, false}
				}
				run("one-byte"+sfx, mkS(one), nil)
				one[len(one)-1].last = true
				run("one-byte-data-with-eof"+sfx, mkS(one), nil)
				var chunks []resp
				for k := 0; k < len(b)+4; k++ {
					if r.Chance(1, 4) {
						z := 1 + r.Intn(15)
						for j := 0; j < z; j++ {
							chunks = append(chunks, resp{0, false})
						}
					}
					chunks = append(chunks, resp{1 + r.Intn(6), r.Bool()})
				}
				run("random-chunks-with-empty-reads"+sfx, mkS(chunks), map[string]interface{}{"seed_index": i})
				run("data-with-eof"+sfx, mkS([]resp{{1 << 30, true}}), nil)
				// a chunk boundary at every offset of short inputs
				if len(b) <= maxOff {
					for k := 1; k < len(b); k++ {
						run(fmt.Sprintf("two-chunks%s@%d", sfx, k), mkS([]resp{{k, false}, {0, false}, {1 << 30, k%2 == 0}}), map[string]interface{}{"boundary": k})
					}
				}
			}
			// the iotest shapes over a reader without ReadByte
			base := func() io.Reader { return plainReader{bytes.NewReader(b)} }
			run("iotest.OneByteReader", func() io.Reader { return iotest.OneByteReader(base()) }, nil)
			run("iotest.HalfReader", func() io.Reader { return iotest.HalfReader(base()) }, nil)
			run("iotest.DataErrReader", func() io.Reader { return iotest.DataErrReader(base()) }, nil)
			run("iotest.DataErrReader(OneByteReader)", func() io.Reader { return iotest.DataErrReader(iotest.OneByteReader(base())) }, nil)
			// TimeoutReader: the second Read fails with no data; an error is right, success must be the right value
			{
				nshapes++
				got := decodeWith(func() *codec.Decoder { return codec.NewDecoder(iotest.TimeoutReader(base()), h) }, tg.t)
				if got.hung || got.err == nil {
					cmp("iotest.TimeoutReader", rbs, got, nil)
				}
			}
			// without internal buffering a binary decoder reads nothing past the value
			if rbs == 0 && binary[format] {
				nshapes++
				junk := append(append([]byte(nil), b...), r.Bytes(1+r.Intn(8))...)
				var cr *countReader
				got := decodeWith(func() *codec.Decoder {
					cr = &countReader{r: plainReader{bytes.NewReader(junk)}}
					return codec.NewDecoder(cr, h)
				}, tg.t)
				if cmp("trailing-bytes", rbs, got, nil) && cr.drawn != got.n {
					c2 := map[string]interface{}{"drawn": cr.drawn, "numread": got.n}
					for k, x := range cj {
						c2[k] = x
					}
					sum.FailC("api", format+":"+tg.name+":unbuffered:overread", "unbuffered binary Decode drew more bytes from the reader than NumBytesRead", c2)
				}
			}
			// truncation at every offset: the reader ends (EOF, error, data together with EOF,
			// read deadline for ever) after k < len(b) bytes
			step := 1
			if len(b) > maxOff {
				step = 1 + len(b)/maxOff
			}
			for k := 0; k < len(b); k += step {
				pre := b[:k]
				wantk := decodeWith(func() *codec.Decoder { return codec.NewDecoderBytes(pre, h0) }, tg.t)
				kinds := []string{"eof", "error", "data-with-eof", "deadline"}
				kind := kinds[(k+i)%len(kinds)]
				if kind == "deadline" && noDeadline {
					kind = "eof"
				}
				rbr := (k/2+i)%2 == 0
				nshapes++
				got := decodeWith(func() *codec.Decoder {
					var rd io.Reader
					switch kind {
					case "eof":
						rd, _ = mkReader(pre, []resp{{1 + k/2, false}}, io.EOF, rbr)
					case "error":
						rd, _ = mkReader(pre, nil, errHard, rbr)
					case "data-with-eof":
						rd, _ = mkReader(pre, []resp{{1 << 30, true}}, io.EOF, rbr)
					default:
						rd = &deadlineReader{data: append([]byte(nil), pre...)}
					}
					return codec.NewDecoder(rd, h)
				}, tg.t)
				bm := "unbuffered"
				if rbs > 0 {
					bm = "buffered"
				}
				cls := fmt.Sprintf("%s:%s:%s:truncated-%s", format, tg.name, bm, kind)
				c2 := map[string]interface{}{"truncated_at": k, "ending": kind, "ReaderBufferSize": rbs, "bytereader": rbr}
				for kk, x := range cj {
					c2[kk] = x
				}
				switch {
				case got.hung:
					sum.FailC("api", cls, "Decode from a reader that ends early did not return", c2)
					noDeadline = true // every hung Decode keeps spinning; one is enough
				case got.err == nil && binary[format]:
					sum.FailC("api", cls, "Decode succeeds although the reader ended before the value was complete", c2)
				case got.err == nil && kind == "error" && k > 0 && pre[k-1] >= '0' && pre[k-1] <= '9':
					// the delivered bytes end in a digit: a number is the only token that can end in a digit and it is
					// not self-delimiting (literals such as false/true/null end in a letter and are), so the decoder had
					// to ask for more and was given the reader's error, which it may not swallow (json; binary is
					// covered above). Holds for every shape: the buffered reader refills through Read whether or not
					// the reader has ReadByte, the unbuffered one gets the error from Read/ReadByte directly.
					sum.FailC("api", cls, "Decode succeeds although the reader failed (not EOF) while a number was being read", c2)
				case got.err == nil && wantk.err != nil:
					sum.FailC("api", cls, "Decode from a truncated reader succeeds where Decode from the same truncated []byte fails", c2)
				case got.err == nil && !vh.DeepEq(got.v, wantk.v, vh.EqOpts{}):
					sum.FailC("api", cls, "Decode from a truncated reader gives a different value than the same truncated []byte", c2)
				case got.err != nil && wantk.err == nil && (kind == "eof" || kind == "data-with-eof"):
					sum.FailC("api", cls, "Decode from a truncated reader fails where Decode from the same truncated []byte succeeds", c2)
				}
			}
		}
		key := fmt.Sprintf("%s/%s/%s/len%d", format, tg.name, vh.DescribeKind(t), min(len(b), 400)/8)
		if len(b) <= 1 {
			key = ""
		}
		sum.Count("api."+format, key)
		sum.Evaluations += nshapes - 1
		sum.Dist["api.reader-runs"] += nshapes
		sum.Dist["api.target."+tg.name]++
		if i < 2 {
			sum.Sample(cj)
		}
	}
}

// ---- map-key stream ----
//
// String map keys are views into the buffered reader's buffer until the decoder
// detaches them; the read of the value that follows may slide/refill the buffer.
// Types here have string(-like) keys and are NOT served by a fast path (struct,
// named, pointer, array, nested-map values), so the reflection kMap runs.
// For short encodings every one-split, two-split and fixed-size chunk schedule
// is run for ReaderBufferSize {1, 2, 7, 16, 64, 4096}.

type mkVal struct {
	N int
	S string
}
type mkStr string
type mkWrap struct {
	A map[string]mkVal
	B int
	C map[mkStr]mkStr
}

var mapKeyTypes = []reflect.Type{
	reflect.TypeOf(map[string]mkVal(nil)),
	reflect.TypeOf(map[string]mkStr(nil)),
	reflect.TypeOf(map[string]*mkVal(nil)),
	reflect.TypeOf(map[mkStr]mkVal(nil)),
	reflect.TypeOf(map[string][2]int8(nil)),
	reflect.TypeOf(map[string]map[string]mkVal(nil)),
	reflect.TypeOf([]map[string]mkVal(nil)),
	reflect.TypeOf(map[interface{}]mkVal(nil)),
	reflect.TypeOf(mkWrap{}),
	reflect.TypeOf(map[string][]mkStr(nil)),
}

func mapKeyStream(r *vh.Rng, n int, maxLen int, sum *vh.Summary) {
	bufsizes := []int{1, 2, 7, 16, 64, 4096}
	for i := 0; i < n; i++ {
		format := vh.Formats[i%len(vh.Formats)]
		o := vh.Opts{}
		if i >= 2*len(vh.Formats) {
			o = vh.RandEncOpts(r, format)
		}
		var t reflect.Type
		var v reflect.Value
		if i < len(vh.Formats) { // a fixed instance first: long key, short key, struct values
			t = mapKeyTypes[0]
			v = reflect.ValueOf(map[string]mkVal{"alphabet": {N: 1, S: "first-value"}, "k": {N: 2, S: "v"}})
		} else {
			t = mapKeyTypes[r.Intn(len(mapKeyTypes))]
		}
		var b []byte
		for try := 0; try < 20; try++ {
			if i >= len(vh.Formats) {
				v = vh.RandValue(r, t, vh.ValOpts{NoNaN: true, NoInf: true, MaxLen: 1 + r.Intn(3), NoNilPtr: true})
			}
			b = nil
			if err := codec.NewEncoderBytes(&b, vh.NewHandle(format, o)).Encode(v.Interface()); err != nil {
				b = nil
				continue
			}
			if len(b) >= 4 && (len(b) <= maxLen || i < len(vh.Formats)) {
				break
			}
			b = nil
		}
		if b == nil {
			sum.Count("mapkey.skipped", "")
			continue
		}
		mkHandle := func(rbs int) codec.Handle {
			oo := vh.Opts{}
			for k, x := range o {
				oo[k] = x
			}
			oo["ReaderBufferSize"] = rbs
			return vh.NewHandle(format, oo)
		}
		h0 := mkHandle(0)
		want := decodeWith(func() *codec.Decoder { return codec.NewDecoderBytes(b, h0) }, t)
		if want.err != nil || want.hung {
			sum.Count("mapkey.bytes-decode-error", "")
			continue
		}
		cj := map[string]interface{}{"format": format, "opts": o.String(), "type": t.String(), "bytes": vh.Hex(b), "seed_index": i}
		var schedules [][]resp
		for k := 1; k < len(b); k++ {
			schedules = append(schedules, []resp{{k, false}}) // one split: k bytes, then the rest
			fixed := make([]resp, 0, len(b)/k+1)              // k-byte chunks throughout
			for x := 0; x < len(b); x += k {
				fixed = append(fixed, resp{k, false})
			}
			schedules = append(schedules, fixed)
			for j := 1; j < k; j++ { // two splits: j, k-j, then the rest
				schedules = append(schedules, []resp{{j, false}, {k - j, false}})
			}
		}
		runs, failed := 0, false
		for _, rbs := range bufsizes {
			h := mkHandle(rbs)
			for si, sc := range schedules {
				rbr := (si+i)%5 == 0
				runs++
				got := decodeWith(func() *codec.Decoder { rd, _ := mkReader(b, sc, io.EOF, rbr); return codec.NewDecoder(rd, h) }, t)
				what := ""
				switch {
				case got.hung:
					what = "Decode from the reader did not return"
				case got.err != nil:
					what = "Decode from the reader fails where Decode from []byte succeeds"
				case !vh.DeepEq(got.v, want.v, vh.EqOpts{}):
					what = "Decode from the reader gives a different value than Decode from []byte"
				case got.n != want.n:
					what = "NumBytesRead differs between reader and []byte"
				}
				if what != "" {
					c2 := map[string]interface{}{"ReaderBufferSize": rbs, "bytereader": rbr}
					for k, x := range cj {
						c2[k] = x
					}
					var ks []interface{}
					for _, x := range sc {
						ks = append(ks, x.k)
					}
					c2["chunks_then_rest"] = ks
					if got.err == nil && !got.hung {
						c2["io_value"] = fmt.Sprintf("%#v", got.v.Interface())
						c2["bytes_value"] = fmt.Sprintf("%#v", want.v.Interface())
					}
					binjson := "binary"
					if format == "json" {
						binjson = "json"
					}
					sum.FailC("mapkey", fmt.Sprintf("%s:%s:string-keyed-map:buffered:chunk-schedule", binjson, format), what, c2)
					failed = true
					if got.hung {
						sum.Print()
						os.Exit(0)
					}
					break
				}
			}
			if failed {
				break
			}
		}
		key := fmt.Sprintf("%s/%s/len%d", format, t.String(), len(b)/4)
		sum.Count("mapkey."+format, key)
		sum.Evaluations += runs - 1
		sum.Dist["mapkey.reader-runs"] += runs
		if i < 1 {
			sum.Sample(cj)
		}
	}
}

// ---- narrow-destination stream ----
//
// The sender's struct has fields the receiver's struct lacks: the decoder swallows
// them (nextValueBytes: recording + skip). Whatever the swallowed bytes define for
// later use (binc symbols with AsSymbols on; the reader's cursors and last byte in
// every format) must not depend on how the Reader delivers the bytes.

type nsSrc struct {
	Extra  map[string]int   `codec:"a_extra"`
	Scores map[string]int   `codec:"b_scores"`
	Names  map[string]mkVal `codec:"c_names"`
	Labels map[mkStr]string `codec:"d_labels"`
	Tail   []string         `codec:"e_tail"`
}
type nsDst1 struct { // lacks the first field
	Scores map[string]int   `codec:"b_scores"`
	Names  map[string]mkVal `codec:"c_names"`
	Labels map[mkStr]string `codec:"d_labels"`
	Tail   []string         `codec:"e_tail"`
}
type nsDst2 struct { // lacks the first two
	Names  map[string]mkVal `codec:"c_names"`
	Labels map[mkStr]string `codec:"d_labels"`
	Tail   []string         `codec:"e_tail"`
}
type nsDst3 struct { // lacks fields in the middle
	Extra map[string]int `codec:"a_extra"`
	Tail  []string       `codec:"e_tail"`
}
type nsDst4 struct { // lacks the first and the third
	Scores map[string]int   `codec:"b_scores"`
	Labels map[mkStr]string `codec:"d_labels"`
}

// destinations that collect the fields they do not know (codec.MissingFielder): the
// NAME handed to CodecMissingField is a view of the reader's buffer until copied
type nsDstMF1 struct { // knows only the second field
	Scores  map[string]int         `codec:"b_scores"`
	Missing map[string]interface{} `codec:"-"`
}

func (x *nsDstMF1) CodecMissingField(field []byte, value interface{}) bool {
	if x.Missing == nil {
		x.Missing = map[string]interface{}{}
	}
	x.Missing[string(field)] = value
	return true
}
func (x *nsDstMF1) CodecMissingFields() map[string]interface{} { return x.Missing }

type nsDstMF2 struct { // knows only the last field
	Tail    []string               `codec:"e_tail"`
	Missing map[string]interface{} `codec:"-"`
}

func (x *nsDstMF2) CodecMissingField(field []byte, value interface{}) bool {
	if x.Missing == nil {
		x.Missing = map[string]interface{}{}
	}
	x.Missing[string(field)] = value
	return true
}
func (x *nsDstMF2) CodecMissingFields() map[string]interface{} { return x.Missing }

var nsMFDsts = []reflect.Type{reflect.TypeOf(nsDstMF1{}), reflect.TypeOf(nsDstMF2{})}

var nsDsts = []reflect.Type{reflect.TypeOf(nsDst1{}), reflect.TypeOf(nsDst2{}), reflect.TypeOf(nsDst3{}), reflect.TypeOf(nsDst4{}),
	reflect.TypeOf(codec.Raw(nil)), reflect.TypeOf(map[string]codec.Raw(nil))}

func narrowStream(r *vh.Rng, n int, maxOff int, sum *vh.Summary) {
	pool := []string{"Alexandria", "k", "beta-key", "x1", "a_extra", "S", "N", "Constantinople-on-the-Bosphorus"}
	for i := 0; i < n; i++ {
		format := vh.Formats[r.Intn(len(vh.Formats))]
		if i%2 == 0 {
			format = "binc"
		}
		o := vh.Opts{}
		if i >= 4 {
			o = vh.RandEncOpts(r, format)
			delete(o, "StructToArray")
		}
		if format == "binc" && i%4 != 3 {
			o["AsSymbols"] = 1
		}
		keys := append([]string(nil), pool...)
		for k := 0; k < 2; k++ {
			keys = append(keys, vh.RandString(r, vh.ValOpts{MaxLen: 6}))
		}
		pick := func() string { return keys[r.Intn(len(keys))] }
		var src nsSrc
		if i < 2 { // the smallest instance: one shared key
			src = nsSrc{Extra: map[string]int{"Alexandria": 1}, Scores: map[string]int{"Alexandria": 2}}
		} else {
			src = nsSrc{Extra: map[string]int{}, Scores: map[string]int{}, Names: map[string]mkVal{}, Labels: map[mkStr]string{}}
			for k := r.Intn(4); k >= 0; k-- {
				src.Extra[pick()] = r.Intn(300)
			}
			for k := r.Intn(4); k >= 0; k-- {
				src.Scores[pick()] = r.Intn(70000)
			}
			for k := r.Intn(3); k > 0; k-- {
				src.Names[pick()] = mkVal{N: r.Intn(9), S: pick()}
			}
			for k := r.Intn(3); k > 0; k-- {
				src.Labels[mkStr(pick())] = pick()
			}
			for k := r.Intn(3); k > 0; k-- {
				src.Tail = append(src.Tail, pick())
			}
		}
		var b []byte
		if err := codec.NewEncoderBytes(&b, vh.NewHandle(format, o)).Encode(&src); err != nil {
			sum.Count("narrow.encode-error", "")
			continue
		}
		t := nsDsts[r.Intn(len(nsDsts))]
		if r.Chance(1, 3) {
			t = nsMFDsts[r.Intn(len(nsMFDsts))]
		}
		if i < 2 {
			t = nsDsts[0]
		} else if i < 6 {
			t = nsMFDsts[i%2]
		}
		mkHandle := func(rbs int) codec.Handle {
			oo := vh.Opts{}
			for k, x := range o {
				oo[k] = x
			}
			oo["ReaderBufferSize"] = rbs
			return vh.NewHandle(format, oo)
		}
		h0 := mkHandle(0)
		want := decodeWith(func() *codec.Decoder { return codec.NewDecoderBytes(b, h0) }, t)
		if want.err != nil || want.hung {
			sum.Count("narrow.bytes-decode-error", "")
			continue
		}
		cj := map[string]interface{}{"format": format, "opts": o.String(), "source": "main.nsSrc", "destination": t.String(), "bytes": vh.Hex(b), "seed_index": i}
		var schedules [][]resp
		schedules = append(schedules, nil)
		for _, k := range []int{1, 2, 3, 5, 7, 16} {
			fixed := make([]resp, 0, len(b)/k+1)
			for x := 0; x < len(b); x += k {
				fixed = append(fixed, resp{k, x%3 == 0})
			}
			schedules = append(schedules, fixed)
		}
		var chunks []resp
		for k := 0; k < len(b)+4; k++ {
			if r.Chance(1, 4) {
				for j := 1 + r.Intn(15); j > 0; j-- {
					chunks = append(chunks, resp{0, false})
				}
			}
			chunks = append(chunks, resp{1 + r.Intn(6), r.Bool()})
		}
		schedules = append(schedules, chunks)
		step := 1
		if len(b) > maxOff {
			step = 1 + len(b)/maxOff
		}
		for k := 1; k < len(b); k += step {
			schedules = append(schedules, []resp{{k, false}})
		}
		runs, failed := 0, false
		for _, rbs := range []int{0, 1, 2, 7, 16, 64, 4096} {
			h := mkHandle(rbs)
			for si, sc := range schedules {
				rbr := (si+i)%3 == 0
				runs++
				got := decodeWith(func() *codec.Decoder { rd, _ := mkReader(b, sc, io.EOF, rbr); return codec.NewDecoder(rd, h) }, t)
				what := ""
				switch {
				case got.hung:
					what = "Decode from the reader did not return"
				case got.err != nil:
					what = "Decode from the reader fails where Decode from []byte succeeds"
				case !vh.DeepEq(got.v, want.v, vh.EqOpts{}):
					what = "Decode from the reader gives a different value than Decode from []byte"
				case got.n != want.n:
					what = "NumBytesRead differs between reader and []byte"
				}
				if what != "" {
					c2 := map[string]interface{}{"ReaderBufferSize": rbs, "bytereader": rbr}
					for k, x := range cj {
						c2[k] = x
					}
					var ks []interface{}
					for _, x := range sc {
						ks = append(ks, x.k)
					}
					if len(ks) > 40 {
						ks = ks[:40]
					}
					c2["chunks_then_rest"] = ks
					if got.err == nil && !got.hung {
						c2["io_value"] = fmt.Sprintf("%+v", got.v.Interface())
						c2["bytes_value"] = fmt.Sprintf("%+v", want.v.Interface())
					}
					bm := "unbuffered"
					if rbs > 0 {
						bm = "buffered"
					}
					sym := ""
					if o["AsSymbols"] == 1 {
						sym = "+symbols"
					}
					sum.FailC("narrow", fmt.Sprintf("%s%s:destination-lacks-fields:%s", format, sym, bm), what, c2)
					failed = true
					if got.hung {
						sum.Print()
						os.Exit(0)
					}
					break
				}
			}
			if failed {
				break
			}
		}
		key := fmt.Sprintf("%s/%v/%s/len%d", format, o["AsSymbols"], t.String(), len(b)/8)
		sum.Count("narrow."+format, key)
		sum.Evaluations += runs - 1
		sum.Dist["narrow.reader-runs"] += runs
		if i < 1 {
			sum.Sample(cj)
		}
	}
}

// sweepReaders decodes b into a fresh value of type t through every schedule x
// ReaderBufferSize (plain and ByteReader alternating) and compares with the
// []byte decode (value, error-ness, NumBytesRead). It reports the first
// difference as a failure of the given stream/class and returns the number of runs.
func sweepReaders(sum *vh.Summary, stream, cls string, format string, o vh.Opts, b []byte, t reflect.Type,
	cj map[string]interface{}, i int, rbsList []int, schedules [][]resp) (runs int, ok bool) {
	mkHandle := func(rbs int) codec.Handle {
		oo := vh.Opts{}
		for k, x := range o {
			oo[k] = x
		}
		oo["ReaderBufferSize"] = rbs
		return vh.NewHandle(format, oo)
	}
	h0 := mkHandle(0)
	want := decodeWith(func() *codec.Decoder { return codec.NewDecoderBytes(b, h0) }, t)
	if want.err != nil || want.hung {
		return 0, false
	}
	for _, rbs := range rbsList {
		h := mkHandle(rbs)
		for si, sc := range schedules {
			rbr := (si+i)%3 == 0
			runs++
			got := decodeWith(func() *codec.Decoder { rd, _ := mkReader(b, sc, io.EOF, rbr); return codec.NewDecoder(rd, h) }, t)
			what := ""
			switch {
			case got.hung:
				what = "Decode from the reader did not return"
			case got.err != nil:
				what = "Decode from the reader fails where Decode from []byte succeeds"
			case !vh.DeepEq(got.v, want.v, vh.EqOpts{}):
				what = "Decode from the reader gives a different value than Decode from []byte"
			case got.n != want.n:
				what = "NumBytesRead differs between reader and []byte"
			}
			if what == "" {
				continue
			}
			c2 := map[string]interface{}{"ReaderBufferSize": rbs, "bytereader": rbr}
			for k, x := range cj {
				c2[k] = x
			}
			var ks []interface{}
			for _, x := range sc {
				ks = append(ks, x.k)
			}
			if len(ks) > 40 {
				ks = ks[:40]
			}
			c2["chunks_then_rest"] = ks
			if got.err == nil && !got.hung {
				iv, bv := fmt.Sprintf("%+v", got.v.Interface()), fmt.Sprintf("%+v", want.v.Interface())
				if len(iv) > 300 {
					d := 0
					for d < len(iv) && d < len(bv) && iv[d] == bv[d] {
						d++
					}
					c2["first_difference_at_char"] = d
					iv, bv = iv[max(0, d-20):min(len(iv), d+60)], bv[max(0, d-20):min(len(bv), d+60)]
				}
				c2["io_value"], c2["bytes_value"] = iv, bv
			}
			bm := "unbuffered"
			if rbs > 0 {
				bm = "buffered"
			}
			sum.FailC(stream, cls+":"+bm, what, c2)
			if got.hung {
				sum.Print()
				os.Exit(0)
			}
			return runs, true
		}
	}
	return runs, true
}

func fixedChunks(n, k int) []resp {
	out := make([]resp, 0, n/k+1)
	for x := 0; x < n; x += k {
		out = append(out, resp{k, x%3 == 0})
	}
	return out
}

func randChunks(r *vh.Rng, n, maxChunk int) []resp {
	var chunks []resp
	for got := 0; got < n+4; {
		if r.Chance(1, 4) {
			for j := 1 + r.Intn(15); j > 0; j-- {
				chunks = append(chunks, resp{0, false})
			}
		}
		k := 1 + r.Intn(maxChunk)
		got += k
		chunks = append(chunks, resp{k, r.Bool()})
	}
	return chunks
}

// ---- number-into-string stream (json) ----
//
// The json decoder accepts a number where the Go destination is a string (the
// string is the number's text). That text is a view of the reader's buffer until
// it is detached; more input follows it. Sender: numeric fields; receiver: string
// fields, []string, map[string]string.

type nsNumSrc struct {
	ID    int64
	Name  string
	Tags  []interface{}
	Price float64
	M     map[string]uint32
	Z     int
}
type nsNumDst struct {
	ID    string
	Name  string
	Tags  []string
	Price string
	M     map[string]string
	Z     string
}

func numStrStream(r *vh.Rng, n int, maxOff int, sum *vh.Summary) {
	for i := 0; i < n; i++ {
		src := nsNumSrc{ID: 1234567890123, Name: "a-perfectly-ordinary-name", Tags: []interface{}{1000001, 2000002, "third-tag-is-a-string", 4000004}}
		if i > 0 {
			src = nsNumSrc{ID: int64(r.U64() >> uint(r.Intn(60))), Name: vh.RandString(r, vh.ValOpts{MaxLen: 30, BigLens: true}), Price: float64(r.Intn(1000000)) / 64, Z: r.Intn(100) - 50, M: map[string]uint32{}}
			for k := r.Intn(5); k > 0; k-- {
				if r.Bool() {
					src.Tags = append(src.Tags, r.Intn(1<<30))
				} else {
					src.Tags = append(src.Tags, vh.RandString(r, vh.ValOpts{MaxLen: 12}))
				}
			}
			for k := r.Intn(4); k > 0; k-- {
				src.M[vh.RandString(r, vh.ValOpts{MaxLen: 8})] = uint32(r.U64())
			}
		}
		o := vh.Opts{}
		if i > 1 {
			o = vh.RandEncOpts(r, "json")
			delete(o, "StructToArray")
			delete(o, "IntegerAsString")
		}
		var b []byte
		if err := codec.NewEncoderBytes(&b, vh.NewHandle("json", o)).Encode(&src); err != nil {
			sum.Count("numstr.encode-error", "")
			continue
		}
		t := reflect.TypeOf(nsNumDst{})
		cj := map[string]interface{}{"format": "json", "opts": o.String(), "source": "main.nsNumSrc", "destination": t.String(), "text": string(b), "seed_index": i}
		schedules := [][]resp{nil}
		for _, k := range []int{1, 2, 3, 5, 7, 16} {
			schedules = append(schedules, fixedChunks(len(b), k))
		}
		schedules = append(schedules, randChunks(r, len(b), 6))
		step := 1
		if len(b) > maxOff {
			step = 1 + len(b)/maxOff
		}
		for k := 1; k < len(b); k += step {
			schedules = append(schedules, []resp{{k, false}})
		}
		runs, ok := sweepReaders(sum, "numstr", "json:number-into-string", "json", o, b, t, cj, i, []int{0, 1, 2, 7, 16, 64, 4096}, schedules)
		if !ok {
			sum.Count("numstr.bytes-decode-error", "")
			continue
		}
		sum.Count("numstr.json", fmt.Sprintf("numstr/len%d/tags%d/m%d", len(b)/8, len(src.Tags), len(src.M)))
		sum.Evaluations += runs - 1
		sum.Dist["numstr.reader-runs"] += runs
		if i < 1 {
			sum.Sample(cj)
		}
	}
}

// ---- long-value stream ----
//
// Strings and byte strings of 1 KB - 20 KB: one readx/readb/skip needs several
// Read calls (requests are capped by MaxInitLen, default 1024) and the unbuffered
// reader's scratch buffer, or the buffered reader's buffer, grows in between.

type lvRec struct {
	A string
	B []byte
	C int
	D string
}

func longStream(r *vh.Rng, n int, sum *vh.Summary) {
	mkBytes := func(l int) []byte {
		b := r.Bytes(l)
		for k := range b {
			b[k] = 'A' + b[k]%57 // printable, never zero: a lost chunk shows as zero or stale bytes
		}
		return b
	}
	lens := []int{1025, 2047, 2500, 3000, 4097, 6000, 9000, 20000}
	for i := 0; i < n; i++ {
		format := vh.Formats[i%len(vh.Formats)]
		l := lens[(i/len(vh.Formats))%len(lens)]
		if i >= len(vh.Formats)*len(lens) {
			l = 1025 + r.Intn(12000)
		}
		var v interface{}
		var t reflect.Type
		switch r.Intn(5) {
		case 0:
			x := string(mkBytes(l))
			v, t = &x, reflect.TypeOf("")
		case 1:
			x := mkBytes(l)
			v, t = &x, reflect.TypeOf([]byte(nil))
		case 2:
			x := []string{"short", string(mkBytes(l)), "tail", string(mkBytes(l / 2))}
			v, t = &x, reflect.TypeOf([]string(nil))
		case 3:
			x := lvRec{A: string(mkBytes(l)), B: mkBytes(l/3 + 1), C: 7, D: "end"}
			v, t = &x, reflect.TypeOf(lvRec{})
		default:
			x := map[string][]byte{"k1": mkBytes(l), "k2": mkBytes(40)}
			v, t = &x, reflect.TypeOf(map[string][]byte(nil))
		}
		targets := []reflect.Type{t, t, t, vh.IfaceType, reflect.TypeOf(codec.Raw(nil))}
		tg := targets[r.Intn(len(targets))]
		o := vh.Opts{}
		if i%3 == 2 {
			o = vh.RandEncOpts(r, format)
		}
		if r.Chance(1, 4) {
			o["MaxInitLen"] = r.PickInt(1500, 3000, 100000)
		}
		var b []byte
		if err := codec.NewEncoderBytes(&b, vh.NewHandle(format, o)).Encode(v); err != nil {
			sum.Count("long.encode-error", "")
			continue
		}
		cj := map[string]interface{}{"format": format, "opts": o.String(), "type": t.String(), "destination": tg.String(), "payload_len": l, "encoded_len": len(b),
			"bytes_head": vh.Hex(b[:min(len(b), 48)]), "seed_index": i, "regenerate": "VERIF_SEED and -long N reproduce the payload"}
		schedules := [][]resp{nil, fixedChunks(len(b), 1024), fixedChunks(len(b), 1000), fixedChunks(len(b), 1500), fixedChunks(len(b), 100),
			fixedChunks(len(b), 4096), fixedChunks(len(b), 7), randChunks(r, len(b), 900), randChunks(r, len(b), 3000)}
		if len(b) < 3000 {
			schedules = append(schedules, fixedChunks(len(b), 1))
		}
		runs, ok := sweepReaders(sum, "long", format+":long-value:"+tg.String(), format, o, b, tg, cj, i, []int{0, 0, 1, 16, 300, 4096}, schedules)
		if !ok {
			sum.Count("long.bytes-decode-error", "")
			continue
		}
		sum.Count("long."+format, fmt.Sprintf("long/%s/%s/%s/len%d", format, t.String(), tg.String(), l/512))
		sum.Evaluations += runs - 1
		sum.Dist["long.reader-runs"] += runs
		if i < 1 {
			sum.Sample(cj)
		}
	}
}

func main() {
	nUnit := flag.Int("unit", 600, "unit cases (model-compared)")
	nAPI := flag.Int("api", 150, "api cases")
	nMapKey := flag.Int("mapkeys", 40, "map-key cases (every one-/two-split schedule x 6 buffer sizes)")
	mapKeyLen := flag.Int("mapkeylen", 40, "longest encoding used by the map-key stream")
	nNarrow := flag.Int("narrow", 60, "narrow-destination cases (sender struct has fields the receiver lacks)")
	nNumStr := flag.Int("numstr", 30, "json number-into-string cases")
	nLong := flag.Int("long", 40, "long-value cases (1 KB - 20 KB strings/bytes)")
	nResetUnit := flag.Int("resetunit", 150, "random reset unit cases (model-compared) on top of the fixed grid: op list, resetIO onto a new scripted reader, op list")
	nReuse := flag.Int("reuse", 6, "random documents per format in the Decoder-reuse stream, on top of the fixed ones")
	maxOff := flag.Int("offsets", 48, "inputs up to this length get a chunk boundary / truncation at every offset")
	cases := flag.String("cases", "/verif/build/c03/cases", "directory for the model case files")
	flag.Parse()
	r := vh.NewRng(vh.SeedFromEnv())
	sum := vh.NewSummary("unit: random protocol-respecting decReaderI op lists x ReaderBufferSize {0,1,2,3,7,16,64,256,300} x MaxInitLen x plain/ByteReader x reader scripts (1-byte, chunks, zero-length runs below and above 16, data with EOF, terminal EOF or error); non-trivial = has a script or >= 8 bytes; distinct by (mode, reader shape, buffer size, last op, error class, Read calls, numread/4). api: 5 formats x random type/value/options x target (typed, Raw, interface{}) x ReaderBufferSize x reader shapes (all-at-once, 1-byte, random chunks with empty reads, data with EOF, two chunks at every offset, iotest One/Half/DataErr/Timeout readers, plain and ByteReader) x truncation at every offset with 4 endings; distinct by (format, target, kind, length/8). mapkey: 5 formats x string-keyed map types without a fast path (struct, named, pointer, array, nested-map values, named and interface keys, inside slices/structs) x every one-split, two-split and fixed-size chunk schedule of encodings up to -mapkeylen bytes x ReaderBufferSize {1,2,7,16,64,4096}, plain and ByteReader; distinct by (format, type, length/4). narrow: 5 formats (binc half the time, AsSymbols on) x a struct with string-keyed maps sharing keys in several fields decoded into structs that lack the first / first two / middle fields, into Raw, into maps of Raw and into MissingFielder structs (the names and values reported to CodecMissingField are compared) x ReaderBufferSize {0,1,2,7,16,64,4096} x all-at-once, fixed chunks 1,2,3,5,7,16, random chunks with empty reads, a split at every offset, plain and ByteReader; distinct by (format, symbols, destination, length/8). numstr: json numbers (struct fields, slice elements, map values) decoded into string destinations with more input following, same reader sweep; distinct by (length/8, tags, map size). long: 5 formats x 1 KB-20 KB strings / byte strings (alone, in slices, structs, maps; typed, interface{} and Raw destinations) x ReaderBufferSize {0,1,16,300,4096} x MaxInitLen x all-at-once, fixed chunks 1,7,100,1000,1024,1500,4096 and random chunks; distinct by (format, type, destination, length/512); resetunit: ONE ioDecReader led through 2-3 segments, each entered by calling resetIO again (hook ResetIO) onto a new scripted reader: a fixed grid ReaderBufferSize {0,1,2,3,7,16,64,256,300} x ways the previous segment ended (drained to io.EOF by a failing read, number ended by io.EOF, data delivered together with io.EOF and consumed exactly, unread bytes left, reader fault, recording left on, no progress, untouched) x plain/ByteReader x json-ish and binary op lists, then random segments; every segment is judged against bytesDecReader over its own bytes and is a model case (prevcap = cap(z.buf) before the reset); distinct by (ending of the previous segment, reader shape, buffer size, last op, error class, numread/4). reuse: ONE Decoder per (format, ReaderBufferSize {0,1,2,7,64,256,4096}, history) reused through Decoder.Reset(newReader): histories of the previous Reader (never read, value decoded and more input unread, decoded then drained to io.EOF, last data delivered together with io.EOF, one byte at a time then drained, truncated with io.EOF / with an error / while recording a Raw, zero-length reads only, read deadline, malformed input, long value that grew the buffer, top-level number ended by io.EOF) x reader shapes of the new stream (all-at-once, one-byte, data with io.EOF, two chunks, random chunks with empty reads, iotest.DataErrReader; plain and ByteReader) x fixed and random documents; value, error-ness, NumBytesRead and the end-of-stream error compared with a NEW NewDecoderBytes over the new bytes; distinct by (format, buffer size, history, shape, document). unit stream: every 25th case has 1.1-4.4 KB of data and reads of 700-3000 bytes")
	// one generator per stream, forked in a fixed order (new streams fork last, so the older streams keep their inputs)
	rUnit, rAPI, rMapKey, rNarrow, rNumStr, rLong := r.Fork(), r.Fork(), r.Fork(), r.Fork(), r.Fork(), r.Fork()
	rResetUnit, rReuse := r.Fork(), r.Fork()
	cv := vh.NewCases(*cases, "From Coq Require Import List NArith ZArith.\nFrom Verif Require Import C03.Model C03.Corr.\nImport ListNotations.", "case", "mismatches", 60)
	unitStream(rUnit, *nUnit, cv, sum)
	resetUnitStream(rResetUnit, *nResetUnit, cv, sum)
	cv.Close()
	apiStream(rAPI, *nAPI, *maxOff, sum)
	mapKeyStream(rMapKey, *nMapKey, *mapKeyLen, sum)
	narrowStream(rNarrow, *nNarrow, *maxOff, sum)
	numStrStream(rNumStr, *nNumStr, *maxOff, sum)
	longStream(rLong, *nLong, sum)
	reuseStream(rReuse, *nReuse, sum)
	sum.Print()
}

// cache.go — translator part for C06 (Gen/Cache.v).
//
// Purely syntactic (go/parser, every non-test .go file of the package whatever
// its build tags, so the generic sources AND the 20 monomorphised copies are
// covered) check of the copy-on-write publication protocol of the per-Handle
// caches, and extraction of the index arithmetic of the sorted insert and of
// the binary search.  The facts are emitted as booleans/naturals; the Coq model
// (C06/Model.v) uses the extracted numbers and Properties/C06.v proves
// C06_src_facts over the booleans, so a change of shape of the code breaks an
// obligation.  A shape this file cannot read at all is a translation error.
package main

import (
	"bytes"
	"fmt"
	"go/ast"
	"go/parser"
	"go/token"
	"go/types"
	"os"
	"path/filepath"
	"regexp"
	"sort"
	"strconv"
	"strings"
)

func init() { extraGenerators = append(extraGenerators, genCache) }

var (
	cacheLoadRe    = regexp.MustCompile(`(\.infos\.Load|FromRtidFnSlice)$`)
	cacheStoreRe   = regexp.MustCompile(`(\.infos\.Store|\.store)$`)
	cacheFinderRe  = regexp.MustCompile(`(^|\.)(findTypeInfo|encFindRtidFn|decFindRtidFn)$`)
	cacheLoaderNm  = map[string]bool{"encFnViaLoader": true, "decFnViaLoader": true}
	cachePrimitive = map[string]bool{"encFromRtidFnSlice": true, "decFromRtidFnSlice": true}
	// calls allowed between Lock and Unlock (besides load/find/store)
	cacheLockedOK = map[string]bool{"make": true, "copy": true, "len": true, "ptrToLowLevel": true, "uint": true}
)

type cacheFacts struct {
	loaders, finders, readers int
	noInplace                 bool
	storeFresh                bool
	storeLast                 bool
	recheck                   bool
	lockBalanced              bool
	noForeignUnderLock        bool
	storeSitesOnlyLoaders     bool
	entryKeyed                bool
	initDoubleChecked         bool
	initFlagStoreLast         bool
	initUnlockDeferred        bool
	initedWritersOK           bool
	poolPutLast               bool
	nakedTemplatesCopied      bool
	nakedTemplateUses         int
	sideResetFirst            bool
	sideCoderSites            int
	poolPutSites              int
	notes                     []string
	lenInc, hiDst, hiSrc      int
	loDst, setOff             int
	findShift, findLoInc      int
	findCmpLt, findFinalEq    bool
	arithSet, findSet         bool
}

func (f *cacheFacts) note(format string, a ...interface{}) {
	f.notes = append(f.notes, fmt.Sprintf(format, a...))
}

func cacheExprStr(e ast.Expr) string { return types.ExprString(e) }

func cacheCallName(c *ast.CallExpr) string { return cacheExprStr(c.Fun) }

func cacheRecvTypeName(fd *ast.FuncDecl) string {
	if fd.Recv == nil || len(fd.Recv.List) == 0 {
		return ""
	}
	t := fd.Recv.List[0].Type
	for {
		switch x := t.(type) {
		case *ast.StarExpr:
			t = x.X
			continue
		case *ast.IndexExpr:
			t = x.X
			continue
		case *ast.ParenExpr:
			t = x.X
			continue
		}
		break
	}
	return cacheExprStr(t)
}

// cacheRootIdent returns the identifier an index/slice/star/paren expression is rooted in.
func cacheRootIdent(e ast.Expr) string {
	for {
		switch x := e.(type) {
		case *ast.IndexExpr:
			e = x.X
		case *ast.SliceExpr:
			e = x.X
		case *ast.ParenExpr:
			e = x.X
		case *ast.StarExpr:
			e = x.X
		case *ast.Ident:
			return x.Name
		default:
			return ""
		}
	}
}

func cacheContainsLoadCall(e ast.Expr) bool {
	found := false
	ast.Inspect(e, func(n ast.Node) bool {
		if c, ok := n.(*ast.CallExpr); ok && cacheLoadRe.MatchString(cacheCallName(c)) {
			found = true
		}
		return !found
	})
	return found
}

func cacheMentionsIdent(n ast.Node, names map[string]bool) bool {
	found := false
	ast.Inspect(n, func(n ast.Node) bool {
		if id, ok := n.(*ast.Ident); ok && names[id.Name] {
			found = true
		}
		return !found
	})
	return found
}

// cacheLoadedVars: identifiers that (transitively) hold the loaded (published) slice or the pointer to it.
func cacheLoadedVars(body *ast.BlockStmt) map[string]bool {
	L := map[string]bool{}
	for changed := true; changed; {
		changed = false
		ast.Inspect(body, func(n ast.Node) bool {
			var lhs, rhs []ast.Expr
			switch s := n.(type) {
			case *ast.AssignStmt:
				lhs, rhs = s.Lhs, s.Rhs
			case *ast.ValueSpec:
				for _, nm := range s.Names {
					lhs = append(lhs, nm)
				}
				rhs = s.Values
			default:
				return true
			}
			if len(lhs) != len(rhs) {
				return true
			}
			for i := range lhs {
				id, ok := lhs[i].(*ast.Ident)
				if !ok || L[id.Name] {
					continue
				}
				r := rhs[i]
				tainted := cacheContainsLoadCall(r)
				if !tainted {
					// *spt, spt, sp[a:b] of an already loaded variable alias the published array
					switch r.(type) {
					case *ast.StarExpr, *ast.Ident, *ast.SliceExpr, *ast.ParenExpr:
						if nm := cacheRootIdent(r); nm != "" && L[nm] {
							tainted = true
						}
					}
				}
				if tainted {
					L[id.Name] = true
					changed = true
				}
			}
			return true
		})
	}
	return L
}

// cacheInplaceWrites lists the statements that write through a loaded slice.
// An identifier is no longer "loaded" inside a block after it has been re-assigned a fresh composite literal
// there (the nil path: sp = []T{{rtid, fn}}), which is handled by looking at the statement text only:
// a write needs an index/slice expression on the left or a copy/append destination.
func cacheInplaceWrites(body *ast.BlockStmt, L map[string]bool) []string {
	var out []string
	ast.Inspect(body, func(n ast.Node) bool {
		switch s := n.(type) {
		case *ast.AssignStmt:
			for _, l := range s.Lhs {
				switch l.(type) {
				case *ast.IndexExpr, *ast.SliceExpr, *ast.StarExpr:
					if nm := cacheRootIdent(l); nm != "" && L[nm] {
						out = append(out, cacheExprStr(l)+" = ...")
					}
				case *ast.SelectorExpr:
					if nm := cacheRootIdent(l.(*ast.SelectorExpr).X); nm != "" && L[nm] {
						out = append(out, cacheExprStr(l)+" = ...")
					}
				}
			}
		case *ast.IncDecStmt:
			if nm := cacheRootIdent(s.X); nm != "" && L[nm] {
				if _, isId := s.X.(*ast.Ident); !isId {
					out = append(out, cacheExprStr(s.X)+"++/--")
				}
			}
		case *ast.CallExpr:
			fn := cacheCallName(s)
			if (fn == "copy" || fn == "append") && len(s.Args) > 0 {
				if nm := cacheRootIdent(s.Args[0]); nm != "" && L[nm] {
					out = append(out, fn+"("+cacheExprStr(s.Args[0])+", ...)")
				}
			}
			if fn == "clear" && len(s.Args) == 1 {
				if nm := cacheRootIdent(s.Args[0]); nm != "" && L[nm] {
					out = append(out, "clear("+cacheExprStr(s.Args[0])+")")
				}
			}
		}
		return true
	})
	return out
}

func cacheIsCallStmt(s ast.Stmt, suffix string) (recv string, ok bool) {
	es, ok1 := s.(*ast.ExprStmt)
	if !ok1 {
		return "", false
	}
	c, ok2 := es.X.(*ast.CallExpr)
	if !ok2 || len(c.Args) != 0 {
		return "", false
	}
	se, ok3 := c.Fun.(*ast.SelectorExpr)
	if !ok3 || se.Sel.Name != suffix {
		return "", false
	}
	return cacheExprStr(se.X), true
}

// cacheIntOffset reads e as  base  or  base + N  and returns N.
func cacheIntOffset(e ast.Expr, base string) (int, bool) {
	if e == nil {
		return 0, true
	}
	if cacheExprStr(e) == base {
		return 0, true
	}
	if b, ok := e.(*ast.BinaryExpr); ok && b.Op == token.ADD && cacheExprStr(b.X) == base {
		if l, ok := b.Y.(*ast.BasicLit); ok && l.Kind == token.INT {
			n, err := strconv.Atoi(l.Value)
			return n, err == nil
		}
	}
	return 0, false
}

func cacheUnwrapStoreArg(c *ast.CallExpr) ast.Expr {
	if len(c.Args) != 1 {
		return nil
	}
	a := c.Args[0]
	for {
		switch x := a.(type) {
		case *ast.CallExpr:
			if cacheCallName(x) == "ptrToLowLevel" && len(x.Args) == 1 {
				a = x.Args[0]
				continue
			}
		case *ast.ParenExpr:
			a = x.X
			continue
		}
		return a
	}
}

// checkStoresInBlock: every store in blk stores &X where X is fresh in blk, and is the last use of X.
func (f *cacheFacts) checkStoresInBlock(where string, blk *ast.BlockStmt) (nstores int) {
	for i, st := range blk.List {
		es, ok := st.(*ast.ExprStmt)
		if !ok {
			continue
		}
		c, ok := es.X.(*ast.CallExpr)
		if !ok || !cacheStoreRe.MatchString(cacheCallName(c)) {
			continue
		}
		nstores++
		arg := cacheUnwrapStoreArg(c)
		u, ok := arg.(*ast.UnaryExpr)
		var x string
		if ok && u.Op == token.AND {
			if id, ok := u.X.(*ast.Ident); ok {
				x = id.Name
			}
		}
		if x == "" {
			f.storeFresh = false
			f.note("%s: store argument %s is not &ident", where, cacheExprStr(arg))
			continue
		}
		fresh := false
		for j := 0; j < i; j++ {
			as, ok := blk.List[j].(*ast.AssignStmt)
			if !ok || len(as.Lhs) != 1 || len(as.Rhs) != 1 {
				continue
			}
			id, ok := as.Lhs[0].(*ast.Ident)
			if !ok || id.Name != x {
				continue
			}
			switch r := as.Rhs[0].(type) {
			case *ast.CallExpr:
				fresh = cacheCallName(r) == "make" && as.Tok == token.DEFINE
			case *ast.CompositeLit:
				// x = []T{{k, v}} immediately before the store
				fresh = j == i-1
			default:
				fresh = false
			}
		}
		if !fresh {
			f.storeFresh = false
			f.note("%s: stored slice %s is not a fresh make/composite literal of this block", where, x)
		}
		for j := i + 1; j < len(blk.List); j++ {
			if cacheMentionsIdent(blk.List[j], map[string]bool{x: true}) {
				f.storeLast = false
				f.note("%s: %s is used after it was published", where, x)
			}
		}
	}
	return
}

func (f *cacheFacts) setArith(where string, lenInc, hiDst, hiSrc, loDst, setOff int) error {
	if !f.arithSet {
		f.lenInc, f.hiDst, f.hiSrc, f.loDst, f.setOff, f.arithSet = lenInc, hiDst, hiSrc, loDst, setOff, true
		return nil
	}
	if f.lenInc != lenInc || f.hiDst != hiDst || f.hiSrc != hiSrc || f.loDst != loDst || f.setOff != setOff {
		// the loaders no longer agree: report the deviating one (the model is of one protocol)
		f.lenInc, f.hiDst, f.hiSrc, f.loDst, f.setOff = lenInc, hiDst, hiSrc, loDst, setOff
		f.note("%s: insert arithmetic differs from the other loaders", where)
		f.recheck = f.recheck && true
		return fmt.Errorf("%s: insert arithmetic (len+%d, dst idx+%d, src idx+%d, lo dst %d, set idx+%d) differs from the other loaders", where, lenInc, hiDst, hiSrc, loDst, setOff)
	}
	return nil
}

// checkLoader analyses one publication function.
func (f *cacheFacts) checkLoader(where string, fd *ast.FuncDecl) error {
	body := fd.Body
	lockIdx, unlockIdx := -1, -1
	var lockRecv string
	nlock, nunlock := 0, 0
	for i, st := range body.List {
		if r, ok := cacheIsCallStmt(st, "Lock"); ok {
			nlock++
			if lockIdx < 0 {
				lockIdx, lockRecv = i, r
			}
		}
		if r, ok := cacheIsCallStmt(st, "Unlock"); ok {
			nunlock++
			if r == lockRecv {
				unlockIdx = i
			}
		}
	}
	// Lock/Unlock anywhere else (nested, deferred)?
	allLock, allUnlock := 0, 0
	ast.Inspect(body, func(n ast.Node) bool {
		if c, ok := n.(*ast.CallExpr); ok {
			if se, ok := c.Fun.(*ast.SelectorExpr); ok {
				switch se.Sel.Name {
				case "Lock", "RLock", "TryLock":
					allLock++
				case "Unlock", "RUnlock":
					allUnlock++
				}
			}
		}
		return true
	})
	if nlock != 1 || nunlock != 1 || allLock != 1 || allUnlock != 1 || lockIdx < 0 || unlockIdx <= lockIdx {
		f.lockBalanced = false
		f.recheck = false
		f.note("%s: expected exactly one top-level mu.Lock() followed by one mu.Unlock() (found %d/%d, nested %d/%d)", where, nlock, nunlock, allLock, allUnlock)
		// without a locked region the remaining facts are about the whole body
		lockIdx, unlockIdx = -1, len(body.List)
	}
	region := &ast.BlockStmt{List: body.List[lockIdx+1 : unlockIdx]}
	// no return / defer / go / panic-like call in the locked region; only whitelisted calls
	loadsInRegion := 0
	ast.Inspect(region, func(n ast.Node) bool {
		switch s := n.(type) {
		case *ast.ReturnStmt, *ast.DeferStmt, *ast.GoStmt:
			f.lockBalanced = false
			f.note("%s: return/defer/go inside the locked region", where)
		case *ast.BranchStmt:
			if s.Tok == token.GOTO {
				f.lockBalanced = false
				f.note("%s: goto inside the locked region", where)
			}
		case *ast.CallExpr:
			fn := cacheCallName(s)
			switch {
			case cacheLoadRe.MatchString(fn):
				loadsInRegion++
			case cacheStoreRe.MatchString(fn), cacheFinderRe.MatchString(fn), cacheLockedOK[fn]:
			default:
				// conversions / composite literal types are not CallExpr except T(x); allow pure type conversions of idents
				f.noForeignUnderLock = false
				f.note("%s: call to %s while the mutex is held", where, fn)
			}
		}
		return true
	})
	if loadsInRegion == 0 {
		f.recheck = false
		f.note("%s: the published slice is not re-loaded after Lock", where)
	}
	// stores outside the locked region?
	for i, st := range body.List {
		if i > lockIdx && i < unlockIdx {
			continue
		}
		ast.Inspect(st, func(n ast.Node) bool {
			if c, ok := n.(*ast.CallExpr); ok && cacheStoreRe.MatchString(cacheCallName(c)) {
				f.lockBalanced = false
				f.note("%s: store outside the locked region", where)
			}
			return true
		})
	}
	// every block with a store: fresh + last
	nst := 0
	ast.Inspect(region, func(n ast.Node) bool {
		if b, ok := n.(*ast.BlockStmt); ok {
			nst += f.checkStoresInBlock(where, b)
		}
		return true
	})
	nst += 0
	total := 0
	ast.Inspect(region, func(n ast.Node) bool {
		if c, ok := n.(*ast.CallExpr); ok && cacheStoreRe.MatchString(cacheCallName(c)) {
			total++
		}
		return true
	})
	if total != nst || total == 0 {
		f.storeFresh = false
		f.note("%s: %d store call(s), %d as plain statements of a block", where, total, nst)
	}
	// the insert: if <found> == nil { sp2 := make(T, len(sp)+N); copy(sp2[idx+A:], sp[idx+B:]); copy(sp2, sp[:idx]); sp2[idx+D] = T{rtid, v}; store(&sp2) }
	var insertIf *ast.IfStmt
	var insertBlk *ast.BlockStmt
	var encl *ast.BlockStmt
	ast.Inspect(region, func(n ast.Node) bool {
		b, ok := n.(*ast.BlockStmt)
		if !ok {
			return true
		}
		for _, st := range b.List {
			ifs, ok := st.(*ast.IfStmt)
			if !ok {
				continue
			}
			for _, s2 := range ifs.Body.List {
				if as, ok := s2.(*ast.AssignStmt); ok && as.Tok == token.DEFINE && len(as.Rhs) == 1 {
					if c, ok := as.Rhs[0].(*ast.CallExpr); ok && cacheCallName(c) == "make" {
						insertIf, insertBlk, encl = ifs, ifs.Body, b
					}
				}
			}
		}
		return true
	})
	if insertBlk == nil {
		return fmt.Errorf("%s: cannot find the copy-insert block (if found == nil { sp2 := make(...) ... })", where)
	}
	// the condition: <y> == nil where y comes from the finder applied to the re-loaded slice in the enclosing block
	condOK := false
	var idxName, spName, keyName string
	if be, ok := insertIf.Cond.(*ast.BinaryExpr); ok && be.Op == token.EQL && cacheExprStr(be.Y) == "nil" {
		y := cacheExprStr(be.X)
		for _, st := range encl.List {
			if st == ast.Stmt(insertIf) {
				break
			}
			as, ok := st.(*ast.AssignStmt)
			if !ok || len(as.Lhs) != 2 || len(as.Rhs) != 1 {
				continue
			}
			c, ok := as.Rhs[0].(*ast.CallExpr)
			if !ok || !cacheFinderRe.MatchString(cacheCallName(c)) || len(c.Args) != 2 {
				continue
			}
			if cacheExprStr(as.Lhs[1]) == y {
				condOK = true
				idxName, spName, keyName = cacheExprStr(as.Lhs[0]), cacheExprStr(c.Args[0]), cacheExprStr(c.Args[1])
			}
		}
	}
	L := cacheLoadedVars(body)
	if !condOK || !L[spName] {
		f.recheck = false
		f.note("%s: the insert is not guarded by a search of the re-loaded slice (cond %s)", where, cacheExprStr(insertIf.Cond))
		return fmt.Errorf("%s: cannot read the re-check guarding the insert", where)
	}
	// arithmetic
	var sp2 string
	lenInc, hiDst, hiSrc, loDst, setOff := -1, -1, -1, -1, -1
	for _, st := range insertBlk.List {
		switch s := st.(type) {
		case *ast.AssignStmt:
			if s.Tok == token.DEFINE && len(s.Rhs) == 1 {
				if c, ok := s.Rhs[0].(*ast.CallExpr); ok && cacheCallName(c) == "make" && len(c.Args) == 2 {
					sp2 = cacheExprStr(s.Lhs[0])
					if n, ok := cacheIntOffset(cacheResolveLocal(insertBlk, st, c.Args[1]), "len("+spName+")"); ok {
						lenInc = n
					}
				}
				continue
			}
			if len(s.Lhs) == 1 && len(s.Rhs) == 1 {
				if ie, ok := s.Lhs[0].(*ast.IndexExpr); ok && cacheExprStr(ie.X) == sp2 {
					if n, ok := cacheIntOffset(ie.Index, idxName); ok {
						setOff = n
					}
					if cl, ok := s.Rhs[0].(*ast.CompositeLit); ok && len(cl.Elts) == 2 && cacheExprStr(cl.Elts[0]) == keyName {
						// entry keyed by the searched key
					} else {
						f.entryKeyed = false
						f.note("%s: inserted entry is not {%s, value}", where, keyName)
					}
				}
			}
		case *ast.ExprStmt:
			c, ok := s.X.(*ast.CallExpr)
			if !ok || cacheCallName(c) != "copy" || len(c.Args) != 2 {
				continue
			}
			dst, src := c.Args[0], c.Args[1]
			dse, dIsSlice := dst.(*ast.SliceExpr)
			sse, sIsSlice := src.(*ast.SliceExpr)
			if !sIsSlice || cacheExprStr(sse.X) != spName {
				continue
			}
			if sse.Low != nil && sse.High == nil { // copy(sp2[idx+A:], sp[idx+B:])
				if dIsSlice && cacheExprStr(dse.X) == sp2 && dse.High == nil {
					if a, ok := cacheIntOffset(dse.Low, idxName); ok {
						hiDst = a
					}
					if b, ok := cacheIntOffset(sse.Low, idxName); ok {
						hiSrc = b
					}
				}
			} else if sse.Low == nil && sse.High != nil && cacheExprStr(sse.High) == idxName { // copy(sp2, sp[:idx])
				if !dIsSlice && cacheExprStr(dst) == sp2 {
					loDst = 0
				} else if dIsSlice && cacheExprStr(dse.X) == sp2 && dse.High == nil {
					if l, ok := dse.Low.(*ast.BasicLit); ok {
						loDst, _ = strconv.Atoi(l.Value)
					}
				}
			}
		}
	}
	if lenInc < 0 || hiDst < 0 || hiSrc < 0 || loDst < 0 || setOff < 0 {
		return fmt.Errorf("%s: cannot read the insert arithmetic (len+%d, dst idx+%d, src idx+%d, lo dst %d, set idx+%d)", where, lenInc, hiDst, hiSrc, loDst, setOff)
	}
	return f.setArith(where, lenInc, hiDst, hiSrc, loDst, setOff)
}

// checkFinder reads the binary search:
//
//	var h uint; var j = uint(len(s))
//	LOOP: if i < j { h = (i + j) >> S; if s[h].rtid < rtid { i = h + N } else { j = h }; goto LOOP }
//	if i < uint(len(s)) && s[i].rtid == rtid { r = s[i].X }
func (f *cacheFacts) checkFinder(where string, fd *ast.FuncDecl) error {
	if fd.Type.Params == nil || len(fd.Type.Params.List) != 2 || fd.Type.Results == nil {
		return fmt.Errorf("%s: unexpected signature", where)
	}
	sName := fd.Type.Params.List[0].Names[0].Name
	kName := fd.Type.Params.List[1].Names[0].Name
	var res []string
	for _, r := range fd.Type.Results.List {
		for _, n := range r.Names {
			res = append(res, n.Name)
		}
	}
	if len(res) != 2 {
		return fmt.Errorf("%s: expected two named results", where)
	}
	iName := res[0]
	var loop *ast.IfStmt
	var final *ast.IfStmt
	jInit := ""
	hName, jName := "", ""
	for _, st := range fd.Body.List {
		switch s := st.(type) {
		case *ast.DeclStmt:
			gd := s.Decl.(*ast.GenDecl)
			for _, sp := range gd.Specs {
				vs := sp.(*ast.ValueSpec)
				if len(vs.Values) == 1 {
					jName, jInit = vs.Names[0].Name, cacheExprStr(vs.Values[0])
				} else if len(vs.Names) == 1 {
					hName = vs.Names[0].Name
				}
			}
		case *ast.LabeledStmt:
			if ifs, ok := s.Stmt.(*ast.IfStmt); ok {
				loop = ifs
			}
		case *ast.IfStmt:
			final = s
		case *ast.ReturnStmt:
		default:
			return fmt.Errorf("%s: unexpected statement %T", where, st)
		}
	}
	if loop == nil || final == nil || jInit != "uint(len("+sName+"))" {
		return fmt.Errorf("%s: binary search shape not recognised (j init %q)", where, jInit)
	}
	if cacheExprStr(loop.Cond) != iName+" < "+jName || len(loop.Body.List) != 3 {
		return fmt.Errorf("%s: loop shape not recognised: %s", where, cacheExprStr(loop.Cond))
	}
	shift, loInc := -1, -1
	cmpLt := false
	// h = (i + j) >> S
	if as, ok := loop.Body.List[0].(*ast.AssignStmt); ok && len(as.Lhs) == 1 && cacheExprStr(as.Lhs[0]) == hName {
		if be, ok := as.Rhs[0].(*ast.BinaryExpr); ok && be.Op == token.SHR && cacheExprStr(be.X) == "("+iName+" + "+jName+")" {
			if l, ok := be.Y.(*ast.BasicLit); ok {
				shift, _ = strconv.Atoi(l.Value)
			}
		}
	}
	if ifs, ok := loop.Body.List[1].(*ast.IfStmt); ok {
		c := cacheExprStr(ifs.Cond)
		if c == sName+"["+hName+"].rtid < "+kName {
			cmpLt = true
		}
		if len(ifs.Body.List) == 1 {
			if as, ok := ifs.Body.List[0].(*ast.AssignStmt); ok && cacheExprStr(as.Lhs[0]) == iName {
				if n, ok := cacheIntOffset(as.Rhs[0], hName); ok {
					loInc = n
				}
			}
		}
		eb, ok := ifs.Else.(*ast.BlockStmt)
		if !ok || len(eb.List) != 1 {
			return fmt.Errorf("%s: else branch not recognised", where)
		}
		if as, ok := eb.List[0].(*ast.AssignStmt); !ok || cacheExprStr(as.Lhs[0]) != jName || cacheExprStr(as.Rhs[0]) != hName {
			return fmt.Errorf("%s: else branch is not %s = %s", where, jName, hName)
		}
	}
	if br, ok := loop.Body.List[2].(*ast.BranchStmt); !ok || br.Tok != token.GOTO {
		return fmt.Errorf("%s: loop does not end in goto", where)
	}
	if shift < 0 || loInc < 0 {
		return fmt.Errorf("%s: cannot read midpoint shift / lower-bound increment", where)
	}
	finalEq := cacheExprStr(final.Cond) == iName+" < uint(len("+sName+")) && "+sName+"["+iName+"].rtid == "+kName
	if finalEq && len(final.Body.List) == 1 {
		if as, ok := final.Body.List[0].(*ast.AssignStmt); !ok || cacheExprStr(as.Lhs[0]) != res[1] || !strings.HasPrefix(cacheExprStr(as.Rhs[0]), sName+"["+iName+"].") {
			finalEq = false
		}
	} else {
		finalEq = false
	}
	if !f.findSet {
		f.findShift, f.findLoInc, f.findCmpLt, f.findFinalEq, f.findSet = shift, loInc, cmpLt, finalEq, true
		return nil
	}
	if f.findShift != shift || f.findLoInc != loInc || f.findCmpLt != cmpLt || f.findFinalEq != finalEq {
		f.findShift, f.findLoInc, f.findCmpLt, f.findFinalEq = shift, loInc, cmpLt, finalEq
		return fmt.Errorf("%s: binary search (shift %d, inc %d, lt %v, eq %v) differs from the other finders", where, shift, loInc, cmpLt, finalEq)
	}
	return nil
}

// checkPoolPuts: the sync.Pool contract side the code must keep — an object goes back to a pool only after its
// last use.  In every function that takes from a pool (x.Get()) every x.Put(v) must be deferred, or no identifier
// holding v (v itself or a variable assigned from / to it) may be mentioned after the Put statement.
func (f *cacheFacts) checkPoolPuts(where string, fd *ast.FuncDecl) {
	hasGet := false
	type put struct {
		call     *ast.CallExpr
		deferred bool
	}
	var puts []put
	deferredCalls := map[*ast.CallExpr]bool{}
	ast.Inspect(fd.Body, func(n ast.Node) bool {
		switch s := n.(type) {
		case *ast.DeferStmt:
			deferredCalls[s.Call] = true
		case *ast.CallExpr:
			if se, ok := s.Fun.(*ast.SelectorExpr); ok {
				if se.Sel.Name == "Get" && len(s.Args) == 0 {
					hasGet = true
				}
				if se.Sel.Name == "Put" && len(s.Args) == 1 {
					puts = append(puts, put{s, deferredCalls[s]})
				}
			}
		}
		return true
	})
	if !hasGet || len(puts) == 0 {
		return
	}
	for _, pt := range puts {
		f.poolPutSites++
		if pt.deferred {
			continue
		}
		root := cacheRootIdent(pt.call.Args[0])
		if root == "" {
			f.poolPutLast = false
			f.note("%s: %s(%s): cannot follow the returned object", where, cacheExprStr(pt.call.Fun), cacheExprStr(pt.call.Args[0]))
			continue
		}
		T := map[string]bool{root: true}
		for changed := true; changed; {
			changed = false
			ast.Inspect(fd.Body, func(n ast.Node) bool {
				as, ok := n.(*ast.AssignStmt)
				if !ok || len(as.Lhs) != len(as.Rhs) {
					return true
				}
				for i := range as.Lhs {
					id, ok := as.Lhs[i].(*ast.Ident)
					if !ok {
						continue
					}
					if !T[id.Name] && cacheMentionsIdent(as.Rhs[i], T) {
						T[id.Name] = true
						changed = true
					}
					if T[id.Name] {
						// v = w.(T): w is the same object
						r := as.Rhs[i]
						if ta, ok := r.(*ast.TypeAssertExpr); ok {
							r = ta.X
						}
						if rid, ok := r.(*ast.Ident); ok && !T[rid.Name] {
							T[rid.Name] = true
							changed = true
						}
					}
				}
				return true
			})
		}
		end := pt.call.End()
		used := ""
		ast.Inspect(fd.Body, func(n ast.Node) bool {
			if id, ok := n.(*ast.Ident); ok && T[id.Name] && id.Pos() > end && used == "" {
				used = id.Name
			}
			return true
		})
		if used != "" {
			f.poolPutLast = false
			f.note("%s: %s is used after %s(%s) returned it to the pool", where, used, cacheExprStr(pt.call.Fun), cacheExprStr(pt.call.Args[0]))
		}
	}
}

// checkNakedTemplates: the package-level reflect.Value templates DecodeNaked boxes scalars through
// (defUnsafeDecNakedWrapper) are shared by every decoder of the process.  Outside init() they may only be COPIED:
// every mention must be the right-hand side  local = defUnsafe….field  of an assignment to a plain identifier.
func (f *cacheFacts) checkNakedTemplates(where string, fd *ast.FuncDecl) {
	if fd.Name.Name == "init" && fd.Recv == nil {
		return
	}
	isTpl := func(e ast.Expr) bool {
		id, ok := e.(*ast.Ident)
		return ok && strings.HasPrefix(id.Name, "defUnsafe") && strings.HasSuffix(id.Name, "Wrapper")
	}
	okUse := map[*ast.Ident]bool{}
	ast.Inspect(fd.Body, func(n ast.Node) bool {
		as, ok := n.(*ast.AssignStmt)
		if !ok || len(as.Lhs) != len(as.Rhs) {
			return true
		}
		for i := range as.Rhs {
			se, ok := as.Rhs[i].(*ast.SelectorExpr)
			if !ok || !isTpl(se.X) {
				continue
			}
			if _, ok := as.Lhs[i].(*ast.Ident); ok {
				okUse[se.X.(*ast.Ident)] = true
			}
		}
		return true
	})
	ast.Inspect(fd.Body, func(n ast.Node) bool {
		if id, ok := n.(*ast.Ident); ok && isTpl(id) {
			f.nakedTemplateUses++
			if !okUse[id] {
				f.nakedTemplatesCopied = false
				f.note("%s: the shared template %s is used other than by copying one of its fields into a local", where, id.Name)
			}
		}
		return true
	})
}

// checkSideCoderCalls: every callback handed to sideEncode/sideDecode resets the pooled coder before anything else
// (ResetBytes on its parameter, directly or as the first statement of oneOffEncode/oneOffDecode).
func (f *cacheFacts) checkSideCoderCalls(where string, fd *ast.FuncDecl) {
	nm := fd.Name.Name
	if (nm == "oneOffEncode" || nm == "oneOffDecode") && fd.Recv == nil {
		f.sideCoderSites++
		ok := false
		if len(fd.Body.List) > 0 && fd.Type.Params != nil && len(fd.Type.Params.List) > 0 && len(fd.Type.Params.List[0].Names) > 0 {
			p0 := fd.Type.Params.List[0].Names[0].Name
			if es, isE := fd.Body.List[0].(*ast.ExprStmt); isE {
				if c, isC := es.X.(*ast.CallExpr); isC && cacheCallName(c) == p0+".ResetBytes" {
					ok = true
				}
			}
		}
		if !ok {
			f.sideResetFirst = false
			f.note("%s: first statement is not <coder>.ResetBytes(...)", where)
		}
		return
	}
	ast.Inspect(fd.Body, func(n ast.Node) bool {
		c, ok := n.(*ast.CallExpr)
		if !ok {
			return true
		}
		cn := cacheCallName(c)
		if cn != "sideEncode" && cn != "sideDecode" {
			return true
		}
		f.sideCoderSites++
		good := false
		if len(c.Args) == 3 {
			if fl, ok := c.Args[2].(*ast.FuncLit); ok && len(fl.Body.List) > 0 && len(fl.Type.Params.List) == 1 && len(fl.Type.Params.List[0].Names) == 1 {
				p0 := fl.Type.Params.List[0].Names[0].Name
				if es, ok := fl.Body.List[0].(*ast.ExprStmt); ok {
					if c2, ok := es.X.(*ast.CallExpr); ok {
						fn2 := cacheCallName(c2)
						if fn2 == p0+".ResetBytes" {
							good = true
						}
						if (fn2 == "oneOffEncode" || fn2 == "oneOffDecode") && len(c2.Args) > 0 && cacheExprStr(c2.Args[0]) == p0 {
							good = true
						}
					}
				}
			}
		}
		if !good {
			f.sideResetFirst = false
			f.note("%s: callback of %s does not start by resetting the pooled coder", where, cn)
		}
		return true
	})
}

func (f *cacheFacts) checkInit(fns map[string]*ast.FuncDecl, all []*ast.FuncDecl) {
	ih, ih2 := fns["initHandle"], fns["initHandle2"]
	if ih == nil || ih2 == nil {
		f.initDoubleChecked = false
		f.note("initHandle/initHandle2 not found")
		return
	}
	// initHandle: ...; if atomic.LoadUint32(&x.inited) == 0 { initHandle2(x, hh) }
	ok1 := false
	for _, st := range ih.Body.List {
		if ifs, ok := st.(*ast.IfStmt); ok && cacheExprStr(ifs.Cond) == "atomic.LoadUint32(&x.inited) == 0" && len(ifs.Body.List) == 1 {
			if es, ok := ifs.Body.List[0].(*ast.ExprStmt); ok {
				if c, ok := es.X.(*ast.CallExpr); ok && cacheCallName(c) == "initHandle2" {
					ok1 = true
				}
			}
		}
	}
	b := ih2.Body.List
	ok2 := len(b) >= 4
	if ok2 {
		r, isLock := cacheIsCallStmt(b[0], "Lock")
		ok2 = isLock && r == "handleInitMu"
		if ds, ok := b[1].(*ast.DeferStmt); ok && cacheExprStr(ds.Call.Fun) == "handleInitMu.Unlock" {
		} else {
			f.initUnlockDeferred = false
			f.note("initHandle2: second statement is not defer handleInitMu.Unlock()")
		}
		if ifs, ok := b[2].(*ast.IfStmt); ok && cacheExprStr(ifs.Cond) == "x.inited != 0" && len(ifs.Body.List) == 1 {
			if _, ok := ifs.Body.List[0].(*ast.ReturnStmt); !ok {
				ok2 = false
			}
		} else {
			ok2 = false
		}
		last := b[len(b)-1]
		if es, ok := last.(*ast.ExprStmt); ok && cacheExprStr(es.X) == "atomic.StoreUint32(&x.inited, 1)" {
		} else {
			f.initFlagStoreLast = false
			f.note("initHandle2: last statement is not atomic.StoreUint32(&x.inited, 1)")
		}
		// the flag is written exactly once in initHandle2 (by that last statement)
		nst := 0
		ast.Inspect(ih2.Body, func(nd ast.Node) bool {
			if c, ok := nd.(*ast.CallExpr); ok && strings.HasPrefix(cacheCallName(c), "atomic.") && !strings.HasPrefix(cacheCallName(c), "atomic.Load") &&
				len(c.Args) > 0 && strings.HasSuffix(cacheExprStr(c.Args[0]), ".inited") {
				nst++
			}
			return true
		})
		if nst != 1 {
			f.initFlagStoreLast = false
			f.note("initHandle2: the inited flag is written %d times", nst)
		}
		// no other Lock in initHandle2 (no nesting under handleInitMu)
		n := 0
		ast.Inspect(ih2.Body, func(nd ast.Node) bool {
			if c, ok := nd.(*ast.CallExpr); ok {
				if se, ok := c.Fun.(*ast.SelectorExpr); ok && (se.Sel.Name == "Lock" || se.Sel.Name == "Unlock") {
					n++
				}
			}
			return true
		})
		if n != 2 {
			f.initUnlockDeferred = false
			f.note("initHandle2: %d Lock/Unlock calls", n)
		}
	}
	if !ok1 || !ok2 {
		f.initDoubleChecked = false
		f.note("initHandle/initHandle2: double-checked shape not recognised (%v/%v)", ok1, ok2)
	}
	// writers of .inited
	for _, fd := range all {
		if fd.Body == nil {
			continue
		}
		nm := fd.Name.Name
		ast.Inspect(fd.Body, func(nd ast.Node) bool {
			switch s := nd.(type) {
			case *ast.AssignStmt:
				for _, l := range s.Lhs {
					if se, ok := l.(*ast.SelectorExpr); ok && se.Sel.Name == "inited" {
						f.initedWritersOK = false
						f.note("%s assigns .inited non-atomically", nm)
					}
				}
			case *ast.CallExpr:
				fn := cacheCallName(s)
				if strings.HasPrefix(fn, "atomic.") && !strings.HasPrefix(fn, "atomic.Load") && len(s.Args) > 0 && strings.HasSuffix(cacheExprStr(s.Args[0]), ".inited") {
					if nm != "initHandle2" && nm != "clearInited" {
						f.initedWritersOK = false
						f.note("%s writes .inited", nm)
					}
				}
			}
			return true
		})
	}
}

func cacheB2c(b bool) string {
	if b {
		return "true"
	}
	return "false"
}

func genCache(p *pkgInfo) (string, string, error) {
	const name = "Cache.v"
	if len(p.files) == 0 {
		return name, "", fmt.Errorf("no files")
	}
	dir := filepath.Dir(p.fset.Position(p.files[0].Pos()).Filename)
	ents, err := os.ReadDir(dir)
	if err != nil {
		return name, "", err
	}
	fset := token.NewFileSet()
	type fnAt struct {
		fd   *ast.FuncDecl
		file string
	}
	var all []fnAt
	for _, e := range ents {
		n := e.Name()
		if !strings.HasSuffix(n, ".go") || strings.HasSuffix(n, "_test.go") || strings.HasPrefix(n, "verif_hooks") {
			continue
		}
		af, err := parser.ParseFile(fset, filepath.Join(dir, n), nil, 0)
		if err != nil {
			return name, "", err
		}
		if af.Name.Name != "codec" {
			continue
		}
		for _, d := range af.Decls {
			if fd, ok := d.(*ast.FuncDecl); ok && fd.Body != nil {
				all = append(all, fnAt{fd, n})
			}
		}
	}
	f := &cacheFacts{noInplace: true, storeFresh: true, storeLast: true, recheck: true, lockBalanced: true,
		noForeignUnderLock: true, storeSitesOnlyLoaders: true, entryKeyed: true,
		initDoubleChecked: true, initFlagStoreLast: true, initUnlockDeferred: true, initedWritersOK: true, poolPutLast: true, nakedTemplatesCopied: true, sideResetFirst: true}
	var firstErr error
	keep := func(err error) {
		if err != nil && firstErr == nil {
			firstErr = err
		}
	}
	byName := map[string]*ast.FuncDecl{}
	var decls []*ast.FuncDecl
	for _, fa := range all {
		fd := fa.fd
		decls = append(decls, fd)
		nm := fd.Name.Name
		recv := cacheRecvTypeName(fd)
		where := fa.file + ":" + recv + "." + nm
		if recv == "" {
			byName[nm] = fd
		}
		f.checkPoolPuts(where, fd)
		f.checkNakedTemplates(where, fd)
		f.checkSideCoderCalls(where, fd)
		if recv == "atomicRtidFnSlice" || cachePrimitive[nm] {
			continue // the atomic primitives themselves
		}
		isLoader := cacheLoaderNm[nm] || (nm == "load" && recv == "TypeInfos")
		isFinder := cacheFinderRe.MatchString(nm)
		callsLoad, callsStore := false, false
		ast.Inspect(fd.Body, func(n ast.Node) bool {
			if c, ok := n.(*ast.CallExpr); ok {
				fn := cacheCallName(c)
				if cacheLoadRe.MatchString(fn) {
					callsLoad = true
				}
				if cacheStoreRe.MatchString(fn) {
					callsStore = true
				}
			}
			return true
		})
		if callsStore && !isLoader {
			f.storeSitesOnlyLoaders = false
			f.note("%s publishes a cache slice but is not a known loader", where)
		}
		if isLoader && !callsStore {
			f.storeSitesOnlyLoaders = false
			f.note("%s is a loader but never publishes", where)
		}
		if callsLoad || isLoader {
			f.readers++
			L := cacheLoadedVars(fd.Body)
			if w := cacheInplaceWrites(fd.Body, L); len(w) > 0 {
				f.noInplace = false
				f.note("%s writes through the loaded slice: %s", where, strings.Join(w, "; "))
			}
		}
		if isLoader {
			f.loaders++
			keep(f.checkLoader(where, fd))
		}
		if isFinder {
			f.finders++
			// the finder must not write to its slice argument either
			if fd.Type.Params != nil && len(fd.Type.Params.List) > 0 && len(fd.Type.Params.List[0].Names) > 0 {
				L := map[string]bool{fd.Type.Params.List[0].Names[0].Name: true}
				if w := cacheInplaceWrites(fd.Body, L); len(w) > 0 {
					f.noInplace = false
					f.note("%s writes to the searched slice: %s", where, strings.Join(w, "; "))
				}
			}
			keep(f.checkFinder(where, fd))
		}
	}
	if f.loaders < 3 || f.finders < 3 {
		keep(fmt.Errorf("found %d loaders and %d finders (expected TypeInfos.load, encFnViaLoader, decFnViaLoader and their finders)", f.loaders, f.finders))
	}
	f.checkInit(byName, decls)
	if firstErr != nil {
		return name, "", firstErr
	}
	var b bytes.Buffer
	b.WriteString("(* GENERATED by harness/cmd/srcgen/cache.go from /repo/codec (all build variants, syntactic). DO NOT EDIT. *)\n")
	b.WriteString("(* Facts about the copy-on-write publication protocol of TypeInfos.infos and the rtidFns caches. *)\n\n")
	fmt.Fprintf(&b, "Definition loaders_checked : nat := %d.\n", f.loaders)
	fmt.Fprintf(&b, "Definition finders_checked : nat := %d.\n", f.finders)
	fmt.Fprintf(&b, "Definition readers_checked : nat := %d.\n\n", f.readers)
	fmt.Fprintf(&b, "(* no function assigns through (index, slice, copy-into, append-to) a slice obtained from the atomic load *)\nDefinition no_inplace_write : bool := %s.\n", cacheB2c(f.noInplace))
	fmt.Fprintf(&b, "(* every atomic store publishes &x where x is a fresh make(...) or composite literal of the same block *)\nDefinition store_fresh : bool := %s.\n", cacheB2c(f.storeFresh))
	fmt.Fprintf(&b, "(* the published slice is not touched after the store (filled before it is published) *)\nDefinition store_last : bool := %s.\n", cacheB2c(f.storeLast))
	fmt.Fprintf(&b, "(* after Lock the slice is re-loaded and searched again; the insert happens only when that search fails *)\nDefinition recheck_after_lock : bool := %s.\n", cacheB2c(f.recheck))
	fmt.Fprintf(&b, "(* one Lock, one Unlock on the same mutex, both top-level statements, all stores between them, no return/defer/goto between them *)\nDefinition lock_balanced : bool := %s.\n", cacheB2c(f.lockBalanced))
	fmt.Fprintf(&b, "(* between Lock and Unlock only load/find/make/copy/len/store are called (no second mutex, nothing that can block or panic) *)\nDefinition no_foreign_call_under_lock : bool := %s.\n", cacheB2c(f.noForeignUnderLock))
	fmt.Fprintf(&b, "(* only the loader functions publish *)\nDefinition store_sites_only_loaders : bool := %s.\n", cacheB2c(f.storeSitesOnlyLoaders))
	fmt.Fprintf(&b, "(* the inserted entry is {searched key, value} *)\nDefinition entry_keyed : bool := %s.\n", cacheB2c(f.entryKeyed))
	fmt.Fprintf(&b, "(* initHandle: atomic load of inited, then initHandle2: Lock, re-check, init, atomic store as the last statement, deferred Unlock *)\nDefinition init_double_checked : bool := %s.\nDefinition init_flag_store_last : bool := %s.\nDefinition init_unlock_deferred : bool := %s.\nDefinition inited_writers_ok : bool := %s.\n\n",
		cacheB2c(f.initDoubleChecked), cacheB2c(f.initFlagStoreLast), cacheB2c(f.initUnlockDeferred), cacheB2c(f.initedWritersOK))
	fmt.Fprintf(&b, "(* sync.Pool users (sideEncode, sideDecode, ...): every Put is deferred or is the last use of the object *)\nDefinition pool_put_after_last_use : bool := %s.\nDefinition pool_put_sites : nat := %d.\n\n", cacheB2c(f.poolPutLast), f.poolPutSites)
	fmt.Fprintf(&b, "(* the package-level reflect.Value templates of DecodeNaked are only ever copied (local = template.field) outside init() *)\nDefinition naked_templates_copied : bool := %s.\nDefinition naked_template_uses : nat := %d.\n", cacheB2c(f.nakedTemplatesCopied), f.nakedTemplateUses)
	fmt.Fprintf(&b, "(* every user of a pooled side encoder/decoder resets it (ResetBytes) before anything else *)\nDefinition side_coder_reset_first : bool := %s.\nDefinition side_coder_sites : nat := %d.\n\n", cacheB2c(f.sideResetFirst), f.sideCoderSites)
	b.WriteString("(* sorted insert: sp2 := make(T, len(sp)+ins_len_inc); copy(sp2[idx+ins_hi_dst:], sp[idx+ins_hi_src:]); copy(sp2[ins_lo_dst:], sp[:idx]); sp2[idx+ins_set] = e *)\n")
	fmt.Fprintf(&b, "Definition ins_len_inc : nat := %d.\nDefinition ins_hi_dst : nat := %d.\nDefinition ins_hi_src : nat := %d.\nDefinition ins_lo_dst : nat := %d.\nDefinition ins_set : nat := %d.\n\n", f.lenInc, f.hiDst, f.hiSrc, f.loDst, f.setOff)
	b.WriteString("(* binary search: h = (i+j) >> find_shift; if s[h].rtid < k then i = h + find_lo_inc else j = h; found iff i < len && s[i].rtid == k *)\n")
	fmt.Fprintf(&b, "Definition find_shift : nat := %d.\nDefinition find_lo_inc : nat := %d.\nDefinition find_cmp_lt : bool := %s.\nDefinition find_final_eq : bool := %s.\n", f.findShift, f.findLoInc, cacheB2c(f.findCmpLt), cacheB2c(f.findFinalEq))
	if len(f.notes) > 0 {
		sort.Strings(f.notes)
		b.WriteString("\n(* deviations found:\n")
		for _, n := range f.notes {
			b.WriteString("   " + strings.ReplaceAll(n, "*)", "* )") + "\n")
		}
		b.WriteString("*)\n")
	}
	return name, b.String(), nil
}

// reset.go — translator part for C12 (Gen/Reset.v).
//
// For each state struct of an Encoder/Decoder instance (generic encoder/decoder
// with their embedded *Base, the five enc/dec drivers, the readers, the writers
// and the small embedded state structs) this emits, from the CURRENT source
// (go/ast + go/types, tag codec.notmono):
//
//	declared : the fields the struct declares (embedded structs that are not
//	           targets themselves are flattened; zero-size embedded helpers and
//	           blank fields are skipped)
//	assigned : the fields assigned on its reset path: directly (x.f = …, x.f++),
//	           by a whole-struct reset (*x = T{}), by a reset* call on the field
//	           (x.f.resetIO(…)), through a promoted reset method of an embedded
//	           target struct, or transitively by a method of the same struct
//	           that the reset path calls.
//
// Properties/C12.v (C12_fields) requires every declared field to be assigned or
// to be in the explicit behaviour-neutral list.
package main

import (
	"bytes"
	"fmt"
	"go/ast"
	"go/token"
	"go/types"
	"sort"
	"strings"
)

func init() { extraGenerators = append(extraGenerators, genReset) }

type resetTarget struct {
	name    string
	methods []string
}

var resetTargets = []resetTarget{
	{"encoder", []string{"reset", "Reset", "ResetBytes", "resetBytes"}},
	{"decoder", []string{"reset", "Reset", "ResetBytes", "resetBytes", "ResetString"}},
	{"jsonEncDriver", []string{"reset", "resetOutBytes", "resetOutIO"}},
	{"cborEncDriver", []string{"reset", "resetOutBytes", "resetOutIO"}},
	{"msgpackEncDriver", []string{"reset", "resetOutBytes", "resetOutIO"}},
	{"bincEncDriver", []string{"reset", "resetOutBytes", "resetOutIO"}},
	{"simpleEncDriver", []string{"reset", "resetOutBytes", "resetOutIO"}},
	{"jsonDecDriver", []string{"reset", "resetInBytes", "resetInIO"}},
	{"cborDecDriver", []string{"reset", "resetInBytes", "resetInIO"}},
	{"msgpackDecDriver", []string{"reset", "resetInBytes", "resetInIO"}},
	{"bincDecDriver", []string{"reset", "resetInBytes", "resetInIO"}},
	{"simpleDecDriver", []string{"reset", "resetInBytes", "resetInIO"}},
	{"ioDecReader", []string{"resetIO"}},
	{"bytesDecReader", []string{"resetBytes"}},
	{"bufioEncWriter", []string{"resetIO"}},
	{"bytesEncAppender", []string{"resetBytes"}},
	{"bincEncState", []string{"reset"}},
	{"bincDecState", []string{"reset"}},
	{"bdAndBdread", []string{"reset"}},
	{"jsonHandleOpts", []string{"reset"}},
}

type resetGen struct {
	p       *pkgInfo
	targets map[string]bool
	decls   map[*types.Func]*ast.FuncDecl
}

func resetStructOf(t types.Type) (*types.Struct, string) {
	for {
		if pt, ok := t.(*types.Pointer); ok {
			t = pt.Elem()
			continue
		}
		break
	}
	name := ""
	if n, ok := t.(*types.Named); ok {
		name = n.Obj().Name()
	}
	st, _ := t.Underlying().(*types.Struct)
	return st, name
}

// hasState: does a struct (transitively) declare any non-blank field?
func (g *resetGen) hasState(st *types.Struct, depth int) bool {
	if st == nil || depth > 6 {
		return st != nil
	}
	for i := 0; i < st.NumFields(); i++ {
		f := st.Field(i)
		if f.Name() == "_" {
			continue
		}
		if f.Embedded() {
			if est, _ := resetStructOf(f.Type()); est != nil {
				if g.hasState(est, depth+1) {
					return true
				}
				continue
			}
		}
		return true
	}
	return false
}

func (g *resetGen) declared(st *types.Struct) (out []string) {
	for i := 0; i < st.NumFields(); i++ {
		f := st.Field(i)
		if f.Name() == "_" {
			continue
		}
		if f.Embedded() {
			est, ename := resetStructOf(f.Type())
			if est != nil {
				if !g.hasState(est, 0) {
					continue
				}
				if !g.targets[ename] {
					out = append(out, g.declared(est)...)
					continue
				}
			}
		}
		out = append(out, f.Name())
	}
	return
}

// fieldOfPath maps a selection path from the receiver struct to the name of the declared (flattened) field.
func (g *resetGen) fieldOfPath(st *types.Struct, path []int) string {
	for k, idx := range path {
		if st == nil || idx >= st.NumFields() {
			return ""
		}
		f := st.Field(idx)
		if k == len(path)-1 || !f.Embedded() {
			return f.Name()
		}
		est, ename := resetStructOf(f.Type())
		if est == nil || g.targets[ename] {
			return f.Name()
		}
		st = est
	}
	return ""
}

// innermost returns the selector  recv.f  at the root of e (e.g. of z.buf[:0] or e.h.Indent).
func resetInnermost(e ast.Expr, recv string) *ast.SelectorExpr {
	for {
		switch x := e.(type) {
		case *ast.SelectorExpr:
			if id, ok := x.X.(*ast.Ident); ok && id.Name == recv {
				return x
			}
			e = x.X
		case *ast.IndexExpr:
			e = x.X
		case *ast.SliceExpr:
			e = x.X
		case *ast.ParenExpr:
			e = x.X
		case *ast.StarExpr:
			e = x.X
		default:
			return nil
		}
	}
}

type resetAcc struct {
	fields map[string]bool
	all    bool
	seen   map[*types.Func]bool
}

// analyse a method body; st is the struct the recorded field names are relative to.
func (g *resetGen) analyse(fn *types.Func, st *types.Struct, acc *resetAcc) error {
	if acc.seen[fn] {
		return nil
	}
	acc.seen[fn] = true
	fd := g.decls[fn]
	if fd == nil || fd.Body == nil {
		return fmt.Errorf("no body for %s", fn.FullName())
	}
	if fd.Recv == nil || len(fd.Recv.List) == 0 || len(fd.Recv.List[0].Names) == 0 {
		return nil // receiver unnamed: nothing can be assigned through it
	}
	recv := fd.Recv.List[0].Names[0].Name
	// the struct of this method's receiver (may be an embedded, flattened struct of st)
	rst, _ := resetStructOf(g.p.info.Defs[fd.Recv.List[0].Names[0]].Type())
	record := func(sel *ast.SelectorExpr) {
		s := g.p.info.Selections[sel]
		if s == nil {
			return
		}
		if name := g.fieldOfPath(rst, s.Index()); name != "" {
			acc.fields[name] = true
		}
	}
	var err error
	ast.Inspect(fd.Body, func(n ast.Node) bool {
		switch s := n.(type) {
		case *ast.AssignStmt:
			for _, l := range s.Lhs {
				if se, ok := l.(*ast.StarExpr); ok {
					if id, ok := se.X.(*ast.Ident); ok && id.Name == recv {
						acc.all = true
						continue
					}
				}
				if sel := resetInnermost(l, recv); sel != nil {
					record(sel)
				}
			}
		case *ast.IncDecStmt:
			if sel := resetInnermost(s.X, recv); sel != nil {
				record(sel)
			}
		case *ast.CallExpr:
			fsel, ok := s.Fun.(*ast.SelectorExpr)
			if !ok {
				return true
			}
			if id, ok := fsel.X.(*ast.Ident); ok && id.Name == recv {
				// recv.m(...): a method of the same struct, possibly promoted
				sl := g.p.info.Selections[fsel]
				if sl == nil || sl.Kind() != types.MethodVal {
					return true
				}
				mfn, _ := sl.Obj().(*types.Func)
				if mfn == nil {
					return true
				}
				path := sl.Index()
				if len(path) > 1 {
					// promoted through an embedded field
					f := rst.Field(path[0])
					est, ename := resetStructOf(f.Type())
					if est != nil && g.targets[ename] {
						if strings.HasPrefix(fsel.Sel.Name, "reset") {
							acc.fields[f.Name()] = true
						}
						return true
					}
				}
				if mfn.Origin() != nil {
					mfn = mfn.Origin()
				}
				if g.decls[mfn] != nil {
					if e := g.analyse(mfn, st, acc); e != nil && err == nil {
						err = e
					}
				}
				return true
			}
			// recv.f.resetXxx(...): reset helper on a field
			if strings.HasPrefix(fsel.Sel.Name, "reset") {
				if sel := resetInnermost(fsel.X, recv); sel != nil {
					record(sel)
				}
			}
		}
		return true
	})
	return err
}

func genReset(p *pkgInfo) (string, string, error) {
	const name = "Reset.v"
	g := &resetGen{p: p, targets: map[string]bool{}, decls: map[*types.Func]*ast.FuncDecl{}}
	for _, t := range resetTargets {
		g.targets[t.name] = true
	}
	for _, f := range p.files {
		for _, d := range f.Decls {
			if fd, ok := d.(*ast.FuncDecl); ok {
				if fn, ok := p.info.Defs[fd.Name].(*types.Func); ok {
					g.decls[fn] = fd
				}
			}
		}
	}
	var b bytes.Buffer
	b.WriteString("(* GENERATED by harness/cmd/srcgen/reset.go from /repo/codec (tag codec.notmono). DO NOT EDIT. *)\n")
	b.WriteString("(* Per state struct: the fields it declares and the fields its reset path assigns. *)\n")
	b.WriteString("From Coq Require Import String List.\nImport ListNotations.\nOpen Scope string_scope.\n\n")
	b.WriteString("Record rstruct := mkR { rname : string; rmethods : list string; rdeclared : list string; rassigned : list string }.\n\n")
	b.WriteString("Definition structs : list rstruct := [\n")
	for ti, t := range resetTargets {
		obj := p.pkg.Scope().Lookup(t.name)
		if obj == nil {
			return name, "", fmt.Errorf("state struct %s not found", t.name)
		}
		st, _ := resetStructOf(obj.Type())
		if st == nil {
			return name, "", fmt.Errorf("%s is not a struct", t.name)
		}
		decl := g.declared(st)
		acc := &resetAcc{fields: map[string]bool{}, seen: map[*types.Func]bool{}}
		var found []string
		for _, m := range t.methods {
			o, path, _ := types.LookupFieldOrMethod(obj.Type(), true, p.pkg, m)
			fn, _ := o.(*types.Func)
			if fn == nil {
				return name, "", fmt.Errorf("%s.%s not found", t.name, m)
			}
			found = append(found, m)
			if len(path) > 1 {
				// the reset method itself is promoted from an embedded struct
				f := st.Field(path[0])
				est, ename := resetStructOf(f.Type())
				if est != nil && g.targets[ename] {
					acc.fields[f.Name()] = true
					continue
				}
				if est != nil && !g.hasState(est, 0) {
					continue // e.g. encDriverNoState.reset(): no state, nothing to assign
				}
			}
			if fn.Origin() != nil {
				fn = fn.Origin()
			}
			if err := g.analyse(fn, st, acc); err != nil {
				return name, "", fmt.Errorf("%s.%s: %v", t.name, m, err)
			}
		}
		var asg []string
		if acc.all {
			asg = append(asg, decl...)
		} else {
			for f := range acc.fields {
				asg = append(asg, f)
			}
		}
		sort.Strings(asg)
		q := func(xs []string) string {
			ys := make([]string, len(xs))
			for i, x := range xs {
				ys[i] = `"` + x + `"`
			}
			return "[" + strings.Join(ys, "; ") + "]"
		}
		sep := ";"
		if ti == len(resetTargets)-1 {
			sep = ""
		}
		fmt.Fprintf(&b, "  mkR \"%s\" %s\n      %s\n      %s%s\n", t.name, q(found), q(decl), q(asg), sep)
	}
	b.WriteString("].\n")
	_ = token.NoPos
	return name, b.String(), nil
}

// sharedstate.go — translator part for C06 (Gen/SharedState.v): package-level mutable state that
// every goroutine of the process can reach through the library, read from the CURRENT source
// (go/ast + go/types, tag codec.notmono).
//
//	shared_views   : every package-level variable initialised by a slice expression over another
//	                 package-level variable (var zeroByteSlice = oneByteArr[:0:0]): its length and
//	                 capacity as the constant bounds give them (-1 = not a constant).  Such a
//	                 variable is a view of memory shared by the whole process; the library hands
//	                 it out (as the empty, non-nil []byte of every decoder), so nothing of the
//	                 backing array may be addressable through it: capacity 0.
//	pooled_scratch : every package-level sync.Pool whose New returns a struct with a reset method
//	                 (poolForTypeInfoLoad -> typeInfoLoad, pool4SFIs -> uint8To32TrieNode): the
//	                 fields the struct declares, the fields its reset path assigns (x.f = …,
//	                 clear(x.f), transitively through methods of the same struct), and whether
//	                 every function that takes an object out of the pool calls reset on it
//	                 between Get and Put.  An object comes out of the pool as its last user
//	                 (any goroutine, any Handle, any TypeInfos) left it.
//
// A fact that does not hold is emitted as data (a shorter list, a positive capacity, false); it is
// C06/ProofsShared.v that stops checking, so only the obligations of C06 break.
package main

import (
	"bytes"
	"fmt"
	"go/ast"
	"go/constant"
	"go/token"
	"go/types"
	"sort"
	"strings"
)

func init() { extraGenerators = append(extraGenerators, genSharedState) }

func ssConstInt(p *pkgInfo, e ast.Expr) (int64, bool) {
	if e == nil {
		return 0, false
	}
	tv, ok := p.info.Types[e]
	if !ok || tv.Value == nil || tv.Value.Kind() != constant.Int {
		return 0, false
	}
	return constant.Int64Val(tv.Value)
}

func ssPkgVar(p *pkgInfo, e ast.Expr) *types.Var {
	for {
		switch x := e.(type) {
		case *ast.ParenExpr:
			e = x.X
			continue
		case *ast.Ident:
			v, _ := p.info.Uses[x].(*types.Var)
			if v != nil && v.Parent() == p.pkg.Scope() {
				return v
			}
		}
		return nil
	}
}

type ssView struct {
	name, of string
	ln, cp   int64
}

func ssViews(p *pkgInfo) (out []ssView) {
	for _, f := range p.files {
		for _, d := range f.Decls {
			gd, ok := d.(*ast.GenDecl)
			if !ok || gd.Tok != token.VAR {
				continue
			}
			for _, sp := range gd.Specs {
				vs, ok := sp.(*ast.ValueSpec)
				if !ok || len(vs.Values) != len(vs.Names) {
					continue
				}
				for i, val := range vs.Values {
					se, ok := val.(*ast.SliceExpr)
					if !ok {
						continue
					}
					base := ssPkgVar(p, se.X)
					if base == nil {
						continue
					}
					// the operand's own extent, when it is an array (or pointer to one)
					ext := int64(-1)
					bt := base.Type().Underlying()
					if pt, ok := bt.(*types.Pointer); ok {
						bt = pt.Elem().Underlying()
					}
					if at, ok := bt.(*types.Array); ok {
						ext = at.Len()
					}
					if _, isStr := bt.(*types.Basic); isStr {
						continue // a string is immutable
					}
					lo, hi, mx := int64(0), ext, ext
					if se.Low != nil {
						if v, ok := ssConstInt(p, se.Low); ok {
							lo = v
						} else {
							lo = -1
						}
					}
					if se.High != nil {
						if v, ok := ssConstInt(p, se.High); ok {
							hi = v
						} else {
							hi = -1
						}
					}
					if se.Slice3 && se.Max != nil {
						if v, ok := ssConstInt(p, se.Max); ok {
							mx = v
						} else {
							mx = -1
						}
					}
					v := ssView{name: vs.Names[i].Name, of: base.Name(), ln: -1, cp: -1}
					if lo >= 0 && hi >= 0 {
						v.ln = hi - lo
					}
					if lo >= 0 && mx >= 0 {
						v.cp = mx - lo
					}
					out = append(out, v)
				}
			}
		}
	}
	sort.Slice(out, func(i, j int) bool { return out[i].name < out[j].name })
	return
}

type ssScratch struct {
	pool, typ     string
	declared      []string
	reset         []string
	getSites      int
	resetBeforePt bool
}

// ssClears: fields of the receiver passed to the builtin clear() in a method body
func ssClears(g *resetGen, fd *ast.FuncDecl, rst *types.Struct, acc map[string]bool) {
	if fd == nil || fd.Body == nil || fd.Recv == nil || len(fd.Recv.List) == 0 || len(fd.Recv.List[0].Names) == 0 {
		return
	}
	recv := fd.Recv.List[0].Names[0].Name
	ast.Inspect(fd.Body, func(n ast.Node) bool {
		c, ok := n.(*ast.CallExpr)
		if !ok || len(c.Args) != 1 {
			return true
		}
		id, ok := c.Fun.(*ast.Ident)
		if !ok || id.Name != "clear" {
			return true
		}
		if _, isBuiltin := g.p.info.Uses[id].(*types.Builtin); !isBuiltin {
			return true
		}
		if sel := resetInnermost(c.Args[0], recv); sel != nil {
			if s := g.p.info.Selections[sel]; s != nil {
				if name := g.fieldOfPath(rst, s.Index()); name != "" {
					acc[name] = true
				}
			}
		}
		return true
	})
}

func ssPools(p *pkgInfo) (out []ssScratch, err error) {
	g := &resetGen{p: p, targets: map[string]bool{}, decls: map[*types.Func]*ast.FuncDecl{}}
	var funcs []*ast.FuncDecl
	for _, f := range p.files {
		for _, d := range f.Decls {
			if fd, ok := d.(*ast.FuncDecl); ok {
				funcs = append(funcs, fd)
				if fn, ok := p.info.Defs[fd.Name].(*types.Func); ok {
					g.decls[fn] = fd
				}
			}
		}
	}
	for _, f := range p.files {
		for _, d := range f.Decls {
			gd, ok := d.(*ast.GenDecl)
			if !ok || gd.Tok != token.VAR {
				continue
			}
			for _, sp := range gd.Specs {
				vs, ok := sp.(*ast.ValueSpec)
				if !ok {
					continue
				}
				for i, nm := range vs.Names {
					obj, _ := p.info.Defs[nm].(*types.Var)
					if obj == nil || obj.Type().String() != "sync.Pool" {
						continue
					}
					s := ssScratch{pool: nm.Name, typ: "?"}
					// the object New returns
					var ret ast.Expr
					if i < len(vs.Values) {
						if cl, ok := vs.Values[i].(*ast.CompositeLit); ok {
							for _, el := range cl.Elts {
								kv, ok := el.(*ast.KeyValueExpr)
								if !ok {
									continue
								}
								if k, ok := kv.Key.(*ast.Ident); !ok || k.Name != "New" {
									continue
								}
								if fl, ok := kv.Value.(*ast.FuncLit); ok && len(fl.Body.List) == 1 {
									if rs, ok := fl.Body.List[0].(*ast.ReturnStmt); ok && len(rs.Results) == 1 {
										ret = rs.Results[0]
									}
								}
							}
						}
					}
					if ret == nil {
						out = append(out, s) // unreadable: no field is known to be reset (C06's obligation fails, nobody else's)
						continue
					}
					rt := p.info.Types[ret].Type
					st, tname := resetStructOf(rt)
					if st == nil {
						out = append(out, s)
						continue
					}
					s.typ = tname
					s.declared = g.declared(st)
					acc := &resetAcc{fields: map[string]bool{}, seen: map[*types.Func]bool{}}
					if o, _, _ := types.LookupFieldOrMethod(rt, true, p.pkg, "reset"); o != nil {
						if fn, _ := o.(*types.Func); fn != nil {
							if fn.Origin() != nil {
								fn = fn.Origin()
							}
							if e := g.analyse(fn, st, acc); e != nil {
								acc.fields = map[string]bool{}
							}
							for m := range acc.seen {
								ssClears(g, g.decls[m], st, acc.fields)
							}
						}
					}
					if acc.all {
						s.reset = append(s.reset, s.declared...)
					} else {
						for f := range acc.fields {
							s.reset = append(s.reset, f)
						}
					}
					sort.Strings(s.reset)
					// every function that takes an object out of this pool resets it between Get and Put
					s.resetBeforePt = true
					for _, fd := range funcs {
						if fd.Body == nil {
							continue
						}
						var gets, puts, resets []token.Pos
						ast.Inspect(fd.Body, func(n ast.Node) bool {
							c, ok := n.(*ast.CallExpr)
							if !ok {
								return true
							}
							se, ok := c.Fun.(*ast.SelectorExpr)
							if !ok {
								return true
							}
							if id, ok := se.X.(*ast.Ident); ok && p.info.Uses[id] == obj {
								switch se.Sel.Name {
								case "Get":
									gets = append(gets, c.Pos())
								case "Put":
									puts = append(puts, c.Pos())
								}
								return true
							}
							if se.Sel.Name == "reset" {
								if tv, ok := p.info.Types[se.X]; ok {
									if _, n := resetStructOf(tv.Type); n == tname {
										resets = append(resets, c.Pos())
									}
								}
							}
							return true
						})
						for _, gp := range gets {
							s.getSites++
							end := token.Pos(1 << 40)
							for _, pp := range puts {
								if pp > gp && pp < end {
									end = pp
								}
							}
							ok := false
							for _, rp := range resets {
								if rp > gp && rp < end {
									ok = true
								}
							}
							if !ok {
								s.resetBeforePt = false
							}
						}
					}
					out = append(out, s)
				}
			}
		}
	}
	sort.Slice(out, func(i, j int) bool { return out[i].pool < out[j].pool })
	return
}

func genSharedState(p *pkgInfo) (string, string, error) {
	const name = "SharedState.v"
	pools, err := ssPools(p)
	if err != nil {
		return name, "", err
	}
	views := ssViews(p)
	q := func(xs []string) string {
		ys := make([]string, len(xs))
		for i, x := range xs {
			ys[i] = `"` + x + `"`
		}
		return "[" + strings.Join(ys, "; ") + "]"
	}
	z := func(v int64) string {
		if v < 0 {
			return fmt.Sprintf("(%d)", v)
		}
		return fmt.Sprint(v)
	}
	var b bytes.Buffer
	b.WriteString("(* GENERATED by harness/cmd/srcgen/sharedstate.go from /repo/codec (tag codec.notmono). DO NOT EDIT. *)\n")
	b.WriteString("(* Package-level mutable state every goroutine can reach: views of package-level arrays, pooled scratch objects. *)\n")
	b.WriteString("From Coq Require Import String List ZArith.\nImport ListNotations.\nOpen Scope string_scope.\n\n")
	b.WriteString("(* var sv_name = sv_of[lo:hi:max] at package level: length and capacity from the constant bounds (-1: not constant) *)\n")
	b.WriteString("Record sview := mkSV { sv_name : string; sv_of : string; sv_len : Z; sv_cap : Z }.\n")
	b.WriteString("Definition shared_views : list sview := [")
	for i, v := range views {
		if i > 0 {
			b.WriteString(";")
		}
		fmt.Fprintf(&b, "\n  mkSV \"%s\" \"%s\" %s %s", v.name, v.of, z(v.ln), z(v.cp))
	}
	b.WriteString("\n]%Z.\n\n")
	b.WriteString("(* var ps_pool = sync.Pool{New: ... returns a ps_type}: declared fields, fields assigned or cleared by the reset method of ps_type, number of\n   Get sites, and whether each of them calls reset on the object before it is Put back *)\n")
	b.WriteString("Record pscratch := mkPS { ps_pool : string; ps_type : string; ps_declared : list string; ps_reset : list string;\n                          ps_get_sites : nat; ps_reset_between_get_put : bool }.\n")
	b.WriteString("Definition pooled_scratch : list pscratch := [")
	for i, s := range pools {
		if i > 0 {
			b.WriteString(";")
		}
		fmt.Fprintf(&b, "\n  mkPS \"%s\" \"%s\"\n       %s\n       %s\n       %d %v", s.pool, s.typ, q(s.declared), q(s.reset), s.getSites, s.resetBeforePt)
	}
	b.WriteString("\n].\n")
	return name, b.String(), nil
}

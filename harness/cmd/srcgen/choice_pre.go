// choice_pre.go: Gen/ChoicePre.v — what encoder.encodeValue and decoder.decodeValue / decodeValueNoCheckNil do with a
// value BEFORE the encode / decode function is looked up (`if fn == nil { fn = e.fn(rv.Type()) }`): the kind switch at
// label RV of encodeValue (nil pointers / interfaces / maps / slices / chans and invalid / func values are written
// there and then; pointers and interfaces are dereferenced) and the TryNil test + pointer loop of the decoder.
//
// A value that leaves before the lookup is coded WITHOUT the custom mechanism of its type (Gen/Choice.v), so the only
// thing that may leave early is what the decoder also handles before its lookup: nil.
//
// Accepted subset (anything else is a translation error, which breaks the obligations importing Gen.ChoicePre):
//
//	encodeValue: declarations; `RV: switch rv.Kind() { ... }`; directly followed by `if fn == nil { fn = e.fn(rv.Type()) }`.
//	a case of the switch is one of
//	  deref : `if rvIsNil(rv) { e.e.EncodeNil(); goto END }` then statements without any driver call (e.e.*), ending in `goto RV`
//	  nil   : `if rvIsNil(rv) { <write>; goto END }` and nothing else, <write> an if / else-if / else tree over
//	          `e.h.NilCollectionToZeroLength`, its negation and `uint8TypId == rt2id(rv.Type().Elem())` whose leaves are single
//	          calls e.e.EncodeNil / WriteMapEmpty / WriteArrayEmpty / writeNilBytes
//	  always: `e.e.EncodeNil(); goto END`
//	decodeValue: `if d.d.TryNil() { decSetNonNilRV2Zero(rv) } else { d.decodeValueNoCheckNil(rv, fn) }`
//	decodeValueNoCheckNil: declarations; `PTR: if rv.Kind() == reflect.Ptr { ... goto PTR }` without driver calls (d.d.*);
//	  directly followed by `if fn == nil { fn = d.fn(rv.Type()) }`.
package main

import (
	"fmt"
	"go/ast"
	"go/token"
	"go/types"
	"strings"
)

func init() {
	extraGenerators = append(extraGenerators, func(p *pkgInfo) (string, string, error) {
		s, err := genChoicePre(p)
		return "ChoicePre.v", s, err
	})
}

var preKinds = []string{"Ptr", "Interface", "Map", "Slice", "Chan", "Invalid", "Func"}

var preWriters = map[string]string{"EncodeNil": "WNil", "WriteMapEmpty": "WMapEmpty", "WriteArrayEmpty": "WArrayEmpty", "writeNilBytes": "WNilBytes"}

type preTr struct{ p *pkgInfo }

func (t *preTr) pos(n ast.Node) string { return t.p.fset.Position(n.Pos()).String() }

func isGoto(s ast.Stmt, label string) bool {
	b, ok := s.(*ast.BranchStmt)
	return ok && b.Tok == token.GOTO && b.Label != nil && b.Label.Name == label
}

// driverCall: e.e.<name>() as an expression statement; returns name
func driverCall(s ast.Stmt, recv string) (string, bool) {
	es, ok := s.(*ast.ExprStmt)
	if !ok {
		return "", false
	}
	call, ok := es.X.(*ast.CallExpr)
	if !ok || len(call.Args) != 0 {
		return "", false
	}
	se, ok := call.Fun.(*ast.SelectorExpr)
	if !ok || types.ExprString(se.X) != recv {
		return "", false
	}
	return se.Sel.Name, true
}

// usesDriver: does the node contain a selector on e.e / d.d (any use of the format driver)?
func usesDriver(n ast.Node, recv string) bool {
	found := false
	ast.Inspect(n, func(m ast.Node) bool {
		if se, ok := m.(*ast.SelectorExpr); ok && types.ExprString(se.X) == recv {
			found = true
		}
		return true
	})
	return found
}

func hasBranchOrReturn(n ast.Node) bool {
	found := false
	ast.Inspect(n, func(m ast.Node) bool {
		switch m.(type) {
		case *ast.BranchStmt, *ast.ReturnStmt:
			found = true
		}
		return true
	})
	return found
}

// writeTree: the <write> part of a nil exit, as a Gallina expression of type pre_write
func (t *preTr) writeTree(stmts []ast.Stmt) (string, error) {
	if len(stmts) != 1 {
		return "", fmt.Errorf("encodeValue: a nil exit must hold exactly one write (or one if tree) before `goto END`")
	}
	if name, ok := driverCall(stmts[0], "e.e"); ok {
		w, ok := preWriters[name]
		if !ok {
			return "", fmt.Errorf("encodeValue: unsupported driver call e.e.%s in a nil exit at %s", name, t.pos(stmts[0]))
		}
		return w, nil
	}
	is, ok := stmts[0].(*ast.IfStmt)
	if !ok || is.Init != nil || is.Else == nil {
		return "", fmt.Errorf("encodeValue: unsupported statement in a nil exit at %s", t.pos(stmts[0]))
	}
	var cond string
	switch types.ExprString(is.Cond) {
	case "e.h.NilCollectionToZeroLength":
		cond = "nilToZeroLen"
	case "!e.h.NilCollectionToZeroLength":
		cond = "negb nilToZeroLen"
	case "uint8TypId == rt2id(rv.Type().Elem())", "rt2id(rv.Type().Elem()) == uint8TypId":
		cond = "elemU8"
	default:
		return "", fmt.Errorf("encodeValue: unsupported condition `%s` in a nil exit at %s", types.ExprString(is.Cond), t.pos(is))
	}
	a, err := t.writeTree(is.Body.List)
	if err != nil {
		return "", err
	}
	var b string
	switch e := is.Else.(type) {
	case *ast.BlockStmt:
		b, err = t.writeTree(e.List)
	case *ast.IfStmt:
		b, err = t.writeTree([]ast.Stmt{e})
	default:
		err = fmt.Errorf("encodeValue: unsupported else at %s", t.pos(is))
	}
	if err != nil {
		return "", err
	}
	return fmt.Sprintf("(if %s then %s else %s)", cond, a, b), nil
}

// nilExit: `if rvIsNil(rv) { <write>; goto END }` -> the Gallina pre_write expression
func (t *preTr) nilExit(s ast.Stmt) (string, error) {
	is, ok := s.(*ast.IfStmt)
	if !ok || is.Init != nil || is.Else != nil || types.ExprString(is.Cond) != "rvIsNil(rv)" {
		return "", fmt.Errorf("encodeValue: a statement before the function lookup that is not `if rvIsNil(rv) { ... }` at %s: only nil may leave before the lookup", t.pos(s))
	}
	n := len(is.Body.List)
	if n < 2 || !isGoto(is.Body.List[n-1], "END") {
		return "", fmt.Errorf("encodeValue: nil exit without `goto END` at %s", t.pos(is))
	}
	return t.writeTree(is.Body.List[:n-1])
}

func (t *preTr) encCase(cc *ast.CaseClause) (string, error) {
	body := cc.Body
	if len(body) == 0 {
		return "PreLookup", nil
	}
	// always: EncodeNil; goto END
	if len(body) == 2 && isGoto(body[1], "END") {
		if name, ok := driverCall(body[0], "e.e"); ok {
			w, ok := preWriters[name]
			if !ok {
				return "", fmt.Errorf("encodeValue: unsupported unconditional write e.e.%s at %s", name, t.pos(body[0]))
			}
			return "PreExit " + w, nil
		}
	}
	w, err := t.nilExit(body[0])
	if err != nil {
		return "", err
	}
	if len(body) == 1 {
		return fmt.Sprintf("if isNil then PreExit %s else PreLookup", w), nil
	}
	// deref: the rest must not write, not leave, and end in goto RV
	last := body[len(body)-1]
	if !isGoto(last, "RV") {
		return "", fmt.Errorf("encodeValue: statements after the nil exit that do not end in `goto RV` at %s", t.pos(body[1]))
	}
	for _, s := range body[1 : len(body)-1] {
		if usesDriver(s, "e.e") || hasBranchOrReturn(s) {
			return "", fmt.Errorf("encodeValue: a driver call or a jump in the dereference step at %s", t.pos(s))
		}
	}
	return fmt.Sprintf("if isNil then PreExit %s else PreDeref", w), nil
}

func isFnLookup(s ast.Stmt, recv string) bool {
	is, ok := s.(*ast.IfStmt)
	if !ok || is.Init != nil || is.Else != nil || types.ExprString(is.Cond) != "fn == nil" || len(is.Body.List) != 1 {
		return false
	}
	as, ok := is.Body.List[0].(*ast.AssignStmt)
	return ok && len(as.Lhs) == 1 && len(as.Rhs) == 1 && types.ExprString(as.Lhs[0]) == "fn" && types.ExprString(as.Rhs[0]) == recv+".fn(rv.Type())"
}

func genChoicePre(p *pkgInfo) (string, error) {
	t := &preTr{p}
	ev := findFunc(p, "encoder", "encodeValue")
	dv := findFunc(p, "decoder", "decodeValue")
	dn := findFunc(p, "decoder", "decodeValueNoCheckNil")
	if ev == nil || dv == nil || dn == nil {
		return "", fmt.Errorf("encodeValue / decodeValue / decodeValueNoCheckNil not found")
	}
	// ---- encodeValue ----
	var sw *ast.SwitchStmt
	idx := -1
	for i, s := range ev.Body.List {
		if ls, ok := s.(*ast.LabeledStmt); ok && ls.Label.Name == "RV" {
			sw, _ = ls.Stmt.(*ast.SwitchStmt)
			idx = i
			break
		}
		if _, ok := s.(*ast.DeclStmt); !ok {
			return "", fmt.Errorf("encodeValue: a statement that is not a declaration before label RV at %s", t.pos(s))
		}
	}
	if sw == nil || sw.Init != nil || sw.Tag == nil || types.ExprString(sw.Tag) != "rv.Kind()" {
		return "", fmt.Errorf("encodeValue: `RV: switch rv.Kind()` not found")
	}
	if idx+1 >= len(ev.Body.List) || !isFnLookup(ev.Body.List[idx+1], "e") {
		return "", fmt.Errorf("encodeValue: the kind switch is not directly followed by `if fn == nil { fn = e.fn(rv.Type()) }`")
	}
	encOf := map[string]string{}
	for _, s := range sw.Body.List {
		cc, ok := s.(*ast.CaseClause)
		if !ok || cc.List == nil {
			return "", fmt.Errorf("encodeValue: default clause / unsupported clause in the kind switch at %s", t.pos(s))
		}
		g, err := t.encCase(cc)
		if err != nil {
			return "", err
		}
		for _, e := range cc.List {
			se, ok := e.(*ast.SelectorExpr)
			if !ok || types.ExprString(se.X) != "reflect" {
				return "", fmt.Errorf("encodeValue: unsupported case expression at %s", t.pos(e))
			}
			known := false
			for _, k := range preKinds {
				known = known || k == se.Sel.Name
			}
			if !known {
				return "", fmt.Errorf("encodeValue: kind reflect.%s is treated before the function lookup (only %s may be)", se.Sel.Name, strings.Join(preKinds, ", "))
			}
			if _, dup := encOf[se.Sel.Name]; dup {
				return "", fmt.Errorf("encodeValue: kind reflect.%s listed twice", se.Sel.Name)
			}
			encOf[se.Sel.Name] = g
		}
	}
	// ---- decodeValue ----
	okDV := false
	if len(dv.Body.List) == 1 {
		if is, ok := dv.Body.List[0].(*ast.IfStmt); ok && is.Init == nil && types.ExprString(is.Cond) == "d.d.TryNil()" && len(is.Body.List) == 1 {
			if el, ok := is.Else.(*ast.BlockStmt); ok && len(el.List) == 1 {
				a, ok1 := is.Body.List[0].(*ast.ExprStmt)
				b, ok2 := el.List[0].(*ast.ExprStmt)
				okDV = ok1 && ok2 && types.ExprString(a.X) == "decSetNonNilRV2Zero(rv)" && types.ExprString(b.X) == "d.decodeValueNoCheckNil(rv, fn)"
			}
		}
	}
	if !okDV {
		return "", fmt.Errorf("decodeValue: not `if d.d.TryNil() { decSetNonNilRV2Zero(rv) } else { d.decodeValueNoCheckNil(rv, fn) }`")
	}
	// ---- decodeValueNoCheckNil ----
	idx = -1
	for i, s := range dn.Body.List {
		if ls, ok := s.(*ast.LabeledStmt); ok && ls.Label.Name == "PTR" {
			is, ok := ls.Stmt.(*ast.IfStmt)
			if !ok || is.Init != nil || is.Else != nil || types.ExprString(is.Cond) != "rv.Kind() == reflect.Ptr" {
				return "", fmt.Errorf("decodeValueNoCheckNil: PTR is not `if rv.Kind() == reflect.Ptr { ... }`")
			}
			n := len(is.Body.List)
			if n == 0 || !isGoto(is.Body.List[n-1], "PTR") {
				return "", fmt.Errorf("decodeValueNoCheckNil: the pointer step does not end in `goto PTR`")
			}
			for _, b := range is.Body.List[:n-1] {
				if usesDriver(b, "d.d") || hasBranchOrReturn(b) {
					return "", fmt.Errorf("decodeValueNoCheckNil: a driver call or a jump in the pointer step at %s", t.pos(b))
				}
			}
			idx = i
			break
		}
		if _, ok := s.(*ast.DeclStmt); !ok {
			return "", fmt.Errorf("decodeValueNoCheckNil: a statement that is not a declaration before label PTR at %s", t.pos(s))
		}
	}
	if idx < 0 || idx+1 >= len(dn.Body.List) || !isFnLookup(dn.Body.List[idx+1], "d") {
		return "", fmt.Errorf("decodeValueNoCheckNil: the pointer loop is not directly followed by `if fn == nil { fn = d.fn(rv.Type()) }`")
	}
	var b strings.Builder
	b.WriteString("(* GENERATED by harness/cmd/srcgen (choice_pre.go) from encoder.encodeValue (encode.go), decoder.decodeValue and\n   decoder.decodeValueNoCheckNil (decode.go): what happens to a value BEFORE the encode / decode function is looked up.\n   DO NOT EDIT. *)\n")
	b.WriteString("From Coq Require Import Bool.\nOpen Scope bool_scope.\n\n")
	b.WriteString("Inductive kind := K" + strings.Join(preKinds, " | K") + " | KOther.\n")
	b.WriteString("Inductive pre_write := WNil | WMapEmpty | WArrayEmpty | WNilBytes.\n")
	b.WriteString("(* PreExit w: w is written and the value is done (no function is looked up, no hook runs); PreDeref: the pointer /\n   interface is followed and the switch runs again; PreLookup: `fn = e.fn(rv.Type())` and the chosen function runs *)\n")
	b.WriteString("Inductive pre_step := PreExit (w : pre_write) | PreDeref | PreLookup.\n\n")
	b.WriteString("(* encodeValue, the switch at RV: isNil = rvIsNil(rv), nilToZeroLen = e.h.NilCollectionToZeroLength,\n   elemU8 = (uint8TypId == rt2id(rv.Type().Elem())) *)\n")
	b.WriteString("Definition enc_pre (k : kind) (isNil nilToZeroLen elemU8 : bool) : pre_step :=\n  match k with\n")
	for _, k := range preKinds {
		g, ok := encOf[k]
		if !ok {
			g = "PreLookup"
		}
		fmt.Fprintf(&b, "  | K%s => %s\n", k, g)
	}
	b.WriteString("  | KOther => PreLookup\n  end.\n\n")
	b.WriteString("(* decodeValue: `if d.d.TryNil() { zero } else decodeValueNoCheckNil`: pointers are followed (allocating), then the lookup *)\n")
	b.WriteString("Definition dec_pre (streamNil : bool) (k : kind) : pre_step :=\n  if streamNil then PreExit WNil else match k with KPtr => PreDeref | _ => PreLookup end.\n")
	return b.String(), nil
}

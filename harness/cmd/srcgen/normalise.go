// normalise.go — normalisations that make the syntactic readers (cache.go, choice.go) insensitive to
// behaviour-preserving rewrites of the source (measured with /verif/mutations/harmless/*.diff).
//
//   - cacheResolveLocal: an identifier that a block defines exactly once with `name := <expr>` (single value),
//     before the statement that uses it, and never assigns again, stands for <expr>.  Lets the reader of the
//     copy-insert arithmetic see through `n := len(sp) + 1; sp2 := make(T, n)`.
//   - choiceNestedIf: a nested if inside a branch of the guard chain may have else / else-if arms (exact
//     translation to nested Gallina ifs), so `if a || b { S }` may be written `if a { S } else if b { S }`.
package main

import (
	"fmt"
	"go/ast"
	"go/token"
)

// cacheResolveLocal returns the defining expression of e when e is a block-local single-definition identifier
// (see above), else e itself.  Resolution is applied repeatedly (at most 4 times) for chains of such locals.
func cacheResolveLocal(blk *ast.BlockStmt, use ast.Stmt, e ast.Expr) ast.Expr {
	for depth := 0; depth < 4; depth++ {
		id, ok := e.(*ast.Ident)
		if !ok || blk == nil {
			return e
		}
		var def ast.Expr
		ndef, nother := 0, 0
		before := true
		for _, st := range blk.List {
			if st == use {
				before = false
			}
			ast.Inspect(st, func(n ast.Node) bool {
				switch s := n.(type) {
				case *ast.AssignStmt:
					for i, l := range s.Lhs {
						li, ok := l.(*ast.Ident)
						if !ok || li.Name != id.Name {
							continue
						}
						if s.Tok == token.DEFINE && before && st == ast.Stmt(s) && len(s.Lhs) == len(s.Rhs) {
							ndef++
							def = s.Rhs[i]
						} else {
							nother++
						}
					}
				case *ast.IncDecStmt:
					if li, ok := s.X.(*ast.Ident); ok && li.Name == id.Name {
						nother++
					}
				case *ast.UnaryExpr:
					if s.Op == token.AND {
						if li, ok := s.X.(*ast.Ident); ok && li.Name == id.Name {
							nother++ // address taken: may be written through the pointer
						}
					}
				case *ast.RangeStmt:
					for _, kv := range []ast.Expr{s.Key, s.Value} {
						if li, ok := kv.(*ast.Ident); ok && li.Name == id.Name {
							nother++
						}
					}
				}
				return true
			})
		}
		if ndef != 1 || nother != 0 || def == nil {
			return e
		}
		if p, ok := def.(*ast.ParenExpr); ok {
			def = p.X
		}
		e = def
	}
	return e
}

// choiceNestedIf translates a nested `if c { fi.addrX = v } else if c2 { ... } else { ... }` inside a branch of the
// guard chain (any depth; bodies may only assign fi.addrX or nest further ifs) into the Gallina expression of the
// value addrX has afterwards, given its value `addr` before.  Exact (no shape assumption beyond the subset).
func (c *choiceTr) choiceNestedIf(s *ast.IfStmt, addr string) (string, error) {
	if s.Init != nil {
		return "", fmt.Errorf("unsupported nested if (with init) at %s", c.pos(s))
	}
	cd, err := c.cond(s.Cond)
	if err != nil {
		return "", err
	}
	thenV, err := c.choiceAddrBlock(s.Body, addr)
	if err != nil {
		return "", err
	}
	elseV := addr
	switch e := s.Else.(type) {
	case nil:
	case *ast.BlockStmt:
		if elseV, err = c.choiceAddrBlock(e, addr); err != nil {
			return "", err
		}
	case *ast.IfStmt:
		if elseV, err = c.choiceNestedIf(e, addr); err != nil {
			return "", err
		}
	default:
		return "", fmt.Errorf("unsupported else at %s", c.pos(s))
	}
	return "(if " + cd + " then " + thenV + " else " + elseV + ")", nil
}

func (c *choiceTr) choiceAddrBlock(b *ast.BlockStmt, addr string) (string, error) {
	cur := addr
	for _, st := range b.List {
		switch s := st.(type) {
		case *ast.AssignStmt:
			if len(s.Lhs) != 1 || len(s.Rhs) != 1 || s.Tok != token.ASSIGN {
				return "", fmt.Errorf("unsupported statement in nested if at %s", c.pos(st))
			}
			l, ok := s.Lhs[0].(*ast.SelectorExpr)
			base, _ := l.X.(*ast.Ident)
			if !ok || base == nil || base.Name != "fi" || l.Sel.Name != c.addr {
				return "", fmt.Errorf("unsupported statement in nested if at %s", c.pos(st))
			}
			v, err := c.cond(s.Rhs[0])
			if err != nil {
				return "", err
			}
			cur = v
		case *ast.IfStmt:
			v, err := c.choiceNestedIf(s, cur)
			if err != nil {
				return "", err
			}
			cur = v
		default:
			return "", fmt.Errorf("unsupported statement in nested if at %s", c.pos(st))
		}
	}
	return cur, nil
}

// choice.go: Gen/Choice.v — the guard chains of encFnLoad (encode.go) and
// decFnLoad (decode.go), i.e. the if / else-if sequence that picks the custom
// mechanism before the kind switch, translated from the CURRENT source into two
// Gallina functions from a flags record to (mechanism, addrE/addrD); plus
// extHandle.getExt's guard and the checkExt constant that encoder.fn /
// encoder.fnNoExt / decoder.fn / decoder.fnNoExt pass down.
//
// Accepted subset. Conditions: &&, ||, !, parentheses; `rtid == timeTypId |
// rawTypId | rawExtTypId`; `rk == reflect.Struct | reflect.Array`; the
// parameters timeBuiltin, binaryEncoding, json, checkExt; the package constant
// supportMarshalInterfaces; `ti.flagXxx` for the flags listed in choiceFlags;
// `xfFn := exth.getExt(rtid, checkExt); xfFn != nil`. Branch bodies: `fn.fe|fd =
// (*encoder[T]|*decoder[T]).<method>` with a known method, `fi.addrE|addrD =
// <true|false|condition>`, `fi.xfTag, fi.xfFn = ...`, one nested `if <cond> {
// fi.addrX = ... }`. The final else (fast paths and the kind switch) is MKind.
// Anything else is an error: the obligations importing Gen.Choice break.
package main

import (
	"bytes"
	"fmt"
	"go/ast"
	"go/constant"
	"go/token"
	"go/types"
	"strings"
)

func init() {
	extraGenerators = append(extraGenerators, func(p *pkgInfo) (string, string, error) {
		s, err := genChoice(p)
		return "Choice.v", s, err
	})
}

var choiceFlags = []string{
	"flagSelfer", "flagSelferPtr",
	"flagBinaryMarshaler", "flagBinaryMarshalerPtr", "flagBinaryUnmarshaler", "flagBinaryUnmarshalerPtr",
	"flagJsonMarshaler", "flagJsonMarshalerPtr", "flagJsonUnmarshaler", "flagJsonUnmarshalerPtr",
	"flagTextMarshaler", "flagTextMarshalerPtr", "flagTextUnmarshaler", "flagTextUnmarshalerPtr",
}

var choiceParams = []string{"isTime", "isRaw", "isRawExt", "extRegistered", "checkExt", "timeBuiltin", "binaryEncoding", "json", "rkStruct", "rkArray"}

var encMech = map[string]string{"kTime": "MTime", "raw": "MRaw", "rawExt": "MRawExt", "ext": "MExt", "selferMarshal": "MSelfer",
	"binaryMarshal": "MBinary", "jsonMarshal": "MJson", "textMarshal": "MText"}
var decMech = map[string]string{"kTime": "MTime", "raw": "MRaw", "rawExt": "MRawExt", "ext": "MExt", "selferUnmarshal": "MSelfer",
	"binaryUnmarshal": "MBinary", "jsonUnmarshal": "MJson", "textUnmarshal": "MText"}

type choiceTr struct {
	p       *pkgInfo
	fnField string // "fe" or "fd"
	addr    string // "addrE" or "addrD"
	mech    map[string]string
	hasExt  bool // the enclosing if has Init `xfFn := exth.getExt(rtid, checkExt)`
}

func (c *choiceTr) pos(n ast.Node) string { return c.p.fset.Position(n.Pos()).String() }

func isFlag(name string) bool {
	for _, f := range choiceFlags {
		if f == name {
			return true
		}
	}
	return false
}

func (c *choiceTr) cond(e ast.Expr) (string, error) {
	switch x := e.(type) {
	case *ast.ParenExpr:
		return c.cond(x.X)
	case *ast.UnaryExpr:
		if x.Op == token.NOT {
			s, err := c.cond(x.X)
			return "negb (" + s + ")", err
		}
	case *ast.BinaryExpr:
		switch x.Op {
		case token.LAND, token.LOR:
			a, err := c.cond(x.X)
			if err != nil {
				return "", err
			}
			b, err := c.cond(x.Y)
			if err != nil {
				return "", err
			}
			op := "&&"
			if x.Op == token.LOR {
				op = "||"
			}
			return "(" + a + " " + op + " " + b + ")", nil
		case token.EQL:
			if l, ok := x.X.(*ast.Ident); ok && l.Name == "rtid" {
				if r, ok := x.Y.(*ast.Ident); ok {
					switch r.Name {
					case "timeTypId":
						return "isTime f", nil
					case "rawTypId":
						return "isRaw f", nil
					case "rawExtTypId":
						return "isRawExt f", nil
					}
				}
			}
			if l, ok := x.X.(*ast.Ident); ok && l.Name == "rk" {
				if r, ok := x.Y.(*ast.SelectorExpr); ok {
					if pk, ok := r.X.(*ast.Ident); ok && pk.Name == "reflect" {
						switch r.Sel.Name {
						case "Struct":
							return "rkStruct f", nil
						case "Array":
							return "rkArray f", nil
						}
					}
				}
			}
		case token.NEQ:
			if l, ok := x.X.(*ast.Ident); ok && l.Name == "xfFn" && c.hasExt {
				if r, ok := x.Y.(*ast.Ident); ok && r.Name == "nil" {
					return "getExt f", nil
				}
			}
		}
	case *ast.Ident:
		switch x.Name {
		case "timeBuiltin", "binaryEncoding", "json", "checkExt":
			return x.Name + " f", nil
		case "true", "false":
			return x.Name, nil
		}
		if obj, ok := c.p.info.Uses[x].(*types.Const); ok && obj.Val().Kind() == constant.Bool {
			return fmt.Sprint(constant.BoolVal(obj.Val())), nil
		}
	case *ast.SelectorExpr:
		if r, ok := x.X.(*ast.Ident); ok && r.Name == "ti" && isFlag(x.Sel.Name) {
			return x.Sel.Name + " f", nil
		}
	}
	return "", fmt.Errorf("unsupported condition at %s", c.pos(e))
}

// body translates one branch: returns mechanism and addr expression.
func (c *choiceTr) body(b *ast.BlockStmt) (mech, addr string, err error) {
	addr = "false"
	for _, st := range b.List {
		switch s := st.(type) {
		case *ast.AssignStmt:
			if len(s.Lhs) == 2 { // fi.xfTag, fi.xfFn = xfFn.tag, xfFn.ext
				ok := true
				for _, l := range s.Lhs {
					se, isSel := l.(*ast.SelectorExpr)
					if !isSel || (se.Sel.Name != "xfTag" && se.Sel.Name != "xfFn") {
						ok = false
					}
				}
				if ok {
					continue
				}
				return "", "", fmt.Errorf("unsupported assignment at %s", c.pos(s))
			}
			if len(s.Lhs) != 1 || len(s.Rhs) != 1 || s.Tok != token.ASSIGN {
				return "", "", fmt.Errorf("unsupported assignment at %s", c.pos(s))
			}
			l, ok := s.Lhs[0].(*ast.SelectorExpr)
			if !ok {
				return "", "", fmt.Errorf("unsupported assignment at %s", c.pos(s))
			}
			base, _ := l.X.(*ast.Ident)
			switch {
			case base != nil && base.Name == "fn" && l.Sel.Name == c.fnField:
				// (*encoder[T]).method
				r, ok := s.Rhs[0].(*ast.SelectorExpr)
				if !ok {
					return "", "", fmt.Errorf("unsupported function value at %s", c.pos(s))
				}
				m, ok := c.mech[r.Sel.Name]
				if !ok {
					return "", "", fmt.Errorf("unknown mechanism method %s at %s", r.Sel.Name, c.pos(s))
				}
				if mech != "" {
					return "", "", fmt.Errorf("two mechanisms in one branch at %s", c.pos(s))
				}
				mech = m
			case base != nil && base.Name == "fi" && l.Sel.Name == c.addr:
				a, err := c.cond(s.Rhs[0])
				if err != nil {
					return "", "", err
				}
				addr = a
			default:
				return "", "", fmt.Errorf("unsupported assignment target at %s", c.pos(s))
			}
		case *ast.IfStmt:
			if s.Init == nil && s.Else != nil { // else / else-if arms: normalise.go
				a, err := c.choiceNestedIf(s, addr)
				if err != nil {
					return "", "", err
				}
				addr = a
				continue
			}
			if s.Init != nil || s.Else != nil {
				return "", "", fmt.Errorf("unsupported nested if at %s", c.pos(s))
			}
			cd, err := c.cond(s.Cond)
			if err != nil {
				return "", "", err
			}
			inner := addr
			for _, st2 := range s.Body.List {
				as, ok := st2.(*ast.AssignStmt)
				if !ok || len(as.Lhs) != 1 {
					return "", "", fmt.Errorf("unsupported statement in nested if at %s", c.pos(st2))
				}
				l, ok := as.Lhs[0].(*ast.SelectorExpr)
				if !ok || l.Sel.Name != c.addr {
					return "", "", fmt.Errorf("unsupported statement in nested if at %s", c.pos(st2))
				}
				inner, err = c.cond(as.Rhs[0])
				if err != nil {
					return "", "", err
				}
			}
			addr = "(if " + cd + " then " + inner + " else " + addr + ")"
		default:
			return "", "", fmt.Errorf("unsupported statement at %s", c.pos(st))
		}
	}
	if mech == "" {
		return "", "", fmt.Errorf("branch without a mechanism at %s", c.pos(b))
	}
	return
}

func findFunc(p *pkgInfo, recv, name string) *ast.FuncDecl {
	for _, f := range p.files {
		for _, d := range f.Decls {
			fd, ok := d.(*ast.FuncDecl)
			if !ok || fd.Name.Name != name || fd.Recv == nil || len(fd.Recv.List) == 0 {
				continue
			}
			var b bytes.Buffer
			ast.Fprint(&b, nil, nil, nil)
			t := fd.Recv.List[0].Type
			s := exprString(t)
			if strings.Contains(s, recv) {
				return fd
			}
		}
	}
	return nil
}

func exprString(e ast.Expr) string {
	switch x := e.(type) {
	case *ast.Ident:
		return x.Name
	case *ast.StarExpr:
		return "*" + exprString(x.X)
	case *ast.IndexExpr:
		return exprString(x.X) + "[" + exprString(x.Index) + "]"
	case *ast.SelectorExpr:
		return exprString(x.X) + "." + x.Sel.Name
	}
	return "?"
}

func (c *choiceTr) chain(fd *ast.FuncDecl) (string, error) {
	var first *ast.IfStmt
	for _, st := range fd.Body.List {
		if is, ok := st.(*ast.IfStmt); ok {
			first = is
			break
		}
	}
	if first == nil {
		return "", fmt.Errorf("%s: no if chain found", fd.Name.Name)
	}
	var sb strings.Builder
	n := 0
	cur := first
	for {
		c.hasExt = false
		if cur.Init != nil {
			as, ok := cur.Init.(*ast.AssignStmt)
			good := false
			if ok && len(as.Lhs) == 1 && len(as.Rhs) == 1 {
				if l, ok := as.Lhs[0].(*ast.Ident); ok && l.Name == "xfFn" {
					if call, ok := as.Rhs[0].(*ast.CallExpr); ok && len(call.Args) == 2 {
						if se, ok := call.Fun.(*ast.SelectorExpr); ok && se.Sel.Name == "getExt" {
							a0, _ := call.Args[0].(*ast.Ident)
							a1, _ := call.Args[1].(*ast.Ident)
							if a0 != nil && a0.Name == "rtid" && a1 != nil && a1.Name == "checkExt" {
								good = true
							}
						}
					}
				}
			}
			if !good {
				return "", fmt.Errorf("unsupported if-init at %s", c.pos(cur))
			}
			c.hasExt = true
		}
		cd, err := c.cond(cur.Cond)
		if err != nil {
			return "", err
		}
		m, a, err := c.body(cur.Body)
		if err != nil {
			return "", err
		}
		fmt.Fprintf(&sb, "  if %s then (%s, %s) else\n", cd, m, a)
		n++
		switch e := cur.Else.(type) {
		case *ast.IfStmt:
			cur = e
			continue
		case *ast.BlockStmt:
			sb.WriteString("  (MKind, false)")
		default:
			return "", fmt.Errorf("%s: chain without a final else at %s", fd.Name.Name, c.pos(cur))
		}
		break
	}
	if n < 3 {
		return "", fmt.Errorf("%s: suspiciously short chain (%d branches)", fd.Name.Name, n)
	}
	return sb.String(), nil
}

// lastBoolArg returns the literal boolean passed last in the single return call of method recv.name.
func lastBoolArg(p *pkgInfo, recv, name, callee string) (string, error) {
	fd := findFunc(p, recv, name)
	if fd == nil || len(fd.Body.List) != 1 {
		return "", fmt.Errorf("%s.%s: not found or not a single return", recv, name)
	}
	rs, ok := fd.Body.List[0].(*ast.ReturnStmt)
	if !ok || len(rs.Results) != 1 {
		return "", fmt.Errorf("%s.%s: not a single return", recv, name)
	}
	call, ok := rs.Results[0].(*ast.CallExpr)
	if !ok || len(call.Args) == 0 {
		return "", fmt.Errorf("%s.%s: not a call", recv, name)
	}
	if se, ok := call.Fun.(*ast.SelectorExpr); !ok || se.Sel.Name != callee {
		return "", fmt.Errorf("%s.%s: does not call %s", recv, name, callee)
	}
	id, ok := call.Args[len(call.Args)-1].(*ast.Ident)
	if !ok || (id.Name != "true" && id.Name != "false") {
		return "", fmt.Errorf("%s.%s: last argument is not a boolean literal", recv, name)
	}
	return id.Name, nil
}

// passesCheckExt verifies that fn's body passes its parameter checkExt on to callee.
func passesCheckExt(p *pkgInfo, recv, name, callee string) error {
	fd := findFunc(p, recv, name)
	if fd == nil {
		return fmt.Errorf("%s.%s not found", recv, name)
	}
	found := false
	ast.Inspect(fd.Body, func(n ast.Node) bool {
		call, ok := n.(*ast.CallExpr)
		if !ok {
			return true
		}
		se, ok := call.Fun.(*ast.SelectorExpr)
		if !ok || se.Sel.Name != callee {
			return true
		}
		for _, a := range call.Args {
			if id, ok := a.(*ast.Ident); ok && id.Name == "checkExt" {
				found = true
			}
		}
		return true
	})
	if !found {
		return fmt.Errorf("%s.%s does not pass checkExt to %s", recv, name, callee)
	}
	return nil
}

// getExtGuard checks the shape of extHandle.getExt: `if !check { return }` then a search loop.
func getExtGuard(p *pkgInfo) error {
	fd := findFunc(p, "extHandle", "getExt")
	if fd == nil || len(fd.Body.List) < 2 {
		return fmt.Errorf("extHandle.getExt not found")
	}
	is, ok := fd.Body.List[0].(*ast.IfStmt)
	if !ok || is.Else != nil || len(is.Body.List) != 1 {
		return fmt.Errorf("extHandle.getExt: unsupported shape")
	}
	u, ok := is.Cond.(*ast.UnaryExpr)
	if !ok || u.Op != token.NOT {
		return fmt.Errorf("extHandle.getExt: unsupported guard")
	}
	if id, ok := u.X.(*ast.Ident); !ok || id.Name != "check" {
		return fmt.Errorf("extHandle.getExt: unsupported guard")
	}
	if rs, ok := is.Body.List[0].(*ast.ReturnStmt); !ok || len(rs.Results) != 0 {
		return fmt.Errorf("extHandle.getExt: unsupported guard body")
	}
	if _, ok := fd.Body.List[1].(*ast.RangeStmt); !ok {
		return fmt.Errorf("extHandle.getExt: unsupported search")
	}
	return nil
}

// builtinTypes returns the base types listed in the init() that fills <varName> (encBuiltinRtids / decBuiltinRtids):
// `for _, v := range []interface{}{ ... } { <varName> = append(<varName>, ...) }`. A pointer entry stands for its
// element type (the decoder lists (*T)(nil), the encoder lists T and adds the pointer itself).
func builtinTypes(p *pkgInfo, varName string) ([]string, error) {
	for _, f := range p.files {
		for _, d := range f.Decls {
			fd, ok := d.(*ast.FuncDecl)
			if !ok || fd.Name.Name != "init" || fd.Recv != nil || fd.Body == nil {
				continue
			}
			for _, st := range fd.Body.List {
				rs, ok := st.(*ast.RangeStmt)
				if !ok {
					continue
				}
				cl, ok := rs.X.(*ast.CompositeLit)
				if !ok {
					continue
				}
				uses := false
				ast.Inspect(rs.Body, func(n ast.Node) bool {
					if as, ok := n.(*ast.AssignStmt); ok && len(as.Lhs) == 1 {
						if id, ok := as.Lhs[0].(*ast.Ident); ok && id.Name == varName {
							uses = true
						}
					}
					return true
				})
				if !uses {
					continue
				}
				var out []string
				for _, e := range cl.Elts {
					tv, ok := p.info.Types[e]
					if !ok || tv.Type == nil {
						return nil, fmt.Errorf("%s: untyped list element at %s", varName, p.fset.Position(e.Pos()))
					}
					t := tv.Type
					if pt, ok := t.(*types.Pointer); ok {
						t = pt.Elem()
					}
					out = append(out, types.TypeString(t, func(pk *types.Package) string {
						if pk.Name() == "codec" {
							return ""
						}
						return pk.Name()
					}))
				}
				if len(out) < 5 {
					return nil, fmt.Errorf("%s: suspiciously short builtin list", varName)
				}
				return out, nil
			}
		}
	}
	return nil, fmt.Errorf("the init() that fills %s was not found", varName)
}

// timeCaseGuarded reports whether, in method recv.name, the type-switch case for typ (time.Time / *time.Time)
// starts with `if <x>.h.timeBuiltin { ... } else { ... }` (the builtin shortcut honours TimeNotBuiltin).
func timeCaseGuarded(p *pkgInfo, recv, name, typ string) (bool, error) {
	fd := findFunc(p, recv, name)
	if fd == nil {
		return false, fmt.Errorf("%s.%s not found", recv, name)
	}
	found, guarded := false, false
	ast.Inspect(fd.Body, func(n ast.Node) bool {
		ts, ok := n.(*ast.TypeSwitchStmt)
		if !ok {
			return true
		}
		for _, st := range ts.Body.List {
			cc, ok := st.(*ast.CaseClause)
			if !ok || len(cc.List) != 1 || exprString(cc.List[0]) != typ {
				continue
			}
			found = true
			if len(cc.Body) == 1 {
				if is, ok := cc.Body[0].(*ast.IfStmt); ok && is.Init == nil && is.Else != nil {
					if se, ok := is.Cond.(*ast.SelectorExpr); ok && se.Sel.Name == "timeBuiltin" {
						guarded = true
					}
				}
			}
		}
		return true
	})
	if !found {
		return false, fmt.Errorf("%s.%s: no type-switch case for %s", recv, name, typ)
	}
	return guarded, nil
}

func coqStrings(xs []string) string {
	q := make([]string, len(xs))
	for i, x := range xs {
		q[i] = "\"" + x + "\""
	}
	return "[" + strings.Join(q, "; ") + "]"
}

func genChoice(p *pkgInfo) (string, error) {
	enc := findFunc(p, "helperEncDriver", "encFnLoad")
	dec := findFunc(p, "helperDecDriver", "decFnLoad")
	if enc == nil || dec == nil {
		return "", fmt.Errorf("encFnLoad/decFnLoad not found")
	}
	if err := getExtGuard(p); err != nil {
		return "", err
	}
	ec := &choiceTr{p: p, fnField: "fe", addr: "addrE", mech: encMech}
	es, err := ec.chain(enc)
	if err != nil {
		return "", err
	}
	dc := &choiceTr{p: p, fnField: "fd", addr: "addrD", mech: decMech}
	ds, err := dc.chain(dec)
	if err != nil {
		return "", err
	}
	type k struct{ recv, name, callee, coq string }
	consts := []k{
		{"encoder", "fn", "encFnViaBH", "enc_fn_checkExt"},
		{"encoder", "fnNoExt", "encFnViaBH", "enc_fnNoExt_checkExt"},
		{"decoder", "fn", "decFnViaBH", "dec_fn_checkExt"},
		{"decoder", "fnNoExt", "decFnViaBH", "dec_fnNoExt_checkExt"},
	}
	var cs strings.Builder
	for _, c := range consts {
		v, err := lastBoolArg(p, c.recv, c.name, c.callee)
		if err != nil {
			return "", err
		}
		fmt.Fprintf(&cs, "Definition %s : bool := %s.\n", c.coq, v)
	}
	for _, x := range [][3]string{{"helperEncDriver", "encFnViaBH", "encFnVia"}, {"helperEncDriver", "encFnVia", "encFnViaLoader"},
		{"helperEncDriver", "encFnViaLoader", "encFnLoad"}, {"helperDecDriver", "decFnViaBH", "decFnVia"},
		{"helperDecDriver", "decFnVia", "decFnViaLoader"}, {"helperDecDriver", "decFnViaLoader", "decFnLoad"}} {
		if err := passesCheckExt(p, x[0], x[1], x[2]); err != nil {
			return "", err
		}
	}
	encB, err := builtinTypes(p, "encBuiltinRtids")
	if err != nil {
		return "", err
	}
	decB, err := builtinTypes(p, "decBuiltinRtids")
	if err != nil {
		return "", err
	}
	var b strings.Builder
	b.WriteString("(* GENERATED by harness/cmd/srcgen (choice.go) from encFnLoad (encode.go), decFnLoad (decode.go),\n   extHandle.getExt (helper.go), encoder.fn/fnNoExt, decoder.fn/fnNoExt. DO NOT EDIT. *)\n")
	b.WriteString("From Coq Require Import Bool List String.\nImport ListNotations.\nOpen Scope bool_scope.\nLocal Open Scope string_scope.\n\n")
	b.WriteString("Record flags := mkflags {\n")
	all := append(append([]string{}, choiceParams...), choiceFlags...)
	for i, f := range all {
		sep := ";"
		if i == len(all)-1 {
			sep = ""
		}
		fmt.Fprintf(&b, "  %s : bool%s\n", f, sep)
	}
	b.WriteString("}.\n\nInductive mech := MTime | MRaw | MRawExt | MExt | MSelfer | MBinary | MJson | MText | MKind.\n\n")
	b.WriteString("(* extHandle.getExt: `if !check { return nil }`, then the search over the registered extensions *)\n")
	b.WriteString("Definition getExt (f : flags) : bool := if negb (checkExt f) then false else extRegistered f.\n\n")
	b.WriteString("Definition enc_choice (f : flags) : mech * bool :=\n" + es + ".\n\n")
	b.WriteString("Definition dec_choice (f : flags) : mech * bool :=\n" + ds + ".\n\n")
	b.WriteString("(* the checkExt argument passed by encoder.fn, encoder.fnNoExt, decoder.fn, decoder.fnNoExt *)\n")
	b.WriteString(cs.String())
	b.WriteString("\n(* the types coded by the builtin type-switch shortcut (typeInfo.flagEncBuiltin / flagDecBuiltin, si.encBuiltin /\n   si.decBuiltin): the lists in the init() of encode.base.go and decode.base.go; a pointer entry stands for its element *)\n")
	eg, err := timeCaseGuarded(p, "encoder", "encodeBuiltin", "time.Time")
	if err != nil {
		return "", err
	}
	dg, err := timeCaseGuarded(p, "decoder", "decode", "*time.Time")
	if err != nil {
		return "", err
	}
	b.WriteString("(* does the time.Time case of encoder.encodeBuiltin / the *time.Time case of decoder.decode start with\n   `if h.timeBuiltin { native } else { the chosen function }` ? *)\n")
	fmt.Fprintf(&b, "Definition enc_builtin_time_guarded : bool := %v.\nDefinition dec_builtin_time_guarded : bool := %v.\n", eg, dg)
	b.WriteString("Definition enc_builtin_types : list string := " + coqStrings(encB) + ".\n")
	b.WriteString("Definition dec_builtin_types : list string := " + coqStrings(decB) + ".\n")
	return b.String(), nil
}

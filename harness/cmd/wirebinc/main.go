// wirebinc: correspondence and property oracles for the binc wire layer
// (codec/binc.go, binc.base.go, custom_time.go) against the Coq model
// coq/theories/Wire/Binc.v.
//
// Streams
//
//	enc   random item trees and SEQUENCES of them on one Encoder (AsSymbols on/off,
//	      StringToRaw) -> bytes (model: enc_seq), plus the round-trip oracle on one Decoder
//	dec   valid encodings (sequences on one Decoder), mutated encodings, raw random
//	      bytes -> Decode(&interface{}) : class, canonical tree, NumBytesRead (model: dec_naked)
//	skip  the same inputs with a random mode per call: Decode(&Raw) (= nextValueBytes)
//	      or Decode(&interface{}), incl. later values that reference symbols defined in
//	      skipped ones (model: skip_value); struct-with-unknown-field oracle (F11-1)
//	typed boundary scalars read back through DecodeInt64/Uint64/Float64/Bool/String/Bytes/Time
//	first all 256 first bytes x fixed tails, both modes
//	deep  deep nesting in a subprocess with debug.SetMaxStack(64<<20)
//	regr  replay inputs of the repaired findings (FWbinc-1/2/3, F11-1, F14-1, F14-3, F02-1, F07-1n)
//
// Hostile inputs run under a watchdog (goroutine + timeout).
package main

import (
	"bytes"
	"errors"
	"flag"
	"fmt"
	"io"
	"math"
	"os"
	"os/exec"
	"runtime/debug"
	"sort"
	"strings"
	"time"

	"verifharness/vh"

	"github.com/ugorji/go/codec"
)

// ---------- item trees ----------

type kind int

const (
	kNil kind = iota
	kBool
	kInt
	kUint
	kF32
	kF64
	kStr
	kBytes
	kArr
	kMap
	kExt
	kTime
)

type item struct {
	k    kind
	b    bool
	i    int64
	u    uint64 // uint, float bits, ext tag, nsec
	s    []byte
	l    []*item
	m    [][2]*item
	real bool // kMap: encode through a real Go map (<= 1 entry) instead of MapBySlice
}

type mbs []interface{}

func (mbs) MapBySlice() {}

func (it *item) goValue() interface{} {
	switch it.k {
	case kNil:
		return nil
	case kBool:
		return it.b
	case kInt:
		return it.i
	case kUint:
		return it.u
	case kF32:
		return math.Float32frombits(uint32(it.u))
	case kF64:
		return math.Float64frombits(it.u)
	case kStr:
		return string(it.s)
	case kBytes:
		return append([]byte{}, it.s...)
	case kArr:
		out := make([]interface{}, 0, len(it.l))
		for _, x := range it.l {
			out = append(out, x.goValue())
		}
		return out
	case kMap:
		if it.real && len(it.m) <= 1 && (len(it.m) == 0 || it.m[0][0].k != kBytes) {
			out := map[interface{}]interface{}{}
			for _, kv := range it.m {
				out[kv[0].goValue()] = kv[1].goValue()
			}
			return out
		}
		out := make(mbs, 0, 2*len(it.m))
		for _, kv := range it.m {
			out = append(out, kv[0].goValue(), kv[1].goValue())
		}
		return out
	case kExt:
		return codec.RawExt{Tag: it.u, Data: append([]byte{}, it.s...)}
	case kTime:
		return time.Unix(it.i, int64(it.u)).UTC()
	}
	panic("kind")
}

func coqZ(v int64) string { return vh.CoqZ(v) }

func (it *item) coq() string {
	switch it.k {
	case kNil:
		return "INil"
	case kBool:
		return "(IBool " + vh.CoqBool(it.b) + ")"
	case kInt:
		return "(IInt " + coqZ(it.i) + ")"
	case kUint:
		return "(IUint " + vh.CoqN(it.u) + ")"
	case kF32:
		return "(IF32 " + vh.CoqN(it.u) + ")"
	case kF64:
		return "(IF64 " + vh.CoqN(it.u) + ")"
	case kStr:
		return "(IStr " + vh.CoqBytes(it.s) + ")"
	case kBytes:
		return "(IBytes " + vh.CoqBytes(it.s) + ")"
	case kArr:
		var sb strings.Builder
		sb.WriteString("(IArr [")
		for i, x := range it.l {
			if i > 0 {
				sb.WriteString(";")
			}
			sb.WriteString(x.coq())
		}
		sb.WriteString("])")
		return sb.String()
	case kMap:
		var sb strings.Builder
		sb.WriteString("(IMap [")
		for i, kv := range it.m {
			if i > 0 {
				sb.WriteString(";")
			}
			sb.WriteString("(" + kv[0].coq() + "," + kv[1].coq() + ")")
		}
		sb.WriteString("])")
		return sb.String()
	case kExt:
		return "(IExt " + vh.CoqN(it.u) + " " + vh.CoqBytes(it.s) + ")"
	case kTime:
		return "(ITime " + coqZ(it.i) + " " + vh.CoqN(it.u) + ")"
	}
	panic("kind")
}

func coqItems(l []*item) string {
	var sb strings.Builder
	sb.WriteString("[")
	for i, x := range l {
		if i > 0 {
			sb.WriteString(";")
		}
		sb.WriteString(x.coq())
	}
	sb.WriteString("]")
	return sb.String()
}

const canonNaN = 0x7FF8000000000001

// fromGo: the canonical tree of what Decode(&interface{}) produced.
func fromGo(v interface{}) *item {
	switch x := v.(type) {
	case nil:
		return &item{k: kNil}
	case bool:
		return &item{k: kBool, b: x}
	case int64:
		return &item{k: kInt, i: x}
	case uint64:
		return &item{k: kUint, u: x}
	case float64:
		if x != x {
			return &item{k: kF64, u: canonNaN}
		}
		return &item{k: kF64, u: math.Float64bits(x)}
	case string:
		return &item{k: kStr, s: []byte(x)}
	case []byte:
		return &item{k: kBytes, s: x}
	case []interface{}:
		out := &item{k: kArr}
		for _, e := range x {
			out.l = append(out.l, fromGo(e))
		}
		return out
	case map[interface{}]interface{}:
		out := &item{k: kMap}
		for k, e := range x {
			out.m = append(out.m, [2]*item{fromGo(k), fromGo(e)})
		}
		sort.Slice(out.m, func(i, j int) bool { return out.m[i][0].coq() < out.m[j][0].coq() })
		return out
	case codec.RawExt:
		return &item{k: kExt, u: x.Tag, s: x.Data}
	case *codec.RawExt:
		return &item{k: kExt, u: x.Tag, s: x.Data}
	case time.Time:
		return &item{k: kTime, i: x.Unix(), u: uint64(x.Nanosecond())}
	}
	return &item{k: kStr, s: []byte(fmt.Sprintf("<unexpected %T>", v))}
}

// norm: what a round trip through binc yields (the Go-side statement of the
// documented losses; the Coq side is Binc.norm).
func norm(it *item, stringToRaw, signed, rawToString bool, key bool) *item {
	nu := func(u uint64) *item {
		if signed {
			return &item{k: kInt, i: int64(u)}
		}
		return &item{k: kUint, u: u}
	}
	nf := func(bits uint64) *item {
		f := math.Float64frombits(bits)
		if f == 0 {
			return &item{k: kF64, u: 0}
		}
		if f != f {
			return &item{k: kF64, u: canonNaN}
		}
		return &item{k: kF64, u: bits}
	}
	bs := func(s []byte) *item {
		if rawToString || key {
			return &item{k: kStr, s: s}
		}
		return &item{k: kBytes, s: s}
	}
	switch it.k {
	case kInt:
		if it.i >= 0 {
			return nu(uint64(it.i))
		}
		return it
	case kUint:
		return nu(it.u)
	case kF32:
		return nf(math.Float64bits(float64(math.Float32frombits(uint32(it.u)))))
	case kF64:
		return nf(it.u)
	case kStr:
		if stringToRaw {
			return bs(it.s)
		}
		return it
	case kBytes:
		return bs(it.s)
	case kArr:
		out := &item{k: kArr}
		for _, x := range it.l {
			out.l = append(out.l, norm(x, stringToRaw, signed, rawToString, false))
		}
		return out
	case kMap:
		out := &item{k: kMap}
		for _, kv := range it.m {
			out.m = append(out.m, [2]*item{norm(kv[0], stringToRaw, signed, rawToString, true), norm(kv[1], stringToRaw, signed, rawToString, false)})
		}
		sort.Slice(out.m, func(i, j int) bool { return out.m[i][0].coq() < out.m[j][0].coq() })
		return out
	case kTime:
		if it.i == -62135596800 && it.u == 0 {
			return &item{k: kNil}
		}
		return it
	}
	return it
}

// ---------- generators ----------

var boundaryU = []uint64{0, 1, 15, 16, 17, 255, 256, 65535, 65536, 1<<23 - 1, 1 << 23, 1<<24 - 1, 1 << 24, 1<<31 - 1, 1 << 31,
	0xFF7FFFFF, 0xFF800000, 0xFFFF8000, 0xFFFFFF80, 1<<32 - 1, 1 << 32, 1<<39 - 1, 1 << 39, 1<<47 - 1, 1 << 47, 1<<55 - 1, 1 << 55,
	1<<63 - 1, 1 << 63, 1<<64 - 1}

func randU(r *vh.Rng) uint64 {
	switch r.Intn(4) {
	case 0:
		return boundaryU[r.Intn(len(boundaryU))]
	case 1:
		return boundaryU[r.Intn(len(boundaryU))] + uint64(r.Intn(3)) - 1
	case 2:
		return r.U64() >> uint(r.Intn(64))
	}
	return uint64(r.Intn(40))
}

func randStr(r *vh.Rng, key bool) []byte {
	var n int
	switch r.Intn(8) {
	case 0:
		n = 0
	case 1:
		n = 1
	case 2:
		n = r.PickInt(11, 12, 13)
	case 3:
		if key {
			n = 2
		} else {
			n = r.PickInt(255, 256, 257)
		}
	default:
		n = 2 + r.Intn(6)
	}
	if key {
		// few distinct keys so that symbols repeat
		s := []byte(fmt.Sprintf("%c%c%c%c%c%c%c%c%c%c%c%c%c", 'a'+r.Intn(3), 'k', 'e', 'y', 'K', 'E', 'Y', '0', '1', '2', '3', '4', '5'))
		if n > len(s) {
			n = len(s)
		}
		return s[:n]
	}
	b := r.Bytes(n)
	if r.Bool() {
		for i := range b {
			b[i] = 'a' + b[i]%26
		}
	}
	return b
}

func randF64(r *vh.Rng) uint64 {
	switch r.Intn(8) {
	case 0:
		return []uint64{0, 1 << 63, 0x7FF0000000000000, 0xFFF0000000000000, 0x7FF8000000000001, 0x7FF0000000000001, 0xFFF8000000000000}[r.Intn(7)]
	case 1:
		return math.Float64bits(float64(r.Intn(1000)))
	case 2:
		return math.Float64bits(float64(r.Intn(1000)) / 8)
	case 3:
		return r.U64() &^ (1<<uint(8*r.Intn(8)) - 1) // trailing zero bytes
	case 4:
		return uint64(r.Intn(1 << 20)) // subnormals
	}
	return r.U64()
}

func randF32(r *vh.Rng) uint64 {
	switch r.Intn(6) {
	case 0:
		return []uint64{0, 1 << 31, 0x7F800000, 0xFF800000, 0x7FC00000, 0x7F800001, 1, 0x007FFFFF, 0x00800000}[r.Intn(9)]
	case 1:
		return uint64(math.Float32bits(float32(r.Intn(1000)) / 4))
	case 2:
		return uint64(r.Intn(1 << 23)) // subnormals
	}
	return r.U64() & 0xFFFFFFFF
}

func randTime(r *vh.Rng) (int64, uint64) {
	var sec int64
	switch r.Intn(8) {
	case 0:
		sec = -62135596800
	case 1:
		sec = 0
	case 2:
		sec = int64(r.PickInt(1, -1, 127, 128, -128, -129, 32767, 32768, -32768, -32769, 1<<23-1, 1<<23, -(1 << 23), -(1<<23)-1))
	case 3:
		sec = []int64{1<<31 - 1, 1 << 31, -(1 << 31), -(1 << 31) - 1, 1<<39 - 1, 1 << 39, 1<<47 - 1, 1 << 47, -(1 << 47), 1<<55 - 1, 1 << 55, -(1 << 55) - 1, 1<<62 + 5, -(1 << 62)}[r.Intn(14)]
	case 4:
		sec = int64(r.U64() >> uint(r.Intn(64)))
		if r.Bool() {
			sec = -sec
		}
	default:
		sec = 1700000000 + int64(r.Intn(100000000))
	}
	var ns uint64
	switch r.Intn(5) {
	case 0:
		ns = 0
	case 1:
		ns = uint64(r.PickInt(1, 127, 128, 32767, 32768, 1<<23-1, 1<<23, 999999999))
	default:
		ns = uint64(r.Intn(1000000000))
	}
	return sec, ns
}

func randScalar(r *vh.Rng, key bool) *item {
	switch r.Intn(12) {
	case 0:
		return &item{k: kNil}
	case 1:
		return &item{k: kBool, b: r.Bool()}
	case 2:
		u := randU(r)
		if r.Bool() {
			return &item{k: kInt, i: int64(u)}
		}
		return &item{k: kInt, i: -int64(u)}
	case 3:
		return &item{k: kUint, u: randU(r)}
	case 4:
		return &item{k: kF32, u: randF32(r)}
	case 5:
		return &item{k: kF64, u: randF64(r)}
	case 6:
		return &item{k: kBytes, s: randStr(r, false)}
	case 7:
		s, n := randTime(r)
		return &item{k: kTime, i: s, u: n}
	case 8:
		if key {
			return &item{k: kStr, s: randStr(r, true)}
		}
		return &item{k: kExt, u: uint64(r.Intn(256)), s: randStr(r, false)}
	}
	return &item{k: kStr, s: randStr(r, key)}
}

func randItem(r *vh.Rng, depth int, key bool) *item {
	if key {
		if r.Chance(3, 4) {
			return &item{k: kStr, s: randStr(r, true)}
		}
		it := randScalar(r, true)
		if it.k == kF32 || it.k == kF64 {
			// NaN keys never compare equal; keep keys comparable
			f := math.Float64frombits(it.u)
			if it.k == kF32 {
				f = float64(math.Float32frombits(uint32(it.u)))
			}
			if f != f {
				it = &item{k: kInt, i: 7}
			}
		}
		return it
	}
	if depth <= 0 || r.Chance(1, 2) {
		return randScalar(r, false)
	}
	if r.Bool() {
		n := r.PickInt(0, 1, 2, 3, 3, 11, 12, 13)
		if depth < 2 && r.Chance(1, 20) {
			n = r.PickInt(255, 256, 300)
		}
		out := &item{k: kArr}
		for i := 0; i < n; i++ {
			d := depth - 1
			if n > 20 {
				d = 0
			}
			out.l = append(out.l, randItem(r, d, false))
		}
		return out
	}
	n := r.PickInt(0, 1, 1, 2, 3, 12)
	out := &item{k: kMap, real: r.Bool()}
	seen := map[string]bool{}
	for i := 0; i < n; i++ {
		k := randItem(r, 0, true)
		nk := norm(k, false, false, false, true)
		ks := nk.coq()
		if nk.k == kF64 && nk.u == 0 {
			ks = "zero-float"
		}
		if seen[ks] {
			continue
		}
		seen[ks] = true
		d := depth - 1
		if n > 4 {
			d = 0
		}
		out.m = append(out.m, [2]*item{k, randItem(r, d, false)})
	}
	return out
}

// ---------- running the implementation ----------

type eopts struct{ sym, s2r bool }
type dopts struct {
	maxdepth       int
	signed, raw2st bool
}

func (o eopts) coq() string {
	return fmt.Sprintf("{| asSymbols := %s; stringToRaw := %s |}", vh.CoqBool(o.sym), vh.CoqBool(o.s2r))
}
func (o dopts) eff() int {
	if o.maxdepth > 0 {
		return o.maxdepth
	}
	return 1024
}
func (o dopts) coq() string {
	return fmt.Sprintf("{| maxdepth := %d; signedInt := %s; rawToString := %s |}", o.eff(), vh.CoqBool(o.signed), vh.CoqBool(o.raw2st))
}

func encHandle(o eopts) *codec.BincHandle {
	h := &codec.BincHandle{}
	if o.sym {
		h.AsSymbols = 1
	}
	h.StringToRaw = o.s2r
	return h
}

func decHandle(o dopts, sym bool) *codec.BincHandle {
	h := &codec.BincHandle{}
	if sym {
		h.AsSymbols = 1
	}
	h.MaxDepth = int16(o.maxdepth)
	h.SignedInteger = o.signed
	h.RawToString = o.raw2st
	return h
}

func encodeSeq(o eopts, items []*item) ([]byte, []int, error) {
	var out []byte
	e := codec.NewEncoderBytes(&out, encHandle(o))
	var ends []int
	for _, it := range items {
		if err := e.Encode(it.goValue()); err != nil {
			return out, ends, err
		}
		ends = append(ends, len(out))
	}
	return out, ends, nil
}

func errClass(err error) int {
	if err == nil {
		return 0
	}
	s := err.Error()
	switch {
	case strings.Contains(s, "maximum decoding depth exceeded"):
		return 4
	case errors.Is(err, io.ErrUnexpectedEOF), errors.Is(err, io.EOF), strings.Contains(s, "out of bounds with capacity"):
		return 1
	}
	return 8
}

type runObs struct {
	items []*item
	nread []int
	raws  [][]byte
	err   int
	hung  bool
}

// runDecoder makes one Decoder over in and calls Decode once per mode until the
// first error, under a watchdog.
func runDecoder(o dopts, in []byte, modes []bool, timeout time.Duration) runObs {
	ch := make(chan runObs, 1)
	go func() {
		var obs runObs
		defer func() {
			if rec := recover(); rec != nil {
				obs.err = 9 // a panic escaped Decode
			}
			ch <- obs
		}()
		d := codec.NewDecoderBytes(in, decHandle(o, true))
		for _, skip := range modes {
			if skip {
				var raw codec.Raw
				if err := d.Decode(&raw); err != nil {
					obs.err = errClass(err)
					return
				}
				obs.items = append(obs.items, &item{k: kNil})
				obs.raws = append(obs.raws, raw)
			} else {
				var v interface{}
				if err := d.Decode(&v); err != nil {
					obs.err = errClass(err)
					return
				}
				obs.items = append(obs.items, fromGo(v))
				obs.raws = append(obs.raws, nil)
			}
			obs.nread = append(obs.nread, d.NumBytesRead())
		}
	}()
	select {
	case obs := <-ch:
		return obs
	case <-time.After(timeout):
		return runObs{hung: true}
	}
}

func coqInts(l []int) string {
	var sb strings.Builder
	sb.WriteString("[")
	for i, x := range l {
		if i > 0 {
			sb.WriteString(";")
		}
		fmt.Fprintf(&sb, "%d", x)
	}
	sb.WriteString("]%N")
	if len(l) == 0 {
		return "[]"
	}
	return sb.String()
}

func coqBools(l []bool) string {
	var sb strings.Builder
	sb.WriteString("[")
	for i, x := range l {
		if i > 0 {
			sb.WriteString(";")
		}
		sb.WriteString(vh.CoqBool(x))
	}
	sb.WriteString("]")
	return sb.String()
}

type ctxT struct {
	r   *vh.Rng
	sum *vh.Summary
	cv  *vh.Cases
	id  int
}

func (c *ctxT) addEnc(o eopts, items []*item, out []byte) {
	c.cv.Add(fmt.Sprintf("mkcase %d 0 %s %s %s %s [] [] [] 0", c.id, o.coq(), dopts{}.coq(), coqItems(items), vh.CoqBytes(out)))
	c.id++
	c.sum.ModelCases++
}

func (c *ctxT) addRun(o dopts, in []byte, modes []bool, obs runObs) {
	c.cv.Add(fmt.Sprintf("mkcase %d 1 %s %s [] %s %s %s %s %d", c.id, eopts{}.coq(), o.coq(), vh.CoqBytes(in), coqBools(modes), coqItems(obs.items), coqInts(obs.nread), obs.err))
	c.id++
	c.sum.ModelCases++
}

func randDopts(r *vh.Rng) dopts {
	o := dopts{}
	if r.Chance(1, 4) {
		o.maxdepth = r.PickInt(1, 2, 3, 4, 8)
	}
	o.signed = r.Chance(1, 4)
	o.raw2st = r.Chance(1, 4)
	return o
}

func caseJSON(o interface{}, in []byte, extra map[string]interface{}) map[string]interface{} {
	m := map[string]interface{}{"format": "binc", "opts": fmt.Sprintf("%+v", o), "input": vh.Hex(in)}
	for k, v := range extra {
		m[k] = v
	}
	return m
}

// checkRun applies the direct oracles to one run: no hang, no escaped panic, Raw
// capture returns exactly the bytes consumed (C11).
func (c *ctxT) checkRun(stream string, o dopts, in []byte, modes []bool, obs runObs, extra map[string]interface{}) bool {
	if obs.hung {
		c.sum.FailC(stream, "binc:hang", "Decode did not return within the watchdog timeout", caseJSON(o, in, extra))
		return false
	}
	if obs.err == 9 {
		c.sum.FailC(stream, "binc:panic-escaped", "a panic escaped Decode", caseJSON(o, in, extra))
		return false
	}
	prev := 0
	for i, n := range obs.nread {
		if n < prev || n > len(in) {
			c.sum.FailC(stream, "binc:numread", "NumBytesRead is not monotone or exceeds the input", caseJSON(o, in, extra))
			return false
		}
		if modes[i] && !bytes.Equal(obs.raws[i], in[prev:n]) {
			c.sum.FailC(stream, "binc:raw-extent", "Decode(&Raw) returned bytes that are not the bytes it consumed", caseJSON(o, in, extra))
		}
		prev = n
	}
	return true
}

// ---------- stream enc (+ round trip, + skip/decode mixes on valid sequences) ----------

func encStream(c *ctxT, n int) [][]byte {
	var corpus [][]byte
	r := c.r
	for i := 0; i < n; i++ {
		o := eopts{sym: r.Bool(), s2r: r.Chance(1, 6)}
		k := r.PickInt(1, 1, 2, 3, 4)
		var items []*item
		for j := 0; j < k; j++ {
			items = append(items, randItem(r, r.PickInt(0, 1, 2, 3), false))
		}
		if i%16 == 5 {
			// more than 255 distinct symbols on one Encoder (two-byte ids), then references to high ids
			big := &item{k: kMap}
			for q := 0; q < 262+r.Intn(10); q++ {
				big.m = append(big.m, [2]*item{{k: kStr, s: []byte(fmt.Sprintf("s%03d", q))}, {k: kUint, u: uint64(q % 7)}})
			}
			ref := &item{k: kMap}
			for _, q := range []int{0, 127, 254, 255, 256, 260} {
				ref.m = append(ref.m, [2]*item{{k: kStr, s: []byte(fmt.Sprintf("s%03d", q))}, {k: kBool, b: true}})
			}
			items = append([]*item{big}, items...)
			items = append(items, ref)
			k = len(items)
		}
		if i%16 == 9 {
			// long keys: two- and one-byte length precision of a symbol definition
			lk := &item{k: kMap}
			for _, n := range []int{255, 256, 257} {
				lk.m = append(lk.m, [2]*item{{k: kStr, s: bytes.Repeat([]byte{byte('A' + n%7)}, n)}, {k: kNil}})
			}
			items = append(items, lk, lk)
			k = len(items)
		}
		out, ends, err := encodeSeq(o, items)
		cj := map[string]interface{}{"format": "binc", "opts": fmt.Sprintf("%+v", o), "items": coqItems(items), "seed_index": i}
		if err != nil {
			c.sum.FailC("enc", "binc:encode-error", "Encode of a supported value returned an error", cj)
			continue
		}
		c.addEnc(o, items, out)
		corpus = append(corpus, out)
		// round trip on one Decoder (all decode), then a random skip/decode mix
		d := randDopts(r)
		d.maxdepth = 0
		for pass := 0; pass < 2; pass++ {
			modes := make([]bool, k)
			if pass == 1 {
				for j := range modes {
					modes[j] = r.Bool()
				}
			}
			obs := runDecoder(d, out, modes, 5*time.Second)
			cj["dopts"] = fmt.Sprintf("%+v", d)
			cj["modes"] = fmt.Sprint(modes)
			cj["bytes"] = vh.Hex(out)
			if !c.checkRun("enc", d, out, modes, obs, cj) {
				continue
			}
			stream := "roundtrip"
			if pass == 1 {
				stream = "skipseq"
			}
			firstBig := -1
			if d.signed {
				for j := range items {
					if hasBigUint(items[j]) {
						firstBig = j
						break
					}
				}
			}
			if firstBig >= 0 {
				// SignedInteger and an unsigned value >= 2^63: the call that decodes it must fail
				// (a skipped value is not converted); values before it are compared by the model
				decodesIt := false
				for j := firstBig; j < k; j++ {
					if !modes[j] && hasBigUint(items[j]) {
						decodesIt = true
					}
				}
				if decodesIt && obs.err == 0 {
					c.sum.FailC(stream, "binc:signed-overflow-not-reported", "SignedInteger: an unsigned value >= 2^63 was decoded without an overflow error", cj)
				}
			} else if obs.err != 0 || len(obs.items) != k {
				c.sum.FailC(stream, "binc:decode-of-valid", "decoding what the Encoder wrote returned an error", cj)
			} else {
				for j := range items {
					if obs.nread[j] != ends[j] {
						c.sum.FailC(stream, "binc:extent", "a consumer stopped at a different offset than the Encoder's value end", cj)
						break
					}
					if modes[j] {
						continue
					}
					want := norm(items[j], o.s2r, d.signed, d.raw2st, false)
					if want.coq() != obs.items[j].coq() {
						cj["index"] = j
						cj["want"] = want.coq()
						cj["got"] = obs.items[j].coq()
						cls := "binc:roundtrip"
						if pass == 1 {
							cls = "binc:value-after-skip"
						}
						c.sum.FailC(stream, cls, "a value written by the Encoder was read back as a different value", cj)
						break
					}
				}
			}
			c.addRun(d, out, modes, obs)
		}
		key := fmt.Sprintf("sym%v/s2r%v/k%d/len%d/kinds%s", o.sym, o.s2r, k, len(out)/8, kindsOf(items))
		if len(out) <= 1 {
			key = ""
		}
		c.sum.Count("enc", key)
		if o.sym {
			c.sum.Dist["enc.asSymbols"]++
		}
		if i < 2 {
			c.sum.Sample(cj)
		}
	}
	return corpus
}


// hasBigUint: an unsigned integer >= 2^63 somewhere in the tree: under SignedInteger
// DecodeNaked must report an overflow for it (F07-1n).
func hasBigUint(it *item) bool {
	if it.k == kUint && it.u >= 1<<63 {
		return true
	}
	for _, x := range it.l {
		if hasBigUint(x) {
			return true
		}
	}
	for _, kv := range it.m {
		if hasBigUint(kv[0]) || hasBigUint(kv[1]) {
			return true
		}
	}
	return false
}

func kindsOf(items []*item) string {
	var sb strings.Builder
	var walk func(it *item, d int)
	walk = func(it *item, d int) {
		if sb.Len() > 12 {
			return
		}
		sb.WriteByte("nbiufdsBAMxt"[it.k])
		for _, x := range it.l {
			walk(x, d+1)
		}
		for _, kv := range it.m {
			walk(kv[0], d+1)
			walk(kv[1], d+1)
		}
	}
	for _, it := range items {
		walk(it, 0)
	}
	return sb.String()
}

// ---------- stream dec/skip on mutated and random inputs ----------

func mutate(r *vh.Rng, in []byte) []byte {
	out := append([]byte{}, in...)
	if len(out) == 0 {
		return []byte{byte(r.U64())}
	}
	for k := 0; k <= r.Intn(3); k++ {
		p := r.Intn(len(out))
		switch r.Intn(6) {
		case 0:
			out[p] = byte(r.U64())
		case 1:
			out[p] ^= 1 << uint(r.Intn(8))
		case 2:
			out = out[:p]
		case 3:
			out = append(out[:p], append([]byte{byte(r.U64())}, out[p:]...)...)
		case 4:
			out[p] = []byte{0x43, 0x53, 0x63, 0x73, 0xf3, 0xbf, 0xb7, 0x3b, 0x39, 0x8f, 0x81, 0x60, 0x70}[r.Intn(13)]
		case 5:
			// a large length field
			out = append(out[:p], append([]byte{[]byte{0x43, 0x53, 0x63, 0x73, 0xf3, 0xb7}[r.Intn(6)], 0xff, 0xff, 0xff, 0xff, byte(r.U64()), 0, 0, byte(r.U64())}, out[p:]...)...)
		}
		if len(out) == 0 {
			break
		}
	}
	if len(out) > 400 {
		out = out[:400]
	}
	return out
}

func hostileStream(c *ctxT, stream string, inputs [][]byte) {
	r := c.r
	for i, in := range inputs {
		o := randDopts(r)
		k := r.PickInt(1, 2, 3)
		modes := make([]bool, k)
		for j := range modes {
			modes[j] = stream == "skip" && r.Bool()
		}
		if stream == "skip" {
			modes[0] = r.Chance(3, 4)
		}
		obs := runDecoder(o, in, modes, 3*time.Second)
		extra := map[string]interface{}{"modes": fmt.Sprint(modes), "seed_index": i}
		if !c.checkRun(stream, o, in, modes, obs, extra) {
			continue
		}
		c.addRun(o, in, modes, obs)
		first := byte(0)
		if len(in) > 0 {
			first = in[0]
		}
		key := fmt.Sprintf("%s/vd%x/err%d/n%d/md%d/%v", stream, first>>4, obs.err, len(obs.items), o.maxdepth, modes)
		c.sum.Count(fmt.Sprintf("%s.err%d", stream, obs.err), key)
		if i < 1 {
			c.sum.Sample(caseJSON(o, in, extra))
		}
	}
}


// ---------- stream typed: scalar items through the typed driver calls ----------

// typedStream encodes boundary scalars and reads them back with the typed decode
// calls (DecodeInt64, DecodeUint64, DecodeFloat64/32, DecodeBool, DecodeStringAsBytes,
// DecodeBytes, DecodeTime) instead of DecodeNaked: direct oracle only.
func typedStream(c *ctxT, n int) {
	r := c.r
	h := &codec.BincHandle{}
	for i := 0; i < n; i++ {
		it := randScalar(r, false)
		var out []byte
		if err := codec.NewEncoderBytes(&out, h).Encode(it.goValue()); err != nil {
			continue
		}
		d := codec.NewDecoderBytes(out, h)
		ok := true
		var err error
		switch it.k {
		case kBool:
			var v bool
			err = d.Decode(&v)
			ok = v == it.b
		case kInt:
			var v int64
			err = d.Decode(&v)
			ok = v == it.i
		case kUint:
			var v uint64
			err = d.Decode(&v)
			ok = v == it.u
		case kF32:
			var v float32
			err = d.Decode(&v)
			w := math.Float32frombits(uint32(it.u))
			ok = v == w || (v != v && w != w)
		case kF64:
			var v float64
			err = d.Decode(&v)
			w := math.Float64frombits(it.u)
			ok = v == w || (v != v && w != w)
		case kStr:
			var v string
			err = d.Decode(&v)
			ok = v == string(it.s)
		case kBytes:
			var v []byte
			err = d.Decode(&v)
			ok = bytes.Equal(v, it.s)
		case kTime:
			var v time.Time
			err = d.Decode(&v)
			ok = v.Equal(time.Unix(it.i, int64(it.u)))
		default:
			continue
		}
		if err != nil || !ok || d.NumBytesRead() != len(out) {
			c.sum.FailC("typed", "binc:typed-roundtrip", "a scalar written by the Encoder was read back differently by the typed decode call",
				map[string]interface{}{"format": "binc", "item": it.coq(), "bytes": vh.Hex(out), "err": fmt.Sprint(err)})
		}
		c.sum.Count("typed", fmt.Sprintf("typed/%d/%d", it.k, len(out)))
	}
}

// ---------- stream first: all 256 first bytes ----------

func firstStream(c *ctxT) {
	tails := [][]byte{
		{},
		{0x01, 0x02, 0x03, 0x04, 0x05, 0x06, 0x07, 0x08, 0x09, 0x0a, 0x0b, 0x0c, 0x0d, 0x0e, 0x0f, 0x10, 0x11, 0x12},
		{0x00, 0x00, 0x00, 0x00, 0x00, 0x00, 0x00, 0x03, 0x41, 0x61, 0x91, 0x45, 0x62, 0x92, 0x93, 0x94},
		{0xff, 0xff, 0xff, 0xff, 0xff, 0xff, 0xff, 0xff, 0xff, 0xff},
		{0x02, 0xb4, 0x01, 0x02, 0x61, 0x62, 0xb0, 0x01, 0x91, 0xb0, 0x01, 0xb0, 0x02, 0x91},
		{0xa0, 0x05, 0x61, 0x62, 0x63, 0x64, 0x65, 0x66, 0x67, 0x68, 0x69, 0x6a, 0x6b},
	}
	for b := 0; b < 256; b++ {
		for ti, t := range tails {
			in := append([]byte{byte(b)}, t...)
			for _, skip := range []bool{false, true} {
				o := dopts{}
				if ti == 2 {
					o.signed = true
				}
				if ti == 4 {
					o.raw2st = true
				}
				modes := []bool{skip, false}
				obs := runDecoder(o, in, modes, 3*time.Second)
				extra := map[string]interface{}{"modes": fmt.Sprint(modes), "first": b, "tail": ti}
				if !c.checkRun("first", o, in, modes, obs, extra) {
					continue
				}
				c.addRun(o, in, modes, obs)
				c.sum.Count(fmt.Sprintf("first.err%d", obs.err), fmt.Sprintf("first/%02x/%d/%v/err%d", b, ti, skip, obs.err))
			}
		}
	}
}

// ---------- regression inputs of the repaired findings + struct oracle ----------

type empty struct{}

func regrStream(c *ctxT) {
	sum := c.sum
	// FWbinc-1: magnitudes with leading 0xff bytes
	for _, v := range []int64{-4294967295, -4286578688, -4294934528, -4294967040, -4286578687, -2147483648, -9223372036854775808, -2, -256, -65536} {
		var b []byte
		h := &codec.BincHandle{}
		codec.NewEncoderBytes(&b, h).MustEncode(v)
		var out int64
		err := codec.NewDecoderBytes(b, h).Decode(&out)
		if err != nil || out != v {
			sum.FailC("regr", "binc:encint:neg-magnitude-0xff-pruned", "a negative integer was written with a pruned magnitude and read back as a different number",
				map[string]interface{}{"format": "binc", "value": v, "bytes": vh.Hex(b), "got": out})
		}
		sum.Count("regr.negint", fmt.Sprintf("negint/%d", v))
	}
	// FWbinc-2: more than 65535 distinct symbols on one Encoder
	{
		h := &codec.BincHandle{}
		h.AsSymbols = 1
		var b []byte
		e := codec.NewEncoderBytes(&b, h)
		n := 65540
		keys := make([]string, 0, n+4)
		for i := 0; i < n; i++ {
			keys = append(keys, fmt.Sprintf("k%05d", i))
		}
		keys = append(keys, "k00000", "k00001", "k65535", "k65539")
		for _, k := range keys {
			e.MustEncode(mbs{k, 1})
		}
		d := codec.NewDecoderBytes(b, h)
		for i, k := range keys {
			var out map[string]int
			if err := d.Decode(&out); err != nil || len(out) != 1 || out[k] != 1 {
				sum.FailC("regr", "binc:symbols:id-reuse-after-65535", "a map key written as a symbol was read back as a different string",
					map[string]interface{}{"format": "binc", "AsSymbols": 1, "index": i, "want": k, "got": fmt.Sprint(out)})
				break
			}
		}
		sum.Count("regr.symwrap", "symwrap")
	}
	// FWbinc-3: timestamp components beyond the declared length
	for _, in := range [][]byte{{0x81, 0x40, 0x07}, {0x82, 0x9c, 1, 2, 3, 4, 5, 6, 7, 8, 9}, {0x81, 0x80, 0x05}, {0x82, 0xc0, 0x01, 0x05}} {
		var out interface{}
		d := codec.NewDecoderBytes(in, &codec.BincHandle{})
		err := d.Decode(&out)
		if err == nil {
			sum.FailC("regr", "binc:time:components-beyond-len", "a timestamp whose components exceed its declared length decoded without error (value taken from the bytes that follow)",
				map[string]interface{}{"format": "binc", "input": vh.Hex(in), "got": fmt.Sprint(out)})
		}
		sum.Count("regr.time", "time/"+vh.Hex(in))
	}
	// F11-1: symbol defined inside a skipped value, referenced later (unknown struct field; Raw)
	for variant := 0; variant < 3; variant++ {
		h := &codec.BincHandle{}
		h.AsSymbols = 1
		var b []byte
		e := codec.NewEncoderBytes(&b, h)
		e.MustEncode(mbs{"unknownfield", mbs{"symkey", 1, "other", 2}})
		e.MustEncode(mbs{"symkey", 2, "other", 3})
		d := codec.NewDecoderBytes(b, h)
		var err error
		switch variant {
		case 0:
			var s empty
			err = d.Decode(&s)
		case 1:
			var raw codec.Raw
			err = d.Decode(&raw)
		case 2:
			var s struct{ Zzz int }
			err = d.Decode(&s)
		}
		var out map[string]int
		if err == nil {
			err = d.Decode(&out)
		}
		if err != nil || out["symkey"] != 2 || out["other"] != 3 || len(out) != 2 {
			sum.FailC("regr", "binc:symbols:defined-in-skipped-value", "a symbol defined inside a skipped value was lost: a later reference decoded as a different string",
				map[string]interface{}{"format": "binc", "AsSymbols": 1, "variant": variant, "bytes": vh.Hex(b), "got": fmt.Sprint(out), "err": fmt.Sprint(err)})
		}
		sum.Count("regr.f11", fmt.Sprintf("f11/%d", variant))
	}
	// F07-1n: SignedInteger and an unsigned value >= 2^63: overflow error, not a sign-flipped int64
	for _, u := range []uint64{1 << 63, 1<<63 + 5, 1<<64 - 1, 1<<63 - 1} {
		var b []byte
		codec.NewEncoderBytes(&b, &codec.BincHandle{}).MustEncode(u)
		h := &codec.BincHandle{}
		h.SignedInteger = true
		var out interface{}
		err := codec.NewDecoderBytes(b, h).Decode(&out)
		if (u >= 1<<63) != (err != nil) {
			sum.FailC("regr", "binc:naked:signed-overflow", "SignedInteger: an unsigned value >= 2^63 decoded into interface{} without an overflow error (or a smaller one failed)",
				map[string]interface{}{"format": "binc", "value": u, "bytes": vh.Hex(b), "got": fmt.Sprint(out), "err": fmt.Sprint(err)})
		}
		sum.Count("regr.f07n", fmt.Sprintf("f07n/%d", u))
	}
	// F02-1: a crafted 64-bit length inside a skipped value must not move the cursor backwards
	for _, in := range [][]byte{
		{0x63, 0xff, 0xff, 0xff, 0xff, 0xff, 0xff, 0xff, 0xff, 0x43, 0xff, 0xff, 0xff, 0xff, 0xff, 0xff, 0xff, 0xf7},
		{0x65, 0x53, 0xff, 0xff, 0xff, 0xff, 0xff, 0xff, 0xff, 0xff},
		{0x65, 0xf3, 0xff, 0xff, 0xff, 0xff, 0xff, 0xff, 0xff, 0xf6, 0x01},
	} {
		obs := runDecoder(dopts{}, in, []bool{true}, 3*time.Second)
		if obs.hung || obs.err == 0 {
			sum.FailC("regr", "binc:skip:cursor-wrap", "skipping a value with a crafted 64-bit length hung or succeeded",
				map[string]interface{}{"format": "binc", "input": vh.Hex(in), "hung": obs.hung})
			if obs.hung {
				sum.Print()
				os.Exit(0)
			}
		}
		sum.Count("regr.f02", "f02/"+vh.Hex(in))
	}
}

// ---------- deep nesting in a subprocess ----------

func deepChild(kind string, n int) {
	debug.SetMaxStack(64 << 20)
	var in []byte
	var skip bool
	switch kind {
	case "arr", "arr-skip":
		in = bytes.Repeat([]byte{0x65}, n)
	case "map", "map-skip":
		in = bytes.Repeat([]byte{0x75, 0x91}, n)
	case "nil32", "nil32-skip":
		in = bytes.Repeat([]byte{0x63, 0xff, 0xff, 0xff, 0xff, 0x80, 0x00, 0x00, 0x00}, n)
	case "mapnil32":
		in = bytes.Repeat([]byte{0x73, 0xff, 0xff, 0xff, 0xff, 0x80, 0x00, 0x00, 0x00, 0x91}, n)
	case "unknown-field":
		in = append([]byte{0x75, 0x41, 'x'}, bytes.Repeat([]byte{0x65}, n)...)
	}
	skip = strings.HasSuffix(kind, "-skip")
	d := codec.NewDecoderBytes(in, &codec.BincHandle{})
	var err error
	switch {
	case kind == "unknown-field":
		var s empty
		err = d.Decode(&s)
	case skip:
		var raw codec.Raw
		err = d.Decode(&raw)
	default:
		var v interface{}
		err = d.Decode(&v)
	}
	fmt.Printf("DEEP class=%d\n", errClass(err))
}

func deepStream(c *ctxT, n int) {
	exe, err := os.Executable()
	if err != nil {
		return
	}
	for _, kind := range []string{"arr", "arr-skip", "map", "map-skip", "nil32", "nil32-skip", "mapnil32", "unknown-field"} {
		cmd := exec.Command(exe, "-deepchild", kind, "-deepn", fmt.Sprint(n))
		var outb bytes.Buffer
		cmd.Stdout = &outb
		cmd.Stderr = io.Discard
		done := make(chan error, 1)
		if err := cmd.Start(); err != nil {
			continue
		}
		go func() { done <- cmd.Wait() }()
		var werr error
		timedOut := false
		select {
		case werr = <-done:
		case <-time.After(20 * time.Second):
			cmd.Process.Kill()
			timedOut = true
		}
		cj := map[string]interface{}{"format": "binc", "kind": kind, "n": n, "input": kind + " x " + fmt.Sprint(n)}
		switch {
		case timedOut:
			c.sum.FailC("deep", "binc:deep:"+kind, "deeply nested input did not finish within the watchdog timeout", cj)
		case werr != nil:
			c.sum.FailC("deep", "binc:deep:"+kind, "deeply nested input killed the process (stack exhaustion)", cj)
		case !strings.Contains(outb.String(), "DEEP class=4") && !strings.Contains(outb.String(), "DEEP class=8"):
			cj["out"] = outb.String()
			c.sum.FailC("deep", "binc:deep:"+kind, "nesting beyond MaxDepth was not rejected", cj)
		}
		c.sum.Count("deep."+kind, "deep/"+kind)
	}
}

func main() {
	nEnc := flag.Int("enc", 300, "encode sequences (each also decoded twice)")
	nMut := flag.Int("mut", 500, "mutated encodings")
	nRnd := flag.Int("rnd", 400, "random byte strings")
	deepN := flag.Int("deep", 1000000, "nesting levels for the subprocess stream (0 = off)")
	first := flag.Bool("first", true, "sweep all 256 first bytes")
	cases := flag.String("cases", "/verif/build/wbinc/cases", "directory for the model case files")
	deepKind := flag.String("deepchild", "", "(internal) run one deep-nesting decode")
	deepCnt := flag.Int("deepn", 1000, "(internal)")
	flag.Parse()
	if *deepKind != "" {
		deepChild(*deepKind, *deepCnt)
		return
	}
	r := vh.NewRng(vh.SeedFromEnv())
	sum := vh.NewSummary("enc: random item sequences on one Encoder x (AsSymbols, StringToRaw), bytes vs model enc_seq, then read back on one Decoder twice (all decode; random Decode(&Raw)/decode mix) with the round-trip/extent oracles; dec/skip: mutated encodings and random bytes, 1-3 calls on one Decoder x (MaxDepth, SignedInteger, RawToString), outcome class + canonical tree + NumBytesRead vs model; first: 256 first bytes x 6 tails x {decode, Raw}; typed: boundary scalars read back through the typed driver calls (direct oracle); deep: 8 nesting shapes in a subprocess; regr: replay inputs of repaired findings. non-trivial = output longer than one byte / distinct by (stream, first descriptor nibble, error class, calls, options, modes)")
	c := &ctxT{r: r.Fork(), sum: sum}
	c.cv = vh.NewCases(*cases, "From Coq Require Import List NArith ZArith.\nFrom Verif Require Import Wire.Item Wire.Binc Wire.BincCorr.\nImport ListNotations.", "case", "mismatches", 60)
	corpus := encStream(c, *nEnc)
	var muts, rnds [][]byte
	rm := r.Fork()
	for i := 0; i < *nMut && len(corpus) > 0; i++ {
		muts = append(muts, mutate(rm, corpus[rm.Intn(len(corpus))]))
	}
	for i := 0; i < *nRnd; i++ {
		n := rm.PickInt(1, 2, 3, 5, 9, 17, 40)
		b := rm.Bytes(n)
		if rm.Bool() {
			// bias the first byte towards containers and symbols
			b[0] = []byte{0x60, 0x70, 0xb0, 0x40, 0x50, 0xf0, 0x80, 0x30}[rm.Intn(8)] | byte(rm.Intn(16))
		}
		rnds = append(rnds, b)
	}
	c.r = r.Fork()
	hostileStream(c, "dec", append(append([][]byte{}, muts...), rnds...))
	c.r = r.Fork()
	hostileStream(c, "skip", append(append([][]byte{}, muts...), rnds...))
	if *first {
		firstStream(c)
	}
	c.r = r.Fork()
	typedStream(c, *nEnc*2)
	regrStream(c)
	if *deepN > 0 {
		deepStream(c, *deepN)
	}
	c.cv.Close()
	sum.Print()
}

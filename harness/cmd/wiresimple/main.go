// wiresimple: correspondence and direct oracles for the wire layer of the "simple"
// format (simple.go) against the model coq/theories/Wire/Simple.v.
//
// Streams
//
//	enc   random item trees -> Go values (interface{} trees and typed slices/maps)
//	      -> real Encoder under random options; the bytes go to the model (CEnc);
//	      direct oracles: Decode(&interface{}) consumes exactly the bytes,
//	      Decode(&Raw) captures exactly the bytes.
//	dec   valid encodings (+ trailing bytes), one-edit mutations, raw random bytes,
//	      all 256 first bytes x tails -> real Decode(&interface{}) -> outcome class,
//	      canonical tree, NumBytesRead (CDec).
//	skip  the same inputs through Decode(&Raw) (nextValueBytes) and as the value of an
//	      unknown key of a struct (swallow) (CSkip).
//	deep  subprocesses with debug.SetMaxStack(64<<20): deep nesting on every path;
//	      a process death or hang is a classed oracle failure.
//
// Every real decode of a hostile input runs under a watchdog (goroutine + timeout).
package main

import (
	"bytes"
	"encoding/hex"
	"errors"
	"flag"
	"fmt"
	"io"
	"math"
	"os"
	"os/exec"
	"runtime/debug"
	"sort"
	"strings"
	"time"

	"verifharness/vh"

	"github.com/ugorji/go/codec"
)

// ---------------------------------------------------------------- items

type Kind int

const (
	KNil Kind = iota
	KBool
	KInt
	KUint
	KF32
	KF64
	KStr
	KBytes
	KArr
	KMap
	KExt
	KTime
)

type Item struct {
	K    Kind
	B    bool
	I    int64
	U    uint64 // uint value, float bits, ext tag, time nsec
	S    []byte
	L    []*Item
	M    [][2]*Item
	Sec  int64
	Flav int // how the Go value is built (typed variants)
}

func coqZ(v int64) string { return fmt.Sprintf("(%d)%%Z", v) }

// coqBytes prints a byte list; runs of 64 or more equal bytes become [repeat b (N.to_nat k)]
// (a literal of tens of thousands of elements overflows coqc's stack).
func coqBytes(b []byte) string {
	if len(b) < 200 {
		return vh.CoqBytes(b)
	}
	var parts []string
	lit := []byte{}
	flush := func() {
		if len(lit) > 0 {
			parts = append(parts, vh.CoqBytes(lit))
			lit = []byte{}
		}
	}
	for i := 0; i < len(b); {
		j := i
		for j < len(b) && b[j] == b[i] {
			j++
		}
		if j-i >= 64 {
			flush()
			parts = append(parts, fmt.Sprintf("repeat %d%%N (N.to_nat %d)", b[i], j-i))
		} else {
			lit = append(lit, b[i:j]...)
		}
		i = j
	}
	flush()
	return "(" + strings.Join(parts, " ++ ") + ")"
}

func (it *Item) Coq() string {
	switch it.K {
	case KNil:
		return "INil"
	case KBool:
		return "(IBool " + vh.CoqBool(it.B) + ")"
	case KInt:
		return "(IInt " + coqZ(it.I) + ")"
	case KUint:
		return fmt.Sprintf("(IUint %d%%N)", it.U)
	case KF32:
		return fmt.Sprintf("(IF32 %d%%N)", it.U)
	case KF64:
		return fmt.Sprintf("(IF64 %d%%N)", it.U)
	case KStr:
		return "(IStr " + coqBytes(it.S) + ")"
	case KBytes:
		return "(IBytes " + coqBytes(it.S) + ")"
	case KExt:
		return fmt.Sprintf("(IExt %d%%N %s)", it.U, coqBytes(it.S))
	case KTime:
		return fmt.Sprintf("(ITime %s %d%%N)", coqZ(it.Sec), it.U)
	case KArr:
		if len(it.L) > 300 {
			same := true
			for _, x := range it.L {
				if x != it.L[0] {
					same = false
				}
			}
			if same {
				return fmt.Sprintf("(IArr (repeat %s (N.to_nat %d)))", it.L[0].Coq(), len(it.L))
			}
		}
		xs := make([]string, len(it.L))
		for i, x := range it.L {
			xs[i] = x.Coq()
		}
		return "(IArr [" + strings.Join(xs, "; ") + "])"
	case KMap:
		xs := make([]string, len(it.M))
		for i, kv := range it.M {
			xs[i] = "(" + kv[0].Coq() + ", " + kv[1].Coq() + ")"
		}
		return "(IMap [" + strings.Join(xs, "; ") + "])"
	}
	panic("kind")
}

func (it *Item) Depth() int {
	d := 0
	for _, x := range it.L {
		d = max(d, x.Depth())
	}
	for _, kv := range it.M {
		d = max(d, kv[0].Depth(), kv[1].Depth())
	}
	if it.K == KArr || it.K == KMap {
		return d + 1
	}
	return 0
}

// mbs encodes as a map with the entries in slice order (codec.MapBySlice).
type mbs []interface{}

func (mbs) MapBySlice() {}

var intBoundaries = []uint64{0, 1, 2, 127, 128, 254, 255, 256, 257, 32767, 32768, 65534, 65535, 65536, 65537,
	1<<31 - 1, 1 << 31, 1<<32 - 1, 1 << 32, 1<<32 + 1, 1<<53 - 1, 1 << 53, 1<<63 - 1, 1 << 63, 1<<63 + 1, 1<<64 - 2, 1<<64 - 1}

func randU64(r *vh.Rng) uint64 {
	switch r.Intn(4) {
	case 0:
		return intBoundaries[r.Intn(len(intBoundaries))]
	case 1:
		return r.U64() >> uint(r.Intn(64))
	case 2:
		return uint64(r.Intn(300))
	}
	return r.U64()
}

var lenBoundaries = []int{0, 1, 2, 23, 24, 31, 32, 254, 255, 256, 257, 65534, 65535, 65536, 65537}

func randLen(r *vh.Rng, big bool) int {
	if big {
		if r.Chance(1, 4) {
			return lenBoundaries[10+r.Intn(5)]
		}
		return lenBoundaries[7+r.Intn(4)]
	}
	if r.Chance(1, 8) {
		return lenBoundaries[r.Intn(7)]
	}
	return r.Intn(6)
}

func randBytes(r *vh.Rng, n int) []byte {
	if n > 200 { // long payloads: one repeated byte (printed as a run)
		return bytes.Repeat([]byte{byte(r.U64())}, n)
	}
	return r.Bytes(n)
}

func randScalar(r *vh.Rng, big bool) *Item {
	switch r.Intn(12) {
	case 0:
		return &Item{K: KNil}
	case 1:
		return &Item{K: KBool, B: r.Bool()}
	case 2, 3:
		u := randU64(r)
		v := int64(u)
		if r.Bool() && u <= 1<<63 {
			v = -int64(u)
		}
		return &Item{K: KInt, I: v, Flav: r.Intn(3)}
	case 4:
		return &Item{K: KUint, U: randU64(r), Flav: r.Intn(3)}
	case 5:
		b := uint64(uint32(r.U64()))
		switch r.Intn(6) {
		case 0:
			b = []uint64{0, 1 << 31, 0x7f800000, 0xff800000, 0x7fc00000, 0x7f800001, 1, 0x007fffff, 0x00800000, 0x3f800000}[r.Intn(10)]
		case 1:
			b = uint64(math.Float32bits(float32(r.Intn(2000)-1000) / 8))
		}
		return &Item{K: KF32, U: b}
	case 6:
		b := r.U64()
		switch r.Intn(6) {
		case 0:
			b = []uint64{0, 1 << 63, 0x7ff0000000000000, 0xfff0000000000000, 0x7ff8000000000001, 1, 0x3ff0000000000000}[r.Intn(7)]
		case 1:
			b = math.Float64bits(float64(r.Intn(2000)-1000) / 8)
		}
		return &Item{K: KF64, U: b}
	case 7, 8:
		return &Item{K: KStr, S: randBytes(r, randLen(r, big))}
	case 9:
		return &Item{K: KBytes, S: randBytes(r, randLen(r, big))}
	case 10:
		return &Item{K: KExt, U: uint64(r.Intn(256)), S: randBytes(r, randLen(r, big))}
	default:
		if r.Chance(1, 8) {
			return &Item{K: KTime, Sec: -62135596800, U: 0} // zero time
		}
		sec := int64(r.U64()>>uint(r.Intn(40))) % (1 << 40)
		if r.Bool() {
			sec = -sec
		}
		return &Item{K: KTime, Sec: sec, U: uint64(r.Intn(1000000000))}
	}
}

func randKey(r *vh.Rng) *Item {
	for {
		it := randScalar(r, false)
		switch it.K {
		case KExt, KTime, KNil:
			continue
		}
		return it
	}
}

// keyCanon: two keys with the same canon may compare equal once decoded (under any options).
func keyCanon(k *Item) string {
	switch k.K {
	case KBool:
		return fmt.Sprint("b", k.B)
	case KInt:
		return fmt.Sprint("n", uint64(k.I))
	case KUint:
		return fmt.Sprint("n", k.U)
	case KF32:
		return fmt.Sprint("f", math.Float64bits(float64(math.Float32frombits(uint32(k.U)))+0))
	case KF64:
		return fmt.Sprint("f", math.Float64bits(math.Float64frombits(k.U)+0))
	case KStr, KBytes:
		return "s" + string(k.S)
	}
	return "?" + k.Coq()
}

func randItem(r *vh.Rng, depth int, big bool) *Item {
	if depth <= 0 || r.Chance(3, 5) {
		return randScalar(r, big)
	}
	n := randLen(r, big)
	if r.Bool() {
		it := &Item{K: KArr, Flav: r.Intn(4)}
		if n > 300 {
			e := &Item{K: KNil}
			if r.Bool() {
				e = &Item{K: KUint, U: 7}
			}
			for i := 0; i < n; i++ {
				it.L = append(it.L, e)
			}
			return it
		}
		for i := 0; i < n; i++ {
			it.L = append(it.L, randItem(r, depth-1, false))
		}
		return it
	}
	it := &Item{K: KMap, Flav: r.Intn(3)}
	if n > 300 {
		n = 254 + r.Intn(4)
	}
	if n > 200 {
		for i := 0; i < n; i++ {
			it.M = append(it.M, [2]*Item{{K: KUint, U: uint64(i)}, {K: KBool, B: true}})
		}
		return it
	}
	seen := map[string]bool{}
	for i := 0; i < n; i++ {
		k := randKey(r)
		if seen[keyCanon(k)] {
			continue
		}
		seen[keyCanon(k)] = true
		it.M = append(it.M, [2]*Item{k, randItem(r, depth-1, false)})
	}
	return it
}

func fitsInt(v int64, bits uint) bool { return v >= -(1<<(bits-1)) && v < 1<<(bits-1) }

// Go builds the value handed to the Encoder. Flav picks typed variants where they exist.
func (it *Item) Go() interface{} {
	switch it.K {
	case KNil:
		return nil
	case KBool:
		return it.B
	case KInt:
		switch {
		case it.Flav == 1 && fitsInt(it.I, 8):
			return int8(it.I)
		case it.Flav == 1 && fitsInt(it.I, 32):
			return int32(it.I)
		case it.Flav == 2:
			return int(it.I)
		}
		return it.I
	case KUint:
		switch {
		case it.Flav == 1 && it.U < 1<<8:
			return uint8(it.U)
		case it.Flav == 1 && it.U < 1<<16:
			return uint16(it.U)
		case it.Flav == 2:
			return uint(it.U)
		}
		return it.U
	case KF32:
		return math.Float32frombits(uint32(it.U))
	case KF64:
		return math.Float64frombits(it.U)
	case KStr:
		return string(it.S)
	case KBytes:
		return append([]byte{}, it.S...)
	case KExt:
		return codec.RawExt{Tag: it.U, Data: append([]byte{}, it.S...)}
	case KTime:
		return time.Unix(it.Sec, int64(it.U)).UTC()
	case KArr:
		// typed slices when homogeneous
		if it.Flav == 1 && len(it.L) > 0 {
			k := it.L[0].K
			same := true
			for _, x := range it.L {
				if x.K != k {
					same = false
				}
			}
			if same {
				switch k {
				case KInt:
					out := make([]int64, len(it.L))
					for i, x := range it.L {
						out[i] = x.I
					}
					return out
				case KUint:
					out := make([]uint64, len(it.L))
					for i, x := range it.L {
						out[i] = x.U
					}
					return out
				case KStr:
					out := make([]string, len(it.L))
					for i, x := range it.L {
						out[i] = string(x.S)
					}
					return out
				case KBool:
					out := make([]bool, len(it.L))
					for i, x := range it.L {
						out[i] = x.B
					}
					return out
				case KF64:
					out := make([]float64, len(it.L))
					for i, x := range it.L {
						out[i] = math.Float64frombits(x.U)
					}
					return out
				}
			}
		}
		out := make([]interface{}, len(it.L))
		for i, x := range it.L {
			out[i] = x.Go()
		}
		if it.Flav == 2 && len(out) > 0 && len(out) <= 4 { // a Go array
			switch len(out) {
			case 1:
				return [1]interface{}{out[0]}
			case 2:
				return [2]interface{}{out[0], out[1]}
			}
		}
		return out
	case KMap:
		if len(it.M) <= 1 && it.Flav != 0 {
			if len(it.M) == 1 && it.M[0][0].K == KStr && it.Flav == 1 {
				return map[string]interface{}{string(it.M[0][0].S): it.M[0][1].Go()}
			}
			if len(it.M) == 1 && it.M[0][0].K == KBytes {
				// []byte is not a legal Go map key
			} else {
				m := map[interface{}]interface{}{}
				for _, kv := range it.M {
					m[kv[0].Go()] = kv[1].Go()
				}
				return m
			}
		}
		out := make(mbs, 0, 2*len(it.M))
		for _, kv := range it.M {
			out = append(out, kv[0].Go(), kv[1].Go())
		}
		return out
	}
	panic("kind")
}

// fromGo canonicalises what Decode(&interface{}) produced.
func fromGo(v interface{}) (*Item, error) {
	switch x := v.(type) {
	case nil:
		return &Item{K: KNil}, nil
	case bool:
		return &Item{K: KBool, B: x}, nil
	case int64:
		return &Item{K: KInt, I: x}, nil
	case uint64:
		return &Item{K: KUint, U: x}, nil
	case float64:
		return &Item{K: KF64, U: math.Float64bits(x)}, nil
	case string:
		return &Item{K: KStr, S: []byte(x)}, nil
	case []byte:
		return &Item{K: KBytes, S: x}, nil
	case codec.RawExt:
		return &Item{K: KExt, U: x.Tag, S: x.Data}, nil
	case time.Time:
		return &Item{K: KTime, Sec: x.Unix(), U: uint64(x.Nanosecond())}, nil
	case []interface{}:
		it := &Item{K: KArr}
		for _, e := range x {
			c, err := fromGo(e)
			if err != nil {
				return nil, err
			}
			it.L = append(it.L, c)
		}
		return it, nil
	case map[interface{}]interface{}:
		it := &Item{K: KMap}
		for k, e := range x {
			ck, err := fromGo(k)
			if err != nil {
				return nil, err
			}
			cv, err := fromGo(e)
			if err != nil {
				return nil, err
			}
			it.M = append(it.M, [2]*Item{ck, cv})
		}
		sort.Slice(it.M, func(i, j int) bool { return it.M[i][0].Coq() < it.M[j][0].Coq() })
		return it, nil
	}
	return nil, fmt.Errorf("unexpected decoded type %T", v)
}

// normItem is what an item reads back as under default decode options (the property's own
// round-trip oracle, applied to the implementation; the Coq model has its own [norm]).
func normItem(it *Item, o eopts, key bool) *Item {
	zn := o.zeroAsNil && !key
	switch it.K {
	case KBool:
		if zn && !it.B {
			return &Item{K: KNil}
		}
	case KInt:
		if it.I >= 0 {
			if zn && it.I == 0 {
				return &Item{K: KNil}
			}
			return &Item{K: KUint, U: uint64(it.I)}
		}
	case KUint:
		if zn && it.U == 0 {
			return &Item{K: KNil}
		}
	case KF32:
		f := math.Float32frombits(uint32(it.U))
		if zn && f == 0 {
			return &Item{K: KNil}
		}
		return &Item{K: KF64, U: math.Float64bits(float64(f))}
	case KF64:
		if zn && math.Float64frombits(it.U) == 0 {
			return &Item{K: KNil}
		}
	case KStr:
		if zn && len(it.S) == 0 {
			return &Item{K: KNil}
		}
		if o.stringToRaw && !key {
			return &Item{K: KBytes, S: it.S}
		}
	case KBytes:
		if key {
			return &Item{K: KStr, S: it.S}
		}
	case KTime:
		if it.Sec == -62135596800 && it.U == 0 {
			return &Item{K: KNil}
		}
	case KArr:
		out := &Item{K: KArr}
		for _, x := range it.L {
			out.L = append(out.L, normItem(x, o, false))
		}
		return out
	case KMap:
		out := &Item{K: KMap}
		for _, kv := range it.M {
			out.M = append(out.M, [2]*Item{normItem(kv[0], o, true), normItem(kv[1], o, false)})
		}
		sort.Slice(out.M, func(i, j int) bool { return out.M[i][0].Coq() < out.M[j][0].Coq() })
		return out
	}
	return it
}

func minWidth(v uint64) int {
	switch {
	case v <= math.MaxUint8:
		return 1
	case v <= math.MaxUint16:
		return 2
	case v <= math.MaxUint32:
		return 4
	}
	return 8
}

// shortestForm: the documented format writes integers and lengths in the smallest of 1/2/4/8 bytes.
// Returns the expected total length of a top-level scalar's encoding, or -1 when not applicable.
func shortestForm(it *Item, o eopts) int {
	switch it.K {
	case KInt:
		if it.I == 0 && o.zeroAsNil {
			return 1
		}
		if it.I < 0 {
			return 1 + minWidth(uint64(-it.I))
		}
		return 1 + minWidth(uint64(it.I))
	case KUint:
		if it.U == 0 && o.zeroAsNil {
			return 1
		}
		return 1 + minWidth(it.U)
	case KStr, KBytes:
		if len(it.S) == 0 {
			return 1
		}
		return 1 + minWidth(uint64(len(it.S))) + len(it.S)
	case KExt:
		if len(it.S) == 0 {
			return 2
		}
		return 2 + minWidth(uint64(len(it.S))) + len(it.S)
	}
	return -1
}

// ---------------------------------------------------------------- options

type eopts struct{ zeroAsNil, stringToRaw bool }
type dopts struct {
	signed, rawToString bool
	maxDepth            int
}

func (o eopts) Coq() string {
	return fmt.Sprintf("(mkeopts %s %s)", vh.CoqBool(o.zeroAsNil), vh.CoqBool(o.stringToRaw))
}
func (o dopts) Coq() string {
	return fmt.Sprintf("(mkdopts %s %s %s)", vh.CoqBool(o.signed), vh.CoqBool(o.rawToString), coqZ(int64(o.maxDepth)))
}
func (o eopts) String() string {
	return fmt.Sprintf("EncZeroValuesAsNil=%v StringToRaw=%v", o.zeroAsNil, o.stringToRaw)
}
func (o dopts) String() string {
	return fmt.Sprintf("SignedInteger=%v RawToString=%v MaxDepth=%d", o.signed, o.rawToString, o.maxDepth)
}

func encHandle(o eopts) *codec.SimpleHandle {
	h := &codec.SimpleHandle{}
	h.EncZeroValuesAsNil = o.zeroAsNil
	h.StringToRaw = o.stringToRaw
	return h
}

func decHandle(o dopts) *codec.SimpleHandle {
	h := &codec.SimpleHandle{}
	h.SignedInteger = o.signed
	h.RawToString = o.rawToString
	h.MaxDepth = int16(o.maxDepth)
	return h
}

func randDopts(r *vh.Rng) dopts {
	o := dopts{signed: r.Chance(1, 3), rawToString: r.Chance(1, 4)}
	if r.Chance(1, 3) {
		o.maxDepth = r.PickInt(1, 2, 3, 4, 5, 8, -1, 1024)
	}
	return o
}

// ---------------------------------------------------------------- running the implementation

const (
	clsOK    = 0
	clsEOF   = 1
	clsDesc  = 2
	clsOvf   = 3
	clsDepth = 4
	clsOther = 8
	clsHang  = 100
	clsFatal = 101
)

func errClass(err error) int {
	if err == nil {
		return clsOK
	}
	if errors.Is(err, io.ErrUnexpectedEOF) || errors.Is(err, io.EOF) {
		return clsEOF
	}
	m := err.Error()
	switch {
	case strings.Contains(m, "out of bounds with capacity"):
		return clsEOF
	case strings.Contains(m, "maximum decoding depth exceeded"):
		return clsDepth
	case strings.Contains(m, "unrecognized descriptor byte"):
		return clsDesc
	case strings.Contains(m, "overflow"):
		return clsOvf
	}
	return clsOther
}

type outcome struct {
	cls     int
	numread int
	val     interface{}
	raw     []byte
	panicv  string
}

var hangs int

// watchdog runs f in a goroutine; a run that does not finish in time is a hang
// (the goroutine is abandoned).
func watchdog(f func() outcome, d time.Duration) outcome {
	ch := make(chan outcome, 1)
	go func() {
		defer func() {
			if p := recover(); p != nil {
				ch <- outcome{cls: clsFatal, panicv: fmt.Sprint(p)}
			}
		}()
		ch <- f()
	}()
	select {
	case o := <-ch:
		return o
	case <-time.After(d):
		hangs++
		return outcome{cls: clsHang}
	}
}

const wdTimeout = 4 * time.Second

func realDecNaked(o dopts, in []byte) outcome {
	return watchdog(func() outcome {
		var v interface{}
		d := codec.NewDecoderBytes(in, decHandle(o))
		err := d.Decode(&v)
		return outcome{cls: errClass(err), numread: d.NumBytesRead(), val: v, panicv: fmt.Sprint(err)}
	}, wdTimeout)
}

func realRaw(o dopts, in []byte) outcome {
	return watchdog(func() outcome {
		var v codec.Raw
		d := codec.NewDecoderBytes(in, decHandle(o))
		err := d.Decode(&v)
		return outcome{cls: errClass(err), numread: d.NumBytesRead(), raw: []byte(v)}
	}, wdTimeout)
}

type oneField struct{ A int }

// {"x": <value>} as simple bytes: map of 1, key string "x"
var unknownKeyPrefix = []byte{0xf1, 0x01, 0xd9, 0x01, 0x78}

func realSwallow(o dopts, value []byte) outcome {
	in := append(append([]byte{}, unknownKeyPrefix...), value...)
	return watchdog(func() outcome {
		var v oneField
		d := codec.NewDecoderBytes(in, decHandle(o))
		err := d.Decode(&v)
		return outcome{cls: errClass(err), numread: d.NumBytesRead()}
	}, wdTimeout)
}

// ---------------------------------------------------------------- streams

type ctx struct {
	r   *vh.Rng
	sum *vh.Summary
	cv  *vh.Cases
	id  int
}

func (c *ctx) add(term string) {
	c.cv.Add(term)
	c.sum.ModelCases++
}

func (c *ctx) next() int { c.id++; return c.id }

func shortHex(b []byte) string {
	if len(b) > 200 {
		return hex.EncodeToString(b[:200]) + fmt.Sprintf("...(%d bytes)", len(b))
	}
	return hex.EncodeToString(b)
}

func firstDesc(b []byte) string {
	if len(b) == 0 {
		return "empty"
	}
	return fmt.Sprintf("%02x", b[0])
}

// decCase runs Decode(&interface{}) on in and records the observation.
func (c *ctx) decCase(stream string, o dopts, in []byte, label string) outcome {
	out := realDecNaked(o, in)
	cj := map[string]interface{}{"input": shortHex(in), "opts": o.String(), "label": label}
	switch out.cls {
	case clsHang:
		c.sum.FailC(stream, "decode-naked:hang:"+label, "Decode into interface{} did not return within the watchdog timeout", cj)
	case clsFatal:
		cj["panic"] = out.panicv
		c.sum.FailC(stream, "decode-naked:panic-escaped:"+label, "a panic escaped Decode", cj)
	}
	tree := "INil"
	if out.cls == clsOK {
		t, err := fromGo(out.val)
		if err != nil {
			c.sum.FailC(stream, "decode-naked:unexpected-type", "Decode into interface{} produced a value outside the naked type set", cj)
		} else {
			tree = t.Coq()
		}
		if out.numread < 0 || out.numread > len(in) {
			c.sum.FailC(stream, "decode-naked:numread-out-of-range", "NumBytesRead outside [0,len(input)] after a successful Decode", cj)
		}
	}
	nr := out.numread
	if out.cls != clsOK || nr < 0 {
		nr = 0
	}
	id := c.next()
	c.add(fmt.Sprintf("CDec %d %s %s %d %d %s", id, o.Coq(), vh.CoqBytes(in), out.cls, nr, tree))
	key := fmt.Sprintf("%s/%s/cls%d/len%d", stream, firstDesc(in), out.cls, min(len(in), 40))
	if len(in) <= 1 {
		key = ""
	}
	c.sum.Count(fmt.Sprintf("%s.cls%d", stream, out.cls), key)
	return out
}

// skipCase runs Decode(&Raw) and the unknown-struct-field swallow on in.
func (c *ctx) skipCase(stream string, o dopts, in []byte, label string) (outcome, outcome) {
	cj := map[string]interface{}{"input": shortHex(in), "label": label, "opts": o.String()}
	raw := realRaw(o, in)
	if raw.cls == clsHang {
		c.sum.FailC(stream, "nextValueBytes:hang:"+label, "Decode into Raw (nextValueBytes) did not return within the watchdog timeout", cj)
	} else if raw.cls == clsFatal {
		cj["panic"] = raw.panicv
		c.sum.FailC(stream, "nextValueBytes:panic-escaped:"+label, "a panic escaped Decode into Raw", cj)
	}
	nr := raw.numread
	if raw.cls != clsOK || nr < 0 {
		nr = 0
	}
	id := c.next()
	c.add(fmt.Sprintf("CSkip %d %s 0%%Z [] %s %d %d true %s", id, o.Coq(), vh.CoqBytes(in), raw.cls, nr, vh.CoqBytes(raw.raw)))
	c.sum.Count(fmt.Sprintf("%s.raw.cls%d", stream, raw.cls), fmt.Sprintf("%s/raw/%s/cls%d/len%d", stream, firstDesc(in), raw.cls, min(len(in), 40)))

	sw := realSwallow(o, in)
	if o.maxDepth == 1 {
		// the enclosing struct itself exceeds MaxDepth=1: not a statement about the skipped value
		return raw, sw
	}
	if sw.cls == clsHang {
		c.sum.FailC(stream, "swallow:hang:"+label, "Decode of a struct with an unknown key did not return within the watchdog timeout", cj)
	} else if sw.cls == clsFatal {
		cj["panic"] = sw.panicv
		c.sum.FailC(stream, "swallow:panic-escaped:"+label, "a panic escaped Decode of a struct with an unknown key", cj)
	}
	nr = sw.numread
	if sw.cls != clsOK || nr < 0 {
		nr = 0
	}
	id = c.next()
	c.add(fmt.Sprintf("CSkip %d %s 1%%Z %s %s %d %d false []", id, o.Coq(), vh.CoqBytes(unknownKeyPrefix), vh.CoqBytes(in), sw.cls, nr))
	c.sum.Count(fmt.Sprintf("%s.swallow.cls%d", stream, sw.cls), fmt.Sprintf("%s/sw/%s/cls%d/len%d", stream, firstDesc(in), sw.cls, min(len(in), 40)))
	return raw, sw
}

// boundary sweep: every integer boundary (both signs, both Go kinds) and every length boundary
func (c *ctx) boundaryItems() []*Item {
	var out []*Item
	for _, u := range intBoundaries {
		out = append(out, &Item{K: KUint, U: u})
		if u <= 1<<63-1 {
			out = append(out, &Item{K: KInt, I: int64(u)})
		}
		if u <= 1<<63 && u > 0 {
			out = append(out, &Item{K: KInt, I: -int64(u)})
		}
	}
	for _, n := range []int{0, 1, 255, 256, 65535, 65536} {
		b := bytes.Repeat([]byte{0x41}, n)
		out = append(out, &Item{K: KStr, S: b}, &Item{K: KBytes, S: b}, &Item{K: KExt, U: 9, S: b})
		arr := &Item{K: KArr}
		e := &Item{K: KNil}
		for i := 0; i < n; i++ {
			arr.L = append(arr.L, e)
		}
		out = append(out, arr)
		if n <= 256 {
			m := &Item{K: KMap}
			for i := 0; i < n; i++ {
				m.M = append(m.M, [2]*Item{{K: KUint, U: uint64(i)}, {K: KBool, B: true}})
			}
			out = append(out, m)
		}
	}
	return out
}

func (c *ctx) encStream(n int) [][]byte {
	var encs [][]byte
	bnd := c.boundaryItems()
	for i := 0; i < n+len(bnd); i++ {
		big := i%12 == 0
		var it *Item
		if i >= n {
			it = bnd[i-n]
		} else {
			it = randItem(c.r, 3, big)
		}
		if i >= n {
		} else if big {
			for it.K == KNil || it.K == KBool || it.K == KInt || it.K == KUint || it.K == KF32 || it.K == KF64 || it.K == KTime {
				it = randItem(c.r, 3, big)
			}
		} else if c.r.Chance(1, 4) { // make sure containers are frequent at the top
			it = randItem(c.r, 4, false)
			for it.K != KArr && it.K != KMap {
				it = randItem(c.r, 4, false)
			}
		}
		o := eopts{zeroAsNil: c.r.Chance(1, 3), stringToRaw: c.r.Chance(1, 4)}
		var out []byte
		gv := it.Go()
		err := codec.NewEncoderBytes(&out, encHandle(o)).Encode(gv)
		cj := map[string]interface{}{"item": it.Coq(), "opts": o.String(), "gotype": fmt.Sprintf("%T", gv), "seed_index": i}
		if len(cj["item"].(string)) > 400 {
			cj["item"] = cj["item"].(string)[:400] + "..."
		}
		if err != nil {
			c.sum.FailC("enc", "encode:error", "Encode of a supported value returned an error", cj)
			continue
		}
		cj["bytes"] = shortHex(out)
		if want := shortestForm(it, o); want >= 0 && want != len(out) {
			cj["want_len"] = want
			cj["got_len"] = len(out)
			c.sum.FailC("enc", "encode:width", "an integer or length was not written in the smallest of the 1/2/4/8-byte forms", cj)
		}
		id := c.next()
		c.add(fmt.Sprintf("CEnc %d %s %s %s", id, o.Coq(), it.Coq(), coqBytes(out)))
		// direct oracles (C01/C11 at the wire level): decode and raw-capture consume exactly the encoding
		tail := c.r.Bytes(c.r.Intn(4))
		in := append(append([]byte{}, out...), tail...)
		do := dopts{}
		dn := realDecNaked(do, in)
		if it.Depth() < 1024 {
			if dn.cls != clsOK {
				cj["errcls"] = dn.cls
				cj["err"] = dn.panicv
				c.sum.FailC("enc", "roundtrip:decode-error", "decoding an encoding into interface{} failed", cj)
			} else if dn.numread != len(out) {
				cj["numread"] = dn.numread
				c.sum.FailC("enc", "roundtrip:extent", "Decode(&interface{}) consumed a different number of bytes than were encoded", cj)
			} else if got, err := fromGo(dn.val); err == nil && len(out) < 5000 {
				if want := normItem(it, o, false).Coq(); got.Coq() != want {
					g := got.Coq()
					if len(g) > 400 {
						g = g[:400] + "..."
					}
					cj["decoded"] = g
					c.sum.FailC("enc", "roundtrip:value", "the decoded value differs from the encoded one beyond the documented normalisation", cj)
				}
			}
		}
		rw := realRaw(do, in)
		if rw.cls != clsOK || !bytes.Equal(rw.raw, out) || rw.numread != len(out) {
			cj["raw"] = shortHex(rw.raw)
			cj["rawcls"] = rw.cls
			c.sum.FailC("enc", "raw:extent", "Decode(&Raw) of an encoding did not capture exactly the encoded bytes", cj)
		}
		sw := realSwallow(do, in[:len(out)])
		if sw.cls != clsOK || sw.numread != len(unknownKeyPrefix)+len(out) {
			cj["swcls"] = sw.cls
			cj["swnumread"] = sw.numread
			c.sum.FailC("enc", "swallow:extent", "skipping an encoding as an unknown struct field did not end where the encoding ends", cj)
		}
		key := fmt.Sprintf("enc/%T/%v/len%d/depth%d", gv, o, min(len(out), 300)/4, it.Depth())
		if len(out) <= 1 {
			key = ""
		}
		c.sum.Count("enc", key)
		c.sum.Dist[fmt.Sprintf("enc.depth%d", it.Depth())]++
		switch {
		case len(out) > 65536:
			c.sum.Dist["enc.len>64k"]++
		case len(out) > 256:
			c.sum.Dist["enc.len>256"]++
		}
		if i < 2 {
			c.sum.Sample(cj)
		}
		if len(out) <= 400 {
			encs = append(encs, out)
		}
	}
	return encs
}

var interesting = []byte{1, 2, 3, 4, 5, 8, 9, 10, 11, 12, 13, 14, 15, 24, 216, 217, 218, 219, 220, 221, 224, 225, 226, 227, 228,
	232, 233, 234, 235, 236, 237, 240, 241, 242, 243, 244, 248, 249, 250, 251, 252, 253, 0, 255, 128, 127, 0x80, 15, 16}

func mutate(r *vh.Rng, b []byte) ([]byte, string) {
	out := append([]byte{}, b...)
	if len(out) == 0 {
		return out, "empty"
	}
	switch r.Intn(7) {
	case 0: // truncation
		return out[:r.Intn(len(out))], "truncate"
	case 1: // descriptor / byte replaced by an interesting byte
		out[r.Intn(len(out))] = interesting[r.Intn(len(interesting))]
		return out, "setdesc"
	case 2: // bump a byte by +-1 (length or width change)
		i := r.Intn(len(out))
		if r.Bool() {
			out[i]++
		} else {
			out[i]--
		}
		return out, "bump"
	case 3: // first byte (top descriptor) width change
		out[0] = out[0] ^ byte(1<<uint(r.Intn(3)))
		return out, "flipdesc"
	case 4: // insert a byte
		i := r.Intn(len(out) + 1)
		out = append(out[:i], append([]byte{interesting[r.Intn(len(interesting))]}, out[i:]...)...)
		return out, "insert"
	case 5: // delete a byte
		i := r.Intn(len(out))
		return append(out[:i], out[i+1:]...), "delete"
	default: // random byte
		out[r.Intn(len(out))] = byte(r.U64())
		return out, "randbyte"
	}
}

func randHostile(r *vh.Rng) []byte {
	n := r.Intn(24)
	b := make([]byte, n)
	for i := range b {
		switch r.Intn(4) {
		case 0:
			b[i] = byte(r.U64())
		case 1:
			b[i] = byte(r.Intn(4))
		default:
			b[i] = interesting[r.Intn(len(interesting))]
		}
	}
	return b
}

// crafted length fields: 8-byte lengths at the int / MinInt32 / wrap boundaries
func crafted() [][]byte {
	var out [][]byte
	lens := [][]byte{
		{0xff, 0xff, 0xff, 0xff, 0x80, 0, 0, 0},                   // int == math.MinInt32 == containerLenNil
		{0xff, 0xff, 0xff, 0xff, 0xff, 0xff, 0xff, 0xff},          // -1
		{0x80, 0, 0, 0, 0, 0, 0, 0},                               // MinInt64
		{0x7f, 0xff, 0xff, 0xff, 0xff, 0xff, 0xff, 0xff},          // MaxInt64
		{0, 0, 0, 0, 0, 0, 0, 2},                                  // 2
		{0, 0, 0, 1, 0, 0, 0, 0},                                  // 2^32
		{0xff, 0xff, 0xff, 0xff, 0xff, 0xff, 0xff, 0xf7},          // wraps the cursor back by 9
		{0xff, 0xff, 0xff, 0xff, 0xff, 0xff, 0xff, 0xf0},
	}
	for _, bd := range []byte{220, 228, 236, 244, 252} {
		for _, l := range lens {
			for _, tail := range [][]byte{{}, {1}, {1, 1, 1}, {8, 5, 8, 6, 1, 1, 1, 1, 1, 1, 1, 1}} {
				b := append([]byte{bd}, l...)
				b = append(b, tail...)
				out = append(out, b)
			}
		}
	}
	// 4-byte lengths
	for _, bd := range []byte{219, 227, 235, 243, 251} {
		for _, l := range [][]byte{{0xff, 0xff, 0xff, 0xff}, {0x80, 0, 0, 0}, {0, 0, 0, 1}, {0, 1, 0, 0}} {
			b := append([]byte{bd}, l...)
			out = append(out, append(b, 1, 1, 1))
		}
	}
	// integers at the sign boundary
	for _, bd := range []byte{11, 15} {
		for _, v := range [][]byte{{0x80, 0, 0, 0, 0, 0, 0, 0}, {0x80, 0, 0, 0, 0, 0, 0, 5}, {0x7f, 0xff, 0xff, 0xff, 0xff, 0xff, 0xff, 0xff},
			{0xff, 0xff, 0xff, 0xff, 0xff, 0xff, 0xff, 0xff}, {0xff, 0xff, 0xff, 0xff, 0xff, 0xff, 0xff, 0xfe}} {
			out = append(out, append([]byte{bd}, v...))
		}
	}
	// time payloads
	tm := []byte{24, 15, 1, 0, 0, 0, 14, 0xd0, 0x2a, 0x35, 0x10, 0x05, 0xf5, 0xe1, 0x00, 0xff, 0xff}
	out = append(out, tm)
	for _, e := range [][2]int{{1, 14}, {1, 16}, {2, 2}, {2, 0}, {2, 3}, {1, 0}, {11, 0x40}, {11, 0x80}} {
		t2 := append([]byte{}, tm...)
		t2[e[0]] = byte(e[1])
		out = append(out, append(t2, 0xff))
	}
	// map keys: duplicate, unhashable, bytes, nil
	out = append(out,
		[]byte{0xf1, 0x02, 8, 1, 3, 8, 1, 2},             // duplicate uint key
		[]byte{0xf1, 0x01, 0xe8, 3},                      // array key
		[]byte{0xf1, 0x01, 0xf0, 3},                      // map key
		[]byte{0xf1, 0x01, 0xf8, 7, 3},                   // ext key
		[]byte{0xf1, 0x02, 0xe1, 1, 0x61, 2, 0xd9, 1, 0x61, 3}, // bytes key "a" then string key "a"
		[]byte{0xf1, 0x02, 1, 2, 1, 3},                   // nil keys
		[]byte{0xf1, 0x02, 5, 0, 0, 0, 0, 0, 0, 0, 0, 2, 5, 0x80, 0, 0, 0, 0, 0, 0, 0, 3}, // +0.0 and -0.0 keys
		[]byte{0xf1, 0x02, 5, 0x7f, 0xf8, 0, 0, 0, 0, 0, 1, 2, 5, 0x7f, 0xf8, 0, 0, 0, 0, 0, 1, 3}, // NaN keys
		[]byte{0xf1, 0x01, 0xe8, 0xe9}, // unhashable key, then EOF in the value
	)
	return out
}

func (c *ctx) decAndSkip(stream string, in []byte, label string, o dopts) {
	c.decCase(stream, o, in, label)
	c.skipCase(stream, o, in, label)
}

func (c *ctx) hostileStreams(encs [][]byte, nValid, nMut, nRand int) {
	// valid encodings under random decode options, with a tail
	for i := 0; i < nValid && len(encs) > 0; i++ {
		e := encs[c.r.Intn(len(encs))]
		in := append(append([]byte{}, e...), c.r.Bytes(c.r.Intn(3))...)
		c.decAndSkip("valid", in, "valid", randDopts(c.r))
	}
	for i := 0; i < nMut && len(encs) > 0; i++ {
		e := encs[c.r.Intn(len(encs))]
		in, how := mutate(c.r, e)
		if c.r.Chance(1, 3) {
			in, _ = mutate(c.r, in)
		}
		c.decAndSkip("mutated", in, how, randDopts(c.r))
		c.sum.Dist["mutated."+how]++
		if hangs > 3 {
			return
		}
	}
	for i := 0; i < nRand; i++ {
		c.decAndSkip("random", randHostile(c.r), "random", randDopts(c.r))
		if hangs > 3 {
			return
		}
	}
	for _, in := range crafted() {
		o := dopts{}
		c.decAndSkip("crafted", in, "crafted", o)
		c.decCase("crafted", dopts{signed: true, rawToString: true, maxDepth: 2}, in, "crafted")
		if hangs > 3 {
			return
		}
	}
}

// all 256 first bytes x tails, through all three consumers
func (c *ctx) firstByteStream() {
	tails := [][]byte{{}, {1}, {2, 1, 1, 1, 1, 1, 1, 1, 1, 1, 1, 1, 1, 1, 1, 1, 1, 1},
		{0, 0, 0, 0, 0, 0, 0, 3, 1, 1, 1, 1, 1, 1}, {15, 1, 0, 0, 0, 0, 0, 0, 0, 9, 0, 0, 0, 7, 0xff, 0xff, 1, 1}, {0xff, 0xff, 0xff, 0xff}}
	for b := 0; b < 256; b++ {
		for ti, tail := range tails {
			in := append([]byte{byte(b)}, tail...)
			o := dopts{signed: ti%2 == 1, rawToString: ti%3 == 1}
			c.decAndSkip("first", in, "firstbyte", o)
		}
	}
}

// ---------------------------------------------------------------- deep nesting (subprocess)

func rep(pat []byte, n int) []byte { return bytes.Repeat(pat, n) }

type deepCase struct {
	name   string
	mode   string // naked | swallow | raw
	in     []byte
	opts   dopts
	class  string
	what   string
	expect []int // acceptable outcome classes
}

func childMain(mode string, maxDepth int, path string) {
	debug.SetMaxStack(64 << 20)
	in, err := os.ReadFile(path)
	if err != nil {
		fmt.Println("CHILD readerr")
		os.Exit(3)
	}
	o := dopts{maxDepth: maxDepth}
	var cls, nr int
	switch mode {
	case "naked":
		var v interface{}
		d := codec.NewDecoderBytes(in, decHandle(o))
		cls = errClass(d.Decode(&v))
		nr = d.NumBytesRead()
	case "raw":
		var v codec.Raw
		d := codec.NewDecoderBytes(in, decHandle(o))
		cls = errClass(d.Decode(&v))
		nr = d.NumBytesRead()
	case "swallow":
		var v oneField
		d := codec.NewDecoderBytes(in, decHandle(o))
		cls = errClass(d.Decode(&v))
		nr = d.NumBytesRead()
	}
	fmt.Printf("CHILD %d %d\n", cls, nr)
}

func runChild(dir string, dc deepCase, timeout time.Duration) (cls int, nr int, note string) {
	p := dir + "/deep_" + dc.name + ".bin"
	os.MkdirAll(dir, 0o755)
	if err := os.WriteFile(p, dc.in, 0o644); err != nil {
		return clsFatal, 0, "cannot write input"
	}
	defer os.Remove(p)
	cmd := exec.Command(os.Args[0], "-child", dc.mode, "-childdepth", fmt.Sprint(dc.opts.maxDepth), "-childfile", p)
	var ob bytes.Buffer
	cmd.Stdout = &ob
	cmd.Stderr = io.Discard
	if err := cmd.Start(); err != nil {
		return clsFatal, 0, "cannot start child"
	}
	done := make(chan error, 1)
	go func() { done <- cmd.Wait() }()
	select {
	case err := <-done:
		for _, l := range strings.Split(ob.String(), "\n") {
			if strings.HasPrefix(l, "CHILD ") {
				fmt.Sscanf(l, "CHILD %d %d", &cls, &nr)
				return cls, nr, ""
			}
		}
		return clsFatal, 0, fmt.Sprintf("process died: %v", err)
	case <-time.After(timeout):
		cmd.Process.Kill()
		<-done
		return clsHang, 0, "killed after timeout"
	}
}

func (c *ctx) deepStream(dir string, big int) {
	arr1 := []byte{0xe9, 0x01}                                     // array of 1
	map1k := []byte{0xf1, 0x01}                                    // map of 1, nesting in the key
	sent := []byte{0xec, 0xff, 0xff, 0xff, 0xff, 0x80, 0, 0, 0}    // array, length int == containerLenNil
	sentm := []byte{0xf4, 0xff, 0xff, 0xff, 0xff, 0x80, 0, 0, 0}   // map, same
	wrap := []byte{0xec, 0xff, 0xff, 0xff, 0xff, 0xff, 0xff, 0xff, 0xff, 0xe4, 0xff, 0xff, 0xff, 0xff, 0xff, 0xff, 0xff, 0xf7}
	cases := []deepCase{
		// legitimate: depth below the bound decodes, at the bound errors -- on every path that accounts
		{name: "naked_arr_1000", mode: "naked", in: append(rep(arr1, 1000), 1), expect: []int{clsOK}},
		{name: "naked_arr_1024", mode: "naked", in: append(rep(arr1, 1024), 1), expect: []int{clsDepth}},
		{name: "naked_arr_big", mode: "naked", in: append(rep(arr1, big), 1), expect: []int{clsDepth}},
		{name: "naked_mapkey_big", mode: "naked", in: append(rep(map1k, big), 1), expect: []int{clsDepth}},
		{name: "naked_arr_md5", mode: "naked", in: append(rep(arr1, 5), 1), opts: dopts{maxDepth: 5}, expect: []int{clsDepth}},
		{name: "naked_arr_md5ok", mode: "naked", in: append(rep(arr1, 4), 1), opts: dopts{maxDepth: 5}, expect: []int{clsOK}},
		// F14-1: the skip walker has no depth accounting
		{name: "swallow_arr_2000", mode: "swallow", in: append(append(append([]byte{}, unknownKeyPrefix...), rep(arr1, 2000)...), 1),
			class: "skip-walker:no-depth-accounting:array", what: "a value nested deeper than MaxDepth was skipped without a depth error", expect: []int{clsDepth}},
		{name: "raw_arr_2000", mode: "raw", in: append(rep(arr1, 2000), 1),
			class: "skip-walker:no-depth-accounting:array", what: "a value nested deeper than MaxDepth was skipped without a depth error", expect: []int{clsDepth}},
		{name: "swallow_arr_big", mode: "swallow", in: append(append(append([]byte{}, unknownKeyPrefix...), rep(arr1, big)...), 1),
			class: "skip-walker:no-depth-accounting:array", what: "skipping a deeply nested value killed the process or was not refused", expect: []int{clsDepth}},
		{name: "raw_map_big", mode: "raw", in: append(rep(map1k, big), 1),
			class: "skip-walker:no-depth-accounting:map", what: "skipping a deeply nested value killed the process or was not refused", expect: []int{clsDepth}},
		// F14-3: length == containerLenNil skips depthIncr
		{name: "naked_sentinel_arr_2000", mode: "naked", in: rep(sent, 2000),
			class: "containerLenNil-sentinel:array", what: "containers whose length truncates to math.MinInt32 nest without depth accounting", expect: []int{clsDepth, clsOvf}},
		{name: "naked_sentinel_arr_big", mode: "naked", in: rep(sent, big/4),
			class: "containerLenNil-sentinel:array", what: "containers whose length truncates to math.MinInt32 nest without depth accounting", expect: []int{clsDepth, clsOvf}},
		{name: "naked_sentinel_map_big", mode: "naked", in: rep(sentm, big/4),
			class: "containerLenNil-sentinel:map", what: "containers whose length truncates to math.MinInt32 nest without depth accounting", expect: []int{clsDepth, clsOvf}},
		// F02-1 input class for simple: a crafted 64-bit length makes bytesDecReader.skip move the cursor backwards
		{name: "raw_wrap", mode: "raw", in: wrap,
			class: "bytesDecReader.skip:uint-wrap", what: "a crafted 64-bit length made skipping a value loop or succeed instead of failing with EOF", expect: []int{clsEOF}},
		{name: "swallow_wrap", mode: "swallow", in: append(append([]byte{}, unknownKeyPrefix...), wrap...),
			class: "bytesDecReader.skip:uint-wrap", what: "a crafted 64-bit length made skipping a value loop or succeed instead of failing with EOF", expect: []int{clsEOF}},
	}
	for _, dc := range cases {
		to := 20 * time.Second
		if dc.class == "bytesDecReader.skip:uint-wrap" {
			to = 5 * time.Second
		}
		cls, nr, note := runChild(dir, dc, to)
		ok := false
		for _, e := range dc.expect {
			if cls == e {
				ok = true
			}
		}
		c.sum.Count(fmt.Sprintf("deep.cls%d", cls), "deep/"+dc.name)
		if !ok {
			class, what := dc.class, dc.what
			if class == "" {
				class, what = "deep:"+dc.name, "nesting at a legitimate depth was not handled as the depth bound prescribes"
			}
			outc := map[int]string{clsOK: "ok", clsHang: "hang", clsFatal: "process-death", clsEOF: "eof", clsDepth: "depth-error", clsDesc: "bad-descriptor", clsOther: "other-error", clsOvf: "overflow"}[cls]
			c.sum.FailC("deep", class, what, map[string]interface{}{"name": dc.name, "mode": dc.mode, "input_len": len(dc.in), "input_head": shortHex(dc.in[:min(len(dc.in), 40)]),
				"outcome": outc, "numread": nr, "note": note, "maxdepth": dc.opts.maxDepth})
		}
	}
}

func main() {
	nEnc := flag.Int("enc", 400, "encoder cases")
	nValid := flag.Int("valid", 150, "valid encodings decoded under random options")
	nMut := flag.Int("mut", 300, "mutated encodings")
	nRand := flag.Int("rand", 300, "raw random inputs")
	big := flag.Int("big", 3000000, "nesting depth of the deep cases")
	noDeep := flag.Bool("nodeep", false, "skip the subprocess stream")
	cases := flag.String("cases", "/verif/build/wsimple/cases_wiresimple", "directory for the model case files")
	child := flag.String("child", "", "(internal) child mode")
	childDepth := flag.Int("childdepth", 0, "(internal)")
	childFile := flag.String("childfile", "", "(internal)")
	flag.Parse()
	if *child != "" {
		childMain(*child, *childDepth, *childFile)
		return
	}
	seed := vh.SeedFromEnv()
	r := vh.NewRng(seed)
	sum := vh.NewSummary("enc: random item trees (ints/lengths at 255/256, 65535/65536, 2^32, 2^63 boundaries; typed and interface{} Go values; EncZeroValuesAsNil x StringToRaw) -> real Encoder bytes vs model enc, plus direct extent oracles (decode / Raw / unknown-field skip consume exactly the encoding). valid/mutated/random/crafted/first: inputs through Decode(&interface{}) (outcome class, canonical tree, NumBytesRead vs dec_naked), Decode(&Raw) and unknown-struct-field skip (class, NumBytesRead, captured bytes vs nvb); 'first' is all 256 first bytes x 6 tails. deep: subprocess (SetMaxStack 64MB) nesting cases. non-trivial = input longer than one byte; distinct by (stream, first descriptor, outcome class, length) resp. (Go type, options, length/4, depth)")
	cv := vh.NewCases(*cases, "From Coq Require Import List NArith ZArith.\nFrom Verif Require Import Wire.Item Wire.Simple Wire.SimpleCorr.\nImport ListNotations.", "case", "mismatches", 60)
	c := &ctx{r: r.Fork(), sum: sum, cv: cv}
	encs := c.encStream(*nEnc)
	c.r = r.Fork()
	c.hostileStreams(encs, *nValid, *nMut, *nRand)
	c.firstByteStream()
	cv.Close()
	if !*noDeep {
		c.deepStream(*cases+"_tmp", *big)
		os.RemoveAll(*cases + "_tmp")
	}
	sum.Dist["watchdog.hangs"] = hangs
	sum.Print()
}

// c18: correspondence and property oracle for C18 (RPC codecs deliver each reply to its
// own call under any concurrency/buffering).
//
// Stream "unit" (model-compared): k frames written back to back by the real writing
// codec into a memory connection, read by the other side's codec over a chunk schedule
// (single bytes ... everything coalesced), possibly cut short; the frames returned are
// compared with the Coq model's read_frames on the same bytes and schedule.
// Stream "rpc" (runtime): real net/rpc Client/Server over net.Pipe, a fragmenting /
// coalescing in-memory pipe and TCP loopback, N concurrent calls with distinct
// arguments, then the Close protocol.  Stream "close": Close unblocks a pending read.
package main

import (
	"flag"
	"fmt"
	"sort"
	"strings"
	"sync"
	"sync/atomic"
	"time"

	"verifharness/vh"
)

var hungRuns int32

func main() {
	nUnit := flag.Int("unit", 600, "unit cases (model-compared)")
	rounds := flag.Int("rounds", 1, "passes over the codec x buffer x transport grid")
	maxCalls := flag.Int("calls", 64, "largest number of concurrent calls")
	workers := flag.Int("workers", 8, "connections exercised in parallel")
	chunkStep := flag.Int("chunkstep", 1, "stride of the second cut in the exhaustive two-cut chunk schedules (1 = every pair of offsets)")
	nDepth := flag.Int("depth", 72, "long-lived unit cases: k messages read under a MaxDepth (model-compared)")
	nDiscard := flag.Int("discard", 240, "unit cases with discarded bodies (model-compared)")
	llSeq := flag.Int("llseq", 300, "sequential calls per long-lived connection")
	llConc := flag.Int("llconc", 208, "concurrent calls (batches of 16) per long-lived connection")
	dl := flag.Int("deadline", 8, "seconds before a run counts as hung")
	cases := flag.String("cases", "/verif/build/c18/cases", "directory for the model case files")
	flag.Parse()
	deadline = time.Duration(*dl) * time.Second
	seed := vh.SeedFromEnv()
	r := vh.NewRng(seed)
	sum := vh.NewSummary("unit: codec (GoRpc x 5 formats, MsgpackSpecRpc) x ReaderBufferSize x WriterBufferSize in {0,1,7,64,4096} x request/response x 1..4 frames x chunk schedule (coalesced, single bytes, random, one frame plus the head of the next, mixed) x whole/cut stream; non-trivial = more than one frame, a fragmenting schedule or a cut; distinct by all of these. chunk: three short frames per codec x rbs in {0,1,64} x direction under every schedule [a, b, rest] (direct oracle; distinct by codec, rbs, direction). depth: 20..80 (default MaxDepth: >1030) messages written back to back and read by one codec under MaxDepth in {default,2,3,4,5,8}, first failing message compared with the model (distinct by codec, MaxDepth, direction, limit reached). discard: 3..8 messages of which some have their body read with a nil destination (unknown method/service, error reply, stale reply) and shapes that are no interface{} value (maps keyed by arrays/structs), first failing message vs the model, typed bodies re-checked after the last message (distinct by codec, rbs, direction, counts). All decoded strings carry json escapes and are re-checked after later messages were read. raw/relay: handles with Raw and ZeroCopy in {true,false}: messages with codec.Raw bodies read back and compared after the last message (raw), and a pass-through service Relay(Raw,*Raw) whose handlers answer only after all N in {2,8,24} concurrent requests arrived, every caller gets its own bytes back (relay; codec x {pipe, coalescing pipe, TCP} x rbs {0,64}). longlived: one real net/rpc connection per codec x transport x rbs with MaxDepth 8 (and the default with 1100 calls), several hundred sequential then concurrent calls, every reply and server error matched. rpc: the same codecs (plus GoRpc/binc with AsSymbols=1, whose symbol tables span frames) and buffer grid x transport (net.Pipe, fragmenting/coalescing pipe in 4 modes, TCP loopback, the documented bufio-wrapped connection) x N in 1..64 concurrent calls (Echo struct, Add, Str, Fail) + Close protocol; distinct by (codec, transport, rbs, wbs, N). close: Close unblocks a pending header read, per codec x transport")
	unitStream(r.Fork(), *nUnit, *cases, sum)
	chunkStream(r.Fork(), *chunkStep, sum)
	depthUnit(r.Fork(), *nDepth, *cases, sum)
	discardUnit(r.Fork(), *nDiscard, *cases, sum)
	rawUnit(r.Fork(), sum)
	{
		rl := r.Fork()
		for _, c := range codecNames {
			for _, t := range []string{"pipe", "frag-coalesce", "tcp"} {
				for _, rbs := range []int{0, 64} {
					for _, zc := range []bool{true, false} {
						if atomic.LoadInt32(&hungRuns) >= 6 {
							continue
						}
						cfg := rpcConfig{codec: c, transport: t, rbs: rbs, wbs: rbs, n: []int{2, 8, 24}[rl.Intn(3)], seed: rl.U64() >> 1}
						fl, d := runRelay(cfg, zc)
						for _, f := range fl {
							sum.FailC(f.Stream, f.Class, f.What, f.Case)
							if strings.HasPrefix(f.Class, "hang") {
								atomic.AddInt32(&hungRuns, 1)
							}
						}
						sum.Count("relay."+c, fmt.Sprintf("relay/%s/%s/r%d/%v/n%d", c, t, rbs, zc, cfg.n))
						sum.Evaluations += d
						sum.Dist["relay.calls"] += d
					}
				}
			}
		}
	}

	// ---- long-lived connections ----
	{
		lr := r.Fork()
		type llcfg struct {
			cfg        rpcConfig
			md, sq, cc int
		}
		var lls []llcfg
		for _, c := range append(append([]string{}, codecNames...), "go-binc-sym") {
			for _, t := range []string{"pipe", "frag-coalesce", "tcp"} {
				for _, rbs := range []int{0, 64} {
					lls = append(lls, llcfg{rpcConfig{codec: c, transport: t, rbs: rbs, wbs: rbs, seed: lr.U64() >> 1}, 8, *llSeq, *llConc})
				}
			}
			// the default MaxDepth: more messages than it has levels
			lls = append(lls, llcfg{rpcConfig{codec: c, transport: "pipe", rbs: 0, wbs: 0, seed: lr.U64() >> 1}, 0, 1100, 64})
		}
		type llres struct {
			fails []vh.Failure
			done  int
		}
		out := make([]llres, len(lls))
		var lwg sync.WaitGroup
		lch := make(chan int)
		for w := 0; w < *workers; w++ {
			lwg.Add(1)
			go func() {
				defer lwg.Done()
				for i := range lch {
					if atomic.LoadInt32(&hungRuns) >= 6 {
						continue // enough hung connections: the evidence is in
					}
					f, d := longLived(lls[i].cfg, lls[i].md, lls[i].sq, lls[i].cc)
					out[i] = llres{f, d}
					for _, x := range f {
						if strings.HasPrefix(x.Class, "hang") {
							atomic.AddInt32(&hungRuns, 1)
							break
						}
					}
				}
			}()
		}
		for i := range lls {
			lch <- i
		}
		close(lch)
		lwg.Wait()
		for i, o := range out {
			for _, f := range o.fails {
				sum.FailC(f.Stream, f.Class, f.What, f.Case)
			}
			c := lls[i]
			sum.Count("longlived."+c.cfg.codec, fmt.Sprintf("ll/%s/%s/r%d/m%d", c.cfg.codec, c.cfg.transport, c.cfg.rbs, c.md))
			sum.Evaluations += o.done
			sum.Dist["longlived.calls"] += o.done
		}
	}

	// ---- rpc grid ----
	bufs := []int{0, 1, 7, 64, 4096}
	ns := []int{1, 2, 3, 5, 8, 13, 21, 34, 64}
	var cfgs []rpcConfig
	rr := r.Fork()
	for round := 0; round < *rounds; round++ {
		for _, c := range append(append([]string{}, codecNames...), "go-binc-sym") {
			for _, t := range transports {
				for _, rbs := range bufs {
					for _, wbs := range bufs {
						n := ns[rr.Intn(len(ns))]
						if n > *maxCalls {
							n = *maxCalls
						}
						cfgs = append(cfgs, rpcConfig{codec: c, transport: t, rbs: rbs, wbs: wbs, n: n, seed: rr.U64() >> 1, closeFail: rr.Chance(1, 6)})
					}
				}
			}
		}
	}
	results := make([]rpcResult, len(cfgs))
	var wg sync.WaitGroup
	ch := make(chan int)
	for w := 0; w < *workers; w++ {
		wg.Add(1)
		go func() {
			defer wg.Done()
			for i := range ch {
				// a hung run costs up to two deadlines: after a few of them the evidence is in
				if atomic.LoadInt32(&hungRuns) >= 6 {
					results[i] = rpcResult{cfg: cfgs[i], skipped: true}
					continue
				}
				results[i] = runRPC(cfgs[i])
				for _, f := range results[i].fails {
					if strings.Contains(f.Class, "hang") || strings.HasPrefix(f.Class, "stuck") {
						atomic.AddInt32(&hungRuns, 1)
						break
					}
				}
			}
		}()
	}
	for i := range cfgs {
		ch <- i
	}
	close(ch)
	wg.Wait()
	totalCalls, coalesced := 0, 0
	for _, res := range results {
		c := res.cfg
		if res.skipped {
			sum.Dist["rpc.skipped-after-hangs"]++
			continue
		}
		for _, f := range res.fails {
			sum.FailC(f.Stream, f.Class, f.What, f.Case)
		}
		key := fmt.Sprintf("rpc/%s/%s/r%d/w%d/n%d", c.codec, c.transport, c.rbs, c.wbs, c.n)
		if c.n == 1 && c.transport == "pipe" {
			key = ""
		}
		sum.Count("rpc."+c.codec, key)
		sum.Dist["rpc.transport."+c.transport]++
		totalCalls += res.done
		coalesced += res.coalesced
		if res.coalesced > 0 {
			sum.Dist["rpc.runs-with-coalesced-writes"]++
		}
	}
	sum.Dist["rpc.calls"] = totalCalls
	sum.Dist["rpc.reads-spanning-several-writes"] = coalesced

	// ---- close stream ----
	var ccfgs []rpcConfig
	for _, c := range codecNames {
		for _, t := range []string{"pipe", "frag-coalesce", "tcp", "bufio-coalesce"} {
			for _, rbs := range []int{0, 64} {
				ccfgs = append(ccfgs, rpcConfig{codec: c, transport: t, rbs: rbs, wbs: rbs, seed: rr.U64() >> 1})
			}
		}
	}
	for _, c := range ccfgs {
		for _, f := range closeUnblocks(c) {
			sum.FailC(f.Stream, f.Class, f.What, f.Case)
		}
		sum.Count("close."+c.codec, fmt.Sprintf("close/%s/%s/r%d", c.codec, c.transport, c.rbs))
	}
	// stable order of failures (runs finish in any order)
	sort.SliceStable(sum.Failures, func(i, j int) bool {
		a, b := sum.Failures[i], sum.Failures[j]
		if a.Stream != b.Stream {
			return a.Stream < b.Stream
		}
		return a.Class < b.Class
	})
	sum.Print()
}

package main

import (
	"bytes"
	"fmt"
	"net/rpc"
	"sync"
	"sync/atomic"
	"time"

	"verifharness/vh"

	"github.com/ugorji/go/codec"
)

// ---- pass-through of undecoded values (codec.Raw) on handles with Raw and ZeroCopy set:
// what a codec hands out must stay what it was while the connection is read further ----

func newHandleRaw(name string, rbs, wbs int, zeroCopy bool) codec.Handle {
	h := newHandle(name, rbs, wbs)
	set := func(b *codec.BasicHandle) { b.Raw = true; b.ZeroCopy = zeroCopy }
	switch x := h.(type) {
	case *codec.CborHandle:
		set(&x.BasicHandle)
	case *codec.MsgpackHandle:
		set(&x.BasicHandle)
	case *codec.BincHandle:
		set(&x.BasicHandle)
	case *codec.SimpleHandle:
		set(&x.BasicHandle)
	case *codec.JsonHandle:
		set(&x.BasicHandle)
	}
	return h
}

func rawPayload(r *vh.Rng, h codec.Handle, i int) codec.Raw {
	v := EchoArgs{S: fmt.Sprintf("p%d-", i) + escText(r, r.Intn(6)), N: int64(i)*7919 + 1, B: r.Bytes(1 + r.Intn(40)), L: []int32{int32(i), -int32(i)}}
	return codec.Raw(encBytes(h, v))
}

// rawUnit: k messages with Raw bodies written back to back, read by the other side's codec
// into codec.Raw values that are compared with what was written AFTER the last message.
func rawUnit(r *vh.Rng, sum *vh.Summary) {
	for _, name := range codecNames {
		for _, rbs := range []int{0, 1, 64} {
			for _, zc := range []bool{true, false} {
				for _, response := range []bool{false, true} {
					h := newHandleRaw(name, rbs, 0, zc)
					k := 3 + r.Intn(5)
					rec := &recWriter{}
					wconn := unitConn{bytes.NewReader(nil), rec}
					payloads := make([]codec.Raw, k)
					var sc rpc.ServerCodec
					var cc rpc.ClientCodec
					if response {
						sc = rpcOf(name).ServerCodec(wconn, h)
					} else {
						cc = rpcOf(name).ClientCodec(wconn, h)
					}
					for j := range payloads {
						payloads[j] = rawPayload(r, h, j)
						if response {
							sc.WriteResponse(&rpc.Response{ServiceMethod: "S.Relay", Seq: uint64(j + 1)}, payloads[j])
						} else {
							cc.WriteRequest(&rpc.Request{ServiceMethod: "S.Relay", Seq: uint64(j + 1)}, payloads[j])
						}
					}
					var sched []int
					if r.Bool() {
						for j := 0; j < len(rec.buf); j++ {
							sched = append(sched, 1+r.Intn(30))
						}
					}
					rconn := unitConn{&schedReader{data: rec.buf, sched: sched}, &recWriter{}}
					got := make([]codec.Raw, k)
					readErr := -1
					func() {
						defer func() {
							if recover() != nil {
								readErr = 0
							}
						}()
						if response {
							rcc := rpcOf(name).ClientCodec(rconn, h)
							for j := range got {
								var hd rpc.Response
								if rcc.ReadResponseHeader(&hd) != nil || rcc.ReadResponseBody(&got[j]) != nil {
									readErr = j
									return
								}
							}
						} else {
							rsc := rpcOf(name).ServerCodec(rconn, h)
							for j := range got {
								var hd rpc.Request
								if rsc.ReadRequestHeader(&hd) != nil || rsc.ReadRequestBody(&got[j]) != nil {
									readErr = j
									return
								}
							}
						}
					}()
					cj := map[string]interface{}{"codec": name, "rbs": rbs, "zerocopy": zc, "response": response, "messages": k}
					class := fmt.Sprintf("raw:%s:rbs%s:zerocopy=%v", name, zeroPos(rbs), zc)
					if readErr >= 0 {
						cj["message"] = readErr
						sum.FailC("raw", class, "a message with a Raw body could not be read", cj)
					} else {
						for j := range got {
							if !bytes.Equal(got[j], payloads[j]) {
								cj["message"] = j
								cj["want"] = vh.Hex(payloads[j])
								cj["got"] = vh.Hex(got[j])
								sum.FailC("raw", class, "a Raw value read from the connection is not (or no longer, after later messages were read) the bytes that were written", cj)
								break
							}
						}
					}
					sum.Count("raw."+name, fmt.Sprintf("raw/%s/r%d/%v/%v", name, rbs, zc, response))
				}
			}
		}
	}
}

// Relay: a pass-through service; handlers answer only after all the requests of the batch have
// been dispatched (so every argument is looked at after later requests were read).
type Relay struct {
	want    int32
	arrived int32
	all     chan struct{}
}

func (s *Relay) Relay(a codec.Raw, r *codec.Raw) error {
	if atomic.AddInt32(&s.arrived, 1) == s.want {
		close(s.all)
	}
	select {
	case <-s.all:
	case <-time.After(2 * time.Second):
	}
	*r = a
	return nil
}

func runRelay(cfg rpcConfig, zc bool) (fails []vh.Failure, done int) {
	cj := cfg.json()
	cj["zerocopy"] = zc
	fail := func(class, what string, extra map[string]interface{}) {
		c := map[string]interface{}{}
		for k, v := range cj {
			c[k] = v
		}
		for k, v := range extra {
			c[k] = v
		}
		fails = append(fails, vh.Failure{Stream: "relay", Class: fmt.Sprintf("%s:%s:rbs%s:zerocopy=%v", class, cfg.codec, zeroPos(cfg.rbs), zc), What: what, Case: c})
	}
	r := vh.NewRng(cfg.seed)
	cliRaw, srvRaw, err := newTransport(cfg.transport, cfg.seed)
	if err != nil {
		fail("transport", "the transport could not be set up", nil)
		return
	}
	defer cliRaw.Close()
	defer srvRaw.Close()
	h := newHandleRaw(cfg.codec, cfg.rbs, cfg.wbs, zc)
	svc := &Relay{want: int32(cfg.n), all: make(chan struct{})}
	server := rpc.NewServer()
	if err := server.RegisterName("S", svc); err != nil {
		panic(err)
	}
	go server.ServeCodec(rpcOf(cfg.codec).ServerCodec(wrapConn(cfg.transport, srvRaw, cfg.seed), h))
	client := rpc.NewClientWithCodec(rpcOf(cfg.codec).ClientCodec(wrapConn(cfg.transport, cliRaw, cfg.seed+1), h))
	defer client.Close()
	payloads := make([]codec.Raw, cfg.n)
	replies := make([]codec.Raw, cfg.n)
	errs := make([]error, cfg.n)
	for i := range payloads {
		payloads[i] = rawPayload(r, h, i)
	}
	var wg sync.WaitGroup
	for i := range payloads {
		wg.Add(1)
		go func(i int) {
			defer wg.Done()
			errs[i] = client.Call("S.Relay", payloads[i], &replies[i])
		}(i)
	}
	allDone := make(chan struct{})
	go func() { wg.Wait(); close(allDone) }()
	select {
	case <-allDone:
	case <-time.After(deadline):
		fail("hang", "concurrent pass-through calls did not all return within the deadline", nil)
		cliRaw.Close()
		srvRaw.Close()
		<-allDone
		return
	}
	for i := range payloads {
		if errs[i] != nil {
			fail("call-error", "a pass-through call returned an error", map[string]interface{}{"call": i})
			return
		}
		if !bytes.Equal(replies[i], payloads[i]) {
			fail("wrong-reply", "a caller of a Raw pass-through service did not get its own message back", map[string]interface{}{"call": i, "want": vh.Hex(payloads[i]), "got": vh.Hex(replies[i])})
			return
		}
		done++
	}
	return
}

package main

import (
	"bytes"
	"fmt"
	"net/rpc"
	"reflect"

	"verifharness/vh"
)

// chunkStream: two or three short frames, and EVERY schedule of the form
// [a, b, everything else] (a boundary at every offset, two boundaries at every pair of
// offsets; step > 1 thins the second one in the quick tier).  Direct oracle only: the
// frames come back whole and in order whatever the chunking (theorem C18_frames decides
// the same question on the model for all schedules).
func chunkStream(r *vh.Rng, step int, sum *vh.Summary) {
	for _, name := range codecNames {
		for _, rbs := range []int{0, 1, 64} {
			for _, response := range []bool{false, true} {
				h := newHandle(name, rbs, 0)
				frames := []uframe{
					{seq: 1, method: "S.Str", body: "a"},
					{seq: 2, method: "S.Add", body: AddArgs{1, -2}},
					{seq: 3, method: "S.Str", body: "zz"},
				}
				if response {
					frames[1].body = int64(-1)
					frames[2].errstr = "fail:x"
					frames[2].body = invalidRequest{}
				}
				rec := &recWriter{}
				wconn := unitConn{bytes.NewReader(nil), rec}
				if response {
					sc := rpcOf(name).ServerCodec(wconn, h)
					for _, f := range frames {
						sc.WriteResponse(&rpc.Response{ServiceMethod: f.method, Seq: f.seq, Error: f.errstr}, f.body)
					}
				} else {
					cc := rpcOf(name).ClientCodec(wconn, h)
					for _, f := range frames {
						cc.WriteRequest(&rpc.Request{ServiceMethod: f.method, Seq: f.seq}, f.body)
					}
				}
				wire := rec.buf
				n := len(wire)
				runs := 0
				for a := 1; a <= n; a++ {
					for b := 1; a+b <= n+1; b += step {
						sched := []int{a, b}
						rd := &schedReader{data: append([]byte(nil), wire...), sched: sched}
						rconn := unitConn{rd, &recWriter{}}
						ok := true
						got := 0
						if response {
							cc := rpcOf(name).ClientCodec(rconn, h)
							for _, f := range frames {
								var hd rpc.Response
								if cc.ReadResponseHeader(&hd) != nil || hd.Seq != f.seq || hd.Error != f.errstr {
									ok = false
									break
								}
								if hd.Error != "" {
									if cc.ReadResponseBody(nil) != nil {
										ok = false
										break
									}
								} else {
									bp := bodyPtr(f.method, true)
									if cc.ReadResponseBody(bp) != nil || vh.Canon(reflect.ValueOf(bp).Elem().Interface()) != vh.Canon(f.body) {
										ok = false
										break
									}
								}
								got++
							}
							var hd rpc.Response
							if ok && cc.ReadResponseHeader(&hd) == nil {
								ok = false // a fourth frame out of nothing
							}
						} else {
							sc := rpcOf(name).ServerCodec(rconn, h)
							for _, f := range frames {
								var hd rpc.Request
								if sc.ReadRequestHeader(&hd) != nil || hd.Seq != f.seq || hd.ServiceMethod != f.method {
									ok = false
									break
								}
								bp := bodyPtr(f.method, false)
								if sc.ReadRequestBody(bp) != nil || vh.Canon(reflect.ValueOf(bp).Elem().Interface()) != vh.Canon(f.body) {
									ok = false
									break
								}
								got++
							}
							var hd rpc.Request
							if ok && sc.ReadRequestHeader(&hd) == nil {
								ok = false
							}
						}
						runs++
						if !ok {
							sum.FailC("chunk", fmt.Sprintf("read:%s:rbs%s:chunked", name, zeroPos(rbs)),
								"three short frames did not come back whole and in order under a two-cut chunk schedule",
								map[string]interface{}{"codec": name, "rbs": rbs, "response": response, "sched": fmt.Sprint(sched), "wire": vh.Hex(wire), "frames_read": got})
						}
					}
				}
				sum.Evaluations += runs
				sum.Dist["chunk."+name] += runs
				sum.Count("", fmt.Sprintf("chunk/%s/r%d/%v/len%d", name, rbs, response, n))
			}
		}
	}
}

package main

import (
	"bytes"
	"fmt"
	"net/rpc"
	"os"
	"path/filepath"
	"reflect"
	"strings"
	"time"

	"verifharness/vh"
)

// ---- discarded bodies: ReadRequestBody(nil) / ReadResponseBody(nil) must consume the body,
// whatever its shape, and leave the Decoder usable ----

type KeyS struct {
	A int8
	B string
}

// oddBody: a value that is fine for its own type; iface tells whether it could also be decoded
// into an interface{} (a map keyed by an array or a struct cannot: the naked key is unhashable).
func oddBody(r *vh.Rng, json bool, i int) (body interface{}, iface bool) {
	k := r.Intn(6)
	if json && k < 3 {
		k += 3 // json object keys are strings
	}
	switch k {
	case 0:
		return map[[2]int32]string{{int32(i), 2}: "x", {3, int32(-i)}: escText(r, 3)}, false
	case 1:
		return map[KeyS]int{{1, "k"}: i, {2, escText(r, 2)}: -i}, false
	case 2:
		return map[[1]string][]int{{"a"}: {1, 2, i}}, false
	case 3:
		return map[string]int{"a": i, escText(r, 3) + "b": 2}, true
	case 4:
		return EchoArgs{S: escText(r, 5), N: int64(i), L: []int32{1}}, true
	default:
		return fmt.Sprintf("plain%d", i) + escText(r, 3), true
	}
}

// discardUnit: k messages written back to back; the reader does what net/rpc does — requests
// for unknown methods and replies that carry an error or belong to no pending call have their
// body read with a nil destination.  First failing message vs the model (conn_bodies), typed
// bodies compared after the last message was read.
func discardUnit(r *vh.Rng, n int, casesDir string, sum *vh.Summary) {
	var terms []string
	for i := 0; i < n; i++ {
		name := codecNames[i%len(codecNames)]
		rbs := []int{0, 1, 64}[r.Intn(3)]
		response := (i/len(codecNames))%2 == 1
		k := 3 + r.Intn(6)
		h := newHandle(name, rbs, []int{0, 7}[r.Intn(2)])
		rec := &recWriter{}
		wconn := unitConn{bytes.NewReader(nil), rec}
		type msg struct {
			discard bool
			method  string
			errstr  string
			body    interface{}
			iface   bool
		}
		msgs := make([]msg, k)
		var sc rpc.ServerCodec
		var cc rpc.ClientCodec
		if response {
			sc = rpcOf(name).ServerCodec(wconn, h)
		} else {
			cc = rpcOf(name).ClientCodec(wconn, h)
		}
		nd := 0
		for j := range msgs {
			m := msg{method: unitMethods[r.Intn(3)], iface: true}
			m.body = randBody(r, m.method, response)
			if j > 0 && j < k-1 && r.Chance(1, 2) || j == 1 {
				// a body that will be discarded (never the last: something must follow it)
				m.discard = true
				nd++
				m.body, m.iface = oddBody(r, name == "go-json", j)
				if response {
					// a reply to a call that is no longer pending (or, with errstr, an error reply
					// that still carries a body: GoRpc sends one)
					if name != "spec" && r.Bool() {
						m.errstr = "gone" + escText(r, 2)
					}
				} else {
					m.method = []string{"S.Nope", "Q.Zilch"}[r.Intn(2)]
				}
			}
			msgs[j] = m
			var err error
			if response {
				err = sc.WriteResponse(&rpc.Response{ServiceMethod: m.method, Seq: uint64(j + 1), Error: m.errstr}, m.body)
			} else {
				err = cc.WriteRequest(&rpc.Request{ServiceMethod: m.method, Seq: uint64(j + 1)}, m.body)
			}
			if err != nil {
				sum.FailC("discard", "write:"+name, "writing a message into a memory connection failed", map[string]interface{}{"codec": name, "message": j})
			}
		}
		var sched []int
		if r.Bool() {
			for j := 0; j < len(rec.buf); j++ {
				sched = append(sched, 1+r.Intn(5))
			}
		}
		rd := &schedReader{data: rec.buf, sched: sched}
		rconn := unitConn{rd, &recWriter{}}
		fail := -1
		bad := ""
		finished := make(chan struct{})
		go func() {
			defer close(finished)
			defer func() {
				if x := recover(); x != nil {
					bad = "panic while reading messages"
				}
			}()
			var rsc rpc.ServerCodec
			var rcc rpc.ClientCodec
			if response {
				rcc = rpcOf(name).ClientCodec(rconn, h)
			} else {
				rsc = rpcOf(name).ServerCodec(rconn, h)
			}
			type kept struct {
				j  int
				bp reflect.Value
			}
			var keep []kept
			for j, m := range msgs {
				var err error
				var seq uint64
				var bp reflect.Value
				if !m.discard {
					bp = reflect.New(reflect.TypeOf(m.body))
				}
				if response {
					var hd rpc.Response
					if err = rcc.ReadResponseHeader(&hd); err == nil {
						seq = hd.Seq
						if m.discard {
							err = rcc.ReadResponseBody(nil)
						} else {
							err = rcc.ReadResponseBody(bp.Interface())
						}
					}
				} else {
					var hd rpc.Request
					if err = rsc.ReadRequestHeader(&hd); err == nil {
						seq = hd.Seq
						if hd.ServiceMethod != m.method {
							bad = "a request header read after a discarded body names another method than the one written"
							fail = j
							return
						}
						if m.discard {
							err = rsc.ReadRequestBody(nil)
						} else {
							err = rsc.ReadRequestBody(bp.Interface())
						}
					}
				}
				if err != nil {
					fail = j
					return
				}
				if seq != uint64(j+1) {
					bad = "a header read after a discarded body carries another sequence number than the one written"
					fail = j
					return
				}
				if !m.discard {
					keep = append(keep, kept{j, bp})
				}
			}
			for _, kp := range keep {
				if vh.Canon(kp.bp.Elem().Interface()) != vh.Canon(msgs[kp.j].body) {
					bad = "a typed body read on a connection that also discards bodies differs from the one written (looked at after the last message)"
					fail = kp.j
					return
				}
			}
		}()
		cj := map[string]interface{}{"codec": name, "rbs": rbs, "response": response, "messages": k, "discarded": nd, "seed_index": i, "wire": vh.Hex(rec.buf)}
		select {
		case <-finished:
		case <-time.After(20 * time.Second):
			sum.FailC("discard", "hang:"+name, "reading messages from a memory connection did not end", cj)
			continue
		}
		cj["first_failed"] = fail
		class := fmt.Sprintf("discard:%s:%s", name, map[bool]string{true: "response", false: "request"}[response])
		if bad != "" {
			sum.FailC("discard", class, bad, cj)
		} else if fail >= 0 {
			sum.FailC("discard", class, "a connection on which a body was discarded stopped delivering the messages behind it", cj)
		}
		ms := make([]string, k)
		oddSeen := false
		for j, m := range msgs {
			mode := "BTyped"
			if m.discard {
				mode = "BDiscard"
				if !m.iface {
					oddSeen = true
				}
			}
			ms[j] = fmt.Sprintf("(%s, mkbody true %s)", mode, vh.CoqBool(m.iface))
		}
		of := "None"
		if fail >= 0 {
			of = fmt.Sprintf("(Some %d)", fail)
		}
		terms = append(terms, fmt.Sprintf("mkbcase %d [%s] %s", 200000+i, strings.Join(ms, ";"), of))
		sum.Count("discard."+name, fmt.Sprintf("discard/%s/r%d/%v/k%d/d%d/odd%v", name, rbs, response, k, nd, oddSeen))
		if oddSeen {
			sum.Dist["discard.body-not-an-interface-value"]++
		}
		sum.ModelCases++
	}
	const per = 40
	for s := 0; s*per < len(terms); s++ {
		end := (s + 1) * per
		if end > len(terms) {
			end = len(terms)
		}
		var sb strings.Builder
		sb.WriteString("From Coq Require Import List NArith.\nFrom Verif Require Import C18.Model C18.Corr.\nImport ListNotations.\n")
		sb.WriteString("Definition cases : list bcase := [\n" + strings.Join(terms[s*per:end], ";\n") + "\n].\n")
		sb.WriteString("Definition M := Eval vm_compute in bmismatches cases.\nPrint M.\n")
		if err := os.WriteFile(filepath.Join(casesDir, fmt.Sprintf("cases_b%03d.v", s)), []byte(sb.String()), 0o644); err != nil {
			panic(err)
		}
	}
}

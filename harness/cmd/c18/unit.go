package main

import (
	"bytes"
	"fmt"
	"net/rpc"
	"reflect"
	"strings"
	"time"

	"verifharness/vh"

	"github.com/ugorji/go/codec"
)

// ---- the service's types (shared with the rpc stream) ----

type EchoArgs struct {
	S string
	N int64
	B []byte
	L []int32
}

type AddArgs struct {
	A, B int64
}

// codecs under test: GoRpc x 5 formats, MsgpackSpecRpc
var codecNames = []string{"go-cbor", "go-msgpack", "go-binc", "go-simple", "go-json", "spec"}

func newHandle(name string, rbs, wbs int) codec.Handle {
	format := strings.TrimPrefix(name, "go-")
	o := vh.Opts{"ReaderBufferSize": rbs, "WriterBufferSize": wbs}
	if name == "spec" {
		format = "msgpack"
	}
	if name == "go-binc-sym" {
		// symbol tables live as long as the codec's Encoder/Decoder: state shared by all frames
		format = "binc"
		o["AsSymbols"] = 1
	}
	return vh.NewHandle(format, o)
}

func rpcOf(name string) codec.Rpc {
	if name == "spec" {
		return codec.MsgpackSpecRpc
	}
	return codec.GoRpc
}

func encBytes(h codec.Handle, v interface{}) []byte {
	var out []byte
	if err := codec.NewEncoderBytes(&out, h).Encode(v); err != nil {
		panic(fmt.Sprintf("unit: NewEncoderBytes failed: %v", err))
	}
	return out
}

// one frame to put on the wire
type uframe struct {
	seq    uint64
	method string
	errstr string      // responses only
	body   interface{} // args (request) or reply (response); pointer-free value
}

func randBody(r *vh.Rng, method string, response bool) interface{} {
	switch method {
	case "S.Echo":
		e := EchoArgs{S: string(r.Bytes(r.Intn(12))), N: int64(r.U64() >> uint(r.Intn(64)))}
		if r.Bool() {
			e.N = -e.N
		}
		if r.Bool() {
			e.B = r.Bytes(1 + r.Intn(5))
		}
		if r.Bool() {
			e.L = []int32{int32(r.Intn(300)), -1}
		}
		// keep strings printable so that json text equals what encoding the same value again gives
		e.S = fmt.Sprintf("%x", e.S) + escText(r, r.Intn(6))
		return e
	case "S.Add":
		if response {
			return int64(r.Intn(2000000)) - 1000000
		}
		return AddArgs{int64(r.Intn(1000)), -int64(r.Intn(1 << 40))}
	case "S.Str":
		return fmt.Sprintf("s%x", r.Bytes(r.Intn(10))) + escText(r, r.Intn(8))
	default: // S.Fail
		if response {
			return int(0)
		}
		return fmt.Sprintf("why%d", r.Intn(1000))
	}
}

func bodyPtr(method string, response bool) interface{} {
	switch method {
	case "S.Echo":
		return new(EchoArgs)
	case "S.Add":
		if response {
			return new(int64)
		}
		return new(AddArgs)
	case "S.Str":
		return new(string)
	default:
		if response {
			return new(int)
		}
		return new(string)
	}
}

// escText: text whose json encoding needs escapes (the json decoder unescapes into a scratch
// buffer; what it hands out must not keep pointing into it)
func escText(r *vh.Rng, n int) string {
	parts := []string{"\t", "\"", "\n", "\\", "é", "a", "Z", "7", " ", "/"}
	var sb strings.Builder
	for i := 0; i < n; i++ {
		sb.WriteString(parts[r.Intn(len(parts))])
	}
	return sb.String()
}

var unitMethods = []string{"S.Echo", "S.Add", "S.Str", "S.Fail"}

// unitsOf computes, independently of the rpc codec, the byte strings the reading side
// must see for one frame: GoRpc = Encode(header) [' '] Encode(body) [' '];
// MsgpackSpecRpc = 0x94, type, msgid, method|error, params.
func unitsOf(name string, h codec.Handle, f uframe, response bool) [][]byte {
	if name == "spec" {
		u := [][]byte{{0x94}}
		if response {
			var moe interface{}
			body := f.body
			if f.errstr != "" {
				moe = f.errstr
				body = nil
			}
			u = append(u, encBytes(h, 1), encBytes(h, uint32(f.seq)), encBytes(h, moe), encBytes(h, body))
		} else {
			u = append(u, encBytes(h, 0), encBytes(h, uint32(f.seq)), encBytes(h, f.method), encBytes(h, []interface{}{f.body}))
		}
		return u
	}
	var hdr []byte
	if response {
		hdr = encBytes(h, &rpc.Response{ServiceMethod: f.method, Seq: f.seq, Error: f.errstr})
	} else {
		hdr = encBytes(h, &rpc.Request{ServiceMethod: f.method, Seq: f.seq})
	}
	body := encBytes(h, f.body)
	if name == "go-json" {
		hdr = append(hdr, ' ')
		body = append(body, ' ')
	}
	return [][]byte{hdr, body}
}

func coqKind(name string) string {
	if name == "spec" {
		return "SpecRpc"
	}
	return "GoRpc"
}

func coqNats(xs []int) string {
	if len(xs) == 0 {
		return "[]"
	}
	ss := make([]string, len(xs))
	for i, x := range xs {
		ss[i] = fmt.Sprint(x)
	}
	return "[" + strings.Join(ss, ";") + "]"
}

func coqFrames(frames [][][]byte) string {
	fs := make([]string, len(frames))
	for i, fr := range frames {
		us := make([]string, len(fr))
		for j, u := range fr {
			us[j] = vh.CoqBytes(u)
		}
		fs[i] = "[" + strings.Join(us, ";") + "]"
	}
	return "[" + strings.Join(fs, ";") + "]"
}

type invalidRequest struct{} // what net/rpc sends as the body of an error response

func unitStream(r *vh.Rng, n int, casesPath string, sum *vh.Summary) {
	cv := vh.NewCases(casesPath, "From Coq Require Import List NArith.\nFrom Verif Require Import C18.Model C18.Corr.\nImport ListNotations.", "case", "mismatches", 60)
	bufs := []int{0, 1, 7, 64, 4096}
	for i := 0; i < n; i++ {
		name := codecNames[i%len(codecNames)]
		rbs := bufs[(i/len(codecNames))%5]
		wbs := bufs[r.Intn(5)]
		response := r.Bool()
		k := 1 + r.Intn(4)
		h := newHandle(name, rbs, wbs)
		// frames with distinct sequence numbers
		frames := make([]uframe, k)
		for j := range frames {
			m := unitMethods[r.Intn(len(unitMethods))]
			f := uframe{seq: uint64(1 + j*7 + r.Intn(7)), method: m}
			if j == 1 && r.Bool() {
				f.seq = uint64(1<<16 + j) // a multi-byte sequence number
			}
			f.body = randBody(r, m, response)
			if response && (m == "S.Fail" || r.Chance(1, 8)) {
				f.errstr = fmt.Sprintf("fail:%d", r.Intn(100)) + escText(r, r.Intn(4))
				f.body = invalidRequest{}
			}
			frames[j] = f
		}
		// 1. write them with the real codec into a recording connection
		rec := &recWriter{}
		wconn := unitConn{bytes.NewReader(nil), rec}
		var units [][][]byte
		cutsOK := true
		want := 0
		cj := map[string]interface{}{"codec": name, "rbs": rbs, "wbs": wbs, "response": response, "frames": k, "seed_index": i}
		wclass := fmt.Sprintf("write:%s:wbs%s", name, zeroPos(wbs))
		if response {
			sc := rpcOf(name).ServerCodec(wconn, h)
			for _, f := range frames {
				if err := sc.WriteResponse(&rpc.Response{ServiceMethod: f.method, Seq: f.seq, Error: f.errstr}, f.body); err != nil {
					sum.FailC("unit", wclass, "WriteResponse into a memory connection failed", cj)
				}
				u := unitsOf(name, h, f, true)
				units = append(units, u)
				for _, x := range u {
					want += len(x)
				}
				if len(rec.buf) != want {
					cutsOK = false
				}
			}
		} else {
			cc := rpcOf(name).ClientCodec(wconn, h)
			for _, f := range frames {
				if err := cc.WriteRequest(&rpc.Request{ServiceMethod: f.method, Seq: f.seq}, f.body); err != nil {
					sum.FailC("unit", wclass, "WriteRequest into a memory connection failed", cj)
				}
				u := unitsOf(name, h, f, false)
				units = append(units, u)
				for _, x := range u {
					want += len(x)
				}
				if len(rec.buf) != want {
					cutsOK = false
				}
			}
		}
		wire := append([]byte(nil), rec.buf...)
		var flat []byte
		var frameEnds, unitEnds []int
		for _, u := range units {
			for _, x := range u {
				flat = append(flat, x...)
				unitEnds = append(unitEnds, len(flat))
			}
			frameEnds = append(frameEnds, len(flat))
		}
		cj["wire"] = vh.Hex(wire)
		if !bytes.Equal(flat, wire) {
			cj["expected"] = vh.Hex(flat)
			sum.FailC("unit", wclass, "a written frame is not Encode(header) ++ Encode(body) of the same Handle", cj)
			// the unit boundaries below are those of the expected bytes: nothing more to learn from this case
			sum.Count("unit."+name, "")
			continue
		} else if !cutsOK {
			sum.FailC("unit", wclass, "bytes of a frame were still buffered when the write call returned (no flush)", cj)
		}
		// 2. read them back with the other side's codec over a chunk schedule
		var sched []int
		smode := r.Intn(5)
		switch smode {
		case 0: // everything coalesced
		case 1: // single bytes
			for j := 0; j < len(wire)+4; j++ {
				sched = append(sched, 1)
			}
		case 2: // small random chunks
			for j := 0; j < len(wire)+4; j++ {
				sched = append(sched, 1+r.Intn(9))
			}
		case 3: // exactly one frame and the first bytes of the next, then the rest
			if len(frameEnds) > 1 {
				sched = []int{frameEnds[0] + 1 + r.Intn(3)}
			}
		default: // a few fragments, then coalesced
			for j := 0; j < r.Intn(6); j++ {
				sched = append(sched, 1+r.Intn(20))
			}
		}
		trunc := len(wire)
		tclass := "whole"
		if r.Chance(1, 4) && len(wire) > 0 {
			trunc = r.Intn(len(wire) + 1)
			if name == "go-json" {
				// The model's unit is value+' '.  For the json decoder a cut just before that
				// space still is a complete value, and a stream that ENDS inside a top-level
				// number is read as the shorter number (EOF delimits a number, as in
				// encoding/json).  Neither is fragmentation or coalescing (no byte is lost by
				// those); such cut points are moved to the end of the unit.
				start := 0
				for _, e := range unitEnds {
					isNum := e > start && (wire[start] == '-' || (wire[start] >= '0' && wire[start] <= '9'))
					if trunc == e-1 || (isNum && trunc > start && trunc < e) {
						trunc = e
						sum.Dist["unit.json-cut-moved-to-unit-end"]++
					}
					start = e
				}
			}
			tclass = "cut"
		}
		full := 0
		for _, e := range frameEnds {
			if e <= trunc {
				full++
			}
		}
		rd := &schedReader{data: append([]byte(nil), wire[:trunc]...), sched: sched}
		rconn := unitConn{rd, &recWriter{}}
		type got struct {
			ids []int
			bad string
		}
		done := make(chan got, 1)
		go func() {
			var g got
			defer func() {
				if x := recover(); x != nil {
					g.bad = "panic while reading frames"
				}
				done <- g
			}()
			// everything decoded is looked at again after the LAST message was read: a value
			// handed out earlier must not change when the Decoder goes on
			type lateCheck struct {
				got  func() string
				want string
			}
			var late []lateCheck
			defer func() {
				if g.bad != "" {
					return
				}
				for _, lc := range late {
					if lc.got() != lc.want {
						g.bad = "a value decoded earlier on the connection changed while later messages were read"
						return
					}
				}
			}()
			bySeq := map[uint64]int{}
			for j, f := range frames {
				bySeq[f.seq] = j
			}
			if response {
				cc := rpcOf(name).ClientCodec(rconn, h)
				for j := 0; j <= k; j++ {
					var hd rpc.Response
					if err := cc.ReadResponseHeader(&hd); err != nil {
						return
					}
					id, ok := bySeq[hd.Seq]
					if !ok {
						g.bad = "a response header with a sequence number that was never written"
						return
					}
					f := frames[id]
					if hd.Error != "" {
						if err := cc.ReadResponseBody(nil); err != nil {
							return
						}
						if hd.Error != f.errstr {
							g.bad = "the error string of a response differs from what was written"
							return
						}
						es := hd.Error
						late = append(late, lateCheck{func() string { return es }, f.errstr})
					} else {
						bp := bodyPtr(f.method, true)
						if err := cc.ReadResponseBody(bp); err != nil {
							return
						}
						if f.errstr != "" || vh.Canon(reflect.ValueOf(bp).Elem().Interface()) != vh.Canon(f.body) {
							g.bad = "the body of a response differs from what was written"
							return
						}
						late = append(late, lateCheck{func() string { return vh.Canon(reflect.ValueOf(bp).Elem().Interface()) }, vh.Canon(f.body)})
					}
					if name != "spec" && hd.ServiceMethod != f.method {
						g.bad = "the method of a response differs from what was written"
						return
					}
					g.ids = append(g.ids, id)
				}
			} else {
				sc := rpcOf(name).ServerCodec(rconn, h)
				for j := 0; j <= k; j++ {
					var hd rpc.Request
					if err := sc.ReadRequestHeader(&hd); err != nil {
						return
					}
					id, ok := bySeq[hd.Seq]
					if !ok {
						g.bad = "a request header with a sequence number that was never written"
						return
					}
					f := frames[id]
					bp := bodyPtr(f.method, false)
					if err := sc.ReadRequestBody(bp); err != nil {
						return
					}
					if hd.ServiceMethod != f.method || vh.Canon(reflect.ValueOf(bp).Elem().Interface()) != vh.Canon(f.body) {
						g.bad = "the method or body of a request differs from what was written"
						return
					}
					late = append(late, lateCheck{func() string { return vh.Canon(reflect.ValueOf(bp).Elem().Interface()) }, vh.Canon(f.body)})
					g.ids = append(g.ids, id)
				}
			}
		}()
		var g got
		select {
		case g = <-done:
		case <-time.After(10 * time.Second):
			g.bad = "reading frames from a memory connection did not end"
		}
		rclass := fmt.Sprintf("read:%s:rbs%s:%s", name, zeroPos(rbs), schedClass(sched, frameEnds))
		cj["sched"] = fmt.Sprint(sched)
		cj["trunc"] = trunc
		cj["ids"] = fmt.Sprint(g.ids)
		wantIDs := make([]int, full)
		for j := range wantIDs {
			wantIDs[j] = j
		}
		if g.bad != "" {
			sum.FailC("unit", rclass, g.bad, cj)
		} else if fmt.Sprint(g.ids) != fmt.Sprint(wantIDs) {
			sum.FailC("unit", rclass, "the reading codec did not return exactly the complete frames of the stream in write order", cj)
		}
		rcap := 0
		if rbs > 0 {
			rcap = rbs
			if rcap < 256 {
				rcap = 256 // reader.go resetIO: max(256, bufsize)
			}
		}
		cv.Add(fmt.Sprintf("mkcase %d %s %d %d %s %d %s %s %s %s", i, coqKind(name), rcap, wbs, coqNats(sched), trunc,
			coqFrames(units), vh.CoqBytes(wire), vh.CoqBool(cutsOK), coqNats(g.ids)))
		dir := "req"
		if response {
			dir = "resp"
		}
		key := fmt.Sprintf("%s/rbs%d/wbs%d/%s/k%d/s%d/%s", name, rbs, wbs, dir, k, smode, tclass)
		if k == 1 && smode == 0 && tclass == "whole" {
			key = ""
		}
		sum.Count("unit."+name, key)
		sum.Dist["unit.sched"+fmt.Sprint(smode)]++
		sum.Dist["unit."+tclass]++
		if i < 2 {
			sum.Sample(cj)
		}
		sum.ModelCases++
	}
	cv.Close()
}

func zeroPos(n int) string {
	if n > 0 {
		return ">0"
	}
	return "=0"
}

// does the schedule hand out bytes of two frames in one Read?
func schedClass(sched []int, frameEnds []int) string {
	if len(frameEnds) < 2 {
		return "oneframe"
	}
	pos := 0
	total := frameEnds[len(frameEnds)-1]
	for i := 0; pos < total; i++ {
		k := total - pos
		if i < len(sched) {
			k = sched[i]
			if k < 1 {
				k = 1
			}
		}
		end := pos + k
		for _, e := range frameEnds[:len(frameEnds)-1] {
			if pos < e && e < end {
				return "coalesced"
			}
		}
		pos = end
	}
	return "fragmented"
}

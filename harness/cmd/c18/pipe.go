package main

import (
	"bufio"
	"errors"
	"io"
	"net"
	"sync"
	"sync/atomic"
	"time"
)

// ---- a duplex in-memory connection that fragments and coalesces ----

// delivery modes of a half pipe
const (
	modeCoalesce = iota // a Read that had to wait lets the burst accumulate, then takes everything that fits
	modeFrag1           // every Read returns one byte
	modeFragRand        // every Read returns 1..7 bytes
	modeMixed           // coalesce, but sometimes a single byte
)

var modeNames = []string{"coalesce", "frag1", "fragrand", "mixed"}

type halfPipe struct {
	mu     sync.Mutex
	cond   *sync.Cond
	buf    []byte
	closed bool // no more writes will come / reads must end
	mode   int
	s      uint64 // xorshift state for the chunk sizes
	reads  int
	multi  int // Reads that returned bytes of more than one Write (coalesced)
	marks  []int
	// marks: end offsets (relative to buf start) of the Writes still in buf, to measure coalescing
}

func newHalf(mode int, seed uint64) *halfPipe {
	h := &halfPipe{mode: mode, s: seed*2654435761 + 88172645463325252}
	h.cond = sync.NewCond(&h.mu)
	return h
}

func (h *halfPipe) rnd(n int) int {
	h.s ^= h.s << 13
	h.s ^= h.s >> 7
	h.s ^= h.s << 17
	return int(h.s % uint64(n))
}

func (h *halfPipe) write(p []byte) (int, error) {
	h.mu.Lock()
	defer h.mu.Unlock()
	if h.closed {
		return 0, io.ErrClosedPipe
	}
	h.buf = append(h.buf, p...)
	h.marks = append(h.marks, len(h.buf))
	h.cond.Broadcast()
	return len(p), nil
}

func (h *halfPipe) read(p []byte) (int, error) {
	if len(p) == 0 {
		return 0, nil
	}
	h.mu.Lock()
	waited := false
	for len(h.buf) == 0 && !h.closed {
		waited = true
		h.cond.Wait()
	}
	if len(h.buf) == 0 && h.closed {
		h.mu.Unlock()
		return 0, io.EOF
	}
	if waited && (h.mode == modeCoalesce || h.mode == modeMixed) {
		// let the writers that are queued behind net/rpc's mutex add their frames
		h.mu.Unlock()
		time.Sleep(150 * time.Microsecond)
		h.mu.Lock()
	}
	n := len(h.buf)
	switch h.mode {
	case modeFrag1:
		n = 1
	case modeFragRand:
		n = 1 + h.rnd(7)
	case modeMixed:
		if h.rnd(4) == 0 {
			n = 1
		}
	}
	if n > len(h.buf) {
		n = len(h.buf)
	}
	if n > len(p) {
		n = len(p)
	}
	copy(p, h.buf[:n])
	h.buf = h.buf[n:]
	h.reads++
	// how many Write ends lie strictly inside the bytes handed out
	inside := 0
	k := 0
	for k < len(h.marks) && h.marks[k] <= n {
		if h.marks[k] < n {
			inside++
		}
		k++
	}
	if inside > 0 {
		h.multi++
	}
	h.marks = h.marks[k:]
	for i := range h.marks {
		h.marks[i] -= n
	}
	h.mu.Unlock()
	return n, nil
}

func (h *halfPipe) close() {
	h.mu.Lock()
	h.closed = true
	h.cond.Broadcast()
	h.mu.Unlock()
}

type fragConn struct {
	in, out *halfPipe
	once    sync.Once
}

func (c *fragConn) Read(p []byte) (int, error)  { return c.in.read(p) }
func (c *fragConn) Write(p []byte) (int, error) { return c.out.write(p) }
func (c *fragConn) Close() error {
	c.once.Do(func() { c.in.close(); c.out.close() })
	return nil
}

func newFragPair(mode int, seed uint64) (*fragConn, *fragConn) {
	a, b := newHalf(mode, seed), newHalf(mode, seed+1)
	return &fragConn{in: a, out: b}, &fragConn{in: b, out: a}
}

// ---- a wrapper that counts what the codec does to the connection ----

var errCloseFails = errors.New("scripted close failure")

type countConn struct {
	io.ReadWriteCloser
	closes    int32
	writes    int32
	wbytes    int64
	closeFail bool
}

func (c *countConn) Write(p []byte) (int, error) {
	atomic.AddInt32(&c.writes, 1)
	atomic.AddInt64(&c.wbytes, int64(len(p)))
	return c.ReadWriteCloser.Write(p)
}

func (c *countConn) Close() error {
	atomic.AddInt32(&c.closes, 1)
	err := c.ReadWriteCloser.Close()
	if c.closeFail {
		return errCloseFails
	}
	return err
}

// ---- transports ----

var transports = []string{"pipe", "frag-coalesce", "frag-frag1", "frag-fragrand", "frag-mixed", "tcp", "bufio-coalesce"}

// bufConn is the buffered connection of the package documentation (rpc.go, "Example 2"):
// the codec must Flush it after every message; its Reader is also an io.ByteReader.
type bufConn struct {
	io.Closer
	*bufio.Reader
	*bufio.Writer
}

func newBufConn(c io.ReadWriteCloser, size int) io.ReadWriteCloser {
	return bufConn{c, bufio.NewReaderSize(c, size), bufio.NewWriterSize(c, size)}
}

var (
	lnOnce sync.Once
	ln     net.Listener
	lnErr  error
	lnMu   sync.Mutex
)

func tcpPair() (io.ReadWriteCloser, io.ReadWriteCloser, error) {
	lnOnce.Do(func() { ln, lnErr = net.Listen("tcp", "127.0.0.1:0") })
	if lnErr != nil {
		return nil, nil, lnErr
	}
	lnMu.Lock() // one dial/accept pair at a time so that the ends match
	defer lnMu.Unlock()
	type acc struct {
		c   net.Conn
		err error
	}
	ch := make(chan acc, 1)
	go func() {
		c, err := ln.Accept()
		ch <- acc{c, err}
	}()
	cc, err := net.Dial("tcp", ln.Addr().String())
	if err != nil {
		return nil, nil, err
	}
	a := <-ch
	if a.err != nil {
		cc.Close()
		return nil, nil, a.err
	}
	return cc, a.c, nil
}

func newTransport(name string, seed uint64) (cli, srv io.ReadWriteCloser, err error) {
	switch name {
	case "pipe":
		a, b := net.Pipe()
		return a, b, nil
	case "tcp":
		return tcpPair()
	case "frag-coalesce":
		a, b := newFragPair(modeCoalesce, seed)
		return a, b, nil
	case "frag-frag1":
		a, b := newFragPair(modeFrag1, seed)
		return a, b, nil
	case "frag-fragrand":
		a, b := newFragPair(modeFragRand, seed)
		return a, b, nil
	case "frag-mixed":
		a, b := newFragPair(modeMixed, seed)
		return a, b, nil
	case "bufio-coalesce":
		a, b := newFragPair(modeCoalesce, seed)
		return a, b, nil // wrapped by wrapConn, outside the counting layer
	}
	return nil, nil, errors.New("unknown transport " + name)
}

// wrapConn puts the documented bufio wrapper around the (counting) connection for the
// "bufio-" transports; the codec then sees an ioFlusher and an io.ByteReader.
func wrapConn(transport string, c io.ReadWriteCloser, seed uint64) io.ReadWriteCloser {
	if transport == "bufio-coalesce" {
		return newBufConn(c, 16+int(seed%3)*1000)
	}
	return c
}

func coalescedReads(c io.ReadWriteCloser) int {
	if f, ok := c.(*fragConn); ok {
		f.in.mu.Lock()
		defer f.in.mu.Unlock()
		return f.in.multi
	}
	return 0
}

// ---- unit stream: a scheduled reader over bytes already written, a recording writer ----

type schedReader struct {
	data  []byte
	sched []int
	i     int
	drawn int
}

func (r *schedReader) Read(p []byte) (int, error) {
	if len(p) == 0 {
		return 0, nil
	}
	if len(r.data) == 0 {
		return 0, io.EOF
	}
	k := len(r.data)
	if r.i < len(r.sched) {
		k = r.sched[r.i]
		if k < 1 {
			k = 1
		}
	}
	r.i++
	n := k
	if n > len(p) {
		n = len(p)
	}
	if n > len(r.data) {
		n = len(r.data)
	}
	copy(p, r.data[:n])
	r.data = r.data[n:]
	r.drawn += n
	return n, nil
}

type recWriter struct {
	buf    []byte
	ends   []int // cumulative length after every Write
	closes int
}

func (w *recWriter) Write(p []byte) (int, error) {
	w.buf = append(w.buf, p...)
	w.ends = append(w.ends, len(w.buf))
	return len(p), nil
}

type unitConn struct {
	io.Reader
	*recWriter
}

func (c unitConn) Close() error { c.recWriter.closes++; return nil }

package main

import (
	"bytes"
	"fmt"
	"net/rpc"
	"os"
	"path/filepath"
	"reflect"
	"strings"
	"sync"
	"time"

	"verifharness/vh"

	"github.com/ugorji/go/codec"
)

// ---- long-lived connections: the codec's Decoder keeps its state (depth) for the life of
// the connection; a message must leave it where it found it ----

func newHandleDepth(name string, rbs, wbs, maxDepth int) codec.Handle {
	h := newHandle(name, rbs, wbs)
	switch x := h.(type) {
	case *codec.CborHandle:
		x.MaxDepth = int16(maxDepth)
	case *codec.MsgpackHandle:
		x.MaxDepth = int16(maxDepth)
	case *codec.BincHandle:
		x.MaxDepth = int16(maxDepth)
	case *codec.SimpleHandle:
		x.MaxDepth = int16(maxDepth)
	case *codec.JsonHandle:
		x.MaxDepth = int16(maxDepth)
	}
	return h
}

// nesting: how many container levels a typed Decode of this value opens at most
// (struct/map/slice/array = one level each; []byte, strings, scalars, nil = none).
func nesting(v reflect.Value) int {
	if !v.IsValid() {
		return 0
	}
	switch v.Kind() {
	case reflect.Ptr, reflect.Interface:
		if v.IsNil() {
			return 0
		}
		return nesting(v.Elem())
	case reflect.Struct:
		m := 0
		for i := 0; i < v.NumField(); i++ {
			if n := nesting(v.Field(i)); n > m {
				m = n
			}
		}
		return 1 + m
	case reflect.Slice:
		if v.IsNil() {
			return 0
		}
		if v.Type().Elem().Kind() == reflect.Uint8 {
			return 0
		}
		fallthrough
	case reflect.Array:
		m := 0
		for i := 0; i < v.Len(); i++ {
			if n := nesting(v.Index(i)); n > m {
				m = n
			}
		}
		return 1 + m
	case reflect.Map:
		if v.IsNil() {
			return 0
		}
		m := 0
		it := v.MapRange()
		for it.Next() {
			if n := nesting(it.Value()); n > m {
				m = n
			}
		}
		return 1 + m
	}
	return 0
}

// Nested gives bodies of a chosen depth
type Nested struct {
	V int
	N []Nested
}

func nestedOf(depth, v int) Nested {
	// nesting(Nested) = 1 (+2 per further level: slice, struct)
	n := Nested{V: v}
	if depth > 1 {
		n.N = []Nested{nestedOf(depth-2, v+1)}
	}
	return n
}

func coqNatLists(xs [][]int) string {
	ss := make([]string, len(xs))
	for i, x := range xs {
		ss[i] = coqNats(x)
	}
	return "[" + strings.Join(ss, ";") + "]"
}

// depthUnit: k messages written back to back, read by the other side's codec whose Handle has
// MaxDepth m; the index of the first message it fails to read is compared with the model's
// dec_conn on the nestings (Coq cases) and, where every nesting is below m, must be "none".
func depthUnit(r *vh.Rng, n int, casesDir string, sum *vh.Summary) {
	var terms []string
	depths := []int{0, 2, 3, 4, 5, 8}
	for i := 0; i < n; i++ {
		name := codecNames[i%len(codecNames)]
		md := depths[(i/len(codecNames))%len(depths)]
		rbs := []int{0, 64}[r.Intn(2)]
		response := r.Bool()
		k := 20 + r.Intn(60)
		if md == 0 {
			k = 1030 + r.Intn(100) // more messages than the default MaxDepth
		}
		hw := newHandleDepth(name, 0, 0, 0)
		hr := newHandleDepth(name, rbs, 0, md)
		rec := &recWriter{}
		wconn := unitConn{bytes.NewReader(nil), rec}
		var sc rpc.ServerCodec
		var cc rpc.ClientCodec
		if response {
			sc = rpcOf(name).ServerCodec(wconn, hw)
		} else {
			cc = rpcOf(name).ClientCodec(wconn, hw)
		}
		bodies := make([]interface{}, k)
		nest := make([][]int, k)
		limit := md
		if limit == 0 {
			limit = 1024
		}
		expectNone := true
		for j := 0; j < k; j++ {
			var body interface{}
			switch r.Intn(4) {
			case 0:
				body = fmt.Sprintf("s%d", j)
			case 1:
				body = AddArgs{int64(j), 1}
			case 2:
				body = EchoArgs{S: "x", N: int64(j), L: []int32{1, 2}}
			default:
				d := 1
				if md > 0 && r.Chance(1, 12) {
					d = 1 + 2*r.Intn(3) // 1, 3 or 5: may reach the limit
				}
				body = nestedOf(d, j)
			}
			bodies[j] = body
			bn := nesting(reflect.ValueOf(body))
			if name == "spec" {
				if !response {
					bn++ // params = [body]
				}
				nest[j] = []int{0, 0, 0, bn}
			} else {
				nest[j] = []int{1, bn}
			}
			for _, x := range nest[j] {
				if x >= limit {
					expectNone = false
				}
			}
			var err error
			if response {
				err = sc.WriteResponse(&rpc.Response{ServiceMethod: "S.M", Seq: uint64(j + 1)}, body)
			} else {
				err = cc.WriteRequest(&rpc.Request{ServiceMethod: "S.M", Seq: uint64(j + 1)}, body)
			}
			if err != nil {
				sum.FailC("depth", "write:"+name, "writing a message into a memory connection failed", map[string]interface{}{"codec": name, "message": j})
			}
		}
		rd := &schedReader{data: rec.buf}
		rconn := unitConn{rd, &recWriter{}}
		fail := -1
		bad := ""
		finished := make(chan struct{})
		go func() {
			defer close(finished)
			defer func() {
				if x := recover(); x != nil {
					bad = "panic while reading messages"
				}
			}()
			var rsc rpc.ServerCodec
			var rcc rpc.ClientCodec
			if response {
				rcc = rpcOf(name).ClientCodec(rconn, hr)
			} else {
				rsc = rpcOf(name).ServerCodec(rconn, hr)
			}
			for j := 0; j < k; j++ {
				bp := reflect.New(reflect.TypeOf(bodies[j]))
				var err error
				var seq uint64
				if response {
					var hd rpc.Response
					if err = rcc.ReadResponseHeader(&hd); err == nil {
						seq = hd.Seq
						err = rcc.ReadResponseBody(bp.Interface())
					}
				} else {
					var hd rpc.Request
					if err = rsc.ReadRequestHeader(&hd); err == nil {
						seq = hd.Seq
						err = rsc.ReadRequestBody(bp.Interface())
					}
				}
				if err != nil {
					fail = j
					return
				}
				if seq != uint64(j+1) || vh.Canon(bp.Elem().Interface()) != vh.Canon(bodies[j]) {
					bad = "a message read on a long-lived connection differs from the one written"
					fail = j
					return
				}
			}
		}()
		select {
		case <-finished:
		case <-time.After(20 * time.Second):
			sum.FailC("depth", "hang:"+name, "reading messages from a memory connection did not end", map[string]interface{}{"codec": name, "maxdepth": md, "seed_index": i})
			continue
		}
		cj := map[string]interface{}{"codec": name, "maxdepth": md, "rbs": rbs, "response": response, "messages": k, "first_failed": fail, "seed_index": i}
		class := fmt.Sprintf("depth:%s:maxdepth%s", name, map[bool]string{true: "=default", false: "=set"}[md == 0])
		if bad != "" {
			sum.FailC("depth", class, bad, cj)
		} else if expectNone && fail >= 0 {
			sum.FailC("depth", class, "a codec stopped reading messages whose values all nest less than MaxDepth deep (decoder state not restored between messages)", cj)
		}
		of := "None"
		if fail >= 0 {
			of = fmt.Sprintf("(Some %d)", fail)
		}
		terms = append(terms, fmt.Sprintf("mkdcase %d %s %d %s %s", 100000+i, coqKind(name), md, coqNatLists(nest), of))
		key := fmt.Sprintf("depth/%s/m%d/%v/fail%v", name, md, response, fail >= 0)
		sum.Count("depth."+name, key)
		if fail >= 0 {
			sum.Dist["depth.limit-reached"]++
		}
		sum.ModelCases++
	}
	// own shards next to the unit stream's (same directory, evaluated by the same step)
	const per = 12
	for s := 0; s*per < len(terms); s++ {
		end := (s + 1) * per
		if end > len(terms) {
			end = len(terms)
		}
		var sb strings.Builder
		sb.WriteString("From Coq Require Import List NArith.\nFrom Verif Require Import C18.Model C18.Corr.\nImport ListNotations.\n")
		sb.WriteString("Definition cases : list dcase := [\n" + strings.Join(terms[s*per:end], ";\n") + "\n].\n")
		sb.WriteString("Definition M := Eval vm_compute in dmismatches cases.\nPrint M.\n")
		if err := os.WriteFile(filepath.Join(casesDir, fmt.Sprintf("cases_d%03d.v", s)), []byte(sb.String()), 0o644); err != nil {
			panic(err)
		}
	}
}

// longLived: ONE real net/rpc connection, a small (or the default) MaxDepth, several hundred
// sequential calls and then concurrent batches; every reply / server error matched to its call.
func longLived(cfg rpcConfig, maxDepth, seqCalls, concCalls int) (fails []vh.Failure, done int) {
	cj := cfg.json()
	cj["maxdepth"] = maxDepth
	cj["sequential"] = seqCalls
	cj["concurrent"] = concCalls
	fail := func(class, what string, extra map[string]interface{}) {
		c := map[string]interface{}{}
		for k, v := range cj {
			c[k] = v
		}
		for k, v := range extra {
			c[k] = v
		}
		fails = append(fails, vh.Failure{Stream: "longlived", Class: fmt.Sprintf("%s:%s:maxdepth%s", class, cfg.codec, map[bool]string{true: "=default", false: "=set"}[maxDepth == 0]), What: what, Case: c})
	}
	r := vh.NewRng(cfg.seed)
	cliRaw, srvRaw, err := newTransport(cfg.transport, cfg.seed)
	if err != nil {
		fail("transport", "the transport could not be set up", nil)
		return
	}
	defer cliRaw.Close()
	defer srvRaw.Close()
	h := newHandleDepth(cfg.codec, cfg.rbs, cfg.wbs, maxDepth)
	svc := &Svc{block: make(chan struct{})}
	defer close(svc.block)
	server := rpc.NewServer()
	if err := server.RegisterName("S", svc); err != nil {
		panic(err)
	}
	go server.ServeCodec(rpcOf(cfg.codec).ServerCodec(wrapConn(cfg.transport, srvRaw, cfg.seed), h))
	client := rpc.NewClientWithCodec(rpcOf(cfg.codec).ClientCodec(wrapConn(cfg.transport, cliRaw, cfg.seed+1), h))
	defer client.Close()

	check := func(i int, c callSpec, err error, phase string) bool {
		ex := map[string]interface{}{"call": i, "method": c.method, "phase": phase}
		if c.isErr {
			if err == nil {
				fail("lost-error", "a server-side error did not reach the caller as an error", ex)
				return false
			}
			if err.Error() != c.want {
				fail("wrong-error", "on a long-lived connection a call received an error other than the one its own call produced", ex)
				return false
			}
			return true
		}
		if err != nil {
			fail("call-error", "on a long-lived connection a call that succeeds on the server returned an error", ex)
			return false
		}
		if got := vh.Canon(deref(c.reply)); got != c.want {
			fail("wrong-reply", "on a long-lived connection a call received a reply that was not computed from its own arguments", ex)
			return false
		}
		return true
	}
	// Client.Go writes the request itself and blocks when the peer has stopped reading:
	// the whole call runs under the watchdog
	do := func(c callSpec) (error, bool) {
		ch := make(chan error, 1)
		go func() { ch <- client.Call(c.method, c.args, c.reply) }()
		select {
		case err := <-ch:
			return err, true
		case <-time.After(deadline):
			cliRaw.Close() // releases the blocked writer / reader of this run
			srvRaw.Close()
			return nil, false
		}
	}
	for i := 0; i < seqCalls; i++ {
		c := mkCall(r, i, cfg.codec)
		err, ok := do(c)
		if !ok {
			fail("hang", "a sequential call on a long-lived connection did not return within the deadline", map[string]interface{}{"call": i})
			return
		}
		if !check(i, c, err, "sequential") {
			return
		}
		done++
	}
	const batch = 16
	for base := 0; base < concCalls; base += batch {
		calls := make([]callSpec, batch)
		errs := make([]error, batch)
		oks := make([]bool, batch)
		var wg sync.WaitGroup
		for j := range calls {
			calls[j] = mkCall(r, seqCalls+base+j, cfg.codec)
			wg.Add(1)
			go func(j int) {
				defer wg.Done()
				errs[j], oks[j] = do(calls[j])
			}(j)
		}
		wg.Wait()
		for j := range calls {
			if !oks[j] {
				fail("hang", "a concurrent call on a long-lived connection did not return within the deadline", map[string]interface{}{"call": seqCalls + base + j})
				return
			}
			if !check(seqCalls+base+j, calls[j], errs[j], "concurrent") {
				return
			}
			done++
		}
	}
	return
}

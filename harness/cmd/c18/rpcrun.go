package main

import (
	"errors"
	"fmt"
	"io"
	"net/rpc"
	"sync"
	"sync/atomic"
	"time"

	"verifharness/vh"

	"github.com/ugorji/go/codec"
)

// ---- the service ----

type Svc struct {
	block chan struct{} // S.Block waits here
}

func spin(us int64) {
	if us > 0 {
		time.Sleep(time.Duration(us) * time.Microsecond)
	}
}

func echoF(a EchoArgs) EchoArgs {
	r := EchoArgs{S: "re:" + a.S, N: a.N*2 + 1}
	for i := len(a.B) - 1; i >= 0; i-- {
		r.B = append(r.B, a.B[i])
	}
	for _, x := range a.L {
		r.L = append(r.L, x+1)
	}
	return r
}

func (s *Svc) Echo(a *EchoArgs, r *EchoArgs) error {
	spin(a.N % 200) // replies leave in an order different from the requests
	*r = echoF(*a)
	return nil
}

func (s *Svc) Add(a *AddArgs, r *int64) error {
	spin(a.A % 120)
	*r = a.A + a.B
	return nil
}

func (s *Svc) Str(a *string, r *string) error {
	spin(int64(len(*a)) * 7 % 150) // the argument is looked at after later requests were read
	*r = *a + "|" + *a
	return nil
}

func (s *Svc) Fail(a *string, r *int) error {
	return errors.New("fail:" + *a)
}

func (s *Svc) Block(a *string, r *string) error {
	<-s.block
	*r = *a
	return nil
}

// one call of a run and what it must return
type callSpec struct {
	method string
	args   interface{}
	reply  interface{} // pointer
	want   string      // Canon of the expected reply, or the expected error string
	isErr  bool
}

func mkCall(r *vh.Rng, i int, codecName string) callSpec {
	switch r.Intn(6) {
	case 5:
		// a method the server does not know: it discards the body, whatever its shape, answers
		// with an error, and goes on with the calls queued behind
		body, _ := oddBody(r, codecName == "go-json", i)
		if r.Bool() {
			return callSpec{"Q.Zilch", body, new(int), "rpc: can't find service Q.Zilch", true}
		}
		return callSpec{"S.Nope", body, new(int), "rpc: can't find method S.Nope", true}
	case 0:
		a := AddArgs{int64(i*1000 + r.Intn(1000)), int64(r.Intn(1<<30)) - 1<<29}
		return callSpec{"S.Add", &a, new(int64), vh.Canon(a.A + a.B), false}
	case 1:
		s := fmt.Sprintf("e%d-%x", i, r.Bytes(r.Intn(4))) + escText(r, r.Intn(4))
		return callSpec{"S.Fail", &s, new(int), "fail:" + s, true}
	case 2:
		s := fmt.Sprintf("s%d-%x", i, r.Bytes(r.Intn(40))) + escText(r, r.Intn(10))
		return callSpec{"S.Str", &s, new(string), vh.Canon(s + "|" + s), false}
	default:
		a := EchoArgs{S: fmt.Sprintf("c%d-%x", i, r.Bytes(r.Intn(6))) + escText(r, r.Intn(8)), N: int64(i*1000 + r.Intn(1000))}
		if r.Bool() {
			a.B = r.Bytes(1 + r.Intn(300))
		}
		if r.Bool() {
			a.L = []int32{int32(i), int32(r.Intn(1 << 20))}
		}
		return callSpec{"S.Echo", &a, new(EchoArgs), vh.Canon(echoF(a)), false}
	}
}

type rpcConfig struct {
	codec     string
	transport string
	rbs, wbs  int
	n         int
	seed      uint64
	closeFail bool
}

type rpcResult struct {
	cfg       rpcConfig
	fails     []vh.Failure
	coalesced int
	done      int
	skipped   bool
}

func (c rpcConfig) class(what string) string {
	t := c.transport
	return fmt.Sprintf("%s:%s:rbs%s:wbs%s:%s", what, c.codec, zeroPos(c.rbs), zeroPos(c.wbs), t)
}

func (c rpcConfig) json() map[string]interface{} {
	return map[string]interface{}{"codec": c.codec, "transport": c.transport, "rbs": c.rbs, "wbs": c.wbs, "calls": c.n, "run_seed": c.seed}
}

var deadline = 8 * time.Second

// runRPC: one connection, N concurrent calls with distinct arguments, then the Close protocol.
func runRPC(cfg rpcConfig) (res rpcResult) {
	res.cfg = cfg
	fail := func(class, what string, extra map[string]interface{}) {
		cj := cfg.json()
		for k, v := range extra {
			cj[k] = v
		}
		res.fails = append(res.fails, vh.Failure{Stream: "rpc", Class: cfg.class(class), What: what, Case: cj})
	}
	r := vh.NewRng(cfg.seed)
	cliRaw, srvRaw, err := newTransport(cfg.transport, cfg.seed)
	if err != nil {
		fail("transport", "the transport could not be set up", map[string]interface{}{"error_class": "setup"})
		return
	}
	cli := &countConn{ReadWriteCloser: cliRaw, closeFail: cfg.closeFail}
	srv := &countConn{ReadWriteCloser: srvRaw}
	h := newHandle(cfg.codec, cfg.rbs, cfg.wbs)
	svc := &Svc{block: make(chan struct{})}
	server := rpc.NewServer()
	if err := server.RegisterName("S", svc); err != nil {
		panic(err)
	}
	scodec := rpcOf(cfg.codec).ServerCodec(wrapConn(cfg.transport, srv, cfg.seed), h)
	ccodec := rpcOf(cfg.codec).ClientCodec(wrapConn(cfg.transport, cli, cfg.seed+1), h)
	served := make(chan struct{})
	go func() { server.ServeCodec(scodec); close(served) }()
	client := rpc.NewClientWithCodec(ccodec)

	// cleanup that always releases every goroutine of this run
	var releaseOnce sync.Once
	release := func() {
		releaseOnce.Do(func() { close(svc.block) })
		cliRaw.Close()
		srvRaw.Close()
	}
	defer release()

	// ---- N concurrent calls ----
	calls := make([]callSpec, cfg.n)
	for i := range calls {
		calls[i] = mkCall(r, i, cfg.codec)
	}
	errs := make([]error, cfg.n)
	var wg sync.WaitGroup
	var completed int32
	start := make(chan struct{})
	for i := range calls {
		wg.Add(1)
		go func(i int) {
			defer wg.Done()
			<-start
			errs[i] = client.Call(calls[i].method, calls[i].args, calls[i].reply)
			atomic.AddInt32(&completed, 1)
		}(i)
	}
	close(start)
	allDone := make(chan struct{})
	go func() { wg.Wait(); close(allDone) }()
	select {
	case <-allDone:
	case <-time.After(deadline):
		fail("hang", "concurrent calls did not all return within the deadline", map[string]interface{}{"returned": atomic.LoadInt32(&completed)})
		release()
		select {
		case <-allDone:
		case <-time.After(deadline):
			fail("stuck", "calls still blocked after both ends of the connection were closed", nil)
		}
		return
	}
	res.coalesced = coalescedReads(srvRaw) + coalescedReads(cliRaw)
	for i, c := range calls {
		if c.isErr {
			if errs[i] == nil {
				fail("lost-error", "a server-side error did not reach the caller as an error", map[string]interface{}{"call": i, "method": c.method})
			} else if errs[i].Error() != c.want {
				fail("wrong-error", "the caller received an error other than the one its own call produced", map[string]interface{}{"call": i, "method": c.method, "want": c.want})
			}
			continue
		}
		if errs[i] != nil {
			fail("call-error", "a call that succeeds on the server returned an error", map[string]interface{}{"call": i, "method": c.method})
			continue
		}
		got := vh.Canon(deref(c.reply))
		if got != c.want {
			fail("wrong-reply", "a call received a reply that was not computed from its own arguments", map[string]interface{}{"call": i, "method": c.method, "want": c.want, "got": got})
		}
	}
	res.done = cfg.n

	// ---- a call pending while the client is closed ----
	pendingArg := "pending"
	var pendingReply string
	pc := client.Go("S.Block", &pendingArg, &pendingReply, make(chan *rpc.Call, 1))
	time.Sleep(200 * time.Microsecond)
	closed := make(chan error, 1)
	go func() { closed <- client.Close() }()
	var closeErr error
	select {
	case closeErr = <-closed:
	case <-time.After(deadline):
		fail("close-hang", "Client.Close did not return", nil)
		return
	}
	if cfg.closeFail != (closeErr != nil) {
		fail("close-result", "Close did not return what closing the connection returned", nil)
	}
	select {
	case c := <-pc.Done:
		if c.Error == nil {
			fail("pending-noerror", "a call pending during Close completed without an error", nil)
		}
	case <-time.After(deadline):
		fail("pending-hang", "a call pending during Close never returned", nil)
		return
	}
	// Close again, directly on the codec: same answer, the connection is closed once
	err2 := ccodec.Close()
	if (err2 != nil) != (closeErr != nil) {
		fail("close-twice", "the second Close returned something else than the first", nil)
	}
	if n := atomic.LoadInt32(&cli.closes); n != 1 {
		fail("close-count", "the connection was not closed exactly once by two Close calls", map[string]interface{}{"closes": n})
	}
	// operations after Close are refused and put nothing on the wire
	wb := atomic.LoadInt64(&cli.wbytes)
	if err := ccodec.WriteRequest(&rpc.Request{ServiceMethod: "S.Str", Seq: 99}, "x"); err == nil {
		fail("write-after-close", "WriteRequest after Close returned no error", nil)
	}
	if atomic.LoadInt64(&cli.wbytes) != wb {
		fail("write-after-close", "WriteRequest after Close wrote to the connection", nil)
	}
	rdone := make(chan error, 1)
	go func() { var hd rpc.Response; rdone <- ccodec.ReadResponseHeader(&hd) }()
	select {
	case err := <-rdone:
		if err == nil {
			fail("read-after-close", "ReadResponseHeader after Close returned no error", nil)
		}
	case <-time.After(deadline):
		fail("read-after-close", "ReadResponseHeader after Close blocked", nil)
	}
	// the server loop ends when the peer is gone, and closes its codec
	releaseOnce.Do(func() { close(svc.block) })
	select {
	case <-served:
	case <-time.After(deadline):
		fail("server-hang", "ServeCodec did not return after the client closed the connection", nil)
		return
	}
	if err := scodec.Close(); err != nil {
		fail("close-twice", "Close on the server codec after ServeCodec closed it returned an error", nil)
	}
	if n := atomic.LoadInt32(&srv.closes); n != 1 {
		fail("close-count", "the server connection was not closed exactly once", map[string]interface{}{"closes": n})
	}
	return
}

func deref(p interface{}) interface{} {
	switch x := p.(type) {
	case *int64:
		return *x
	case *int:
		return *x
	case *string:
		return *x
	case *EchoArgs:
		return *x
	}
	return p
}

// closeUnblocks: a codec blocked in a header read returns once Close is called from
// another goroutine (runtime behaviour of the transport + Close closing it).
func closeUnblocks(cfg rpcConfig) (fails []vh.Failure) {
	fail := func(class, what string) {
		fails = append(fails, vh.Failure{Stream: "close", Class: cfg.class(class), What: what, Case: cfg.json()})
	}
	cliRaw, srvRaw, err := newTransport(cfg.transport, cfg.seed)
	if err != nil {
		fail("transport", "the transport could not be set up")
		return
	}
	defer cliRaw.Close()
	defer srvRaw.Close()
	srv := &countConn{ReadWriteCloser: srvRaw}
	h := newHandle(cfg.codec, cfg.rbs, cfg.wbs)
	sc := rpcOf(cfg.codec).ServerCodec(wrapConn(cfg.transport, srv, cfg.seed), h)
	got := make(chan error, 1)
	go func() { var hd rpc.Request; got <- sc.ReadRequestHeader(&hd) }()
	time.Sleep(300 * time.Microsecond)
	if err := sc.Close(); err != nil {
		fail("close-result", "Close of an idle codec returned an error")
	}
	select {
	case err := <-got:
		if err == nil {
			fail("unblock", "a header read unblocked by Close returned no error")
		}
	case <-time.After(deadline):
		fail("unblock", "Close did not unblock a pending header read")
		return
	}
	if err := sc.Close(); err != nil {
		fail("close-twice", "the second Close returned an error")
	}
	if n := atomic.LoadInt32(&srv.closes); n != 1 {
		fail("close-count", "the connection was not closed exactly once by two Close calls")
	}
	wb := atomic.LoadInt64(&srv.wbytes)
	if err := sc.WriteResponse(&rpc.Response{ServiceMethod: "S.Str", Seq: 1}, "x"); err == nil {
		fail("write-after-close", "WriteResponse after Close returned no error")
	}
	if atomic.LoadInt64(&srv.wbytes) != wb {
		fail("write-after-close", "WriteResponse after Close wrote to the connection")
	}
	var hd rpc.Request
	if err := sc.ReadRequestHeader(&hd); err == nil {
		fail("read-after-close", "ReadRequestHeader after Close returned no error")
	}
	if err := sc.ReadRequestBody(nil); err == nil {
		fail("read-after-close", "ReadRequestBody after Close returned no error")
	}
	return
}

var _ = io.EOF
var _ codec.Handle

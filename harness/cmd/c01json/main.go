// c01json: correspondence of the json driver record of property C01 (Coq: C01/ComposeJson.v
// W_json, evaluated by C01/CorrJson.v) with the real json Decoder.
//
// Stream "jmodel": random static type x value x JsonHandle / generic option vector; the value is
// encoded by the real json Encoder, the TEXT is decoded by the real Decoder into new(T); type,
// text, the float64 reading of every number token (real parseFloat64, through the verif hook) and
// the decoded value are written as Coq terms.  The Coq side tokenizes the text with the json wire
// model and reads it through the typed reads j_rd_* of the driver record; it must reproduce the
// decoded value.  Direct oracle here: Encode and Decode of the encoder's own output succeed (the
// value-level round trip oracle over all formats is harness/cmd/c01's).
package main

import (
	"flag"
	"fmt"
	"reflect"
	"sort"
	"strings"

	"verifharness/vh"

	"github.com/ugorji/go/codec"
)

func coqOpts(o vh.Opts) string {
	b := func(k string) string { v, _ := o[k].(bool); return vh.CoqBool(v) }
	return fmt.Sprintf("(mkgopts %s %s %s 0%%Z %s)", b("StructToArray"), b("Canonical"), b("NilCollectionToZeroLength"), b("ErrorIfNoField"))
}

func isNumChar(c byte) bool {
	return c >= '0' && c <= '9' || c == '.' || c == '+' || c == '-' || c == 'e' || c == 'E'
}

// numberTexts returns every maximal run of number characters outside string literals, and the raw
// content of every string literal that consists of number characters only (quoted numbers: map keys
// under MapKeyAsString, IntegerAsString).
func numberTexts(txt []byte) map[string]bool {
	out := map[string]bool{}
	i := 0
	for i < len(txt) {
		c := txt[i]
		switch {
		case c == '"':
			j := i + 1
			allNum := true
			for j < len(txt) && txt[j] != '"' {
				if txt[j] == '\\' {
					allNum = false
					j++
				} else if !isNumChar(txt[j]) {
					allNum = false
				}
				j++
			}
			if allNum && j > i+1 && j <= len(txt) {
				out[string(txt[i+1:j])] = true
			}
			i = j + 1
		case isNumChar(c):
			j := i
			for j < len(txt) && isNumChar(txt[j]) {
				j++
			}
			out[string(txt[i:j])] = true
			i = j
		default:
			i++
		}
	}
	return out
}

func coqTables(txt []byte) (string, int) {
	var ks []string
	for k := range numberTexts(txt) {
		ks = append(ks, k)
	}
	sort.Strings(ks)
	var es []string
	for _, k := range ks {
		if bits, ok := codec.VerifWjsonParseFloat64([]byte(k)); ok {
			es = append(es, fmt.Sprintf("(%s, %d%%N)", vh.CoqBytes([]byte(k)), bits))
		}
	}
	return "(Json.mktables [] [] [" + strings.Join(es, "; ") + "] [])", len(es)
}

func hasFloatKey(t reflect.Type) bool {
	if t == vh.TimeType {
		return false
	}
	switch t.Kind() {
	case reflect.Map:
		k := t.Key().Kind()
		return k == reflect.Float32 || k == reflect.Float64 || hasFloatKey(t.Elem())
	case reflect.Ptr, reflect.Slice, reflect.Array:
		return hasFloatKey(t.Elem())
	case reflect.Struct:
		for i := 0; i < t.NumField(); i++ {
			if hasFloatKey(t.Field(i).Type) {
				return true
			}
		}
	}
	return false
}

func main() {
	n := flag.Int("n", 300, "cases")
	cases := flag.String("cases", "/verif/build/c01json/cases", "directory for the model case files")
	flag.Parse()
	r := vh.NewRng(vh.SeedFromEnv())
	sum := vh.NewSummary("jmodel: json, random static type (reflect-built structs with rename tags) x value x JsonHandle (Indent, IntegerAsString, HTMLCharsAsIs, MapKeyAsString, TermWhitespace, StringToRaw) / generic (StructToArray, Canonical, NilCollectionToZeroLength, ErrorIfNoField) option vector; the real encoder's text, the real parseFloat64 reading of its number tokens and the real decoder's output are compared with the Coq json driver record (tokenizer + typed reads j_rd_*). distinct_nontrivial = distinct (type shape, option vector) pairs of successfully evaluated cases")
	hdr := "From Coq Require Import List NArith ZArith.\nFrom Verif Require Import Wire.Item Generic.Types Generic.Enc Generic.Dec C01.Model C01.CorrJson.\nFrom Verif Require Wire.Json.\nImport ListNotations."
	cv := vh.NewCases(*cases, hdr, "jcase", "jmismatches", 40)
	for i := 0; i < *n; i++ {
		to := vh.TypeOpts{MaxDepth: 1 + r.Intn(4), Tags: true}
		t := vh.StripOmitEmpty(vh.RandType(r, to, 0))
		tyTerm, err := vh.CoqTy(t)
		if err != nil {
			sum.Dist["jmodel.skipped-type"]++
			continue
		}
		vo := vh.ValOpts{MaxLen: 5, RawStrings: r.Chance(1, 8)}
		// NaN / +-Inf are written as null.  As a VALUE that is worth checking (null reads back as 0); as a MAP
		// KEY it leaves the domain of both models: two such keys are the same key null (a repeated key is not
		// modelled by Wire/Json.v), and null read as 0.0 next to a key -0.0 makes Go's map assignment replace
		// the stored key (needkeyupdate for floats), which Generic/Dec.v's mset does not do.
		if hasFloatKey(t) || r.Chance(1, 2) {
			vo.NoNaN, vo.NoInf = true, true
		}
		v := vh.RandValue(r, t, vo)
		o := vh.RandEncOpts(r, "json")
		delete(o, "OptimumSize")
		if r.Chance(1, 4) {
			o["NilCollectionToZeroLength"] = true
		}
		if r.Chance(1, 6) {
			o["ErrorIfNoField"] = true
		}
		h := vh.NewHandle("json", o)
		var arg interface{} = v.Interface()
		if r.Chance(1, 3) {
			p := reflect.New(t)
			p.Elem().Set(v)
			arg = p.Interface()
		}
		var txt []byte
		cj := map[string]interface{}{"format": "json", "opts": o.String(), "type": t.String(), "shape": vh.TypeShape(t), "seed_index": i}
		if err := codec.NewEncoderBytes(&txt, h).Encode(arg); err != nil {
			cj["err"] = err.Error()
			sum.FailC("jmodel", "encode-error:json:"+vh.DescribeKind(t), "Encode of a supported value returned an error", cj)
			continue
		}
		hx := string(txt)
		if len(hx) > 3000 {
			hx = hx[:3000] + "..."
		}
		cj["text"] = hx
		dst := reflect.New(t)
		if err := codec.NewDecoderBytes(txt, h).Decode(dst.Interface()); err != nil {
			cj["err"] = err.Error()
			sum.FailC("jmodel", "decode-error:json:"+vh.DescribeKind(t), "Decode of the encoder's own output returned an error", cj)
			continue
		}
		tab, nnum := coqTables(txt)
		cv.Add(fmt.Sprintf("mkjcase %d %s %s %s %s %s", i, coqOpts(o), tyTerm, vh.CoqBytes(txt), tab, vh.CoqVal(dst.Elem())))
		sum.ModelCases++
		sum.Count("jmodel.json", "jmodel/"+vh.TypeShape(t)+"/"+o.String())
		sum.Dist[fmt.Sprintf("jmodel.typedepth%d", vh.TypeDepth(t))]++
		if nnum > 0 {
			sum.Dist["jmodel.with-number-tokens"]++
		}
		vh.KindsOf(t, sum.Dist)
		for k, x := range o {
			if b, ok := x.(bool); ok && b {
				sum.Dist["jmodel.opt."+k]++
			} else if !ok {
				sum.Dist["jmodel.opt."+k]++
			}
		}
		if i < 2 {
			sum.Sample(cj)
		}
	}
	cv.Close()
	sum.Print()
}

// hand: hand-written-style documents (property C09, reading direction; Coq: C09_doc_decodes /
// C09_doc_accepts over Wire/JsonAccept.v).  A random tree is WRITTEN FROM THE GRAMMAR, not by an
// encoder: runs of the four RFC 8259 white-space bytes before, between and after all tokens,
// members in random order, number literals of every shape of the grammar ([-] int [frac] [exp],
// e/E, signs, -0, 64-bit boundaries, exponents beyond float64), string literals made of raw
// ASCII / multi-byte UTF-8, the eight two-character escapes and \uXXXX escapes (\u0000, either
// hex case, surrogate pairs, lone surrogates; the class of known finding F09-2r -- a surrogate
// escape directly followed by a \u escape it does not pair with -- is not generated).
//
// Each document is decoded once by the real Decoder into interface{}:
//   - CSeq case: outcome class, NumBytesRead and tree vs the model (dec_naked), all option vectors;
//   - direct oracle, independent of the model and of any JSON library: a document whose nesting is
//     below MaxDepth and whose numbers are in range must be accepted; strings must equal the string
//     the generator denotes; a number must come back as the Go type the number-kind rule assigns
//     (uint64 / int64 / float64 by literal shape, PreferFloat, SignedInteger) with the exact integer
//     value resp. the bits of strconv.ParseFloat; arrays in order; objects with exactly the members.
package main

import (
	"bytes"
	"fmt"
	"math"
	"math/big"
	"strconv"
	"unicode/utf8"

	"verifharness/vh"
)

type hval struct {
	kind int // 0 null, 1 bool, 2 number, 3 string, 4 array, 5 object
	b    bool
	lit  string
	s    string
	arr  []*hval
	keys []string
	vals []*hval
}

type hgen struct {
	r        *vh.Rng
	safeKeys bool // keys are read as bool / number where they look like one: keep them unambiguous
	out      bytes.Buffer
}

func (g *hgen) ws() {
	n := g.r.PickInt(0, 0, 0, 1, 1, 2, 3)
	for i := 0; i < n; i++ {
		g.out.WriteByte(" \t\n\r"[g.r.Intn(4)])
	}
}

func (g *hgen) digits(n int) string {
	b := make([]byte, n)
	for i := range b {
		b[i] = byte('0' + g.r.Intn(10))
	}
	return string(b)
}

var handInts = []string{"0", "1", "9", "10", "255", "9007199254740992", "9007199254740993", "9223372036854775807", "9223372036854775808",
	"9223372036854775809", "18446744073709551615", "18446744073709551616", "99999999999999999999", "1844674407370955161", "1844674407370955162"}

func (g *hgen) numLit() string {
	r := g.r
	var s string
	if r.Chance(1, 3) {
		s = "-"
	}
	switch {
	case r.Chance(1, 4):
		s += "0"
	case r.Chance(1, 4):
		s += handInts[r.Intn(len(handInts))]
	default:
		s += string(byte('1'+r.Intn(9))) + g.digits(r.PickInt(0, 0, 1, 2, 5, 15, 18, 19, 20, 25))
	}
	if r.Chance(1, 3) {
		s += "." + g.digits(r.PickInt(1, 1, 2, 3, 6, 17, 30))
	}
	if r.Chance(1, 3) {
		s += r.PickString("e", "E") + r.PickString("", "+", "-") + r.PickString("0", "1", "2", "5", "10", "22", "23", "05", "007", "300", "308", "309", "324", "400")
	}
	return s
}

const hexLower = "0123456789abcdef"
const hexUpper = "0123456789ABCDEF"

func (g *hgen) u4(v int) string {
	h := hexLower
	if g.r.Bool() {
		h = hexUpper
	}
	return "\\u" + string([]byte{h[v>>12&15], h[v>>8&15], h[v>>4&15], h[v&15]})
}

// one string literal: (text between the quotes, denoted string)
func (g *hgen) strLit() (string, string) {
	r := g.r
	n := r.PickInt(0, 1, 2, 3, 5, 8, 12)
	var lit, den []byte
	plainNext := false
	for i := 0; i < n; i++ {
		k := r.Intn(12)
		if plainNext {
			k = 0
			plainNext = false
		}
		switch k {
		case 0, 1, 2, 3:
			c := byte(0x20 + r.Intn(0x60))
			if c == '"' || c == '\\' {
				c = 'a'
			}
			lit = append(lit, c)
			den = append(den, c)
		case 4:
			m := multiByte[r.Intn(len(multiByte))]
			lit = append(lit, m...)
			den = append(den, m...)
		case 5, 6:
			e := `"\/bfnrt`[r.Intn(8)]
			lit = append(lit, '\\', e)
			den = append(den, map[byte]byte{'"': '"', '\\': '\\', '/': '/', 'b': 8, 'f': 12, 'n': 10, 'r': 13, 't': 9}[e])
		case 7, 8:
			v := r.PickInt(0, 0x41, 0xe9, 0x22, 0x5c, 0x7f, 0x80, 0x7ff, 0x800, 0x2028, 0xd7ff, 0xe000, 0xfffd, 0xffff, r.Intn(0xd800))
			lit = append(lit, g.u4(v)...)
			den = utf8.AppendRune(den, rune(v))
		case 9:
			hi, lo := 0xd800+r.Intn(0x400), 0xdc00+r.Intn(0x400)
			lit = append(lit, g.u4(hi)...)
			lit = append(lit, g.u4(lo)...)
			den = utf8.AppendRune(den, rune(0x10000+(hi-0xd800)<<10+(lo-0xdc00)))
		case 10:
			lit = append(lit, g.u4(0xd800+r.Intn(0x400))...) // lone high surrogate
			den = utf8.AppendRune(den, utf8.RuneError)
			plainNext = true
		case 11:
			lit = append(lit, g.u4(0xdc00+r.Intn(0x400))...) // lone low surrogate
			den = utf8.AppendRune(den, utf8.RuneError)
			plainNext = true
		}
	}
	return string(lit), string(den)
}

func (g *hgen) value(depth int) *hval {
	r := g.r
	k := r.Intn(9)
	if depth > 0 && r.Chance(1, 2) {
		k = 7 + r.Intn(2)
	}
	if depth <= 0 && k >= 7 {
		k = r.Intn(7)
	}
	switch k {
	case 0:
		g.out.WriteString("null")
		return &hval{kind: 0}
	case 1:
		b := r.Bool()
		g.out.WriteString(strconv.FormatBool(b))
		return &hval{kind: 1, b: b}
	case 2, 3, 4:
		l := g.numLit()
		g.out.WriteString(l)
		return &hval{kind: 2, lit: l}
	case 5, 6:
		l, d := g.strLit()
		g.out.WriteString(`"` + l + `"`)
		return &hval{kind: 3, s: d}
	case 7:
		v := &hval{kind: 4}
		g.out.WriteByte('[')
		n := r.PickInt(0, 1, 2, 3, 4)
		for i := 0; i < n; i++ {
			if i > 0 {
				g.out.WriteByte(',')
			}
			g.ws()
			v.arr = append(v.arr, g.value(depth-1))
			g.ws()
		}
		if n == 0 {
			g.ws()
		}
		g.out.WriteByte(']')
		return v
	default:
		v := &hval{kind: 5}
		g.out.WriteByte('{')
		n := r.PickInt(0, 1, 2, 3, 4)
		seen := map[string]bool{}
		numKey := false
		for i := 0; i < n; i++ {
			var l, d string
			for try := 0; ; try++ {
				if g.safeKeys {
					if !numKey && r.Chance(1, 4) {
						l = r.PickString("true", "false", "0", "-1", "12", "1.5", "-2.5e-3", "1E2", "18446744073709551615", "-9223372036854775808")
						numKey = true
					} else {
						l = "k" + string(byte('a'+r.Intn(26))) + string(byte('a'+r.Intn(26)))
					}
					d = l
				} else {
					l, d = g.strLit()
				}
				if !seen[d] {
					break
				}
				if try > 20 {
					l = fmt.Sprintf("key%d", i)
					d = l
					break
				}
			}
			seen[d] = true
			if i > 0 {
				g.out.WriteByte(',')
			}
			g.ws()
			g.out.WriteString(`"` + l + `"`)
			g.ws()
			g.out.WriteByte(':')
			g.ws()
			v.keys = append(v.keys, d)
			v.vals = append(v.vals, g.value(depth-1))
			g.ws()
		}
		if n == 0 {
			g.ws()
		}
		g.out.WriteByte('}')
		return v
	}
}

func (v *hval) depth() int {
	d := 0
	for _, c := range v.arr {
		d = max(d, c.depth())
	}
	for _, c := range v.vals {
		d = max(d, c.depth())
	}
	if v.kind >= 4 {
		return d + 1
	}
	return d
}

var two63 = new(big.Int).Lsh(big.NewInt(1), 63)
var two64 = new(big.Int).Lsh(big.NewInt(1), 64)

// the number-kind rule, written from the documentation of DecodeNaked / PreferFloat / SignedInteger
// kind: 'u' uint64, 'i' int64, 'f' float64, 'x' refused
func numKind(lit string, o dopts) (kind byte, mag *big.Int, neg bool, bits uint64) {
	isInt := true
	for i := 0; i < len(lit); i++ {
		if c := lit[i]; c == '.' || c == 'e' || c == 'E' {
			isInt = false
		}
	}
	neg = lit[0] == '-'
	flt := func() (byte, *big.Int, bool, uint64) {
		f, err := strconv.ParseFloat(lit, 64)
		if err != nil {
			return 'x', nil, neg, 0
		}
		return 'f', nil, neg, math.Float64bits(f)
	}
	if o.preferFloat || !isInt {
		return flt()
	}
	mag, _ = new(big.Int).SetString(lit, 10)
	mag.Abs(mag)
	switch {
	case neg && mag.Cmp(two63) > 0, !neg && mag.Cmp(two64) >= 0:
		return flt()
	case neg:
		return 'i', mag, true, 0
	case o.signed && mag.Cmp(two63) >= 0:
		return 'x', nil, false, 0
	case o.signed:
		return 'i', mag, false, 0
	}
	return 'u', mag, false, 0
}

func (v *hval) acceptable(o dopts) bool {
	if v.kind == 2 {
		k, _, _, _ := numKind(v.lit, o)
		return k != 'x'
	}
	for _, c := range v.arr {
		if !c.acceptable(o) {
			return false
		}
	}
	for _, c := range v.vals {
		if !c.acceptable(o) {
			return false
		}
	}
	return true
}

// compare what the Decoder returned with what the document denotes; "" = same
func (v *hval) diff(got interface{}, o dopts, path string) string {
	switch v.kind {
	case 0:
		if got != nil {
			return path + ": null came back as " + fmt.Sprintf("%T", got)
		}
	case 1:
		if b, ok := got.(bool); !ok || b != v.b {
			return path + ": bool came back as " + fmt.Sprintf("%T %v", got, got)
		}
	case 2:
		kind, mag, neg, bits := numKind(v.lit, o)
		switch x := got.(type) {
		case uint64:
			if kind != 'u' || mag.Cmp(new(big.Int).SetUint64(x)) != 0 {
				return fmt.Sprintf("%s: literal %s (rule: %c) came back as uint64 %d", path, v.lit, kind, x)
			}
		case int64:
			want := new(big.Int)
			if mag != nil {
				want.Set(mag)
			}
			if neg {
				want.Neg(want)
			}
			if kind != 'i' || want.Cmp(big.NewInt(x)) != 0 {
				return fmt.Sprintf("%s: literal %s (rule: %c) came back as int64 %d", path, v.lit, kind, x)
			}
		case float64:
			if kind != 'f' || math.Float64bits(x) != bits {
				return fmt.Sprintf("%s: literal %s (rule: %c, strconv bits %#x) came back as float64 bits %#x", path, v.lit, kind, bits, math.Float64bits(x))
			}
		default:
			return fmt.Sprintf("%s: literal %s came back as %T", path, v.lit, got)
		}
	case 3:
		if s, ok := got.(string); !ok || s != v.s {
			return fmt.Sprintf("%s: string %q came back as %T %q", path, v.s, got, got)
		}
	case 4:
		a, ok := got.([]interface{})
		if !ok || len(a) != len(v.arr) {
			return fmt.Sprintf("%s: array of %d came back as %T", path, len(v.arr), got)
		}
		for i, c := range v.arr {
			if d := c.diff(a[i], o, fmt.Sprintf("%s[%d]", path, i)); d != "" {
				return d
			}
		}
	case 5:
		get := func(k string) (interface{}, bool) { return nil, false }
		n := -1
		switch m := got.(type) {
		case map[string]interface{}:
			n = len(m)
			get = func(k string) (interface{}, bool) { x, ok := m[k]; return x, ok }
		case map[interface{}]interface{}:
			n = len(m)
			get = func(k string) (interface{}, bool) { x, ok := m[k]; return x, ok }
		}
		if n != len(v.keys) {
			return fmt.Sprintf("%s: object of %d members came back as %T of %d", path, len(v.keys), got, n)
		}
		for i, k := range v.keys {
			x, ok := get(k)
			if !ok {
				return fmt.Sprintf("%s: member %q is missing", path, k)
			}
			if d := v.vals[i].diff(x, o, path+"."+k); d != "" {
				return d
			}
		}
	}
	return ""
}

func (c *ctx) handStream(n int) {
	for i := 0; i < n; i++ {
		o := randDopts(c.r)
		g := &hgen{r: c.r, safeKeys: o.dkeyAsStr && o.mapIntf}
		if c.r.Chance(3, 4) {
			g.ws()
		}
		depth := c.r.PickInt(0, 1, 2, 2, 3, 3, 4)
		v := g.value(depth)
		if c.r.Chance(2, 3) {
			g.ws()
		}
		in := g.out.Bytes()
		if len(in) > 700 {
			i--
			continue
		}
		res := c.seqCase("hand", o, in, []int{mDec}, "hand")
		md := o.maxDepth
		if md <= 0 {
			md = 1024
		}
		d := v.depth()
		c.sum.Dist[fmt.Sprintf("hand.depth%d", d)]++
		if len(res) == 0 {
			continue
		}
		cj := map[string]interface{}{"input": shortHex(in), "text": shortText(in), "opts": o.String()}
		must := d < md && v.acceptable(o)
		if !must {
			c.sum.Dist["hand.not-required"]++
			if res[0].cls == clsOK && d >= md {
				c.sum.FailC("hand", "hand:depth", "a document nested to MaxDepth or deeper was accepted", cj)
			}
			continue
		}
		if res[0].cls != clsOK {
			cj["cls"] = res[0].cls
			cj["err"] = res[0].errs
			c.sum.FailC("hand", "hand:refused", "a valid hand-written document within the supported range (nesting below MaxDepth, numbers in range) was refused", cj)
			continue
		}
		if o.dkeyAsStr && o.mapIntf {
			c.sum.Dist["hand.keys-as-values"]++ // member names come back as bool / number: covered by the model case only
			continue
		}
		if df := v.diff(res[0].val, o, "$"); df != "" {
			cj["diff"] = clip(df, 300)
			c.sum.FailC("hand", "hand:data", "a valid hand-written document decoded to other data than it denotes", cj)
		}
	}
}

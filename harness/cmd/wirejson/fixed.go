package main

// Stream "fixed": deterministic inputs for two classes the random streams only hit by chance.
//
// (a) floats the encoder writes as BARE INTEGER LITERALS (json forces a fractional digit only below
//     2^52 / 2^23: jsonFloatStrconvFmtPrec64/32), on both sides of 2^63, decoded into interface{} under
//     every (SignedInteger, PreferFloat) pair: below 2^63 they come back as integers, in [2^63, 2^64)
//     they are refused under SignedInteger without PreferFloat (parseNumber: ParseInt overflow) --
//     the class the guard num_read_ok of the leaf laws (Wire/JsonRT.v) excludes, known finding F15-1.
// (b) quoted map keys that the lenient number reader would take but that are not JSON number literals
//     (".5", "1.", "-", "e5", "+5", "007"; repair F09-4: jsonIsNumberLiteral guards the number reading of a
//     quoted key), next to keys that are literals, under every MapKeyAsString / MapType / SignedInteger /
//     PreferFloat vector of the decoder.
// Every input becomes a CSeq case (model against implementation, value and error class).

import (
	"fmt"
	"math"

	"github.com/ugorji/go/codec"
)

func (c *ctx) fixedStream() {
	f64s := []float64{1 << 52, 1<<53 + 2, 1e16, 1e17, 9223372036854774784, 9223372036854775808, 1e19, 18446744073709549568,
		-9223372036854775808, -1e19, 1e20, 4503599627370495.5}
	f32s := []float32{16777216, 8388608, 1e19, 9223372036854775808, 9223371487098961920, -1e19, 8388607.5}
	var texts [][]byte
	enc := func(v interface{}) {
		var out []byte
		if err := codec.NewEncoderBytes(&out, encHandle(eopts{})).Encode(v); err != nil {
			c.sum.FailC("fixed", "encode:error", "Encode of a float returned an error", map[string]interface{}{"value": fmt.Sprint(v), "err": err.Error()})
			return
		}
		texts = append(texts, out)
	}
	for _, f := range f64s {
		enc(f)
	}
	for _, f := range f32s {
		enc(f)
	}
	enc([]interface{}{float64(1e19), float64(1e16)})
	enc(map[string]interface{}{"a": float64(9223372036854775808)})
	for _, t := range texts {
		bare := true
		for _, b := range t {
			if b == '.' || b == 'e' || b == 'E' {
				bare = false
			}
		}
		for _, signed := range []bool{false, true} {
			for _, pf := range []bool{false, true} {
				o := dopts{signed: signed, preferFloat: pf}
				for _, tail := range []string{"", " ", ",1"} {
					in := append(append([]byte{}, t...), tail...)
					c.seqCase("fixed", o, in, []int{mDec}, "bareint-float")
				}
				c.seqCase("fixed", o, t, []int{c.rawMode()}, "bareint-float")
				if bare {
					c.sum.Dist[fmt.Sprintf("fixed.float-as-bare-integer.signed=%v.preferfloat=%v", signed, pf)]++
				}
			}
		}
	}
	_ = math.Pi
	keys := []string{".5", "1.", "-", "e5", "+5", "007", "-.5", "1e", "1e+", "0x10", " 1", "1e400", "-0", "0", "12", "-1.5e3", "1e5", "1.0",
		"18446744073709551615", "18446744073709551616", "9223372036854775808", "-9223372036854775809", "true", "false", "null", "tru", ""}
	for _, k := range keys {
		for _, in := range []string{`{"` + k + `":1}`, `{"` + k + `":{"` + k + `":[]}}`, `["` + k + `"]`} {
			for v := 0; v < 16; v++ {
				o := dopts{dkeyAsStr: v&1 != 0, mapIntf: v&2 != 0, signed: v&4 != 0, preferFloat: v&8 != 0}
				c.seqCase("fixed", o, []byte(in), []int{mDec}, "quoted-key")
			}
		}
		c.sum.Dist["fixed.quoted-key-inputs"]++
	}
}

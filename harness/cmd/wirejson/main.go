// wirejson: correspondence and direct oracles for the wire layer of the json format
// (json.go, json.base.go, the json helpers of bytesDecReader) against the model
// coq/theories/Wire/Json.v (checker: Wire/JsonCorr.v).
//
// Streams
//
//	enc    random item trees -> Go values (interface{} trees, typed slices, real maps,
//	       MapBySlice) -> ONE Encoder.Encode under random JsonHandle options; the bytes go
//	       to the model (CEnc) together with the float / time texts the real encoder writes
//	       for the leaves; direct oracles: Decode(&interface{}) reads the value back and
//	       stops right behind it, Decode(&Raw) captures exactly the value, an unknown struct
//	       field is skipped exactly, encoding/json.Valid accepts the text.
//	valid  earlier encodings re-spaced with random whitespace (every byte < 33), 1..4 of them
//	       on ONE Decoder, each call Decode(&interface{}) or nextValueBytes (Decode(&Raw) /
//	       the hook), one more call after the last document (CSeq).
//	hand   hand-written-style documents written from the grammar (hand.go): white-space runs around
//	       all tokens, every number / string literal shape, one Decode(&interface{}) (CSeq) plus a
//	       direct oracle on acceptance and data (property C09, reading direction).
//	mut    one or two edits of a valid document, 2 calls (CSeq).
//	rand   short inputs over a json-ish alphabet, up to 3 calls, and a list of crafted inputs
//	       under several decode options (CSeq).
//	first  all 256 first bytes x tails (CSeq, one call); the default is a reduced sweep (all tails
//	       for the bytes json gives a meaning to, one rotating tail for the rest, the two option
//	       sets alternating); -firstfull runs the whole product.
//	regr   direct oracles for the repaired defect FWjson-1.
//	deep   subprocesses with debug.SetMaxStack(64<<20): deep nesting on every path;
//	       a process death or hang is a classed oracle failure.
//
// Every real decode runs under a watchdog (goroutine + timeout).
package main

import (
	"bytes"
	"encoding/base64"
	"encoding/hex"
	stdjson "encoding/json"
	"errors"
	"flag"
	"fmt"
	"io"
	"math"
	"os"
	"os/exec"
	"reflect"
	"runtime/debug"
	"sort"
	"strconv"
	"strings"
	"sync"
	"time"

	"verifharness/vh"

	"github.com/ugorji/go/codec"
)

// ---------------------------------------------------------------- items

type Kind int

const (
	KNil Kind = iota
	KBool
	KInt
	KUint
	KF32
	KF64
	KStr
	KBytes
	KArr
	KMap
	KTime
)

type Item struct {
	K    Kind
	B    bool
	I    int64
	U    uint64 // uint value, float bits, time nsec
	S    []byte
	L    []*Item
	M    [][2]*Item
	Sec  int64
	Flav int // how the Go value is built (typed variants)
}

const zeroTimeSec = -62135596800

func coqZ(v int64) string { return fmt.Sprintf("(%d)%%Z", v) }

// coqBytes prints a byte list; runs of 64 or more equal bytes become [repeat b (N.to_nat k)]
// (a literal of tens of thousands of elements overflows coqc's stack).
func coqBytes(b []byte) string {
	if len(b) < 200 {
		return vh.CoqBytes(b)
	}
	var parts []string
	lit := []byte{}
	flush := func() {
		if len(lit) > 0 {
			parts = append(parts, vh.CoqBytes(lit))
			lit = []byte{}
		}
	}
	for i := 0; i < len(b); {
		j := i
		for j < len(b) && b[j] == b[i] {
			j++
		}
		if j-i >= 64 {
			flush()
			parts = append(parts, fmt.Sprintf("repeat %d%%N (N.to_nat %d)", b[i], j-i))
		} else {
			lit = append(lit, b[i:j]...)
		}
		i = j
	}
	flush()
	return "(" + strings.Join(parts, " ++ ") + ")"
}

func (it *Item) Coq() string {
	switch it.K {
	case KNil:
		return "INil"
	case KBool:
		return "(IBool " + vh.CoqBool(it.B) + ")"
	case KInt:
		return "(IInt " + coqZ(it.I) + ")"
	case KUint:
		return fmt.Sprintf("(IUint %d%%N)", it.U)
	case KF32:
		return fmt.Sprintf("(IF32 %d%%N)", it.U)
	case KF64:
		return fmt.Sprintf("(IF64 %d%%N)", it.U)
	case KStr:
		return "(IStr " + coqBytes(it.S) + ")"
	case KBytes:
		return "(IBytes " + coqBytes(it.S) + ")"
	case KTime:
		return fmt.Sprintf("(ITime %s %d%%N)", coqZ(it.Sec), it.U)
	case KArr:
		xs := make([]string, len(it.L))
		for i, x := range it.L {
			xs[i] = x.Coq()
		}
		return "(IArr [" + strings.Join(xs, "; ") + "])"
	case KMap:
		xs := make([]string, len(it.M))
		for i, kv := range it.M {
			xs[i] = "(" + kv[0].Coq() + ", " + kv[1].Coq() + ")"
		}
		return "(IMap [" + strings.Join(xs, "; ") + "])"
	}
	panic("kind")
}

func (it *Item) Depth() int {
	d := 0
	for _, x := range it.L {
		d = max(d, x.Depth())
	}
	for _, kv := range it.M {
		d = max(d, kv[0].Depth(), kv[1].Depth())
	}
	if it.K == KArr || it.K == KMap {
		return d + 1
	}
	return 0
}

func (it *Item) isZeroTime() bool { return it.K == KTime && it.Sec == zeroTimeSec && it.U == 0 }

func (it *Item) f64() float64 {
	if it.K == KF32 {
		return float64(math.Float32frombits(uint32(it.U)))
	}
	return math.Float64frombits(it.U)
}

func (it *Item) floatSpecial() bool {
	f := it.f64()
	return math.IsNaN(f) || math.IsInf(f, 0)
}

// mbs encodes as a map with the entries in slice order (codec.MapBySlice).
type mbs []interface{}

func (mbs) MapBySlice() {}

// ---------------------------------------------------------------- options

type eopts struct {
	indent                                            int
	intAsStr                                          byte
	htmlAsIs, termWs, keyAsStr, bytesArr, stringToRaw bool
}

type dopts struct {
	preferFloat, signed, dkeyAsStr, mapIntf bool
	maxDepth                                int
}

func (o eopts) Coq() string {
	return fmt.Sprintf("(mkeopts %s %d%%N %s %s %s %s %s)", coqZ(int64(o.indent)), o.intAsStr, vh.CoqBool(o.htmlAsIs),
		vh.CoqBool(o.termWs), vh.CoqBool(o.keyAsStr), vh.CoqBool(o.bytesArr), vh.CoqBool(o.stringToRaw))
}

func (o dopts) Coq() string {
	return fmt.Sprintf("(mkdopts %s %s %s %s %s)", vh.CoqBool(o.preferFloat), vh.CoqBool(o.signed), vh.CoqBool(o.dkeyAsStr),
		vh.CoqBool(o.mapIntf), coqZ(int64(o.maxDepth)))
}

func (o eopts) String() string {
	return fmt.Sprintf("Indent=%d IntegerAsString=%d HTMLCharsAsIs=%v TermWhitespace=%v MapKeyAsString=%v BytesFormat=array:%v StringToRaw=%v",
		o.indent, o.intAsStr, o.htmlAsIs, o.termWs, o.keyAsStr, o.bytesArr, o.stringToRaw)
}

func (o dopts) String() string {
	return fmt.Sprintf("PreferFloat=%v SignedInteger=%v MapKeyAsString=%v MapType=map[interface{}]interface{}:%v MaxDepth=%d",
		o.preferFloat, o.signed, o.dkeyAsStr, o.mapIntf, o.maxDepth)
}

func encHandle(o eopts) *codec.JsonHandle {
	h := &codec.JsonHandle{}
	h.Indent = int8(o.indent)
	h.IntegerAsString = o.intAsStr
	h.HTMLCharsAsIs = o.htmlAsIs
	h.TermWhitespace = o.termWs
	h.MapKeyAsString = o.keyAsStr
	if o.bytesArr {
		h.BytesFormat = []string{"array"}
	}
	h.StringToRaw = o.stringToRaw
	return h
}

func decHandle(o dopts) *codec.JsonHandle {
	h := &codec.JsonHandle{}
	h.PreferFloat = o.preferFloat
	h.SignedInteger = o.signed
	h.MapKeyAsString = o.dkeyAsStr
	if o.mapIntf {
		h.MapType = reflect.TypeOf(map[interface{}]interface{}(nil))
	}
	h.MaxDepth = int16(o.maxDepth)
	return h
}

func randEopts(r *vh.Rng) eopts {
	o := eopts{}
	o.indent = r.PickInt(0, 0, 0, 1, 2, 4, -1, -2)
	if r.Chance(1, 40) {
		o.indent = r.PickInt(40, -40)
	}
	o.intAsStr = byte(r.PickInt(0, 0, 65, 76))
	o.htmlAsIs = r.Chance(1, 3)
	o.termWs = r.Chance(1, 3)
	o.keyAsStr = r.Chance(1, 3)
	o.bytesArr = r.Chance(1, 4)
	o.stringToRaw = r.Chance(1, 6)
	return o
}

func randDopts(r *vh.Rng) dopts {
	o := dopts{preferFloat: r.Chance(1, 4), signed: r.Chance(1, 3), dkeyAsStr: r.Chance(1, 3), mapIntf: r.Chance(1, 3)}
	if r.Chance(1, 4) {
		o.maxDepth = r.PickInt(1, 2, 3, 4, 5, 8, -1, 1024)
	}
	return o
}

// ---------------------------------------------------------------- random items

var intBoundaries = []int64{0, 1, -1, 1 << 53, -(1 << 53), 1<<53 + 1, -(1<<53 + 1), 1<<53 - 1, math.MinInt64, math.MaxInt64,
	9, 10, 99, 100, 255, 256, -128, 65535, 1 << 31, -(1 << 31), 1<<32 - 1, 999999999, 1000000000}
var uintBoundaries = []uint64{0, 1, 1 << 53, 1<<53 + 1, 1<<53 - 1, 1 << 63, 1<<64 - 1, 1<<63 - 1, 10, 255, 256, 1 << 32, 9999999999999999999, 10000000000000000000}

var f64Specials = []float64{0, math.Copysign(0, -1), 1, -1, 1e-7, 1e21, 1e20, 123456789, 0.1, 1e-6, 0.000001234, 999999999999999868928, 1.5, -2.5, 100, 1e6,
	math.SmallestNonzeroFloat64, math.Float64frombits(0x000fffffffffffff), math.MaxFloat64, -math.MaxFloat64, math.NaN(), math.Inf(1), math.Inf(-1),
	9007199254740992, 9007199254740993, 1e15, 1e16, 1e17, 0.5, 1.0 / 3, 18446744073709551615, 9223372036854775807, -9223372036854775808, 4.9e-324, 2.2250738585072014e-308}
var f32Specials = []float32{0, float32(math.Copysign(0, -1)), 1, -1, 1e-7, 1e21, 1e20, 123456789, 0.1, 1e-6, 1.5, 100, 16777216, 16777217,
	math.SmallestNonzeroFloat32, math.Float32frombits(0x007fffff), math.MaxFloat32, float32(math.NaN()), float32(math.Inf(1)), float32(math.Inf(-1)), 0.5, 1.0 / 3}

var numLikeStrings = []string{"12", "-1.5e3", "true", "false", "null", "1e5", "0", "-0", "1.0", "18446744073709551616", "-9223372036854775809", "0x10", "1e400", " 1", "+1", ".5"}
var multiByte = []string{"\u00e9", "\u2028", "\u2029", "\U0001F600", "\u00fc", "\ufffd", "\u07ff", "\uffff", "\U0010ffff"}

const asciiAlnum = "abcdefghijklmnopqrstuvwxyzABCDEFGHIJKLMNOPQRSTUVWXYZ0123456789 _-.:"

func randStr(r *vh.Rng) []byte {
	if r.Chance(1, 8) {
		return []byte(numLikeStrings[r.Intn(len(numLikeStrings))])
	}
	n := r.Intn(13)
	if r.Chance(1, 5) {
		n = r.Intn(3)
	}
	var b []byte
	for len(b) < n {
		switch r.Intn(10) {
		case 0:
			b = append(b, `"\/<>&`[r.Intn(6)])
		case 1:
			b = append(b, byte(r.Intn(32)))
		case 2:
			if r.Chance(1, 3) {
				b = append(b, 0x7f)
			} else {
				b = append(b, multiByte[r.Intn(len(multiByte))]...)
			}
		case 3:
			b = append(b, multiByte[r.Intn(len(multiByte))]...)
		case 4:
			b = append(b, byte(0x80+r.Intn(0x80)))
		default:
			b = append(b, asciiAlnum[r.Intn(len(asciiAlnum))])
		}
	}
	if b == nil {
		b = []byte{}
	}
	return b
}

func randInt(r *vh.Rng) int64 {
	switch r.Intn(4) {
	case 0:
		return intBoundaries[r.Intn(len(intBoundaries))]
	case 1:
		v := int64(r.U64() >> uint(r.Intn(64)))
		if r.Bool() {
			v = -v
		}
		return v
	case 2:
		return int64(r.Intn(300)) - 100
	}
	return int64(r.U64())
}

func randUint(r *vh.Rng) uint64 {
	switch r.Intn(4) {
	case 0:
		return uintBoundaries[r.Intn(len(uintBoundaries))]
	case 1:
		return r.U64() >> uint(r.Intn(64))
	case 2:
		return uint64(r.Intn(300))
	}
	return r.U64()
}

func randF64(r *vh.Rng) uint64 {
	switch r.Intn(5) {
	case 0, 1:
		return math.Float64bits(f64Specials[r.Intn(len(f64Specials))])
	case 2:
		return math.Float64bits(float64(r.Intn(4000)-2000) / 8)
	case 3:
		return math.Float64bits(float64(int64(r.U64()>>uint(r.Intn(64)))) * math.Pow(10, float64(r.Intn(40)-20)))
	}
	return r.U64()
}

func randF32(r *vh.Rng) uint64 {
	switch r.Intn(4) {
	case 0, 1:
		return uint64(math.Float32bits(f32Specials[r.Intn(len(f32Specials))]))
	case 2:
		return uint64(math.Float32bits(float32(r.Intn(4000)-2000) / 8))
	}
	return uint64(uint32(r.U64()))
}

func randTime(r *vh.Rng) *Item {
	if r.Chance(1, 8) {
		return &Item{K: KTime, Sec: zeroTimeSec, U: 0}
	}
	var sec int64
	switch r.Intn(4) {
	case 0:
		sec = []int64{0, 1, -1, zeroTimeSec + 1, zeroTimeSec, 1<<36 - 1, -(1<<35 + 12345), 951782400, 1700000000, 253402300799 % (1 << 36)}[r.Intn(10)]
	case 1:
		sec = int64(r.U64() % (1 << 32))
	default:
		sec = int64(r.U64()%(1<<36)) - int64(r.U64()%(-zeroTimeSec))
		if sec <= zeroTimeSec || sec >= 1<<36 {
			sec = 1700000000
		}
	}
	var ns uint64
	switch r.Intn(4) {
	case 0:
		ns = 0
	case 1:
		ns = uint64(r.Intn(1000)) * 1000000
	case 2:
		ns = uint64(r.Intn(1000000)) * 1000
	default:
		ns = uint64(r.Intn(1000000000))
	}
	if sec == zeroTimeSec && ns == 0 {
		ns = 1
	}
	return &Item{K: KTime, Sec: sec, U: ns}
}

func randScalar(r *vh.Rng) *Item {
	switch r.Intn(14) {
	case 0:
		return &Item{K: KNil}
	case 1:
		return &Item{K: KBool, B: r.Bool()}
	case 2, 3:
		return &Item{K: KInt, I: randInt(r), Flav: r.Intn(3)}
	case 4, 5:
		return &Item{K: KUint, U: randUint(r), Flav: r.Intn(3)}
	case 6:
		return &Item{K: KF32, U: randF32(r)}
	case 7, 8:
		return &Item{K: KF64, U: randF64(r)}
	case 9, 10, 11:
		return &Item{K: KStr, S: randStr(r)}
	case 12:
		return &Item{K: KBytes, S: r.Bytes(r.Intn(8))}
	default:
		return randTime(r)
	}
}

func randKey(r *vh.Rng, o eopts) *Item {
	strOK := !(o.stringToRaw && o.bytesArr)
	for {
		var it *Item
		switch x := r.Intn(100); {
		case x < 60:
			it = &Item{K: KStr, S: randStr(r)}
		case x < 70:
			it = &Item{K: KInt, I: randInt(r), Flav: r.Intn(3)}
		case x < 78:
			it = &Item{K: KUint, U: randUint(r), Flav: r.Intn(3)}
		case x < 84:
			it = &Item{K: KBool, B: r.Bool()}
		case x < 92:
			it = &Item{K: KF64, U: randF64(r)}
		case x < 95:
			it = &Item{K: KF32, U: randF32(r)}
		case x < 97:
			it = &Item{K: KNil}
		default:
			it = &Item{K: KBytes, S: r.Bytes(r.Intn(8))}
		}
		if it.K == KStr && !strOK {
			continue
		}
		if it.K == KBytes && o.bytesArr {
			continue
		}
		return it
	}
}

func sanitize(s []byte) []byte { return []byte(string([]rune(string(s)))) }

// keyCanon: two keys with the same canon may read back as the same map key under some options
// (conservative: numerically equal keys of any kind collide, "" collides with null).
func keyCanon(k *Item) string {
	num := func(f float64) string {
		if math.IsNaN(f) || math.IsInf(f, 0) {
			return "null"
		}
		return "n" + strconv.FormatFloat(f+0, 'g', -1, 64)
	}
	str := func(s string) string {
		if s == "" || s == "null" {
			return "null"
		}
		if f, err := strconv.ParseFloat(strings.TrimSpace(s), 64); err == nil {
			return num(f)
		}
		return "s" + s
	}
	switch k.K {
	case KNil:
		return "null"
	case KBool:
		return fmt.Sprint("s", k.B)
	case KInt:
		return num(float64(k.I))
	case KUint:
		return num(float64(k.U))
	case KF32, KF64:
		return num(k.f64())
	case KStr:
		return str(string(sanitize(k.S)))
	case KBytes:
		return str(base64.StdEncoding.EncodeToString(k.S))
	}
	return "?" + k.Coq()
}

func randItem(r *vh.Rng, depth int, o eopts) *Item {
	if depth <= 0 || r.Chance(3, 5) {
		return randScalar(r)
	}
	n := r.Intn(5)
	if r.Chance(1, 6) {
		n = 0
	}
	if r.Bool() {
		it := &Item{K: KArr, Flav: r.Intn(3)}
		if r.Chance(1, 4) && n > 0 { // homogeneous, so that the typed slices appear
			k := []Kind{KInt, KUint, KStr, KBool, KF64}[r.Intn(5)]
			for i := 0; i < n; i++ {
				var e *Item
				for e == nil || e.K != k {
					e = randScalar(r)
				}
				it.L = append(it.L, e)
			}
			it.Flav = 1
			return it
		}
		for i := 0; i < n; i++ {
			it.L = append(it.L, randItem(r, depth-1, o))
		}
		return it
	}
	it := &Item{K: KMap, Flav: r.Intn(3)}
	seen := map[string]bool{}
	for i := 0; i < n; i++ {
		k := randKey(r, o)
		if seen[keyCanon(k)] {
			continue
		}
		seen[keyCanon(k)] = true
		it.M = append(it.M, [2]*Item{k, randItem(r, depth-1, o)})
	}
	return it
}

func fitsInt(v int64, bits uint) bool { return v >= -(1<<(bits-1)) && v < 1<<(bits-1) }

// Go builds the value handed to the Encoder. Flav picks typed variants where they exist.
func (it *Item) Go() interface{} {
	switch it.K {
	case KNil:
		return nil
	case KBool:
		return it.B
	case KInt:
		switch {
		case it.Flav == 1 && fitsInt(it.I, 8):
			return int8(it.I)
		case it.Flav == 1 && fitsInt(it.I, 32):
			return int32(it.I)
		case it.Flav == 2:
			return int(it.I)
		}
		return it.I
	case KUint:
		switch {
		case it.Flav == 1 && it.U < 1<<8:
			return uint8(it.U)
		case it.Flav == 1 && it.U < 1<<16:
			return uint16(it.U)
		case it.Flav == 2:
			return uint(it.U)
		}
		return it.U
	case KF32:
		return math.Float32frombits(uint32(it.U))
	case KF64:
		return math.Float64frombits(it.U)
	case KStr:
		return string(it.S)
	case KBytes:
		return append([]byte{}, it.S...)
	case KTime:
		if it.isZeroTime() {
			return time.Time{}
		}
		return time.Unix(it.Sec, int64(it.U)).UTC()
	case KArr:
		if it.Flav == 1 && len(it.L) > 0 {
			k := it.L[0].K
			same := true
			for _, x := range it.L {
				if x.K != k {
					same = false
				}
			}
			if same {
				switch k {
				case KInt:
					out := make([]int64, len(it.L))
					for i, x := range it.L {
						out[i] = x.I
					}
					return out
				case KUint:
					out := make([]uint64, len(it.L))
					for i, x := range it.L {
						out[i] = x.U
					}
					return out
				case KStr:
					out := make([]string, len(it.L))
					for i, x := range it.L {
						out[i] = string(x.S)
					}
					return out
				case KBool:
					out := make([]bool, len(it.L))
					for i, x := range it.L {
						out[i] = x.B
					}
					return out
				case KF64:
					out := make([]float64, len(it.L))
					for i, x := range it.L {
						out[i] = math.Float64frombits(x.U)
					}
					return out
				}
			}
		}
		out := make([]interface{}, len(it.L))
		for i, x := range it.L {
			out[i] = x.Go()
		}
		return out
	case KMap:
		if len(it.M) <= 1 && it.Flav != 0 {
			if len(it.M) == 1 && it.M[0][0].K == KStr && it.Flav == 1 {
				return map[string]interface{}{string(it.M[0][0].S): it.M[0][1].Go()}
			}
			if len(it.M) == 1 && it.M[0][0].K == KBytes {
				// []byte is not a legal Go map key
			} else {
				m := map[interface{}]interface{}{}
				for _, kv := range it.M {
					m[kv[0].Go()] = kv[1].Go()
				}
				return m
			}
		}
		out := make(mbs, 0, 2*len(it.M))
		for _, kv := range it.M {
			out = append(out, kv[0].Go(), kv[1].Go())
		}
		return out
	}
	panic("kind")
}

// fromGo canonicalises what Decode(&interface{}) produced.
func fromGo(v interface{}) (*Item, error) {
	switch x := v.(type) {
	case nil:
		return &Item{K: KNil}, nil
	case bool:
		return &Item{K: KBool, B: x}, nil
	case int64:
		return &Item{K: KInt, I: x}, nil
	case uint64:
		return &Item{K: KUint, U: x}, nil
	case float64:
		return &Item{K: KF64, U: math.Float64bits(x)}, nil
	case string:
		return &Item{K: KStr, S: []byte(x)}, nil
	case []interface{}:
		it := &Item{K: KArr}
		for _, e := range x {
			c, err := fromGo(e)
			if err != nil {
				return nil, err
			}
			it.L = append(it.L, c)
		}
		return it, nil
	case map[interface{}]interface{}:
		it := &Item{K: KMap}
		for k, e := range x {
			ck, err := fromGo(k)
			if err != nil {
				return nil, err
			}
			cv, err := fromGo(e)
			if err != nil {
				return nil, err
			}
			it.M = append(it.M, [2]*Item{ck, cv})
		}
		sort.Slice(it.M, func(i, j int) bool { return it.M[i][0].Coq() < it.M[j][0].Coq() })
		return it, nil
	case map[string]interface{}:
		it := &Item{K: KMap}
		for k, e := range x {
			cv, err := fromGo(e)
			if err != nil {
				return nil, err
			}
			it.M = append(it.M, [2]*Item{{K: KStr, S: []byte(k)}, cv})
		}
		sort.Slice(it.M, func(i, j int) bool { return it.M[i][0].Coq() < it.M[j][0].Coq() })
		return it, nil
	}
	return nil, fmt.Errorf("unexpected decoded type %T", v)
}

// ---------------------------------------------------------------- the leaf tables

type tables struct {
	f64 map[uint64][]byte
	f32 map[uint64][]byte
	pf  map[string]uint64
	tm  map[[2]int64][]byte
}

func newTables() *tables {
	return &tables{f64: map[uint64][]byte{}, f32: map[uint64][]byte{}, pf: map[string]uint64{}, tm: map[[2]int64][]byte{}}
}

var plainHandle = &codec.JsonHandle{}

func encPlain(v interface{}) []byte {
	var out []byte
	if err := codec.NewEncoderBytes(&out, plainHandle).Encode(v); err != nil {
		return nil
	}
	return out
}

func (t *tables) collect(it *Item) {
	switch it.K {
	case KF64:
		if !it.floatSpecial() {
			t.f64[it.U] = encPlain(math.Float64frombits(it.U))
		}
	case KF32:
		if !it.floatSpecial() {
			t.f32[it.U] = encPlain(math.Float32frombits(uint32(it.U)))
		}
	case KTime:
		if !it.isZeroTime() {
			b := encPlain(time.Unix(it.Sec, int64(it.U)).UTC())
			if len(b) >= 2 && b[0] == '"' && b[len(b)-1] == '"' {
				b = b[1 : len(b)-1]
			}
			t.tm[[2]int64{it.Sec, int64(it.U)}] = b
		}
	}
	for _, x := range it.L {
		t.collect(x)
	}
	for _, kv := range it.M {
		t.collect(kv[0])
		t.collect(kv[1])
	}
}

func (t *tables) Coq() string {
	var a, b, c, d []string
	var k64 []uint64
	for k := range t.f64 {
		k64 = append(k64, k)
	}
	sort.Slice(k64, func(i, j int) bool { return k64[i] < k64[j] })
	for _, k := range k64 {
		a = append(a, fmt.Sprintf("(%d%%N, %s)", k, vh.CoqBytes(t.f64[k])))
	}
	var k32 []uint64
	for k := range t.f32 {
		k32 = append(k32, k)
	}
	sort.Slice(k32, func(i, j int) bool { return k32[i] < k32[j] })
	for _, k := range k32 {
		b = append(b, fmt.Sprintf("(%d%%N, %s)", k, vh.CoqBytes(t.f32[k])))
	}
	var kp []string
	for k := range t.pf {
		kp = append(kp, k)
	}
	sort.Strings(kp)
	for _, k := range kp {
		c = append(c, fmt.Sprintf("(%s, %d%%N)", vh.CoqBytes([]byte(k)), t.pf[k]))
	}
	var kt [][2]int64
	for k := range t.tm {
		kt = append(kt, k)
	}
	sort.Slice(kt, func(i, j int) bool { return kt[i][0] < kt[j][0] || kt[i][0] == kt[j][0] && kt[i][1] < kt[j][1] })
	for _, k := range kt {
		d = append(d, fmt.Sprintf("(%s, %d%%N, %s)", coqZ(k[0]), k[1], vh.CoqBytes(t.tm[k])))
	}
	l := func(xs []string) string { return "[" + strings.Join(xs, "; ") + "]" }
	return "(mktables " + l(a) + " " + l(b) + " " + l(c) + " " + l(d) + ")"
}

func isNumc(b byte) bool {
	return b >= '0' && b <= '9' || b == '.' || b == '+' || b == '-' || b == 'e' || b == 'E'
}

func parseFloatReal(b []byte) (bits uint64, ok bool) {
	defer func() {
		if recover() != nil {
			ok = false
		}
	}()
	return codec.VerifWjsonParseFloat64(b)
}

// pfTable: every text the decoder may hand to parseFloat64 while reading [in]: the maximal runs
// of number characters and their suffixes (a literal that ends in 'e' eats into a run), and, when
// quoted map keys are tried as numbers, the content of every string literal.
func (t *tables) pfTable(in []byte, withStrings bool) {
	seen := map[string]bool{}
	add := func(b []byte) {
		if len(b) == 0 || len(b) > 400 || seen[string(b)] {
			return
		}
		seen[string(b)] = true
		if bits, ok := parseFloatReal(b); ok {
			t.pf[string(b)] = bits
		}
	}
	for i := 0; i < len(in); {
		if !isNumc(in[i]) {
			i++
			continue
		}
		j := i
		for j < len(in) && isNumc(in[j]) {
			j++
		}
		for k := i; k < j && k < i+48; k++ {
			add(in[k:j])
		}
		i = j
	}
	if !withStrings {
		return
	}
	for i := 0; i < len(in); i++ {
		if in[i] != '"' {
			continue
		}
		j := i + 1
		esc := false
		for j < len(in) {
			if in[j] == '\\' {
				esc = true
				j += 2
				continue
			}
			if in[j] == '"' {
				break
			}
			j++
		}
		if j >= len(in) {
			continue
		}
		content := in[i+1 : j]
		if esc {
			var s string
			if stdjson.Unmarshal(in[i:j+1], &s) == nil {
				add([]byte(s))
			}
			continue
		}
		add(content)
	}
}

// ---------------------------------------------------------------- running the implementation

const (
	clsOK    = 0
	clsEOF   = 1
	clsDepth = 4
	clsOther = 8
	clsHang  = 100
	clsFatal = 101
)

func errClass(err error) int {
	if err == nil {
		return clsOK
	}
	if errors.Is(err, io.ErrUnexpectedEOF) || errors.Is(err, io.EOF) {
		return clsEOF
	}
	m := err.Error()
	switch {
	case strings.Contains(m, "out of bounds with capacity"),
		strings.Contains(m, "index out of range"),
		strings.Contains(m, "slice bounds out of range"),
		strings.Contains(m, "cannot convert slice with length"):
		return clsEOF
	case strings.Contains(m, "maximum decoding depth exceeded"):
		return clsDepth
	}
	return clsOther
}

const (
	mDec  = 0 // Decode(&interface{})
	mRaw  = 1 // Decode(&codec.Raw)
	mHook = 2 // VerifWjsonNextValueBytes
)

type obs struct {
	mode    int
	cls     int
	numread int
	val     interface{}
	raw     []byte
	errs    string
}

var hangs int

const wdTimeout = 4 * time.Second

// runSeq makes the calls one after the other on ONE Decoder over [in], stopping after the first
// error. The whole sequence runs in a goroutine under a watchdog; a call that does not return is
// reported as a hang of that call (the goroutine is abandoned), an escaped panic as clsFatal.
func runSeq(o dopts, in []byte, modes []int) []obs {
	in = append([]byte{}, in...)
	var mu sync.Mutex
	var res []obs
	done := make(chan struct{})
	go func() {
		defer close(done)
		cur := 0
		defer func() {
			if p := recover(); p != nil {
				mu.Lock()
				res = append(res, obs{mode: modes[cur], cls: clsFatal, errs: fmt.Sprint(p)})
				mu.Unlock()
			}
		}()
		d := codec.NewDecoderBytes(in, decHandle(o))
		for i, m := range modes {
			cur = i
			ob := obs{mode: m}
			var err error
			switch m {
			case mDec:
				var v interface{}
				err = d.Decode(&v)
				ob.val = v
			case mRaw:
				var v codec.Raw
				err = d.Decode(&v)
				ob.raw = []byte(v)
			case mHook:
				ob.raw, err = codec.VerifWjsonNextValueBytes(d)
			}
			ob.cls = errClass(err)
			ob.numread = d.NumBytesRead()
			if err != nil {
				ob.errs = err.Error()
			}
			mu.Lock()
			res = append(res, ob)
			mu.Unlock()
			if err != nil {
				break
			}
		}
	}()
	select {
	case <-done:
		return res
	case <-time.After(wdTimeout):
		hangs++
		mu.Lock()
		out := append([]obs{}, res...)
		mu.Unlock()
		if len(out) < len(modes) {
			out = append(out, obs{mode: modes[len(out)], cls: clsHang})
		}
		return out
	}
}

func realDecNaked(o dopts, in []byte) obs { return runSeq(o, in, []int{mDec})[0] }
func realRaw(o dopts, in []byte) obs      { return runSeq(o, in, []int{mRaw})[0] }

type oneField struct{ A int }

type swOutcome struct {
	cls, numread, a int
	errs            string
}

// watchdogged decode of [in] into a struct with the single field A.
func realSwallow(o dopts, in []byte) swOutcome {
	in = append([]byte{}, in...)
	ch := make(chan swOutcome, 1)
	go func() {
		defer func() {
			if p := recover(); p != nil {
				ch <- swOutcome{cls: clsFatal, errs: fmt.Sprint(p)}
			}
		}()
		var v oneField
		d := codec.NewDecoderBytes(in, decHandle(o))
		err := d.Decode(&v)
		ch <- swOutcome{cls: errClass(err), numread: d.NumBytesRead(), a: v.A, errs: fmt.Sprint(err)}
	}()
	select {
	case x := <-ch:
		return x
	case <-time.After(wdTimeout):
		hangs++
		return swOutcome{cls: clsHang}
	}
}

// ---------------------------------------------------------------- streams: shared

type ctx struct {
	r   *vh.Rng
	sum *vh.Summary
	cv  *vh.Cases
	id  int
	alt int // alternates the two nextValueBytes entry points

	sampled map[string]bool
}

func (c *ctx) add(term string) {
	c.cv.Add(term)
	c.sum.ModelCases++
}

func (c *ctx) next() int { c.id++; return c.id }

func shortHex(b []byte) string {
	if len(b) > 200 {
		return hex.EncodeToString(b[:200]) + fmt.Sprintf("...(%d bytes)", len(b))
	}
	return hex.EncodeToString(b)
}

func shortText(b []byte) string {
	if len(b) > 200 {
		return strconv.Quote(string(b[:200])) + fmt.Sprintf("...(%d bytes)", len(b))
	}
	return strconv.Quote(string(b))
}

func clip(s string, n int) string {
	if len(s) > n {
		return s[:n] + "..."
	}
	return s
}

func firstByte(b []byte) string {
	if len(b) == 0 {
		return "empty"
	}
	return fmt.Sprintf("%02x", b[0])
}

// rawMode returns the next nextValueBytes entry point (Decode(&Raw) and the hook alternate).
func (c *ctx) rawMode() int {
	c.alt++
	if c.alt%2 == 0 {
		return mRaw
	}
	return mHook
}

func (c *ctx) randModes(n int) []int {
	ms := make([]int, n)
	for i := range ms {
		if c.r.Bool() {
			ms[i] = mDec
		} else {
			ms[i] = c.rawMode()
		}
	}
	return ms
}

var modeName = map[int]string{mDec: "naked", mRaw: "raw", mHook: "hook"}

// seqCase runs the calls on one Decoder, reports watchdog / panic / type / extent failures and
// records the observation for the model (CSeq).
func (c *ctx) seqCase(stream string, o dopts, in []byte, modes []int, label string) []obs {
	res := runSeq(o, in, modes)
	T := newTables()
	T.pfTable(in, o.dkeyAsStr && o.mapIntf)
	var parts []string
	var sig strings.Builder
	for i, ob := range res {
		cj := map[string]interface{}{"input": shortHex(in), "text": shortText(in), "opts": o.String(), "label": label, "call": i, "mode": modeName[ob.mode]}
		who := "decode-naked"
		if ob.mode != mDec {
			who = "nextValueBytes"
		}
		switch ob.cls {
		case clsHang:
			c.sum.FailC(stream, who+":hang:"+label, "a call on the Decoder did not return within the watchdog timeout", cj)
		case clsFatal:
			cj["panic"] = ob.errs
			c.sum.FailC(stream, who+":panic-escaped:"+label, "a panic escaped the Decoder", cj)
		}
		nr := ob.numread
		if ob.cls == clsOK && (nr < 0 || nr > len(in)) {
			cj["numread"] = nr
			c.sum.FailC(stream, who+":numread-out-of-range", "NumBytesRead outside [0,len(input)] after a successful call", cj)
		}
		if ob.cls != clsOK || nr < 0 {
			nr = 0
		}
		if ob.mode == mDec {
			tree := "INil"
			if ob.cls == clsOK {
				t, err := fromGo(ob.val)
				if err != nil {
					cj["type"] = err.Error()
					c.sum.FailC(stream, "decode-naked:unexpected-type", "Decode into interface{} produced a value outside the naked type set", cj)
				} else {
					tree = t.Coq()
				}
			}
			parts = append(parts, fmt.Sprintf("ODec %d %d %s", ob.cls, nr, tree))
		} else {
			b := "[]"
			if ob.cls == clsOK {
				b = coqBytes(ob.raw)
			}
			parts = append(parts, fmt.Sprintf("ORaw %d %d %s", ob.cls, nr, b))
		}
		fmt.Fprintf(&sig, "%s%d.", modeName[ob.mode][:1], ob.cls)
		c.sum.Dist[fmt.Sprintf("%s.%s.cls%d", stream, modeName[ob.mode], ob.cls)]++
	}
	id := c.next()
	c.add(fmt.Sprintf("CSeq %d %s %s %s [%s]", id, T.Coq(), o.Coq(), coqBytes(in), strings.Join(parts, "; ")))
	key := fmt.Sprintf("%s/%s/%s/len%d", stream, firstByte(in), sig.String(), min(len(in), 40))
	if len(in) <= 1 {
		key = ""
	}
	c.sum.Count(stream, key)
	if !c.sampled[stream] && len(in) > 4 && stream != "first" {
		if c.sampled == nil {
			c.sampled = map[string]bool{}
		}
		c.sampled[stream] = true
		c.sum.Sample(map[string]interface{}{"stream": stream, "text": shortText(in), "opts": o.String(), "calls": clip(strings.Join(parts, "; "), 300)})
	}
	return res
}

// ---------------------------------------------------------------- enc stream

type encDoc struct {
	val  []byte // the value's bytes (without the TermWhitespace byte)
	term bool
}

func fixedItems() []*Item {
	i := func(v int64) *Item { return &Item{K: KInt, I: v} }
	u := func(v uint64) *Item { return &Item{K: KUint, U: v} }
	s := func(v string) *Item { return &Item{K: KStr, S: []byte(v)} }
	f := func(v float64) *Item { return &Item{K: KF64, U: math.Float64bits(v)} }
	arr := func(xs ...*Item) *Item { return &Item{K: KArr, L: xs} }
	mp := func(kvs ...*Item) *Item {
		m := &Item{K: KMap}
		for j := 0; j+1 < len(kvs); j += 2 {
			m.M = append(m.M, [2]*Item{kvs[j], kvs[j+1]})
		}
		return m
	}
	return []*Item{
		arr(i(1<<53), i(-(1 << 53)), i(1<<53+1), i(-(1<<53 + 1)), i(math.MinInt64), i(math.MaxInt64)),
		arr(u(1<<53), u(1<<53+1), u(1<<63), u(1<<64-1), u(0)),
		i(0), i(math.MinInt64), u(1<<64 - 1), f(0), f(math.Copysign(0, -1)), f(1e21), f(1e20), f(1e-7), f(math.NaN()),
		{K: KF32, U: uint64(math.Float32bits(0.1))},
		s(""), s("a\"b\\c/d<e>f&g"), s("\x00\x01\x1f\x7f\b\f\n\r\t"), s("\u2028\u2029\u00e9\U0001F600"), s("\xff\xfe\x80ab\xc3"), s("\xed\xa0\x80"),
		{K: KBytes, S: []byte{}}, {K: KBytes, S: []byte{0, 1, 255}}, {K: KBytes, S: []byte("hello!!")},
		{K: KTime, Sec: zeroTimeSec}, {K: KTime, Sec: 0, U: 0}, {K: KTime, Sec: 1700000000, U: 123000000}, {K: KTime, Sec: zeroTimeSec + 1, U: 999999999},
		arr(), mp(), arr(arr(), mp(), arr(arr(arr()))), mp(s("a"), mp(s("b"), mp(s("c"), arr(i(1), i(2))))),
		mp(s("k"), i(1), i(5), s("v"), u(7), u(8), &Item{K: KBool, B: true}, &Item{K: KNil}, f(1.5), f(2.5), &Item{K: KNil}, i(9)),
		mp(s("true"), i(1), s("12"), i(2), s("1e3"), i(3), s("nul"), i(4)),
		arr(&Item{K: KBytes, S: []byte{}}, arr(&Item{K: KBytes, S: []byte{7}})),
	}
}

func fixedEopts() []eopts {
	return []eopts{
		{},
		{indent: 2, intAsStr: 'L', keyAsStr: true, termWs: true},
		{indent: -1, intAsStr: 'A', bytesArr: true, htmlAsIs: true},
	}
}

// anyItem reports whether pred holds for some node of the tree (keys included).
func anyItem(it *Item, pred func(x *Item) bool) bool {
	if pred(it) {
		return true
	}
	for _, x := range it.L {
		if anyItem(x, pred) {
			return true
		}
	}
	for _, kv := range it.M {
		if anyItem(kv[0], pred) || anyItem(kv[1], pred) {
			return true
		}
	}
	return false
}

// anyKey reports whether pred holds for some map key in the tree.
func anyKey(it *Item, pred func(k *Item) bool) bool {
	for _, x := range it.L {
		if anyKey(x, pred) {
			return true
		}
	}
	for _, kv := range it.M {
		if pred(kv[0]) || anyKey(kv[0], pred) || anyKey(kv[1], pred) {
			return true
		}
	}
	return false
}

func intQuoted(o eopts, key bool, mag uint64) bool {
	return o.intAsStr == 'A' || o.intAsStr == 'L' && mag > 1<<53 || o.keyAsStr && key
}

// matchDecoded: does [got] (Decode(&interface{}) under a plain handle) denote the item that was
// encoded under o?  The documented normalisation: non-negative integers read back as uint64,
// float32 widens, numbers are compared by value, quoted things read back as strings, []byte as
// base64 text or an array of numbers, time as RFC3339Nano text, NaN/Inf/zero time as null.
func matchDecoded(it *Item, o eopts, key bool, got *Item) bool {
	isStr := func(s string) bool { return got.K == KStr && string(got.S) == s }
	gotNum := func() (float64, bool) {
		switch got.K {
		case KUint:
			return float64(got.U), true
		case KInt:
			return float64(got.I), true
		case KF64:
			return math.Float64frombits(got.U), true
		}
		return 0, false
	}
	bytesForm := func(b []byte) bool {
		if o.bytesArr {
			if got.K != KArr || len(got.L) != len(b) {
				return false
			}
			for i, x := range got.L {
				if x.K != KUint || x.U != uint64(b[i]) {
					return false
				}
			}
			return true
		}
		return isStr(base64.StdEncoding.EncodeToString(b))
	}
	q := o.keyAsStr && key
	switch it.K {
	case KNil:
		return got.K == KNil
	case KBool:
		if q {
			return isStr(strconv.FormatBool(it.B))
		}
		return got.K == KBool && got.B == it.B
	case KInt:
		mag := uint64(it.I)
		if it.I < 0 {
			mag = uint64(-it.I)
		}
		if intQuoted(o, key, mag) {
			return isStr(strconv.FormatInt(it.I, 10))
		}
		if it.I >= 0 {
			return got.K == KUint && got.U == uint64(it.I)
		}
		return got.K == KInt && got.I == it.I
	case KUint:
		if intQuoted(o, key, it.U) {
			return isStr(strconv.FormatUint(it.U, 10))
		}
		return got.K == KUint && got.U == it.U
	case KF32, KF64:
		if it.floatSpecial() {
			return got.K == KNil
		}
		var g float64
		if q {
			if got.K != KStr {
				return false
			}
			v, err := strconv.ParseFloat(string(got.S), 64)
			if err != nil {
				return false
			}
			g = v
		} else {
			v, ok := gotNum()
			if !ok {
				return false
			}
			g = v
		}
		if it.K == KF32 {
			return float32(g) == math.Float32frombits(uint32(it.U))
		}
		return g == math.Float64frombits(it.U)
	case KStr:
		if o.stringToRaw {
			return bytesForm(it.S)
		}
		return isStr(string(sanitize(it.S)))
	case KBytes:
		return bytesForm(it.S)
	case KTime:
		if it.isZeroTime() {
			return got.K == KNil
		}
		return isStr(time.Unix(it.Sec, int64(it.U)).UTC().Format(time.RFC3339Nano))
	case KArr:
		if got.K != KArr || len(got.L) != len(it.L) {
			return false
		}
		for i, x := range it.L {
			if !matchDecoded(x, o, false, got.L[i]) {
				return false
			}
		}
		return true
	case KMap:
		if got.K != KMap || len(got.M) != len(it.M) {
			return false
		}
		used := make([]bool, len(got.M))
		for _, kv := range it.M {
			found := false
			for j, gkv := range got.M {
				if !used[j] && matchDecoded(kv[0], o, true, gkv[0]) && matchDecoded(kv[1], o, false, gkv[1]) {
					used[j] = true
					found = true
					break
				}
			}
			if !found {
				return false
			}
		}
		return true
	}
	return false
}

func isBareNumber(val []byte) bool {
	return len(val) > 0 && (val[0] == '-' || val[0] >= '0' && val[0] <= '9')
}

func (c *ctx) encOne(it *Item, o eopts, idx int, keep *[]encDoc) {
	gv := it.Go()
	var out []byte
	var err error
	func() {
		defer func() {
			if p := recover(); p != nil {
				err = fmt.Errorf("panic: %v", p)
			}
		}()
		err = codec.NewEncoderBytes(&out, encHandle(o)).Encode(gv)
	}()
	cj := map[string]interface{}{"item": clip(it.Coq(), 400), "opts": o.String(), "gotype": fmt.Sprintf("%T", gv), "seed_index": idx}
	if err != nil {
		cj["err"] = err.Error()
		c.sum.FailC("enc", "encode:error", "Encode of a supported value returned an error", cj)
		return
	}
	cj["bytes"] = shortHex(out)
	cj["text"] = shortText(out)
	T := newTables()
	T.collect(it)
	id := c.next()
	c.add(fmt.Sprintf("CEnc %d %s %s %s %s", id, T.Coq(), o.Coq(), it.Coq(), coqBytes(out)))

	val := out
	if o.termWs {
		if len(out) == 0 || !(out[len(out)-1] == ' ' || out[len(out)-1] == '\n') {
			c.sum.FailC("enc", "encode:termwhitespace", "TermWhitespace is on and the encoding does not end in a whitespace byte", cj)
		} else {
			val = out[:len(out)-1]
		}
	}
	do := dopts{}
	tails := []string{"", ",1", " ", "]"}

	// (1) Decode(&interface{}) reads the value back and stops right behind it (a bare top-level
	//     number consumes the one byte that ends it, when there is one)
	in := append(append([]byte{}, out...), tails[c.r.Intn(len(tails))]...)
	dn := realDecNaked(do, in)
	want := len(val)
	if isBareNumber(val) && len(in) > len(val) {
		want = len(val) + 1
	}
	cj["decode_input"] = shortText(in)
	switch {
	case dn.cls != clsOK:
		cj["errcls"] = dn.cls
		cj["err"] = dn.errs
		class := "roundtrip:decode-error"
		if anyItem(it, func(x *Item) bool {
			return (x.K == KF64 || x.K == KF32) && !x.floatSpecial() && x.f64() <= -(1<<63) && x.f64() > -(1<<64)
		}) && strings.Contains(dn.errs, "ParseInt") {
			// the encoder writes an integral float below 1e21 without fraction or exponent; parseNumber
			// takes the text for an integer and reports int64 overflow instead of reading a float
			class = "roundtrip:decode-error:float-in-(-2^64,-2^63]-written-as-integer"
		}
		c.sum.FailC("enc", class, "decoding an encoding into interface{} failed", cj)
	case dn.numread != want:
		cj["numread"] = dn.numread
		cj["want_numread"] = want
		c.sum.FailC("enc", "roundtrip:extent", "Decode(&interface{}) did not stop right behind the encoded value", cj)
	default:
		got, err := fromGo(dn.val)
		if err != nil {
			cj["type"] = err.Error()
			c.sum.FailC("enc", "decode-naked:unexpected-type", "Decode into interface{} produced a value outside the naked type set", cj)
		} else if !matchDecoded(it, o, false, got) {
			cj["decoded"] = clip(got.Coq(), 400)
			c.sum.FailC("enc", "roundtrip:value", "the decoded value differs from the encoded one beyond the documented normalisation", cj)
		}
	}
	delete(cj, "errcls")
	delete(cj, "err")
	delete(cj, "numread")
	delete(cj, "want_numread")
	delete(cj, "decoded")

	// (2) Decode(&Raw) captures exactly the value
	for k, rin := range [][]byte{out, append(append([]byte{}, val...), tails[1+c.r.Intn(3)]...)} {
		rw := realRaw(do, rin)
		if rw.cls != clsOK || !bytes.Equal(rw.raw, val) {
			cj["raw_input"] = shortText(rin)
			cj["raw"] = shortText(rw.raw)
			cj["rawcls"] = rw.cls
			cj["variant"] = k
			c.sum.FailC("enc", "raw:extent", "Decode(&Raw) of an encoding did not capture exactly the encoded value", cj)
			delete(cj, "raw_input")
			delete(cj, "raw")
			delete(cj, "rawcls")
			delete(cj, "variant")
		}
	}

	// (3) the value is skipped exactly as the value of an unknown struct field
	sin := []byte(`{"x":` + string(val) + `,"A":7}`)
	sw := realSwallow(do, sin)
	if sw.cls != clsOK || sw.a != 7 || sw.numread != len(sin) {
		cj["swcls"] = sw.cls
		cj["swnumread"] = sw.numread
		cj["swA"] = sw.a
		cj["swerr"] = sw.errs
		c.sum.FailC("enc", "swallow:extent", "skipping an encoding as an unknown struct field did not end where the encoding ends", cj)
		delete(cj, "swcls")
		delete(cj, "swnumread")
		delete(cj, "swA")
		delete(cj, "swerr")
	}

	// (4) the text is JSON (when every map key is written as a string)
	nullKey := anyKey(it, func(k *Item) bool { return k.K == KNil || (k.K == KF32 || k.K == KF64) && k.floatSpecial() })
	badKey := anyKey(it, func(k *Item) bool {
		switch k.K {
		case KStr:
			return o.stringToRaw && o.bytesArr
		case KBytes:
			return o.bytesArr
		case KInt, KUint:
			return !(o.keyAsStr || o.intAsStr == 'A')
		}
		return !o.keyAsStr
	})
	if !nullKey && !badKey {
		if !stdjson.Valid(val) {
			c.sum.FailC("enc", "encode:not-json", "encoding/json.Valid rejects the encoder's output although every map key is written as a string", cj)
		}
		c.sum.Dist["enc.jsonvalid.checked"]++
	}

	key := fmt.Sprintf("enc/%T/%v/len%d/depth%d", gv, o, min(len(out), 300)/4, it.Depth())
	if len(out) <= 1 {
		key = ""
	}
	c.sum.Count("enc", key)
	c.sum.Dist[fmt.Sprintf("enc.depth%d", it.Depth())]++
	if idx < 1 {
		c.sum.Sample(cj)
	}
	if len(val) <= 600 && len(val) > 0 {
		*keep = append(*keep, encDoc{val: append([]byte{}, val...), term: o.termWs})
	}
}

func (c *ctx) encStream(n int) []encDoc {
	var keep []encDoc
	for i := 0; i < n; i++ {
		o := randEopts(c.r)
		var it *Item
		if c.r.Chance(1, 3) { // make sure containers are frequent at the top
			it = randItem(c.r, 3, o)
			for it.K != KArr && it.K != KMap {
				it = randItem(c.r, 3, o)
			}
		} else {
			it = randItem(c.r, 3, o)
		}
		c.encOne(it, o, i, &keep)
	}
	for j, it := range fixedItems() {
		for _, o := range fixedEopts() {
			if o.bytesArr && anyKey(it, func(k *Item) bool { return k.K == KBytes }) {
				continue
			}
			c.encOne(it, o, n+j, &keep)
		}
	}
	return keep
}

// ---------------------------------------------------------------- valid / mut / rand streams

// splitTokens: strings (with escapes), punctuation, and runs of anything else; whitespace
// (every byte < 33) outside strings is dropped.
func splitTokens(b []byte) [][]byte {
	var toks [][]byte
	for i := 0; i < len(b); {
		ch := b[i]
		switch {
		case ch < 33:
			i++
		case ch == '"':
			j := i + 1
			for j < len(b) {
				if b[j] == '\\' {
					j += 2
					continue
				}
				if b[j] == '"' {
					j++
					break
				}
				j++
			}
			j = min(j, len(b))
			toks = append(toks, b[i:j])
			i = j
		case strings.IndexByte("[]{}:,", ch) >= 0:
			toks = append(toks, b[i:i+1])
			i++
		default:
			j := i
			for j < len(b) && b[j] >= 33 && b[j] != '"' && strings.IndexByte("[]{}:,", b[j]) < 0 {
				j++
			}
			toks = append(toks, b[i:j])
			i = j
		}
	}
	return toks
}

func randWs(r *vh.Rng, allowEmpty bool) []byte {
	n := 0
	switch r.Intn(6) {
	case 0, 1, 2:
		n = 0
	case 3, 4:
		n = 1
	default:
		n = 1 + r.Intn(3)
	}
	if !allowEmpty && n == 0 {
		n = 1
	}
	b := make([]byte, n)
	for i := range b {
		if r.Chance(1, 6) {
			b[i] = []byte{0x00, 0x01, 0x1f, 0x0b, 0x0c, 0x08, 0x1b}[r.Intn(7)]
		} else {
			b[i] = []byte{0x20, 0x09, 0x0a, 0x0d}[r.Intn(4)]
		}
	}
	return b
}

func respace(r *vh.Rng, doc []byte) []byte {
	if r.Chance(1, 4) {
		return append([]byte{}, doc...)
	}
	var out []byte
	out = append(out, randWs(r, true)...)
	for i, t := range splitTokens(doc) {
		if i > 0 {
			out = append(out, randWs(r, true)...)
		}
		out = append(out, t...)
	}
	return out
}

func treeOf(ob obs) string {
	if ob.cls != clsOK {
		return fmt.Sprintf("error-class-%d", ob.cls)
	}
	if ob.mode != mDec {
		return "raw:" + string(ob.raw)
	}
	t, err := fromGo(ob.val)
	if err != nil {
		return "type:" + err.Error()
	}
	return t.Coq()
}

func (c *ctx) validStream(docs []encDoc, n int) {
	if len(docs) == 0 {
		return
	}
	for i := 0; i < n; i++ {
		o := randDopts(c.r)
		nd := 1
		if i%3 != 0 {
			nd = 1 + c.r.Intn(4)
		}
		var in []byte
		var parts, seps [][]byte
		for k := 0; k < nd; k++ {
			e := docs[c.r.Intn(len(docs))]
			if len(in)+len(e.val) > 900 && k > 0 {
				break
			}
			d := respace(c.r, e.val)
			sep := randWs(c.r, true)
			if e.term && len(sep) == 0 {
				sep = []byte{' '} // what TermWhitespace wrote
			}
			parts = append(parts, d)
			seps = append(seps, sep)
			in = append(in, d...)
			in = append(in, sep...)
		}
		if last := len(seps) - 1; len(seps[last]) > 0 && c.r.Bool() {
			in = in[:len(in)-len(seps[last])] // nothing behind the last document
			seps[last] = nil
		}
		separated := true
		for _, sep := range seps[:len(seps)-1] {
			if len(sep) == 0 {
				separated = false
			}
		}
		modes := c.randModes(len(parts) + 1)
		res := c.seqCase("valid", o, in, modes, "valid")
		c.sum.Dist[fmt.Sprintf("valid.docs%d", len(parts))]++
		if !separated {
			c.sum.Dist["valid.unseparated"]++
			continue
		}
		// direct oracle: on a whitespace-separated stream the k-th call sees the k-th document
		for k, p := range parts {
			cj := map[string]interface{}{"input": shortHex(in), "text": shortText(in), "opts": o.String(), "call": k, "document": shortText(p)}
			alone := runSeq(o, p, []int{modes[k]})[0]
			if k >= len(res) {
				break
			}
			got := res[k]
			if got.cls != alone.cls {
				cj["cls"] = got.cls
				cj["cls_alone"] = alone.cls
				cj["err"] = got.errs
				c.sum.FailC("valid", "seq:error", "a document of a whitespace-separated stream decoded to a different outcome class than the same document alone", cj)
				break
			}
			if got.cls != clsOK {
				break
			}
			if a, b := treeOf(got), treeOf(alone); a != b {
				cj["got"] = clip(a, 400)
				cj["alone"] = clip(b, 400)
				c.sum.FailC("valid", "seq:value", "a document of a whitespace-separated stream decoded to a different value than the same document alone", cj)
			}
		}
		if len(res) == len(parts)+1 && res[len(parts)].cls != clsEOF {
			allOK := true
			for _, ob := range res[:len(parts)] {
				if ob.cls != clsOK {
					allOK = false
				}
			}
			if allOK {
				c.sum.FailC("valid", "seq:eof", "the call after the last document of a stream did not report the end of the input",
					map[string]interface{}{"input": shortHex(in), "text": shortText(in), "opts": o.String(), "cls": res[len(parts)].cls})
			}
		}
	}
}

const insertAlphabet = "[]{}:,\"\\ntf-+.eE0129 \n\x00"

func positions(b []byte, set string) []int {
	var ps []int
	for i, ch := range b {
		if strings.IndexByte(set, ch) >= 0 {
			ps = append(ps, i)
		}
	}
	return ps
}

func mutate(r *vh.Rng, b []byte) ([]byte, string) {
	out := append([]byte{}, b...)
	if len(out) == 0 {
		return out, "empty"
	}
	ins := func(i int, x ...byte) []byte {
		return append(append(append([]byte{}, out[:i]...), x...), out[i:]...)
	}
	del := func(i int) []byte { return append(append([]byte{}, out[:i]...), out[i+1:]...) }
	switch r.Intn(11) {
	case 0:
		out[r.Intn(len(out))] = insertAlphabet[r.Intn(len(insertAlphabet))]
		return out, "change"
	case 1:
		out[r.Intn(len(out))] = byte(r.U64())
		return out, "randbyte"
	case 2:
		return del(r.Intn(len(out))), "remove"
	case 3:
		return ins(r.Intn(len(out)+1), insertAlphabet[r.Intn(len(insertAlphabet))]), "insert"
	case 4:
		if ps := positions(out, "[]{}"); len(ps) > 0 {
			p := ps[r.Intn(len(ps))]
			if r.Bool() {
				return del(p), "unbalance-drop"
			}
			return ins(p, out[p]), "unbalance-dup"
		}
		return append(out, ']'), "unbalance-dup"
	case 5:
		if ps := positions(out, "]}"); len(ps) > 0 {
			p := ps[r.Intn(len(ps))]
			out[p] ^= ']' ^ '}'
			return out, "swap-closer"
		}
		return append(out, '}'), "swap-closer"
	case 6:
		if ps := positions(out, ",:"); len(ps) > 0 {
			p := ps[r.Intn(len(ps))]
			if r.Bool() {
				return del(p), "sep-drop"
			}
			return ins(p, out[p]), "sep-double"
		}
		return ins(r.Intn(len(out)+1), ','), "sep-double"
	case 7, 8:
		return out[:r.Intn(len(out))], "truncate"
	case 9:
		if ps := positions(out, "\""); len(ps) > 0 {
			return ins(ps[r.Intn(len(ps))], '\\'), "backslash-quote"
		}
		return ins(r.Intn(len(out)+1), '"'), "insert-quote"
	default:
		i := r.Intn(len(out))
		if r.Bool() {
			out[i]++
		} else {
			out[i]--
		}
		return out, "bump"
	}
}

func (c *ctx) mutStream(docs []encDoc, n int) {
	if len(docs) == 0 {
		return
	}
	for i := 0; i < n; i++ {
		e := docs[c.r.Intn(len(docs))]
		wantContainer := c.r.Chance(3, 4)
		for tries := 0; tries < 6 && (len(e.val) > 300 || wantContainer && len(positions(e.val, "[{")) == 0); tries++ {
			e = docs[c.r.Intn(len(docs))]
		}
		doc := respace(c.r, e.val)
		if c.r.Chance(1, 3) {
			doc = append(doc, randWs(c.r, false)...)
		}
		in, how := mutate(c.r, doc)
		if c.r.Chance(1, 3) {
			in, _ = mutate(c.r, in)
		}
		c.seqCase("mut", randDopts(c.r), in, c.randModes(2), how)
		c.sum.Dist["mut."+how]++
		if hangs > 3 {
			return
		}
	}
}

// sepStream: direct oracles for separator and bracket handling (no model needed). A valid document in
// which ONE structural token is damaged must be refused by Decode(&interface{}):
//   - a ',' or ':' replaced by a space (the next value starts where a separator is required),
//   - a ']' replaced by '}' or a '}' by ']' (Read{Array,Map}End insist on their own closer).
//
// The cases also go to the model (CSeq).
func (c *ctx) sepStream(docs []encDoc, n int) {
	if len(docs) == 0 {
		return
	}
	for i := 0; i < n; i++ {
		e := docs[c.r.Intn(len(docs))]
		for tries := 0; tries < 8 && (len(e.val) > 300 || len(positions(e.val, "[{")) == 0); tries++ {
			e = docs[c.r.Intn(len(docs))]
		}
		toks := splitTokens(e.val)
		var cand []int
		for j, t := range toks {
			if len(t) == 1 && strings.IndexByte(",:]}", t[0]) >= 0 {
				cand = append(cand, j)
			}
		}
		if len(cand) == 0 {
			continue
		}
		j := cand[c.r.Intn(len(cand))]
		var how string
		var in []byte
		for k, t := range toks {
			if k == j {
				switch t[0] {
				case ',':
					in, how = append(in, ' '), "comma-missing"
				case ':':
					in, how = append(in, ' '), "colon-missing"
				case ']':
					in, how = append(in, '}'), "closer-swapped"
				case '}':
					in, how = append(in, ']'), "closer-swapped"
				}
				continue
			}
			in = append(in, t...)
		}
		o := randDopts(c.r)
		res := c.seqCase("sep", o, in, []int{mDec}, how)
		c.sum.Dist["sep."+how]++
		if len(res) > 0 && res[0].cls == clsOK {
			c.sum.FailC("sep", "separator:"+how+":accepted", "a document with one structural separator missing or one closing bracket of the wrong kind was decoded into interface{} without an error",
				map[string]interface{}{"input": shortHex(in), "text": shortText(in), "opts": o.String(), "damage": how, "original": shortText(e.val)})
		}
	}
}

const randAlphabet = "[]{}:,\"\\/ntfalsrueu0123456789.-+eE \t\n"

func randHostile(r *vh.Rng) []byte {
	n := r.Intn(25)
	b := make([]byte, n)
	for i := range b {
		switch r.Intn(12) {
		case 0:
			b[i] = byte(r.U64())
		case 1, 2:
			b[i] = "[]{},:\""[r.Intn(7)]
		default:
			b[i] = randAlphabet[r.Intn(len(randAlphabet))]
		}
	}
	return b
}

type craftedCase struct {
	in       string
	maxDepth int
}

func craftedInputs() []craftedCase {
	var out []craftedCase
	for _, s := range []string{`[1,2}`, `{"a":1]`, `[1 2]`, `{"a" 1}`, `{1:2}`, `[1,]`, `[,1]`, `{"a":1,}`, `[1]]`, `nullx`, `-`, `1e`,
		`["a\"]"]x`, `123`, `123 `, `123,456`, `"a""b"`, `truefalse`, "1\x002", `{"a":1,"a":2}`, `{"a":null}`, `{null:1}`, `{[1]:2}`, `{{}:2}`,
		`{"1":2,"true":3,"x":4}`, "\"\U0001F600\"", `"\q"`, `"abc`, `true1e5`, `{"":1,null:2}`, `{"1.0":1,"1":2,"-0":3}`, `{"false":[],"1e400":{}}`} {
		out = append(out, craftedCase{in: s})
	}
	nums := []string{`1.5`, `-0.0`, `1e400`, `01`, `+1`, `.5`, `5.`, `1e5`, `-9223372036854775808`, `-9223372036854775809`, `18446744073709551615`, `18446744073709551616`}
	out = append(out, craftedCase{in: "[" + strings.Join(nums, ",") + "]"})
	for _, s := range nums {
		out = append(out, craftedCase{in: s})
	}
	for _, md := range []int{3, 5, 6} {
		out = append(out, craftedCase{in: `[[[[[]]]]]`, maxDepth: md})
	}
	return out
}

func (c *ctx) randStream(n int) {
	for i := 0; i < n; i++ {
		c.seqCase("rand", randDopts(c.r), randHostile(c.r), c.randModes(1+c.r.Intn(3)), "random")
		if hangs > 3 {
			return
		}
	}
	variants := []dopts{{}, {preferFloat: true, signed: true}, {dkeyAsStr: true}, {dkeyAsStr: true, mapIntf: true, signed: true}}
	for _, cc := range craftedInputs() {
		in := []byte(cc.in)
		for vi, o := range variants {
			o.maxDepth = cc.maxDepth
			c.seqCase("crafted", o, in, []int{mDec, mDec}, "crafted")
			if vi == 0 {
				c.seqCase("crafted", o, in, []int{c.rawMode(), c.rawMode()}, "crafted")
			}
		}
		if hangs > 3 {
			return
		}
	}
}

// all 256 first bytes x tails; one call per Decoder. Without -firstfull the bytes that can only be
// the start of an (empty) number get one tail each (rotating), the others all of them.
func (c *ctx) firstByteStream(full bool) {
	tails := []string{``, `1`, ` 1 `, `ull`, `alse,`, `rue]`, `"x":1}`, `1,2]`, `\""`}
	other := dopts{preferFloat: true, signed: true, dkeyAsStr: true, mapIntf: true, maxDepth: 1}
	for b := 0; b < 256; b++ {
		special := b < 33 && b%8 == 0 || b == 9 || b == 10 || b == 13 || b == 32 || isNumc(byte(b)) || strings.IndexByte("[]{}:,\"\\ntf", byte(b)) >= 0
		for ti, tail := range tails {
			if !full && !special && ti != b%len(tails) {
				continue
			}
			in := append([]byte{byte(b)}, tail...)
			for oi, o := range []dopts{{}, other} {
				if !full && oi != (b+ti)%2 {
					continue
				}
				c.seqCase("first", o, in, []int{mDec}, "firstbyte")
				c.seqCase("first", o, in, []int{c.rawMode()}, "firstbyte")
			}
		}
	}
}

// ---------------------------------------------------------------- regressions of the repaired defect

func (c *ctx) regrStream() {
	run := func(f func()) (hung bool, pv interface{}) {
		ch := make(chan interface{}, 1)
		go func() {
			defer func() { ch <- recover() }()
			f()
		}()
		select {
		case pv = <-ch:
			return false, pv
		case <-time.After(wdTimeout):
			hangs++
			return true, nil
		}
	}
	const clsDelim = "json:raw:number-includes-delimiter"
	const whatDelim = "a json number captured as codec.Raw (nextValueBytes) is returned together with the delimiter byte that follows it"
	const clsPast = "json:bytes-reader:numread-past-end"
	const whatPast = "after a top-level json number at the end of the input the bytes reader's cursor is past the end of the input"

	{
		in := `{"A":123,"B":1}`
		var v struct {
			A codec.Raw
			B int
		}
		var err error
		hung, pv := run(func() { err = codec.NewDecoderBytes([]byte(in), &codec.JsonHandle{}).Decode(&v) })
		if hung || pv != nil || err != nil || string(v.A) != "123" || v.B != 1 {
			c.sum.FailC("regr", clsDelim, whatDelim, map[string]interface{}{"input": in, "target": "struct{A codec.Raw; B int}",
				"A": string(v.A), "B": v.B, "err": fmt.Sprint(err), "hang": hung, "panic": fmt.Sprint(pv)})
		}
		c.sum.Count("regr", "regr/struct-raw-field")
	}
	{
		in := `[1,2 , 3]`
		var v []codec.Raw
		var err error
		hung, pv := run(func() { err = codec.NewDecoderBytes([]byte(in), &codec.JsonHandle{}).Decode(&v) })
		var got []string
		for _, x := range v {
			got = append(got, string(x))
		}
		if hung || pv != nil || err != nil || strings.Join(got, "|") != "1|2|3" {
			c.sum.FailC("regr", clsDelim, whatDelim, map[string]interface{}{"input": in, "target": "[]codec.Raw",
				"elements": got, "err": fmt.Sprint(err), "hang": hung, "panic": fmt.Sprint(pv)})
		}
		c.sum.Count("regr", "regr/slice-of-raw")
	}
	{
		in := `123`
		var v interface{}
		var err error
		nr := -1
		hung, pv := run(func() {
			d := codec.NewDecoderBytes([]byte(in), &codec.JsonHandle{})
			err = d.Decode(&v)
			nr = d.NumBytesRead()
		})
		if hung || pv != nil || err != nil || nr != 3 {
			c.sum.FailC("regr", clsPast, whatPast, map[string]interface{}{"input": in, "target": "interface{}",
				"numread": nr, "value": fmt.Sprint(v), "err": fmt.Sprint(err), "hang": hung, "panic": fmt.Sprint(pv)})
		}
		c.sum.Count("regr", "regr/numread-at-end")
	}
	{
		in := `123`
		var v codec.Raw
		var err error
		nr := -1
		hung, pv := run(func() {
			d := codec.NewDecoderBytes([]byte(in), &codec.JsonHandle{})
			err = d.Decode(&v)
			nr = d.NumBytesRead()
		})
		if hung || pv != nil || err != nil || string(v) != "123" || nr != 3 {
			c.sum.FailC("regr", clsPast, whatPast, map[string]interface{}{"input": in, "target": "codec.Raw",
				"numread": nr, "raw": string(v), "err": fmt.Sprint(err), "hang": hung, "panic": fmt.Sprint(pv)})
		}
		c.sum.Count("regr", "regr/raw-at-end")
	}
}

// ---------------------------------------------------------------- deep nesting (subprocess)

func rep(pat string, n int) []byte { return bytes.Repeat([]byte(pat), n) }

func cat(parts ...[]byte) []byte {
	var out []byte
	for _, p := range parts {
		out = append(out, p...)
	}
	return out
}

type deepCase struct {
	name   string
	mode   string // naked | swallow | raw
	in     []byte
	opts   dopts
	expect []int // acceptable outcome classes
}

func childMain(mode string, maxDepth int, path string) {
	debug.SetMaxStack(64 << 20)
	in, err := os.ReadFile(path)
	if err != nil {
		fmt.Println("CHILD readerr")
		os.Exit(3)
	}
	o := dopts{maxDepth: maxDepth}
	var cls, nr int
	d := codec.NewDecoderBytes(in, decHandle(o))
	switch mode {
	case "naked":
		var v interface{}
		cls = errClass(d.Decode(&v))
	case "raw":
		var v codec.Raw
		cls = errClass(d.Decode(&v))
	case "swallow":
		var v oneField
		cls = errClass(d.Decode(&v))
	}
	nr = d.NumBytesRead()
	fmt.Printf("CHILD %d %d\n", cls, nr)
}

func runChild(dir string, dc deepCase, timeout time.Duration) (cls int, nr int, note string) {
	p := dir + "/deep_" + dc.name + ".bin"
	os.MkdirAll(dir, 0o755)
	if err := os.WriteFile(p, dc.in, 0o644); err != nil {
		return clsFatal, 0, "cannot write input"
	}
	defer os.Remove(p)
	cmd := exec.Command(os.Args[0], "-child", dc.mode, "-childdepth", fmt.Sprint(dc.opts.maxDepth), "-childfile", p)
	var ob bytes.Buffer
	cmd.Stdout = &ob
	cmd.Stderr = io.Discard
	if err := cmd.Start(); err != nil {
		return clsFatal, 0, "cannot start child"
	}
	done := make(chan error, 1)
	go func() { done <- cmd.Wait() }()
	select {
	case err := <-done:
		for _, l := range strings.Split(ob.String(), "\n") {
			if strings.HasPrefix(l, "CHILD ") {
				fmt.Sscanf(l, "CHILD %d %d", &cls, &nr)
				return cls, nr, ""
			}
		}
		return clsFatal, 0, fmt.Sprintf("process died: %v", err)
	case <-time.After(timeout):
		cmd.Process.Kill()
		<-done
		return clsHang, 0, "killed after timeout"
	}
}

func (c *ctx) deepStream(dir string, big int) {
	xs := []byte(`{"x":`)
	cases := []deepCase{
		{name: "naked_arr_1000", mode: "naked", in: cat(rep("[", 1000), rep("]", 1000)), expect: []int{clsOK}},
		{name: "naked_arr_1024", mode: "naked", in: cat(rep("[", 1024), rep("]", 1024)), expect: []int{clsDepth}},
		{name: "naked_arr_big", mode: "naked", in: rep("[", big), expect: []int{clsDepth}},
		{name: "naked_map_big", mode: "naked", in: rep(`{"a":`, big), expect: []int{clsDepth}},
		{name: "naked_arr_md5", mode: "naked", in: cat(rep("[", 5), rep("]", 5)), opts: dopts{maxDepth: 5}, expect: []int{clsDepth}},
		{name: "naked_arr_md5ok", mode: "naked", in: cat(rep("[", 4), rep("]", 4)), opts: dopts{maxDepth: 5}, expect: []int{clsOK}},
		// the json skip scanner is a loop over bytes with no depth accounting: success, no crash
		{name: "raw_arr_big_closed", mode: "raw", in: cat(rep("[", big), rep("]", big)), expect: []int{clsOK}},
		{name: "raw_arr_big_open", mode: "raw", in: rep("[", big), expect: []int{clsEOF}},
		{name: "swallow_arr_big_closed", mode: "swallow", in: cat(xs, rep("[", big), rep("]", big), []byte("}")), expect: []int{clsOK}},
		{name: "swallow_map_big_open", mode: "swallow", in: cat(xs, rep(`{"a":`, big)), expect: []int{clsEOF}},
	}
	for _, dc := range cases {
		cls, nr, note := runChild(dir, dc, 30*time.Second)
		ok := false
		for _, e := range dc.expect {
			if cls == e {
				ok = true
			}
		}
		c.sum.Count(fmt.Sprintf("deep.cls%d", cls), "deep/"+dc.name)
		if !ok {
			outc := map[int]string{clsOK: "ok", clsHang: "hang", clsFatal: "process-death", clsEOF: "eof", clsDepth: "depth-error", clsOther: "other-error"}[cls]
			c.sum.FailC("deep", "deep:"+dc.name, "deep nesting was not handled as the depth bound (or, for the iterative skip scanner, its absence) prescribes",
				map[string]interface{}{"name": dc.name, "mode": dc.mode, "input_len": len(dc.in), "input_head": shortText(dc.in[:min(len(dc.in), 40)]),
					"outcome": outc, "numread": nr, "note": note, "maxdepth": dc.opts.maxDepth})
		}
	}
}

func main() {
	nEnc := flag.Int("enc", 300, "encoder cases")
	nValid := flag.Int("valid", 150, "sequences of re-spaced valid documents")
	nHand := flag.Int("hand", 120, "hand-written-style documents (grammar-generated text)")
	nMut := flag.Int("mut", 300, "mutated documents")
	nRand := flag.Int("rand", 200, "raw random inputs")
	big := flag.Int("big", 3000000, "nesting depth of the deep cases")
	noDeep := flag.Bool("nodeep", false, "skip the subprocess stream")
	firstFull := flag.Bool("firstfull", false, "first-byte stream: every byte x every tail x both option sets (9216 cases) instead of the reduced sweep")
	cases := flag.String("cases", "/verif/build/wjson/cases_wirejson", "directory for the model case files")
	child := flag.String("child", "", "(internal) child mode")
	childDepth := flag.Int("childdepth", 0, "(internal)")
	childFile := flag.String("childfile", "", "(internal)")
	flag.Parse()
	if *child != "" {
		childMain(*child, *childDepth, *childFile)
		return
	}
	seed := vh.SeedFromEnv()
	r := vh.NewRng(seed)
	sum := vh.NewSummary("enc: random item trees of depth <= 3 (int/uint at 0, +-1, +-2^53, +-(2^53+1), int64/uint64 limits; float32/64 incl. +-0, 1e-7/1e20/1e21 format switches, subnormals, NaN/Inf; strings over ASCII, html and control bytes, multi-byte and invalid UTF-8, number/bool look-alikes; []byte; time; typed slices, real maps and MapBySlice) -> ONE Encode under random Indent x IntegerAsString x HTMLCharsAsIs x TermWhitespace x MapKeyAsString x BytesFormat x StringToRaw -> bytes vs model enc_top (CEnc), plus direct oracles (naked decode reads the value back and stops behind it, Raw captures exactly the value, unknown-field skip is exact, encoding/json.Valid). valid: 1..4 re-spaced encodings (any byte < 33 as whitespace) on ONE Decoder, each call Decode(&interface{}) or nextValueBytes (Decode(&Raw) and the hook alternate), plus one call at the end (CSeq: class, NumBytesRead, tree / bytes per call) and the oracle that a separated stream decodes document by document. hand: documents WRITTEN FROM THE GRAMMAR (runs of the four RFC 8259 white-space bytes around all tokens, members in random order, number literals of every shape incl. -0, e/E, signs, 64-bit boundaries and out-of-range exponents, string literals of raw UTF-8, two-character escapes and \\u escapes incl. surrogate pairs and lone surrogates, F09-2r class excluded), one Decode(&interface{}) (CSeq) plus the direct oracle: nesting below MaxDepth and numbers in range => accepted, strings as denoted, numbers as the Go type of the number-kind rule with exact value / strconv bits, members complete. mut: one or two edits (byte change/remove/insert, bracket unbalance, closer swap, separator drop/double, truncation, backslash before a quote), 2 calls. rand: <= 24 bytes over a json alphabet, <= 3 calls; crafted: fixed malformed / boundary inputs under 4 option sets. first: 256 first bytes x 9 tails, one call. regr: the repaired FWjson-1 inputs. fixed: floats the encoder writes as bare integer literals on both sides of 2^63 x every (SignedInteger, PreferFloat) pair, and quoted map keys that are / are not JSON number literals (.5 1. - e5 +5 007 ...) x every decoder MapKeyAsString / MapType / SignedInteger / PreferFloat vector (CSeq). deep: subprocess (SetMaxStack 64MB) nesting cases. non-trivial = input longer than one byte; distinct by (stream, first byte, per-call mode and outcome class, min(length,40)) resp. (Go type, options, length/4, depth) for enc and by name for regr/deep")
	cv := vh.NewCases(*cases, "From Coq Require Import List NArith ZArith.\nFrom Verif Require Import Wire.Item Wire.Json Wire.JsonCorr.\nImport ListNotations.", "case", "mismatches", 60)
	c := &ctx{r: r.Fork(), sum: sum, cv: cv}
	docs := c.encStream(*nEnc)
	c.r = r.Fork()
	c.validStream(docs, *nValid)
	c.r = r.Fork()
	c.handStream(*nHand)
	c.r = r.Fork()
	c.mutStream(docs, *nMut)
	c.sepStream(docs, *nMut/3+20)
	c.r = r.Fork()
	c.randStream(*nRand)
	c.firstByteStream(*firstFull)
	c.fixedStream()
	cv.Close()
	c.regrStream()
	if !*noDeep {
		c.deepStream(*cases+"_tmp", *big)
		os.RemoveAll(*cases + "_tmp")
	}
	sum.Dist["watchdog.hangs"] = hangs
	sum.Print()
}

// tags.go: cbor tagged number sources (RFC 8949 3.4.3 / 3.4.4) for C07: bignums (tag 2 / 3 over a byte
// string), decimal fractions (tag 4, [e, m] = m * 10^e) and bigfloats (tag 5, [e, m] = m * 2^e).
// The codec accepts them where a float is expected (cbor decFloat), so they are numbers a peer can send
// into any numeric destination. Values are exact rationals; the oracle is the same as for every source.
// Not in the Coq model (oracle only).
package main

import (
	"fmt"
	"math"
	"math/big"
)

// cborInt: the shortest cbor integer item for v (|v| fits 64 bits).
func cborInt(v *big.Int) []byte {
	mj := byte(0)
	arg := v
	if v.Sign() < 0 {
		mj = 1
		arg = new(big.Int).Sub(big.NewInt(-1), v)
	}
	a := arg.Uint64()
	switch {
	case a < 24:
		return []byte{mj<<5 | byte(a)}
	case a < 1<<8:
		return append([]byte{mj<<5 | 24}, be(a, 1)...)
	case a < 1<<16:
		return append([]byte{mj<<5 | 25}, be(a, 2)...)
	case a < 1<<32:
		return append([]byte{mj<<5 | 26}, be(a, 4)...)
	}
	return append([]byte{mj<<5 | 27}, be(a, 8)...)
}

func cborTagSources() (out []*source) {
	add := func(repr string, bs []byte, v *big.Rat) {
		out = append(out, &source{format: "cbor", repr: repr, bytes: bs, rat: v, isInt: v.IsInt(), iv: v.Num()})
	}
	// ---- bignums: tag 2 (n) / tag 3 (-1 - n) over a byte string of 0..12 bytes, with and without leading zeros
	var mags []*big.Int
	for _, s := range []int64{0, 1, 5, 255, 256, 65535} {
		mags = append(mags, big.NewInt(s))
	}
	for _, k := range []uint{24, 32, 52, 53, 63, 64, 72, 80, 88, 95} {
		for _, d := range []int64{-1, 0, 1} {
			mags = append(mags, new(big.Int).Add(pow2(k), big.NewInt(d)))
		}
	}
	mags = append(mags, new(big.Int).Sub(pow2(96), big.NewInt(1)),
		new(big.Int).Add(pow2(53), big.NewInt(3)), new(big.Int).Add(pow2(77), pow2(24)), // halfway cases
		new(big.Int).Add(new(big.Int).Add(pow2(77), pow2(24)), big.NewInt(1)))
	for _, n := range mags {
		raw := n.Bytes()
		for _, pad := range []int{0, 1, 3} {
			if len(raw)+pad > 12 || (pad > 0 && len(raw) > 9) {
				continue
			}
			p := append(make([]byte, pad), raw...)
			head := []byte{0x40 | byte(len(p))}
			name := fmt.Sprintf("bignum:%db", len(p))
			add("tag2-"+name, append(append([]byte{0xc2}, head...), p...), new(big.Rat).SetInt(n))
			add("tag3-"+name, append(append([]byte{0xc3}, head...), p...), new(big.Rat).SetInt(new(big.Int).Sub(big.NewInt(-1), n)))
		}
	}
	// ---- decimal fractions and bigfloats: [exponent, mantissa]
	mants := []*big.Int{big.NewInt(0), big.NewInt(1), big.NewInt(2), big.NewInt(15), big.NewInt(150), big.NewInt(-15), big.NewInt(-3), big.NewInt(3),
		big.NewInt(2000000000000000), big.NewInt(1000000000000000001), big.NewInt(9007199254740993), big.NewInt(-9007199254740993), big.NewInt(123456789012345678),
		big.NewInt(math.MaxInt64), big.NewInt(math.MinInt64)}
	pow := func(base int64, e int64) *big.Rat {
		p := new(big.Int).Exp(big.NewInt(base), big.NewInt(abs64(e)), nil)
		if e < 0 {
			return new(big.Rat).SetFrac(big.NewInt(1), p)
		}
		return new(big.Rat).SetInt(p)
	}
	for _, e := range []int64{0, 1, -1, 2, -2, 7, 15, -15, 22, -22, 23, -23, 25, 37, 38, 39, -45, 100, 127, 128, -128, -129, 255, 256, 300, 308, 309, -324, -400} {
		for _, m := range mants {
			v := new(big.Rat).Mul(new(big.Rat).SetInt(m), pow(10, e))
			bs := append([]byte{0xc4, 0x82}, cborInt(big.NewInt(e))...)
			add("tag4-decimal", append(bs, cborInt(m)...), v)
		}
	}
	for _, e := range []int64{0, 1, -1, 10, -10, 52, 53, 64, -64, 127, 128, -149, -150, 960, 970, 1023, 1024, 2000, -1074, -1075, -1137, -1138, -2000} {
		for _, m := range mants {
			v := new(big.Rat).Mul(new(big.Rat).SetInt(m), pow(2, e))
			bs := append([]byte{0xc5, 0x82}, cborInt(big.NewInt(e))...)
			add("tag5-bigfloat", append(bs, cborInt(m)...), v)
		}
	}
	return
}

func abs64(x int64) int64 {
	if x < 0 {
		return -x
	}
	return x
}

// seq.go: SEQUENCE stream for C07 — several numbers of different wire widths decoded one after
// another on ONE Decoder (shared scratch buffers, descriptor state), as a top-level sequence and as
// the elements of []T, [k]T and the fields of a struct, from []byte and from an io.Reader.
// Every element is judged against math/big exactly like a single value, and must also equal
// what the same bytes decode to on a fresh Decoder.
package main

import (
	"bytes"
	"fmt"
	"io"
	"math"
	"math/big"
	"reflect"
	"sort"
	"strings"
	"testing/iotest"

	"verifharness/vh"

	"github.com/ugorji/go/codec"
)

const seqLen = 4

// seqPools: per format, representation class -> sources (ascending magnitude).
func seqPools() map[string]map[string][]*source {
	pools := map[string]map[string][]*source{}
	add := func(s *source) {
		if pools[s.format] == nil {
			pools[s.format] = map[string][]*source{}
		}
		pools[s.format][s.repr] = append(pools[s.format][s.repr], s)
	}
	var vals []*big.Int
	vals = append(vals, big.NewInt(0), big.NewInt(5), big.NewInt(-1), big.NewInt(-5), big.NewInt(16))
	for n := uint(1); n <= 8; n++ {
		ones := new(big.Int).Sub(pow2(8*n), big.NewInt(1)) // every payload byte 0xff
		half := new(big.Int).Sub(pow2(8*n-1), big.NewInt(1))
		vals = append(vals, ones, half, new(big.Int).Neg(ones), new(big.Int).Neg(half), new(big.Int).Neg(pow2(8*n-1)))
		if n > 1 {
			low := new(big.Int).Add(pow2(8*(n-1)), big.NewInt(5)) // 01 00 .. 05
			vals = append(vals, low, new(big.Int).Neg(low))
		}
	}
	for _, v := range vals {
		for _, s := range intSources(v) {
			add(s)
		}
	}
	for _, f := range []float64{1.5, -2.25, 3, 1e10, -0.1, 255.99609375, math.MaxFloat32, math.Float64frombits(0xffefffffffffffff), math.Float64frombits(0x3ff00000000000ff)} {
		for _, s := range floatSources(f) {
			add(s)
		}
	}
	for _, s := range halfSources([]uint16{0x3e00, 0xfbff, 0x0001}) {
		add(s)
	}
	for _, l := range []string{"5", "255", "65536", "4294967301", "1099511627781", "281474976710661", "72057594037927941", "9223372036854775807",
		"-9223372036854775808", "18446744073709551615", "1.5", "-2.25", "1e10", "12e1", "1.7976931348623157e308"} {
		js := jsonSource(l)
		js.repr = "lit:" + l
		add(js)
	}
	return pools
}

func fitsKind(s *source, k kindT) bool {
	var isInt bool
	var iv *big.Int
	if s.format == "json" || s.rat != nil {
		if s.rat == nil {
			return false
		}
		isInt = s.rat.IsInt()
		iv = s.rat.Num()
	} else {
		isInt, iv = s.isInt, s.iv
	}
	switch k.class {
	case "int":
		return isInt && fitsS(iv, uint(k.bits))
	case "uint":
		return isInt && fitsU(iv, uint(k.bits))
	}
	if k.bits == 32 && !isInt {
		return s.format == "json" || math.IsNaN(s.fv) || math.IsInf(s.fv, 0) || math.Abs(s.fv) <= math.MaxFloat32
	}
	if !isInt {
		return true
	}
	lo := new(big.Int).Neg(pow2(63))
	return iv.Cmp(lo) >= 0 && iv.Cmp(pow2(64)) < 0
}

// seqFrame: the bytes before, between and after the k elements of a container, cut out of the
// real encoder's output for a container of distinctive placeholders.
func seqFrame(format, shape string, k int) (seps [][]byte, ok bool) {
	ph := make([]int64, k)
	for i := range ph {
		ph[i] = placeholder + int64(i+1)<<56
	}
	var v interface{}
	switch shape {
	case "top":
		sep := []byte{}
		if format == "json" {
			sep = []byte(" ")
		}
		seps = append(seps, []byte{})
		for i := 1; i < k; i++ {
			seps = append(seps, sep)
		}
		return append(seps, []byte{}), true
	case "slice":
		v = ph
	case "array":
		a := reflect.New(reflect.ArrayOf(k, reflect.TypeOf(int64(0)))).Elem()
		for i := range ph {
			a.Index(i).SetInt(ph[i])
		}
		v = a.Interface()
	case "struct":
		st := reflect.New(seqStructType(reflect.TypeOf(int64(0)), k)).Elem()
		for i := range ph {
			st.Field(i).SetInt(ph[i])
		}
		v = st.Interface()
	}
	var full []byte
	if codec.NewEncoderBytes(&full, handle(format)).Encode(v) != nil {
		return nil, false
	}
	rest := full
	for i := range ph {
		var e []byte
		if codec.NewEncoderBytes(&e, handle(format)).Encode(ph[i]) != nil {
			return nil, false
		}
		j := bytes.Index(rest, e)
		if j < 0 {
			return nil, false
		}
		seps = append(seps, append([]byte{}, rest[:j]...))
		rest = rest[j+len(e):]
	}
	return append(seps, append([]byte{}, rest...)), true
}

var seqStructTypes = map[string]reflect.Type{}

func seqStructType(t reflect.Type, k int) reflect.Type {
	key := fmt.Sprintf("%s/%d", t.String(), k)
	if st, ok := seqStructTypes[key]; ok {
		return st
	}
	var fs []reflect.StructField
	for i := 0; i < k; i++ {
		fs = append(fs, reflect.StructField{Name: fmt.Sprintf("F%d", i), Type: t})
	}
	st := reflect.StructOf(fs)
	seqStructTypes[key] = st
	return st
}

func outcomeOf(e reflect.Value, k kindT) (o outcome) {
	o.ok = true
	switch k.class {
	case "int":
		o.z = big.NewInt(e.Int())
	case "uint":
		o.z = new(big.Int).SetUint64(e.Uint())
	default:
		if k.bits == 32 {
			o.bits = uint64(math.Float32bits(float32(e.Float())))
		} else {
			o.bits = math.Float64bits(e.Float())
		}
	}
	return
}

// decodeSeq decodes the elements on one Decoder; outs[i].ok == false from the first failure on.
func decodeSeq(format, shape string, wire []byte, n int, k kindT, mode string) (outs []outcome) {
	outs = make([]outcome, n)
	var dec *codec.Decoder
	switch mode {
	case "bytes":
		dec = codec.NewDecoderBytes(wire, handle(format))
	case "io":
		dec = codec.NewDecoder(bytes.NewReader(wire), handle(format))
	default:
		dec = codec.NewDecoder(iotest.OneByteReader(io.Reader(bytes.NewReader(wire))), handle(format))
	}
	safe := func(v interface{}) (err error) {
		defer func() {
			if r := recover(); r != nil {
				err = fmt.Errorf("panic: %v", r)
			}
		}()
		return dec.Decode(v)
	}
	switch shape {
	case "top":
		for i := 0; i < n; i++ {
			rv := reflect.New(k.builtin)
			if safe(rv.Interface()) != nil {
				return
			}
			outs[i] = outcomeOf(rv.Elem(), k)
		}
	case "slice", "array":
		var rv reflect.Value
		if shape == "slice" {
			rv = reflect.New(reflect.SliceOf(k.builtin))
		} else {
			rv = reflect.New(reflect.ArrayOf(n, k.builtin))
		}
		if safe(rv.Interface()) != nil || rv.Elem().Len() != n {
			return
		}
		for i := 0; i < n; i++ {
			outs[i] = outcomeOf(rv.Elem().Index(i), k)
		}
	case "struct":
		rv := reflect.New(seqStructType(k.builtin, n))
		if safe(rv.Interface()) != nil {
			return
		}
		for i := 0; i < n; i++ {
			outs[i] = outcomeOf(rv.Elem().Field(i), k)
		}
	}
	return
}

func seqStream(sum *vh.Summary, r *vh.Rng, nRand int) {
	pools := seqPools()
	seqKinds := []kindT{kinds[3], kinds[8], kinds[12], kinds[11]} // int64, uint64, float64, float32
	shapesSeq := []string{"top", "slice", "array", "struct"}
	modes := []string{"bytes", "io", "io1"}
	formats := append([]string{}, vh.Formats...)
	nseq := 0
	run := func(format string, elems []*source, k kindT) {
		// what each element gives on a fresh Decoder; elements the decoder refuses on their own
		// (an error is always allowed) are left out, so every element of the sequence must succeed
		var kept []*source
		var fresh []outcome
		for _, s := range elems {
			if o := decodeInto(format, s.bytes, k, false); o.ok {
				kept = append(kept, s)
				fresh = append(fresh, o)
			}
		}
		elems = kept
		if len(elems) < 2 {
			return
		}
		for _, sh := range shapesSeq {
			seps, ok := seqFrame(format, sh, len(elems))
			if !ok {
				continue
			}
			var wire []byte
			for i, s := range elems {
				wire = append(wire, seps[i]...)
				wire = append(wire, s.bytes...)
			}
			wire = append(wire, seps[len(elems)]...)
			for _, mode := range modes {
				outs := decodeSeq(format, sh, wire, len(elems), k, mode)
				nseq++
				for i, s := range elems {
					path := "seq-" + sh
					if outs[i].ok {
						judge(s, k, outs[i], path, sum, i)
					}
					oc := "err"
					if outs[i].ok {
						oc = "ok"
					}
					prev := "first"
					if i > 0 {
						prev = elems[i-1].repr
					}
					sum.Count(format+".seq."+sh+"."+oc, fmt.Sprintf("seq/%s/%s/%s-after-%s/%s/%s", format, sh, s.repr, prev, k.name, oc))
					if fresh[i].ok && !sameOutcome(k, fresh[i], outs[i]) {
						var reprs, hexes []string
						for _, e := range elems {
							reprs = append(reprs, e.repr)
							hexes = append(hexes, vh.Hex(e.bytes))
						}
						rf := s.repr
						if j := strings.Index(rf, ":"); j >= 0 && format != "json" {
							rf = rf[:j]
						}
						sum.FailC("sequence", fmt.Sprintf("%s:%s:later-element-differs-from-fresh-decoder->%s", format, rf, k.class),
							"a number decoded after other numbers on the same Decoder differs from what the same bytes give on a fresh Decoder",
							map[string]interface{}{"format": format, "shape": sh, "mode": mode, "dest": k.name, "index": i,
								"reprs": strings.Join(reprs, ","), "elements": strings.Join(hexes, " "), "wire": vh.Hex(wire)})
					}
				}
			}
		}
	}
	for _, format := range formats {
		pool := pools[format]
		var reprs []string
		for rp := range pool {
			reprs = append(reprs, rp)
		}
		sort.Strings(reprs)
		for _, k := range seqKinds {
			// candidates per representation that fit this destination
			cand := map[string][]*source{}
			var rs []string
			for _, rp := range reprs {
				for _, s := range pool[rp] {
					if fitsKind(s, k) {
						cand[rp] = append(cand[rp], s)
					}
				}
				if len(cand[rp]) > 0 {
					rs = append(rs, rp)
				}
			}
			// every ordered pair of representations: A(big) B(small) B(big) A(small)
			for _, a := range rs {
				for _, b := range rs {
					ca, cb := cand[a], cand[b]
					run(format, []*source{ca[len(ca)-1], cb[0], cb[len(cb)-1], ca[0]}, k)
				}
			}
			// random longer walks over all candidates
			for i := 0; i < nRand && len(rs) > 0; i++ {
				var el []*source
				for j := 0; j < seqLen+r.Intn(5); j++ {
					c := cand[rs[r.Intn(len(rs))]]
					el = append(el, c[r.Intn(len(c))])
				}
				run(format, el, k)
			}
		}
	}
	sum.Dist["sequences"] = nseq
}

// c07: property oracle and correspondence cases for C07 (numbers are never
// silently changed when decoded into another numeric type).
//
// Sources are built as wire bytes directly (every width a value fits in, not
// only the one the encoder prefers), decoded with the real Decoder into each of
// the 13 destination kinds twice (builtin pointer = the *intN switch of
// decode.go, named type = the reflective kIntN path), and judged against
// math/big: Ok => the stored value is the source's mathematical value (integers
// exactly; floats correctly rounded, at most one ulp away and exact when
// representable; float -> integer only without fraction).  The observations of
// the four binary formats and of json integer literals are also written as Coq
// cases for the model (coq/theories/C07/Corr.v).
package main

import (
	"flag"
	"fmt"
	"math"
	"math/big"
	"reflect"
	"strconv"
	"strings"

	"verifharness/vh"

	"github.com/ugorji/go/codec"
)

type (
	nInt8    int8
	nInt16   int16
	nInt32   int32
	nInt64   int64
	nInt     int
	nUint8   uint8
	nUint16  uint16
	nUint32  uint32
	nUint64  uint64
	nUint    uint
	nUintptr uintptr
	nFloat32 float32
	nFloat64 float64
)

type kindT struct {
	name    string
	builtin reflect.Type
	named   reflect.Type
	bits    int
	class   string // int, uint, float
}

// order must match C07.Corr.kinds
var kinds = []kindT{
	{"int8", reflect.TypeOf(int8(0)), reflect.TypeOf(nInt8(0)), 8, "int"},
	{"int16", reflect.TypeOf(int16(0)), reflect.TypeOf(nInt16(0)), 16, "int"},
	{"int32", reflect.TypeOf(int32(0)), reflect.TypeOf(nInt32(0)), 32, "int"},
	{"int64", reflect.TypeOf(int64(0)), reflect.TypeOf(nInt64(0)), 64, "int"},
	{"int", reflect.TypeOf(int(0)), reflect.TypeOf(nInt(0)), 64, "int"},
	{"uint8", reflect.TypeOf(uint8(0)), reflect.TypeOf(nUint8(0)), 8, "uint"},
	{"uint16", reflect.TypeOf(uint16(0)), reflect.TypeOf(nUint16(0)), 16, "uint"},
	{"uint32", reflect.TypeOf(uint32(0)), reflect.TypeOf(nUint32(0)), 32, "uint"},
	{"uint64", reflect.TypeOf(uint64(0)), reflect.TypeOf(nUint64(0)), 64, "uint"},
	{"uint", reflect.TypeOf(uint(0)), reflect.TypeOf(nUint(0)), 64, "uint"},
	{"uintptr", reflect.TypeOf(uintptr(0)), reflect.TypeOf(nUintptr(0)), 64, "uint"},
	{"float32", reflect.TypeOf(float32(0)), reflect.TypeOf(nFloat32(0)), 32, "float"},
	{"float64", reflect.TypeOf(float64(0)), reflect.TypeOf(nFloat64(0)), 64, "float"},
}

type source struct {
	format string
	repr   string // representation class (descriptor family + width)
	bytes  []byte
	isInt  bool
	iv     *big.Int // integer sources
	fv     float64  // float sources of the binary formats (every f16/f32/f64 is exactly a float64)
	rat    *big.Rat // json literals (nil when the literal is not a finite number)
	lit    string
	model  bool
}

var handles = map[string]codec.Handle{}

func handle(format string) codec.Handle {
	if h, ok := handles[format]; ok {
		return h
	}
	h := vh.NewHandle(format, vh.Opts{})
	handles[format] = h
	return h
}

type outcome struct {
	ok   bool
	z    *big.Int // integer kinds
	bits uint64   // float kinds (float32: 32-bit pattern)
	ecls int      // !ok: 3 = the error says "overflow" (Outcome.EOverflow), 8 = any other error (EOther)
}

func decodeInto(format string, bs []byte, k kindT, named bool) (o outcome) {
	t := k.builtin
	if named {
		t = k.named
	}
	rv := reflect.New(t)
	var err error
	func() {
		defer func() {
			if r := recover(); r != nil {
				err = fmt.Errorf("panic: %v", r)
			}
		}()
		err = codec.NewDecoderBytes(bs, handle(format)).Decode(rv.Interface())
	}()
	if err != nil {
		o.ecls = 8
		if strings.Contains(err.Error(), "overflow") {
			o.ecls = 3
		}
		return
	}
	o.ok = true
	e := rv.Elem()
	switch k.class {
	case "int":
		o.z = big.NewInt(e.Int())
	case "uint":
		o.z = new(big.Int).SetUint64(e.Uint())
	default:
		if k.bits == 32 {
			o.bits = uint64(math.Float32bits(float32(e.Float())))
		} else {
			o.bits = math.Float64bits(e.Float())
		}
	}
	return
}

// ---- element destinations: the same number as an element of a container ----
//
// []T, [1]T, map[string]T, map[T]bool (the number is the key) and *T go through the generated
// fast paths / the builtin type switch, whose narrowing code is separate from the scalar one.
// The container framing around the number is taken from the real encoder once per format
// (encode the container around a distinctive placeholder, cut the placeholder's bytes out).

var shapes = []string{"slice", "array", "mapval", "mapkey", "ptr"}

type frame struct{ pre, suf []byte }

var frames = map[string]frame{}

const placeholder int64 = 0x0102030405060708

func frameOf(format, shape string) (frame, bool) {
	key := format + "/" + shape
	if f, ok := frames[key]; ok {
		return f, f.pre != nil
	}
	var v interface{}
	switch shape {
	case "slice":
		v = []int64{placeholder}
	case "array":
		v = [1]int64{placeholder}
	case "mapval":
		v = map[string]int64{"a": placeholder}
	case "mapkey":
		v = map[int64]bool{placeholder: true}
	default:
		frames[key] = frame{pre: []byte{}, suf: []byte{}}
		return frames[key], true
	}
	var full, elem []byte
	e1 := codec.NewEncoderBytes(&full, handle(format)).Encode(v)
	e2 := codec.NewEncoderBytes(&elem, handle(format)).Encode(placeholder)
	i := strings.Index(string(full), string(elem))
	if e1 != nil || e2 != nil || i < 0 || strings.Count(string(full), string(elem)) != 1 {
		frames[key] = frame{}
		return frame{}, false
	}
	f := frame{pre: append([]byte{}, full[:i]...), suf: append([]byte{}, full[i+len(elem):]...)}
	frames[key] = f
	return f, true
}

func containerType(shape string, t reflect.Type) reflect.Type {
	switch shape {
	case "slice":
		return reflect.SliceOf(t)
	case "array":
		return reflect.ArrayOf(1, t)
	case "mapval":
		return reflect.MapOf(reflect.TypeOf(""), t)
	case "mapkey":
		return reflect.MapOf(t, reflect.TypeOf(true))
	}
	return reflect.PtrTo(t)
}

// decodeElem decodes the framed number into the container shape and returns the element.
func decodeElem(format, shape string, bs []byte, k kindT) (o outcome, framed bool) {
	f, ok := frameOf(format, shape)
	if !ok {
		return outcome{}, false
	}
	wire := append(append(append([]byte{}, f.pre...), bs...), f.suf...)
	rv := reflect.New(containerType(shape, k.builtin))
	var err error
	func() {
		defer func() {
			if r := recover(); r != nil {
				err = fmt.Errorf("panic: %v", r)
			}
		}()
		err = codec.NewDecoderBytes(wire, handle(format)).Decode(rv.Interface())
	}()
	if err != nil {
		return outcome{}, true
	}
	c := rv.Elem()
	var e reflect.Value
	switch shape {
	case "slice", "array":
		if c.Len() != 1 {
			return outcome{}, true
		}
		e = c.Index(0)
	case "mapval":
		if c.Len() != 1 {
			return outcome{}, true
		}
		e = c.MapIndex(c.MapKeys()[0])
	case "mapkey":
		if c.Len() != 1 {
			return outcome{}, true
		}
		e = c.MapKeys()[0]
	default:
		if c.IsNil() {
			return outcome{}, true
		}
		e = c.Elem()
	}
	o.ok = true
	switch k.class {
	case "int":
		o.z = big.NewInt(e.Int())
	case "uint":
		o.z = new(big.Int).SetUint64(e.Uint())
	default:
		if k.bits == 32 {
			o.bits = uint64(math.Float32bits(float32(e.Float())))
		} else {
			o.bits = math.Float64bits(e.Float())
		}
	}
	return o, true
}

func sameOutcome(k kindT, a, b outcome) bool {
	if a.ok != b.ok {
		return false
	}
	if !a.ok {
		return true
	}
	if k.class == "float" {
		if k.bits == 32 {
			fa, fb := math.Float32frombits(uint32(a.bits)), math.Float32frombits(uint32(b.bits))
			return a.bits == b.bits || (fa != fa && fb != fb)
		}
		fa, fb := math.Float64frombits(a.bits), math.Float64frombits(b.bits)
		return a.bits == b.bits || (fa != fa && fb != fb)
	}
	return a.z.Cmp(b.z) == 0
}

// ---- exact arithmetic helpers ----

func pow2(k uint) *big.Int { return new(big.Int).Lsh(big.NewInt(1), k) }

func ratOfFloat(f float64) *big.Rat { r, _ := new(big.Float).SetFloat64(f).Rat(nil); return r }

// floatOK: is the stored float (as float64 value st, in a format with the given
// neighbours) an acceptable image of the exact value v: equal when v is
// representable, otherwise strictly between the two neighbours of st.
func floatOK(v *big.Rat, st float64, is32 bool) (ok bool, exactRequired bool) {
	if math.IsNaN(st) {
		return false, false
	}
	var lo, hi float64
	if is32 {
		s := float32(st)
		lo = float64(math.Nextafter32(s, float32(math.Inf(-1))))
		hi = float64(math.Nextafter32(s, float32(math.Inf(1))))
	} else {
		lo = math.Nextafter(st, math.Inf(-1))
		hi = math.Nextafter(st, math.Inf(1))
	}
	if math.IsInf(st, 0) {
		// overflow to infinity is never an acceptable image of a finite value
		return false, false
	}
	rs := ratOfFloat(st)
	if v.Cmp(rs) == 0 {
		return true, true
	}
	// is v itself representable? then st had to be v
	var vf float64
	if is32 {
		f32, _ := new(big.Float).SetPrec(2000).SetRat(v).Float32()
		vf = float64(f32)
	} else {
		vf, _ = new(big.Float).SetPrec(2000).SetRat(v).Float64()
	}
	if !math.IsInf(vf, 0) && ratOfFloat(vf).Cmp(v) == 0 {
		return false, true
	}
	okLo := math.IsInf(lo, -1) || ratOfFloat(lo).Cmp(v) < 0
	okHi := math.IsInf(hi, 1) || v.Cmp(ratOfFloat(hi)) < 0
	return okLo && okHi, false
}

func magClass(v *big.Rat) string {
	a := new(big.Rat).Abs(v)
	cmp := func(k uint) bool { return a.Cmp(new(big.Rat).SetInt(pow2(k))) >= 0 }
	s := ""
	if v.Sign() < 0 {
		s = "-"
	}
	switch {
	case cmp(64):
		return s + ">=2^64"
	case cmp(63):
		return s + ">=2^63"
	case cmp(53):
		return s + ">=2^53"
	case cmp(32):
		return s + ">=2^32"
	}
	return s + "<2^32"
}

// judge applies the property to one (source, destination, outcome).
func judge(s *source, k kindT, o outcome, path string, sum *vh.Summary, idx int) {
	if !o.ok {
		return // an error is always allowed
	}
	var v *big.Rat
	special := "" // nan, +inf, -inf
	switch {
	case s.format == "json" || s.rat != nil:
		v = s.rat
	case s.isInt:
		v = new(big.Rat).SetInt(s.iv)
	default:
		switch {
		case math.IsNaN(s.fv):
			special = "nan"
		case math.IsInf(s.fv, 1):
			special = "+inf"
		case math.IsInf(s.fv, -1):
			special = "-inf"
		default:
			v = ratOfFloat(s.fv)
		}
	}
	srcKind := "float"
	if s.isInt {
		srcKind = "int"
	}
	cj := map[string]interface{}{"format": s.format, "repr": s.repr, "bytes": vh.Hex(s.bytes), "dest": k.name, "path": path, "case_index": idx}
	if s.lit != "" {
		cj["literal"] = s.lit
	}
	fail := func(sym, what string) {
		mc := special
		if v != nil {
			mc = magClass(v)
		}
		rf := s.repr
		if i := strings.Index(rf, ":"); i >= 0 && s.format != "json" {
			rf = rf[:i] // descriptor family without the width
		}
		dest := k.class
		if path != "builtin" && path != "named" {
			dest = path + "-of-" + k.class // element destinations have their own narrowing code
		}
		cls := fmt.Sprintf("%s:%s:%s%s->%s:%s", s.format, rf, srcKind, mc, dest, sym)
		sum.FailC("oracle", cls, what, cj)
	}
	if k.class != "float" {
		cj["stored"] = o.z.String()
		if v == nil {
			fail("special-accepted", "NaN or infinity accepted into an integer destination")
			return
		}
		cj["source_value"] = v.RatString()
		if !v.IsInt() {
			fail("fraction-dropped", "a source with a fractional part was accepted into an integer destination")
			return
		}
		if v.Num().Cmp(o.z) != 0 {
			fail("wrong-integer", "stored integer differs from the source's mathematical value (wrapped, truncated or sign-flipped)")
		}
		return
	}
	// float destination
	var st float64
	if k.bits == 32 {
		st = float64(math.Float32frombits(uint32(o.bits)))
	} else {
		st = math.Float64frombits(o.bits)
	}
	cj["stored_bits"] = fmt.Sprintf("%x", o.bits)
	if special != "" {
		good := (special == "nan" && math.IsNaN(st)) || (special == "+inf" && math.IsInf(st, 1)) || (special == "-inf" && math.IsInf(st, -1))
		if !good {
			fail("special-changed", "NaN or infinity source stored as a different float")
		}
		return
	}
	cj["source_value"] = v.RatString()
	ok, exact := floatOK(v, st, k.bits == 32)
	if !ok {
		if math.IsInf(st, 0) {
			fail("float-overflow", "finite source stored as infinity without an error")
		} else if exact {
			fail("float-inexact", "source exactly representable in the destination but a different float was stored")
		} else {
			fail("float-far", "stored float is more than one ulp away from the source's value")
		}
		return
	}
	// sign of zero
	if v.Sign() == 0 && !s.isInt && s.format != "json" && s.rat == nil && math.Signbit(s.fv) != math.Signbit(st) {
		fail("zero-sign", "sign of a float zero changed")
	}
}

// ---- source construction ----

func be(v uint64, n int) []byte {
	b := make([]byte, n)
	for i := n - 1; i >= 0; i-- {
		b[i] = byte(v)
		v >>= 8
	}
	return b
}

func fitsU(v *big.Int, bits uint) bool { return v.Sign() >= 0 && v.Cmp(pow2(bits)) < 0 }
func fitsS(v *big.Int, bits uint) bool {
	lo := new(big.Int).Neg(pow2(bits - 1))
	return v.Cmp(lo) >= 0 && v.Cmp(pow2(bits-1)) < 0
}

func intSources(v *big.Int) (out []*source) {
	add := func(format, repr string, bs []byte) {
		out = append(out, &source{format: format, repr: repr, bytes: bs, isInt: true, iv: v, model: true})
	}
	// cbor: major 0 (v) / major 1 (-1-v), every argument width that fits
	{
		var arg *big.Int
		mj := byte(0)
		name := "uint"
		if v.Sign() >= 0 {
			arg = v
		} else {
			arg = new(big.Int).Sub(big.NewInt(-1), v)
			mj = 1
			name = "negint"
		}
		if fitsU(arg, 64) {
			a := arg.Uint64()
			if a < 24 {
				add("cbor", name+":imm", []byte{mj<<5 | byte(a)})
			}
			for i, n := range []int{1, 2, 4, 8} {
				if fitsU(arg, uint(8*n)) {
					add("cbor", fmt.Sprintf("%s:%db", name, n), append([]byte{mj<<5 | byte(24+i)}, be(a, n)...))
				}
			}
		}
	}
	// msgpack
	{
		if fitsU(v, 7) {
			add("msgpack", "posfix", []byte{byte(v.Uint64())})
		}
		if v.Sign() < 0 && v.Cmp(big.NewInt(-32)) >= 0 {
			add("msgpack", "negfix", []byte{byte(v.Int64())})
		}
		for i, n := range []int{1, 2, 4, 8} {
			if fitsU(v, uint(8*n)) {
				add("msgpack", fmt.Sprintf("uint:%db", n), append([]byte{0xcc + byte(i)}, be(v.Uint64(), n)...))
			}
			if fitsS(v, uint(8*n)) {
				add("msgpack", fmt.Sprintf("int:%db", n), append([]byte{0xd0 + byte(i)}, be(uint64(v.Int64()), n)...))
			}
		}
	}
	// binc and simple: sign + magnitude
	mag := new(big.Int).Abs(v)
	if fitsU(mag, 64) {
		m := mag.Uint64()
		for n := 1; n <= 8; n++ {
			if !fitsU(mag, uint(8*n)) {
				continue
			}
			if v.Sign() >= 0 {
				add("binc", fmt.Sprintf("posint:%db", n), append([]byte{1<<4 | byte(n-1)}, be(m, n)...))
			}
			if v.Sign() <= 0 {
				add("binc", fmt.Sprintf("negint:%db", n), append([]byte{2<<4 | byte(n-1)}, be(m, n)...))
			}
		}
		if v.Sign() > 0 && m <= 16 {
			add("binc", "smallint", []byte{9<<4 | byte(m-1)})
		}
		if v.Sign() == 0 {
			add("binc", "special-zero", []byte{7})
		}
		if v.Cmp(big.NewInt(-1)) == 0 {
			add("binc", "special-negone", []byte{8})
		}
		for i, n := range []int{1, 2, 4, 8} {
			if !fitsU(mag, uint(8*n)) {
				continue
			}
			if v.Sign() >= 0 {
				add("simple", fmt.Sprintf("posint:%db", n), append([]byte{8 + byte(i)}, be(m, n)...))
			}
			if v.Sign() <= 0 {
				add("simple", fmt.Sprintf("negint:%db", n), append([]byte{12 + byte(i)}, be(m, n)...))
			}
		}
	}
	return
}

// halfToFloat64: IEEE binary16 -> float64, written from the standard (not from the codec).
func halfToFloat64(h uint16) float64 {
	s := 1.0
	if h>>15 == 1 {
		s = -1
	}
	e := int(h>>10) & 31
	m := float64(h & 0x3ff)
	switch e {
	case 0:
		return s * math.Ldexp(m, -24)
	case 31:
		if m == 0 {
			return s * math.Inf(1)
		}
		return math.NaN()
	}
	return s * math.Ldexp(1024+m, e-25)
}

func floatSources(f float64) (out []*source) {
	add := func(format, repr string, bs []byte) {
		out = append(out, &source{format: format, repr: repr, bytes: bs, fv: f, model: true})
	}
	b64 := be(math.Float64bits(f), 8)
	f32ok := math.IsNaN(f) || float64(float32(f)) == f
	b32 := be(uint64(math.Float32bits(float32(f))), 4)
	add("cbor", "float64", append([]byte{0xfb}, b64...))
	add("msgpack", "float64", append([]byte{0xcb}, b64...))
	add("simple", "float64", append([]byte{5}, b64...))
	add("binc", "float64", append([]byte{3<<4 | 3}, b64...))
	prune := func(b []byte) []byte {
		n := len(b)
		for n > 0 && b[n-1] == 0 {
			n--
		}
		return append([]byte{byte(n)}, b[:n]...)
	}
	add("binc", "float64-pruned", append([]byte{3<<4 | 8 | 3}, prune(b64)...))
	if f32ok {
		add("cbor", "float32", append([]byte{0xfa}, b32...))
		add("msgpack", "float32", append([]byte{0xca}, b32...))
		add("simple", "float32", append([]byte{4}, b32...))
		add("binc", "float32", append([]byte{3<<4 | 1}, b32...))
		add("binc", "float32-pruned", append([]byte{3<<4 | 8 | 1}, prune(b32)...))
	}
	switch {
	case math.IsNaN(f):
		add("binc", "special-nan", []byte{3})
	case math.IsInf(f, 1):
		add("binc", "special-posinf", []byte{4})
	case math.IsInf(f, -1):
		add("binc", "special-neginf", []byte{5})
	case f == 0 && !math.Signbit(f):
		add("binc", "special-zerofloat", []byte{6})
	}
	return
}

func halfSources(hs []uint16) (out []*source) {
	for _, h := range hs {
		out = append(out, &source{format: "cbor", repr: "float16", bytes: []byte{0xf9, byte(h >> 8), byte(h)}, fv: halfToFloat64(h), model: true})
	}
	return
}

func boundaryInts() []*big.Int {
	var out []*big.Int
	seen := map[string]bool{}
	add := func(v *big.Int) {
		if !seen[v.String()] {
			seen[v.String()] = true
			out = append(out, v)
		}
	}
	for _, s := range []int64{0, 1, -1, 16, 17, 23, 24, 25, -24, -25, -32, -33, 100, -100} {
		add(big.NewInt(s))
	}
	for _, k := range []uint{7, 8, 15, 16, 31, 32, 52, 53, 62, 63, 64} {
		for _, d := range []int64{-1, 0, 1} {
			v := new(big.Int).Add(pow2(k), big.NewInt(d))
			add(v)
			add(new(big.Int).Neg(v))
		}
	}
	add(new(big.Int).Add(pow2(63), big.NewInt(5)))
	return out
}

func boundaryFloats() []float64 {
	out := []float64{0, math.Copysign(0, -1), 1, -1, 0.5, -0.5, 1.5, -1.5, 0.1, 255.5, 1e30, -1e30, 1e300,
		math.Inf(1), math.Inf(-1), math.NaN(), math.MaxFloat32, -math.MaxFloat32,
		math.Nextafter(math.MaxFloat32, math.Inf(1)), math.MaxFloat32 * 1.0000001, 3.4028235677973366e38, // halfway to 2^128
		math.MaxFloat64, -math.MaxFloat64, math.SmallestNonzeroFloat64, math.SmallestNonzeroFloat32,
		math.SmallestNonzeroFloat32 / 2, math.SmallestNonzeroFloat32 * 1.5, 1.1754943508222875e-38, // 2^-126
		16777217, 16777219, 3.0000000000000004, 4503599627370495.5, 9007199254740993 + 1,
	}
	for _, k := range []int{7, 8, 15, 16, 23, 24, 31, 32, 51, 52, 53, 62, 63, 64} {
		p := math.Ldexp(1, k)
		for _, v := range []float64{p - 1, p, p + 1, math.Nextafter(p, 0), math.Nextafter(p, math.Inf(1))} {
			out = append(out, v, -v)
		}
	}
	return out
}

var halfBoundary = []uint16{0x0000, 0x8000, 0x0001, 0x8001, 0x03ff, 0x0400, 0x3800, 0x3c00, 0xbc00, 0x3e00, 0x4000, 0xc000, 0x4900,
	0x5bff, 0x5c00, 0x7bff, 0xfbff, 0x7c00, 0xfc00, 0x7e00, 0x7c01, 0xfe00, 0x3555, 0x57f8, 0x5800, 0x5804, 0x6400, 0x77ff}

// ---- json literals ----

func jsonSource(lit string) *source {
	s := &source{format: "json", repr: jsonRepr(lit), bytes: []byte(lit), lit: lit}
	if r, ok := new(big.Rat).SetString(lit); ok {
		s.rat = r
		s.isInt = r.IsInt()
	}
	return s
}

func jsonRepr(lit string) string {
	l := strings.ToLower(lit)
	r := "plain"
	if strings.Contains(l, ".") {
		r = "frac"
	}
	if strings.Contains(l, "e-") {
		r += "+negexp"
	} else if strings.Contains(l, "e") {
		r += "+exp"
	}
	if len(lit) > 40 {
		r += "+long"
	}
	return r
}

func jsonLiterals(ints []*big.Int, r *vh.Rng, extra int) []string {
	seen := map[string]bool{}
	var out []string
	add := func(s string) {
		if !seen[s] && len(s) > 0 {
			seen[s] = true
			out = append(out, s)
		}
	}
	forms := func(v *big.Int) {
		s := v.String()
		add(s)
		add(s + "e0")
		add(s + ".0")
		add(s + "0e-1")
		add(s + "00E-2")
		add(s + ".5")
		add(s + "e1")
		add(s + "e+2")
		neg := ""
		d := s
		if strings.HasPrefix(s, "-") {
			neg, d = "-", s[1:]
		}
		// d.ddd e(len-1)
		if len(d) > 1 {
			add(neg + d[:1] + "." + d[1:] + "e" + fmt.Sprint(len(d)-1))
			add(neg + d[:1] + "." + d[1:] + "e" + fmt.Sprint(len(d)-2)) // one digit of fraction left
			add(neg + "0." + d + "e" + fmt.Sprint(len(d)))
		}
		// trailing zeros folded into the exponent
		t := strings.TrimRight(d, "0")
		if t != "" && len(t) < len(d) {
			add(neg + t + "e" + fmt.Sprint(len(d)-len(t)))
		}
	}
	for _, v := range ints {
		forms(v)
	}
	for _, s := range []string{"2e19", "1e19", "18446744073709551615e-1", "184467440737095516150e-1", "1.8446744073709551615e19",
		"1.8446744073709551616e19", "20000000000000000000", "100000000000000000000", "9223372036854775808e0", "-9223372036854775809",
		"92233720368547758070e-1", "100000000000.00000001", "1.00000000000000000001", "1000000000000000.00000001", "0.99999999999999999999",
		"4503599627370495.9999999999", "123456789012345678901234567890", "1e30", "-1e30", "1e400", "1e-400", "0e5", "-0", "0.0", "-0.0", "0.5", "1.5",
		"1e-1", "10e-1", "10e-2", "255.0", "256", "3.4028235e38", "3.4028236e38", "3.5e38", "1.7976931348623157e308", "1.7976931348623159e308", "1e309",
		"16777217", "9007199254740993", "0.1", "0.30000000000000004", "5e-324", "2.5e-324", "1e22", "1e23", "8.5e37e", "123456789e10", "1844674407370955161.5e1",
		"1" + strings.Repeat("0", 127), "1" + strings.Repeat("0", 128), "1" + strings.Repeat("0", 255), "1" + strings.Repeat("0", 256), "1" + strings.Repeat("0", 300),
		"0." + strings.Repeat("0", 250) + "1", "1" + strings.Repeat("0", 260) + "e-258", "12" + strings.Repeat("0", 254),
	} {
		add(s)
	}
	// dense sweep around the uint64 cutoff (parseUint64_simple's pre-multiply guard fUint64Cutoff =
	// 1844674407370955162) and its power-of-ten multiples, and around MaxUint64 / 2^63
	for _, stem := range []string{"1844674407370955161", "1844674407370955162", "1844674407370955163"} {
		for d := 0; d <= 9; d++ {
			for k := 0; k <= 3; k++ {
				l := stem + fmt.Sprint(d) + strings.Repeat("0", k)
				for _, sg := range []string{"", "-"} {
					add(sg + l)
					add(sg + l + "e0")
					add(sg + l + "e1")
					add(sg + l + "E+2")
				}
			}
		}
	}
	for _, base := range []*big.Int{new(big.Int).Sub(pow2(64), big.NewInt(1)), pow2(63)} {
		for d := int64(-20); d <= 20; d++ {
			v := new(big.Int).Add(base, big.NewInt(d))
			add(v.String())
			add("-" + v.String())
			add(v.String() + "e0")
		}
	}
	for _, l := range jsonModelLiterals() {
		add(l)
	}
	for i := 0; i < extra; i++ {
		// random mantissa digits, dot position and exponent around the uint64/int64 limits
		nd := 1 + r.Intn(22)
		var sb strings.Builder
		if r.Chance(1, 3) {
			sb.WriteByte('-')
		}
		sb.WriteByte(byte('1' + r.Intn(9)))
		for j := 1; j < nd; j++ {
			if r.Chance(1, 3) {
				sb.WriteByte('0')
			} else {
				sb.WriteByte(byte('0' + r.Intn(10)))
			}
		}
		s := sb.String()
		if r.Chance(1, 3) {
			p := 1 + r.Intn(nd)
			off := 0
			if s[0] == '-' {
				off = 1
			}
			if p < nd {
				s = s[:off+p] + "." + s[off+p:]
			}
		}
		if r.Chance(1, 2) {
			s += fmt.Sprintf("e%d", r.Intn(45)-22)
		}
		add(s)
	}
	return out
}

// jsonModelLiterals: the forms the Coq model of json number decoding (C07/Json.v) is tied on,
// besides the sets above: integral exponent forms NeK, leading zeros and signs in the exponent,
// -0 / -0.0 / 1e0 / 1.0 / 1.50e1, fraction digits that cancel with the exponent, 19-21 digit
// mantissas around the uint64 / int64 limits and the mantissa cutoff, every kind's boundaries.
func jsonModelLiterals() (out []string) {
	add := func(s string) { out = append(out, s) }
	for _, s := range []string{"0", "-0", "-0.0", "0.0", "0e0", "-0e0", "0E+5", "0e-5", "0.000", "-0.000e3", "1e0", "1.0", "1.50e1", "1.5e1", "1.5e0",
		"1.50e0", "15e-1", "150e-1", "150e-2", "1500e-2", "1e1", "1E1", "1e+1", "1E+1", "1e-0", "1e+0", "1e01", "1e001", "1e00", "1E-00", "1e019", "1e19", "1e20", "1e-19", "1e-20",
		"12e01", "12e+01", "12e-01", "120e-01", "1e2", "1e02", "1e002", "1.0e2", "1.00e2", "1.000e2", "1.001e2", "1.001e3", "1.0010e3", "10.010e2", "10.010e3",
		"255", "256", "25.5e1", "25.6e1", "2.55e2", "0.255e3", "0.0255e4", "2550e-1", "25500e-2", "127", "128", "-128", "-129", "12.7e1", "-12.8e1", "-1.29e2",
		"32767", "32768", "-32768", "-32769", "65535", "65536", "6.5535e4", "6.5536e4", "655.35e2", "2147483647", "2147483648", "-2147483648", "-2147483649",
		"4294967295", "4294967296", "4.294967295e9", "4.294967296e9", "42949672.95e2", "42949672950e-1", "-1", "-1.0", "-1e0", "-10e-1", "-0.5", "0.5e1", "5e-1", "5e-01",
		"9e18", "9.2e18", "9.3e18", "1.8e19", "1.9e19", "18e18", "19e18", "184e17", "185e17", "-9e18", "-9.2e18", "-9.3e18",
		"1e-1", "1e-01", "10e-1", "100e-1", "100e-2", "100e-3", "1000e-3", "1.000", "1.0001", "0.1e1", "0.10e1", "0.01e2", "0.01e1", "0.001e3", "0.0010e3", "0.00100e3",
		"1e100", "1e99", "1e-99", "1e-100", "0e100", "0e999", "0e-999", "0.0e999", "1e999", "-1e999", "1e-999"} {
		add(s)
	}
	// 18-21 digit mantissas around 2^63, 2^64, the cutoff and round numbers, with every small exponent form
	stems := []string{"9223372036854775807", "9223372036854775808", "9223372036854775809", "18446744073709551615", "18446744073709551616", "18446744073709551617",
		"1844674407370955161", "1844674407370955162", "10000000000000000000", "99999999999999999999", "100000000000000000000", "999999999999999999", "1000000000000000000",
		"123456789012345678901", "18446744073709551610", "18446744073709551620", "184467440737095516150", "184467440737095516160", "922337203685477580700", "922337203685477580800"}
	for _, st := range stems {
		for _, sg := range []string{"", "-"} {
			add(sg + st)
			for _, ex := range []string{"e0", "e1", "e-1", "e-2", "E-3", "e+1", "e01", "e-01", "e2"} {
				add(sg + st + ex)
			}
			// a decimal point at every position near the end and the matching exponent (fraction digits cancel)
			for p := 1; p <= 3 && p < len(st); p++ {
				add(sg + st[:len(st)-p] + "." + st[len(st)-p:] + fmt.Sprintf("e%d", p))
				add(sg + st[:len(st)-p] + "." + st[len(st)-p:] + fmt.Sprintf("e%d", p-1))
				add(sg + st[:len(st)-p] + "." + st[len(st)-p:] + fmt.Sprintf("e%d", p+1))
				add(sg + st[:len(st)-p] + "." + st[len(st)-p:])
			}
			add(sg + st[:1] + "." + st[1:] + fmt.Sprintf("e%d", len(st)-1))
			add(sg + st[:1] + "." + st[1:] + "0" + fmt.Sprintf("e%d", len(st)-1))
			add(sg + "0." + st + fmt.Sprintf("e%d", len(st)))
		}
	}
	// NeK with K = 0..21 for small N
	for _, m := range []string{"1", "2", "9", "18", "19", "92", "93", "184", "185", "1844", "1845"} {
		for k := 0; k <= 21; k++ {
			add(fmt.Sprintf("%se%d", m, k))
			add(fmt.Sprintf("-%se%d", m, k))
		}
	}
	return
}

// jsonRawTokens: number-character tokens OUTSIDE the RFC 8259 grammar.  They are model cases only (the
// model claims to mirror the code on every token; the property and its oracle quantify over literals of
// the grammar, and readFloat's leniency about empty integer / fraction / exponent parts is documented
// under C09): what the real Decoder does with them must be what C07/Json.v computes.
func jsonRawTokens() []string {
	return []string{"00", "01", "-01", "1.", ".5", "-", "+1", "1e", "1e+", "1e-", "1.e1", "1e1.0", "1e1e1", "--1", "1-", "1+1", "1e+-1", "1..0", "1.0.0",
		"-.5", "e1", "E1", "-e1", ".", "-.", "0.", "-0.", "0e", "00.5", "1e0001", "1e+001", "-00", "0123456789", "18446744073709551615.", "18446744073709551616.",
		"1.e19", "2.e19", ".1e1", "1e+", "+", "++1", "+-1", "-+1", "1e++1", "1E", "1.5.", "1.5e", "1.5e1.", "0x10", "1_0"}
}

// jsonToken: the literal is exactly what jsonReadNum hands to the number parsers when it is decoded
// alone at top level (non-empty, only number characters, not starting a string / null)
func jsonToken(lit string) bool {
	if len(lit) == 0 {
		return false
	}
	for i := 0; i < len(lit); i++ {
		c := lit[i]
		if !(c >= '0' && c <= '9' || c == '.' || c == 'e' || c == 'E' || c == '+' || c == '-') {
			return false
		}
	}
	return true
}

func coqBytesN(b []byte) string { return coqBytesZ(b) + "%N" }

func coqOptBits(bits uint64, err error) string {
	if err != nil {
		return "None"
	}
	return fmt.Sprintf("(Some %d)", bits)
}

// ---- Coq rendering ----

func coqZBig(v *big.Int) string {
	if v.Sign() < 0 {
		return "(" + v.String() + ")"
	}
	return v.String()
}

func coqBytesZ(b []byte) string {
	var sb strings.Builder
	sb.WriteString("[")
	for i, x := range b {
		if i > 0 {
			sb.WriteByte(';')
		}
		fmt.Fprintf(&sb, "%d", x)
	}
	sb.WriteString("]")
	return sb.String()
}

// jsonOut: what the real Decoder did with a json token for one destination kind, for C07.Corr.mkjson:
// (true, stored value) or (false, error class)
func jsonOut(k kindT, o outcome) string {
	if !o.ok {
		return fmt.Sprintf("(false,%d)", o.ecls)
	}
	if k.class == "float" {
		return fmt.Sprintf("(true,%d)", o.bits)
	}
	return fmt.Sprintf("(true,%s)", coqZBig(o.z))
}

// jsonCase: the token, strconv.ParseFloat's answers for it (the oracle argument of the model) and the outcomes
func jsonCase(idx int, lit string, jouts []string) string {
	f64, e64 := strconv.ParseFloat(lit, 64)
	f32, e32 := strconv.ParseFloat(lit, 32)
	return fmt.Sprintf("mkjson %d %s %s %s [%s]", idx, coqBytesN([]byte(lit)),
		coqOptBits(math.Float64bits(f64), e64), coqOptBits(uint64(math.Float32bits(float32(f32))), e32), strings.Join(jouts, ";"))
}

var fmtCode = map[string]int{"cbor": 0, "msgpack": 1, "binc": 2, "simple": 3, "json": 4}

func main() {
	casesDir := flag.String("cases", "/verif/build/c07/cases", "directory for the model case files")
	nRand := flag.Int("rand", 200, "random integer/float values per run in addition to the boundary set")
	nJSON := flag.Int("json", 300, "random json literals in addition to the boundary set")
	allHalf := flag.Bool("allhalf", false, "sweep all 65536 float16 patterns (cbor)")
	nSeq := flag.Int("seq", 20, "random sequences per (format, destination) in the sequence stream, besides all ordered pairs of wire representations")
	elems := flag.Bool("elems", true, "also decode every source as an element of []T, [1]T, map[string]T, map[T]bool and *T")
	flag.Parse()
	r := vh.NewRng(vh.SeedFromEnv())
	sum := vh.NewSummary("cross product: wire representation (every width the value fits in, built byte by byte) x 13 destination kinds x 7 decode paths (builtin *T switch, named type via reflection, element of []T, [1]T, map[string]T, key of map[T]bool, *T: the generated fast paths) x boundary values {0, +-1, +-(2^k-1), +-2^k, +-(2^k+1) for k in 7,8,15,16,31,32,52,53,62,63,64, -2^64, fractions, 1e30, +-Inf, NaN, -0.0, float32/float64 limits, subnormals} plus seeded random values; json: decimal/exponent/fraction literal forms of the same integers and random literals. sequence stream: for every ordered pair of wire representations of a format (every integer width incl. binc 3/5/6/7-byte, floats incl. pruned/half) and random walks, 4-8 numbers decoded one after another on ONE Decoder as a top-level sequence, []T, [k]T and struct fields, from []byte, io.Reader and a one-byte reader, each element judged against math/big and against a fresh Decoder. non-trivial = the destination is not the source's own type/width; distinct by (format, representation, magnitude class, sign, destination, outcome)")

	ints := boundaryInts()
	floats := boundaryFloats()
	rr := r.Fork()
	for i := 0; i < *nRand; i++ {
		// random magnitudes spread over bit lengths, both signs
		bl := uint(1 + rr.Intn(65))
		v := new(big.Int).SetUint64(rr.U64())
		if bl < 64 {
			v.And(v, new(big.Int).Sub(pow2(bl), big.NewInt(1)))
		} else if bl == 65 {
			v = new(big.Int).Set(pow2(64)) // -2^64 through negation below
		}
		if rr.Bool() {
			v.Neg(v)
		}
		ints = append(ints, v)
		var f float64
		switch rr.Intn(4) {
		case 0:
			f = math.Float64frombits(rr.U64())
		case 1:
			f = float64(math.Float32frombits(uint32(rr.U64())))
		case 2:
			f = math.Ldexp(float64(rr.U64()>>11), rr.Intn(80)-60)
		default:
			f = float64(int64(rr.U64()) >> uint(rr.Intn(64)))
		}
		floats = append(floats, f)
	}

	var srcs []*source
	for _, v := range ints {
		srcs = append(srcs, intSources(v)...)
	}
	for _, f := range floats {
		srcs = append(srcs, floatSources(f)...)
	}
	hs := halfBoundary
	if *allHalf {
		hs = nil
		for i := 0; i < 65536; i++ {
			hs = append(hs, uint16(i))
		}
	}
	srcs = append(srcs, halfSources(hs)...)
	srcs = append(srcs, cborTagSources()...)
	for _, l := range jsonLiterals(boundaryInts(), r.Fork(), *nJSON) {
		srcs = append(srcs, jsonSource(l))
	}

	header := "From Coq Require Import List NArith ZArith.\nFrom Verif Require Import C07.Model C07.Corr.\nImport ListNotations.\nLocal Open Scope Z_scope."
	cv := vh.NewCases(*casesDir, header, "case", "mismatches", 60)
	seenBytes := map[string]bool{}
	for idx, s := range srcs {
		key := s.format + ":" + string(s.bytes)
		if seenBytes[key] {
			continue
		}
		seenBytes[key] = true
		if s.format == "json" && s.rat == nil {
			// not a number by the oracle's parser: the property only says something when the decoder accepts it
			var jouts []string
			for _, k := range kinds {
				o := decodeInto(s.format, s.bytes, k, false)
				if o.ok {
					sum.FailC("oracle", "json:not-a-number-accepted->"+k.class, "a literal that is not a JSON number was accepted into a numeric destination",
						map[string]interface{}{"format": "json", "literal": s.lit, "dest": k.name})
				}
				jouts = append(jouts, jsonOut(k, o))
			}
			if jsonToken(s.lit) {
				cv.Add(jsonCase(idx, s.lit, jouts))
				sum.ModelCases++
			}
			continue
		}
		var outs, jouts []string
		for _, k := range kinds {
			o := decodeInto(s.format, s.bytes, k, false)
			on := decodeInto(s.format, s.bytes, k, true)
			judge(s, k, o, "builtin", sum, idx)
			judge(s, k, on, "named", sum, idx)
			if *elems {
				for _, sh := range shapes {
					oe, framed := decodeElem(s.format, sh, s.bytes, k)
					if !framed {
						continue
					}
					judge(s, k, oe, sh, sum, idx)
					// json object keys are quoted strings: only the oracle applies there
					if !(s.format == "json" && sh == "mapkey") && !sameOutcome(k, o, oe) {
						sum.FailC("oracle", s.format+":element-differs-from-scalar:"+sh+"-of-"+k.class,
							"the same number decodes differently as a container element (fast path / type switch) than as a scalar",
							map[string]interface{}{"format": s.format, "bytes": vh.Hex(s.bytes), "dest": k.name, "shape": sh, "literal": s.lit})
					}
					oce := "err"
					if oe.ok {
						oce = "ok"
					}
					sum.Count(s.format+".elem."+sh+"."+oce, fmt.Sprintf("%s/%s/%s/%s/%s", s.format, s.repr, sh, k.name, oce))
				}
			}
			same := o.ok == on.ok && (!o.ok || (k.class == "float" && (o.bits == on.bits)) || (k.class != "float" && o.z.Cmp(on.z) == 0))
			if !same {
				sum.FailC("oracle", s.format+":paths-differ->"+k.name, "the builtin-pointer path and the reflective path disagree",
					map[string]interface{}{"format": s.format, "bytes": vh.Hex(s.bytes), "dest": k.name})
			}
			val := "0"
			if o.ok {
				if k.class == "float" {
					val = fmt.Sprint(o.bits)
				} else {
					val = coqZBig(o.z)
				}
			}
			outs = append(outs, fmt.Sprintf("(%s,%s)", vh.CoqBool(o.ok), val))
			if s.format == "json" {
				jouts = append(jouts, jsonOut(k, o))
			}
			// evidence bookkeeping
			triv := (s.isInt && k.name == "int64" && o.ok) || (!s.isInt && k.name == "float64")
			oc := "err"
			if o.ok {
				oc = "ok"
			}
			dkey := ""
			if !triv {
				mc := "special"
				if s.format == "json" || s.rat != nil {
					mc = magClass(s.rat)
				} else if s.isInt {
					mc = magClass(new(big.Rat).SetInt(s.iv))
				} else if !math.IsNaN(s.fv) && !math.IsInf(s.fv, 0) {
					mc = magClass(ratOfFloat(s.fv))
				}
				dkey = fmt.Sprintf("%s/%s/%s/%s/%s", s.format, s.repr, mc, k.name, oc)
			}
			sum.Count(s.format+"."+k.class+"."+oc, dkey)
		}
		if s.model {
			cv.Add(fmt.Sprintf("mkcase %d %d %s [%s]", idx, fmtCode[s.format], coqBytesZ(s.bytes), strings.Join(outs, ";")))
			sum.ModelCases++
		}
		if s.format == "json" && jsonToken(s.lit) {
			cv.Add(jsonCase(idx, s.lit, jouts))
			sum.ModelCases++
			sum.Dist["json.model_cases"]++
		}
		if idx%997 == 0 {
			sum.Sample(map[string]interface{}{"format": s.format, "repr": s.repr, "bytes": vh.Hex(s.bytes)})
		}
	}
	for i, t := range jsonRawTokens() {
		if !jsonToken(t) || seenBytes["json:"+t] {
			continue
		}
		var jouts []string
		for _, k := range kinds {
			jouts = append(jouts, jsonOut(k, decodeInto("json", []byte(t), k, false)))
		}
		cv.Add(jsonCase(len(srcs)+i, t, jouts))
		sum.ModelCases++
		sum.Dist["json.model_raw_tokens"]++
	}
	cv.Close()
	seqStream(sum, r.Fork(), *nSeq)
	sum.Dist["sources"] = len(seenBytes)
	sum.Print()
}

// Shape classes hung on a node of the random graph (in its EI interface field), built as Go values
// and as Coq heap cells from the same description (ShapeDesc):
//
//   - "pc": pointers to FAST-PATH collections (*[]interface{}, *map[string]interface{}, and the harmless
//     *[]string) reached through every position in which the encoder has a builtin shortcut for the
//     base type: struct fields of simple structs (kStructSimple) by value and by pointer, of omitempty
//     structs (kStruct, as map / as array / toarray), slice elements, map values, array elements,
//     MapBySlice elements, double pointers, and directly inside an interface; in cycles and in acyclic
//     DAGs with sharing.
//   - "pk": pointer MAP KEYS (map[*K]int, map[*K]*K, map[interface{}]int holding *K, map[[1]*K]int),
//     which Canonical encodes out-of-band with a side encoder; cyclic and acyclic.
//
// Every edge to a collection / key node of a shape is a pointer to a slice / map / struct, so every
// cycle of a shape is inside the property (the checker must push the pointer).
package main

import (
	"fmt"
	"time"

	"github.com/ugorji/go/codec"
)

// ---- types of the "pc" shapes ----

// FP is a simple struct (no omitempty): kStructSimple
type FP struct {
	ID  int
	PSI *[]interface{}
	PMI *map[string]interface{}
	PSS *[]string
	PPS **[]interface{}
	PPM **map[string]interface{}
	// harmless pointers to the other builtin base types (a slice kind, a struct kind, a scalar)
	PB   *[]byte
	PT   *time.Time
	PStr *string
}

// FPO has omitempty fields: kStruct (as a map, or as an array under StructToArray)
type FPO struct {
	PSI *[]interface{}
	PMI *map[string]interface{} `codec:"pmi,omitempty"`
	Tag string                  `codec:"tag,omitempty"`
}

// FPA: kStruct, always as an array
type FPA struct {
	_struct bool `codec:",toarray"`
	PSI     *[]interface{}
	PMI     *map[string]interface{} `codec:"pmi,omitempty"`
	Tag     string                  `codec:"tag,omitempty"`
}

type MbsPS []*[]interface{}

func (MbsPS) MapBySlice() {}

type MbsPM []*map[string]interface{}

func (MbsPM) MapBySlice() {}

// ---- type of the "pk" shapes ----

type K struct {
	ID int
	M  map[*K]int
	MK map[*K]*K
	MI map[interface{}]int
	MA map[[1]*K]int
	N  *K
}

// ---- types of the "sf" shapes: re-entrant Selfers ----

// SL is a plain leaf; SB a by-value Selfer that writes its leaf with a nested MustEncode
type SL struct{ V int }

type SB struct{ L *SL }

func (b SB) CodecEncodeSelf(e *codec.Encoder)  { e.MustEncode(b.L) }
func (b *SB) CodecDecodeSelf(d *codec.Decoder) {}

// SN: a Selfer (pointer receiver) that writes itself as one array through a nested MustEncode on the same Encoder
type SN struct {
	Name string
	Next interface{}
	Kids []interface{}
	B    SB
}

func (n *SN) CodecEncodeSelf(e *codec.Encoder) {
	e.MustEncode([]interface{}{n.Name, n.Next, n.Kids, n.B})
}
func (n *SN) CodecDecodeSelf(d *codec.Decoder) {}

// SE: the same through a nested Encode, whose error it raises again
type SE struct {
	Name string
	Next interface{}
	Kids []interface{}
	B    SB
}

func (n *SE) CodecEncodeSelf(e *codec.Encoder) {
	if err := e.Encode([]interface{}{n.Name, n.Next, n.Kids, n.B}); err != nil {
		panic(err)
	}
}
func (n *SE) CodecDecodeSelf(d *codec.Decoder) {}

// SP: a plain struct with the same fields
type SP struct {
	Name string
	Next interface{}
	Kids []interface{}
	B    SB
}

// ---- description ----

type PCItem struct {
	C string `json:"c"` // carrier: fv fp fo foa sl mv ar pp mbs if
	T int    `json:"t"` // target collection; -1: none (the carrier holds the harmless *[]string / nil pointers)
}

type PCColl struct {
	Kind  string   `json:"k"` // s: []interface{}   m: map[string]interface{}
	Items []PCItem `json:"i"`
}

type PKNode struct {
	M  []int    `json:"m,omitempty"`  // keys of M
	MK [][2]int `json:"mk,omitempty"` // (key, value) of MK; value -1 = nil
	MI []int    `json:"mi,omitempty"` // keys of MI (held in an interface)
	MA []int    `json:"ma,omitempty"` // keys of MA (held in a [1]*K)
	N  int      `json:"n"`            // -1 = nil
}

// SFNode is a node of an "sf" shape: all its references are pointers to nodes (held in interfaces)
type SFNode struct {
	Kind string `json:"k"`              // sn: Selfer, nested MustEncode   se: Selfer, nested Encode   sp: plain struct
	Next int    `json:"n"`              // -1 = nil
	Kids []int  `json:"kids,omitempty"` // nil = nil slice
	Box  bool   `json:"box,omitempty"`  // its by-value Selfer field B holds the pointer to the shape's one shared leaf
}

type ShapeDesc struct {
	Class   string   `json:"class"` // stable name of the shape class (reporting, distinct count)
	Colls   []PCColl `json:"colls,omitempty"`
	Keys    []PKNode `json:"keys,omitempty"`
	Self    []SFNode `json:"self,omitempty"`
	RootVal bool     `json:"rootval"` // collection 0 / key 0 is held by value, not through a pointer
}

// succs lists the successors of element i of the shape (collections or key nodes).
func (s *ShapeDesc) succs(i int) []int {
	var out []int
	if len(s.Colls) > 0 {
		for _, it := range s.Colls[i].Items {
			if it.T >= 0 {
				out = append(out, it.T)
			}
		}
		return out
	}
	if len(s.Self) > 0 {
		if s.Self[i].Next >= 0 {
			out = append(out, s.Self[i].Next)
		}
		return append(out, s.Self[i].Kids...)
	}
	k := &s.Keys[i]
	out = append(out, k.M...)
	out = append(out, k.MI...)
	out = append(out, k.MA...)
	for _, kv := range k.MK {
		out = append(out, kv[0])
		if kv[1] >= 0 {
			out = append(out, kv[1])
		}
	}
	if k.N >= 0 {
		out = append(out, k.N)
	}
	return out
}

func (s *ShapeDesc) size() int {
	if len(s.Colls) > 0 {
		return len(s.Colls)
	}
	if len(s.Self) > 0 {
		return len(s.Self)
	}
	return len(s.Keys)
}

// cyclic: a cycle is reachable from element 0 (decided on the description; the reflect walk decides it on the values).
func (s *ShapeDesc) cyclic() bool {
	n := s.size()
	state := make([]int, n)
	cyc := false
	var dfs func(i int)
	dfs = func(i int) {
		if state[i] == 1 {
			cyc = true
			return
		}
		if state[i] == 2 {
			return
		}
		state[i] = 1
		for _, t := range s.succs(i) {
			dfs(t)
		}
		state[i] = 2
	}
	if n > 0 {
		dfs(0)
	}
	return cyc
}

// unfold is the size of the unfolding of an acyclic shape (capped).
func (s *ShapeDesc) unfold() int {
	const capN = 1 << 20
	n := s.size()
	memo := make([]int, n)
	state := make([]int, n)
	var sz func(i int) int
	sz = func(i int) int {
		if state[i] == 2 {
			return memo[i]
		}
		if state[i] == 1 {
			return capN
		}
		state[i] = 1
		t := 4
		for _, x := range s.succs(i) {
			t += sz(x)
			if t > capN {
				t = capN
			}
		}
		state[i] = 2
		memo[i] = t
		return t
	}
	if n == 0 {
		return 0
	}
	return sz(0)
}

// repairedShape drops every edge to an element of lower-or-equal index: acyclic, same objects.
func repairedShape(s *ShapeDesc) *ShapeDesc {
	if s == nil {
		return nil
	}
	c := &ShapeDesc{Class: s.Class, RootVal: s.RootVal}
	for i, cl := range s.Colls {
		nc := PCColl{Kind: cl.Kind}
		for _, it := range cl.Items {
			if it.T <= i {
				it.T = -1
			}
			nc.Items = append(nc.Items, it)
		}
		c.Colls = append(c.Colls, nc)
	}
	for i, sn := range s.Self {
		nn := SFNode{Kind: sn.Kind, Next: sn.Next, Box: sn.Box}
		if nn.Next <= i {
			nn.Next = -1
		}
		for _, t := range sn.Kids {
			if t > i {
				nn.Kids = append(nn.Kids, t)
			}
		}
		c.Self = append(c.Self, nn)
	}
	for i, k := range s.Keys {
		keep := func(ts []int) []int {
			var out []int
			for _, t := range ts {
				if t > i {
					out = append(out, t)
				}
			}
			return out
		}
		nk := PKNode{M: keep(k.M), MI: keep(k.MI), MA: keep(k.MA), N: k.N}
		if nk.N <= i {
			nk.N = -1
		}
		for _, kv := range k.MK {
			if kv[0] <= i {
				continue
			}
			if kv[1] <= i {
				kv[1] = -1
			}
			nk.MK = append(nk.MK, kv)
		}
		c.Keys = append(c.Keys, nk)
	}
	return c
}

// ---- builder ----

// shapeObjs are the objects of a shape that keep their addresses across fills (the pointers the checker sees).
type shapeObjs struct {
	sHdr   []*[]interface{}
	mHdr   []*map[string]interface{}
	keys   []*K
	strs   *[]string
	emptyS *[]interface{}
	emptyM *map[string]interface{}
	pb     *[]byte
	pt     *time.Time
	pstr   *string
	self   []interface{} // *SN / *SE / *SP
	leaf   *SL
}

func (b *built) buildShape(s *ShapeDesc, alloc func(string) int) (interface{}, string) {
	if b.so == nil {
		b.so = &shapeObjs{strs: &[]string{"a", "b"}, emptyS: new([]interface{}), emptyM: new(map[string]interface{}), leaf: &SL{7}}
		bs, tm, str := []byte("xy"), time.Unix(1700000000, 5).UTC(), "s"
		b.so.pb, b.so.pt, b.so.pstr = &bs, &tm, &str
		for _, sn := range s.Self {
			switch sn.Kind {
			case "sn":
				b.so.self = append(b.so.self, new(SN))
			case "se":
				b.so.self = append(b.so.self, new(SE))
			default:
				b.so.self = append(b.so.self, new(SP))
			}
		}
		for range s.Colls {
			b.so.sHdr = append(b.so.sHdr, new([]interface{}))
			b.so.mHdr = append(b.so.mHdr, new(map[string]interface{}))
		}
		for range s.Keys {
			b.so.keys = append(b.so.keys, new(K))
		}
	}
	if len(s.Colls) > 0 {
		return b.buildPC(s, alloc)
	}
	if len(s.Self) > 0 {
		return b.buildSF(s, alloc)
	}
	return b.buildPK(s, alloc)
}

func (b *built) buildPC(s *ShapeDesc, alloc func(string) int) (interface{}, string) {
	so := b.so
	n := len(s.Colls)
	pc := make([]int, n) // the cell a pointer to collection i points at (the slice / map variable)
	cc := make([]int, n) // its contents
	for i := 0; i < n; i++ {
		pc[i] = alloc("")
		cc[i] = alloc("")
	}
	strs2 := alloc("VArr [VScalar; VScalar]")
	strsT := fmt.Sprintf("VPtr %d", alloc(fmt.Sprintf("VSlice %d", strs2)))
	*so.emptyS, *so.emptyM = nil, nil
	emptyST := fmt.Sprintf("VPtr %d", alloc("VNil NSlice"))
	emptyMT := fmt.Sprintf("VPtr %d", alloc("VNil NMap"))
	const nilp = "VNil NPtr"
	scalT := fmt.Sprintf("VPtr %d", alloc("VScalar"))
	item := func(it PCItem) (interface{}, string) {
		var ps *[]interface{}
		var pm *map[string]interface{}
		pt, psT, pmT := nilp, nilp, nilp
		isM := false
		if it.T >= 0 {
			pt = fmt.Sprintf("VPtr %d", pc[it.T])
			if s.Colls[it.T].Kind == "m" {
				pm, isM, pmT = so.mHdr[it.T], true, pt
			} else {
				ps, psT = so.sHdr[it.T], pt
			}
		}
		fpT := func(ppsT, ppmT string) string {
			return "VStruct " + coqList([]string{"VScalar", psT, pmT, strsT, ppsT, ppmT, scalT, scalT, scalT})
		}
		foT := "VStruct " + coqList([]string{psT, pmT, "VScalar"})
		switch it.C {
		case "fv":
			return FP{ID: 1, PSI: ps, PMI: pm, PSS: so.strs, PB: so.pb, PT: so.pt, PStr: so.pstr}, "VIface (" + fpT(nilp, nilp) + ")"
		case "fp":
			return &FP{ID: 1, PSI: ps, PMI: pm, PSS: so.strs, PB: so.pb, PT: so.pt, PStr: so.pstr}, fmt.Sprintf("VIface (VPtr %d)", alloc(fpT(nilp, nilp)))
		case "pp":
			// the collection is reached through a double pointer only
			psT, pmT = nilp, nilp
			v := FP{ID: 1, PSS: so.strs, PB: so.pb, PT: so.pt, PStr: so.pstr}
			ppsT, ppmT := nilp, nilp
			if it.T >= 0 && isM {
				v.PPM = &pm
				ppmT = fmt.Sprintf("VPtr %d", alloc(pt))
			} else if it.T >= 0 {
				v.PPS = &ps
				ppsT = fmt.Sprintf("VPtr %d", alloc(pt))
			}
			return v, "VIface (" + fpT(ppsT, ppmT) + ")"
		case "fo":
			return FPO{PSI: ps, PMI: pm, Tag: "t"}, "VIface (" + foT + ")"
		case "foa":
			return FPA{PSI: ps, PMI: pm, Tag: "t"}, "VIface (" + foT + ")"
		case "sl":
			switch {
			case it.T < 0:
				return []*[]string{so.strs, so.strs}, fmt.Sprintf("VIface (VSlice %d)", alloc("VArr "+coqList([]string{strsT, strsT})))
			case isM:
				return []*map[string]interface{}{pm}, fmt.Sprintf("VIface (VSlice %d)", alloc("VArr "+coqList([]string{pt})))
			}
			return []*[]interface{}{ps}, fmt.Sprintf("VIface (VSlice %d)", alloc("VArr "+coqList([]string{pt})))
		case "mv":
			switch {
			case it.T < 0:
				return map[string]*[]string{"k": so.strs}, fmt.Sprintf("VIface (VMap %d)", alloc("VArr "+coqList([]string{strsT})))
			case isM:
				return map[string]*map[string]interface{}{"k": pm}, fmt.Sprintf("VIface (VMap %d)", alloc("VArr "+coqList([]string{pt})))
			}
			return map[string]*[]interface{}{"k": ps}, fmt.Sprintf("VIface (VMap %d)", alloc("VArr "+coqList([]string{pt})))
		case "ar":
			switch {
			case it.T < 0:
				return [1]*[]string{so.strs}, "VIface (VArr " + coqList([]string{strsT}) + ")"
			case isM:
				return [1]*map[string]interface{}{pm}, "VIface (VArr " + coqList([]string{pt}) + ")"
			}
			return [1]*[]interface{}{ps}, "VIface (VArr " + coqList([]string{pt}) + ")"
		case "mbs":
			if isM {
				return MbsPM{so.emptyM, pm}, fmt.Sprintf("VIface (VSlice %d)", alloc("VArr "+coqList([]string{emptyMT, pt})))
			}
			if it.T < 0 {
				return MbsPS{so.emptyS, so.emptyS}, fmt.Sprintf("VIface (VSlice %d)", alloc("VArr "+coqList([]string{emptyST, emptyST})))
			}
			return MbsPS{so.emptyS, ps}, fmt.Sprintf("VIface (VSlice %d)", alloc("VArr "+coqList([]string{emptyST, pt})))
		case "if":
			switch {
			case it.T < 0:
				return so.strs, "VIface (" + strsT + ")"
			case isM:
				return pm, "VIface (" + pt + ")"
			}
			return ps, "VIface (" + pt + ")"
		}
		panic("unknown carrier " + it.C)
	}
	for i, cl := range s.Colls {
		vals := make([]interface{}, len(cl.Items))
		terms := make([]string, len(cl.Items))
		for j, it := range cl.Items {
			vals[j], terms[j] = item(it)
		}
		b.cells[cc[i]] = "VArr " + coqList(terms)
		if cl.Kind == "m" {
			m := make(map[string]interface{}, len(vals))
			for j, v := range vals {
				m[fmt.Sprintf("k%d", j)] = v
			}
			*so.mHdr[i] = m
			b.cells[pc[i]] = fmt.Sprintf("VMap %d", cc[i])
		} else {
			*so.sHdr[i] = vals
			b.cells[pc[i]] = fmt.Sprintf("VSlice %d", cc[i])
		}
	}
	if s.RootVal {
		if s.Colls[0].Kind == "m" {
			return *so.mHdr[0], "VIface (" + b.cells[pc[0]] + ")"
		}
		return *so.sHdr[0], "VIface (" + b.cells[pc[0]] + ")"
	}
	if s.Colls[0].Kind == "m" {
		return so.mHdr[0], fmt.Sprintf("VIface (VPtr %d)", pc[0])
	}
	return so.sHdr[0], fmt.Sprintf("VIface (VPtr %d)", pc[0])
}

func (b *built) buildPK(s *ShapeDesc, alloc func(string) int) (interface{}, string) {
	so := b.so
	n := len(s.Keys)
	kc := make([]int, n)
	for i := range kc {
		kc[i] = alloc("")
	}
	kp := func(t int) string { return fmt.Sprintf("VPtr %d", kc[t]) }
	for i := range s.Keys {
		kn := &s.Keys[i]
		k := so.keys[i]
		*k = K{ID: i}
		f := []string{"VScalar"}
		mapTerm := func(terms []string) string {
			if len(terms) == 0 {
				return "VNil NMap"
			}
			return fmt.Sprintf("VMap %d", alloc("VArr "+coqList(terms)))
		}
		var terms []string
		seen := map[int]bool{}
		for j, t := range kn.M {
			if seen[t] {
				continue
			}
			seen[t] = true
			if k.M == nil {
				k.M = map[*K]int{}
			}
			k.M[so.keys[t]] = j
			terms = append(terms, kp(t), "VScalar")
		}
		f = append(f, mapTerm(terms))
		terms, seen = nil, map[int]bool{}
		for _, kv := range kn.MK {
			if seen[kv[0]] {
				continue
			}
			seen[kv[0]] = true
			if k.MK == nil {
				k.MK = map[*K]*K{}
			}
			vt := "VNil NPtr"
			var vp *K
			if kv[1] >= 0 {
				vp, vt = so.keys[kv[1]], kp(kv[1])
			}
			k.MK[so.keys[kv[0]]] = vp
			terms = append(terms, kp(kv[0]), vt)
		}
		f = append(f, mapTerm(terms))
		terms, seen = nil, map[int]bool{}
		for j, t := range kn.MI {
			if seen[t] {
				continue
			}
			seen[t] = true
			if k.MI == nil {
				k.MI = map[interface{}]int{}
			}
			k.MI[so.keys[t]] = j
			terms = append(terms, "VIface ("+kp(t)+")", "VScalar")
		}
		f = append(f, mapTerm(terms))
		terms, seen = nil, map[int]bool{}
		for j, t := range kn.MA {
			if seen[t] {
				continue
			}
			seen[t] = true
			if k.MA == nil {
				k.MA = map[[1]*K]int{}
			}
			k.MA[[1]*K{so.keys[t]}] = j
			terms = append(terms, "VArr ["+kp(t)+"]", "VScalar")
		}
		f = append(f, mapTerm(terms))
		if kn.N >= 0 {
			k.N = so.keys[kn.N]
			f = append(f, kp(kn.N))
		} else {
			f = append(f, "VNil NPtr")
		}
		b.cells[kc[i]] = "VStruct " + coqList(f)
	}
	if s.RootVal {
		return *so.keys[0], "VIface (" + b.cells[kc[0]] + ")"
	}
	return so.keys[0], "VIface (" + kp(0) + ")"
}

func (b *built) buildSF(s *ShapeDesc, alloc func(string) int) (interface{}, string) {
	so := b.so
	n := len(s.Self)
	nc := make([]int, n)
	for i := range nc {
		nc[i] = alloc("")
	}
	leafT := fmt.Sprintf("VPtr %d", alloc("VStruct [VScalar]"))
	for i := range s.Self {
		sn := &s.Self[i]
		var next interface{}
		nextT := "VNil NIface"
		if sn.Next >= 0 {
			next, nextT = so.self[sn.Next], fmt.Sprintf("VIface (VPtr %d)", nc[sn.Next])
		}
		var kids []interface{}
		kidsT := "VNil NSlice"
		if sn.Kids != nil {
			kids = make([]interface{}, len(sn.Kids))
			terms := make([]string, len(sn.Kids))
			for j, t := range sn.Kids {
				kids[j], terms[j] = so.self[t], fmt.Sprintf("VIface (VPtr %d)", nc[t])
			}
			kidsT = fmt.Sprintf("VSlice %d", alloc("VArr "+coqList(terms)))
		}
		box, boxT := SB{}, "VStruct [VNil NPtr]"
		if sn.Box {
			box, boxT = SB{so.leaf}, "VStruct ["+leafT+"]"
		}
		name := fmt.Sprintf("n%d", i)
		switch p := so.self[i].(type) {
		case *SN:
			*p = SN{name, next, kids, box}
		case *SE:
			*p = SE{name, next, kids, box}
		case *SP:
			*p = SP{name, next, kids, box}
		}
		if sn.Kind == "sp" {
			b.cells[nc[i]] = "VStruct " + coqList([]string{"VScalar", nextT, kidsT, boxT})
		} else { // written as []interface{}{Name, Next, Kids, B}
			b.cells[nc[i]] = "VStruct " + coqList([]string{"VScalar", nextT, "VIface (" + kidsT + ")", "VIface (" + boxT + ")"})
		}
	}
	return so.self[0], fmt.Sprintf("VIface (VPtr %d)", nc[0])
}

// attachShape hangs the shape on node `at` of the graph (its EI field; what the generator put there is dropped).
func attachShape(d *GraphDesc, s *ShapeDesc, at int) {
	d.Shape, d.ShapeAt = s, at
	d.Nodes[at].EI = IVal{Kind: "nil"}
	d.Inside = ""
}

// ---- deterministic (seed-independent) shape streams ----

type shapeCase struct {
	s      *ShapeDesc
	canon  bool
	sta    bool // StructToArray
	chk    bool
	stream string
}

var pcCarriers = []string{"fv", "fo", "foa", "sl", "mv", "ar", "pp", "mbs", "if", "fp"}

// detPCShapes: carrier x target kind x {self cycle, two-collection cycle, DAG with sharing} x root by pointer / by value
// (x StructToArray for the struct carriers).
func detPCShapes() []shapeCase {
	var out []shapeCase
	idx := 0
	for _, c := range pcCarriers {
		stas := []bool{false}
		if c == "fv" || c == "fo" || c == "pp" {
			stas = []bool{false, true}
		}
		for _, tk := range []string{"s", "m"} {
			other := "m"
			if tk == "m" {
				other = "s"
			}
			for _, pat := range []string{"self", "two", "dag"} {
				for _, rootVal := range []bool{false, true} {
					for _, sta := range stas {
						s := &ShapeDesc{Class: fmt.Sprintf("pc:%s:%s:%s", c, tk, pat), RootVal: rootVal}
						switch pat {
						case "self":
							s.Colls = []PCColl{{tk, []PCItem{{"fv", -1}, {c, 0}}}}
						case "two":
							// the second hop is a struct by value: unless the carrier is if / fp, every pointer of
							// the cycle sits in a position with a builtin shortcut
							s.Colls = []PCColl{{other, []PCItem{{c, 1}}}, {tk, []PCItem{{"sl", -1}, {"fv", 0}}}}
						default:
							s.Colls = []PCColl{
								{other, []PCItem{{c, 1}, {c, 1}, {c, 2}, {c, -1}}},
								{tk, []PCItem{{c, 2}, {"fv", 2}, {"if", 2}}},
								{tk, []PCItem{{"fv", -1}, {"mv", -1}, {"ar", -1}}},
							}
						}
						cyc := pat != "dag"
						out = append(out, shapeCase{s: s, canon: idx%2 == 1, sta: sta, chk: true, stream: "ptrcoll"})
						if !cyc && rootVal {
							out = append(out, shapeCase{s: s, canon: idx%2 == 0, sta: sta, chk: false, stream: "ptrcoll"})
						}
						idx++
					}
				}
			}
		}
	}
	return out
}

// detPKShapes: key position x {self, back through N, two keys, DAG with sharing} x Canonical x root by pointer / by value.
func detPKShapes() []shapeCase {
	var out []shapeCase
	set := func(k *PKNode, slot string, ts ...int) {
		switch slot {
		case "M":
			k.M = append(k.M, ts...)
		case "MKk":
			for _, t := range ts {
				k.MK = append(k.MK, [2]int{t, -1})
			}
		case "MI":
			k.MI = append(k.MI, ts...)
		case "MA":
			k.MA = append(k.MA, ts...)
		}
	}
	for _, slot := range []string{"M", "MKk", "MKv", "MI", "MA"} {
		for _, pat := range []string{"self", "viaN", "two", "dag"} {
			for _, canon := range []bool{false, true} {
				for _, rootVal := range []bool{false, true} {
					s := &ShapeDesc{Class: fmt.Sprintf("pk:%s:%s", slot, pat), RootVal: rootVal}
					if slot == "MKv" {
						// the pointer is a map VALUE under a pointer key that leads nowhere (key 2 / 3 is a leaf)
						switch pat {
						case "self":
							s.Keys = []PKNode{{MK: [][2]int{{1, 0}}, N: -1}, {N: -1}}
						case "viaN":
							s.Keys = []PKNode{{MK: [][2]int{{2, 1}}, N: -1}, {N: 0}, {N: -1}}
						case "two":
							s.Keys = []PKNode{{MK: [][2]int{{2, 1}}, N: -1}, {MK: [][2]int{{2, 0}}, N: -1}, {N: -1}}
						default:
							s.Keys = []PKNode{{MK: [][2]int{{3, 1}, {2, 2}}, N: -1}, {MK: [][2]int{{3, 2}}, N: 2}, {N: -1}, {N: -1}}
						}
					} else {
						switch pat {
						case "self":
							s.Keys = []PKNode{{N: -1}}
							set(&s.Keys[0], slot, 0)
						case "viaN":
							s.Keys = []PKNode{{N: -1}, {N: 0}}
							set(&s.Keys[0], slot, 1)
						case "two":
							s.Keys = []PKNode{{N: -1}, {N: -1}}
							set(&s.Keys[0], slot, 1)
							set(&s.Keys[1], slot, 0)
						default:
							s.Keys = []PKNode{{N: -1}, {N: 2}, {N: -1}}
							set(&s.Keys[0], slot, 1, 2)
							set(&s.Keys[1], slot, 2)
						}
					}
					out = append(out, shapeCase{s: s, canon: canon, chk: true, stream: "ptrkey"})
					if pat == "dag" && rootVal {
						out = append(out, shapeCase{s: s, canon: canon, chk: false, stream: "ptrkey"})
					}
				}
			}
		}
	}
	return out
}

// detSFShapes: re-entrant Selfers (nested MustEncode / Encode on the same Encoder): rings of Selfers, cycles through
// Selfers and plain structs, acyclic graphs with a shared leaf and shared nodes below Selfers.
func detSFShapes() []shapeCase {
	var out []shapeCase
	add := func(class string, nodes []SFNode, cyc bool) {
		s := &ShapeDesc{Class: "sf:" + class, Self: nodes}
		out = append(out, shapeCase{s: s, canon: len(out)%2 == 1, chk: true, stream: "selfer"})
		if !cyc {
			out = append(out, shapeCase{s: s, canon: len(out)%2 == 1, chk: false, stream: "selfer"})
		}
	}
	for _, k := range []string{"sn", "se"} {
		o := "se"
		if k == "se" {
			o = "sn"
		}
		add(k+":self", []SFNode{{Kind: k, Next: 0}}, true)
		add(k+":selfkid", []SFNode{{Kind: k, Next: -1, Kids: []int{0}, Box: true}}, true)
		add(k+":ring3", []SFNode{{Kind: k, Next: 1}, {Kind: k, Next: 2, Box: true}, {Kind: o, Next: 0}}, true)
		add(k+":plainring", []SFNode{{Kind: "sp", Next: 1, Box: true}, {Kind: k, Next: 2}, {Kind: "sp", Next: -1, Kids: []int{0}}}, true)
		add(k+":underplain", []SFNode{{Kind: k, Next: 1}, {Kind: "sp", Next: 0}}, true)
		add(k+":deepback", []SFNode{{Kind: "sp", Next: 1}, {Kind: k, Next: 2, Box: true}, {Kind: o, Next: -1, Kids: []int{3}}, {Kind: "sp", Next: 1}}, true)
		// acyclic
		add(k+":doc", []SFNode{{Kind: "sp", Next: 1, Kids: []int{1, 2}, Box: true}, {Kind: k, Next: 2, Box: true}, {Kind: k, Next: -1, Box: true}}, false)
		add(k+":chain", []SFNode{{Kind: k, Next: 1, Box: true}, {Kind: o, Next: 2, Kids: []int{2, 3}}, {Kind: k, Next: 3}, {Kind: "sp", Next: -1, Box: true}}, false)
		add(k+":leafonly", []SFNode{{Kind: k, Next: -1, Kids: []int{}, Box: true}}, false)
		add(k+":plainabove", []SFNode{{Kind: "sp", Next: 1, Box: true}, {Kind: "sp", Next: 2, Box: true}, {Kind: k, Next: -1, Box: true}}, false)
	}
	return out
}

// ---- random shapes ----

type intner interface {
	Intn(n int) int
	Bool() bool
}

func randShape(r intner, dag bool) *ShapeDesc {
	tgt := func(i, n int) int {
		if dag {
			if i+1 >= n {
				return -1
			}
			return i + 1 + r.Intn(n-i-1)
		}
		if r.Intn(5) == 0 {
			return -1
		}
		return r.Intn(n)
	}
	mode := "arb"
	if dag {
		mode = "dag"
	}
	which := r.Intn(3)
	if which == 2 {
		n := 1 + r.Intn(4)
		s := &ShapeDesc{Class: "sf:random:" + mode}
		for i := 0; i < n; i++ {
			sn := SFNode{Kind: []string{"sn", "se", "sp"}[r.Intn(3)], Next: tgt(i, n), Box: r.Bool()}
			if r.Bool() {
				sn.Kids = []int{}
				for j, m := 0, r.Intn(3); j < m; j++ {
					if t := tgt(i, n); t >= 0 {
						sn.Kids = append(sn.Kids, t)
					}
				}
			}
			s.Self = append(s.Self, sn)
		}
		return s
	}
	if which == 1 {
		n := 1 + r.Intn(3)
		s := &ShapeDesc{Class: "pc:random:" + mode, RootVal: r.Intn(3) == 0}
		for i := 0; i < n; i++ {
			cl := PCColl{Kind: []string{"s", "m"}[r.Intn(2)]}
			for j, m := 0, r.Intn(4); j < m; j++ {
				cl.Items = append(cl.Items, PCItem{pcCarriers[r.Intn(len(pcCarriers))], tgt(i, n)})
			}
			s.Colls = append(s.Colls, cl)
		}
		return s
	}
	n := 1 + r.Intn(3)
	s := &ShapeDesc{Class: "pk:random:" + mode, RootVal: r.Intn(3) == 0}
	for i := 0; i < n; i++ {
		k := PKNode{N: -1}
		for j, m := 0, r.Intn(4); j < m; j++ {
			t := tgt(i, n)
			if t < 0 {
				continue
			}
			switch r.Intn(6) {
			case 0:
				k.M = append(k.M, t)
			case 1:
				k.MK = append(k.MK, [2]int{t, tgt(i, n)})
			case 2:
				k.MI = append(k.MI, t)
			case 3:
				k.MA = append(k.MA, t)
			case 4:
				k.N = t
			default:
				if l := tgt(i, n); l >= 0 {
					k.MK = append(k.MK, [2]int{l, t})
				}
			}
		}
		s.Keys = append(s.Keys, k)
	}
	return s
}

// c20: correspondence and property oracle for C20 (Encode is total: cycles and
// unsupported values give errors, never crashes).
//
// A random adjacency description is turned into (a) a graph of real Go values
// over fixed node types and (b) the same graph as a Coq heap (C20.Model). Real
// Encoders of the five formats run on it: Encode, Encode again (sticky error /
// balanced stack), then the graph is repaired in place (back edges and bad
// leaves removed, same node objects), Reset, Encode. One outcome class per call
// is recorded and the model replays the same operations. The oracle is applied
// directly: an independent reflect-based cycle detector decides cyclic /
// acyclic; cyclic + CheckCircularRef => "circular reference" error; acyclic =>
// no such error; unrepresentable leaf => error; func => nil; reusable after
// Reset with the bytes of a fresh Encoder. Runs that are expected to exhaust
// the stack or hang (cyclic without the option; cycles through maps / slices /
// pointer-to-interface only) run in a child process with a small max stack and
// a timeout.
package main

import (
	"bytes"
	"encoding/json"
	"errors"
	"flag"
	"fmt"
	"os"
	"os/exec"
	"reflect"
	"runtime/debug"
	"strings"
	"time"
	"unsafe"

	"verifharness/vh"

	"github.com/ugorji/go/codec"
)

// ---- fixed node types ----

type Emb struct {
	EP *N
	EI interface{}
}

type N struct {
	ID int
	P  *N
	PP **N
	S  []*N
	M  map[string]*N
	I  interface{}
	Emb
	PS  *[]*N
	PM  *map[string]*N
	A   [2]*N
	SI  []interface{}
	MI  map[string]interface{}
	L   interface{}
	BK  *Book
	ROW *[2]Cell
	ON  *ON
	ONA *ONA
}

// N, Book, Header, Cell are "simple" structs for the codec (kStructSimple). ON and ONA have an omitempty field,
// so they go through kStruct: ON as a map or, with StructToArray, as an array; ONA always as an array (toarray).
type ON struct {
	Next *ON
	Up   *N
	Tag  string `codec:"tag,omitempty"`
}

type ONA struct {
	_struct bool `codec:",toarray"`
	Next    *ONA
	Up      *N
	Tag     string `codec:"tag,omitempty"`
}

// interior pointers: a *Header can point at a Book's embedded FIRST field and a *Cell at element 0 of a [2]Cell:
// the same address as the enclosing *Book / *[2]Cell, a different type, hence a different reference for the checker
type Header struct {
	Title string
	Back  *Header
	Up    *N
}

type Book struct {
	Header
	Ref  *Header
	Next *N
}

type Cell struct {
	V    int
	Peer *Cell
	Up   *N
}

type P *P // pointer cycle without any container (outside the property)

// unrepresentable leaves
type Mbs []interface{}

func (Mbs) MapBySlice() {}

var errUser = errors.New("user marshal failure")

type FailM struct{ X int }

func (FailM) MarshalBinary() ([]byte, error) { return nil, errUser }
func (*FailM) UnmarshalBinary([]byte) error  { return nil }
func (FailM) MarshalText() ([]byte, error)   { return nil, errUser }
func (*FailM) UnmarshalText([]byte) error    { return nil }
func (FailM) MarshalJSON() ([]byte, error)   { return nil, errUser }
func (*FailM) UnmarshalJSON([]byte) error    { return nil }

type PanicM struct{ X int }

func (PanicM) MarshalBinary() ([]byte, error) { panic("user marshal panic") }
func (*PanicM) UnmarshalBinary([]byte) error  { return nil }
func (PanicM) MarshalText() ([]byte, error)   { panic("user marshal panic") }
func (*PanicM) UnmarshalText([]byte) error    { return nil }
func (PanicM) MarshalJSON() ([]byte, error)   { panic("user marshal panic") }
func (*PanicM) UnmarshalJSON([]byte) error    { return nil }

// hooks that panic with a runtime.Error (not an error value the hook chose to raise)
type RtPanicM struct{ X int }

func rtIndex(x int) []byte { var a []byte; _ = a[x+3]; return a }

func (v RtPanicM) MarshalBinary() ([]byte, error) { return rtIndex(v.X), nil }
func (*RtPanicM) UnmarshalBinary([]byte) error    { return nil }
func (v RtPanicM) MarshalText() ([]byte, error)   { return rtIndex(v.X), nil }
func (*RtPanicM) UnmarshalText([]byte) error      { return nil }
func (v RtPanicM) MarshalJSON() ([]byte, error)   { return rtIndex(v.X), nil }
func (*RtPanicM) UnmarshalJSON([]byte) error      { return nil }

type RtPanicSelfer struct{ X int }

func (v RtPanicSelfer) CodecEncodeSelf(*codec.Encoder) {
	var m map[string]int
	m["x"] = v.X // assignment to entry in nil map
}
func (*RtPanicSelfer) CodecDecodeSelf(*codec.Decoder) {}

// omitempty complex fields: a complex with zero real part and non-zero imaginary part is NOT empty
type OC struct {
	C complex128 `codec:"c,omitempty"`
	D complex64  `codec:"d,omitempty"`
	E int        `codec:"e,omitempty"`
}

// container types that contain themselves: no finite typeInfo, reported as unsupported (a leaf)
type RecS []RecS
type RecM map[string]*RecM

type FailSelfer struct{ X int }

func (FailSelfer) CodecEncodeSelf(*codec.Encoder)  { panic(errUser) }
func (*FailSelfer) CodecDecodeSelf(*codec.Decoder) {}

// ---- description ----

type IVal struct {
	Kind string `json:"k"` // nil ptr pp slice map islice imap
	T    int    `json:"t,omitempty"`
	Ts   []int  `json:"ts,omitempty"`
}

type NodeDesc struct {
	P, PP, EP        int
	S, M, PS, PM     []int // nil = nil slice/map/pointer; element -1 = nil pointer
	I, EI            IVal
	A                [2]int
	SI, MI           []IVal
	HasSI, HasMI     bool
	Book             string // "", plain: BK.Ref = &BK.Header (acyclic); cyc: also BK.Header.Back = &BK.Header (a real cycle)
	BookUp, BookNext int
	Row              string // "", peer10: ROW[1].Peer = &ROW[0] (acyclic); self0: also ROW[0].Peer = &ROW[0] (a real cycle)
	RowUp            int
	On, OnA          string // "", chain: x1 -> x2 -> nil; cycle: x1 -> x2 -> x1; self: x1 -> x1  (ON / ONA values hung on the node)
	OnUp, OnAUp      int    // x2.Up (x1.Up for self)
	PSNil, PMNil     bool   // PS / PM point to a NIL slice / map (pointer to a nil collection)
	L                string // "", func, sendchan, recvchan, complex, complexok, raw, oddmbs, evenmbs, failm, panicm, failselfer, unsafeptr
	LPtr             bool   // leaf behind a pointer (failm/panicm/failselfer)
}

type GraphDesc struct {
	Nodes    []NodeDesc
	RootKind string // ptr, val, slice, iface
	Roots    []int
	Outside  string // "", mapself, sliceself, ifaceptrself, typep : placed in node 0
	Inside   string // "", pslice, pmap, parr: a self cycle through a pointer to slice/map/array only, in node InsideAt's EI
	InsideAt int
	Shape    *ShapeDesc `json:",omitempty"` // shapes.go: pointers to fast-path collections / pointer map keys, in node ShapeAt's EI
	ShapeAt  int
}

// ---- builder: Go values and Coq heap from the same description ----

type built struct {
	nodes []*N
	cells []string // Coq terms of heap cells (nodes first)
	root  interface{}
	rootT string
	so    *shapeObjs // objects of d.Shape: they keep their addresses across fills
}

func coqList(xs []string) string { return "[" + strings.Join(xs, "; ") + "]" }

func ptrTerm(t int) string {
	if t < 0 {
		return "VNil NPtr"
	}
	return fmt.Sprintf("VPtr %d", t)
}

// fill (re)builds the contents of the node objects in b.nodes from d; node objects keep their addresses.
func (b *built) fill(d *GraphDesc) {
	k := len(d.Nodes)
	b.cells = make([]string, k)
	alloc := func(term string) int {
		b.cells = append(b.cells, term)
		return len(b.cells) - 1
	}
	node := func(t int) *N {
		if t < 0 {
			return nil
		}
		return b.nodes[t]
	}
	ptrs := func(ts []int) ([]*N, string) {
		s := make([]*N, len(ts))
		terms := make([]string, len(ts))
		for i, t := range ts {
			s[i] = node(t)
			terms[i] = ptrTerm(t)
		}
		return s, "VArr " + coqList(terms)
	}
	pmap := func(ts []int) (map[string]*N, string) {
		m := make(map[string]*N, len(ts))
		terms := make([]string, len(ts))
		for i, t := range ts {
			m[fmt.Sprintf("k%d", i)] = node(t)
			terms[i] = ptrTerm(t)
		}
		return m, "VArr " + coqList(terms)
	}
	var ival func(v IVal) (interface{}, string)
	ival = func(v IVal) (interface{}, string) {
		switch v.Kind {
		case "ptr":
			return node(v.T), "VIface (" + ptrTerm(v.T) + ")"
		case "pp":
			p := node(v.T)
			c := alloc(ptrTerm(v.T))
			return &p, fmt.Sprintf("VIface (VPtr %d)", c)
		case "slice":
			s, t := ptrs(v.Ts)
			return s, fmt.Sprintf("VIface (VSlice %d)", alloc(t))
		case "map":
			m, t := pmap(v.Ts)
			return m, fmt.Sprintf("VIface (VMap %d)", alloc(t))
		case "islice":
			s := make([]interface{}, len(v.Ts))
			terms := make([]string, len(v.Ts))
			for i, t := range v.Ts {
				s[i] = node(t)
				terms[i] = "VIface (" + ptrTerm(t) + ")"
			}
			return s, fmt.Sprintf("VIface (VSlice %d)", alloc("VArr "+coqList(terms)))
		case "imap":
			m := make(map[string]interface{}, len(v.Ts))
			terms := make([]string, len(v.Ts))
			for i, t := range v.Ts {
				m[fmt.Sprintf("k%d", i)] = node(t)
				terms[i] = "VIface (" + ptrTerm(t) + ")"
			}
			return m, fmt.Sprintf("VIface (VMap %d)", alloc("VArr "+coqList(terms)))
		}
		return nil, "VNil NIface"
	}
	for i := range d.Nodes {
		nd := &d.Nodes[i]
		n := b.nodes[i]
		*n = N{ID: i}
		f := make([]string, 0, 14)
		f = append(f, "VScalar")
		n.P = node(nd.P)
		f = append(f, ptrTerm(nd.P))
		if nd.PP >= 0 {
			p := node(nd.PP)
			n.PP = &p
			f = append(f, fmt.Sprintf("VPtr %d", alloc(ptrTerm(nd.PP))))
		} else {
			f = append(f, "VNil NPtr")
		}
		if nd.S != nil {
			s, t := ptrs(nd.S)
			n.S = s
			f = append(f, fmt.Sprintf("VSlice %d", alloc(t)))
		} else {
			f = append(f, "VNil NSlice")
		}
		if nd.M != nil {
			m, t := pmap(nd.M)
			n.M = m
			f = append(f, fmt.Sprintf("VMap %d", alloc(t)))
		} else {
			f = append(f, "VNil NMap")
		}
		var t string
		n.I, t = ival(nd.I)
		f = append(f, t)
		n.EP = node(nd.EP)
		f = append(f, ptrTerm(nd.EP))
		n.EI, t = ival(nd.EI)
		f = append(f, t)
		if nd.PSNil {
			var s []*N
			n.PS = &s
			f = append(f, fmt.Sprintf("VPtr %d", alloc("VNil NSlice")))
		} else if nd.PS != nil {
			s, t := ptrs(nd.PS)
			n.PS = &s
			bc := alloc(t)
			f = append(f, fmt.Sprintf("VPtr %d", alloc(fmt.Sprintf("VSlice %d", bc))))
		} else {
			f = append(f, "VNil NPtr")
		}
		if nd.PMNil {
			var m map[string]*N
			n.PM = &m
			f = append(f, fmt.Sprintf("VPtr %d", alloc("VNil NMap")))
		} else if nd.PM != nil {
			m, t := pmap(nd.PM)
			n.PM = &m
			bc := alloc(t)
			f = append(f, fmt.Sprintf("VPtr %d", alloc(fmt.Sprintf("VMap %d", bc))))
		} else {
			f = append(f, "VNil NPtr")
		}
		n.A = [2]*N{node(nd.A[0]), node(nd.A[1])}
		f = append(f, "VArr "+coqList([]string{ptrTerm(nd.A[0]), ptrTerm(nd.A[1])}))
		if nd.HasSI {
			n.SI = make([]interface{}, len(nd.SI))
			terms := make([]string, len(nd.SI))
			for j, iv := range nd.SI {
				n.SI[j], terms[j] = ival(iv)
			}
			f = append(f, fmt.Sprintf("VSlice %d", alloc("VArr "+coqList(terms))))
		} else {
			f = append(f, "VNil NSlice")
		}
		if nd.HasMI {
			n.MI = make(map[string]interface{}, len(nd.MI))
			terms := make([]string, len(nd.MI))
			for j, iv := range nd.MI {
				n.MI[fmt.Sprintf("k%d", j)], terms[j] = ival(iv)
			}
			f = append(f, fmt.Sprintf("VMap %d", alloc("VArr "+coqList(terms))))
		} else {
			f = append(f, "VNil NMap")
		}
		// leaf
		lt := "VNil NIface"
		wrap := func(v interface{}, pv interface{}, bad string) {
			if nd.LPtr {
				n.L = pv
				lt = fmt.Sprintf("VIface (VPtr %d)", alloc(bad))
			} else {
				n.L = v
				lt = "VIface (" + bad + ")"
			}
		}
		switch nd.L {
		case "func":
			n.L = func() {}
			lt = "VIface VFunc"
		case "sendchan":
			n.L = make(chan<- int, 1)
			lt = "VIface (VBad BSendChan false)"
		case "recvchan":
			n.L = make(<-chan int)
			lt = "VIface VScalar"
		case "complex":
			n.L = complex(1.5, 2)
			lt = "VIface (VBad BComplex false)"
		case "complexok":
			n.L = complex(1.5, 0)
			lt = "VIface VScalar"
		case "raw":
			n.L = codec.Raw([]byte{0x01})
			lt = "VIface (VBad BRaw true)"
		case "oddmbs":
			n.L = Mbs{"a", 1, "b"}
			lt = "VIface (VBad BOddMbs true)"
		case "evenmbs":
			n.L = Mbs{"a", 1}
			lt = "VIface VScalar"
		case "failm":
			wrap(FailM{1}, &FailM{1}, "VBad BMarshalErr true")
		case "panicm":
			wrap(PanicM{1}, &PanicM{1}, "VBad BMarshalPanic true")
		case "failselfer":
			wrap(FailSelfer{1}, &FailSelfer{1}, "VBad BMarshalErr true")
		case "rtpanicm":
			wrap(RtPanicM{1}, &RtPanicM{1}, "VBad BMarshalPanic true")
		case "rtpanicselfer":
			wrap(RtPanicSelfer{1}, &RtPanicSelfer{1}, "VBad BMarshalPanic true")
		case "oc128bad":
			n.L = OC{C: complex(0, 1), E: 1}
			lt = "VIface (VStruct [VBad BComplex false; VScalar; VScalar])"
		case "oc64bad":
			n.L = OC{D: complex(0, 2)}
			lt = "VIface (VStruct [VScalar; VBad BComplex false; VScalar])"
		case "ocok":
			n.L = OC{C: complex(3, 0), E: 2}
			lt = "VIface (VStruct [VScalar; VScalar; VScalar])"
		case "recslice":
			n.L = RecS{RecS{}, RecS{}}
			lt = "VIface (VBad BUnsupKind true)"
		case "recmap":
			n.L = RecM{"a": &RecM{}}
			lt = "VIface (VBad BUnsupKind true)"
		case "unsafeptr":
			n.L = unsafe.Pointer(n)
			lt = "VIface (VBad BUnsupKind false)"
		}
		f = append(f, lt)
		// a cell of the model is one (address, type) reference: the interior pointers get cells of their own that
		// hold the same contents as the field / element they point at
		if nd.Book != "" {
			bk := &Book{}
			bk.Title = "t"
			bk.Header.Up = node(nd.BookUp)
			bk.Next = node(nd.BookNext)
			bk.Ref = &bk.Header
			ch := alloc("")
			cb := alloc("")
			back := "VNil NPtr"
			if nd.Book == "cyc" {
				bk.Header.Back = &bk.Header
				back = fmt.Sprintf("VPtr %d", ch)
			}
			n.BK = bk
			hdr := []string{"VScalar", back, ptrTerm(nd.BookUp)}
			b.cells[ch] = "VStruct " + coqList(hdr)
			b.cells[cb] = "VStruct " + coqList(append(append([]string{}, hdr...), fmt.Sprintf("VPtr %d", ch), ptrTerm(nd.BookNext)))
			f = append(f, fmt.Sprintf("VPtr %d", cb))
		} else {
			f = append(f, "VNil NPtr")
		}
		if nd.Row != "" {
			row := &[2]Cell{}
			row[0].V, row[1].V = 1, 2
			row[0].Up = node(nd.RowUp)
			row[1].Peer = &row[0]
			c0 := alloc("")
			cr := alloc("")
			peer0 := "VNil NPtr"
			if nd.Row == "self0" {
				row[0].Peer = &row[0]
				peer0 = fmt.Sprintf("VPtr %d", c0)
			}
			n.ROW = row
			cell0 := "VStruct " + coqList([]string{"VScalar", peer0, ptrTerm(nd.RowUp)})
			cell1 := "VStruct " + coqList([]string{"VScalar", fmt.Sprintf("VPtr %d", c0), "VNil NPtr"})
			b.cells[c0] = cell0
			b.cells[cr] = "VArr " + coqList([]string{cell0, cell1})
			f = append(f, fmt.Sprintf("VPtr %d", cr))
		} else {
			f = append(f, "VNil NPtr")
		}
		// non-simple structs (kStruct), as map or as array
		onTerms := func(shape string, up int) (t1, t2 string, x1, x2 int) {
			x1 = alloc("")
			x2 = alloc("")
			tag := func(k int) string { return "VScalar" }
			switch shape {
			case "chain":
				b.cells[x1] = "VStruct " + coqList([]string{fmt.Sprintf("VPtr %d", x2), "VNil NPtr", tag(1)})
				b.cells[x2] = "VStruct " + coqList([]string{"VNil NPtr", ptrTerm(up), tag(2)})
			case "cycle":
				b.cells[x1] = "VStruct " + coqList([]string{fmt.Sprintf("VPtr %d", x2), "VNil NPtr", tag(1)})
				b.cells[x2] = "VStruct " + coqList([]string{fmt.Sprintf("VPtr %d", x1), ptrTerm(up), tag(2)})
			default: // self
				b.cells[x1] = "VStruct " + coqList([]string{fmt.Sprintf("VPtr %d", x1), ptrTerm(up), tag(1)})
				b.cells[x2] = "VNil NPtr"
			}
			return
		}
		if nd.On != "" {
			_, _, x1, _ := onTerms(nd.On, nd.OnUp)
			a, c := &ON{Tag: "t1"}, &ON{}
			switch nd.On {
			case "chain":
				a.Next, c.Up = c, node(nd.OnUp)
			case "cycle":
				a.Next, c.Next, c.Up = c, a, node(nd.OnUp)
			default:
				a.Next, a.Up = a, node(nd.OnUp)
			}
			n.ON = a
			f = append(f, fmt.Sprintf("VPtr %d", x1))
		} else {
			f = append(f, "VNil NPtr")
		}
		if nd.OnA != "" {
			_, _, x1, _ := onTerms(nd.OnA, nd.OnAUp)
			a, c := &ONA{Tag: "t1"}, &ONA{}
			switch nd.OnA {
			case "chain":
				a.Next, c.Up = c, node(nd.OnAUp)
			case "cycle":
				a.Next, c.Next, c.Up = c, a, node(nd.OnAUp)
			default:
				a.Next, a.Up = a, node(nd.OnAUp)
			}
			n.ONA = a
			f = append(f, fmt.Sprintf("VPtr %d", x1))
		} else {
			f = append(f, "VNil NPtr")
		}
		b.cells[i] = "VStruct " + coqList(f)
	}
	// shapes outside the property, hung on node 0
	switch d.Outside {
	case "mapself":
		m := map[string]interface{}{}
		m["self"] = m
		c := alloc("")
		b.cells[c] = fmt.Sprintf("VArr [VIface (VMap %d)]", c)
		b.nodes[0].I = m
		b.cells[0] = replaceField(b.cells[0], 5, fmt.Sprintf("VIface (VMap %d)", c))
	case "sliceself":
		s := make([]interface{}, 1)
		s[0] = s
		c := alloc("")
		b.cells[c] = fmt.Sprintf("VArr [VIface (VSlice %d)]", c)
		b.nodes[0].I = s
		b.cells[0] = replaceField(b.cells[0], 5, fmt.Sprintf("VIface (VSlice %d)", c))
	case "ifaceptrself":
		var i interface{}
		i = &i
		c := alloc("")
		b.cells[c] = fmt.Sprintf("VIface (VPtr %d)", c)
		b.nodes[0].I = i
		b.cells[0] = replaceField(b.cells[0], 5, fmt.Sprintf("VIface (VPtr %d)", c))
	case "typep":
		p := new(P)
		*p = p
		c := alloc("")
		b.cells[c] = fmt.Sprintf("VPtr %d", c)
		b.nodes[0].I = p
		b.cells[0] = replaceField(b.cells[0], 5, fmt.Sprintf("VIface (VPtr %d)", c))
	}
	// cycles whose only pushed pointer is a pointer to a slice / map / array (inside the property)
	if d.Inside != "" {
		c1 := alloc("")
		switch d.Inside {
		case "pslice":
			ps := new([]interface{})
			*ps = []interface{}{ps}
			b.nodes[d.InsideAt].EI = ps
			c2 := alloc(fmt.Sprintf("VArr [VIface (VPtr %d)]", c1))
			b.cells[c1] = fmt.Sprintf("VSlice %d", c2)
		case "pmap":
			pm := new(map[string]interface{})
			*pm = map[string]interface{}{"x": pm}
			b.nodes[d.InsideAt].EI = pm
			c2 := alloc(fmt.Sprintf("VArr [VIface (VPtr %d)]", c1))
			b.cells[c1] = fmt.Sprintf("VMap %d", c2)
		case "parr":
			pa := new([1]interface{})
			pa[0] = pa
			b.nodes[d.InsideAt].EI = pa
			b.cells[c1] = fmt.Sprintf("VArr [VIface (VPtr %d)]", c1)
		}
		b.cells[d.InsideAt] = replaceField(b.cells[d.InsideAt], 7, fmt.Sprintf("VIface (VPtr %d)", c1))
	}
	if d.Shape != nil {
		v, t := b.buildShape(d.Shape, alloc)
		b.nodes[d.ShapeAt].EI = v
		b.cells[d.ShapeAt] = replaceField(b.cells[d.ShapeAt], 7, t)
	}
	// root
	switch d.RootKind {
	case "val":
		b.root = *b.nodes[d.Roots[0]]
		b.rootT = b.cells[d.Roots[0]]
	case "slice":
		s, t := ptrs(d.Roots)
		b.root = s
		b.rootT = fmt.Sprintf("VSlice %d", alloc(t))
	case "iface":
		var x interface{} = b.nodes[d.Roots[0]]
		b.root = &x
		b.rootT = fmt.Sprintf("VPtr %d", alloc("VIface ("+ptrTerm(d.Roots[0])+")"))
	default:
		b.root = b.nodes[d.Roots[0]]
		b.rootT = ptrTerm(d.Roots[0])
	}
}

// replaceField swaps field idx of a "VStruct [a; b; ...]" term (fields contain no top-level ';' inside brackets except lists).
func replaceField(term string, idx int, nf string) string {
	body := strings.TrimSuffix(strings.TrimPrefix(term, "VStruct ["), "]")
	var parts []string
	depth := 0
	start := 0
	for i := 0; i < len(body); i++ {
		switch body[i] {
		case '[', '(':
			depth++
		case ']', ')':
			depth--
		case ';':
			if depth == 0 {
				parts = append(parts, strings.TrimSpace(body[start:i]))
				start = i + 1
			}
		}
	}
	parts = append(parts, strings.TrimSpace(body[start:]))
	parts[idx] = nf
	return "VStruct " + coqList(parts)
}

func newBuilt(d *GraphDesc) *built {
	b := &built{nodes: make([]*N, len(d.Nodes))}
	for i := range b.nodes {
		b.nodes[i] = new(N)
	}
	b.fill(d)
	return b
}

func (b *built) heapTerm() string { return coqList(b.cells) }

// ---- independent cycle detector (reflection over the real values) ----

type pkey struct {
	t reflect.Type
	p unsafe.Pointer
}

// hasPtrCycle reports whether a cycle through a pointer to struct/slice/array/map is reachable.
// Maps and slices are followed by reference identity too, so that it terminates on every graph.
func hasPtrCycle(v reflect.Value, onpath map[pkey]bool, done map[pkey]bool, ptrOnly *bool) bool {
	for {
		switch v.Kind() {
		case reflect.Ptr:
			if v.IsNil() {
				return false
			}
			ek := v.Elem().Kind()
			if !(ek == reflect.Struct || ek == reflect.Slice || ek == reflect.Array || ek == reflect.Map) {
				// every cycle of an in-process graph passes through a *N: no mark needed here
				v = v.Elem()
				continue
			}
			k := pkey{v.Type(), v.UnsafePointer()}
			if onpath[k] {
				return true
			}
			if done[k] {
				return false
			}
			onpath[k] = true
			r := hasPtrCycle(v.Elem(), onpath, done, ptrOnly)
			delete(onpath, k)
			done[k] = true
			return r
		case reflect.Interface:
			if v.IsNil() {
				return false
			}
			v = v.Elem()
			continue
		case reflect.Struct:
			for i := 0; i < v.NumField(); i++ {
				if hasPtrCycle(v.Field(i), onpath, done, ptrOnly) {
					return true
				}
			}
			return false
		case reflect.Array:
			for i := 0; i < v.Len(); i++ {
				if hasPtrCycle(v.Index(i), onpath, done, ptrOnly) {
					return true
				}
			}
			return false
		case reflect.Slice, reflect.Map:
			// every cycle of an in-process graph passes through a *N, so slices and maps need no marks
			if v.IsNil() || v.Len() == 0 {
				return false
			}
			r := false
			if v.Kind() == reflect.Slice {
				for i := 0; i < v.Len() && !r; i++ {
					r = hasPtrCycle(v.Index(i), onpath, done, ptrOnly)
				}
			} else {
				it := v.MapRange()
				for it.Next() && !r {
					r = hasPtrCycle(it.Key(), onpath, done, ptrOnly) || hasPtrCycle(it.Value(), onpath, done, ptrOnly)
				}
			}
			return r
		}
		return false
	}
}

// ---- classification ----

func errCode(err error) int {
	if err == nil {
		return 0
	}
	s := err.Error()
	switch {
	case strings.HasPrefix(s, "ESCAPED-PANIC"):
		return 98
	case strings.Contains(s, "circular reference found"):
		return 6
	case strings.Contains(s, "send-only channel"), strings.Contains(s, "cannot encode complex number"),
		strings.Contains(s, "Raw values cannot be encoded"), strings.Contains(s, "mapBySlice requires even slice length"),
		strings.Contains(s, "unsupported encoding kind"), strings.Contains(s, "is a container of itself"):
		return 5
	case strings.Contains(s, "user marshal failure"), strings.Contains(s, "user marshal panic"), strings.Contains(s, "runtime error"),
		strings.Contains(s, "index out of range"), strings.Contains(s, "nil map"):
		return 7
	}
	return 8
}

var badLeaves = map[string]int{"oc128bad": 5, "oc64bad": 5, "rtpanicm": 7, "rtpanicselfer": 7, "recslice": 5, "recmap": 5, "sendchan": 5, "complex": 5, "raw": 5, "oddmbs": 5, "unsafeptr": 5, "failm": 7, "panicm": 7, "failselfer": 7}

// ---- generation ----

type genMode struct {
	dag     bool
	density int // chance in 12 that a slot is used
}

func randTargets(r *vh.Rng, i, k int, m genMode, maxn int) []int {
	n := r.Intn(maxn + 1)
	ts := make([]int, 0, n)
	for j := 0; j < n; j++ {
		ts = append(ts, randTarget(r, i, k, m, true))
	}
	return ts
}

func randTarget(r *vh.Rng, i, k int, m genMode, force bool) int {
	if !force && !r.Chance(m.density, 12) {
		return -1
	}
	if m.dag {
		if i+1 >= k {
			return -1
		}
		return i + 1 + r.Intn(k-i-1)
	}
	if r.Chance(1, 10) {
		return -1
	}
	return r.Intn(k)
}

func randIVal(r *vh.Rng, i, k int, m genMode) IVal {
	if !r.Chance(m.density, 12) {
		return IVal{Kind: "nil"}
	}
	switch r.Intn(7) {
	case 0, 1:
		t := randTarget(r, i, k, m, true)
		if t < 0 {
			return IVal{Kind: "nil"}
		}
		return IVal{Kind: "ptr", T: t}
	case 2:
		t := randTarget(r, i, k, m, true)
		if t < 0 {
			return IVal{Kind: "nil"}
		}
		return IVal{Kind: "pp", T: t}
	case 3:
		return IVal{Kind: "slice", Ts: randTargets(r, i, k, m, 2)}
	case 4:
		return IVal{Kind: "map", Ts: randTargets(r, i, k, m, 2)}
	case 5:
		return IVal{Kind: "islice", Ts: nonneg(randTargets(r, i, k, m, 2))}
	}
	return IVal{Kind: "imap", Ts: nonneg(randTargets(r, i, k, m, 2))}
}

func nonneg(ts []int) []int {
	out := ts[:0]
	for _, t := range ts {
		if t >= 0 {
			out = append(out, t)
		}
	}
	return out
}

func randGraph(r *vh.Rng, m genMode, leaf string, leafPtr bool) *GraphDesc {
	k := 2 + r.Intn(5)
	d := &GraphDesc{Nodes: make([]NodeDesc, k)}
	for i := 0; i < k; i++ {
		nd := &d.Nodes[i]
		nd.BookUp, nd.BookNext, nd.RowUp = -1, -1, -1
		nd.OnUp, nd.OnAUp = -1, -1
		pickOn := func() string {
			if !m.dag && r.Chance(1, 2) {
				return []string{"cycle", "self"}[r.Intn(2)]
			}
			return "chain"
		}
		if r.Chance(m.density, 14) {
			nd.On, nd.OnUp = pickOn(), randTarget(r, i, k, m, false)
		}
		if r.Chance(m.density, 14) {
			nd.OnA, nd.OnAUp = pickOn(), randTarget(r, i, k, m, false)
		}
		if r.Chance(m.density, 16) {
			nd.Book = "plain"
			if !m.dag && r.Chance(1, 3) {
				nd.Book = "cyc"
			}
			nd.BookUp, nd.BookNext = randTarget(r, i, k, m, false), randTarget(r, i, k, m, false)
		}
		if r.Chance(m.density, 16) {
			nd.Row = "peer10"
			if !m.dag && r.Chance(1, 3) {
				nd.Row = "self0"
			}
			nd.RowUp = randTarget(r, i, k, m, false)
		}
		nd.P = randTarget(r, i, k, m, false)
		nd.PP = randTarget(r, i, k, m, false)
		nd.EP = randTarget(r, i, k, m, false)
		nd.A = [2]int{randTarget(r, i, k, m, false), randTarget(r, i, k, m, false)}
		if r.Chance(m.density, 12) {
			nd.S = randTargets(r, i, k, m, 3)
		}
		if r.Chance(m.density, 12) {
			nd.M = randTargets(r, i, k, m, 3)
		}
		if r.Chance(m.density, 12) {
			if r.Chance(1, 3) {
				nd.PSNil = true
			} else {
				nd.PS = randTargets(r, i, k, m, 2)
			}
		}
		if r.Chance(m.density, 12) {
			if r.Chance(1, 3) {
				nd.PMNil = true
			} else {
				nd.PM = randTargets(r, i, k, m, 2)
			}
		}
		nd.I = randIVal(r, i, k, m)
		nd.EI = randIVal(r, i, k, m)
		if r.Chance(m.density, 12) {
			nd.HasSI = true
			for j, n := 0, r.Intn(3); j < n; j++ {
				nd.SI = append(nd.SI, randIVal(r, i, k, m))
			}
		}
		if r.Chance(m.density, 12) {
			nd.HasMI = true
			for j, n := 0, r.Intn(3); j < n; j++ {
				nd.MI = append(nd.MI, randIVal(r, i, k, m))
			}
		}
	}
	if leaf != "" {
		// on a node reachable from the root: walk a few edges down from node 0 along P-like edges; simplest: node 0 or a random one
		at := 0
		if r.Bool() {
			at = r.Intn(k)
		}
		d.Nodes[at].L = leaf
		d.Nodes[at].LPtr = leafPtr
	}
	switch r.Intn(6) {
	case 0:
		d.RootKind, d.Roots = "val", []int{0}
	case 1:
		d.RootKind, d.Roots = "slice", []int{0, r.Intn(k), 0}
	case 2:
		d.RootKind, d.Roots = "iface", []int{0}
	default:
		d.RootKind, d.Roots = "ptr", []int{0}
	}
	return d
}

// succ lists the node indices a node refers to.
func succ(nd *NodeDesc) []int {
	out := []int{nd.P, nd.PP, nd.EP, nd.A[0], nd.A[1]}
	for _, l := range [][]int{nd.S, nd.M, nd.PS, nd.PM} {
		out = append(out, l...)
	}
	ivs := append([]IVal{nd.I, nd.EI}, nd.SI...)
	ivs = append(ivs, nd.MI...)
	for _, iv := range ivs {
		switch iv.Kind {
		case "ptr", "pp":
			out = append(out, iv.T)
		case "slice", "map", "islice", "imap":
			out = append(out, iv.Ts...)
		}
	}
	if nd.Book != "" { // the Header is written twice: flattened into the Book and through Ref
		out = append(out, nd.BookUp, nd.BookUp, nd.BookNext)
	}
	if nd.On != "" {
		out = append(out, nd.OnUp)
	}
	if nd.OnA != "" {
		out = append(out, nd.OnAUp)
	}
	if nd.Row != "" { // element 0 is written twice: in the array and through ROW[1].Peer
		out = append(out, nd.RowUp, nd.RowUp)
	}
	return out
}

// reachable marks the nodes reachable from the roots; cyc reports a reachable cycle among nodes.
func reachable(d *GraphDesc) (seen []bool, cyc bool) {
	seen = make([]bool, len(d.Nodes))
	state := make([]int, len(d.Nodes))
	var dfs func(i int)
	dfs = func(i int) {
		if i < 0 {
			return
		}
		if state[i] == 1 {
			cyc = true
			return
		}
		if state[i] == 2 {
			return
		}
		state[i] = 1
		seen[i] = true
		for _, t := range succ(&d.Nodes[i]) {
			dfs(t)
		}
		state[i] = 2
	}
	for _, rt := range d.Roots {
		dfs(rt)
	}
	if d.Inside != "" && seen[d.InsideAt] {
		cyc = true
	}
	if d.Shape != nil && seen[d.ShapeAt] && d.Shape.cyclic() {
		cyc = true
	}
	for i := range d.Nodes {
		on, ona := d.Nodes[i].On, d.Nodes[i].OnA
		if seen[i] && (on == "cycle" || on == "self" || ona == "cycle" || ona == "self") {
			cyc = true
		}
		if seen[i] && (d.Nodes[i].Book == "cyc" || d.Nodes[i].Row == "self0") {
			cyc = true
		}
	}
	return
}

// okSize: the graph is cyclic (the encoder stops at the first repeated pointer) or its unfolding is small.
func okSize(d *GraphDesc) bool {
	_, cyc := reachable(d)
	return cyc || treeSize(d) < 4000
}

// treeSize is the size of the unfolding of an acyclic description (how much the encoder will write), capped.
func treeSize(d *GraphDesc) int {
	memo := make([]int, len(d.Nodes))
	state := make([]int, len(d.Nodes))
	const capN = 1 << 20
	var sz func(i int) int
	sz = func(i int) int {
		if i < 0 {
			return 1
		}
		if state[i] == 2 {
			return memo[i]
		}
		if state[i] == 1 {
			return capN
		}
		state[i] = 1
		nd := &d.Nodes[i]
		t := 1
		if d.Shape != nil && d.ShapeAt == i {
			t += d.Shape.unfold()
		}
		add := func(x int) {
			t += sz(x)
			if t > capN {
				t = capN
			}
		}
		for _, x := range succ(nd) {
			add(x)
		}
		state[i] = 2
		memo[i] = t
		return t
	}
	total := 0
	for _, rt := range d.Roots {
		total += sz(rt)
		if total > capN {
			return capN
		}
	}
	return total
}

// repaired returns the description with every edge to a node of lower-or-equal index removed, bad leaves and
// outside shapes dropped: an acyclic graph over the same node objects.
func repaired(d *GraphDesc) *GraphDesc {
	b, _ := json.Marshal(d)
	var c GraphDesc
	json.Unmarshal(b, &c)
	fix := func(i, t int) int {
		if t <= i {
			return -1
		}
		return t
	}
	fixl := func(i int, ts []int) []int {
		if ts == nil {
			return nil
		}
		out := make([]int, len(ts))
		for j, t := range ts {
			out[j] = fix(i, t)
		}
		return out
	}
	fixiv := func(i int, v IVal) IVal {
		switch v.Kind {
		case "ptr", "pp":
			if v.T <= i {
				return IVal{Kind: "nil"}
			}
		case "slice", "map":
			v.Ts = fixl(i, v.Ts)
		case "islice", "imap":
			v.Ts = nonneg(fixl(i, v.Ts))
		}
		return v
	}
	for i := range c.Nodes {
		nd := &c.Nodes[i]
		// json turns empty non-nil slices into nil: restore from the original
		od := &d.Nodes[i]
		nd.S, nd.M, nd.PS, nd.PM = fixl(i, od.S), fixl(i, od.M), fixl(i, od.PS), fixl(i, od.PM)
		nd.P, nd.PP, nd.EP = fix(i, nd.P), fix(i, nd.PP), fix(i, nd.EP)
		nd.BookUp, nd.BookNext, nd.RowUp = fix(i, nd.BookUp), fix(i, nd.BookNext), fix(i, nd.RowUp)
		nd.OnUp, nd.OnAUp = fix(i, nd.OnUp), fix(i, nd.OnAUp)
		if nd.On != "" {
			nd.On = "chain"
		}
		if nd.OnA != "" {
			nd.OnA = "chain"
		}
		if nd.Book == "cyc" {
			nd.Book = "plain"
		}
		if nd.Row == "self0" {
			nd.Row = "peer10"
		}
		nd.A = [2]int{fix(i, nd.A[0]), fix(i, nd.A[1])}
		nd.I, nd.EI = fixiv(i, nd.I), fixiv(i, nd.EI)
		for j := range nd.SI {
			nd.SI[j] = fixiv(i, nd.SI[j])
		}
		for j := range nd.MI {
			nd.MI[j] = fixiv(i, nd.MI[j])
		}
		switch nd.L {
		case "func", "recvchan", "complexok", "evenmbs", "ocok":
		default:
			nd.L = ""
		}
	}
	c.Outside = ""
	c.Inside = ""
	c.Shape = repairedShape(d.Shape)
	return &c
}

// ---- child process (runs that are expected to die or hang) ----

type childReq struct {
	Desc   *GraphDesc
	Format string
	Chk    bool
	Canon  bool
	Sta    bool // StructToArray
}

func childMain() {
	debug.SetMaxStack(8 << 20)
	var req childReq
	if err := json.NewDecoder(os.Stdin).Decode(&req); err != nil {
		fmt.Println("CHILD-BAD-REQUEST", err)
		os.Exit(3)
	}
	b := newBuilt(req.Desc)
	h := vh.NewHandle(req.Format, vh.Opts{"CheckCircularRef": req.Chk, "Canonical": req.Canon, "StructToArray": req.Sta})
	var out []byte
	err := codec.NewEncoderBytes(&out, h).Encode(b.root)
	fmt.Printf("RESULT %d\n", errCode(err))
}

// runChild returns the outcome code of the first Encode in a child: 99 when the child died of stack exhaustion or hung.
func runChild(req childReq, timeout time.Duration) (code int, how string) {
	in, _ := json.Marshal(req)
	cmd := exec.Command(os.Args[0], "-child")
	cmd.Stdin = bytes.NewReader(in)
	var so, se bytes.Buffer
	cmd.Stdout, cmd.Stderr = &so, &se
	if err := cmd.Start(); err != nil {
		return -1, "start: " + err.Error()
	}
	done := make(chan error, 1)
	go func() { done <- cmd.Wait() }()
	select {
	case <-time.After(timeout):
		cmd.Process.Kill()
		<-done
		return 99, "hang"
	case err := <-done:
		if err == nil {
			var c int
			for _, l := range strings.Split(so.String(), "\n") {
				if _, e := fmt.Sscanf(l, "RESULT %d", &c); e == nil {
					return c, "returned"
				}
			}
			return -1, "no result line"
		}
		s := se.String()
		if strings.Contains(s, "stack overflow") || strings.Contains(s, "goroutine stack exceeds") {
			return 99, "stack"
		}
		if len(s) > 300 {
			s = s[:300]
		}
		return -1, "died: " + s
	}
}

// ---- one case ----

type caseCfg struct {
	desc  *GraphDesc
	chk   bool
	raw   bool
	canon bool
	child bool // first Encode runs in a child process only
	guard bool // cyclic with the option: the first Encode runs in a child process first; in-process only when that child returned
	sta   int  // StructToArray: 0 = by case id, 1 = off, 2 = on
}

func descJSON(d *GraphDesc) interface{} {
	b, _ := json.Marshal(d)
	var x interface{}
	json.Unmarshal(b, &x)
	return x
}

var skipIDs map[int]bool

// supervise runs the worker; when a case kills it (fatal stack overflow is not recoverable) or hangs it, the
// case is recorded as a failure with its description and the worker is restarted without it.
func supervise() {
	var skips []string
	var fails []vh.Failure
	pf := fmt.Sprintf("%s/c20_prefail_%d.json", os.TempDir(), os.Getpid())
	defer os.Remove(pf)
	for attempt := 0; attempt < 4; attempt++ {
		bs, _ := json.Marshal(fails)
		os.WriteFile(pf, bs, 0o644)
		args := append([]string{}, os.Args[1:]...)
		args = append(args, "-worker", "-skip", strings.Join(skips, ","), "-prefail", pf)
		cmd := exec.Command(os.Args[0], args...)
		var so, se bytes.Buffer
		cmd.Stdout, cmd.Stderr = &so, &se
		if err := cmd.Start(); err != nil {
			fmt.Println("supervisor: cannot start worker:", err)
			os.Exit(2)
		}
		done := make(chan error, 1)
		go func() { done <- cmd.Wait() }()
		var err error
		how := "died"
		select {
		case err = <-done:
		case <-time.After(240 * time.Second):
			cmd.Process.Kill()
			err = <-done
			how = "hung"
		}
		if err == nil {
			for _, l := range strings.Split(so.String(), "\n") {
				if l != "" && !strings.HasPrefix(l, "BEGIN ") {
					fmt.Println(l)
				}
			}
			return
		}
		// find the case that was running
		last := ""
		for _, l := range strings.Split(so.String(), "\n") {
			if strings.HasPrefix(l, "BEGIN ") {
				last = l
			}
		}
		var id int
		var cjs string
		if n, _ := fmt.Sscanf(last, "BEGIN %d", &id); n != 1 {
			os.Stdout.Write(so.Bytes())
			os.Stderr.Write(tail(se.Bytes(), 3000))
			os.Exit(3)
		}
		if i := strings.Index(last, "{"); i >= 0 {
			cjs = last[i:]
		}
		var cj map[string]interface{}
		json.Unmarshal([]byte(cjs), &cj)
		what := "Encode exhausted the stack in-process (fatal) on a graph that must give an error or succeed"
		class := "stack-overflow"
		if how == "hung" {
			what, class = "Encode did not return in-process on a graph that must give an error or succeed", "hang"
		} else if !strings.Contains(se.String(), "stack overflow") && !strings.Contains(se.String(), "goroutine stack exceeds") {
			what, class = "worker process died in-process (not a stack overflow)", "worker-died"
			if cj == nil {
				cj = map[string]interface{}{}
			}
			cj["stderr"] = string(tail(se.Bytes(), 400))
		}
		fails = append(fails, vh.Failure{Stream: "supervisor", Class: class, What: what, Case: cj})
		skips = append(skips, fmt.Sprint(id))
		if len(fails) >= 3 {
			break
		}
	}
	// several cases killed the worker: report them without going on
	sum := vh.NewSummary("supervisor only: the worker process was killed by " + fmt.Sprint(len(fails)) + " cases")
	for _, f := range fails {
		sum.FailC(f.Stream, f.Class, f.What, f.Case)
		sum.Count("supervisor.killed", "")
	}
	sum.Print()
}

func tail(b []byte, n int) []byte {
	if len(b) > n {
		return b[len(b)-n:]
	}
	return b
}

func runCase(id int, c caseCfg, cv *vh.Cases, sum *vh.Summary, stream string) {
	if skipIDs[id] {
		return
	}
	d := c.desc
	{
		bs, _ := json.Marshal(map[string]interface{}{"desc": d, "chk": c.chk, "raw": c.raw, "canonical": c.canon, "seed_index": id, "stream": stream})
		fmt.Printf("BEGIN %d %s\n", id, bs)
	}
	b := newBuilt(d)
	heap1, root1 := b.heapTerm(), b.rootT
	sta := id%3 == 1
	if c.sta != 0 {
		sta = c.sta == 2
	}
	shapeClass, shapeFam := "", "" // family = kind:carrier (pc:fv, pk:M, pc:random): the root-cause class of a shape failure
	if d.Shape != nil {
		shapeClass = d.Shape.Class
		shapeFam = strings.Join(strings.SplitN(shapeClass, ":", 3)[:2], ":")
	}
	cj := map[string]interface{}{"desc": descJSON(d), "chk": c.chk, "raw": c.raw, "canonical": c.canon, "seed_index": id, "stream": stream, "struct_to_array": sta, "shape_class": shapeClass, "optimum_size": id%5 == 2, "nil_to_zero_len": id%7 == 3, "recursive_empty_check": id%2 == 0}

	// independent facts about the graph
	leafKinds := map[int]bool{}
	hasLeaf := ""
	seen, dcyc := reachable(d)
	for i, nd := range d.Nodes {
		if !seen[i] {
			continue
		}
		if code, ok := badLeaves[nd.L]; ok && !(nd.L == "raw" && c.raw) {
			leafKinds[code] = true
			hasLeaf = nd.L
		}
	}
	budget := 16*len(b.cells) + 64

	if c.child {
		// expected to exhaust the stack or hang: run every format in a child
		codes := map[int]bool{}
		how := ""
		first := -2
		fmts := []string{vh.Formats[id%4], "json"}
		if os.Getenv("VERIF_TIER") == "thorough" {
			fmts = vh.Formats
		}
		for _, f := range fmts {
			code, hw := runChild(childReq{d, f, c.chk, c.canon, sta}, 1500*time.Millisecond)
			codes[code] = true
			how = hw
			if first == -2 {
				first = code
			}
			if code == -1 {
				cj["format"] = f
				cj["child"] = hw
				sum.FailC(stream, "child:"+d.Outside, "child process failed in an unexpected way", cj)
			}
			if d.Outside == "" && !c.chk && code != 99 {
				cj["format"] = f
				sum.FailC(stream, "nocheck-cyclic", "cyclic graph without CheckCircularRef did not exhaust the stack (model: diverges)", cj)
			}
		}
		if len(codes) != 1 {
			sum.FailC(stream, "formats-differ", "formats disagree on the outcome class", cj)
		}
		cv.Add(fmt.Sprintf("mkcase %d %s %s %s %d false [OpEncode %s (%s)] [%d]%%N", id, heap1, vh.CoqBool(c.chk), vh.CoqBool(c.raw), budget, heap1, root1, first))
		sum.Count(stream+"."+how, fmt.Sprintf("%s/%s/chk%v/%s/n%d", stream, d.Outside, c.chk, d.RootKind, len(d.Nodes)))
		sum.ModelCases++
		return
	}

	var ptrOnly bool
	cyc := hasPtrCycle(reflect.ValueOf(b.root), map[pkey]bool{}, map[pkey]bool{}, &ptrOnly)
	cj["cyclic"] = cyc
	if cyc != dcyc {
		panic("cycle detectors disagree (reflect walk vs description)")
	}
	if ptrOnly {
		b, _ := json.Marshal(d)
		panic("generator produced a pointer-free cycle in an in-process case " + string(b))
	}
	if !c.chk && cyc {
		panic("in-process case would overflow the stack")
	}
	loose := (cyc && len(leafKinds) > 0) || len(leafKinds) > 1

	if c.guard && c.chk && cyc {
		// must be rejected with an error; a fatal stack overflow cannot be recovered in-process: try it in a child first
		fmts := []string{vh.Formats[id%len(vh.Formats)]}
		if os.Getenv("VERIF_TIER") == "thorough" {
			fmts = vh.Formats
		}
		for _, f := range fmts {
			code, hw := runChild(childReq{d, f, c.chk, c.canon, sta}, 30*time.Second)
			if code != 99 && code != -1 {
				continue // returned: the in-process run below applies the oracle to every format
			}
			cj["format"], cj["child"] = f, hw
			switch {
			case code == -1:
				sum.FailC(stream, "child:"+shapeFam, "child process failed in an unexpected way", cj)
			case hw == "hang":
				sum.FailC(stream, "cycle-hang:"+shapeFam, "cyclic graph with CheckCircularRef: Encode did not return (child process) instead of giving the circular-reference error", cj)
			default:
				sum.FailC(stream, "cycle-stack-overflow:"+shapeFam, "cyclic graph with CheckCircularRef: Encode exhausted the stack (fatal, child process) instead of giving the circular-reference error", cj)
			}
			cv.Add(fmt.Sprintf("mkcase %d %s %s %s %d false [OpEncode %s (%s)] [%d]%%N", id, heap1, vh.CoqBool(c.chk), vh.CoqBool(c.raw), budget, heap1, root1, code))
			sum.Count(stream+".guard."+hw, fmt.Sprintf("%s/%s/guard-%s/%s", stream, shapeClass, hw, d.RootKind))
			sum.ModelCases++
			return
		}
	}

	d2 := repaired(d)
	var res [3]int
	for fi, f := range vh.Formats {
		b.fill(d)
		h := vh.NewHandle(f, vh.Opts{"CheckCircularRef": c.chk, "Raw": c.raw, "Canonical": c.canon, "StructToArray": sta, "OptimumSize": id%5 == 2, "NilCollectionToZeroLength": id%7 == 3, "RecursiveEmptyCheck": id%2 == 0})
		var out []byte
		enc := codec.NewEncoderBytes(&out, h)
		// the same sequence over an io.Writer: what a failed Encode left in the buffer must not survive Reset
		var w1, w2 bytes.Buffer
		encIO := codec.NewEncoder(&w1, h)
		ioErr1 := safeEncode(encIO, b.root)
		var r [3]int
		err1 := safeEncode(enc, b.root)
		r[0] = errCode(err1)
		first := append([]byte(nil), out...)
		err2 := safeEncode(enc, b.root)
		r[1] = errCode(err2)
		cj["format"] = f
		cj["err1"] = fmt.Sprint(err1)
		// ---- the property's oracle, directly on the implementation ----
		switch {
		case r[0] == 98 || r[1] == 98:
			sum.FailC(stream, "panic-escaped", "Encode panicked instead of returning an error", cj)
		case cyc && c.chk && len(leafKinds) == 0 && r[0] != 6:
			sum.FailC(stream, "cycle-missed", "cyclic graph with CheckCircularRef: no circular-reference error", cj)
		case cyc && c.chk && r[0] == 0:
			sum.FailC(stream, "cycle-missed", "cyclic graph with CheckCircularRef encoded without error", cj)
		case !cyc && r[0] == 6:
			sum.FailC(stream, "false-circular", "acyclic graph rejected as circular", cj)
		case !cyc && len(leafKinds) == 0 && r[0] != 0:
			sum.FailC(stream, "spurious-error", "acyclic graph without unrepresentable leaves was rejected", cj)
		case len(leafKinds) > 0 && r[0] == 0:
			sum.FailC(stream, "leaf-accepted:"+hasLeaf, "unrepresentable leaf encoded without error", cj)
		case !cyc && len(leafKinds) == 1 && !leafKinds[r[0]]:
			sum.FailC(stream, "leaf-class:"+hasLeaf, "unrepresentable leaf gave an error of an unexpected class", cj)
		}
		if r[0] != 0 && r[1] == 0 {
			sum.FailC(stream, "not-sticky", "Encode after a failed Encode succeeded without Reset", cj)
		}
		if r[0] == 0 && r[1] != 0 {
			sum.FailC(stream, "second-encode", "second Encode of the same acyclic value failed (stack not balanced?)", cj)
		}
		// on an acyclic graph the option must not change a byte (map order pinned by Canonical, or no map at all)
		if noMaps := d.Shape != nil && len(d.Shape.Self) > 0 && len(d.Nodes) == 1; !cyc && r[0] == 0 && (c.canon || noMaps) {
			h2 := vh.NewHandle(f, vh.Opts{"CheckCircularRef": !c.chk, "Raw": c.raw, "Canonical": c.canon, "StructToArray": sta, "OptimumSize": id%5 == 2, "NilCollectionToZeroLength": id%7 == 3, "RecursiveEmptyCheck": id%2 == 0})
			var o2 []byte
			if err := safeEncode(codec.NewEncoderBytes(&o2, h2), b.root); err != nil || !bytes.Equal(first, o2) {
				cj["other_err"] = fmt.Sprint(err)
				sum.FailC(stream, "chk-bytes:"+shapeFam, "acyclic graph: the output with CheckCircularRef differs from the output without it", cj)
				delete(cj, "other_err")
			}
		}
		// repair the graph in place (same node objects => same pointers as the stale stack entries), Reset, Encode
		b.fill(d2)
		var out2 []byte
		enc.ResetBytes(&out2)
		err3 := safeEncode(enc, b.root)
		r[2] = errCode(err3)
		if r[2] != 0 {
			cj["err3"] = fmt.Sprint(err3)
			sum.FailC(stream, "reset", "after Reset the Encoder rejects an acyclic value over the same pointers", cj)
		} else if c.canon {
			var out3 []byte
			if err := codec.NewEncoderBytes(&out3, h).Encode(b.root); err != nil || !bytes.Equal(out2, out3) {
				sum.FailC(stream, "reset-bytes", "after Reset the output differs from a fresh Encoder's", cj)
			}
		}
		// io.Writer Encoder: same outcome class, and after Reset onto a new writer exactly the bytes of a fresh Encoder
		if errCode(ioErr1) != r[0] && !loose {
			cj["io_err1"] = fmt.Sprint(ioErr1)
			sum.FailC(stream, "io-outcome", "an io.Writer-backed Encoder gives another outcome class than NewEncoderBytes", cj)
		}
		encIO.Reset(&w2)
		if ioErr3 := safeEncode(encIO, b.root); ioErr3 != nil {
			cj["io_err3"] = fmt.Sprint(ioErr3)
			sum.FailC(stream, "io-reset", "after Reset an io.Writer-backed Encoder rejects an acyclic value", cj)
		} else if c.canon && r[2] == 0 && !bytes.Equal(w2.Bytes(), out2) {
			cj["io_got"], cj["want"] = vh.Hex(w2.Bytes()), vh.Hex(out2)
			sum.FailC(stream, "io-reset-bytes", "after a failed or successful Encode and Reset onto a new io.Writer the output differs from a fresh Encoder's", cj)
			delete(cj, "io_got")
			delete(cj, "want")
		}
		if fi == 0 {
			res = r
		} else if r != res && !(loose && (r[0] != 0) == (res[0] != 0)) {
			sum.FailC(stream, "formats-differ", "formats disagree on the outcome classes", cj)
		}
		delete(cj, "format")
		delete(cj, "err1")
	}
	b.fill(d2)
	heap2, root2 := b.heapTerm(), b.rootT
	cv.Add(fmt.Sprintf("mkcase %d %s %s %s %d %s [OpEncode %s (%s); OpEncode %s (%s); OpReset; OpEncode %s (%s)] [%d;%d;%d]%%N",
		id, heap1, vh.CoqBool(c.chk), vh.CoqBool(c.raw), budget, vh.CoqBool(loose), heap1, root1, heap1, root1, heap2, root2, res[0], res[1], res[2]))
	key := fmt.Sprintf("%s/cyc%v/chk%v/leaf%s%v/%s/n%d/r%d/%s", stream, cyc, c.chk, hasLeaf, loose, d.RootKind, len(d.Nodes), res[0], shapeClass)
	if len(d.Nodes) == 0 {
		key = ""
	}
	sum.Count(fmt.Sprintf("%s.res%d", stream, res[0]), key)
	sum.Dist[fmt.Sprintf("%s.cells%d", stream, (len(b.cells)/8)*8)]++
	if cyc {
		sum.Dist[stream+".cyclic"]++
	}
	if id%97 == 0 {
		sum.Sample(cj)
	}
	sum.ModelCases++
}

func safeEncode(enc *codec.Encoder, v interface{}) (err error) {
	defer func() {
		if r := recover(); r != nil {
			err = fmt.Errorf("ESCAPED-PANIC %v", r)
		}
	}()
	return enc.Encode(v)
}

func main() {
	child := flag.Bool("child", false, "child mode (internal)")
	nGraph := flag.Int("graphs", 300, "random graphs, in-process")
	nChild := flag.Int("children", 6, "graphs run in child processes (stack exhaustion / hang expected)")
	cases := flag.String("cases", "/verif/build/c20/cases", "directory for the model case files")
	worker := flag.Bool("worker", false, "worker mode (internal): run the cases; the supervisor restarts it when a case kills it")
	skip := flag.String("skip", "", "worker: case ids to skip (they killed an earlier worker)")
	prefail := flag.String("prefail", "", "worker: file with failures recorded by the supervisor")
	nShape := flag.Int("shapes", 120, "random graphs carrying a random shape (pointer to fast-path collection / pointer map keys)")
	noShapes := flag.Bool("noshapes", false, "skip the shape streams")
	noLeafPos := flag.Bool("noleafpos", false, "skip the leaf table x position stream")
	flag.Parse()
	if *child {
		childMain()
		return
	}
	if !*worker {
		supervise()
		return
	}
	skipIDs = map[int]bool{}
	for _, x := range strings.Split(*skip, ",") {
		var v int
		if _, err := fmt.Sscanf(x, "%d", &v); err == nil {
			skipIDs[v] = true
		}
	}
	r := vh.NewRng(vh.SeedFromEnv())
	sum := vh.NewSummary("graph: random adjacency over node type N (*N, **N, []*N, map[string]*N, interface{} holding ptr/pp/slice/map/[]interface{}/map[string]interface{}, embedded struct, *[]*N, *map[string]*N, [2]*N, *Book whose Ref points at its embedded first field, *[2]Cell whose element 1 points at element 0: same address, other type; *ON / *ONA: non-simple structs with an omitempty field coded by kStruct as map, as array under StructToArray, and as array by the toarray tag) x {dag, arbitrary} x CheckCircularRef x root kind x 5 formats, ops Encode/Encode/repair+Reset/Encode; leaves: every unrepresentable kind (and its representable twin) at a random node, optionally behind a pointer; child: cyclic without the option and cycles through map/slice/*interface{}/type P *P only, in a child process; ptrcoll (deterministic, seed independent): pointers to fast-path collections (*[]interface{}, *map[string]interface{}, harmless *[]string) as fields of simple / omitempty / toarray structs held by value, by pointer, as slice / map / array / MapBySlice elements, behind a double pointer and directly in an interface x target kind x {self cycle, two-collection cycle, DAG with sharing} x root by pointer / by value x StructToArray; ptrkey (deterministic): pointer map keys map[*K]int, map[*K]*K (key / value), map[interface{}]int, map[[1]*K]int x {self, back through a field, two keys, DAG with sharing} x Canonical on / off x root by pointer / by value; leafpos (deterministic): the leaf table x position product - every leaf kind (func nil / non-nil, send-only / receive-only / bidirectional chan nil / filled, complex64/128 with imag = 0 / <> 0, Raw with / without the option, odd / even MapBySlice, failing / panicking / well-behaved marshalers and Selfers, nil pointer / map / slice / interface) with its static type visible in every position (struct field by value / pointer / omitempty / omitempty pointer, []T, [1]T, chan T, map[string]T, map[T]int, *T, **T, []interface{}, top level), one and two levels deep x 5 formats x bytes / io.Writer x CheckCircularRef x StructToArray: error exactly for the unrepresentable leaves with the table's class, otherwise the bytes of the twin container holding what the leaf stands for, Reset + Encode of a good value afterwards; shapes: random shapes of both kinds on random graphs; a cyclic shape case runs its first Encode in a child process first (a fatal stack overflow is a counterexample); distinct by (stream, cyclic, option, leaf, root kind, nodes, outcome, shape class)")
	cv := vh.NewCases(*cases, "From Coq Require Import List NArith.\nFrom Verif Require Import Base.Outcome C20.Model C20.Corr.\nImport ListNotations.", "case", "mismatches", 40)
	if *prefail != "" {
		if bs, err := os.ReadFile(*prefail); err == nil {
			var fs []vh.Failure
			json.Unmarshal(bs, &fs)
			for _, f := range fs {
				sum.FailC(f.Stream, f.Class, f.What, f.Case)
			}
		}
	}
	id := 0
	gr := r.Fork()
	for i := 0; i < *nGraph; i++ {
		m := genMode{dag: gr.Intn(5) < 2, density: gr.PickInt(2, 3, 4, 6)}
		var d *GraphDesc
		for {
			d = randGraph(gr, m, "", false)
			if okSize(d) {
				break
			}
		}
		if gr.Chance(1, 8) {
			d.Inside = []string{"pslice", "pmap", "parr"}[gr.Intn(3)]
			d.InsideAt = gr.Intn(len(d.Nodes))
		}
		chk := true
		if _, cyc := reachable(d); !cyc && gr.Chance(1, 3) {
			chk = false // acyclic: the option must not matter
		}
		runCase(id, caseCfg{desc: d, chk: chk, raw: gr.Bool(), canon: gr.Bool()}, cv, sum, "graph")
		id++
	}
	// leaves table: every kind x {acyclic dag, cyclic} x {direct, behind pointer}
	lr := r.Fork()
	leaves := []string{"func", "sendchan", "recvchan", "complex", "complexok", "raw", "oddmbs", "evenmbs", "failm", "panicm", "failselfer", "unsafeptr", "rtpanicm", "rtpanicselfer", "recslice", "recmap", "oc128bad", "oc64bad", "ocok"}
	for rep := 0; rep < 2; rep++ {
		for _, lf := range leaves {
			for _, lp := range []bool{false, true} {
				for _, dag := range []bool{true, false} {
					var d *GraphDesc
					for {
						d = randGraph(lr, genMode{dag: dag, density: 3}, lf, lp)
						if okSize(d) {
							break
						}
					}
					if lf == "raw" {
						runCase(id, caseCfg{desc: d, chk: true, raw: true, canon: lr.Bool()}, cv, sum, "leaves")
						id++
					}
					chk := true
					if _, cyc := reachable(d); !cyc && lr.Bool() {
						chk = false
					}
					runCase(id, caseCfg{desc: d, chk: chk, raw: false, canon: lr.Bool()}, cv, sum, "leaves")
					id++
				}
			}
		}
	}
	// child-process runs
	cr := r.Fork()
	outs := []string{"", "mapself", "sliceself", "pslice", "ifaceptrself", "typep", "pmap", "", "parr"}
	for i := 0; i < *nChild; i++ {
		o := outs[i%len(outs)]
		var d *GraphDesc
		if o == "pslice" || o == "pmap" || o == "parr" {
			for {
				d = randGraph(cr, genMode{dag: true, density: 3}, "", false)
				if treeSize(d) < 4000 {
					break
				}
			}
			d.Inside, d.InsideAt = o, 0
			d.RootKind, d.Roots = "ptr", []int{0}
			runCase(id, caseCfg{desc: d, chk: false, canon: false, child: true}, cv, sum, "child")
		} else if o == "" {
			for {
				d = randGraph(cr, genMode{dag: false, density: 4}, "", false)
				b := newBuilt(d)
				var po bool
				if hasPtrCycle(reflect.ValueOf(b.root), map[pkey]bool{}, map[pkey]bool{}, &po) {
					break
				}
			}
			runCase(id, caseCfg{desc: d, chk: false, canon: cr.Bool(), child: true}, cv, sum, "child")
		} else {
			for {
				d = randGraph(cr, genMode{dag: true, density: 3}, "", false)
				if treeSize(d) < 4000 {
					break
				}
			}
			d.Outside = o
			d.RootKind, d.Roots = "ptr", []int{0}
			runCase(id, caseCfg{desc: d, chk: true, canon: false, child: true}, cv, sum, "child")
		}
		id++
	}
	// shapes (shapes.go): deterministic, seed-independent streams first, then random shapes on random graphs
	shapeBase := func(k int) *GraphDesc {
		d := &GraphDesc{Nodes: make([]NodeDesc, 1)}
		nd := &d.Nodes[0]
		nd.P, nd.PP, nd.EP, nd.A = -1, -1, -1, [2]int{-1, -1}
		nd.BookUp, nd.BookNext, nd.RowUp, nd.OnUp, nd.OnAUp = -1, -1, -1, -1, -1
		nd.I, nd.EI = IVal{Kind: "nil"}, IVal{Kind: "nil"}
		d.RootKind, d.Roots = []string{"ptr", "val", "iface", "slice"}[k%4], []int{0}
		return d
	}
	if !*noShapes {
		for i, sc := range append(append(detPCShapes(), detPKShapes()...), detSFShapes()...) {
			d := shapeBase(i)
			attachShape(d, sc.s, 0)
			st := 1
			if sc.sta {
				st = 2
			}
			runCase(id, caseCfg{desc: d, chk: sc.chk, canon: sc.canon, guard: true, sta: st}, cv, sum, sc.stream)
			id++
		}
		sr := r.Fork()
		for i := 0; i < *nShape; i++ {
			dag := sr.Intn(5) < 2
			var d *GraphDesc
			for {
				d = randGraph(sr, genMode{dag: dag, density: sr.PickInt(1, 2, 3)}, "", false)
				attachShape(d, randShape(sr, dag || sr.Bool()), sr.Intn(len(d.Nodes)))
				if okSize(d) {
					break
				}
			}
			chk := true
			if _, cyc := reachable(d); !cyc && sr.Chance(1, 3) {
				chk = false
			}
			runCase(id, caseCfg{desc: d, chk: chk, raw: sr.Bool(), canon: sr.Bool(), guard: true}, cv, sum, "shapes")
			id++
		}
	}
	// leafpos (leafpos.go): every leaf of the table in every position with its static type visible (deterministic)
	if !*noLeafPos {
		id = runLeafPos(id, cv, sum)
	}
	cv.Close()
	sum.Print()
}

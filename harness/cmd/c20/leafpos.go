package main

// leafpos: the LEAF TABLE x POSITION product (deterministic, seed independent).
//
// Every leaf kind the property names is placed in every position in which an encoder meets a value, with its
// STATIC type visible to the container (so the container's per-element-kind shortcuts are exercised: the
// random-graph leaves stream only ever holds a leaf in an interface{} field):
//   struct field (by value / pointer / omitempty / omitempty pointer, as map and - StructToArray - as array),
//   slice element []T, array element [2]T, chan element chan T (buffered, pre-filled), map value map[string]T,
//   map key map[T]int where T is comparable, *T, **T, []interface{}{T}, top level by value,
// one level deep (every format, bytes and io.Writer, CheckCircularRef on and off, StructToArray on and off) and two
// levels deep (position in position; formats rotate).
//
// Oracle (the model's leaf table, C20_leaf_table / C20_leaves): Encode returns an error exactly when the leaf is
// unrepresentable, of the class the table gives (5 unsupported, 7 user marshaler), never panics; a representable
// leaf gives exactly the bytes of the same container with the leaf replaced by what it must encode as (func -> nil,
// nil chan / pointer / map / slice / interface -> nil, receivable chan -> the array of its elements, complex with
// imag = 0 -> the float, Raw under the Raw option -> the value whose encoding it holds, even MapBySlice -> the map,
// marshaler / Selfer -> what it writes); bytes and io.Writer agree; CheckCircularRef does not change a byte; after
// the Encode (failed or not) Reset + Encode of a good value gives a fresh Encoder's bytes.

import (
	"bytes"
	"fmt"
	"reflect"

	"github.com/ugorji/go/codec"
	"verifharness/vh"
)

type LOkM struct{ X int }

func (LOkM) MarshalBinary() ([]byte, error) { return []byte("ok"), nil }
func (*LOkM) UnmarshalBinary([]byte) error  { return nil }
func (LOkM) MarshalText() ([]byte, error)   { return []byte("ok"), nil }
func (*LOkM) UnmarshalText([]byte) error    { return nil }
func (LOkM) MarshalJSON() ([]byte, error)   { return []byte(`"ok"`), nil }
func (*LOkM) UnmarshalJSON([]byte) error    { return nil }

type LOkS struct{ X int }

func (s LOkS) CodecEncodeSelf(e *codec.Encoder) { e.MustEncode(s.X) }
func (*LOkS) CodecDecodeSelf(*codec.Decoder)    {}

type lpLeaf struct {
	name string
	fam  string                            // root-cause family (func, chan, complex, ...)
	mk   func(format string) reflect.Value // fresh value of the leaf's static type
	twin func(format string) reflect.Value // what it must encode as (nil: no byte comparison)
	bad  int                               // 0 representable, 5 unsupported, 7 user marshaler
	raw  bool                              // run under the Raw option
	term string                            // the model's value
}

var lpNilIface = reflect.TypeOf((*interface{})(nil)).Elem()

func lpNilTwin(string) reflect.Value { return reflect.Zero(lpNilIface) }

func lpConst(v interface{}) func(string) reflect.Value {
	return func(string) reflect.Value { return reflect.ValueOf(v) }
}

func lpZero(v interface{}) func(string) reflect.Value {
	t := reflect.TypeOf(v)
	return func(string) reflect.Value { return reflect.Zero(t) }
}

func lpEncInt(format string, x int) []byte {
	var out []byte
	codec.NewEncoderBytes(&out, vh.NewHandle(format, vh.Opts{})).MustEncode(x)
	return out
}

func lpLeaves() []lpLeaf {
	filled := func() chan int { c := make(chan int, 3); c <- 1; c <- 2; return c }
	ls := []lpLeaf{
		{name: "func", fam: "func", mk: lpConst(func() {}), twin: lpNilTwin, term: "VFunc"},
		{name: "func-nil", fam: "func", mk: lpZero(func() {}), twin: lpNilTwin, term: "VFunc"},
		{name: "func-args", fam: "func", mk: lpConst(func(i int) int { return i + 1 }), twin: lpNilTwin, term: "VFunc"},
		{name: "func-args-nil", fam: "func", mk: lpZero(func(i int) int { return i }), twin: lpNilTwin, term: "VFunc"},
		{name: "sendchan", fam: "chan", mk: func(string) reflect.Value { return reflect.ValueOf((chan<- int)(filled())) }, bad: 5, term: "VBad BSendChan false"},
		{name: "sendchan-nil", fam: "chan", mk: lpZero((chan<- int)(nil)), twin: lpNilTwin, term: "VNil NChan"},
		{name: "recvchan", fam: "chan", mk: func(string) reflect.Value { return reflect.ValueOf((<-chan int)(filled())) }, twin: lpConst([]int{1, 2}), term: "VScalar"},
		{name: "recvchan-nil", fam: "chan", mk: lpZero((<-chan int)(nil)), twin: lpNilTwin, term: "VNil NChan"},
		{name: "bichan", fam: "chan", mk: func(string) reflect.Value { return reflect.ValueOf(filled()) }, twin: lpConst([]int{1, 2}), term: "VScalar"},
		{name: "bichan-nil", fam: "chan", mk: lpZero((chan int)(nil)), twin: lpNilTwin, term: "VNil NChan"},
		{name: "complex128", fam: "complex", mk: lpConst(complex(1.5, 2)), bad: 5, term: "VBad BComplex false"},
		{name: "complex64", fam: "complex", mk: lpConst(complex64(complex(1.5, -1))), bad: 5, term: "VBad BComplex false"},
		{name: "complex128-imag0", fam: "complex", mk: lpConst(complex(1.5, 0)), twin: lpConst(float64(1.5)), term: "VScalar"},
		{name: "complex64-imag0", fam: "complex", mk: lpConst(complex64(complex(1.5, 0))), twin: lpConst(float32(1.5)), term: "VScalar"},
		{name: "raw", fam: "raw", mk: func(f string) reflect.Value { return reflect.ValueOf(codec.Raw(lpEncInt(f, 7))) }, bad: 5, term: "VBad BRaw true"},
		{name: "raw-opt", fam: "raw", mk: func(f string) reflect.Value { return reflect.ValueOf(codec.Raw(lpEncInt(f, 7))) }, twin: lpConst(int(7)), raw: true, term: "VBad BRaw true"},
		{name: "oddmbs", fam: "mbs", mk: lpConst(Mbs{"a", 1, "b"}), bad: 5, term: "VBad BOddMbs true"},
		{name: "evenmbs", fam: "mbs", mk: lpConst(Mbs{"a", 1}), twin: lpConst(map[string]int{"a": 1}), term: "VScalar"},
		{name: "failm", fam: "marshaler", mk: lpConst(FailM{1}), bad: 7, term: "VBad BMarshalErr true"},
		{name: "panicm", fam: "marshaler", mk: lpConst(PanicM{1}), bad: 7, term: "VBad BMarshalPanic true"},
		{name: "rtpanicm", fam: "marshaler", mk: lpConst(RtPanicM{1}), bad: 7, term: "VBad BMarshalPanic true"},
		{name: "okm", fam: "marshaler", mk: lpConst(LOkM{1}), twin: func(f string) reflect.Value {
			if f == "json" {
				return reflect.ValueOf("ok")
			}
			return reflect.ValueOf([]byte("ok"))
		}, term: "VScalar"},
		{name: "failselfer", fam: "selfer", mk: lpConst(FailSelfer{1}), bad: 7, term: "VBad BMarshalErr true"},
		{name: "rtpanicselfer", fam: "selfer", mk: lpConst(RtPanicSelfer{1}), bad: 7, term: "VBad BMarshalPanic true"},
		{name: "okselfer", fam: "selfer", mk: lpConst(LOkS{5}), twin: lpConst(int(5)), term: "VScalar"},
		{name: "nilptr", fam: "nil", mk: lpZero((*int)(nil)), twin: lpNilTwin, term: "VNil NPtr"},
		{name: "nilptr-struct", fam: "nil", mk: lpZero((*N)(nil)), twin: lpNilTwin, term: "VNil NPtr"},
		{name: "nilmap", fam: "nil", mk: lpZero(map[string]int(nil)), twin: lpNilTwin, term: "VNil NMap"},
		{name: "nilslice", fam: "nil", mk: lpZero([]int(nil)), twin: lpNilTwin, term: "VNil NSlice"},
		{name: "niliface", fam: "nil", mk: func(string) reflect.Value { return reflect.Zero(lpNilIface) }, twin: lpNilTwin, term: "VNil NIface"},
	}
	return ls
}

// ---- positions ----

type lpHeap struct{ cells []string }

func (h *lpHeap) alloc(t string) int { h.cells = append(h.cells, t); return len(h.cells) - 1 }

type lpPos struct {
	name string
	// wrap puts v (static type v.Type()) in the position; omit: v is the empty value (an omitempty field drops it,
	// the twin must drop it too); ok=false: the position does not exist for this type (map key of a non-comparable type)
	wrap func(v reflect.Value, twin bool, omit int) (reflect.Value, bool)
	term func(inner string, omit bool, h *lpHeap) string
}

// lpOmits: does a struct leave out a field holding v in position pos? (the codec's rules, independent of the leaf:
// a field whose type is a func type is never written; under omitempty a field is left out when it is the zero value
// of its type or a pointer chain that ends in a nil pointer)
func lpOmits(pos string, v reflect.Value, sta bool) bool {
	return lpOmitMode(pos, v, sta) == 1
}

// lpOmitMode: 0 the field is written, 1 the field is left out, 2 (struct as array) the empty field is written as nil:
// the twin keeps omitempty
func lpOmitMode(pos string, v reflect.Value, sta bool) int {
	if sta && pos == "fo" && v.Kind() != reflect.Func && v.IsZero() {
		return 2
	}
	if lpOmitsNoSta(pos, v, sta) {
		return 1
	}
	return 0
}

func lpOmitsNoSta(pos string, v reflect.Value, sta bool) bool {
	ptr := pos == "fp" || pos == "fpo"
	oe := pos == "fo" || pos == "fpo"
	if pos != "fv" && !ptr && !oe {
		return false
	}
	if !ptr && v.Kind() == reflect.Func {
		return true
	}
	if !oe || sta { // a struct written as an array keeps every position: an empty field is written as nil
		return false
	}
	for x := v; x.Kind() == reflect.Ptr; x = x.Elem() {
		if x.IsNil() {
			return true
		}
	}
	if ptr || v.Kind() == reflect.Ptr {
		return false
	}
	return v.IsZero()
}

func lpStruct(t reflect.Type, tag string) reflect.Type {
	return reflect.StructOf([]reflect.StructField{
		{Name: "A", Type: reflect.TypeOf(int(0))},
		{Name: "F", Type: t, Tag: reflect.StructTag(tag)},
	})
}

func lpPtrTo(v reflect.Value) reflect.Value {
	p := reflect.New(v.Type())
	p.Elem().Set(v)
	return p
}

func lpPositions() []lpPos {
	field := func(ptr, omitempty bool) func(v reflect.Value, twin bool, omit int) (reflect.Value, bool) {
		return func(v reflect.Value, twin bool, omit int) (reflect.Value, bool) {
			if ptr {
				v = lpPtrTo(v)
			}
			tag := `codec:"f"`
			if omitempty && (!twin || omit == 2) {
				tag = `codec:"f,omitempty"`
			}
			if twin && omit == 1 {
				// the leaf's container does not write the field (empty under omitempty / a func-typed field, which no
				// struct ever writes): the twin has no such field
				s := reflect.New(reflect.StructOf([]reflect.StructField{{Name: "A", Type: reflect.TypeOf(int(0))}})).Elem()
				s.Field(0).SetInt(1)
				return s, true
			}
			s := reflect.New(lpStruct(v.Type(), tag)).Elem()
			s.Field(0).SetInt(1)
			s.Field(1).Set(v)
			return s, true
		}
	}
	fterm := func(ptr, omitempty bool) func(inner string, omit bool, h *lpHeap) string {
		return func(inner string, omit bool, h *lpHeap) string {
			if omit {
				return "VStruct [VScalar]"
			}
			if ptr {
				inner = fmt.Sprintf("VPtr %d", h.alloc(inner))
			}
			return "VStruct [VScalar; " + inner + "]"
		}
	}
	return []lpPos{
		{"top", func(v reflect.Value, _ bool, _ int) (reflect.Value, bool) { return v, true },
			func(in string, _ bool, h *lpHeap) string { return in }},
		{"ptr", func(v reflect.Value, _ bool, _ int) (reflect.Value, bool) { return lpPtrTo(v), true },
			func(in string, _ bool, h *lpHeap) string { return fmt.Sprintf("VPtr %d", h.alloc(in)) }},
		{"pp", func(v reflect.Value, _ bool, _ int) (reflect.Value, bool) { return lpPtrTo(lpPtrTo(v)), true },
			func(in string, _ bool, h *lpHeap) string {
				return fmt.Sprintf("VPtr %d", h.alloc(fmt.Sprintf("VPtr %d", h.alloc(in))))
			}},
		{"iface", func(v reflect.Value, _ bool, _ int) (reflect.Value, bool) {
			s := reflect.MakeSlice(reflect.SliceOf(lpNilIface), 2, 2)
			s.Index(0).Set(reflect.ValueOf("x"))
			if v.Kind() != reflect.Interface || !v.IsNil() {
				s.Index(1).Set(v)
			}
			return s, true
		}, func(in string, _ bool, h *lpHeap) string {
			return fmt.Sprintf("VSlice %d", h.alloc("VArr [VIface VScalar; VIface ("+in+")]"))
		}},
		{"fv", field(false, false), fterm(false, false)},
		{"fp", field(true, false), fterm(true, false)},
		{"fo", field(false, true), fterm(false, true)},
		{"fpo", field(true, true), fterm(true, true)},
		{"sl", func(v reflect.Value, _ bool, _ int) (reflect.Value, bool) {
			s := reflect.MakeSlice(reflect.SliceOf(v.Type()), 1, 1)
			s.Index(0).Set(v)
			return s, true
		}, func(in string, _ bool, h *lpHeap) string { return fmt.Sprintf("VSlice %d", h.alloc("VArr ["+in+"]")) }},
		{"ar", func(v reflect.Value, _ bool, _ int) (reflect.Value, bool) {
			a := reflect.New(reflect.ArrayOf(1, v.Type())).Elem()
			a.Index(0).Set(v)
			return a, true
		}, func(in string, _ bool, h *lpHeap) string { return "VArr [" + in + "]" }},
		{"ch", func(v reflect.Value, _ bool, _ int) (reflect.Value, bool) {
			c := reflect.MakeChan(reflect.ChanOf(reflect.BothDir, v.Type()), 2)
			c.Send(v)
			return c, true
		}, func(in string, _ bool, h *lpHeap) string { return fmt.Sprintf("VSlice %d", h.alloc("VArr ["+in+"]")) }},
		{"mv", func(v reflect.Value, _ bool, _ int) (reflect.Value, bool) {
			m := reflect.MakeMap(reflect.MapOf(reflect.TypeOf(""), v.Type()))
			m.SetMapIndex(reflect.ValueOf("k"), v)
			return m, true
		}, func(in string, _ bool, h *lpHeap) string {
			return fmt.Sprintf("VMap %d", h.alloc("VArr [VScalar; "+in+"]"))
		}},
		{"mk", func(v reflect.Value, _ bool, _ int) (m reflect.Value, ok bool) {
			if !v.Type().Comparable() {
				return v, false
			}
			defer func() {
				if recover() != nil { // an interface key holding an unhashable value
					ok = false
				}
			}()
			m = reflect.MakeMap(reflect.MapOf(v.Type(), reflect.TypeOf(int(0))))
			m.SetMapIndex(v, reflect.ValueOf(1))
			return m, true
		}, func(in string, _ bool, h *lpHeap) string {
			return fmt.Sprintf("VMap %d", h.alloc("VArr ["+in+"; VScalar]"))
		}},
	}
}

func lpEncode(format string, o vh.Opts, io bool, v interface{}) (out []byte, err error, resetOK string) {
	h := vh.NewHandle(format, o)
	good := []interface{}{1, "a", nil}
	var fresh []byte
	codec.NewEncoderBytes(&fresh, h).MustEncode(good)
	if io {
		var w, w2 bytes.Buffer
		enc := codec.NewEncoder(&w, h)
		err = safeEncode(enc, v)
		out = append([]byte(nil), w.Bytes()...)
		enc.Reset(&w2)
		if e2 := safeEncode(enc, good); e2 != nil {
			resetOK = "after Reset the Encoder rejects a good value"
		} else if !bytes.Equal(w2.Bytes(), fresh) {
			resetOK = "after Reset the output differs from a fresh Encoder's"
		}
		return
	}
	var o1, o2 []byte
	enc := codec.NewEncoderBytes(&o1, h)
	err = safeEncode(enc, v)
	out = append([]byte(nil), o1...)
	enc.ResetBytes(&o2)
	if e2 := safeEncode(enc, good); e2 != nil {
		resetOK = "after Reset the Encoder rejects a good value"
	} else if !bytes.Equal(o2, fresh) {
		resetOK = "after Reset the output differs from a fresh Encoder's"
	}
	return
}

func lpIface(v reflect.Value) interface{} {
	if !v.IsValid() || (v.Kind() == reflect.Interface && v.IsNil()) {
		return nil
	}
	return v.Interface()
}

// runLeafPos runs the product; ids for the model cases start at id; returns the next free id.
func runLeafPos(id int, cv *vh.Cases, sum *vh.Summary) int {
	const stream = "leafpos"
	leaves, poss := lpLeaves(), lpPositions()
	type chain []lpPos
	var chains []chain
	for _, p := range poss {
		chains = append(chains, chain{p})
	}
	for _, outer := range poss {
		if outer.name == "top" {
			continue
		}
		for _, inner := range poss {
			if inner.name == "top" {
				continue
			}
			chains = append(chains, chain{inner, outer}) // leaf in inner, inner container in outer
		}
	}
	n := 0
	for _, lf := range leaves {
		for _, ch := range chains {
			n++
			pname := ch[0].name
			if len(ch) == 2 {
				pname = ch[0].name + "." + ch[1].name
			}
			// leaf container and twin container are built in lock step: an omitempty field of the twin is dropped exactly
			// when the leaf side holds the zero value of its type
			build := func(format string, sta bool) (lv, tv reflect.Value, ok bool) {
				lv = lf.mk(format)
				if lf.twin != nil {
					tv = lf.twin(format)
				}
				for _, p := range ch {
					omit := lpOmitMode(p.name, lv, sta)
					if lv, ok = p.wrap(lv, false, omit); !ok {
						return
					}
					if lf.twin != nil {
						if tv, ok = p.wrap(tv, true, omit); !ok {
							return
						}
					}
				}
				return lv, tv, true
			}
			if _, _, ok := build("cbor", false); !ok {
				continue
			}
			formats := vh.Formats
			if len(ch) == 2 {
				formats = []string{vh.Formats[n%len(vh.Formats)], "json"}
			}
			first := -1
			for _, f := range formats {
				refs := map[bool][]byte{}
				for ci, cfg := range [][3]bool{{true, false, false}, {false, false, false}, {true, true, false}, {false, true, true}, {true, false, true}} {
					chk, io, sta := cfg[0], cfg[1], cfg[2]
					if len(ch) == 2 && ci > 2 && n%2 == 0 {
						continue
					}
					o := vh.Opts{"CheckCircularRef": chk, "Raw": lf.raw, "StructToArray": sta}
					cj := map[string]interface{}{"stream": stream, "leaf": lf.name, "position": pname, "format": f, "io": io, "chk": chk, "struct_to_array": sta, "raw": lf.raw}
					v, tv, _ := build(f, sta)
					cj["type"] = fmt.Sprint(v.Type())
					out, err, rs := lpEncode(f, o, io, lpIface(v))
					code := errCode(err)
					cj["err"] = fmt.Sprint(err)
					cls := lf.fam + ":" + pname
					switch {
					case code == 98:
						sum.FailC(stream, "panic-escaped:"+cls, "Encode panicked instead of returning an error", cj)
					case lf.bad == 0 && code != 0:
						sum.FailC(stream, "spurious-error:"+cls, "a representable leaf (func / nil / receivable chan / complex with imag 0 / Raw under the option / even MapBySlice / well-behaved marshaler) was rejected in this position", cj)
					case lf.bad != 0 && code == 0:
						sum.FailC(stream, "leaf-accepted:"+cls, "unrepresentable leaf encoded without error in this position", cj)
					case lf.bad != 0 && code != lf.bad:
						sum.FailC(stream, "leaf-class:"+cls, "unrepresentable leaf gave an error of an unexpected class in this position", cj)
					}
					if rs != "" {
						sum.FailC(stream, "reset:"+cls, rs, cj)
					}
					if first == -1 {
						first = code
					} else if code != first {
						sum.FailC(stream, "outcomes-differ:"+cls, "formats / bytes and io / CheckCircularRef / StructToArray disagree on the outcome class", cj)
					}
					if lf.bad == 0 && code == 0 {
						if ref, have := refs[sta]; !have {
							refs[sta] = out
						} else if !bytes.Equal(ref, out) {
							cj["got"], cj["want"] = vh.Hex(out), vh.Hex(ref)
							sum.FailC(stream, "bytes-differ:"+cls, "bytes / io.Writer / CheckCircularRef change the output of an acyclic value", cj)
							delete(cj, "got")
							delete(cj, "want")
						}
						if lf.twin != nil {
							tout, terr, _ := lpEncode(f, o, io, lpIface(tv))
							if terr != nil || !bytes.Equal(tout, out) {
								cj["got"], cj["want"], cj["twin_type"], cj["twin_err"] = vh.Hex(out), vh.Hex(tout), fmt.Sprint(tv.Type()), fmt.Sprint(terr)
								sum.FailC(stream, "twin-bytes:"+cls, "a representable leaf does not encode as the value it stands for (same container with the leaf replaced: func / nil -> nil, chan -> its elements, complex -> float, Raw -> its content, MapBySlice -> map, marshaler -> what it writes)", cj)
								delete(cj, "got")
								delete(cj, "want")
								delete(cj, "twin_type")
								delete(cj, "twin_err")
							}
						}
					}
				}
			}
			sum.Count(fmt.Sprintf("%s.res%d", stream, first), lf.name+"/"+pname)
			sum.Dist[fmt.Sprintf("%s.depth%d", stream, len(ch))]++
			if len(ch) == 1 && !skipIDs[id] {
				// the model on the same leaf in the same position
				for _, chk := range []bool{true, false} {
					h := &lpHeap{}
					t := lf.term
					lv := lf.mk("cbor")
					for _, p := range ch {
						t = p.term(t, lpOmits(p.name, lv, false), h)
					}
					heap := coqList(h.cells)
					cv.Add(fmt.Sprintf("mkcase %d %s %s %s %d false [OpEncode %s (%s); OpReset; OpEncode [] (VArr [VScalar; VScalar; VNil NIface])] [%d;0]%%N",
						id, heap, vh.CoqBool(chk), vh.CoqBool(lf.raw), 64, heap, t, first))
					sum.ModelCases++
					id++
				}
			}
		}
	}
	return id
}

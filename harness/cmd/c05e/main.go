// c05e: correspondence for the isEmptyValue helper pair. Built twice by the
// driver (default tags = helper_unsafe.go, codec.safe = helper_not_unsafe.go).
// For every field of a struct holding one value of each kind (drawn from menus
// that include -0.0, non-nil empty slices/maps/strings, nested structs/arrays/
// pointers) it records what the real isEmptyValue answers in non-recursive and
// recursive mode and writes the case for the Coq model C05/Model.v.
package main

import (
	"flag"
	"fmt"
	"math"
	"reflect"
	"strings"
	"time"
	"unsafe"

	"verifharness/vh"

	"github.com/ugorji/go/codec"
)

type inner struct {
	X int
	Y float64
	S string
}
type innerNC struct {
	Z []int
	W int8
}
type deep struct {
	A [2]inner
	P *inner
	I interface{}
}

// E has one field per kind the helpers distinguish.
type E struct {
	B   bool
	I   int64
	U   uint16
	F64 float64
	F32 float32
	S   string
	Sl  []int
	M   map[string]int
	Ch  chan int
	Fn  func()
	P   *int
	PP  **float64
	PS  *inner
	If  interface{}
	A   [2]float64
	A0  [0]int
	AS  [2]string
	St  inner
	Snc innerNC
	D   deep
	T   time.Time
	Big [140]uint64 // larger than the 1024-byte zero block unsafeCmpZero compares against
	BS  bigS
	// larger than two and than three of those blocks: a chunked comparison must reach the last one
	Huge [420]uint64
	HS   hugeS
}

type hugeS struct {
	A    [300]uint64
	Last int64
}

type bigS struct {
	A    [130]uint64
	Last int64
}

var nonEmptyBacking = "abcdef"

func fill(r *vh.Rng, e *E) {
	e.B = r.Chance(1, 3)
	e.I = int64(r.PickInt(0, 0, 1, -1, 1<<40))
	e.U = uint16(r.PickInt(0, 0, 7))
	fl := []float64{0, 0, math.Copysign(0, -1), 1.5, math.NaN(), math.SmallestNonzeroFloat64}
	e.F64 = fl[r.Intn(len(fl))]
	e.F32 = float32(fl[r.Intn(len(fl))])
	switch r.Intn(4) {
	case 0:
		e.S = ""
	case 1:
		e.S = nonEmptyBacking[2:2] // empty, non-nil data pointer
	default:
		e.S = "xy"
	}
	switch r.Intn(4) {
	case 0:
		e.Sl = nil
	case 1:
		e.Sl = []int{}
	case 2:
		e.Sl = make([]int, 0, 4)
	default:
		e.Sl = []int{0}
	}
	switch r.Intn(3) {
	case 0:
		e.M = nil
	case 1:
		e.M = map[string]int{}
	default:
		e.M = map[string]int{"a": 0}
	}
	switch r.Intn(3) {
	case 0:
		e.Ch = nil
	case 1:
		e.Ch = make(chan int, 2)
	default:
		e.Ch = make(chan int, 2)
		e.Ch <- 0
	}
	if r.Bool() {
		e.Fn = func() {}
	} else {
		e.Fn = nil
	}
	if r.Bool() {
		x := r.PickInt(0, 5)
		e.P = &x
	} else {
		e.P = nil
	}
	switch r.Intn(3) {
	case 0:
		e.PP = nil
	case 1:
		var q *float64
		e.PP = &q
	default:
		f := fl[r.Intn(len(fl))]
		q := &f
		e.PP = &q
	}
	if r.Bool() {
		e.PS = &inner{X: r.PickInt(0, 0, 3), Y: fl[r.Intn(3)]}
	} else {
		e.PS = nil
	}
	switch r.Intn(5) {
	case 0:
		e.If = nil
	case 1:
		e.If = 0
	case 2:
		e.If = ""
	case 3:
		e.If = inner{}
	default:
		e.If = &inner{X: 1}
	}
	e.A = [2]float64{fl[r.Intn(len(fl))], fl[r.Intn(3)]}
	if r.Bool() {
		e.AS = [2]string{"", nonEmptyBacking[1:1]}
	} else {
		e.AS = [2]string{"", r.PickString("", "q")}
	}
	e.St = inner{X: r.PickInt(0, 0, 0, 2), Y: fl[r.Intn(4)], S: []string{"", "", nonEmptyBacking[3:3], "z"}[r.Intn(4)]}
	switch r.Intn(4) {
	case 0:
		e.Snc = innerNC{}
	case 1:
		e.Snc = innerNC{Z: []int{}}
	case 2:
		e.Snc = innerNC{W: 1}
	default:
		e.Snc = innerNC{Z: []int{1}}
	}
	e.D = deep{}
	if r.Bool() {
		e.D.A[1].Y = fl[r.Intn(len(fl))]
	}
	if r.Chance(1, 3) {
		e.D.P = &inner{}
	}
	if r.Chance(1, 3) {
		e.D.I = inner{S: nonEmptyBacking[0:0]}
	}
	e.Big = [140]uint64{}
	e.BS = bigS{}
	switch r.Intn(4) {
	case 0:
	case 1:
		e.Big[139] = 5 // zero prefix longer than 1024 bytes, non-zero tail
		e.BS.Last = 7
	case 2:
		e.Big[128] = 1
		e.BS.A[129] = 2
	default:
		e.Big[0] = 1
		e.BS.A[0] = 1
	}
	e.Huge = [420]uint64{}
	e.HS = hugeS{}
	switch r.Intn(6) {
	case 0:
	case 1:
		e.Huge[419] = 9 // only the last word: byte offset 3352
		e.HS.Last = 3 // byte offset 2400
	case 2:
		e.Huge[263] = 1 // byte offset 2104: just inside the third block
		e.HS.A[299] = 1
	case 3:
		e.Huge[140] = 1 // second block
		e.HS.A[130] = 1
	case 4:
		e.Huge[0] = 1
		e.HS.A[0] = 1
	default:
		e.Huge[255], e.Huge[256], e.Huge[384] = 1, 1, 1 // block boundaries (2040, 2048, 3072)
		e.HS.A[256] = 1
	}
	switch r.Intn(4) {
	case 0:
		e.T = time.Time{}
	case 1:
		e.T = time.Time{}.In(time.FixedZone("x", 3600)) // IsZero, but not == time.Time{}
	case 2:
		e.T = time.Unix(0, 0).UTC()
	default:
		e.T = time.Time{}.UTC()
	}
}

// mval prints the Coq term (C05.Model.mval) of a value, reading the memory representation where the model needs it.
func mval(v reflect.Value) string {
	t := v.Type()
	if t == vh.TimeType {
		x := v.Interface().(time.Time)
		return fmt.Sprintf("(MTime %s %s)", vh.CoqBool(x.IsZero()), vh.CoqBool(x == time.Time{}))
	}
	switch t.Kind() {
	case reflect.Bool:
		return fmt.Sprintf("(MBool %s)", vh.CoqBool(v.Bool()))
	case reflect.Int, reflect.Int8, reflect.Int16, reflect.Int32, reflect.Int64:
		return fmt.Sprintf("(MInt %s)", vh.CoqZ(v.Int()))
	case reflect.Uint, reflect.Uint8, reflect.Uint16, reflect.Uint32, reflect.Uint64, reflect.Uintptr:
		return fmt.Sprintf("(MUint %s)", vh.CoqN(v.Uint()))
	case reflect.Float64:
		return fmt.Sprintf("(MF64 %s)", vh.CoqN(math.Float64bits(v.Float())))
	case reflect.Float32:
		return fmt.Sprintf("(MF32 %s)", vh.CoqN(uint64(math.Float32bits(float32(v.Float())))))
	case reflect.String:
		s := v.String()
		return fmt.Sprintf("(MStr %s %s)", vh.CoqBool(unsafe.StringData(s) == nil), vh.CoqN(uint64(len(s))))
	case reflect.Slice:
		return fmt.Sprintf("(MSlice %s %s %s)", vh.CoqBool(v.IsNil()), vh.CoqN(uint64(v.Len())), vh.CoqN(uint64(v.Cap())))
	case reflect.Map:
		return fmt.Sprintf("(MMap %s %s)", vh.CoqBool(v.IsNil()), vh.CoqN(uint64(v.Len())))
	case reflect.Chan:
		return fmt.Sprintf("(MChan %s %s)", vh.CoqBool(v.IsNil()), vh.CoqN(uint64(v.Len())))
	case reflect.Func:
		return fmt.Sprintf("(MFunc %s)", vh.CoqBool(v.IsNil()))
	case reflect.Ptr:
		if v.IsNil() {
			return "(MPtr None)"
		}
		return fmt.Sprintf("(MPtr (Some %s))", mval(v.Elem()))
	case reflect.Interface:
		if v.IsNil() {
			return "(MIface None)"
		}
		return fmt.Sprintf("(MIface (Some %s))", mval(v.Elem()))
	case reflect.Array:
		var xs []string
		for i := 0; i < v.Len(); i++ {
			xs = append(xs, mval(v.Index(i)))
		}
		return "(MArr [" + strings.Join(xs, ";") + "])"
	case reflect.Struct:
		var xs []string
		for i := 0; i < v.NumField(); i++ {
			xs = append(xs, mval(v.Field(i)))
		}
		return fmt.Sprintf("(MStruct %s [%s])", vh.CoqBool(t.Comparable()), strings.Join(xs, ";"))
	}
	panic("unsupported kind " + t.Kind().String())
}

func main() {
	n := flag.Int("n", 400, "structs to draw (each yields 2 cases per field)")
	cases := flag.String("cases", "/verif/build/c05/cases_c05e", "directory for the model case files")
	flag.Parse()
	r := vh.NewRng(vh.SeedFromEnv())
	safe := codec.VerifC05SafeMode()
	sum := vh.NewSummary("isEmptyValue of the compiled build (safe=" + fmt.Sprint(safe) + ") on every field of a struct with one field per kind; menus include -0.0, NaN, empty strings/slices/maps/chans with non-nil data, nil and non-nil pointers (nested), interfaces holding zero values, comparable and non-comparable structs, arrays, zero times with and without a location; recursive and non-recursive mode; distinct by (field, mode, model term)")
	cv := vh.NewCases(*cases, "From Coq Require Import List NArith ZArith.\nFrom Verif Require Import C05.Model C05.Corr.\nImport ListNotations.", "case", "mismatches", 150)
	id := 0
	et := reflect.TypeOf(E{})
	for i := 0; i < *n; i++ {
		var e E
		fill(r, &e)
		ev := reflect.ValueOf(&e).Elem()
		for f := 0; f < et.NumField(); f++ {
			for _, rec := range []bool{false, true} {
				func() {
					defer func() {
						if x := recover(); x != nil {
							sum.FailC("isempty", "panic:"+et.Field(f).Name, "isEmptyValue panicked", map[string]interface{}{"field": et.Field(f).Name, "value": vh.CanonRV(ev.Field(f)), "recursive": rec, "safe": safe})
						}
					}()
					got := codec.VerifIsEmptyField(&e, f, rec)
					term := mval(ev.Field(f))
					cv.Add(fmt.Sprintf("mkcase %d %s %s %s %s", id, vh.CoqBool(safe), vh.CoqBool(rec), term, vh.CoqBool(got)))
					id++
					sum.ModelCases++
					sum.Count(fmt.Sprintf("isempty.%s.rec=%v.%v", et.Field(f).Name, rec, got), fmt.Sprintf("%s/%v/%s", et.Field(f).Name, rec, term))
					if id%997 == 0 {
						sum.Sample(map[string]interface{}{"field": et.Field(f).Name, "recursive": rec, "value": vh.CanonRV(ev.Field(f)), "isEmpty": got, "safe_build": safe})
					}
				}()
			}
		}
	}
	cv.Close()
	sum.Print()
}

// c16: correspondence and property oracle for C16 (a struct encodes as the
// map/array its tags describe and decodes back from it).
//
// Streams (all over struct DECLARATIONS generated at run time with
// reflect.StructOf plus a fixed corpus for shapes StructOf cannot build):
//
//	fields: TypeInfos.get's resolved field list / _struct options / name search
//	        (through the verif hook) vs the documented rules applied in Go
//	        (direct oracle) and vs the Coq model (cases).
//	empty:  isEmptyValue / isEmptyContainerValue of the build in use vs the Coq model.
//	enc:    Encode_canonical(struct) == Encode_canonical(independently built map or
//	        slice) in all five formats (direct oracle); the entries of the encoded
//	        struct, split with codec.Raw, vs the Coq model's enc_struct (cases).
//	hist:   one Encoder encoding many values (hist.go): reused Encoder == fresh Encoder ==
//	        deep map/array model, five formats; pool: sfiRvFreeList get/put sequences vs the
//	        Coq pool model (cases) and direct no-aliasing oracles.
//	dec:    Decode(partial map / array) into a pre-populated struct sets exactly the
//	        mentioned fields; unknown key => error iff ErrorIfNoField (direct oracle);
//	        resulting struct vs the Coq model's dec_struct (cases).
package main

import (
	"bytes"
	"flag"
	"fmt"
	"io"
	"reflect"
	"sort"
	"strconv"
	"strings"
	"unsafe"

	"verifharness/vh"

	"github.com/ugorji/go/codec"
)

var buildName = "unsafe"

const casesHeader = "From Coq Require Import List NArith ZArith.\nFrom Verif Require Import Base.Outcome Wire.Item C16.Spec C16.Model C16.Corr.\nImport ListNotations."

// rw lifts the read-only flag reflect puts on values reached through unexported fields.
func rw(v reflect.Value) reflect.Value {
	if !v.IsValid() || v.CanInterface() || !v.CanAddr() {
		return v
	}
	return reflect.NewAt(v.Type(), unsafe.Pointer(v.UnsafeAddr())).Elem()
}

func encode(h codec.Handle, x interface{}) ([]byte, error) {
	var b []byte
	err := codec.NewEncoderBytes(&b, h).Encode(x)
	return b, err
}

func handleFor(format string, o vh.Opts) codec.Handle {
	h := vh.NewHandle(format, o)
	return h
}

func coqSFIs(s []codec.VerifSFI) string {
	var parts []string
	for _, f := range s {
		parts = append(parts, fmt.Sprintf("(%s, %s, %s)", coqStr(f.EncName), coqB(f.OmitEmpty), coqPath(f.Path)))
	}
	return "[" + strings.Join(parts, "; ") + "]"
}

func pathEq(a, b [][2]int) bool {
	if len(a) != len(b) {
		return false
	}
	for i := range a {
		if a[i] != b[i] {
			return false
		}
	}
	return true
}

// ---------------------------------------------------------------- fields

func fieldsStream(r *vh.Rng, n int, cv *vh.Cases, sum *vh.Summary, id *int) {
	g := &declGen{r: r, o: genOpts{iface: true, infoProb: 5}}
	h := handleFor("cbor", vh.Opts{})
	var types []reflect.Type
	types = append(types, fixedTypes...)
	for i := 0; i < n; i++ {
		if r.Chance(1, 12) {
			types = append(types, g.intKeyStruct())
		} else {
			types = append(types, g.randStruct(1+r.Intn(4)))
		}
		if r.Chance(1, 8) {
			g.pool = nil
		}
	}
	seen := map[reflect.Type]bool{}
	for _, rt := range types {
		if seen[rt] {
			continue
		}
		seen[rt] = true
		info, err := codec.VerifStructInfoOf(h, rt)
		cj := map[string]interface{}{"type": rt.String(), "build": buildName}
		if err != nil {
			sum.FailC("fields", "fields:error", "TypeInfos.get failed on a struct declaration", cj)
			continue
		}
		// direct oracle: the documented rules
		sf := specFields(rt)
		ta, om, kt := specSopts(rt)
		same := len(sf) == len(info.Source)
		for i := 0; same && i < len(sf); i++ {
			s := info.Source[i]
			if s.EncName != sf[i].name || s.OmitEmpty != sf[i].omit || !pathEq(s.Path, sf[i].path) {
				same = false
			}
		}
		mec := maxEmbedCount(rt)
		promoted := hasPromotedStructInfo(rt)
		if ta != info.ToArray || om != info.OmitEmpty || kt != info.KeyType {
			cls := "sopts:other"
			if promoted {
				cls = "sopts:promoted-_struct"
			}
			cj["spec"] = fmt.Sprint(ta, om, kt)
			cj["impl"] = fmt.Sprint(info.ToArray, info.OmitEmpty, info.KeyType)
			sum.FailC("fields", cls, "_struct options differ from those on the struct's own _struct field", cj)
		} else if !same {
			cls := "fields:other"
			if mec >= 3 {
				cls = "fields:type-inlined-3-times"
			}
			var a, b []string
			for _, f := range sf {
				a = append(a, fmt.Sprintf("%s%v", f.name, f.path))
			}
			for _, f := range info.Source {
				b = append(b, fmt.Sprintf("%s%v", f.EncName, f.Path))
			}
			cj["spec"] = strings.Join(a, " ")
			cj["impl"] = strings.Join(b, " ")
			sum.FailC("fields", cls, "resolved field list differs from the documented rules", cj)
		}
		// sorted must be Source sorted by name
		names := []string{}
		for _, f := range info.Source {
			names = append(names, f.EncName)
		}
		sort.Strings(names)
		sortedNames := []string{}
		for _, f := range info.Sorted {
			sortedNames = append(sortedNames, f.EncName)
		}
		if strings.Join(names, "\x00") != strings.Join(sortedNames, "\x00") {
			sum.FailC("fields", "fields:sorted", "sorted field list is not the source list sorted by name", cj)
		}
		// name search probes
		probes := []string{"", "A", "zz", "_struct", "E0"}
		for _, f := range info.Source {
			probes = append(probes, f.EncName)
			if len(f.EncName) > 0 {
				probes = append(probes, f.EncName[:len(f.EncName)-1], f.EncName+"x")
			}
		}
		var pparts []string
		for _, p := range probes {
			got := codec.VerifStructSearch(h, rt, []byte(p))
			want := -1
			for i, f := range info.Source {
				if f.EncName == p {
					want = i
				}
			}
			if got != want {
				cj["name"] = p
				sum.FailC("fields", "fields:search", "name search does not find exactly the field of that name", cj)
			}
			pparts = append(pparts, fmt.Sprintf("(%s, %s)", coqStr(p), coqZ(int64(got))))
		}
		*id++
		cv.Add(fmt.Sprintf("CFields %d %s %s %s %d %s %s [%s]", *id, coqType(rt), coqB(info.ToArray), coqB(info.OmitEmpty), info.KeyType,
			coqSFIs(info.Source), coqSFIs(info.Sorted), strings.Join(pparts, "; ")))
		sum.ModelCases++
		key := fmt.Sprintf("fields/n%d/depth%d/emb%d/ta%v/om%v/kt%d/same%v", len(info.Source), maxDepthOf(info.Source), mec, info.ToArray, info.OmitEmpty, info.KeyType, same)
		if rt.NumField() == 0 {
			key = ""
		}
		sum.Count("fields", key)
		sum.Dist[fmt.Sprintf("fields.embedcount%d", mec)]++
		sum.Dist[fmt.Sprintf("fields.depth%d", maxDepthOf(info.Source))]++
		if len(sum.Samples) < 2 {
			sum.Sample(cj)
		}
	}
}

func maxDepthOf(s []codec.VerifSFI) int {
	m := 0
	for _, f := range s {
		if len(f.Path)-1 > m {
			m = len(f.Path) - 1
		}
	}
	return m
}

// ---------------------------------------------------------------- empty

func emptyStream(r *vh.Rng, n int, cv *vh.Cases, sum *vh.Summary, id *int) {
	h := handleFor("cbor", vh.Opts{})
	safe := codec.VerifC16SafeMode()
	g := &declGen{r: r, o: genOpts{iface: !safe}}
	for i := 0; i < n; i++ {
		var t reflect.Type
		switch r.Intn(4) {
		case 0:
			t = g.randStruct(r.Intn(2))
		case 1:
			t = reflect.TypeOf(FixOmit{})
			if r.Chance(1, 2) {
				t = bigTypes[r.Intn(len(bigTypes))] // values larger than 1024 bytes
			} else if r.Chance(1, 2) {
				t = shapedTypes[r.Intn(len(shapedTypes))] // pointer-shaped values
			}
		default:
			t = g.leaf()
		}
		if t.Kind() == reflect.Func {
			continue
		}
		v := reflect.New(t).Elem()
		fillVal(r, v, valOpts{quirks: true, iface: !safe}, 0)
		term := coqVal(v)
		if v.CanInterface() && v.Kind() != reflect.Interface && r.Chance(1, 3) {
			// the same value, not addressable (as when it is encoded by value or out of an interface)
			v = reflect.ValueOf(v.Interface())
		}
		var obs [4]bool
		k := 0
		for _, container := range []bool{false, true} {
			for _, rec := range []bool{false, true} {
				obs[k] = codec.VerifIsEmptyValue(h, v, rec, container)
				k++
			}
		}
		*id++
		cv.Add(fmt.Sprintf("CEmpty %d %s %s %s %s %s %s %s", *id, coqB(safe), coqType(t), term, coqB(obs[0]), coqB(obs[1]), coqB(obs[2]), coqB(obs[3])))
		sum.ModelCases++
		sum.Count("empty."+t.Kind().String(), fmt.Sprintf("empty/%s/%s/%v", t.Kind(), quirkClass(v), obs))
	}
}

// ---------------------------------------------------------------- enc

type mbs []interface{}

func (mbs) MapBySlice() {}

type rawMBS []codec.Raw

func (rawMBS) MapBySlice() {}

var encFormats = []string{"cbor", "msgpack", "binc", "simple", "json"}

func coqOpts(sta, canon, rec, safe, einf bool) string {
	return fmt.Sprintf("(mkOpts %s %s %s %s %s)", coqB(sta), coqB(canon), coqB(rec), coqB(safe), coqB(einf))
}

// specMap builds, from the documented rules only, the map (or value list) a struct stands for.
func specEncoding(rt reflect.Type, v reflect.Value, structToArray bool) (asArray bool, keys []string, vals []interface{}, omittedQuirk string, kt int) {
	ta, _, kt := specSopts(rt)
	asArray = ta || structToArray
	for _, f := range specFields(rt) {
		fv := rw(fieldAt(v, f.path, false))
		if f.omit {
			if c := quirkClass(fv); c != "" && omittedQuirk == "" {
				omittedQuirk = c
			}
		}
		if !asArray && f.omit && docEmpty(fv) {
			continue
		}
		keys = append(keys, f.name)
		switch {
		case !fv.IsValid():
			vals = append(vals, nil)
		case asArray && f.omit && docEmpty(fv) && isContainerKind(fv.Kind()):
			// array mode keeps the position; an empty container is written as nil
			vals = append(vals, nil)
		default:
			vals = append(vals, fv.Interface())
		}
	}
	return
}

func hasNonNilIface(v reflect.Value) bool {
	switch v.Kind() {
	case reflect.Interface:
		return !v.IsNil()
	case reflect.Ptr:
		return !v.IsNil() && hasNonNilIface(v.Elem())
	case reflect.Slice, reflect.Array:
		for i := 0; i < v.Len(); i++ {
			if hasNonNilIface(v.Index(i)) {
				return true
			}
		}
	case reflect.Struct:
		for i := 0; i < v.NumField(); i++ {
			if hasNonNilIface(v.Field(i)) {
				return true
			}
		}
	}
	return false
}

func hasMultiMap(v reflect.Value) bool {
	switch v.Kind() {
	case reflect.Map:
		return v.Len() > 1
	case reflect.Ptr, reflect.Interface:
		return !v.IsNil() && hasMultiMap(v.Elem())
	case reflect.Slice, reflect.Array:
		for i := 0; i < v.Len(); i++ {
			if hasMultiMap(v.Index(i)) {
				return true
			}
		}
	case reflect.Struct:
		for i := 0; i < v.NumField(); i++ {
			if hasMultiMap(v.Field(i)) {
				return true
			}
		}
	}
	return false
}

func isContainerKind(k reflect.Kind) bool {
	switch k {
	case reflect.Slice, reflect.Map, reflect.Array, reflect.Struct, reflect.Ptr, reflect.Interface, reflect.Chan:
		return true
	}
	return false
}

func encStream(r *vh.Rng, n int, cv *vh.Cases, sum *vh.Summary, id *int) {
	safe := codec.VerifC16SafeMode()
	for i := 0; i < n; i++ {
		g := &declGen{r: r, o: genOpts{iface: true, infoProb: 4}}
		var rt reflect.Type
		switch {
		case r.Chance(1, 5):
			rt = fixedTypes[r.Intn(len(fixedTypes))]
		case r.Chance(1, 12):
			rt = g.intKeyStruct()
		default:
			rt = g.randStruct(1 + r.Intn(3))
		}
		quirks := r.Chance(1, 4)
		if i < 3*len(fixedTypes) {
			// every run starts with the whole fixed corpus: plain values, then twice with the memory shapes
			rt = fixedTypes[i%len(fixedTypes)]
			quirks = i >= len(fixedTypes)
		} else if r.Chance(1, 6) {
			// the omitempty-focused corpus, with the memory shapes the emptiness tests treat differently
			rt = []reflect.Type{reflect.TypeOf(FixOmit{}), reflect.TypeOf(FixOmitArr{}), reflect.TypeOf(FixOwnInfo{}),
				reflect.TypeOf(FixBig{}), reflect.TypeOf(FixBigArr{}), reflect.TypeOf(FixBigAll{}),
				reflect.TypeOf(FixPtrShaped{}), reflect.TypeOf(FixMapShaped{}), reflect.TypeOf(FixShapedOuter{}), reflect.TypeOf(FixShapedIn{}),
				reflect.TypeOf(FixPtrZero{}), reflect.TypeOf(FixPtrZeroAll{})}[r.Intn(12)]
			quirks = rt.NumField() > 5 || r.Bool()
		}
		v := reflect.New(rt).Elem()
		fillVal(r, v, valOpts{quirks: quirks, iface: true}, 0)
		sta, rec := r.Chance(1, 4), r.Chance(1, 4)
		if i < 3*len(fixedTypes) {
			sta, rec = i >= 2*len(fixedTypes), false // third pass: StructToArray
		}
		info, err := codec.VerifStructInfoOf(handleFor("cbor", vh.Opts{}), rt)
		if err != nil {
			continue
		}
		specOK := !hasPromotedStructInfo(rt) && maxEmbedCount(rt) < 3
		for _, format := range encFormats {
			// --- direct oracle, canonical
			o := vh.Opts{"Canonical": true, "StructToArray": sta, "RecursiveEmptyCheck": rec}
			h := handleFor(format, o)
			got, err1 := encode(h, v.Addr().Interface())
			// encoding the struct by value (not addressable) must give the same bytes as through a pointer
			if got2, errv := encode(h, v.Interface()); err1 == nil && (errv != nil || !bytes.Equal(got, got2)) {
				sum.FailC("enc", "enc:by-value-differs-from-by-pointer", "Encode(structValue) differs from Encode(&structValue)",
					map[string]interface{}{"format": format, "type": rt.String(), "value": fmt.Sprintf("%+v", v.Interface()), "opts": o.String(), "build": buildName,
						"by_pointer": vh.Hex(got), "by_value": vh.Hex(got2), "err_by_value": fmt.Sprint(errv), "seed_index": i})
			}
			asArray, keys, vals, quirk, kt := specEncoding(rt, v, sta)
			cj := map[string]interface{}{"format": format, "type": rt.String(), "value": fmt.Sprintf("%+v", v.Interface()), "opts": o.String(), "build": buildName, "seed_index": i}
			var want []byte
			var err2 error
			switch {
			case asArray:
				if vals == nil {
					vals = []interface{}{}
				}
				want, err2 = encode(h, vals)
			case kt == 0:
				m := map[string]interface{}{}
				for k := range keys {
					m[keys[k]] = vals[k]
				}
				want, err2 = encode(h, m)
			default:
				// integer keys: keep the struct's (name-sorted) order
				idx := make([]int, len(keys))
				for k := range idx {
					idx[k] = k
				}
				sort.Slice(idx, func(a, b int) bool { return keys[idx[a]] < keys[idx[b]] })
				var m mbs
				for _, k := range idx {
					var kk interface{}
					switch kt {
					case 1:
						n, _ := strconv.ParseInt(keys[k], 10, 64)
						kk = n
					case 2:
						n, _ := strconv.ParseUint(keys[k], 10, 64)
						kk = n
					default:
						n, _ := strconv.ParseFloat(keys[k], 64)
						kk = n
					}
					m = append(m, kk, vals[k])
				}
				if m == nil {
					m = mbs{}
				}
				want, err2 = encode(h, m)
			}
			if rec {
				// RecursiveEmptyCheck: the documentation only says what "might" be descended into;
				// no independent oracle, the model correspondence below still applies
			} else if specOK && (err1 != nil) != (err2 != nil) {
				cj["err_struct"], cj["err_map"] = fmt.Sprint(err1), fmt.Sprint(err2)
				sum.FailC("enc", "enc:error-differs", "encoding the struct and encoding the documented map do not fail alike", cj)
			} else if specOK && err1 == nil && !bytes.Equal(got, want) {
				cj["got"], cj["want"] = vh.Hex(got), vh.Hex(want)
				// root cause: the omitempty fields on which the build's emptiness test and the
				// documented emptiness disagree, by memory shape
				cls := "enc:other"
				var shapes []string
				for _, f := range specFields(rt) {
					if !f.omit {
						continue
					}
					fv := rw(fieldAt(v, f.path, false))
					doc := docEmpty(fv)
					if asArray {
						doc = doc && fv.IsValid() && isContainerKind(fv.Kind())
					}
					impl := !asArray
					if fv.IsValid() {
						impl = codec.VerifIsEmptyValue(h, fv, rec, asArray)
					}
					if impl != doc {
						q := quirkClass(fv)
						if q == "" {
							q = "unclassified-" + fv.Kind().String()
						}
						dup := false
						for _, x := range shapes {
							dup = dup || x == q
						}
						if !dup {
							shapes = append(shapes, q)
						}
					}
				}
				if len(shapes) == 0 && format == "json" && !asArray {
					for _, k := range keys {
						if strings.ContainsAny(k, "<>&") {
							cls = "enc:json-html-chars-in-field-name"
						}
					}
				}
				if len(shapes) > 0 {
					sort.Strings(shapes)
					cls = "omitempty:" + buildName + ":" + strings.Join(shapes, "+")
				}
				cj["quirk"] = quirk
				what := "canonical encoding of the struct differs from the canonical encoding of the map its tags describe"
				if asArray {
					what = "encoding of the struct in array mode differs from the encoding of its field value list"
				}
				sum.FailC("enc", cls, what, cj)
			}
			sum.Count("enc."+format, fmt.Sprintf("enc/%s/n%d/arr%v/rec%v/quirk%s/kt%d", format, len(info.Source), asArray, rec, quirk, kt))
			// --- model case: entries split with codec.Raw, any order option
			if format == "binc" || format == "json" || info.KeyType == 3 {
				// binc: symbols span values; json: codec.Raw keeps separators
				continue
			}
			if safe && rec && hasNonNilIface(v) {
				continue // codec.safe + RecursiveEmptyCheck descends into interface values: dynamic types are not modelled
			}
			canon := r.Bool() || hasMultiMap(v) // a map of several entries has no fixed order unless Canonical
			o2 := vh.Opts{"Canonical": canon, "StructToArray": sta, "RecursiveEmptyCheck": rec}
			h2 := handleFor(format, o2)
			b2, err := encode(h2, v.Addr().Interface())
			if err != nil {
				continue
			}
			nilBytes, _ := encode(h2, nil)
			leafTerm := func(raw []byte) string {
				if bytes.Equal(raw, nilBytes) || len(raw) == 0 {
					return "INil"
				}
				return "(IBytes " + vh.CoqBytes(raw) + ")"
			}
			var obs string
			arrMode := info.ToArray || sta
			ok := true
			if arrMode {
				var raws []codec.Raw
				if err := codec.NewDecoderBytes(b2, h2).Decode(&raws); err != nil {
					ok = false
				}
				var parts []string
				for _, x := range raws {
					parts = append(parts, leafTerm(x))
				}
				obs = "(IArr [" + strings.Join(parts, "; ") + "])"
			} else {
				var raws rawMBS
				if err := codec.NewDecoderBytes(b2, h2).Decode(&raws); err != nil || len(raws)%2 != 0 {
					ok = false
				}
				var parts []string
				for k := 0; ok && k+1 < len(raws); k += 2 {
					var key interface{}
					if err := codec.NewDecoderBytes(raws[k], h2).Decode(&key); err != nil {
						ok = false
						break
					}
					var kt string
					switch x := key.(type) {
					case string:
						kt = "(IStr " + coqStr(x) + ")"
					case []byte:
						kt = "(IStr " + coqStr(string(x)) + ")"
					case int64:
						if info.KeyType == 2 && x >= 0 {
							kt = fmt.Sprintf("(IUint %d%%N)", x)
						} else {
							kt = "(IInt " + coqZ(x) + ")"
						}
					case uint64:
						if info.KeyType == 1 {
							kt = "(IInt " + coqZ(int64(x)) + ")"
						} else {
							kt = fmt.Sprintf("(IUint %d%%N)", x)
						}
					default:
						ok = false
					}
					parts = append(parts, "("+kt+", "+leafTerm(raws[k+1])+")")
				}
				obs = "(IMap [" + strings.Join(parts, "; ") + "])"
			}
			if !ok {
				continue
			}
			// leaves: every candidate field value encoded on its own
			var leaves []string
			for _, f := range specCands(rt, false, nil) {
				fv := rw(fieldAt(v, f.path, false))
				if !fv.IsValid() {
					continue
				}
				raw, err := encode(h2, fv.Interface())
				if err != nil {
					ok = false
					break
				}
				leaves = append(leaves, "("+coqPath(f.path)+", "+leafTerm(raw)+")")
			}
			if !ok {
				continue
			}
			*id++
			cv.Add(fmt.Sprintf("CEnc %d %s %s %s [%s] %s", *id, coqOpts(sta, canon, rec, safe, false), coqType(rt), coqVal(v), strings.Join(leaves, "; "), obs))
			sum.ModelCases++
		}
		if i < 2 {
			sum.Sample(map[string]interface{}{"type": rt.String(), "value": fmt.Sprintf("%+v", v.Interface())})
		}
	}
}

// ---------------------------------------------------------------- dec

func decStream(r *vh.Rng, n int, cv *vh.Cases, sum *vh.Summary, id *int) {
	safe := codec.VerifC16SafeMode()
	for i := 0; i < n; i++ {
		g := &declGen{r: r, o: genOpts{iface: true, infoProb: 5}}
		var rt reflect.Type
		switch {
		case r.Chance(1, 5):
			rt = fixedTypes[r.Intn(len(fixedTypes))]
		case r.Chance(1, 12):
			rt = g.intKeyStruct()
		default:
			rt = g.randStruct(1 + r.Intn(3))
		}
		if i < len(fixedTypes) {
			rt = fixedTypes[i] // the whole fixed corpus first
		}
		if rt == reflect.TypeOf(FixIface{}) {
			continue
		}
		info, err := codec.VerifStructInfoOf(handleFor("cbor", vh.Opts{}), rt)
		if err != nil || info.KeyType == 3 {
			continue
		}
		specOK := !hasPromotedStructInfo(rt) && maxEmbedCount(rt) < 3
		format := encFormats[r.Intn(len(encFormats))]
		einf := r.Bool()
		h := handleFor(format, vh.Opts{"ErrorIfNoField": einf})
		// the pre-populated destination, twice (same random choices)
		vr := r.Fork()
		seedState := *vr
		d0 := reflect.New(rt).Elem()
		fillVal(vr, d0, valOpts{iface: false}, 0)
		vr2 := seedState
		d1 := reflect.New(rt).Elem()
		fillVal(&vr2, d1, valOpts{iface: false}, 0)
		before := coqVal(d0)
		sf := specFields(rt)
		arrMode := r.Chance(1, 4)
		// the stream: a partial map (or a prefix array), keys in a chosen order
		type entry struct {
			key    string
			known  int // index into sf, -1 unknown
			isNil  bool
			newVal reflect.Value
		}
		var entries []entry
		if arrMode {
			k := r.Intn(len(sf) + 3)
			for j := 0; j < k; j++ {
				e := entry{known: -1}
				if j < len(sf) {
					e.known = j
				}
				entries = append(entries, e)
			}
		} else {
			perm := make([]int, len(sf))
			for j := range perm {
				perm[j] = j
			}
			for j := len(perm) - 1; j > 0; j-- {
				k := r.Intn(j + 1)
				perm[j], perm[k] = perm[k], perm[j]
			}
			for _, j := range perm {
				if r.Chance(1, 2) {
					entries = append(entries, entry{key: sf[j].name, known: j})
				}
			}
			if r.Chance(1, 3) {
				unk := []string{"nosuch", "", "A ", "a", "Aa"}[r.Intn(5)]
				isKnown := false
				for _, f := range sf {
					if f.name == unk {
						isKnown = true
					}
				}
				if !isKnown && (info.KeyType == 0) {
					pos := r.Intn(len(entries) + 1)
					entries = append(entries[:pos], append([]entry{{key: unk, known: -1}}, entries[pos:]...)...)
				}
			}
		}
		var stream mbs
		var arr []interface{}
		for k := range entries {
			e := &entries[k]
			var val interface{}
			if e.known >= 0 {
				f := sf[e.known]
				e.isNil = r.Chance(1, 5)
				if !e.isNil {
					nv := reflect.New(f.base).Elem()
					fillVal(r, nv, valOpts{iface: false}, 1)
					e.newVal = nv
					if f.base.Kind() == reflect.Func {
						e.isNil = true
					} else {
						val = nv.Interface()
					}
				}
			} else {
				val = int64(7)
			}
			var kk interface{} = e.key
			if info.KeyType == 1 {
				nn, _ := strconv.ParseInt(e.key, 10, 64)
				kk = nn
			} else if info.KeyType == 2 {
				nn, _ := strconv.ParseUint(e.key, 10, 64)
				kk = nn
			}
			stream = append(stream, kk, val)
			arr = append(arr, val)
		}
		var bs []byte
		if arrMode {
			if arr == nil {
				arr = []interface{}{}
			}
			bs, err = encode(h, arr)
		} else {
			if stream == nil {
				stream = mbs{}
			}
			bs, err = encode(h, stream)
		}
		if err != nil {
			continue
		}
		derr := codec.NewDecoderBytes(bs, h).Decode(d0.Addr().Interface())
		// expected, from the documented rules, on the twin d1
		expectErr := false
		var results []string
		var items []string
		nilBytes, _ := encode(h, nil)
		for _, e := range entries {
			var valItem string
			if e.known < 0 {
				valItem = "(IInt 7%Z)"
				if einf {
					expectErr = true
				}
			} else {
				f := sf[e.known]
				var raw []byte
				if !e.isNil {
					raw, _ = encode(h, e.newVal.Interface())
				}
				if e.isNil || bytes.Equal(raw, nilBytes) {
					valItem = "INil"
					if !expectErr {
						if b := rw(fieldAt(d1, f.path, true)); b.IsValid() {
							b.Set(reflect.Zero(b.Type()))
						}
					}
				} else {
					valItem = fmt.Sprintf("(IUint %d%%N)", len(results))
					if !expectErr {
						b := rw(fieldAlloc(d1, f.path))
						codec.NewDecoderBytes(raw, h).Decode(b.Addr().Interface())
						results = append(results, coqVal(b))
					} else {
						results = append(results, "(MBool false)")
					}
				}
			}
			if arrMode {
				items = append(items, valItem)
			} else {
				var kt string
				switch info.KeyType {
				case 0:
					kt = "(IStr " + coqStr(e.key) + ")"
				case 1:
					nn, _ := strconv.ParseInt(e.key, 10, 64)
					kt = "(IInt " + coqZ(nn) + ")"
				case 2:
					nn, _ := strconv.ParseUint(e.key, 10, 64)
					kt = fmt.Sprintf("(IUint %d%%N)", nn)
				}
				items = append(items, "("+kt+", "+valItem+")")
			}
			if expectErr {
				break
			}
		}
		cj := map[string]interface{}{"format": format, "type": rt.String(), "stream": vh.Hex(bs), "ErrorIfNoField": einf, "build": buildName, "array": arrMode, "seed_index": i}
		var keys []string
		hasEmptyKey := false
		for _, e := range entries {
			keys = append(keys, e.key)
			if e.known < 0 && e.key == "" && !arrMode {
				hasEmptyKey = true
			}
		}
		cj["keys"] = keys
		if specOK {
			switch {
			case expectErr && derr == nil:
				cls := "dec:unknown-key-accepted"
				if hasEmptyKey {
					cls = "dec:empty-unknown-key-accepted"
				}
				sum.FailC("dec", cls, "unknown key with ErrorIfNoField set did not produce an error", cj)
			case !expectErr && derr != nil:
				cj["err"] = "decode error"
				sum.FailC("dec", "dec:unexpected-error", "decoding a partial map of the struct's own fields failed", cj)
			case !expectErr && !vh.DeepEq(d0, d1, vh.EqOpts{}):
				cj["got"] = fmt.Sprintf("%+v", d0.Interface())
				cj["want"] = fmt.Sprintf("%+v", d1.Interface())
				cj["before"] = before
				sum.FailC("dec", "dec:fields", "decoding a partial map did not set exactly the mentioned fields (others untouched)", cj)
			}
		}
		// model case (the model sees the whole stream, not only up to the first unknown key)
		if !expectErr || true {
			var obs string
			if derr != nil {
				obs = "None"
			} else {
				obs = "(Some " + coqVal(d0) + ")"
			}
			var st string
			if arrMode {
				st = "(IArr [" + strings.Join(items, "; ") + "])"
			} else {
				st = "(IMap [" + strings.Join(items, "; ") + "])"
			}
			// after an expected error the remaining entries were not printed: only emit complete streams
			if !expectErr || derr != nil {
				if !expectErr || len(items) == len(entries) || derr != nil {
					*id++
					cv.Add(fmt.Sprintf("CDec %d %s %s %s %s [%s] %s", *id, coqOpts(false, false, false, safe, einf), coqType(rt), before, st, strings.Join(results, "; "), obs))
					sum.ModelCases++
				}
			}
		}
		sum.Count("dec."+format, fmt.Sprintf("dec/%s/n%d/e%d/arr%v/einf%v/err%v", format, len(sf), len(entries), arrMode, einf, derr != nil))
	}
}

// keysStream: structs whose keys are integers or floats (tags on both sides of the int64
// boundary, negative, fractional) decode from their own encoding, in every format.
func keysStream(r *vh.Rng, sum *vh.Summary) {
	for _, rt := range keyedTypes {
		for _, format := range encFormats {
			for rep := 0; rep < 3; rep++ {
				v := reflect.New(rt).Elem()
				fillVal(r, v, valOpts{}, 0)
				h := handleFor(format, vh.Opts{"Canonical": rep == 1})
				bs, err := encode(h, v.Addr().Interface())
				cj := map[string]interface{}{"format": format, "type": rt.String(), "value": fmt.Sprintf("%+v", v.Interface()), "build": buildName}
				if err != nil {
					sum.FailC("keys", "keys:encode-error", "a struct with numeric keys does not encode", cj)
					continue
				}
				cj["stream"] = vh.Hex(bs)
				back := reflect.New(rt)
				if err := codec.NewDecoderBytes(bs, h).Decode(back.Interface()); err != nil {
					sum.FailC("keys", "keys:decode-error:"+rt.Name(), "a struct with numeric keys does not decode from its own encoding", cj)
				} else if !vh.DeepEq(back.Elem(), v, vh.EqOpts{NilEqEmpty: true, NegZeroEq: true}) {
					cj["got"] = fmt.Sprintf("%+v", back.Elem().Interface())
					sum.FailC("keys", "keys:roundtrip:"+rt.Name(), "a struct with numeric keys decodes from its own encoding to a different value", cj)
				}
				sum.Count("keys."+format, "keys/"+rt.Name()+"/"+format)
			}
		}
	}
}

// readerSweep: a json document decoded into a struct through a BUFFERED io.Reader must give what the
// []byte decode gives, wherever the buffer boundary falls: leading whitespace offsets 0..700 move
// every key across the end of a 256-byte (and a 64-byte) buffer.
type rdInner struct {
	Eta   int
	Theta string `codec:"theta_key"`
}
type rdDoc struct {
	Alpha     int
	BetaGamma string         `codec:"beta_gamma"`
	Delta     []int          `json:"delta,omitempty"`
	Epsilon   map[string]int `codec:"epsilon_map"`
	Zeta      rdInner
	Omega     bool `codec:"omega_last_field"`
}

type plainReader struct{ r io.Reader }

func (p plainReader) Read(b []byte) (int, error) { return p.r.Read(b) }

func readerSweep(sum *vh.Summary) {
	// the document is longer than the read buffer, so that the buffer is refilled in mid document
	src := rdDoc{Alpha: 12345, BetaGamma: "some text value that is a little longer than before, to push the document beyond one read buffer",
		Delta:   []int{1, 2, 3, 4, 5, 6, 7, 8, 9, 10, 11, 12, 13, 14, 15, 16, 17, 18, 19, 20},
		Epsilon: map[string]int{"first_key": 1, "second_key": 2, "third_key": 3, "fourth_key": 4, "fifth_key": 5, "sixth_key": 6},
		Zeta:    rdInner{Eta: 77, Theta: "inner text"}, Omega: true}
	for _, einf := range []bool{false, true} {
		for _, rbs := range []int{256, 64, -256} { // negative: legal whitespace before every ':'
			spaced := rbs < 0
			if spaced {
				rbs = -rbs
			}
			h := handleFor("json", vh.Opts{"ReaderBufferSize": rbs, "ErrorIfNoField": einf, "Canonical": true})
			doc, err := encode(h, &src)
			if err != nil {
				sum.FailC("reader", "reader:encode", "the sweep document does not encode", nil)
				return
			}
			if spaced {
				doc = bytes.ReplaceAll(doc, []byte(`":`), []byte(`" : `))
			}
			var want rdDoc
			if err := codec.NewDecoderBytes(doc, h).Decode(&want); err != nil || !reflect.DeepEqual(want, src) {
				sum.FailC("reader", "reader:bytes-decode", "the sweep document does not decode from []byte to the value it encodes", map[string]interface{}{"doc": string(doc)})
				return
			}
			for off := 0; off <= 700; off++ {
				in := append(bytes.Repeat([]byte{' '}, off), doc...)
				var got rdDoc
				err := codec.NewDecoder(plainReader{bytes.NewReader(in)}, h).Decode(&got)
				if err != nil || !reflect.DeepEqual(got, want) {
					sum.FailC("reader", "reader:buffered-io.Reader-differs-from-bytes", "a struct decoded from json through a buffered io.Reader differs from the []byte decode",
						map[string]interface{}{"format": "json", "ReaderBufferSize": rbs, "ErrorIfNoField": einf, "spaced": spaced, "leading_spaces": off, "doc": string(doc),
							"got": fmt.Sprintf("%+v", got), "err": err != nil, "build": buildName})
				}
				sum.Count("reader.json", fmt.Sprintf("reader/%d/%v/%d", rbs, einf, (off+len(doc))%rbs))
			}
		}
	}
}

func main() {
	nFields := flag.Int("fields", 300, "random declarations for the field-resolution stream")
	nEmpty := flag.Int("empty", 300, "values for the emptiness stream")
	nEnc := flag.Int("enc", 150, "struct values for the encode stream (x5 formats)")
	nDec := flag.Int("dec", 300, "decode cases")
	nPool := flag.Int("pool", 60, "random-order operation sequences on the scratch-list pool (the nested ones are always run)")
	cases := flag.String("cases", "/verif/build/c16/cases", "directory for the model case files")
	flag.Parse()
	if codec.VerifC16SafeMode() {
		buildName = "safe"
	}
	r := vh.NewRng(vh.SeedFromEnv())
	sum := vh.NewSummary("fields: struct declarations (reflect.StructOf: field kinds, codec/json tag forms, '-', options, _struct, embedding by value/pointer to depth 4, reused inner types, name collisions) + fixed corpus (unexported embedded, interface embedded, int keys); distinct by (field count, depth, embed multiplicity, _struct options, agrees-with-docs). empty: values x {recursive} x {container}; distinct by (kind, memory shape class, outcome). enc: declaration x value x {StructToArray, RecursiveEmptyCheck} x 5 formats; distinct by (format, field count, mode, quirk class, key type). dec: declaration x pre-populated value x partial map/array x ErrorIfNoField x format; distinct by (format, sizes, mode, outcome). hist (seed-independent): nested general-encoder struct declarations (2-3 levels x flavours x container x position x key order) x Canonical x StructToArray x 5 formats x position in the life of one Encoder x way of encoding; distinct by all of these. pool: get/put sequences on sfiRvFreeList; distinct by sequence")
	cv := vh.NewCases(*cases, casesHeader, "case", "mismatches", 40)
	id := 0
	fieldsStream(r.Fork(), *nFields, cv, sum, &id)
	emptyStream(r.Fork(), *nEmpty, cv, sum, &id)
	encStream(r.Fork(), *nEnc, cv, sum, &id)
	decStream(r.Fork(), *nDec, cv, sum, &id)
	keysStream(r.Fork(), sum)
	readerSweep(sum)
	histStream(sum)
	poolStream(r.Fork(), *nPool, cv, sum, &id)
	cv.Close()
	sum.Print()
}
